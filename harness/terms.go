package main

// Shared encoding of micro/mini terms (ast.SExpr built by the exported constructors) into the Coq model (coq/Term.v),
// generators of terms and acyclic substitutions, and an independent reference unifier used as a direct oracle.

import (
	"math"
	"fmt"
	"math/big"
	"math/rand"
	"regexp"
	"strconv"
	"strings"

	"github.com/awalterschulze/gominikanren/micro"
	"github.com/awalterschulze/gominikanren/sexpr/ast"
)

// strNum encodes a byte string as a natural number, injectively and independently of the process:
// the digits of 1 b1 b2 ... bn in base 256.
func strNum(s string) string {
	n := new(big.Int).SetInt64(1)
	for i := 0; i < len(s); i++ {
		n.Lsh(n, 8)
		n.Or(n, big.NewInt(int64(s[i])))
	}
	return n.String() + "%N"
}

var reiRe = regexp.MustCompile(`^_(0|[1-9][0-9]*)$`)

// encTerm transcribes a term built by the exported constructors into coq/Term.v syntax.
func encTerm(s *ast.SExpr) string {
	if s == nil {
		return "TNil"
	}
	if s.Pair != nil {
		return "(TPair " + encTerm(s.Pair.Car) + " " + encTerm(s.Pair.Cdr) + ")"
	}
	a := s.Atom
	switch {
	case a == nil:
		panic("encTerm: exotic struct")
	case a.Var != nil:
		return "(TVar " + coqN(a.Var.Index) + ")"
	case a.Symbol != nil:
		if reiRe.MatchString(*a.Symbol) {
			k, err := strconv.ParseUint((*a.Symbol)[1:], 10, 64)
			if err == nil {
				return "(TAtom (ARei " + coqN(k) + "))"
			}
		}
		return "(TAtom (ASym " + strNum(*a.Symbol) + "))"
	case a.Str != nil:
		return "(TAtom (AStr " + strNum(*a.Str) + "))"
	case a.Int != nil:
		return "(TAtom (AInt " + coqZ(*a.Int) + "))"
	case a.Float != nil:
		return "(TAtom (AFlt " + coqZ(floatKey(*a.Float)) + "))"
	}
	panic("encTerm: empty atom")
}

func encSubst(s micro.Substitutions) string {
	parts := make([]string, len(s))
	for i, p := range s {
		parts[i] = "(" + coqN(p.Key) + ", " + encTerm(p.Value) + ")"
	}
	return coqList(parts)
}

// showTerm prints a term unambiguously (variables by index).
func showTerm(s *ast.SExpr) string {
	if s == nil {
		return "()"
	}
	if s.Pair != nil {
		return "(" + showTerm(s.Pair.Car) + " . " + showTerm(s.Pair.Cdr) + ")"
	}
	if s.Atom != nil && s.Atom.Var != nil {
		return fmt.Sprintf("?%d", s.Atom.Var.Index)
	}
	if s.Atom != nil && s.Atom.Symbol != nil {
		// a symbol whose name reads like another kind of atom is marked, so that the printed form stays unambiguous
		name := *s.Atom.Symbol
		if _, err := strconv.ParseFloat(name, 64); err == nil || strings.HasPrefix(name, "\"") {
			return "sym:" + name
		}
	}
	return s.String()
}

func showSubst(s micro.Substitutions) string {
	parts := make([]string, len(s))
	for i, p := range s {
		parts[i] = fmt.Sprintf("?%d:=%s", p.Key, showTerm(p.Value))
	}
	return "[" + strings.Join(parts, ", ") + "]"
}

var termAtoms = []func() *ast.SExpr{
	func() *ast.SExpr { return ast.NewSymbol("a") },
	func() *ast.SExpr { return ast.NewSymbol("b") },
	func() *ast.SExpr { return ast.NewInt(0) },
	func() *ast.SExpr { return ast.NewInt(1) },
	func() *ast.SExpr { return ast.NewString("a") },
	func() *ast.SExpr { return nil },
	func() *ast.SExpr { return ast.NewFloat(0.5) },
	// atoms that only a content-exact comparison tells apart: integers beyond float64 precision, extreme integers,
	// an int / a float / a string / a symbol that print alike
	func() *ast.SExpr { return ast.NewInt(1 << 53) },
	func() *ast.SExpr { return ast.NewInt(1<<53 + 1) },
	func() *ast.SExpr { return ast.NewInt(math.MaxInt64) },
	func() *ast.SExpr { return ast.NewInt(math.MinInt64) },
	func() *ast.SExpr { return ast.NewFloat(1) },
	func() *ast.SExpr { return ast.NewString("1") },
	func() *ast.SExpr { return ast.NewSymbol("1") },
	// floats on which `==`, `<` and a three-way comparison disagree: one NaN atom (always the same pointer: a NaN is never set
	// against a second NaN value, only against itself and against other atoms), and an infinity
	func() *ast.SExpr { return nanAtom },
	func() *ast.SExpr { return ast.NewFloat(math.Inf(1)) },
}

var nanAtom = ast.NewFloat(math.NaN())

// genTerm generates a term over variables 0..nv-1.
func genTerm(r *rand.Rand, depth, nv int) *ast.SExpr {
	if depth <= 0 || r.Intn(3) == 0 {
		if nv > 0 && r.Intn(2) == 0 {
			return micro.Var(uint64(r.Intn(nv)))
		}
		return pick(r, termAtoms)()
	}
	return ast.Cons(genTerm(r, depth-1, nv), genTerm(r, depth-1, nv))
}

// genTermAbove generates a term whose variables all have index > lo (and < nv): used to build acyclic substitutions.
func genTermAbove(r *rand.Rand, depth, lo, nv int) *ast.SExpr {
	if depth <= 0 || r.Intn(3) == 0 {
		if lo+1 < nv && r.Intn(2) == 0 {
			return micro.Var(uint64(lo + 1 + r.Intn(nv-lo-1)))
		}
		return pick(r, termAtoms)()
	}
	return ast.Cons(genTermAbove(r, depth-1, lo, nv), genTermAbove(r, depth-1, lo, nv))
}

// genSubst generates an acyclic substitution with distinct keys over variables 0..nv-1, in random slice order:
// the value of variable i only mentions variables with larger index under a random relabelling.
func genSubst(r *rand.Rand, nv int) micro.Substitutions {
	perm := r.Perm(nv)
	relabel := func(t *ast.SExpr) *ast.SExpr { return mapVars(t, func(i uint64) uint64 { return uint64(perm[i]) }) }
	s := micro.Substitutions{}
	for i := 0; i < nv; i++ {
		if r.Intn(2) == 0 {
			continue
		}
		var v *ast.SExpr
		if r.Intn(3) == 0 && i+1 < nv {
			v = micro.Var(uint64(i + 1 + r.Intn(nv-i-1))) // variable-variable chain
		} else {
			v = genTermAbove(r, r.Intn(3), i, nv)
		}
		s = append(s, micro.SubPair{Key: uint64(perm[i]), Value: relabel(v)})
	}
	r.Shuffle(len(s), func(a, b int) { s[a], s[b] = s[b], s[a] })
	if len(s) == 0 {
		return nil
	}
	return s
}

func mapVars(t *ast.SExpr, f func(uint64) uint64) *ast.SExpr {
	if t == nil {
		return nil
	}
	if t.Pair != nil {
		return ast.Cons(mapVars(t.Pair.Car, f), mapVars(t.Pair.Cdr, f))
	}
	if t.Atom != nil && t.Atom.Var != nil {
		return micro.Var(f(t.Atom.Var.Index))
	}
	return t
}

// abstractTerm replaces random subterms of t by variables (so that the result is likely to unify with t).
func abstractTerm(r *rand.Rand, t *ast.SExpr, nv int) *ast.SExpr {
	if nv > 0 && r.Intn(4) == 0 {
		return micro.Var(uint64(r.Intn(nv)))
	}
	if t != nil && t.Pair != nil {
		return ast.Cons(abstractTerm(r, t.Pair.Car, nv), abstractTerm(r, t.Pair.Cdr, nv))
	}
	if r.Intn(8) == 0 {
		return pick(r, termAtoms)()
	}
	if r.Intn(6) == 0 {
		return lookAlike(r, t)
	}
	return t
}

// lookAlike returns a different atom that is easily confused with t: same printed form but another kind, or a number that a
// lossy comparison identifies with it.  (t itself when it has no look-alike.)
func lookAlike(r *rand.Rand, t *ast.SExpr) *ast.SExpr {
	if t == nil || t.Atom == nil {
		return t
	}
	a := t.Atom
	switch {
	case a.Int != nil:
		switch *a.Int {
		case 1 << 53:
			return ast.NewInt(1<<53 + 1)
		case 1<<53 + 1:
			return ast.NewInt(1 << 53)
		}
		return pick(r, []*ast.SExpr{ast.NewSymbol(fmt.Sprint(*a.Int)), ast.NewFloat(float64(*a.Int)), ast.NewString(fmt.Sprint(*a.Int))})
	case a.Symbol != nil:
		if n, err := strconv.ParseInt(*a.Symbol, 10, 64); err == nil {
			return ast.NewInt(n)
		}
		return pick(r, []*ast.SExpr{ast.NewString(*a.Symbol), ast.NewSymbol("\"" + *a.Symbol + "\"")})
	case a.Str != nil:
		return pick(r, []*ast.SExpr{ast.NewSymbol(*a.Str), ast.NewSymbol("\"" + *a.Str + "\"")})
	case a.Float != nil:
		return ast.NewSymbol(t.String())
	}
	return t
}

// ---------- independent reference unifier (direct oracle) ----------

type refSubst map[uint64]*ast.SExpr

func refWalk(t *ast.SExpr, s refSubst) *ast.SExpr {
	for t != nil && t.Atom != nil && t.Atom.Var != nil {
		v, ok := s[t.Atom.Var.Index]
		if !ok {
			return t
		}
		t = v
	}
	return t
}

func refOccurs(x uint64, t *ast.SExpr, s refSubst) bool {
	t = refWalk(t, s)
	if t == nil {
		return false
	}
	if t.Atom != nil && t.Atom.Var != nil {
		return t.Atom.Var.Index == x
	}
	if t.Pair != nil {
		return refOccurs(x, t.Pair.Car, s) || refOccurs(x, t.Pair.Cdr, s)
	}
	return false
}

func isVar(t *ast.SExpr) bool { return t != nil && t.Atom != nil && t.Atom.Var != nil }

// refUnify mutates s; returns false when there is no unifier.
func refUnify(u, v *ast.SExpr, s refSubst) bool {
	u, v = refWalk(u, s), refWalk(v, s)
	if isVar(u) && isVar(v) && u.Atom.Var.Index == v.Atom.Var.Index {
		return true
	}
	if isVar(u) {
		if refOccurs(u.Atom.Var.Index, v, s) {
			return false
		}
		s[u.Atom.Var.Index] = v
		return true
	}
	if isVar(v) {
		if refOccurs(v.Atom.Var.Index, u, s) {
			return false
		}
		s[v.Atom.Var.Index] = u
		return true
	}
	if u == nil || v == nil {
		return u == nil && v == nil
	}
	if u.Pair != nil && v.Pair != nil {
		return refUnify(u.Pair.Car, v.Pair.Car, s) && refUnify(u.Pair.Cdr, v.Pair.Cdr, s)
	}
	if u.Pair != nil || v.Pair != nil {
		return false
	}
	return u.Atom.String() == v.Atom.String() && atomKind(u.Atom) == atomKind(v.Atom)
}

func atomKind(a *ast.Atom) int {
	switch {
	case a.Str != nil:
		return 0
	case a.Symbol != nil:
		return 1
	case a.Float != nil:
		return 2
	case a.Int != nil:
		return 3
	}
	return 4
}

func refResolve(t *ast.SExpr, s refSubst) *ast.SExpr {
	t = refWalk(t, s)
	if t != nil && t.Pair != nil {
		return ast.Cons(refResolve(t.Pair.Car, s), refResolve(t.Pair.Cdr, s))
	}
	return t
}

func toRef(s micro.Substitutions) refSubst {
	m := refSubst{}
	for _, p := range s {
		if _, dup := m[p.Key]; !dup { // assv: first binding wins
			m[p.Key] = p.Value
		}
	}
	return m
}

// canonVec prints the vector of resolved images of the given variables, with unbound variables renamed by first occurrence.
func canonVec(vars []uint64, s refSubst) string {
	names := map[uint64]int{}
	var show func(t *ast.SExpr) string
	show = func(t *ast.SExpr) string {
		if t == nil {
			return "()"
		}
		if t.Pair != nil {
			return "(" + show(t.Pair.Car) + " . " + show(t.Pair.Cdr) + ")"
		}
		if isVar(t) {
			k, ok := names[t.Atom.Var.Index]
			if !ok {
				k = len(names)
				names[t.Atom.Var.Index] = k
			}
			return fmt.Sprintf("_%d", k)
		}
		return fmt.Sprintf("%d:%s", atomKind(t.Atom), t.Atom.String())
	}
	parts := make([]string, len(vars))
	for i, x := range vars {
		parts[i] = show(refResolve(micro.Var(x), s))
	}
	return strings.Join(parts, " | ")
}

func termVars(t *ast.SExpr, acc map[uint64]bool) {
	if t == nil {
		return
	}
	if t.Pair != nil {
		termVars(t.Pair.Car, acc)
		termVars(t.Pair.Cdr, acc)
		return
	}
	if isVar(t) {
		acc[t.Atom.Var.Index] = true
	}
}


// substCyclic: the binding graph of s (variable -> variables of its value, first binding per key as assv reads it) has a cycle.
func substCyclic(s micro.Substitutions) bool {
	first := map[uint64]*ast.SExpr{}
	for _, p := range s {
		if _, ok := first[p.Key]; !ok {
			first[p.Key] = p.Value
		}
	}
	state := map[uint64]int{} // 1 = on the stack, 2 = done
	var visit func(x uint64) bool
	visit = func(x uint64) bool {
		switch state[x] {
		case 1:
			return true
		case 2:
			return false
		}
		state[x] = 1
		if v, ok := first[x]; ok {
			vs := map[uint64]bool{}
			termVars(v, vs)
			for y := range vs {
				if visit(y) {
					return true
				}
			}
		}
		state[x] = 2
		return false
	}
	for k := range first {
		if visit(k) {
			return true
		}
	}
	return false
}
