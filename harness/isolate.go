package main

// Process isolation for observations that may crash the Go runtime (stack exhaustion is fatal, not a panic) or hang.
// The parent generates all cases deterministically; workers (re-executions of this binary with -mode worker)
// regenerate the same cases and print one observation per index; a failing batch is bisected.

import (
	"bufio"
	"bytes"
	"context"
	"encoding/json"
	"fmt"
	"os"
	"os/exec"
	"runtime/debug"
	"strconv"
	"strings"
	"time"
)

type isoResult struct {
	Obs      map[int]string // index -> observation (JSON)
	Diverged map[int]string // index -> reason (crash / timeout)
}

func workerRange(cfg *Config) (int, int, bool) {
	if cfg.Mode != "worker" {
		return 0, 0, false
	}
	parts := strings.Split(cfg.Arg, ":")
	lo, _ := strconv.Atoi(parts[0])
	hi, _ := strconv.Atoi(parts[1])
	return lo, hi, true
}

// runWorker prints observations for [lo,hi) and exits.
func runWorker(lo, hi int, obs func(i int) string) {
	debug.SetMaxStack(96 << 20)
	w := bufio.NewWriter(os.Stdout)
	for i := lo; i < hi; i++ {
		o := obs(i)
		b, _ := json.Marshal(o)
		fmt.Fprintf(w, "%d\t%s\n", i, b)
		w.Flush()
	}
	os.Exit(0)
}

func isolate(prop string, cfg *Config, n int, batch int, perCase time.Duration) *isoResult {
	res := &isoResult{Obs: map[int]string{}, Diverged: map[int]string{}}
	// C11 / C12 measure terminating searches against wall-clock limits: a case that ran out of time is run once more, alone and
	// with four times the limit, before it is reported (a loaded machine is not a search that hangs)
	retried := map[int]bool{}
	scale := time.Duration(1)
	var run func(lo, hi int)
	run = func(lo, hi int) {
		if lo >= hi {
			return
		}
		if len(res.Diverged) >= 25 {
			for i := lo; i < hi; i++ {
				res.Diverged[i] = "skipped: too many diverging cases"
			}
			return
		}
		ctx, cancel := context.WithTimeout(context.Background(), scale*(5*time.Second+time.Duration(hi-lo)*perCase))
		defer cancel()
		cmd := exec.CommandContext(ctx, os.Args[0], prop, "-mode", "worker", "-arg", fmt.Sprintf("%d:%d", lo, hi),
			"-seed", fmt.Sprint(cfg.Seed), "-n", fmt.Sprint(cfg.N), "-tier", cfg.Tier)
		cmd.Env = append(os.Environ(), "GOMEMLIMIT=3GiB", "GOGC=50")
		var out, errb bytes.Buffer
		cmd.Stdout = &out
		cmd.Stderr = &errb
		err := cmd.Run()
		got := map[int]string{}
		sc := bufio.NewScanner(&out)
		sc.Buffer(make([]byte, 1<<20), 64<<20)
		for sc.Scan() {
			line := sc.Text()
			k := strings.IndexByte(line, '\t')
			if k < 0 {
				continue
			}
			i, e := strconv.Atoi(line[:k])
			if e != nil {
				continue
			}
			var s string
			if json.Unmarshal([]byte(line[k+1:]), &s) == nil {
				got[i] = s
			}
		}
		for i, s := range got {
			res.Obs[i] = s
		}
		if err == nil && len(got) == hi-lo {
			return
		}
		// the first index without an observation is the culprit (workers go in order)
		first := lo
		for first < hi {
			if _, ok := got[first]; !ok {
				break
			}
			first++
		}
		if first >= hi {
			return
		}
		reason := "crash"
		if ctx.Err() != nil {
			reason = "timeout"
		} else {
			e := errb.String()
			switch {
			case strings.Contains(e, "stack exceeds"):
				reason = "stack overflow (goroutine stack exceeds limit)"
			case strings.Contains(e, "out of memory"):
				reason = "out of memory"
			case len(e) > 0:
				reason = "crash: " + firstLine(e)
			}
		}
		if reason == "timeout" && (prop == "C11" || prop == "C12") && !retried[first] {
			retried[first] = true
			scale = 4
			run(first, first+1)
			scale = 1
			run(first+1, hi)
			return
		}
		res.Diverged[first] = reason
		run(first+1, hi)
	}
	for lo := 0; lo < n; lo += batch {
		hi := lo + batch
		if hi > n {
			hi = n
		}
		run(lo, hi)
	}
	return res
}

func firstLine(s string) string {
	if k := strings.IndexByte(s, '\n'); k >= 0 {
		s = s[:k]
	}
	if len(s) > 200 {
		s = s[:200]
	}
	return s
}
