package main

// C18: reflecttools.Map / Any / ZipReduce / IsNil against the model coq/Reflect.v, plus direct oracles
// (identity-Map deep equality incl. nil-stays-nil, no panic, keys with nil values kept, fresh result container
// for non-nil containers, argument unwritten, one call per child, untyped-nil results stored as the slot's zero
// value, Any == naive loop, ZipReduce == naive fold with early exit).

import (
	"fmt"
	"math/rand"
	"reflect"
	"sort"
	"strconv"
	"strings"

	rt "github.com/awalterschulze/gominikanren/gomini/reflecttools"
)

func init() { register("C18", runC18) }

// ---- the family of Go types ----

type S18 struct {
	A *S18
	B []*S18
	C *int
	D map[string]*S18
}
type T18 struct {
	X int
	Y string
	Z []int
}
type U18 struct {
	P *S18
	Q *int
}
type W18 struct { // interface-typed slots
	V any
	L []any
}
type E18 struct{}

// exported fields are the ones Go says are exported: an upper-case first LETTER, ASCII or not
type N18 struct {
	Ärger *int
	B     *N18
	Ωmega []int
	Élan  any
}

func typeOf18[T any]() reflect.Type { var p *T; return reflect.TypeOf(p).Elem() }

// top-level types (main ones repeated to weight the choice)
var c18Types = []reflect.Type{
	typeOf18[*S18](), typeOf18[*S18](), typeOf18[*S18](), typeOf18[*S18](),
	typeOf18[[]*S18](), typeOf18[[]*S18](), typeOf18[[]*S18](),
	typeOf18[map[string]*S18](), typeOf18[map[string]*S18](),
	typeOf18[[]int](), typeOf18[[]int](), typeOf18[[]*int](),
	typeOf18[map[string]int](),
	typeOf18[*T18](), typeOf18[*T18](), typeOf18[*U18](), typeOf18[*W18](), typeOf18[*E18](),
	typeOf18[[]any](), typeOf18[map[string]any](),
	typeOf18[*int](), typeOf18[int](), typeOf18[string](),
	typeOf18[S18](), typeOf18[**S18](), typeOf18[*[]int](), typeOf18[*any](),
	typeOf18[*N18](), typeOf18[*N18](), typeOf18[[]*N18](),
}

// dynamic types put into interface-typed slots
var c18IfaceTypes = []reflect.Type{
	typeOf18[int](), typeOf18[string](), typeOf18[*int](), typeOf18[*S18](), typeOf18[[]int](), typeOf18[*T18](),
	// containers and pointers whose element type is the slot's own interface type (a *any inside an any, as a gomini variable of
	// type *any is), records with interface-typed slots inside interface-typed slots
	typeOf18[*any](), typeOf18[*any](), typeOf18[[]any](), typeOf18[map[string]any](), typeOf18[*W18](), typeOf18[**int](),
}

// ---- the gval encoding (mirror of Reflect.gval) ----

const (
	g18Nil   = iota
	g18Iface // an interface-typed slot holding kids[0]
	g18NilPtr
	g18StructPtr
	g18Ptr
	g18Struct
	g18Slice
	g18Map
	g18Scalar
)

type gv18 struct {
	tag   int
	isnil bool
	kids  []gv18
	keys  []uint64
	k     uint64
	n     int64
}

func key18(s string) uint64 {
	n, err := strconv.ParseUint(strings.TrimPrefix(s, "k"), 10, 64)
	if err != nil || !strings.HasPrefix(s, "k") {
		panic("c18: map key outside the family: " + s)
	}
	return n
}

// strings of the family: "" for 0 (the zero value), "s<n>" otherwise
func str18(n int64) string {
	if n == 0 {
		return ""
	}
	return "s" + strconv.FormatInt(n, 10)
}
func strVal18(s string) int64 {
	if s == "" {
		return 0
	}
	n, err := strconv.ParseInt(strings.TrimPrefix(s, "s"), 10, 64)
	if err != nil || !strings.HasPrefix(s, "s") || n == 0 {
		panic("c18: string outside the family: " + s)
	}
	return n
}

// enc18 encodes the dynamic value of an any (never a g18Iface at the top).
func enc18(x any) gv18 { return encV18(reflect.ValueOf(x)) }

// unwrap18 is Value.Interface() of a slot.
func unwrap18(g gv18) gv18 {
	if g.tag == g18Iface {
		return g.kids[0]
	}
	return g
}

func unwrapAll18(l []gv18) []gv18 {
	out := make([]gv18, len(l))
	for i, g := range l {
		out[i] = unwrap18(g)
	}
	return out
}

func encV18(v reflect.Value) gv18 {
	if !v.IsValid() {
		return gv18{tag: g18Nil}
	}
	switch v.Kind() {
	case reflect.Interface:
		if v.IsNil() {
			return gv18{tag: g18Nil}
		}
		return gv18{tag: g18Iface, kids: []gv18{encV18(v.Elem())}}
	case reflect.Ptr:
		if v.IsNil() {
			return gv18{tag: g18NilPtr}
		}
		if v.Elem().Kind() == reflect.Struct {
			g := encV18(v.Elem())
			g.tag = g18StructPtr
			return g
		}
		return gv18{tag: g18Ptr, kids: []gv18{encV18(v.Elem())}}
	case reflect.Struct:
		g := gv18{tag: g18Struct}
		for i := 0; i < v.NumField(); i++ {
			g.kids = append(g.kids, encV18(v.Field(i)))
		}
		return g
	case reflect.Slice:
		g := gv18{tag: g18Slice, isnil: v.IsNil()}
		for i := 0; i < v.Len(); i++ {
			g.kids = append(g.kids, encV18(v.Index(i)))
		}
		return g
	case reflect.Map:
		g := gv18{tag: g18Map, isnil: v.IsNil()}
		ks := v.MapKeys()
		sort.Slice(ks, func(i, j int) bool { return key18(ks[i].String()) < key18(ks[j].String()) })
		for _, k := range ks {
			g.keys = append(g.keys, key18(k.String()))
			g.kids = append(g.kids, encV18(v.MapIndex(k)))
		}
		return g
	case reflect.Int:
		return gv18{tag: g18Scalar, k: 0, n: v.Int()}
	case reflect.String:
		return gv18{tag: g18Scalar, k: 1, n: strVal18(v.String())}
	}
	panic("c18: kind outside the family: " + v.Kind().String())
}

func (g gv18) coq() string {
	kids := func() string {
		parts := make([]string, len(g.kids))
		for i, k := range g.kids {
			parts[i] = k.coq()
		}
		return coqList(parts)
	}
	switch g.tag {
	case g18Nil:
		return "GNil"
	case g18Iface:
		return "(GIface " + g.kids[0].coq() + ")"
	case g18NilPtr:
		return "GNilPtr"
	case g18StructPtr:
		return "(GStructPtr " + kids() + ")"
	case g18Ptr:
		return "(GPtr " + g.kids[0].coq() + ")"
	case g18Struct:
		return "(GStruct " + kids() + ")"
	case g18Slice:
		return "(GSlice " + coqBool(g.isnil) + " " + kids() + ")"
	case g18Map:
		parts := make([]string, len(g.kids))
		for i, k := range g.kids {
			parts[i] = "(" + coqN(g.keys[i]) + ", " + k.coq() + ")"
		}
		return "(GMap " + coqBool(g.isnil) + " " + coqList(parts) + ")"
	default:
		return "(GScalar " + coqN(g.k) + " " + coqZ(g.n) + ")"
	}
}

// String is a compact Go-like rendering for reports.
func (g gv18) String() string {
	kids := func() string {
		parts := make([]string, len(g.kids))
		for i, k := range g.kids {
			parts[i] = k.String()
		}
		return strings.Join(parts, " ")
	}
	switch g.tag {
	case g18Nil:
		return "nil"
	case g18Iface:
		return "any(" + g.kids[0].String() + ")"
	case g18NilPtr:
		return "nilptr"
	case g18StructPtr:
		return "&{" + kids() + "}"
	case g18Ptr:
		return "&" + g.kids[0].String()
	case g18Struct:
		return "{" + kids() + "}"
	case g18Slice:
		if g.isnil {
			return "[](nil)"
		}
		return "[" + kids() + "]"
	case g18Map:
		if g.isnil {
			return "map(nil)"
		}
		parts := make([]string, len(g.kids))
		for i, k := range g.kids {
			parts[i] = fmt.Sprintf("k%d:%s", g.keys[i], k.String())
		}
		return "map[" + strings.Join(parts, " ") + "]"
	default:
		if g.k == 1 {
			return strconv.Quote(str18(g.n))
		}
		return strconv.FormatInt(g.n, 10)
	}
}

func (g gv18) eq(h gv18) bool { return g.coq() == h.coq() }

func gvList18(l []gv18) string {
	parts := make([]string, len(l))
	for i, g := range l {
		parts[i] = g.String()
	}
	return "[" + strings.Join(parts, ", ") + "]"
}

func coqGvList18(l []gv18) string {
	parts := make([]string, len(l))
	for i, g := range l {
		parts[i] = g.coq()
	}
	return coqList(parts)
}

func sameMultiset18(a, b []gv18) bool {
	if len(a) != len(b) {
		return false
	}
	x := make([]string, len(a))
	y := make([]string, len(b))
	for i := range a {
		x[i], y[i] = a[i].coq(), b[i].coq()
	}
	sort.Strings(x)
	sort.Strings(y)
	for i := range x {
		if x[i] != y[i] {
			return false
		}
	}
	return true
}

func sameList18(a, b []gv18) bool {
	if len(a) != len(b) {
		return false
	}
	for i := range a {
		if !a[i].eq(b[i]) {
			return false
		}
	}
	return true
}

func desc18(x any) string {
	return "(" + strings.ReplaceAll(fmt.Sprintf("%T", x), "main.", "") + ") " + enc18(x).String()
}

// ---- generators (by reflect.Type) ----

type gen18 struct {
	r    *rand.Rand
	pool []reflect.Value // earlier *S18 values, for sharing (no cycles: a value enters the pool when complete)
}

var c18SPtr = typeOf18[*S18]()

func (g *gen18) gen(t reflect.Type, depth int) reflect.Value {
	r := g.r
	switch t.Kind() {
	case reflect.Ptr:
		if r.Intn(4) == 0 || (depth <= 0 && t.Elem().Kind() == reflect.Struct) {
			return reflect.Zero(t)
		}
		if t == c18SPtr && len(g.pool) > 0 && r.Intn(5) == 0 {
			return g.pool[r.Intn(len(g.pool))]
		}
		p := reflect.New(t.Elem())
		p.Elem().Set(g.gen(t.Elem(), depth-1))
		if t == c18SPtr {
			g.pool = append(g.pool, p)
		}
		return p
	case reflect.Struct:
		s := reflect.New(t).Elem()
		for i := 0; i < t.NumField(); i++ {
			s.Field(i).Set(g.gen(t.Field(i).Type, depth-1))
		}
		return s
	case reflect.Slice:
		c := r.Intn(10)
		if c < 2 {
			return reflect.Zero(t)
		}
		if c < 4 || depth <= 0 {
			return reflect.MakeSlice(t, 0, 0)
		}
		n := 1 + r.Intn(4)
		s := reflect.MakeSlice(t, n, n+r.Intn(2))
		for i := 0; i < n; i++ {
			s.Index(i).Set(g.gen(t.Elem(), depth-1))
		}
		return s
	case reflect.Map:
		c := r.Intn(10)
		if c < 2 {
			return reflect.Zero(t)
		}
		m := reflect.MakeMap(t)
		if c < 4 || depth <= 0 {
			return m
		}
		n := 1 + r.Intn(3)
		for i := 0; i < n; i++ {
			m.SetMapIndex(reflect.ValueOf("k"+strconv.Itoa(r.Intn(6))), g.gen(t.Elem(), depth-1))
		}
		return m
	case reflect.Interface:
		v := reflect.New(t).Elem()
		if r.Intn(4) == 0 {
			return v // nil interface
		}
		v.Set(g.gen(pick(r, c18IfaceTypes), depth-1))
		return v
	case reflect.Int:
		return reflect.ValueOf(r.Intn(5))
	case reflect.String:
		return reflect.ValueOf(str18(int64(r.Intn(5))))
	}
	panic("c18: cannot generate " + t.String())
}

func (g *gen18) top() any {
	if g.r.Intn(24) == 0 {
		return nil
	}
	t := pick(g.r, c18Types)
	return g.gen(t, 1+g.r.Intn(3)).Interface()
}

// deepCopyV18 makes a pointer-disjoint copy of the same type.
func deepCopyV18(v reflect.Value) reflect.Value {
	switch v.Kind() {
	case reflect.Interface:
		r := reflect.New(v.Type()).Elem()
		if !v.IsNil() {
			r.Set(deepCopyV18(v.Elem()))
		}
		return r
	case reflect.Ptr:
		if v.IsNil() {
			return reflect.Zero(v.Type())
		}
		p := reflect.New(v.Type().Elem())
		p.Elem().Set(deepCopyV18(v.Elem()))
		return p
	case reflect.Struct:
		s := reflect.New(v.Type()).Elem()
		for i := 0; i < v.NumField(); i++ {
			s.Field(i).Set(deepCopyV18(v.Field(i)))
		}
		return s
	case reflect.Slice:
		if v.IsNil() {
			return reflect.Zero(v.Type())
		}
		s := reflect.MakeSlice(v.Type(), v.Len(), v.Len())
		for i := 0; i < v.Len(); i++ {
			s.Index(i).Set(deepCopyV18(v.Index(i)))
		}
		return s
	case reflect.Map:
		if v.IsNil() {
			return reflect.Zero(v.Type())
		}
		m := reflect.MakeMap(v.Type())
		for _, k := range v.MapKeys() {
			m.SetMapIndex(k, deepCopyV18(v.MapIndex(k)))
		}
		return m
	}
	return v
}

func deepCopy18(a any) any {
	if a == nil {
		return nil
	}
	return deepCopyV18(reflect.ValueOf(a)).Interface()
}

// c18NilSpellings: the ways of writing "nil" (IsNil is true of all of them).
var c18NilSpellings = []any{nil, (*S18)(nil), (*T18)(nil), (*int)(nil), []*S18(nil), map[string]*S18(nil), (*W18)(nil)}

// respellNils returns a deep copy of x in which nils are written differently where the static type allows it:
// a nil top-level value becomes another spelling of nil (untyped nil, typed nil pointer, nil slice, nil map), and
// interface-typed slots holding an untyped nil get a typed nil pointer and vice versa.  Both values are "nil" in the
// same positions, so every structural law treats them alike.
func (g *gen18) respellNils(x any) any {
	r := g.r
	if naiveIsNil18(x) {
		return pick(r, c18NilSpellings)
	}
	c := deepCopyV18(reflect.ValueOf(x))
	var walk func(v reflect.Value, depth int)
	walk = func(v reflect.Value, depth int) {
		if depth > 6 {
			return
		}
		switch v.Kind() {
		case reflect.Interface:
			if v.CanSet() && r.Intn(3) != 0 {
				if v.IsNil() {
					v.Set(reflect.ValueOf(pick(r, c18NilSpellings[1:])))
				} else if e := v.Elem(); (e.Kind() == reflect.Ptr || e.Kind() == reflect.Slice || e.Kind() == reflect.Map) && e.IsNil() {
					if r.Intn(2) == 0 {
						v.Set(reflect.Zero(v.Type()))
					} else {
						v.Set(reflect.ValueOf(pick(r, c18NilSpellings[1:])))
					}
				}
				return
			}
			if !v.IsNil() {
				walk(v.Elem(), depth+1)
			}
		case reflect.Ptr:
			if !v.IsNil() {
				walk(v.Elem(), depth+1)
			}
		case reflect.Struct:
			for i := 0; i < v.NumField(); i++ {
				walk(v.Field(i), depth+1)
			}
		case reflect.Slice:
			for i := 0; i < v.Len(); i++ {
				walk(v.Index(i), depth+1)
			}
		}
	}
	walk(c, 0)
	return c.Interface()
}

// mutate returns a deep copy of x with one child replaced, or the length changed by one, or nil-ness flipped.
func (g *gen18) mutate(x any) any {
	if x == nil {
		return g.top()
	}
	r := g.r
	c := deepCopyV18(reflect.ValueOf(x))
	switch {
	case c.Kind() == reflect.Ptr && !c.IsNil() && c.Elem().Kind() == reflect.Struct && c.Elem().NumField() > 0:
		i := r.Intn(c.Elem().NumField())
		c.Elem().Field(i).Set(g.gen(c.Elem().Field(i).Type(), 1))
	case c.Kind() == reflect.Slice:
		switch k := r.Intn(4); {
		case k == 0 && c.Len() > 0:
			c.Index(r.Intn(c.Len())).Set(g.gen(c.Type().Elem(), 1))
		case k == 1:
			c = reflect.Append(c, g.gen(c.Type().Elem(), 1))
		case k == 2 && c.Len() > 0:
			c = c.Slice(0, c.Len()-1)
		default:
			if c.Len() == 0 {
				if c.IsNil() {
					c = reflect.MakeSlice(c.Type(), 0, 0)
				} else {
					c = reflect.Zero(c.Type())
				}
			} else {
				c.Index(c.Len() - 1).Set(g.gen(c.Type().Elem(), 1))
			}
		}
	default:
		c = g.gen(c.Type(), 2)
	}
	return c.Interface()
}

// ---- the function family for Map ----

type mfun18 struct {
	kind int // 0 FId 1 FCopy 2 FInc 3 FZero 4 FUntypedNil 5 FNilOn
	k    int64
}

func (f mfun18) coq() string {
	switch f.kind {
	case 0:
		return "FId"
	case 1:
		return "FCopy"
	case 2:
		return "(FInc " + coqZ(f.k) + ")"
	case 3:
		return "FZero"
	case 4:
		return "FUntypedNil"
	default:
		return "(FNilOn " + coqZ(f.k) + ")"
	}
}

func (f mfun18) String() string { return plain18(f.coq()) }

// inc1V18 returns (new value of the same static type, true) for ints, strings, non-nil pointers to them, and
// interfaces holding one of those.
func inc1V18(v reflect.Value, k int64) (reflect.Value, bool) {
	switch v.Kind() {
	case reflect.Int:
		return reflect.ValueOf(int(v.Int() + k)), true
	case reflect.String:
		return reflect.ValueOf(str18(strVal18(v.String()) + k)), true
	case reflect.Ptr:
		if !v.IsNil() && (v.Elem().Kind() == reflect.Int || v.Elem().Kind() == reflect.String) {
			p := reflect.New(v.Type().Elem())
			e, _ := inc1V18(v.Elem(), k)
			p.Elem().Set(e)
			return p, true
		}
	case reflect.Interface:
		if !v.IsNil() {
			return inc1V18(v.Elem(), k)
		}
	}
	return v, false
}

func (f mfun18) apply(a any) any {
	switch f.kind {
	case 0:
		return a
	case 1:
		return deepCopy18(a)
	case 2:
		if a == nil {
			return nil
		}
		v := reflect.ValueOf(a)
		if v.Kind() == reflect.Ptr && !v.IsNil() && v.Elem().Kind() == reflect.Struct {
			p := reflect.New(v.Type().Elem())
			p.Elem().Set(v.Elem())
			for i := 0; i < p.Elem().NumField(); i++ {
				if n, ok := inc1V18(p.Elem().Field(i), f.k); ok {
					p.Elem().Field(i).Set(n)
				}
			}
			return p.Interface()
		}
		n, _ := inc1V18(v, f.k)
		return n.Interface()
	case 3:
		if a == nil {
			return nil
		}
		v := reflect.ValueOf(a)
		switch v.Kind() {
		case reflect.Ptr, reflect.Slice, reflect.Map:
			return reflect.Zero(v.Type()).Interface()
		}
		return a
	case 4:
		return nil
	default:
		g := enc18(a)
		if g.tag == g18Ptr {
			g = g.kids[0]
		}
		if g.tag == g18Scalar && g.n == f.k {
			return nil
		}
		return a
	}
}

// ---- the predicate family for Any (evaluated on the encoding of the argument) ----

type pfun18 struct {
	kind int // 0 PFalse 1 PTrue 2 PIsNil 3 PNot 4 PScalarEq 5 PLenGe 6 PField
	n    int64
	sub  *pfun18
}

func (p *pfun18) coq() string {
	switch p.kind {
	case 0:
		return "PFalse"
	case 1:
		return "PTrue"
	case 2:
		return "PIsNil"
	case 3:
		return "(PNot " + p.sub.coq() + ")"
	case 4:
		return "(PScalarEq " + coqZ(p.n) + ")"
	case 5:
		return "(PLenGe " + coqNat(int(p.n)) + ")"
	default:
		return "(PField " + coqNat(int(p.n)) + " " + p.sub.coq() + ")"
	}
}

func (p *pfun18) String() string { return plain18(p.coq()) }

// plain18 strips the Coq scope annotations from a family member's syntax.
func plain18(s string) string {
	return strings.ReplaceAll(strings.ReplaceAll(s, "%Z", ""), "%nat", "")
}

func (p *pfun18) eval(g gv18) bool {
	switch p.kind {
	case 0:
		return false
	case 1:
		return true
	case 2:
		return g.tag == g18Nil || g.tag == g18NilPtr
	case 3:
		return !p.sub.eval(g)
	case 4:
		if g.tag == g18Ptr {
			g = g.kids[0]
		}
		return g.tag == g18Scalar && g.n == p.n
	case 5:
		return (g.tag == g18Slice || g.tag == g18Map || g.tag == g18StructPtr) && int64(len(g.kids)) >= p.n
	default:
		return g.tag == g18StructPtr && int64(len(g.kids)) > p.n && p.sub.eval(unwrap18(g.kids[p.n]))
	}
}

func genPred18(r *rand.Rand, depth int) *pfun18 {
	k := r.Intn(10)
	if depth <= 0 && (k == 3 || k >= 8) {
		k = 4
	}
	switch {
	case k == 0:
		return &pfun18{kind: 0}
	case k == 1:
		return &pfun18{kind: 1}
	case k == 2:
		return &pfun18{kind: 2}
	case k == 3:
		return &pfun18{kind: 3, sub: genPred18(r, depth-1)}
	case k <= 5:
		return &pfun18{kind: 4, n: int64(r.Intn(5))}
	case k <= 7:
		return &pfun18{kind: 5, n: int64(r.Intn(4))}
	default:
		return &pfun18{kind: 6, n: int64(r.Intn(4)), sub: genPred18(r, depth-1)}
	}
}

// ---- the function family for ZipReduce ----

func weight18(g gv18) int64 {
	switch g.tag {
	case g18Nil:
		return 1
	case g18Iface:
		return 9
	case g18NilPtr:
		return 2
	case g18StructPtr:
		return 3 + int64(len(g.kids))
	case g18Ptr:
		if g.kids[0].tag == g18Scalar {
			return g.kids[0].n
		}
		return 5
	case g18Struct:
		return 7
	case g18Slice:
		if g.isnil {
			return 11 + int64(len(g.kids))
		}
		return 12 + int64(len(g.kids))
	case g18Map:
		if g.isnil {
			return 20 + int64(len(g.kids))
		}
		return 21 + int64(len(g.kids))
	default:
		return g.n
	}
}

type zfun18 struct {
	kind int // 0 ZCount 1 ZSeq 2 ZSub 3 ZConst 4 ZEqW 5 ZMulDiff 6 ZUnify
	c    int64
}

func (z zfun18) coq() string {
	switch z.kind {
	case 0:
		return "ZCount"
	case 1:
		return "ZSeq"
	case 2:
		return "ZSub"
	case 3:
		return "(ZConst " + coqZ(z.c) + ")"
	case 4:
		return "ZEqW"
	case 5:
		return "(ZMulDiff " + coqZ(z.c) + ")"
	default:
		return "ZUnify"
	}
}

func (z zfun18) String() string { return plain18(z.coq()) }

// zunify18 is shaped like gomini's unify: scalars are compared, everything else goes back through the REAL ZipReduce.
func zunify18(x, y any, acc int) int {
	gx, gy := enc18(x), enc18(y)
	if gx.tag == g18Scalar && gy.tag == g18Scalar {
		if gx.k == gy.k && gx.n == gy.n {
			return acc
		}
		return 0
	}
	return rt.ZipReduce(x, y, acc, zunify18)
}

func (z zfun18) apply(x, y any, acc int) int {
	switch z.kind {
	case 0:
		return acc + 1
	case 1:
		return acc*10 + int(weight18(enc18(x)))
	case 2:
		return acc - int(weight18(enc18(y)))
	case 3:
		return int(z.c)
	case 4:
		if weight18(enc18(x)) == weight18(enc18(y)) {
			return acc
		}
		return 0
	case 5:
		return acc * int(weight18(enc18(x))-weight18(enc18(y))+z.c)
	default:
		return zunify18(x, y, acc)
	}
}

type acc18 struct{ n int }

var c18Modes = []string{"BInt", "BBool", "BPtr"}

// ---- naive views of the family by type switch (independent of reflect) ----

// kids18: tag 0 = not a container (or nil), 1 = pointer to struct, 2 = slice, 3 = map (values in key order).
func kids18(x any) (tag int, kids []any) {
	mapKids := func(keys []string, get func(string) any) []any {
		sort.Slice(keys, func(i, j int) bool { return key18(keys[i]) < key18(keys[j]) })
		out := []any{}
		for _, k := range keys {
			out = append(out, get(k))
		}
		return out
	}
	switch v := x.(type) {
	case *S18:
		if v != nil {
			return 1, []any{v.A, v.B, v.C, v.D}
		}
	case *T18:
		if v != nil {
			return 1, []any{v.X, v.Y, v.Z}
		}
	case *U18:
		if v != nil {
			return 1, []any{v.P, v.Q}
		}
	case *W18:
		if v != nil {
			return 1, []any{v.V, v.L}
		}
	case *E18:
		if v != nil {
			return 1, []any{}
		}
	case *N18:
		if v != nil {
			return 1, []any{v.Ärger, v.B, v.Ωmega, v.Élan}
		}
	case []*N18:
		out := []any{}
		for _, e := range v {
			out = append(out, e)
		}
		return 2, out
	case []*S18:
		out := []any{}
		for _, e := range v {
			out = append(out, e)
		}
		return 2, out
	case []int:
		out := []any{}
		for _, e := range v {
			out = append(out, e)
		}
		return 2, out
	case []*int:
		out := []any{}
		for _, e := range v {
			out = append(out, e)
		}
		return 2, out
	case []any:
		out := []any{}
		for _, e := range v {
			out = append(out, e)
		}
		return 2, out
	case map[string]*S18:
		ks := []string{}
		for k := range v {
			ks = append(ks, k)
		}
		return 3, mapKids(ks, func(k string) any { return v[k] })
	case map[string]int:
		ks := []string{}
		for k := range v {
			ks = append(ks, k)
		}
		return 3, mapKids(ks, func(k string) any { return v[k] })
	case map[string]any:
		ks := []string{}
		for k := range v {
			ks = append(ks, k)
		}
		return 3, mapKids(ks, func(k string) any { return v[k] })
	}
	return 0, nil
}

func naiveIsNil18(x any) bool {
	switch v := x.(type) {
	case nil:
		return true
	case *S18:
		return v == nil
	case *N18:
		return v == nil
	case *T18:
		return v == nil
	case *U18:
		return v == nil
	case *W18:
		return v == nil
	case *E18:
		return v == nil
	case *int:
		return v == nil
	case **S18:
		return v == nil
	case *[]int:
		return v == nil
	case *any:
		return v == nil
	}
	return false
}

// identity18 lists the addresses of x's container and of its pointer-like children (to detect re-pointing).
func identity18(x any) string {
	if x == nil {
		return ""
	}
	var sb strings.Builder
	ptr := func(v reflect.Value) {
		for v.Kind() == reflect.Interface && !v.IsNil() {
			v = v.Elem()
		}
		switch v.Kind() {
		case reflect.Ptr, reflect.Slice, reflect.Map:
			fmt.Fprintf(&sb, "%x/%d ", v.Pointer(), lenOr0(v))
		default:
			sb.WriteString("- ")
		}
	}
	v := reflect.ValueOf(x)
	ptr(v)
	switch v.Kind() {
	case reflect.Ptr:
		if !v.IsNil() && v.Elem().Kind() == reflect.Struct {
			for i := 0; i < v.Elem().NumField(); i++ {
				ptr(v.Elem().Field(i))
			}
		}
	case reflect.Slice:
		for i := 0; i < v.Len(); i++ {
			ptr(v.Index(i))
		}
	case reflect.Map:
		ks := v.MapKeys()
		sort.Slice(ks, func(i, j int) bool { return ks[i].String() < ks[j].String() })
		for _, k := range ks {
			ptr(v.MapIndex(k))
		}
	}
	return sb.String()
}

func lenOr0(v reflect.Value) int {
	if v.Kind() == reflect.Slice || v.Kind() == reflect.Map {
		return v.Len()
	}
	return 0
}

// ---- guarded calls of the real functions ----

func callMap18(x any, f func(any) any) (res any, pmsg string) {
	defer func() {
		if r := recover(); r != nil {
			pmsg = fmt.Sprint(r)
		}
	}()
	return rt.Map(x, f), ""
}

func callAny18(x any, p func(any) bool) (res bool, pmsg string) {
	defer func() {
		if r := recover(); r != nil {
			pmsg = fmt.Sprint(r)
		}
	}()
	return rt.Any(x, p), ""
}

func callIsNil18(x any) (res bool, pmsg string) {
	defer func() {
		if r := recover(); r != nil {
			pmsg = fmt.Sprint(r)
		}
	}()
	return rt.IsNil(x), ""
}

// callZip18 runs the real ZipReduce at the accumulator type of the mode; the result is normalised to an int
// (BBool: 0/1, BPtr: -1 for nil, n for &{n}).
func callZip18(mode int, x, y any, init int, f func(x, y any, acc int) int, log func(x, y any)) (res int, pmsg string) {
	defer func() {
		if r := recover(); r != nil {
			pmsg = fmt.Sprint(r)
		}
	}()
	switch mode {
	case 0:
		return rt.ZipReduce(x, y, init, func(a, b any, acc int) int { log(a, b); return f(a, b, acc) }), ""
	case 1:
		r := rt.ZipReduce(x, y, init != 0, func(a, b any, acc bool) bool {
			log(a, b)
			v := 0
			if acc {
				v = 1
			}
			return f(a, b, v) != 0
		})
		if r {
			return 1, ""
		}
		return 0, ""
	default:
		var ini *acc18
		if init >= 0 {
			ini = &acc18{init}
		}
		r := rt.ZipReduce(x, y, ini, func(a, b any, acc *acc18) *acc18 {
			log(a, b)
			if acc == nil {
				return nil
			}
			g := f(a, b, acc.n)
			if g < 0 {
				return nil
			}
			return &acc18{g}
		})
		if r == nil {
			return -1, ""
		}
		return r.n, ""
	}
}

// naiveZip18 is the property read directly: both nil -> init; one nil -> zero; two struct pointers with the same
// number of fields or two slices of the same length -> left fold with early exit at zero; anything else -> zero.
func naiveZip18(mode int, x, y any, init int, f func(x, y any, acc int) int) (res int, pairs [][2]any) {
	zero := 0
	if mode == 2 {
		zero = -1
	}
	norm := func(v int) int {
		switch mode {
		case 1:
			if v != 0 {
				return 1
			}
			return 0
		case 2:
			if v < 0 {
				return -1
			}
		}
		return v
	}
	step := func(a, b any, acc int) int {
		if mode == 2 && acc < 0 {
			return -1
		}
		return norm(f(a, b, acc))
	}
	nx, ny := naiveIsNil18(x), naiveIsNil18(y)
	if nx && ny {
		return norm(init), nil
	}
	if nx || ny {
		return zero, nil
	}
	tx, kx := kids18(x)
	ty, ky := kids18(y)
	if tx != ty || (tx != 1 && tx != 2) || len(kx) != len(ky) {
		return zero, nil
	}
	acc := norm(init)
	for i := range kx {
		pairs = append(pairs, [2]any{kx[i], ky[i]})
		acc = step(kx[i], ky[i], acc)
		if acc == zero {
			return zero, pairs
		}
	}
	return acc, pairs
}

func runC18(cfg *Config) *Report {
	rep := newReport()
	rep.Rule = "one call of Map / Any / ZipReduce / IsNil per case on values of a family of Go types (S{A *S; B []*S; C *int; D map[string]*S}, T, U, W with interface-typed slots, " +
		"slices and maps of them, pointers to non-structs, structs by value, scalars; nil, empty and shared variants; for ZipReduce the second value is a deep copy, a one-step mutation, " +
		"a fresh value of the same type or an unrelated value) with a function / predicate drawn from a generated family; non-trivial = Map on a container with >= 2 children, " +
		"Any with >= 2 children whose first child is not a hit, ZipReduce on two matching shapes with >= 2 pairs; distinct by printed input"
	cf := newCaseFile("From Coq Require Import List NArith ZArith.\nFrom GMK Require Import Reflect CorrBase Corr18.", "case18", "check18")
	r := newRand(cfg.Seed)
	noted := map[string]bool{}
	note := func(k, s string) {
		if !noted[k] {
			noted[k] = true
			rep.Notes = append(rep.Notes, s)
		}
	}
	// the laws are laws of every call, whatever was called before: a long history of calls (nil and empty containers, scalars,
	// functions that panic) and a very deep value come first, the generated cases run after them in the same process
	c18History(rep)
	for i := 0; i < cfg.N; i++ {
		// every random choice of the case is made here, before deciding whether the index is kept
		g := &gen18{r: r}
		op := r.Intn(20)
		x := g.top()
		if t, _ := kids18(x); op >= 13 && op < 19 && t != 1 && t != 2 && r.Intn(3) != 0 {
			x = g.top() // ZipReduce: prefer pointers to structs and slices
		}
		var y any
		switch c := r.Intn(20); {
		case c < 5:
			y = deepCopy18(x)
		case c < 8:
			y = g.respellNils(x)
		case c < 13:
			y = g.mutate(x)
		case c < 17:
			if x == nil {
				y = g.top()
			} else {
				y = g.gen(reflect.TypeOf(x), 2).Interface()
			}
		default:
			y = g.top()
		}
		mf := mfun18{kind: []int{0, 0, 0, 1, 2, 2, 3, 3, 4, 5}[r.Intn(10)], k: int64(r.Intn(5))}
		if mf.kind == 2 {
			mf.k = int64(1 + r.Intn(3))
		}
		pf := genPred18(r, 2)
		zf := zfun18{kind: []int{0, 1, 1, 2, 2, 3, 4, 5, 6, 6}[r.Intn(10)], c: int64(r.Intn(4)) - 1}
		mode := r.Intn(3)
		init := []int{0, 1, 1, 2, 3, 5, 7, -1}[r.Intn(8)]
		if cfg.Only >= 0 && cfg.Only != i {
			cf.add("CIsNil GNil true") // keep indices aligned
			rep.CaseDesc = append(rep.CaseDesc, "")
			rep.CaseObs = append(rep.CaseObs, "")
			continue
		}
		rep.Evaluations++
		gx := enc18(x)
		idx := identity18(x)
		tag, kids := kids18(x)
		kenc := make([]gv18, len(kids))
		for j, k := range kids {
			kenc[j] = enc18(k)
		}
		// self-test of the encoder against the type-switch view of the family
		if tag != 0 && !sameList18(kenc, unwrapAll18(gx.kids)) {
			note("enc", fmt.Sprintf("encoder self-test failed on %s", desc18(x)))
		}
		shape := []string{"other", "structptr", "slice", "map"}[tag]
		if naiveIsNil18(x) {
			shape = "nil"
		}
		switch {
		case op < 8: // ---------------- Map
			var log []gv18
			res, pmsg := callMap18(x, func(a any) any {
				log = append(log, enc18(a))
				return mf.apply(a)
			})
			desc := fmt.Sprintf("Map x=%s f=%s", desc18(x), mf)
			obsRes := ""
			var gres gv18
			if pmsg != "" {
				obsRes = "panic: " + pmsg
				cf.add("CPanic " + gx.coq())
			} else {
				gres = enc18(res)
				obsRes = desc18(res)
				cf.add(fmt.Sprintf("CMap %s %s %s %s", gx.coq(), mf.coq(), gres.coq(), coqGvList18(log)))
			}
			obs := fmt.Sprintf("%s calls=%s", obsRes, gvList18(log))
			rep.CaseDesc = append(rep.CaseDesc, desc)
			rep.CaseObs = append(rep.CaseObs, obs)
			rep.hist("Map/" + shape)
			if tag != 0 && len(kids) >= 2 {
				rep.nontrivial(desc)
			}
			rep.sample(desc + " => " + obs)
			// --- direct oracles
			if !enc18(x).eq(gx) || identity18(x) != idx {
				rep.violate(i, "map-argument-modified", desc, "argument after the call: "+desc18(x))
			}
			if pmsg != "" {
				kind := "map-panics"
				if mf.kind <= 1 {
					kind = "map-id-panics"
				}
				rep.violate(i, kind, desc, obs)
				break
			}
			// a nil slice / nil map has no children for Map: it comes back as it is and nothing is called
			nilContainer := (tag == 2 || tag == 3) && reflect.ValueOf(x).IsNil()
			wantCalls := kenc
			if nilContainer {
				wantCalls = nil
			}
			// exactly one call per field / element / map value, in index order for structs and slices
			okCalls := sameList18(log, wantCalls)
			if tag == 3 {
				okCalls = sameMultiset18(log, wantCalls)
			}
			if !okCalls {
				rep.violate(i, "map-calls", desc, fmt.Sprintf("expected one call per child %s, observed %s", gvList18(wantCalls), gvList18(log)))
			}
			// the result is the argument with every child replaced by its image (an untyped nil image becomes the zero
			// value of the slot's type, no key is lost); nil stays nil, empty stays empty
			want := gx
			if tag != 0 && !nilContainer {
				want.kids = make([]gv18, len(kids))
				tx := reflect.TypeOf(x)
				for j, k := range kids {
					st := tx.Elem() // element type of the slice / map
					if tag == 1 {
						st = tx.Elem().Field(j).Type
					}
					out := enc18(mf.apply(k))
					switch {
					case out.tag == g18Nil:
						want.kids[j] = encV18(reflect.Zero(st))
					case st.Kind() == reflect.Interface:
						want.kids[j] = gv18{tag: g18Iface, kids: []gv18{out}}
					default:
						want.kids[j] = out
					}
				}
			}
			if !gres.eq(want) {
				kind := "map-result-differs"
				if mf.kind <= 1 {
					kind = "map-id-not-deepequal"
				}
				rep.violate(i, kind, desc, fmt.Sprintf("expected %s, observed %s", want.String(), obsRes))
			} else if mf.kind <= 1 && !reflect.DeepEqual(res, x) {
				rep.violate(i, "map-id-not-deepequal", desc, fmt.Sprintf("reflect.DeepEqual(Map(x, id), x) = false; observed %s", obsRes))
			}
			// fresh container, for NON-NIL containers only (a nil slice / nil map is returned as it is, nothing was
			// copied): a different object, and writing to it does not reach the argument
			if tag != 0 && !nilContainer {
				vr, vx := reflect.ValueOf(res), reflect.ValueOf(x)
				if res == nil || vr.Type() != vx.Type() {
					rep.violate(i, "map-result-type", desc, obs)
					break
				}
				switch tag {
				case 1:
					if vx.Elem().Type().Size() > 0 {
						if vr.IsNil() || vr.Pointer() == vx.Pointer() {
							rep.violate(i, "map-result-not-fresh", desc, "the result is the argument's own struct")
						} else {
							vr.Elem().Set(reflect.Zero(vr.Elem().Type()))
						}
					}
				case 2:
					if vx.Len() > 0 && vr.Len() > 0 {
						if vr.Pointer() == vx.Pointer() {
							rep.violate(i, "map-result-not-fresh", desc, "the result shares the argument's backing array")
						}
						vr.Index(0).Set(reflect.Zero(vr.Type().Elem()))
						if vr.Len() > 1 {
							vr.Index(vr.Len() - 1).Set(reflect.Zero(vr.Type().Elem()))
						}
					}
				case 3:
					if !vx.IsNil() {
						if vr.IsNil() || vr.Pointer() == vx.Pointer() {
							rep.violate(i, "map-result-not-fresh", desc, "the result is the argument's own map")
						} else {
							vr.SetMapIndex(reflect.ValueOf("k99"), reflect.Zero(vr.Type().Elem()))
							for _, k := range vr.MapKeys() {
								vr.SetMapIndex(k, reflect.Zero(vr.Type().Elem()))
							}
						}
					}
				}
				if !enc18(x).eq(gx) || identity18(x) != idx {
					rep.violate(i, "map-result-not-fresh", desc, "writing to the result changed the argument: "+desc18(x))
				}
			}
		case op < 13: // ---------------- Any
			var log []gv18
			res, pmsg := callAny18(x, func(a any) bool {
				ga := enc18(a)
				log = append(log, ga)
				return pf.eval(ga)
			})
			desc := fmt.Sprintf("Any x=%s p=%s", desc18(x), pf)
			obs := fmt.Sprintf("%v calls=%s", res, gvList18(log))
			if pmsg != "" {
				obs = "panic: " + pmsg
			}
			cf.add(fmt.Sprintf("CAny %s %s %s %s", gx.coq(), pf.coq(), coqBool(res), coqGvList18(log)))
			rep.CaseDesc = append(rep.CaseDesc, desc)
			rep.CaseObs = append(rep.CaseObs, obs)
			rep.hist(fmt.Sprintf("Any/%s/%v", shape, res))
			// naive loop over fields / elements (a map has neither)
			want, wantLog := false, []gv18{}
			if tag == 1 || tag == 2 {
				for _, k := range kenc {
					wantLog = append(wantLog, k)
					if pf.eval(k) {
						want = true
						break
					}
				}
			}
			if (tag == 1 || tag == 2) && len(kids) >= 2 && !pf.eval(kenc[0]) {
				rep.nontrivial(desc)
			}
			rep.sample(desc + " => " + obs)
			if pmsg != "" {
				rep.violate(i, "any-panics", desc, obs)
				break
			}
			if res != want {
				rep.violate(i, "any-differs-from-naive", desc, fmt.Sprintf("naive loop says %v; observed %s", want, obs))
			} else if !sameList18(log, wantLog) {
				rep.violate(i, "any-calls", desc, fmt.Sprintf("expected calls %s (stop at the first hit); observed %s", gvList18(wantLog), obs))
			}
			if !enc18(x).eq(gx) || identity18(x) != idx {
				rep.violate(i, "any-argument-modified", desc, "argument after the call: "+desc18(x))
			}
		case op < 19: // ---------------- ZipReduce
			gy := enc18(y)
			idy := identity18(y)
			var logx, logy []gv18
			res, pmsg := callZip18(mode, x, y, init, zf.apply, func(a, b any) {
				logx = append(logx, enc18(a))
				logy = append(logy, enc18(b))
			})
			desc := fmt.Sprintf("ZipReduce[%s] x=%s y=%s init=%d f=%s", c18Modes[mode], desc18(x), desc18(y), init, zf)
			pairs := make([]string, len(logx))
			cpairs := make([]string, len(logx))
			for j := range logx {
				pairs[j] = "(" + logx[j].String() + "," + logy[j].String() + ")"
				cpairs[j] = "(" + logx[j].coq() + ", " + logy[j].coq() + ")"
			}
			obs := fmt.Sprintf("%d calls=[%s]", res, strings.Join(pairs, ", "))
			if pmsg != "" {
				obs = "panic: " + pmsg
				res = -999
			}
			cf.add(fmt.Sprintf("CZip %s %s %s %s %s %s %s", gx.coq(), gy.coq(), c18Modes[mode], coqZ(int64(init)), zf.coq(), coqZ(int64(res)), coqList(cpairs)))
			rep.CaseDesc = append(rep.CaseDesc, desc)
			rep.CaseObs = append(rep.CaseObs, obs)
			want, wantPairs := naiveZip18(mode, x, y, init, zf.apply)
			tagy, kidsy := kids18(y)
			cls := "mismatch"
			switch {
			case naiveIsNil18(x) && naiveIsNil18(y):
				cls = "bothnil"
			case naiveIsNil18(x) || naiveIsNil18(y):
				cls = "onenil"
			case (tag == 1 || tag == 2) && tagy == tag && len(kidsy) == len(kids):
				cls = "fold"
				if len(wantPairs) < len(kids) {
					cls = "fold-early-exit"
				}
				if len(kids) >= 2 {
					rep.nontrivial(desc)
				}
				if len(kids) >= 1 && reflect.TypeOf(x) != reflect.TypeOf(y) {
					note("types", "ZipReduce folds over two values of DIFFERENT types when kind and field count / length agree, e.g. "+desc)
				}
			}
			rep.hist("Zip/" + cls)
			rep.sample(desc + " => " + obs)
			if pmsg != "" {
				rep.violate(i, "zip-panics", desc, obs)
				break
			}
			if res != want {
				rep.violate(i, "zip-differs-from-naive", desc, fmt.Sprintf("naive fold with early exit says %d after %d calls; observed %s", want, len(wantPairs), obs))
			} else {
				ok := len(wantPairs) == len(logx)
				for j := 0; ok && j < len(wantPairs); j++ {
					ok = enc18(wantPairs[j][0]).eq(logx[j]) && enc18(wantPairs[j][1]).eq(logy[j])
				}
				if !ok {
					rep.violate(i, "zip-calls", desc, fmt.Sprintf("expected %d calls on corresponding children in order; observed %s", len(wantPairs), obs))
				}
			}
			if !enc18(x).eq(gx) || identity18(x) != idx || !enc18(y).eq(gy) || identity18(y) != idy {
				rep.violate(i, "zip-argument-modified", desc, "arguments after the call: "+desc18(x)+" / "+desc18(y))
			}
		default: // ---------------- IsNil
			res, pmsg := callIsNil18(x)
			desc := "IsNil x=" + desc18(x)
			obs := fmt.Sprint(res)
			if pmsg != "" {
				obs = "panic: " + pmsg
			}
			cf.add(fmt.Sprintf("CIsNil %s %s", gx.coq(), coqBool(res)))
			rep.CaseDesc = append(rep.CaseDesc, desc)
			rep.CaseObs = append(rep.CaseObs, obs)
			rep.hist(fmt.Sprintf("IsNil/%v", res))
			if pmsg != "" || res != naiveIsNil18(x) {
				rep.violate(i, "isnil", desc, obs)
			}
		}
	}
	cf.write(cfg.Out)
	return rep
}

// c18History: a history of several hundred thousand calls of Map / Any / ZipReduce / IsNil on degenerate arguments (every spelling of
// nil, empty containers, scalars, a function that panics and is recovered), then the laws on ordinary values again; and a value
// nested 70000 levels deep mapped by a function that calls Map on each child (as gomini's rewrite does).
func c18History(rep *Report) {
	one := 1
	degenerate := []any{nil, []int(nil), map[string]int(nil), (*S18)(nil), []*S18(nil), map[string]*S18(nil), []int{}, map[string]*S18{}, []*S18{},
		5, "s1", &one, S18{}, &E18{}, []any(nil), (*any)(nil), (*W18)(nil)}
	id := func(a any) any { return a }
	boom := func(a any) any { panic("c18 history") }
	never := func(a any) bool { return false }
	sum := func(x, y any, acc int) int { return acc + 1 }
	const rounds = 12000
	for k := 0; k < rounds; k++ {
		for _, d := range degenerate {
			callMap18(d, id)
			callAny18(d, never)
			callIsNil18(d)
			rt.ZipReduce(d, d, 1, sum)
			rt.ZipReduce(d, []int{1}, 1, sum)
		}
		callMap18([]int{1}, boom)
		callMap18(&S18{}, boom)
		callMap18(map[string]int{"k": 1}, boom)
		callAny18([]int{1}, func(a any) bool { panic("c18 history") })
		func() {
			defer func() { recover() }()
			rt.ZipReduce([]int{1}, []int{1}, 1, func(x, y any, acc int) int { panic("c18 history") })
		}()
	}
	rep.hist("history/calls-before-the-cases")
	// the laws, after that history
	calls := 0
	res, pmsg := callMap18([]int{1, 2, 3}, func(a any) any { calls++; return a.(int) + 1 })
	if got, ok := res.([]int); pmsg != "" || !ok || !reflect.DeepEqual(got, []int{2, 3, 4}) || calls != 3 {
		rep.violate(-1, "map-after-history", fmt.Sprintf("%d rounds of Map/Any/ZipReduce/IsNil on nil, empty and scalar arguments and on functions that panic, then Map([]int{1,2,3}, +1)", rounds),
			fmt.Sprintf("got %v (panic %q) with %d calls of the function, want [2 3 4] with 3 calls", res, pmsg, calls))
	}
	src := &S18{A: &S18{C: &one}, B: []*S18{{}, nil}}
	res, pmsg = callMap18(src, id)
	if got, ok := res.(*S18); pmsg != "" || !ok || got == src || !reflect.DeepEqual(got, src) {
		rep.violate(-1, "map-after-history", fmt.Sprintf("%d rounds of calls on degenerate arguments, then Map(&S18{...}, identity)", rounds),
			fmt.Sprintf("got %s (panic %q), want a deeply equal value in a fresh container", desc18(res), pmsg))
	}
	if hit, pmsg := callAny18([]int{1, 2, 3}, func(a any) bool { return a.(int) == 3 }); pmsg != "" || !hit {
		rep.violate(-1, "any-after-history", fmt.Sprintf("%d rounds of calls on degenerate arguments, then Any([]int{1,2,3}, ==3)", rounds), fmt.Sprintf("got %v (panic %q), want true", hit, pmsg))
	}
	if n := rt.ZipReduce([]int{1, 2, 3}, []int{4, 5, 6}, 1, sum); n != 4 {
		rep.violate(-1, "zip-after-history", fmt.Sprintf("%d rounds of calls on degenerate arguments, then ZipReduce([1 2 3],[4 5 6],1,count)", rounds), fmt.Sprintf("got %d, want 4", n))
	}
	// a deep value: a chain of 70000 records, mapped as rewrite maps (the function calls Map on each record it is handed)
	const deep = 70000
	var chain *S18
	for i := 0; i < deep; i++ {
		v := i
		chain = &S18{A: chain, C: &v}
	}
	ncalls := 0
	var f func(a any) any
	f = func(a any) any {
		ncalls++
		switch a := a.(type) {
		case *S18:
			if a == nil {
				return a
			}
			return rt.Map(a, f)
		case *int:
			if a == nil {
				return a
			}
			v := *a + 1
			return &v
		}
		return a
	}
	out, pmsg := callMap18(chain, f)
	rep.hist("history/deep-chain")
	if pmsg != "" {
		rep.violate(-1, "map-deep", fmt.Sprintf("Map over a chain of %d records (f maps each record it is handed)", deep), "panic: "+pmsg)
		return
	}
	o, _ := out.(*S18)
	i, c := deep-1, chain
	for ; c != nil && o != nil; i, c, o = i-1, c.A, o.A {
		if o == c || o.C == nil || *o.C != i+1 || *c.C != i || o.B != nil || o.D != nil {
			rep.violate(-1, "map-deep", fmt.Sprintf("Map over a chain of %d records (f maps each record it is handed and adds 1 to its number)", deep),
				fmt.Sprintf("record at depth %d: fresh=%v number=%v, want a fresh record with number %d", deep-1-i, o != c, o.C, i+1))
			return
		}
	}
	if c != nil || o != nil || ncalls != 4*deep {
		rep.violate(-1, "map-deep", fmt.Sprintf("Map over a chain of %d records", deep), fmt.Sprintf("result chain has a different length, or the function was called %d times instead of %d", ncalls, 4*deep))
	}
	// the same chain against a fresh copy through ZipReduce used as gomini's unify uses it, and Any as hasCycle uses it
	var zf func(x, y any, acc int) int
	zf = func(x, y any, acc int) int {
		if xs, ok := x.(*S18); ok && xs != nil {
			return rt.ZipReduce(x, y, acc, zf)
		}
		if xi, ok := x.(*int); ok && xi != nil {
			if yi, ok := y.(*int); !ok || yi == nil || *yi != *xi {
				return 0
			}
		}
		return acc
	}
	copyChain := deepCopy18(chain)
	if n := rt.ZipReduce(chain, copyChain, 7, zf); n != 7 {
		rep.violate(-1, "zip-deep", fmt.Sprintf("ZipReduce of a chain of %d records with its deep copy (f descends with ZipReduce, compares numbers)", deep), fmt.Sprintf("got %d, want 7", n))
	}
	var pf func(a any) bool
	pf = func(a any) bool {
		if xs, ok := a.(*S18); ok && xs != nil {
			return rt.Any(a, pf)
		}
		if xi, ok := a.(*int); ok && xi != nil {
			return *xi == 0
		}
		return false
	}
	if hit, pmsg := callAny18(chain, pf); pmsg != "" || !hit {
		rep.violate(-1, "any-deep", fmt.Sprintf("Any over a chain of %d records for the number at the far end (the predicate descends with Any)", deep), fmt.Sprintf("got %v (panic %q), want true", hit, pmsg))
	}
}
