package main

// C16: ast.Compare / Equal / Sort against the struct-level model (coq/SexprStruct.v).

import (
	"fmt"
	"math"
	"math/rand"
	"reflect"
	"strings"

	"github.com/awalterschulze/gominikanren/sexpr"
	"github.com/awalterschulze/gominikanren/sexpr/ast"
)

func init() { register("C16", runC16) }

// floatKey maps a non-NaN float64 to an integer key with: a<b <=> key(a)<key(b), a==b <=> key(a)==key(b).
func floatKey(f float64) int64 {
	b := math.Float64bits(f)
	if b>>63 != 0 {
		return -int64(b & 0x7fffffffffffffff)
	}
	return int64(b)
}

func encStrPtr(p *string) string {
	if p == nil {
		return "None"
	}
	return "(Some " + coqBytes(*p) + ")"
}

func encAtom(a *ast.Atom) string {
	if a == nil {
		return "None"
	}
	var sb strings.Builder
	sb.WriteString("(Some (mkAtom ")
	sb.WriteString(encStrPtr(a.Str) + " " + encStrPtr(a.Symbol) + " ")
	if a.Float == nil {
		sb.WriteString("None ")
	} else {
		sb.WriteString("(Some " + coqZ(floatKey(*a.Float)) + ") ")
	}
	if a.Int == nil {
		sb.WriteString("None ")
	} else {
		sb.WriteString("(Some " + coqZ(*a.Int) + ") ")
	}
	if a.Var == nil {
		sb.WriteString("None")
	} else {
		sb.WriteString(fmt.Sprintf("(Some (mkVar %s %s))", coqBytes(a.Var.Name), coqN(a.Var.Index)))
	}
	sb.WriteString("))")
	return sb.String()
}

func encPair(p *ast.Pair) string {
	if p == nil {
		return "PNull"
	}
	return "(PCons " + encSExpr(p.Car) + " " + encSExpr(p.Cdr) + ")"
}

// encSExpr transcribes the actual Go struct, exotic shapes included.
func encSExpr(s *ast.SExpr) string {
	if s == nil {
		return "SNull"
	}
	return "(SNode " + encPair(s.Pair) + " " + encAtom(s.Atom) + ")"
}

func encSExprs(xs []*ast.SExpr) string {
	parts := make([]string, len(xs))
	for i, x := range xs {
		parts[i] = encSExpr(x)
	}
	return coqList(parts)
}

// goDesc is a faithful, compact description of the struct (String() panics or lies on exotic shapes).
func goDesc(s *ast.SExpr) string {
	if s == nil {
		return "nil"
	}
	var sb strings.Builder
	sb.WriteString("{")
	if s.Pair != nil {
		sb.WriteString("P:(" + goDesc(s.Pair.Car) + " . " + goDesc(s.Pair.Cdr) + ")")
	}
	if s.Atom != nil {
		a := s.Atom
		sb.WriteString("A:{")
		if a.Str != nil {
			sb.WriteString(fmt.Sprintf("Str:%q ", *a.Str))
		}
		if a.Symbol != nil {
			sb.WriteString(fmt.Sprintf("Sym:%q ", *a.Symbol))
		}
		if a.Float != nil {
			sb.WriteString(fmt.Sprintf("Float:%v ", *a.Float))
		}
		if a.Int != nil {
			sb.WriteString(fmt.Sprintf("Int:%d ", *a.Int))
		}
		if a.Var != nil {
			sb.WriteString(fmt.Sprintf("Var:%q#%d ", a.Var.Name, a.Var.Index))
		}
		sb.WriteString("}")
	}
	sb.WriteString("}")
	return sb.String()
}

var c16Strs = []string{"", "a", "b", "ab", "a\x00", "\xff", "aa", "B", "é", "_0",
	// digit runs: an order that reads them as numbers must still be ONE order
	"_9", "_10", "_2", "_02", "_100000000000000000000000", "_18446744073709551615", "_18446744073709551616", "x9y", "x10y", "9", "10"}
var c16Ints = []int64{0, 1, -1, 2, 42, math.MaxInt64, math.MinInt64, math.MaxInt64 - 1, math.MinInt64 + 1, -9876543210}
var c16Floats = []float64{0, math.Copysign(0, -1), 1, -1, 0.5, -0.5, math.Inf(1), math.Inf(-1), math.MaxFloat64, -math.MaxFloat64, math.SmallestNonzeroFloat64, -math.SmallestNonzeroFloat64, 6.023e23, 1e-300}
var c16Idx = []uint64{0, 1, 2, math.MaxUint64, math.MaxUint64 - 1, 1 << 63}

func genAtom16(r *rand.Rand, exotic bool) *ast.Atom {
	a := &ast.Atom{}
	set := func(k int) {
		switch k {
		case 0:
			s := pick(r, c16Strs)
			a.Str = &s
		case 1:
			s := pick(r, c16Strs)
			a.Symbol = &s
		case 2:
			f := pick(r, c16Floats)
			a.Float = &f
		case 3:
			i := pick(r, c16Ints)
			a.Int = &i
		case 4:
			a.Var = &ast.Variable{Name: pick(r, c16Strs), Index: pick(r, c16Idx)}
		}
	}
	if exotic {
		// any subset of the five fields, the empty one included
		for k := 0; k < 5; k++ {
			if r.Intn(3) == 0 {
				set(k)
			}
		}
		return a
	}
	set(r.Intn(5))
	return a
}

// texts whose parse results are atoms / lists written in a spelling of their own (escapes, leading zeros, exponents): a value is
// what it contains, not how its source was spelled
var c16Parsed = []string{`"\x41"`, `"A"`, `"\u00e9"`, `"é"`, `"\101"`, `"a\tb"`, "\"a\tb\"", `-010`, `-10`, `-1e2`, `-100.0`, `-1.50`, `-1.5`,
	`("\x61" b "c")`, `("a" b "\x63")`, `(x . "\x41")`, `(-007 "\x41\x42")`, `a\ b`}

func genSExpr16(r *rand.Rand, depth int, exotic bool) *ast.SExpr {
	if r.Intn(10) == 0 {
		if e, err := sexpr.Parse(pick(r, c16Parsed)); err == nil {
			return e
		}
	}
	if depth <= 0 || r.Intn(3) == 0 {
		switch r.Intn(6) {
		case 0:
			return nil
		default:
			return &ast.SExpr{Atom: genAtom16(r, exotic && r.Intn(3) == 0)}
		}
	}
	if exotic && r.Intn(5) == 0 {
		// neither, or both, of Pair and Atom
		if r.Intn(2) == 0 {
			return &ast.SExpr{}
		}
		return &ast.SExpr{Pair: &ast.Pair{Car: genSExpr16(r, depth-1, exotic), Cdr: genSExpr16(r, depth-1, exotic)}, Atom: genAtom16(r, true)}
	}
	return ast.Cons(genSExpr16(r, depth-1, exotic), genSExpr16(r, depth-1, exotic))
}

// mutate16 returns a copy of s with one small change somewhere (to produce near-ties).
func mutate16(r *rand.Rand, s *ast.SExpr, exotic bool) *ast.SExpr {
	if s == nil || r.Intn(4) == 0 {
		return genSExpr16(r, 1, exotic)
	}
	c := &ast.SExpr{}
	if s.Atom != nil {
		if r.Intn(2) == 0 {
			c.Atom = genAtom16(r, exotic)
		} else {
			cp := *s.Atom
			c.Atom = &cp
		}
	}
	if s.Pair != nil {
		if r.Intn(2) == 0 {
			c.Pair = &ast.Pair{Car: mutate16(r, s.Pair.Car, exotic), Cdr: s.Pair.Cdr}
		} else {
			c.Pair = &ast.Pair{Car: s.Pair.Car, Cdr: mutate16(r, s.Pair.Cdr, exotic)}
		}
	}
	return c
}

// deepCopy16 makes a pointer-disjoint copy (so Equal cannot succeed by pointer identity).
func deepCopy16(s *ast.SExpr) *ast.SExpr {
	if s == nil {
		return nil
	}
	c := &ast.SExpr{}
	if s.Atom != nil {
		a := &ast.Atom{}
		if s.Atom.Str != nil {
			v := *s.Atom.Str
			a.Str = &v
		}
		if s.Atom.Symbol != nil {
			v := *s.Atom.Symbol
			a.Symbol = &v
		}
		if s.Atom.Float != nil {
			v := *s.Atom.Float
			a.Float = &v
		}
		if s.Atom.Int != nil {
			v := *s.Atom.Int
			a.Int = &v
		}
		if s.Atom.Var != nil {
			v := *s.Atom.Var
			a.Var = &v
		}
		c.Atom = a
	}
	if s.Pair != nil {
		c.Pair = &ast.Pair{Car: deepCopy16(s.Pair.Car), Cdr: deepCopy16(s.Pair.Cdr)}
	}
	return c
}

// subterms16 collects up to max distinct sub-expressions (by pointer) of the given roots.
func subterms16(roots []*ast.SExpr, max int) []*ast.SExpr {
	out := []*ast.SExpr{}
	var walk func(s *ast.SExpr)
	walk = func(s *ast.SExpr) {
		if len(out) >= max {
			return
		}
		out = append(out, s)
		if s != nil && s.Pair != nil {
			walk(s.Pair.Car)
			walk(s.Pair.Cdr)
		}
	}
	for _, r := range roots {
		walk(r)
	}
	return out
}

// orderLaws16 checks reflexivity, antisymmetry, consistency with Equal and transitivity on all triples of pool.
func orderLaws16(pool []*ast.SExpr) (string, string) {
	n := len(pool)
	c := make([][]int, n)
	for i := range c {
		c[i] = make([]int, n)
		for j := range c[i] {
			c[i][j] = pool[i].Compare(pool[j])
		}
	}
	for i := 0; i < n; i++ {
		if c[i][i] != 0 {
			return "reflexive", fmt.Sprintf("a=%s a.Compare(a)=%d", goDesc(pool[i]), c[i][i])
		}
		for j := 0; j < n; j++ {
			if sign(c[i][j]) != -sign(c[j][i]) {
				return "antisymmetric", fmt.Sprintf("a=%s b=%s a.Compare(b)=%d b.Compare(a)=%d", goDesc(pool[i]), goDesc(pool[j]), c[i][j], c[j][i])
			}
			if (c[i][j] == 0) != pool[i].Equal(pool[j]) {
				return "zero-iff-Equal", fmt.Sprintf("a=%s b=%s a.Compare(b)=%d a.Equal(b)=%v", goDesc(pool[i]), goDesc(pool[j]), c[i][j], pool[i].Equal(pool[j]))
			}
			for k := 0; k < n; k++ {
				if c[i][j] <= 0 && c[j][k] <= 0 && c[i][k] > 0 || c[i][j] < 0 && c[j][k] <= 0 && c[i][k] >= 0 || c[i][j] <= 0 && c[j][k] < 0 && c[i][k] >= 0 {
					return "transitive", fmt.Sprintf("a=%s b=%s c=%s a.Compare(b)=%d b.Compare(c)=%d a.Compare(c)=%d", goDesc(pool[i]), goDesc(pool[j]), goDesc(pool[k]), c[i][j], c[j][k], c[i][k])
				}
			}
		}
	}
	return "", ""
}

func sign(c int) int {
	if c < 0 {
		return -1
	}
	if c > 0 {
		return 1
	}
	return 0
}

func runC16(cfg *Config) *Report {
	rep := newReport()
	rep.Rule = "pairs/triples/slices of random S-expression structs (exotic shapes in 1/3 of the cases; second/third value is a mutation or deep copy of the first in 2/3); non-trivial = the comparison is decided below the root (both non-nil with equal top-level shape) or the slice has >=3 elements with a tie; distinct by printed input"
	cf := newCaseFile("From Coq Require Import List NArith ZArith.\nFrom GMK Require Import SexprStruct CorrBase Corr16.", "case16", "check16")
	r := newRand(cfg.Seed)
	// self-test of the float order key (trusted-base item): monotone and ==-faithful on the pool
	for _, a := range c16Floats {
		for _, b := range c16Floats {
			if (a < b) != (floatKey(a) < floatKey(b)) || (a == b) != (floatKey(a) == floatKey(b)) {
				rep.Notes = append(rep.Notes, fmt.Sprintf("floatKey self-test failed on %v %v", a, b))
			}
		}
	}
	// directed, oracle only: very long and very deep terms that differ only at the far end (no recursion-depth or length cut-off
	// may turn "differs" into "equal")
	if cfg.Only < 0 {
		long := func(n int, last int64) *ast.SExpr {
			var t *ast.SExpr
			t = ast.Cons(ast.NewInt(last), nil)
			for k := 0; k < n; k++ {
				t = ast.Cons(ast.NewInt(0), t)
			}
			return t
		}
		deep := func(n int, z string) *ast.SExpr {
			t := ast.NewSymbol(z)
			for k := 0; k < n; k++ {
				t = ast.Cons(t, nil)
			}
			return t
		}
		for _, n := range []int{12000, 40000} {
			for _, pair := range [][2]*ast.SExpr{{long(n, 1), long(n, 2)}, {deep(n, "z"), deep(n, "y")}} {
				a, b := pair[0], pair[1]
				cab, cba := a.Compare(b), b.Compare(a)
				if cab == 0 || cba == 0 || sign(cab) != -sign(cba) || a.Equal(b) {
					rep.violate(-1, "zero-iff-Equal", fmt.Sprintf("two terms of %d cons steps that differ only at the far end", n),
						fmt.Sprintf("a.Compare(b)=%d b.Compare(a)=%d a.Equal(b)=%v", cab, cba, a.Equal(b)))
				}
			}
		}
		rep.hist("directed: long and deep terms (12000 and 40000 cons steps)")
		// directed, oracle only: Sort on thousands of elements (nothing about the length of the input may matter: run boundaries,
		// buffer sizes, worker counts): a sorted permutation, and the same sequence whatever the input order was
		for _, n := range []int{1025, 2049, 3000, 6000, 7000} {
			rr := newRand(cfg.Seed + int64(n))
			in := make([]*ast.SExpr, n)
			for k := range in {
				switch rr.Intn(4) {
				case 0:
					in[k] = ast.NewInt(int64(rr.Intn(n)))
				case 1:
					in[k] = ast.NewSymbol(fmt.Sprintf("s%d", rr.Intn(n)))
				case 2:
					in[k] = ast.NewList(ast.NewInt(int64(rr.Intn(50))), ast.NewSymbol(fmt.Sprintf("t%d", rr.Intn(50))))
				default:
					in[k] = ast.NewString(fmt.Sprintf("%d", rr.Intn(n)))
				}
			}
			a := append([]*ast.SExpr{}, in...)
			b := append([]*ast.SExpr{}, in...)
			rr.Shuffle(len(b), func(x, y int) { b[x], b[y] = b[y], b[x] })
			sa, sb := ast.Sort(a), ast.Sort(b)
			bad := ""
			count := map[*ast.SExpr]int{}
			for _, e := range in {
				count[e]++
			}
			for k, e := range sa {
				count[e]--
				if k > 0 && bad == "" && sa[k-1].Compare(e) > 0 {
					bad = fmt.Sprintf("not sorted at position %d", k)
				}
			}
			for _, c := range count {
				if c != 0 && bad == "" {
					bad = "the result is not a permutation of the input"
				}
			}
			if bad == "" && len(sa) == len(sb) {
				for k := range sa {
					if sa[k].Compare(sb[k]) != 0 {
						bad = fmt.Sprintf("the sorted forms of two orders of the same elements differ at position %d", k)
						break
					}
				}
			}
			if len(sa) != n || len(sb) != n {
				bad = fmt.Sprintf("%d / %d elements returned", len(sa), len(sb))
			}
			if bad != "" {
				rep.violate(-1, "sort-large", fmt.Sprintf("ast.Sort of %d generated integers, symbols, strings and short lists", n), bad)
			}
		}
		rep.hist("directed: Sort of 1025..7000 elements")
	}
	for i := 0; i < cfg.N; i++ {
		exotic := r.Intn(3) == 0
		kind := r.Intn(4)
		// generate everything before deciding whether this index is kept, so -only replays exactly
		x := genSExpr16(r, 1+r.Intn(4), exotic)
		var y, z *ast.SExpr
		switch r.Intn(3) {
		case 0:
			y = genSExpr16(r, 1+r.Intn(4), exotic)
		case 1:
			y = mutate16(r, x, exotic)
		default:
			y = deepCopy16(x)
		}
		switch r.Intn(3) {
		case 0:
			z = genSExpr16(r, 1+r.Intn(4), exotic)
		case 1:
			z = mutate16(r, y, exotic)
		default:
			z = mutate16(r, x, exotic)
		}
		n := r.Intn(9)
		slice := make([]*ast.SExpr, n)
		pool := []*ast.SExpr{x, y, z}
		for j := range slice {
			if r.Intn(2) == 0 {
				slice[j] = deepCopy16(pick(r, pool))
			} else {
				slice[j] = genSExpr16(r, r.Intn(3), exotic)
			}
		}
		// values have a life before they are compared: some of them have been printed (String, GoString, %v), others have not;
		// comparing, Equal and sorting are functions of the value, not of what was done with it
		useMask := r.Intn(16)
		if cfg.Only >= 0 && cfg.Only != i {
			cf.add("CSort [] []") // keep indices aligned
			rep.CaseDesc = append(rep.CaseDesc, "")
			rep.CaseObs = append(rep.CaseObs, "")
			continue
		}
		rep.Evaluations++
		use16 := func(v *ast.SExpr) {
			defer func() { recover() }() // exotic structs may not be printable; that is not what is observed here
			_ = v.String()
			_ = fmt.Sprintf("%v %#v", v, v)
		}
		if useMask&1 != 0 {
			use16(x)
		}
		if useMask&2 != 0 {
			use16(z)
		}
		if useMask&4 != 0 {
			for j := range slice {
				if j%2 == 0 {
					use16(slice[j])
				}
			}
		}
		if useMask != 0 {
			rep.hist("some of the values were printed before the comparison")
		}
		if k, d := orderLaws16(subterms16(append([]*ast.SExpr{x, y, z}, slice...), 14)); k != "" {
			rep.violate(i, k, d, "order law fails on sub-expressions of case "+fmt.Sprint(i))
		}
		if kind < 3 {
			cxy, cyx := x.Compare(y), y.Compare(x)
			eq := x.Equal(y)
			desc := fmt.Sprintf("Compare/Equal x=%s y=%s z=%s", goDesc(x), goDesc(y), goDesc(z))
			obs := fmt.Sprintf("x.Compare(y)=%d y.Compare(x)=%d x.Equal(y)=%v", cxy, cyx, eq)
			cf.add(fmt.Sprintf("CCmp %s %s %s %s", encSExpr(x), encSExpr(y), coqZ(int64(cxy)), coqBool(eq)))
			rep.CaseDesc = append(rep.CaseDesc, desc)
			rep.CaseObs = append(rep.CaseObs, obs)
			rep.hist(fmt.Sprintf("cmp=%d", cxy))
			if x != nil && y != nil && (x.Pair != nil) == (y.Pair != nil) && (x.Atom != nil) == (y.Atom != nil) {
				rep.nontrivial(desc)
			}
			rep.sample(desc + " => " + obs)
			// direct oracle on the implementation
			if cxy < -1 || cxy > 1 {
				rep.violate(i, "range", desc, obs)
			}
			if x.Compare(x) != 0 || y.Compare(y) != 0 {
				rep.violate(i, "reflexive", desc, "x.Compare(x) != 0")
			}
			if sign(cyx) != -sign(cxy) {
				rep.violate(i, "antisymmetric", desc, obs)
			}
			if (cxy == 0) != eq {
				rep.violate(i, "zero-iff-Equal", desc, obs)
			}
			if eq != reflect.DeepEqual(deepCopy16(x), deepCopy16(y)) {
				rep.violate(i, "Equal-not-structural", desc, obs)
			}
			cyz, cxz := y.Compare(z), x.Compare(z)
			if cxy <= 0 && cyz <= 0 && !(cxz <= 0) || cxy < 0 && cyz < 0 && !(cxz < 0) || cxy >= 0 && cyz >= 0 && !(cxz >= 0) || cxy == 0 && cyz == 0 && cxz != 0 {
				rep.violate(i, "transitive", desc, fmt.Sprintf("cxy=%d cyz=%d cxz=%d", cxy, cyz, cxz))
			}
		} else {
			in := make([]*ast.SExpr, len(slice))
			copy(in, slice)
			work := make([]*ast.SExpr, len(slice))
			copy(work, slice)
			out := ast.Sort(work)
			descs := make([]string, len(in))
			for j, e := range in {
				descs[j] = goDesc(e)
			}
			desc := "Sort [" + strings.Join(descs, ", ") + "]"
			outd := make([]string, len(out))
			for j, e := range out {
				outd[j] = goDesc(e)
			}
			obs := "[" + strings.Join(outd, ", ") + "]"
			cf.add(fmt.Sprintf("CSort %s %s", encSExprs(in), encSExprs(out)))
			rep.CaseDesc = append(rep.CaseDesc, desc)
			rep.CaseObs = append(rep.CaseObs, obs)
			rep.hist(fmt.Sprintf("sortlen=%d", len(in)))
			tie := false
			for a := 0; a < len(in); a++ {
				for b := a + 1; b < len(in); b++ {
					if in[a].Compare(in[b]) == 0 {
						tie = true
					}
				}
			}
			if len(in) >= 3 && tie {
				rep.nontrivial(desc)
			}
			rep.sample(desc + " => " + obs)
			// oracle: sorted permutation
			if len(out) != len(in) {
				rep.violate(i, "sort-length", desc, obs)
			} else {
				for j := 0; j+1 < len(out); j++ {
					if out[j].Compare(out[j+1]) > 0 {
						rep.violate(i, "sort-not-sorted", desc, obs)
						break
					}
				}
				used := make([]bool, len(in))
				for _, e := range out {
					found := false
					for k, f := range in {
						if !used[k] && e == f {
							used[k] = true
							found = true
							break
						}
					}
					if !found {
						rep.violate(i, "sort-not-permutation", desc, obs)
						break
					}
				}
			}
		}
	}
	cf.write(cfg.Out)
	return rep
}
