// Command vharness is the correspondence harness: it runs the real gominikanren code on generated
// inputs, writes the observations as Coq case files for the models, and runs the direct oracles.
package main

import (
	"flag"
	"fmt"
	"os"
	"sort"
)

type cmd func(cfg *Config) *Report

var cmds = map[string]cmd{}

func register(name string, c cmd) { cmds[name] = c }

// commands whose observations are functions of the case alone (no addresses, clocks, schedules or map iteration orders in them;
// C18 logs calls in map iteration order and has its own history probe)
var historyFree = map[string]bool{"C01": true, "C08": true, "C16": true, "C14": true, "C15": true}

func cut(s string, n int) string {
	if len(s) > n {
		return s[:n] + "..."
	}
	return s
}

func main() {
	if len(os.Args) < 2 {
		names := []string{}
		for k := range cmds {
			names = append(names, k)
		}
		sort.Strings(names)
		fmt.Fprintf(os.Stderr, "usage: vharness <%v> [flags]\n", names)
		os.Exit(2)
	}
	name := os.Args[1]
	c, ok := cmds[name]
	if !ok {
		fmt.Fprintf(os.Stderr, "unknown command %q\n", name)
		os.Exit(2)
	}
	fs := flag.NewFlagSet(name, flag.ExitOnError)
	cfg := &Config{}
	fs.Int64Var(&cfg.Seed, "seed", 1, "PRNG seed")
	fs.IntVar(&cfg.N, "n", 300, "number of generated cases")
	fs.StringVar(&cfg.Out, "out", "", "Coq cases file to write")
	fs.StringVar(&cfg.JSON, "json", "", "report file to write")
	fs.IntVar(&cfg.Only, "only", -1, "replay: keep only the case with this index")
	fs.StringVar(&cfg.Tier, "tier", "quick", "quick|thorough")
	fs.StringVar(&cfg.Mode, "mode", "", "sub-mode (property specific)")
	fs.StringVar(&cfg.Arg, "arg", "", "extra argument (property specific)")
	fs.IntVar(&cfg.Shard, "shard", 0, "index of this shard")
	fs.IntVar(&cfg.NShards, "nshards", 1, "number of shards of this run")
	fs.Parse(os.Args[2:])
	if cfg.JSON != "" {
		progressPath = cfg.JSON + ".progress"
		os.Remove(progressPath)
	}
	rep := c(cfg)
	// the properties below are laws of every CALL: what a case yields must not depend on what the process did before.  The whole
	// run is repeated in the same process (same seed, so the same cases), and every observation must come out the same.
	if rep != nil && historyFree[name] && cfg.Only < 0 && cfg.Mode == "" && os.Getenv("VERIF_NO_RERUN") == "" {
		cfg2 := *cfg
		cfg2.Out = ""
		if rep2 := c(&cfg2); rep2 != nil {
			n := 0
			for i := range rep.CaseObs {
				if i < len(rep2.CaseObs) && i < len(rep.CaseDesc) && rep.CaseObs[i] != rep2.CaseObs[i] && n < 5 {
					n++
					rep.violate(i, "depends-on-call-history", rep.CaseDesc[i], fmt.Sprintf("the same case run a second time in the same process (after %d other cases) yields a different observation: first %q, second %q", len(rep.CaseObs), cut(rep.CaseObs[i], 300), cut(rep2.CaseObs[i], 300)))
				}
			}
			for _, v := range rep2.Violations { // whatever only shows the second time round
				found := false
				for _, w := range rep.Violations {
					found = found || (w.Case == v.Case && w.Kind == v.Kind)
				}
				if !found {
					rep.violate(v.Case, v.Kind, v.Input, "(second run of the case in the same process) "+v.Detail)
				}
			}
		}
	}
	if progressPath != "" {
		os.Remove(progressPath)
	}
	if rep != nil {
		rep.Property = name
		rep.Seed = cfg.Seed
		rep.write(cfg.JSON)
	}
}
