// Command vharness is the correspondence harness: it runs the real gominikanren code on generated
// inputs, writes the observations as Coq case files for the models, and runs the direct oracles.
package main

import (
	"flag"
	"fmt"
	"os"
	"sort"
)

type cmd func(cfg *Config) *Report

var cmds = map[string]cmd{}

func register(name string, c cmd) { cmds[name] = c }

func main() {
	if len(os.Args) < 2 {
		names := []string{}
		for k := range cmds {
			names = append(names, k)
		}
		sort.Strings(names)
		fmt.Fprintf(os.Stderr, "usage: vharness <%v> [flags]\n", names)
		os.Exit(2)
	}
	name := os.Args[1]
	c, ok := cmds[name]
	if !ok {
		fmt.Fprintf(os.Stderr, "unknown command %q\n", name)
		os.Exit(2)
	}
	fs := flag.NewFlagSet(name, flag.ExitOnError)
	cfg := &Config{}
	fs.Int64Var(&cfg.Seed, "seed", 1, "PRNG seed")
	fs.IntVar(&cfg.N, "n", 300, "number of generated cases")
	fs.StringVar(&cfg.Out, "out", "", "Coq cases file to write")
	fs.StringVar(&cfg.JSON, "json", "", "report file to write")
	fs.IntVar(&cfg.Only, "only", -1, "replay: keep only the case with this index")
	fs.StringVar(&cfg.Tier, "tier", "quick", "quick|thorough")
	fs.StringVar(&cfg.Mode, "mode", "", "sub-mode (property specific)")
	fs.StringVar(&cfg.Arg, "arg", "", "extra argument (property specific)")
	fs.IntVar(&cfg.Shard, "shard", 0, "index of this shard")
	fs.IntVar(&cfg.NShards, "nshards", 1, "number of shards of this run")
	fs.Parse(os.Args[2:])
	if cfg.JSON != "" {
		progressPath = cfg.JSON + ".progress"
		os.Remove(progressPath)
	}
	rep := c(cfg)
	if progressPath != "" {
		os.Remove(progressPath)
	}
	if rep != nil {
		rep.Property = name
		rep.Seed = cfg.Seed
		rep.write(cfg.JSON)
	}
}
