package main

// C01: micro's unify / walk / occurs / exts / walkStar / EqualO against coq/Unify.v, plus direct oracles
// (extends, unifier, most general and failure against an independent reference unifier).

import (
	"fmt"
	"sort"

	"github.com/awalterschulze/gominikanren/micro"
	"github.com/awalterschulze/gominikanren/sexpr/ast"
)

func init() { register("C01", runC01) }

func streamStates(ss *micro.StreamOfStates, budget int) ([]*micro.State, bool) {
	out := []*micro.State{}
	for i := 0; ss != nil; i++ {
		if i > budget {
			return out, false
		}
		var car *micro.State
		car, ss = ss.CarCdr()
		if car != nil {
			out = append(out, car)
		}
	}
	return out, true
}

func runC01(cfg *Config) *Report {
	rep := newReport()
	rep.Rule = "random terms over <=6 variables, 7 atoms (2 symbols, 2 ints, string, nil, float), depth<=3; v is an abstraction/mutation of u in half the cases; start substitution acyclic by construction (random order, var-var chains, partially bound pairs) or reached by earlier EqualO calls; non-trivial = some variable of u or v is dereferenced through the start substitution and the verdict is not decided by the root constructors alone; distinct by printed (u,v,s)"
	cf := newCaseFile("From Coq Require Import List NArith ZArith.\nFrom GMK Require Import Term Unify CorrBase Corr01.", "case01", "check01")
	r := newRand(cfg.Seed)
	for i := 0; i < cfg.N; i++ {
		nv := 1 + r.Intn(6)
		var s micro.Substitutions
		if r.Intn(3) == 0 {
			// a state reached by running equalities from the empty state
			st := micro.EmptyState()
			for k := 0; k < 1+r.Intn(3); k++ {
				a, b := genTerm(r, 2, nv), genTerm(r, 2, nv)
				if r.Intn(2) == 0 {
					b = abstractTerm(r, a, nv)
				}
				if res, _ := streamStates(micro.EqualO(a, b)(st), 10); len(res) == 1 {
					st = res[0]
				}
			}
			s = st.Substitutions
		} else {
			s = genSubst(r, nv)
		}
		u := genTerm(r, 1+r.Intn(3), nv)
		var v *ast.SExpr
		switch r.Intn(4) {
		case 0, 1:
			v = abstractTerm(r, u, nv)
		case 2:
			v = genTerm(r, 1+r.Intn(3), nv)
		default:
			v = micro.Var(uint64(r.Intn(nv)))
		}
		if r.Intn(2) == 0 {
			u, v = v, u
		}
		x := uint64(r.Intn(nv))
		ctr := uint64(nv + r.Intn(3))
		kind := r.Intn(10)
		// terms have a life before they are unified: some have been printed (String, %v), which says nothing about what they are
		switch r.Intn(6) {
		case 0:
			_ = u.String()
			v = rebuildTerm(v) // the other side is made of atoms of its own, never printed
		case 1:
			u = rebuildTerm(u)
			_ = fmt.Sprintf("%v %v", v, s)
		}
		if cfg.Only >= 0 && cfg.Only != i {
			cf.add("CWalk 0%N [] (TVar 0%N)")
			rep.CaseDesc = append(rep.CaseDesc, "")
			rep.CaseObs = append(rep.CaseObs, "")
			continue
		}
		rep.Evaluations++
		sBefore := showSubst(s)
		desc := ""
		obs := ""
		switch {
		case kind < 5: // unify + EqualO, with the direct oracle
			desc = fmt.Sprintf("unify u=%s v=%s s=%s counter=%d", showTerm(u), showTerm(v), sBefore, ctr)
			begin(i, desc)
			s2, ok := micro.VerifUnify(u, v, s)
			states, fin := streamStates(micro.EqualO(u, v)(&micro.State{Substitutions: s, Counter: ctr}), 10)
			obs = fmt.Sprintf("ok=%v s'=%s; EqualO yields %d state(s)", ok, showSubst(s2), len(states))
			if kind < 3 {
				cf.add(fmt.Sprintf("CUnify %s %s %s %s %s", encTerm(u), encTerm(v), encSubst(s), coqBool(ok), encSubst(s2)))
			} else {
				outs := []string{}
				for _, st := range states {
					outs = append(outs, "("+encSubst(st.Substitutions)+", "+coqN(st.Counter)+")")
				}
				cf.add(fmt.Sprintf("CEqualO %s %s %s %s %s", encTerm(u), encTerm(v), encSubst(s), coqN(ctr), coqList(outs)))
			}
			// ---- direct oracle
			if !fin {
				rep.violate(i, "equalo-diverges", desc, obs)
			}
			if ok != (len(states) == 1) || len(states) > 1 {
				rep.violate(i, "equalo-state-count", desc, obs)
			}
			if showSubst(s) != sBefore {
				rep.violate(i, "input-substitution-mutated", desc, "after: "+showSubst(s))
			}
			ref := toRef(s)
			refOK := refUnify(u, v, ref)
			if ok != refOK {
				rep.violate(i, "verdict", desc, fmt.Sprintf("%s; reference unifier says unifiable=%v", obs, refOK))
			}
			if ok {
				if len(states) == 1 && states[0].Counter != ctr {
					rep.violate(i, "counter-changed", desc, obs)
				}
				// keeps every earlier binding, as a prefix
				pre := len(s2) >= len(s)
				for k := 0; pre && k < len(s); k++ {
					pre = s2[k].Key == s[k].Key && s2[k].Value.Equal(s[k].Value)
				}
				if !pre {
					rep.violate(i, "earlier-binding-lost", desc, obs)
				}
				// the result is acyclic (the harness's own check: walkStar would not return on a cycle)
				if substCyclic(s2) {
					rep.violate(i, "cyclic-result", desc, obs)
					rep.hist("unify ok=true (cyclic)")
					break
				}
				// both sides resolve to the identical term
				wu, wv := micro.VerifWalkStar(u, s2), micro.VerifWalkStar(v, s2)
				if !wu.Equal(wv) {
					rep.violate(i, "not-a-unifier", desc, fmt.Sprintf("%s; walkStar u=%s v=%s", obs, showTerm(wu), showTerm(wv)))
				}
				// most general: same unifier as the reference mgu up to renaming
				if refOK {
					univ := map[uint64]bool{}
					termVars(u, univ)
					termVars(v, univ)
					for _, p := range s {
						univ[p.Key] = true
						termVars(p.Value, univ)
					}
					vs := []uint64{}
					for k := range univ {
						vs = append(vs, k)
					}
					sort.Slice(vs, func(a, b int) bool { return vs[a] < vs[b] })
					got, want := canonVec(vs, toRef(s2)), canonVec(vs, ref)
					if got != want {
						rep.violate(i, "not-most-general", desc, fmt.Sprintf("%s; resolved images %s; reference mgu %s", obs, got, want))
					}
				}
			}
			rep.hist(fmt.Sprintf("unify ok=%v", ok))
			// non-triviality: a variable of u or v is bound in s, and both roots are not distinct non-variable constructors
			deref := false
			uv := map[uint64]bool{}
			termVars(u, uv)
			termVars(v, uv)
			for _, p := range s {
				if uv[p.Key] {
					deref = true
				}
			}
			if deref && (isVar(u) || isVar(v) || (u != nil && v != nil && u.Pair != nil && v.Pair != nil)) {
				rep.nontrivial(desc)
			}
		case kind == 5:
			desc = fmt.Sprintf("walk x=?%d s=%s", x, sBefore)
			begin(i, desc)
			w := micro.VerifWalk(&ast.Variable{Index: x}, s)
			obs = showTerm(w)
			cf.add(fmt.Sprintf("CWalk %s %s %s", coqN(x), encSubst(s), encTerm(w)))
			rep.hist("walk")
			if !(isVar(w) && w.Atom.Var.Index == x) {
				rep.nontrivial(desc)
			}
		case kind == 6 || kind == 7:
			desc = fmt.Sprintf("occurs x=?%d v=%s s=%s", x, showTerm(u), sBefore)
			begin(i, desc)
			b := micro.VerifOccurs(&ast.Variable{Index: x}, u, s)
			obs = fmt.Sprint(b)
			cf.add(fmt.Sprintf("COccurs %s %s %s %s", coqN(x), encTerm(u), encSubst(s), coqBool(b)))
			rep.hist(fmt.Sprintf("occurs=%v", b))
			if b != refOccurs(x, u, toRef(s)) {
				rep.violate(i, "occurs", desc, obs)
			}
			if len(s) > 0 {
				rep.nontrivial(desc)
			}
		case kind == 8:
			desc = fmt.Sprintf("exts x=?%d v=%s s=%s", x, showTerm(u), sBefore)
			begin(i, desc)
			s2, ok := micro.VerifExts(&ast.Variable{Index: x}, u, s)
			obs = fmt.Sprintf("ok=%v s'=%s", ok, showSubst(s2))
			cf.add(fmt.Sprintf("CExts %s %s %s %s %s", coqN(x), encTerm(u), encSubst(s), coqBool(ok), encSubst(s2)))
			rep.hist(fmt.Sprintf("exts ok=%v", ok))
			if showSubst(s) != sBefore {
				rep.violate(i, "input-substitution-mutated", desc, "after: "+showSubst(s))
			}
			if len(s) > 0 {
				rep.nontrivial(desc)
			}
		default:
			desc = fmt.Sprintf("walkStar t=%s s=%s", showTerm(u), sBefore)
			begin(i, desc)
			w := micro.VerifWalkStar(u, s)
			obs = showTerm(w)
			cf.add(fmt.Sprintf("CWalkStar %s %s %s", encTerm(u), encSubst(s), encTerm(w)))
			rep.hist("walkStar")
			if showTerm(w) != showTerm(refResolve(u, toRef(s))) {
				rep.violate(i, "walkStar", desc, obs)
			}
			if len(s) > 0 {
				rep.nontrivial(desc)
			}
		}
		rep.CaseDesc = append(rep.CaseDesc, desc)
		rep.CaseObs = append(rep.CaseObs, obs)
		rep.sample(desc + " => " + obs)
	}
	cf.write(cfg.Out)
	return rep
}

// rebuildTerm builds the same term again with the exported constructors: new pairs, new atoms (variables keep their index and
// name; the one NaN atom of the pools stays the one it is, see terms.go).
func rebuildTerm(t *ast.SExpr) *ast.SExpr {
	switch {
	case t == nil:
		return nil
	case t.Pair != nil:
		return ast.Cons(rebuildTerm(t.Pair.Car), rebuildTerm(t.Pair.Cdr))
	case t.Atom == nil || t == nanAtom:
		return t
	case t.Atom.Var != nil:
		return ast.NewVar(t.Atom.Var.Name, t.Atom.Var.Index)
	case t.Atom.Symbol != nil:
		return ast.NewSymbol(*t.Atom.Symbol)
	case t.Atom.Str != nil:
		return ast.NewString(*t.Atom.Str)
	case t.Atom.Int != nil:
		return ast.NewInt(*t.Atom.Int)
	case t.Atom.Float != nil:
		return ast.NewFloat(*t.Atom.Float)
	}
	return t
}
