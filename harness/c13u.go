package main

// C13, the unrolled variants: mini.MemberOUnrolled / MapOUnrolled / MapODoubleUnrolled against (a) the recursive relations
// called on the same list (oracle: same answers) and (b) the models of coq/Unrolled.v (correspondence: micro.Run of the
// real goal = run of the model goal).  An unrolling is a VALUE: it is also applied twice inside one conjunction, with
// different relation arguments, which must behave like two independent calls of the recursive relation.

import (
	"fmt"
	"sort"
	"strings"

	"github.com/awalterschulze/gominikanren/micro"
	"github.com/awalterschulze/gominikanren/mini"
	"github.com/awalterschulze/gominikanren/sexpr/ast"
)

func runUnrolled(cfg *Config) *Report {
	rep := newReport()
	rep.Rule = "ground lists of 0..4 elements (repeats), and for MemberOUnrolled also lists whose elements include the query variable and a variable bound in the same conjunction, x first argument {query variable, ground, partial list} x relation argument {==, succ, finite table}; MemberOUnrolled / MapOUnrolled / MapODoubleUnrolled once, and one unrolling applied twice in a conjunction with two relation arguments; all answers; non-trivial = the list has >= 2 elements; distinct by printed case"
	cf := newCaseFile("From Coq Require Import List NArith ZArith.\nFrom GMK Require Import Term Unify Goal Stream Reify ListRel Unrolled Reflect GCore CorrBase Corr01 Corr02 Corr08.\nFrom GMK.gen Require Import RelMini.", "case08", "check08")
	r := newRand(cfg.Seed)
	runAll := func(mk func(q *ast.SExpr) micro.Goal) []string {
		outs := micro.Run(-1, mk)
		parts := make([]string, len(outs))
		for k, o := range outs {
			parts[k] = o.String()
		}
		return parts
	}
	sorted := func(xs []string) string {
		ys := append([]string{}, xs...)
		sort.Strings(ys)
		return strings.Join(ys, " ")
	}
	encOuts := func(mk func(q *ast.SExpr) micro.Goal) []string {
		outs := micro.Run(-1, mk)
		parts := make([]string, len(outs))
		for k, o := range outs {
			parts[k] = encTerm(o)
		}
		return parts
	}
	for i := 0; i < cfg.N; i++ {
		n := r.Intn(5)
		cars := groundElems(r, n)
		if r.Intn(3) == 0 { // numerals, so that succ has answers
			for k := range cars {
				cars[k] = natPT(r.Intn(3))
			}
		}
		carsCoq := make([]string, n)
		for k, c := range cars {
			carsCoq[k] = c.coq()
		}
		listT := ptList(cars...).close(nil)
		f1, f2 := pick(r, []string{"eq", "succ", "tab"}), pick(r, []string{"eq", "succ", "tab"})
		// the first argument as a program term over the query variable (PB 0)
		var xArg *PT
		switch r.Intn(4) {
		case 0, 1:
			xArg = ptB(0)
		case 2:
			xArg = ptList(groundElems(r, n)...)
		default:
			xArg = abstractList(r, groundElems(r, n), 1)
		}
		kind := r.Intn(9)
		twoStates := r.Intn(2) == 0 // kinds 1, 2: the unrolled goal VALUE runs on two states with different variable counters
		if cfg.Only >= 0 && cfg.Only != i {
			cf.add("CReifyS TNil []")
			rep.CaseDesc = append(rep.CaseDesc, "")
			rep.CaseObs = append(rep.CaseObs, "")
			continue
		}
		rep.Evaluations++
		x := func(q *ast.SExpr) *ast.SExpr { return xArg.close([]*ast.SExpr{q}) }
		var desc, model string
		var real, rec func(q *ast.SExpr) micro.Goal
		switch kind {
		case 0:
			e := elemArg(r, 1)
			ex := func(q *ast.SExpr) *ast.SExpr { return e.close([]*ast.SExpr{q}) }
			desc = fmt.Sprintf("MemberOUnrolled(%s)(%s)", showTerm(listT), e.show())
			real = func(q *ast.SExpr) micro.Goal { return mini.MemberOUnrolled(listT)(ex(q)) }
			rec = func(q *ast.SExpr) micro.Goal { return mini.MemberO(ex(q), listT) }
			model = fmt.Sprintf("(membero_unrolled %s %s)", coqList(carsCoq), e.coq())
		case 1:
			desc = fmt.Sprintf("MapOUnrolled(%s)(%s, %s)", showTerm(listT), f1, xArg.show())
			real = func(q *ast.SExpr) micro.Goal { return mini.MapOUnrolled(listT)(mapFun(f1), x(q)) }
			rec = func(q *ast.SExpr) micro.Goal { return mini.MapO(mapFun(f1), x(q), listT) }
			model = fmt.Sprintf("(mapo_unrolled %s %s %s)", coqFcall(f1), coqList(carsCoq), xArg.coq())
		case 2:
			desc = fmt.Sprintf("MapODoubleUnrolled(%s, %s)(%s)", f1, showTerm(listT), xArg.show())
			real = func(q *ast.SExpr) micro.Goal { return mini.MapODoubleUnrolled(mapFun(f1), listT)(x(q)) }
			rec = func(q *ast.SExpr) micro.Goal { return mini.MapO(mapFun(f1), x(q), listT) }
			model = fmt.Sprintf("(mapo_double_unrolled %s %s %s)", coqFcall(f1), coqList(carsCoq), xArg.coq())
		case 6, 7, 8:
			// the unrolled list is a Go VALUE and may contain logic variables: the query variable, or a variable p of the
			// enclosing conjunction that is bound (before or after the membership goal) to an atom.  env: PB 0 = p, PB 1 = q.
			pcars := make([]*PT, n)
			pcoq := make([]string, n)
			for k := range pcars {
				switch r.Intn(4) {
				case 0:
					pcars[k] = ptB(0)
				case 1:
					pcars[k] = ptB(1)
				default:
					pcars[k] = cars[k]
				}
				pcoq[k] = pcars[k].coq()
			}
			var e *PT
			switch r.Intn(4) {
			case 0:
				e = ptB(1)
			case 1:
				e = ptB(0)
			default: // a constant, most often one that occurs in the list
				if n > 0 && r.Intn(4) != 0 {
					e = cars[r.Intn(n)]
				} else {
					e = ptAtom(pick(r, listElems))
				}
			}
			var bound *PT
			if n > 0 && r.Intn(2) == 0 {
				bound = cars[r.Intn(n)]
			} else {
				bound = ptAtom(pick(r, listElems))
			}
			if e.K != "b" && r.Intn(2) == 0 {
				bound = e
			}
			before := kind != 8
			plist := ptList(pcars...)
			desc = fmt.Sprintf("fresh p: %s MemberOUnrolled(%s)(%s) %s", map[bool]string{true: "p == " + bound.show() + ",", false: ""}[before], plist.show(), e.show(),
				map[bool]string{true: "", false: ", p == " + bound.show()}[before])
			mkG := func(member func(env []*ast.SExpr) micro.Goal) func(q *ast.SExpr) micro.Goal {
				return func(q *ast.SExpr) micro.Goal {
					return micro.CallFresh(func(p *ast.SExpr) micro.Goal {
						env := []*ast.SExpr{p, q}
						eq := micro.EqualO(p, bound.close(env))
						if before {
							return micro.Conj(eq, member(env))
						}
						return micro.Conj(member(env), eq)
					})
				}
			}
			real = mkG(func(env []*ast.SExpr) micro.Goal { return mini.MemberOUnrolled(plist.close(env))(e.close(env)) })
			rec = mkG(func(env []*ast.SExpr) micro.Goal { return mini.MemberO(e.close(env), plist.close(env)) })
			mem := fmt.Sprintf("(membero_unrolled %s %s)", coqList(pcoq), e.coq())
			eqc := fmt.Sprintf("(GEq (PB 0) %s)", bound.coq())
			if before {
				model = fmt.Sprintf("(GFresh (GConj %s %s))", eqc, mem)
			} else {
				model = fmt.Sprintf("(GFresh (GConj %s %s))", mem, eqc)
			}
		default:
			// one unrolling, two applications in one conjunction: q = (a b), m(f1, a), m(f2, b)
			double := kind == 5
			desc = fmt.Sprintf("m := MapOUnrolled(%s); fresh a b: q == (a b), m(%s, a), m(%s, b)", showTerm(listT), f1, f2)
			if double {
				f2 = f1
				desc = fmt.Sprintf("m := MapODoubleUnrolled(%s, %s); fresh a b: q == (a b), m(a), m(b)", f1, showTerm(listT))
			}
			real = func(q *ast.SExpr) micro.Goal {
				m := mini.MapOUnrolled(listT)
				md := mini.MapODoubleUnrolled(mapFun(f1), listT)
				return micro.CallFresh(func(a *ast.SExpr) micro.Goal {
					return micro.CallFresh(func(b *ast.SExpr) micro.Goal {
						if double {
							return micro.Conj(micro.EqualO(q, ast.Cons(a, ast.Cons(b, nil))), micro.Conj(md(a), md(b)))
						}
						return micro.Conj(micro.EqualO(q, ast.Cons(a, ast.Cons(b, nil))), micro.Conj(m(mapFun(f1), a), m(mapFun(f2), b)))
					})
				})
			}
			rec = func(q *ast.SExpr) micro.Goal {
				return micro.CallFresh(func(a *ast.SExpr) micro.Goal {
					return micro.CallFresh(func(b *ast.SExpr) micro.Goal {
						return micro.Conj(micro.EqualO(q, ast.Cons(a, ast.Cons(b, nil))), micro.Conj(mini.MapO(mapFun(f1), a, listT), mini.MapO(mapFun(f2), b, listT)))
					})
				})
			}
			model = fmt.Sprintf("(GFresh (GFresh (GConj (GEq (PB 2) (PPair (PB 1) (PPair (PB 0) PNil))) (GConj (mapo_unrolled %s %s (PB 1)) (mapo_unrolled %s %s (PB 0))))))",
				coqFcall(f1), coqList(carsCoq), coqFcall(f2), coqList(carsCoq))
		}
		if twoStates && (kind == 1 || kind == 2) {
			// g := <the unrolled goal>; conj(disj(succeed, fresh(succeed)), g): one goal value, run on the two answer states of the
			// disjunction (the second has one variable more); both runs answer as the recursive relation does, and independently
			desc = "g := " + desc + "; conj(disj(succeed, fresh _: succeed), g)"
			wrap := func(inner func(q *ast.SExpr) micro.Goal) func(q *ast.SExpr) micro.Goal {
				return func(q *ast.SExpr) micro.Goal {
					g := inner(q)
					return micro.Conj(micro.Disj(micro.SuccessO, micro.CallFresh(func(*ast.SExpr) micro.Goal { return micro.SuccessO })), g)
				}
			}
			real, rec = wrap(real), wrap(rec)
			model = "(GConj (GDisj GSucc (GFresh GSucc)) " + model + ")"
		}
		begin(i, desc)
		got, want := runAll(real), runAll(rec)
		obs := "(" + strings.Join(got, " ") + ")"
		if sorted(got) != sorted(want) {
			rep.violate(i, "unrolled-differs-from-recursive", desc, fmt.Sprintf("unrolled answers %s; the recursive relation on the same list answers (%s)", obs, strings.Join(want, " ")))
		}
		if again := runAll(real); sorted(again) != sorted(got) {
			rep.violate(i, "unrolled-rerun-differs", desc, fmt.Sprintf("first run %s, second run (%s)", obs, strings.Join(again, " ")))
		}
		cf.add(fmt.Sprintf("CRun (mini_defs %s) %s (-1)%%Z 400 %s", coqFcall(f1), model, coqList(encOuts(real))))
		rep.CaseDesc = append(rep.CaseDesc, desc)
		rep.CaseObs = append(rep.CaseObs, obs)
		rep.sample(desc + " => " + obs)
		rep.hist([]string{"MemberOUnrolled", "MapOUnrolled", "MapODoubleUnrolled", "MapOUnrolled twice", "MapOUnrolled twice", "MapODoubleUnrolled twice", "MemberOUnrolled partial list", "MemberOUnrolled partial list", "MemberOUnrolled partial list"}[kind])
		rep.hist(fmt.Sprintf("answers=%d", min(len(got), 5)))
		if n >= 2 {
			rep.nontrivial(desc)
		}
	}
	cf.write(cfg.Out)
	return rep
}
