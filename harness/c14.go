package main

// C14 (sexpr.Parse accepts exactly the grammar and builds the specified tree) and C15 (print/parse round trip):
// runs the real sexpr.Parse / lexer.Scan / String() on generated inputs, writes the observations as cases for
// coq/Corr14.v, and runs the direct oracles, which are independent of the Coq models and of the gocc-generated code:
// a derivative-based scanner for the token regular expressions of sexpr.bnf (hand-transcribed below) under the Scan
// loop's matching rule, and a hand-written recursive-descent parser for the syntax part of sexpr.bnf.

import (
	"fmt"
	"math"
	"math/rand"
	"sort"
	"strconv"
	"strings"
	"sync"
	"unicode/utf8"

	"github.com/awalterschulze/gominikanren/sexpr"
	"github.com/awalterschulze/gominikanren/sexpr/ast"
	"github.com/awalterschulze/gominikanren/sexpr/lexer"
	"github.com/awalterschulze/gominikanren/sexpr/token"
)

func init() {
	register("C14", runC14)
	register("C15", runC15)
}

// token ids of token.TokMap (checked against the real TokMap at start-up)
const (
	tINVALID = 0
	tEOF     = 1
	tLP      = 2
	tRP      = 3
	tSPACE   = 4
	tDOT     = 5
	tSYMBOL  = 6
	tINT     = 7
	tFLOAT   = 8
	tSTRING  = 9
	tVAR     = 10
)

var c14TokNames = []string{"INVALID", "␚", "(", ")", "space", ".", "symbol", "int_lit", "float_lit", "string_lit", "variable"}

func c14CheckTokMap() string {
	for i, n := range c14TokNames {
		if token.TokMap.Id(token.Type(i)) != n || int(token.TokMap.Type(n)) != i {
			return fmt.Sprintf("token.TokMap id %d is %q, the harness expects %q", i, token.TokMap.Id(token.Type(i)), n)
		}
	}
	if token.TokMap.Id(token.Type(len(c14TokNames))) != "unknown" {
		return "token.TokMap has more tokens than the harness knows"
	}
	return ""
}

type tok14 struct {
	typ int
	lit string
}

// ---------------------------------------------------------------------------------------------------------------
// canonical trees
// ---------------------------------------------------------------------------------------------------------------

// cx is a canonical parse tree: variables by name only, floats by their literal text.
type cx struct {
	kind byte // 'n' nil, 'c' cons, 'y' symbol, 'i' int, 'f' float, 's' string, 'v' variable
	a, d *cx
	s    string
	z    int64
}

var cxNil = &cx{kind: 'n'}

func (c *cx) coq() string {
	switch c.kind {
	case 'n':
		return "XNil"
	case 'c':
		return "(XCons " + c.a.coq() + " " + c.d.coq() + ")"
	case 'y':
		return "(XSym " + coqBytes(c.s) + ")"
	case 'i':
		return "(XInt " + coqZ(c.z) + ")"
	case 'f':
		return "(XFloat " + coqBytes(c.s) + ")"
	case 's':
		return "(XStr " + coqBytes(c.s) + ")"
	case 'v':
		return "(XVar " + coqBytes(c.s) + ")"
	}
	panic("cx.coq")
}

func (c *cx) String() string {
	switch c.kind {
	case 'n':
		return "nil"
	case 'c':
		return "(" + c.a.String() + " . " + c.d.String() + ")"
	case 'y':
		return fmt.Sprintf("sym:%q", c.s)
	case 'i':
		return fmt.Sprintf("int:%d", c.z)
	case 'f':
		return fmt.Sprintf("flt:%q", c.s)
	case 's':
		return fmt.Sprintf("str:%q", c.s)
	case 'v':
		return fmt.Sprintf("var:%q", c.s)
	}
	panic("cx.String")
}

// canonParse canonicalises a tree returned by sexpr.Parse. atoms are the atom tokens of the input in order (the
// leaves of the tree are in token order); they give the literal text of floats, and every leaf is checked against
// the converter applied to its literal (the tree is the one the semantic actions specify).
func canonParse(e *ast.SExpr, atoms []tok14, idx *int) (*cx, string) {
	if e == nil {
		return cxNil, ""
	}
	if e.Pair != nil && e.Atom != nil || e.Pair == nil && e.Atom == nil {
		return nil, "exotic struct in parse result"
	}
	if e.Pair != nil {
		a, bad := canonParse(e.Pair.Car, atoms, idx)
		if bad != "" {
			return nil, bad
		}
		d, bad := canonParse(e.Pair.Cdr, atoms, idx)
		if bad != "" {
			return nil, bad
		}
		return &cx{kind: 'c', a: a, d: d}, ""
	}
	if *idx >= len(atoms) {
		return nil, "more atoms in the tree than atom tokens in the input"
	}
	t := atoms[*idx]
	*idx++
	a := e.Atom
	n := 0
	for _, set := range []bool{a.Str != nil, a.Symbol != nil, a.Float != nil, a.Int != nil, a.Var != nil} {
		if set {
			n++
		}
	}
	if n != 1 {
		return nil, "atom with not exactly one field"
	}
	switch {
	case a.Symbol != nil:
		if t.typ != tSYMBOL || *a.Symbol != t.lit {
			return nil, fmt.Sprintf("symbol %q built for token %s %q", *a.Symbol, c14TokNames[t.typ], t.lit)
		}
		return &cx{kind: 'y', s: *a.Symbol}, ""
	case a.Int != nil:
		v, err := strconv.ParseInt(t.lit, 10, 64)
		if t.typ != tINT || err != nil || v != *a.Int {
			return nil, fmt.Sprintf("int %d built for token %s %q", *a.Int, c14TokNames[t.typ], t.lit)
		}
		return &cx{kind: 'i', z: *a.Int}, ""
	case a.Float != nil:
		v, err := strconv.ParseFloat(t.lit, 64)
		if t.typ != tFLOAT || err != nil || math.Float64bits(v) != math.Float64bits(*a.Float) {
			return nil, fmt.Sprintf("float %v built for token %s %q", *a.Float, c14TokNames[t.typ], t.lit)
		}
		return &cx{kind: 'f', s: t.lit}, ""
	case a.Str != nil:
		v, err := strconv.Unquote(t.lit)
		if t.typ != tSTRING || err != nil || v != *a.Str {
			return nil, fmt.Sprintf("string %q built for token %s %q", *a.Str, c14TokNames[t.typ], t.lit)
		}
		return &cx{kind: 's', s: *a.Str}, ""
	default:
		if t.typ != tVAR || len(t.lit) == 0 || t.lit[0] != ',' || a.Var.Name != t.lit[1:] {
			return nil, fmt.Sprintf("variable %q built for token %s %q", a.Var.Name, c14TokNames[t.typ], t.lit)
		}
		return &cx{kind: 'v', s: a.Var.Name}, ""
	}
}

// canonBuilt canonicalises an expression built with the exported constructors (C15); floats are not printable atoms.
func canonBuilt(e *ast.SExpr) *cx {
	if e == nil {
		return cxNil
	}
	if e.Pair != nil {
		return &cx{kind: 'c', a: canonBuilt(e.Pair.Car), d: canonBuilt(e.Pair.Cdr)}
	}
	a := e.Atom
	switch {
	case a.Symbol != nil:
		return &cx{kind: 'y', s: *a.Symbol}
	case a.Int != nil:
		return &cx{kind: 'i', z: *a.Int}
	case a.Str != nil:
		return &cx{kind: 's', s: *a.Str}
	case a.Var != nil:
		return &cx{kind: 'v', s: a.Var.Name}
	}
	panic("canonBuilt: float or empty atom")
}

// ---------------------------------------------------------------------------------------------------------------
// the real code
// ---------------------------------------------------------------------------------------------------------------

// realLex scans to the first EOF inclusive. A panic is an observation.
func realLex(s string) (toks []tok14, panicked string) {
	defer func() {
		if r := recover(); r != nil {
			panicked = fmt.Sprint(r)
		}
	}()
	l := lexer.NewLexer([]byte(s))
	for i := 0; i <= len(s)+1; i++ {
		t := l.Scan()
		toks = append(toks, tok14{int(t.Type), string(t.Lit)})
		if t.Type == token.EOF {
			return toks, ""
		}
	}
	return toks, "no EOF after len+2 scans"
}

type parseObs struct {
	kind     byte // 'A' accept, 'E' error, 'P' panic
	tree     *ast.SExpr
	panicMsg string
}

func realParse(s string) (o parseObs) {
	defer func() {
		if r := recover(); r != nil {
			o = parseObs{kind: 'P', panicMsg: fmt.Sprint(r)}
		}
	}()
	e, err := sexpr.Parse(s)
	if err != nil {
		return parseObs{kind: 'E'}
	}
	return parseObs{kind: 'A', tree: e}
}

// parseKey: the observable outcome of one Parse call
func parseKey(o parseObs) string {
	switch o.kind {
	case 'A':
		str, p := realString(o.tree)
		if p != "" {
			return "A!" + p
		}
		return "A:" + str
	case 'P':
		return "P"
	}
	return "E"
}

// The models treat Parse as a function of its input: no state survives a call and calls do not interfere.  The property
// quantifies over input strings only, so this is what "for every input" silently relies on; it is checked here by calling
// Parse on the same inputs again from several goroutines at once (each in its own order) and comparing with the first,
// sequential outcome.
func c14FunctionOfInput(rep *Report, inputs []string, cases []int, want []string) {
	if len(inputs) == 0 {
		return
	}
	const workers = 8
	begin(cases[0], "concurrent calls of sexpr.Parse on the inputs of this run")
	type bad struct {
		i   int
		got string
	}
	var mu sync.Mutex
	var bads []bad
	var wg sync.WaitGroup
	for w := 0; w < workers; w++ {
		wg.Add(1)
		go func(w int) {
			defer wg.Done()
			n := len(inputs)
			for round := 0; round < 3; round++ {
				for j := 0; j < n; j++ {
					i := (j*(2*w+1) + w*7919 + round) % n
					got := parseKey(realParse(inputs[i]))
					if got != want[i] {
						mu.Lock()
						if len(bads) < 20 {
							bads = append(bads, bad{i, got})
						}
						mu.Unlock()
					}
				}
			}
		}(w)
	}
	wg.Wait()
	rep.hist(fmt.Sprintf("function-of-input: %d inputs x %d goroutines x 3 rounds", len(inputs), workers))
	for _, b := range bads {
		rep.violate(cases[b.i], "parse-not-a-function-of-input", fmt.Sprintf("%q", inputs[b.i]),
			fmt.Sprintf("first (sequential) call: %s; a later call concurrent with other Parse calls: %s", want[b.i], b.got))
	}
}

func realString(e *ast.SExpr) (s string, panicked string) {
	defer func() {
		if r := recover(); r != nil {
			panicked = fmt.Sprint(r)
		}
	}()
	return e.String(), ""
}

func atomsOf(toks []tok14) []tok14 {
	out := []tok14{}
	for _, t := range toks {
		if t.typ >= tSYMBOL && t.typ <= tVAR {
			out = append(out, t)
		}
	}
	return out
}

// ---------------------------------------------------------------------------------------------------------------
// direct oracle 1: the token regular expressions of sexpr.bnf, by derivatives, under the Scan loop's matching rule
// ---------------------------------------------------------------------------------------------------------------

type rx struct {
	kind   byte // '0' empty language, 'e' epsilon, 'c' range, '.' any, ';' cat, '|' alt, '*' star
	lo, hi rune
	a, b   *rx
	key    string
	null   bool
}

var (
	rxEmp = &rx{kind: '0', key: "0"}
	rxEps = &rx{kind: 'e', key: "e", null: true}
	rxAny = &rx{kind: '.', key: "."}
)

func rxRange(lo, hi rune) *rx {
	return &rx{kind: 'c', lo: lo, hi: hi, key: fmt.Sprintf("[%d-%d]", lo, hi)}
}
func rxChar(c rune) *rx { return rxRange(c, c) }
func rxCat(xs ...*rx) *rx {
	r := xs[len(xs)-1]
	for i := len(xs) - 2; i >= 0; i-- {
		a := xs[i]
		switch {
		case a.kind == '0' || r.kind == '0':
			r = rxEmp
		case a.kind == 'e':
		case r.kind == 'e':
			r = a
		default:
			r = &rx{kind: ';', a: a, b: r, key: "(" + a.key + ";" + r.key + ")", null: a.null && r.null}
		}
	}
	return r
}
func rxAlt(xs ...*rx) *rx {
	r := xs[len(xs)-1]
	for i := len(xs) - 2; i >= 0; i-- {
		a := xs[i]
		switch {
		case a.kind == '0':
		case r.kind == '0':
			r = a
		case a.key == r.key:
		default:
			r = &rx{kind: '|', a: a, b: r, key: "(" + a.key + "|" + r.key + ")", null: a.null || r.null}
		}
	}
	return r
}
func rxStar(a *rx) *rx { return &rx{kind: '*', a: a, key: "(" + a.key + ")*", null: true} }
func rxOpt(a *rx) *rx  { return rxAlt(a, rxEps) }

// explicit reports whether some character range at the front of r contains c.
func (r *rx) explicit(c rune) bool {
	switch r.kind {
	case 'c':
		return r.lo <= c && c <= r.hi
	case ';':
		return r.a.explicit(c) || r.a.null && r.b.explicit(c)
	case '|':
		return r.a.explicit(c) || r.b.explicit(c)
	case '*':
		return r.a.explicit(c)
	}
	return false
}

// deriv is the Brzozowski derivative; `.` follows gocc: in a lexer state it matches exactly the runes that no
// explicit character (range) of the state matches (ex = c is explicit in the current state).
func (r *rx) deriv(c rune, ex bool) *rx {
	switch r.kind {
	case '0', 'e':
		return rxEmp
	case 'c':
		if r.lo <= c && c <= r.hi {
			return rxEps
		}
		return rxEmp
	case '.':
		if ex {
			return rxEmp
		}
		return rxEps
	case ';':
		d := rxCat(r.a.deriv(c, ex), r.b)
		if r.a.null {
			return rxAlt(d, r.b.deriv(c, ex))
		}
		return d
	case '|':
		return rxAlt(r.a.deriv(c, ex), r.b.deriv(c, ex))
	case '*':
		return rxCat(r.a.deriv(c, ex), r)
	}
	panic("rx.deriv")
}

// the lexical part of sexpr.bnf, transcribed by hand
type tokDef struct {
	typ int
	re  *rx
}

func bnfTokens() []tokDef {
	decimalDigit := rxRange('0', '9')
	upcase, lowcase := rxRange('A', 'Z'), rxRange('a', 'z')
	startchar := rxAlt(upcase, lowcase, decimalDigit, rxChar('#'), rxChar('?'), rxChar('@'), rxChar('!'), rxChar('$'), rxChar('.'))
	char := rxAlt(startchar, rxChar('-'), rxCat(rxChar('\\'), rxChar(' ')))
	symbol := rxCat(startchar, rxStar(char))
	variable := rxCat(rxChar(','), lowcase)
	octalDigit := rxRange('0', '7')
	hexDigit := rxAlt(rxRange('0', '9'), rxRange('A', 'F'), rxRange('a', 'f'))
	hexByte := rxCat(rxChar('\\'), rxChar('x'), hexDigit, hexDigit)
	octalByte := rxCat(rxChar('\\'), octalDigit, octalDigit, octalDigit)
	byteValue := rxAlt(octalByte, hexByte)
	bigU := rxCat(rxChar('\\'), rxChar('U'), hexDigit, hexDigit, hexDigit, hexDigit, hexDigit, hexDigit, hexDigit, hexDigit)
	littleU := rxCat(rxChar('\\'), rxChar('u'), hexDigit, hexDigit, hexDigit, hexDigit)
	escaped := rxCat(rxChar('\\'), rxAlt(rxChar('a'), rxChar('b'), rxChar('f'), rxChar('n'), rxChar('r'), rxChar('t'), rxChar('v'), rxChar('\\'), rxChar('\''), rxChar('"')))
	unicodeValue := rxAlt(rxAny, littleU, bigU, escaped)
	stringLit := rxCat(rxChar('"'), rxStar(rxAlt(unicodeValue, byteValue)), rxChar('"'))
	decimalLit := rxCat(rxRange('1', '9'), rxStar(decimalDigit))
	octalLit := rxCat(rxChar('0'), rxStar(octalDigit))
	hexLit := rxCat(rxChar('0'), rxAlt(rxChar('x'), rxChar('X')), hexDigit, rxStar(hexDigit))
	intLit := rxCat(rxOpt(rxChar('-')), rxAlt(decimalLit, octalLit, hexLit))
	decimals := rxCat(decimalDigit, rxStar(decimalDigit))
	exponent := rxCat(rxAlt(rxChar('e'), rxChar('E')), rxOpt(rxAlt(rxChar('+'), rxChar('-'))), decimals)
	floatLit0 := rxAlt(
		rxCat(decimals, rxChar('.'), decimals, exponent),
		rxCat(decimals, rxChar('.'), rxAlt(decimals, exponent)),
		rxCat(rxChar('.'), rxAlt(decimals, exponent)),
		rxCat(decimals, exponent))
	floatLit := rxCat(rxOpt(rxChar('-')), floatLit0)
	ws := rxAlt(rxChar(' '), rxChar('\t'), rxChar('\n'), rxChar('\r'))
	space := rxCat(ws, rxStar(ws))
	// priority: the string literals of the syntax part, then the named tokens in the order of their definitions
	return []tokDef{{tLP, rxChar('(')}, {tRP, rxChar(')')}, {tDOT, rxChar('.')},
		{tSYMBOL, symbol}, {tVAR, variable}, {tSTRING, stringLit}, {tINT, intLit}, {tFLOAT, floatLit}, {tSPACE, space}}
}

// specLexer is the lazily determinised derivative automaton of the token definitions.
type specLexer struct {
	defs   []tokDef
	states [][]*rx
	typ    []int
	index  map[string]int
	trans  []map[rune]int // -1 = dead
}

func newSpecLexer() *specLexer {
	s := &specLexer{defs: bnfTokens(), index: map[string]int{}}
	v := make([]*rx, len(s.defs))
	for i, d := range s.defs {
		v[i] = d.re
	}
	s.intern(v)
	return s
}

func (s *specLexer) intern(v []*rx) int {
	keys := make([]string, len(v))
	dead := true
	for i, r := range v {
		keys[i] = r.key
		if r.kind != '0' {
			dead = false
		}
	}
	if dead {
		return -1
	}
	k := strings.Join(keys, "\x00")
	if id, ok := s.index[k]; ok {
		return id
	}
	id := len(s.states)
	s.index[k] = id
	s.states = append(s.states, v)
	ty := tINVALID
	for i, r := range v {
		if r.null {
			ty = s.defs[i].typ
			break
		}
	}
	s.typ = append(s.typ, ty)
	s.trans = append(s.trans, map[rune]int{})
	return id
}

func (s *specLexer) step(st int, c rune) int {
	if n, ok := s.trans[st][c]; ok {
		return n
	}
	v := make([]*rx, len(s.defs))
	ex := false
	for _, r := range s.states[st] {
		ex = ex || r.explicit(c)
	}
	for i, r := range s.states[st] {
		v[i] = r.deriv(c, ex)
	}
	n := s.intern(v)
	s.trans[st][c] = n
	return n
}

// scan applies the matching rule of lexer.go's Scan: run the automaton as far as it goes; the type is that of the
// last state; an INVALID token also swallows the rune on which the automaton died.
func (s *specLexer) scan(src string, pos int) (tok14, int) {
	if pos >= len(src) {
		return tok14{tEOF, ""}, pos
	}
	st, ty, p, end := 0, tINVALID, pos, pos
	for {
		if p >= len(src) {
			if ty == tINVALID {
				end = p
			}
			break
		}
		c, size := utf8.DecodeRuneInString(src[p:])
		p += size
		n := s.step(st, c)
		if n < 0 {
			if ty == tINVALID {
				end = p
			}
			break
		}
		st, ty, end = n, s.typ[n], p
	}
	return tok14{ty, src[pos:end]}, end
}

func (s *specLexer) lexAll(src string) []tok14 {
	out := []tok14{}
	pos := 0
	for {
		t, np := s.scan(src, pos)
		out = append(out, t)
		if t.typ == tEOF {
			return out
		}
		pos = np
	}
}

// ---------------------------------------------------------------------------------------------------------------
// direct oracle 2: recursive descent for the syntax part of sexpr.bnf
//   SExpr : Atom | Pair
//   Pair  : "(" ")" | "(" SExpr ")" | "(" SExpr space ContinueList ")" | "(" SExpr space "." space SExpr ")"
//   ContinueList : SExpr | SExpr space ContinueList | SExpr space "." space SExpr
//   Atom  : symbol | int_lit | float_lit | string_lit | variable      (a failing converter rejects)
// ---------------------------------------------------------------------------------------------------------------

type rdParser struct {
	toks []tok14
	pos  int
}

func (p *rdParser) peek() int { return p.toks[p.pos].typ } // the stream ends with EOF
func (p *rdParser) eat(t int) bool {
	if p.peek() == t {
		p.pos++
		return true
	}
	return false
}

func (p *rdParser) sexpr() (*cx, bool) {
	t := p.toks[p.pos]
	switch t.typ {
	case tSYMBOL:
		p.pos++
		return &cx{kind: 'y', s: t.lit}, true
	case tINT:
		p.pos++
		v, err := strconv.ParseInt(t.lit, 10, 64)
		return &cx{kind: 'i', z: v}, err == nil
	case tFLOAT:
		p.pos++
		_, err := strconv.ParseFloat(t.lit, 64)
		return &cx{kind: 'f', s: t.lit}, err == nil
	case tSTRING:
		p.pos++
		v, err := strconv.Unquote(t.lit)
		return &cx{kind: 's', s: v}, err == nil
	case tVAR:
		p.pos++
		return &cx{kind: 'v', s: t.lit[1:]}, t.lit[0] == ','
	case tLP:
		p.pos++
		if p.eat(tRP) {
			return cxNil, true
		}
		a, ok := p.sexpr()
		if !ok {
			return nil, false
		}
		if p.eat(tRP) {
			return &cx{kind: 'c', a: a, d: cxNil}, true
		}
		if !p.eat(tSPACE) {
			return nil, false
		}
		var d *cx
		if p.eat(tDOT) {
			if !p.eat(tSPACE) {
				return nil, false
			}
			d, ok = p.sexpr()
		} else {
			d, ok = p.list()
		}
		if !ok || !p.eat(tRP) {
			return nil, false
		}
		return &cx{kind: 'c', a: a, d: d}, true
	}
	return nil, false
}

func (p *rdParser) list() (*cx, bool) {
	a, ok := p.sexpr()
	if !ok {
		return nil, false
	}
	if p.eat(tSPACE) {
		if p.eat(tDOT) { // ContinueList : SExpr space "." space SExpr
			if !p.eat(tSPACE) {
				return nil, false
			}
			d, ok := p.sexpr()
			if !ok {
				return nil, false
			}
			return &cx{kind: 'c', a: a, d: d}, true
		}
		d, ok := p.list()
		if !ok {
			return nil, false
		}
		return &cx{kind: 'c', a: a, d: d}, true
	}
	return &cx{kind: 'c', a: a, d: cxNil}, true
}

// specParse: the language of sexpr.bnf. toks ends with EOF.
func specParse(toks []tok14) (*cx, bool) {
	p := &rdParser{toks: toks}
	v, ok := p.sexpr()
	if !ok || p.peek() != tEOF {
		return nil, false
	}
	return v, true
}

// ---------------------------------------------------------------------------------------------------------------
// observation of one input + direct oracles
// ---------------------------------------------------------------------------------------------------------------

type obs14 struct {
	input   string
	toks    []tok14 // real lexer
	obs     parseObs
	tree    *cx // canonical tree when accepted
	coqObs  string
	desc    string
	strs    string // Coq oracle lists
	floats  string
	verdict string
}

var c14Spec = newSpecLexer()

// observe14 runs the real lexer and parser on s and all direct oracles; violations go to rep under case index ci.
func observe14(rep *Report, ci int, s string) *obs14 {
	o := &obs14{input: s}
	toks, lp := realLex(s)
	o.toks = toks
	if lp != "" {
		rep.violate(ci, "lexer-panic", fmt.Sprintf("%q", s), lp)
	}
	o.obs = realParse(s)
	spec := c14Spec.lexAll(s)
	if lp == "" && !sameToks(spec, toks) {
		rep.violate(ci, "lexer-differs-from-bnf", fmt.Sprintf("%q", s), fmt.Sprintf("lexer.Scan: %s; token definitions of sexpr.bnf: %s", showToks(toks), showToks(spec)))
	}
	st, sok := specParse(spec)
	switch o.obs.kind {
	case 'P':
		o.coqObs, o.verdict = "OPanic", "panic"
		rep.violate(ci, "parse-panic", fmt.Sprintf("%q", s), o.obs.panicMsg)
	case 'E':
		o.coqObs, o.verdict = "OError", "error"
		if sok {
			rep.violate(ci, "rejects-grammar-sentence", fmt.Sprintf("%q", s), "sexpr.bnf generates this string with tree "+st.String()+" but Parse returns an error")
		}
	case 'A':
		idx := 0
		atoms := atomsOf(toks)
		t, bad := canonParse(o.obs.tree, atoms, &idx)
		if bad == "" && idx != len(atoms) {
			bad = "fewer atoms in the tree than atom tokens in the input"
		}
		if bad != "" {
			rep.violate(ci, "tree-not-from-actions", fmt.Sprintf("%q", s), bad)
			o.coqObs, o.verdict = "OPanic", "accept-bad-tree"
			break
		}
		o.tree = t
		o.coqObs, o.verdict = "(OAccept "+t.coq()+")", "accept"
		if !sok {
			rep.violate(ci, "accepts-non-sentence", fmt.Sprintf("%q", s), "Parse returns "+t.String()+" but sexpr.bnf does not generate this string")
		} else if st.String() != t.String() {
			rep.violate(ci, "wrong-tree", fmt.Sprintf("%q", s), "Parse returns "+t.String()+", the semantic actions of sexpr.bnf specify "+st.String())
		}
	}
	// oracle inputs of the model: Unquote / ParseFloat on every literal the real lexer produced
	seenS, seenF := map[string]bool{}, map[string]bool{}
	ss, fs := []string{}, []string{}
	for _, t := range toks {
		if t.typ == tSTRING && !seenS[t.lit] {
			seenS[t.lit] = true
			v, err := strconv.Unquote(t.lit)
			ss = append(ss, "("+coqBytes(t.lit)+", "+coqOpt(err == nil, coqBytes(v))+")")
		}
		if t.typ == tFLOAT && !seenF[t.lit] {
			seenF[t.lit] = true
			_, err := strconv.ParseFloat(t.lit, 64)
			fs = append(fs, "("+coqBytes(t.lit)+", "+coqBool(err == nil)+")")
		}
	}
	o.strs, o.floats = coqList(ss), coqList(fs)
	o.desc = fmt.Sprintf("Parse %q", s)
	return o
}

func (o *obs14) obsString() string {
	switch o.obs.kind {
	case 'P':
		return "PANIC " + o.obs.panicMsg
	case 'E':
		return "error; tokens " + showToks(o.toks)
	}
	if o.tree == nil {
		return "accepted with a tree that the semantic actions do not specify"
	}
	return "tree " + o.tree.String()
}

func (o *obs14) coqParseCase() string {
	return fmt.Sprintf("C14Parse %s %s %s %s", coqBytes(o.input), o.strs, o.floats, o.coqObs)
}

func coqToks(toks []tok14) string {
	parts := make([]string, len(toks))
	for i, t := range toks {
		parts[i] = fmt.Sprintf("(%d%%nat, %s)", t.typ, coqBytes(t.lit))
	}
	return coqList(parts)
}

func sameToks(a, b []tok14) bool {
	if len(a) != len(b) {
		return false
	}
	for i := range a {
		if a[i] != b[i] {
			return false
		}
	}
	return true
}

func showToks(toks []tok14) string {
	parts := make([]string, len(toks))
	for i, t := range toks {
		name := "?"
		if t.typ >= 0 && t.typ < len(c14TokNames) {
			name = c14TokNames[t.typ]
		}
		parts[i] = fmt.Sprintf("%s%q", name, t.lit)
	}
	return strings.Join(parts, " ")
}

// ---------------------------------------------------------------------------------------------------------------
// generators
// ---------------------------------------------------------------------------------------------------------------

// the token alphabet of the exhaustive small scope
var c14Alphabet = []string{"(", ")", ".", " ", "a", "1", "-", ",", "x", "\"", "\\", "e", "0", "é"}

var (
	c14Symbols   = []string{"a", "b", "c", "foo", "x1", "123", "1.5", "0", "a-b", "a\\ b", "#t", "?x", "@", "!", "$v", ".5", "..", "e", "1e5", "0x1F", "A.B", "a\\ \\ b"}
	c14Ints      = []string{"-5", "-0", "-00", "-017", "-0x1F", "-0X1f", "-9223372036854775808", "-9223372036854775809", "-12345", "-1", "-99999999999999999999"}
	c14Floats    = []string{"-1.5", "-1e400", "-.5", "-1e19", "-0.0", "-1E2", "-1.5e-3", "-5e-324", "-1e21", "-1.e5", "-1.5E+3", "-0.1e-400", "-1e18"}
	c14Strings   = []string{`""`, `"a"`, `"a b"`, `"\n"`, `"\x41"`, `"é"`, `"\u00e9"`, `"\U0001F600"`, `"\400"`, `"a\"b"`, `"\'"`, "\"\xff\"", `"\\"`, `"(a . b)"`, "\"a\nb\"", `"\ud800"`, `"\U00110000"`, `"\377"`, `"\a\b\f\r\t\v"`, "\" \""}
	c14Variables = []string{",x", ",y", ",a", ",z"}
	c14Spaces    = []string{" ", " ", " ", " ", "  ", "\t", "\n", "\r\n", " \t "}
	c14Directed  = []string{"", "(a b . c)", "(a . b)", "(a b c)", "()", "(())", "(() ())", "(a )", "( a)", "(a  b)", "123", "1.5", "-5", "-1.5",
		"-1e400", "-0x1F", "-017", ",x", ",xy", ",X", ",", "\"a\\x\"", "\"abc", "-5.", "a\\ b", "a\\", "\"é\"", "é", "\xff", "-", ".", "(. a)",
		"(a . b c)", "(a . )", "(a .b)", "(a. b)", "-08", "-5e", "'a'", "a b", "(a)(b)", "(a) ", " (a)", "((((((((a))))))))", "(a . (b . (c . ())))",
		"(a . (b . c))", "((a . b) . c)", "((a b . c))", "(a (b c . d) e)", "-1e19", "-0.0", "\"\xed\xa0\x80\"", "\xed\xa0\x80", "\xf4\x90\x80\x80", "\xc0\x80",
		"\xe2\x82", "\xf0\x9f\x98\x80", "a\xf0\x9f\x98\x80", "(\"\xf0\x9f\x98\x80\")", "\x00", "a\x00b", "\"\x00\"", "�", "\"�\"", "(a\n.\nb)", "(a\t.\tb)", "-.", "-.e1", "-1.e", "-1e+", "-1e+5", "-0x", "-0xg"}
)

func genAtomText(r *rand.Rand) string {
	switch r.Intn(8) {
	case 0, 1, 2:
		return pick(r, c14Symbols)
	case 3:
		return pick(r, c14Ints)
	case 4:
		return pick(r, c14Floats)
	case 5, 6:
		return pick(r, c14Strings)
	default:
		return pick(r, c14Variables)
	}
}

// genSentence writes a sentence of sexpr.bnf (up to converter failures) of nesting depth <= depth.
func genSentence(r *rand.Rand, depth int) string {
	if depth <= 0 || r.Intn(4) == 0 {
		return genAtomText(r)
	}
	switch r.Intn(6) {
	case 0:
		return "()"
	case 1:
		return "(" + genSentence(r, depth-1) + ")"
	case 2:
		return "(" + genSentence(r, depth-1) + pick(r, c14Spaces) + "." + pick(r, c14Spaces) + genSentence(r, depth-1) + ")"
	default:
		n := 1 + r.Intn(4)
		var sb strings.Builder
		sb.WriteString("(" + genSentence(r, depth-1))
		for i := 0; i < n; i++ {
			sb.WriteString(pick(r, c14Spaces) + genSentence(r, depth-1))
		}
		sb.WriteString(")")
		return sb.String()
	}
}

// genLong writes sentences that need a deep parser stack or long tokens: flat lists of 30..400 elements, nesting 40..300
// deep, long improper lists, right- and left-nested pairs, long symbols / strings / digit runs (and near-sentences: one
// parenthesis too many or too few).
func genLong(r *rand.Rand) string {
	n := 30 + r.Intn(370)
	if r.Intn(4) == 0 {
		n = 400 + r.Intn(1500) // no limit on the length of a list or on the number of elements on one level
	}
	var sb strings.Builder
	switch r.Intn(7) {
	case 0: // flat list
		sb.WriteString("(")
		for i := 0; i < n; i++ {
			if i > 0 {
				sb.WriteString(" ")
			}
			sb.WriteString(genAtomText(r))
		}
		sb.WriteString(")")
	case 1: // deep nesting
		d := 40 + r.Intn(260)
		sb.WriteString(strings.Repeat("(", d) + genAtomText(r) + strings.Repeat(")", d))
	case 2: // long improper list
		sb.WriteString("(")
		for i := 0; i < n; i++ {
			sb.WriteString(genAtomText(r) + " ")
		}
		sb.WriteString(". " + genAtomText(r) + ")")
	case 3: // right-nested dotted pairs
		d := 40 + r.Intn(160)
		for i := 0; i < d; i++ {
			sb.WriteString("(" + genAtomText(r) + " . ")
		}
		sb.WriteString("()" + strings.Repeat(")", d))
	case 4: // a list of lists
		sb.WriteString("(")
		for i := 0; i < n/3; i++ {
			sb.WriteString("(" + genAtomText(r) + " " + genAtomText(r) + ") ")
		}
		sb.WriteString(")")
	case 5: // long tokens
		switch r.Intn(3) {
		case 0:
			sb.WriteString(strings.Repeat("ab", n))
		case 1:
			sb.WriteString("\"" + strings.Repeat("xy ", n) + "\"")
		default:
			sb.WriteString("-" + strings.Repeat("7", 10+r.Intn(30)))
		}
	default: // nested lists, each level a few elements wide
		d := 30 + r.Intn(120)
		for i := 0; i < d; i++ {
			sb.WriteString("(" + genAtomText(r) + " ")
		}
		sb.WriteString(strings.Repeat(")", d))
	}
	out := sb.String()
	switch r.Intn(8) {
	case 0:
		out += ")"
	case 1:
		out = "(" + out
	}
	return out
}

func genByte(r *rand.Rand) string {
	switch r.Intn(4) {
	case 0:
		return string([]byte{byte(r.Intn(256))})
	case 1:
		return string([]byte{byte(0x80 + r.Intn(0x80))})
	default:
		return pick(r, c14Alphabet)
	}
}

// mutate14 applies one byte-level edit: insert / delete / replace.
// characters that text tools treat specially but the grammar does not know: byte order mark, no-break space, zero-width space,
// line / paragraph separators, NEL, soft hyphen, form feed, vertical tab, carriage return
var c14Marks = []string{"\xef\xbb\xbf", "\xc2\xa0", "\xe2\x80\x8b", "\xe2\x80\xa8", "\xe2\x80\xa9", "\xc2\x85", "\xc2\xad", "\f", "\v", "\r", "\xff\xfe", "\xfe\xff"}

func mutate14(r *rand.Rand, s string) string {
	b := []byte(s)
	if r.Intn(5) == 0 { // one such character in front, at the end, or at a random place
		m := pick(r, c14Marks)
		switch r.Intn(3) {
		case 0:
			return m + s
		case 1:
			return s + m
		default:
			i := r.Intn(len(b) + 1)
			return string(b[:i]) + m + string(b[i:])
		}
	}
	switch k := r.Intn(3); {
	case k == 0 || len(b) == 0:
		i := r.Intn(len(b) + 1)
		return string(b[:i]) + genByte(r) + string(b[i:])
	case k == 1:
		i := r.Intn(len(b))
		return string(b[:i]) + string(b[i+1:])
	default:
		i := r.Intn(len(b))
		return string(b[:i]) + genByte(r) + string(b[i+1:])
	}
}

var c14Utf8Pieces = []string{"\xed\xa0\x80", "\xed\x9f\xbf", "\xf4\x8f\xbf\xbf", "\xf4\x90\x80\x80", "\xc0\x80", "\xc1\xbf", "\xc2\x80", "\xe0\x80\x80", "\xe0\xa0\x80",
	"\xe2\x82", "\xe2\x82\xac", "\xf0\x8f\xbf\xbf", "\xf0\x90\x80\x80", "\xf0\x9f\x98", "\xf5\x80\x80\x80", "\xff", "\xfe", "\x80", "\xbf", "\xef\xbf\xbd", "\x00", "\x7f"}

func genRandomBytes(r *rand.Rand) string {
	n := 1 + r.Intn(10)
	var sb strings.Builder
	for i := 0; i < n; i++ {
		switch r.Intn(5) {
		case 0:
			sb.WriteByte(byte(r.Intn(256)))
		case 1:
			sb.WriteString(pick(r, c14Utf8Pieces))
		case 2:
			sb.WriteString(string(rune(r.Intn(0x11000))))
		default:
			sb.WriteString(pick(r, c14Alphabet))
		}
	}
	return sb.String()
}

func genShort(r *rand.Rand, maxLen int) string {
	n := 1 + r.Intn(maxLen)
	var sb strings.Builder
	for i := 0; i < n; i++ {
		sb.WriteString(pick(r, c14Alphabet))
	}
	return sb.String()
}

// nthString is the k-th string (shortest first) over the alphabet; ok=false beyond maxLen.
func nthString(k int, maxLen int) (string, bool) {
	base := len(c14Alphabet)
	count := 1
	for l := 1; l <= maxLen; l++ {
		count *= base
		if k < count {
			parts := make([]string, l)
			for i := l - 1; i >= 0; i-- {
				parts[i] = c14Alphabet[k%base]
				k /= base
			}
			return strings.Join(parts, ""), true
		}
		k -= count
	}
	return "", false
}

func countStrings(maxLen int) int {
	n, c := 0, 1
	for l := 1; l <= maxLen; l++ {
		c *= len(c14Alphabet)
		n += c
	}
	return n
}

func c14CaseFile() *CaseFile {
	return newCaseFile("From Coq Require Import List NArith ZArith.\nFrom GMK Require Import TableTypes LexDriver LRDriver CorrBase Corr14.", "case14", "check14")
}

const c14Placeholder = "C14Lex [] [(1%nat, [])]"

func c14Nontrivial(rep *Report, o *obs14) {
	// non-trivial: accepted, or rejected by the LR automaton rather than by an INVALID first token
	if o.obs.kind == 'A' || (len(o.toks) > 1 && o.toks[0].typ != tINVALID) {
		rep.nontrivial(o.input)
	}
}

func histLen(n int) string {
	switch {
	case n <= 6:
		return fmt.Sprintf("len=%d", n)
	case n <= 20:
		return "len=7..20"
	case n <= 100:
		return "len=21..100"
	}
	return "len>100"
}

// ---------------------------------------------------------------------------------------------------------------
// C14
// ---------------------------------------------------------------------------------------------------------------

func runC14(cfg *Config) *Report {
	rep := newReport()
	rep.Rule = "inputs: strings over the 14-symbol token alphabet `( ) . space a 1 - , x \" \\ e 0 é` (sampled for the Coq cases; enumerated exhaustively in -mode exhaustive / exhcoq), " +
		"grammar-generated sentences of depth <= 8, single-byte edits of them, long sentences (flat lists of 30..400 elements, nesting up to 300, long improper lists, long tokens), random bytes with invalid UTF-8, a directed corpus; " +
		"non-trivial = accepted, or rejected by the LR automaton rather than by an INVALID first token; distinct by input"
	if bad := c14CheckTokMap(); bad != "" {
		rep.violate(-1, "tokmap", "token.TokMap", bad)
	}
	switch cfg.Mode {
	case "exhaustive":
		return c14Exhaustive(cfg, rep)
	case "exhcoq":
		return c14ExhCoq(cfg, rep)
	}
	cf := c14CaseFile()
	maxLen := 5
	if cfg.Tier == "thorough" {
		maxLen = 6
	}
	var fnInputs, fnWant []string
	var fnCases []int
	for i := 0; i < cfg.N; i++ {
		r := newRand(cfg.Seed*1000003 + int64(i))
		var s, class string
		switch k := r.Intn(20); {
		case i < len(c14Directed) && cfg.Seed/7919 == 0:
			s, class = c14Directed[i], "directed"
		case k < 7:
			s, class = genShort(r, maxLen), "short"
		case k < 12:
			s, class = genSentence(r, 1+r.Intn(8)), "sentence"
		case k < 16:
			s, class = mutate14(r, genSentence(r, 1+r.Intn(5))), "mutation"
		case k < 18:
			s, class = genRandomBytes(r), "random-bytes"
		case k == 18:
			s, class = genLong(r), "long"
		default:
			s, class = pick(r, c14Directed), "directed"
		}
		lexCase := r.Intn(6) == 0
		if cfg.Only >= 0 && cfg.Only != i {
			cf.add(c14Placeholder)
			rep.CaseDesc = append(rep.CaseDesc, "")
			rep.CaseObs = append(rep.CaseObs, "")
			continue
		}
		rep.Evaluations++
		o := observe14(rep, i, s)
		rep.hist("class=" + class)
		rep.hist("verdict=" + o.verdict)
		rep.hist(histLen(len(s)))
		if !utf8.ValidString(s) {
			rep.hist("invalid-utf8")
		}
		c14Nontrivial(rep, o)
		if lexCase {
			cf.add(fmt.Sprintf("C14Lex %s %s", coqBytes(s), coqToks(o.toks)))
			rep.CaseDesc = append(rep.CaseDesc, fmt.Sprintf("Lex %q", s))
			rep.CaseObs = append(rep.CaseObs, showToks(o.toks))
			rep.hist("case=lex")
		} else {
			cf.add(o.coqParseCase())
			rep.CaseDesc = append(rep.CaseDesc, o.desc)
			rep.CaseObs = append(rep.CaseObs, o.obsString())
			rep.hist("case=parse")
		}
		if o.obs.kind == 'A' {
			rep.sample(o.desc + " => " + o.obsString())
		}
		if len(s) <= 400 {
			fnInputs = append(fnInputs, s)
			fnCases = append(fnCases, i)
			fnWant = append(fnWant, parseKey(o.obs))
		}
	}
	c14FunctionOfInput(rep, fnInputs, fnCases, fnWant)
	cf.write(cfg.Out)
	return rep
}

// c14Exhaustive: every string up to length 5 (quick) / 6 (thorough) over the alphabet through the real code and the
// direct oracles (no Coq cases).
func c14Exhaustive(cfg *Config, rep *Report) *Report {
	maxLen := 5
	if cfg.Tier == "thorough" {
		maxLen = 6
	}
	total := countStrings(maxLen)
	acc := 0
	for k := 0; k < total; k++ {
		s, _ := nthString(k, maxLen)
		nv := len(rep.Violations)
		o := observe14(rep, k, s)
		rep.Evaluations++
		if o.obs.kind == 'A' {
			acc++
			if acc <= 3 {
				rep.sample(o.desc + " => " + o.obsString())
			}
		}
		rep.Histogram["verdict="+o.verdict]++
		if len(rep.Violations) > nv && len(rep.Violations) >= 50 {
			break
		}
	}
	rep.Nontrivial = acc
	rep.Notes = append(rep.Notes, fmt.Sprintf("exhaustive=true: all %d strings of length <= %d over the %d-symbol alphabet through sexpr.Parse, lexer.Scan and the direct oracles; %d accepted", total, maxLen, len(c14Alphabet), acc))
	rep.Histogram["exhaustive_maxlen"] = maxLen
	return rep
}

// c14ExhCoq: a slice of the exhaustive enumeration (length <= 3 quick, <= 4 thorough) as Coq cases; the slice index
// is seed / 7919 (the driver gives shard k the seed base + 7919 k), the slice size is -n.
func c14ExhCoq(cfg *Config, rep *Report) *Report {
	maxLen := 3
	if cfg.Tier == "thorough" {
		maxLen = 4
	}
	total := countStrings(maxLen)
	slices := (total + cfg.N - 1) / cfg.N
	slice := int(cfg.Seed/7919) % slices
	cf := c14CaseFile()
	for j := 0; j < cfg.N; j++ {
		k := slice*cfg.N + j
		s, ok := nthString(k, maxLen)
		if !ok {
			break
		}
		if cfg.Only >= 0 && cfg.Only != j {
			cf.add(c14Placeholder)
			rep.CaseDesc = append(rep.CaseDesc, "")
			rep.CaseObs = append(rep.CaseObs, "")
			continue
		}
		rep.Evaluations++
		o := observe14(rep, j, s)
		cf.add(o.coqParseCase())
		rep.CaseDesc = append(rep.CaseDesc, o.desc)
		rep.CaseObs = append(rep.CaseObs, o.obsString())
		rep.hist("verdict=" + o.verdict)
		c14Nontrivial(rep, o)
	}
	rep.Notes = append(rep.Notes, fmt.Sprintf("exhaustive=true (Coq side): slice %d of %d (size %d) of all %d strings of length <= %d over the alphabet", slice, slices, cfg.N, total, maxLen))
	cf.write(cfg.Out)
	return rep
}

// ---------------------------------------------------------------------------------------------------------------
// C15
// ---------------------------------------------------------------------------------------------------------------

var (
	c15Symbols = []string{"a", "b", "c", "foo", "x1", "123", "1.5", "a-b", "a\\ b", "#t", "?x", "@", "!", "$v", "..", "A.B", "0"}
	c15Strings = []string{"", "a", "a b", "\n", "é", " ", "\U0001F600", "a\"b", "\\", "'", "\xff", "\x00", "(a . b)", "\t\r", "日本", "\x7f", "�", "a\xc0\x80b"}
	c15Ints    = []int64{0, 1, 5, 42, -1, -5, -17, math.MaxInt64, math.MinInt64, 1234567890123, -1000000000000000000}
	c15Vars    = []string{"x", "y", "a", "z", "q"}
)

func genAtom15(r *rand.Rand) *ast.SExpr {
	switch r.Intn(7) {
	case 0, 1, 2:
		return ast.NewSymbol(pick(r, c15Symbols))
	case 3, 4:
		return ast.NewString(pick(r, c15Strings))
	case 5:
		return ast.NewInt(pick(r, c15Ints))
	default:
		return ast.NewVariable(pick(r, c15Vars))
	}
}

// empty15: the empty list, written as nil or obtained from the list constructor
func empty15(r *rand.Rand) *ast.SExpr {
	if r.Intn(2) == 0 {
		return ast.NewList()
	}
	return nil
}

// wellFormed15: nil, an atom with exactly one field set, or a pair of well-formed expressions (what the exported constructors
// are meant to build); anything else is reported with its position
func wellFormed15(e *ast.SExpr, path string) string {
	if e == nil {
		return ""
	}
	if (e.Pair == nil) == (e.Atom == nil) {
		return fmt.Sprintf("at %q: an SExpr struct with Pair %v and Atom %v (neither nil, an atom nor a pair)", path, e.Pair != nil, e.Atom != nil)
	}
	if e.Pair != nil {
		if m := wellFormed15(e.Pair.Car, path+"a"); m != "" {
			return m
		}
		return wellFormed15(e.Pair.Cdr, path+"d")
	}
	return ""
}

// genExpr15: proper lists, dotted pairs, improper lists of every length (when improper), nested empty lists.
func genExpr15(r *rand.Rand, depth int, improper bool) *ast.SExpr {
	if depth <= 0 || r.Intn(4) == 0 {
		if r.Intn(6) == 0 {
			return empty15(r)
		}
		return genAtom15(r)
	}
	switch k := r.Intn(8); {
	case k == 0:
		return empty15(r)
	case k == 7: // a list made by the list constructor, its tail possibly consed onto an empty list from the constructor
		n := r.Intn(5)
		elems := make([]*ast.SExpr, n)
		for i := range elems {
			elems[i] = genExpr15(r, depth-1, improper)
		}
		l := ast.NewList(elems...)
		if r.Intn(3) == 0 {
			l = ast.Cons(genExpr15(r, depth-1, improper), l)
		}
		return l
	case k == 1: // dotted pair
		return ast.Cons(genExpr15(r, depth-1, improper), genAtom15(r))
	case k == 2 && improper: // improper list with 2..4 elements before the dot
		n := 2 + r.Intn(3)
		tail := genAtom15(r)
		for i := 0; i < n; i++ {
			tail = ast.Cons(genExpr15(r, depth-1, improper), tail)
		}
		return tail
	default:
		n := 1 + r.Intn(4)
		var tail *ast.SExpr
		for i := 0; i < n; i++ {
			tail = ast.Cons(genExpr15(r, depth-1, improper), tail)
		}
		return tail
	}
}

func rtOK(e *ast.SExpr) bool {
	if e == nil || e.Pair == nil {
		return true
	}
	if !rtOK(e.Pair.Car) {
		return false
	}
	d := e.Pair.Cdr
	if d == nil || d.Pair == nil {
		return true // (a) or (a . atom)
	}
	for d != nil {
		if d.Pair == nil {
			return false // two or more elements before the dot
		}
		if !rtOK(d.Pair.Car) {
			return false
		}
		d = d.Pair.Cdr
	}
	return true
}

func atomsBuilt(e *ast.SExpr, out *[]*ast.SExpr) {
	if e == nil {
		return
	}
	if e.Pair != nil {
		atomsBuilt(e.Pair.Car, out)
		atomsBuilt(e.Pair.Cdr, out)
		return
	}
	*out = append(*out, e)
}

// sameShape: equal pair structure; symbols, strings and variable names equal at the same positions; an integer comes
// back as the same integer or (non-negative: its digits lex as a symbol) as the symbol with the same text.
func sameShape(e *cx, p *cx) bool {
	if e.kind == 'c' || p.kind == 'c' || e.kind == 'n' || p.kind == 'n' {
		if e.kind != p.kind {
			return false
		}
		return e.kind == 'n' || sameShape(e.a, p.a) && sameShape(e.d, p.d)
	}
	if e.kind == 'i' {
		return p.kind == 'i' && p.z == e.z || p.kind == 'y' && p.s == strconv.FormatInt(e.z, 10)
	}
	return e.kind == p.kind && e.s == p.s
}

func runC15(cfg *Config) *Report {
	rep := newReport()
	rep.Rule = "expressions built with the exported constructors from printable atoms (symbols of the grammar, strings with escapes / non-ASCII / invalid bytes, int64, one-letter variables): " +
		"proper lists, dotted pairs, improper lists with 2..4 elements before the dot, nested empty lists; plus accepted inputs of the C14 generators for stability; " +
		"non-trivial = contains a pair; distinct by printed text"
	if bad := c14CheckTokMap(); bad != "" {
		rep.violate(-1, "tokmap", "token.TokMap", bad)
	}
	cf := c14CaseFile()
	if cfg.Only < 0 {
		// directed, oracle only: long lists (nothing in the printer or the parser may bound the number of elements on one level)
		for _, n := range []int{249, 250, 251, 1000, 5000, 20000} {
			for _, improper := range []bool{false, true} {
				var e *ast.SExpr
				if improper {
					e = ast.NewSymbol("tail")
				}
				for k := n - 1; k >= 0; k-- {
					var a *ast.SExpr
					switch k % 4 {
					case 0:
						a = ast.NewSymbol(fmt.Sprintf("s%d", k))
					case 1:
						a = ast.NewInt(int64(-k))
					case 2:
						a = ast.NewString(fmt.Sprintf("t %d", k))
					default:
						a = ast.NewList(ast.NewSymbol("x"))
					}
					e = ast.Cons(a, e)
				}
				text, sp := realString(e)
				p := realParse(text)
				back := ""
				if p.kind == 'A' {
					back, _ = realString(p.tree)
				}
				if sp != "" || p.kind != 'A' || back != text {
					rep.violate(-1, "long-list-roundtrip", fmt.Sprintf("a list of %d elements on one level (improper: %v), printed and parsed", n, improper),
						fmt.Sprintf("String panicked: %q; Parse outcome %c; printing the parse result gives the same text: %v", sp, p.kind, back == text))
				}
			}
		}
		rep.hist("directed: lists of 249..20000 elements")
	}
	for i := 0; i < cfg.N; i++ {
		r := newRand(cfg.Seed*1000003 + int64(i))
		stability := r.Intn(4) == 0
		var e *ast.SExpr
		var src string
		if stability {
			switch r.Intn(4) {
			case 0:
				src = pick(r, c14Directed)
			case 1:
				src = pick(r, c14Floats)
			default:
				src = genSentence(r, 1+r.Intn(6))
			}
		} else {
			e = genExpr15(r, 1+r.Intn(5), r.Intn(3) == 0)
		}
		if cfg.Only >= 0 && cfg.Only != i {
			cf.add(c14Placeholder)
			rep.CaseDesc = append(rep.CaseDesc, "")
			rep.CaseObs = append(rep.CaseObs, "")
			continue
		}
		rep.Evaluations++
		if stability {
			c15Stability(rep, cf, i, src)
			continue
		}
		if bad := wellFormed15(e, ""); bad != "" {
			text, _ := realString(e)
			desc := fmt.Sprintf("an expression built with Cons / NewList / NewSymbol / NewString / NewInt / NewVariable that prints as %q", text)
			detail := "the constructors returned " + bad
			if p := realParse(text); p.kind == 'A' {
				if back, _ := realString(p.tree); back != text {
					detail += fmt.Sprintf("; its text %q parses and prints back as %q", text, back)
				}
			}
			rep.violate(i, "constructor-builds-exotic-value", desc, detail)
			cf.add(c14Placeholder)
			rep.CaseDesc = append(rep.CaseDesc, desc)
			rep.CaseObs = append(rep.CaseObs, "EXOTIC "+bad)
			continue
		}
		text, sp := realString(e)
		ce := canonBuilt(e)
		desc := fmt.Sprintf("String/Parse of %s", ce.String())
		if sp != "" {
			rep.violate(i, "string-panic", desc, sp)
			cf.add(c14Placeholder)
			rep.CaseDesc = append(rep.CaseDesc, desc)
			rep.CaseObs = append(rep.CaseObs, "PANIC "+sp)
			continue
		}
		// the atom oracle: the text of every atom lexes as one token; recorded for the printer model
		ats := []*ast.SExpr{}
		atomsBuilt(e, &ats)
		seen := map[string]bool{}
		entries := []string{}
		for _, a := range ats {
			ca := canonBuilt(a)
			if seen[ca.String()] {
				continue
			}
			seen[ca.String()] = true
			at := a.String()
			toks, _ := realLex(at)
			if len(toks) != 2 || toks[0].lit != at || toks[0].typ < tSYMBOL {
				rep.violate(i, "atom-not-one-token", fmt.Sprintf("atom %s prints as %q", ca.String(), at), "lexes as "+showToks(toks))
				entries = append(entries, fmt.Sprintf("(%s, (0%%nat, %s))", ca.coq(), coqBytes(at)))
				continue
			}
			entries = append(entries, fmt.Sprintf("(%s, (%d%%nat, %s))", ca.coq(), toks[0].typ, coqBytes(at)))
			// the atom alone round-trips
			if po := realParse(at); po.kind != 'A' {
				rep.violate(i, "atom-not-parseable", fmt.Sprintf("atom %s prints as %q", ca.String(), at), "Parse fails")
			} else if back, _ := realString(po.tree); back != at {
				rep.violate(i, "atom-reprint-differs", fmt.Sprintf("atom %s prints as %q", ca.String(), at), fmt.Sprintf("reprints as %q", back))
			}
		}
		o := observe14(rep, i, text)
		ok := rtOK(e)
		rep.hist(fmt.Sprintf("improper-with-2+-before-dot=%v", !ok))
		rep.hist("verdict=" + o.verdict)
		if e != nil && e.Pair != nil {
			rep.nontrivial(text)
		}
		obsS := fmt.Sprintf("String() = %q; Parse: %s", text, o.obsString())
		switch {
		case o.obs.kind == 'A' && o.tree != nil:
			back, bp := realString(o.obs.tree)
			if bp != "" {
				rep.violate(i, "string-panic", desc, bp)
			} else if back != text {
				rep.violate(i, "roundtrip-text-differs", fmt.Sprintf("%q", text), fmt.Sprintf("Parse(x.String()).String() = %q", back))
			}
			if !sameShape(ce, o.tree) {
				rep.violate(i, "roundtrip-structure-differs", fmt.Sprintf("%q", text), "built "+ce.String()+", parsed back "+o.tree.String())
			}
		case o.obs.kind == 'E':
			kind := "roundtrip-not-parseable"
			if !ok {
				kind = "improper-list-not-parseable"
			}
			rep.violate(i, kind, fmt.Sprintf("%q", text), "x.String() of "+ce.String()+" is rejected by sexpr.Parse")
		}
		cf.add(fmt.Sprintf("C15Print %s %s %s %s %s %s", ce.coq(), coqList(entries), coqBytes(text), o.strs, o.floats, o.coqObs))
		rep.CaseDesc = append(rep.CaseDesc, desc)
		rep.CaseObs = append(rep.CaseObs, obsS)
		rep.sample(desc + " => " + obsS)
	}
	cf.write(cfg.Out)
	return rep
}

// c15Stability: for an accepted input, printing the parse result and parsing again is stable.
func c15Stability(rep *Report, cf *CaseFile, i int, src string) {
	o := observe14(rep, i, src)
	rep.hist("stability-input=" + o.verdict)
	desc := fmt.Sprintf("stability of %q", src)
	if o.obs.kind != 'A' || o.tree == nil {
		cf.add(o.coqParseCase())
		rep.CaseDesc = append(rep.CaseDesc, o.desc)
		rep.CaseObs = append(rep.CaseObs, o.obsString())
		return
	}
	p, sp := realString(o.obs.tree)
	if sp != "" {
		rep.violate(i, "string-panic", desc, sp)
		cf.add(c14Placeholder)
		rep.CaseDesc = append(rep.CaseDesc, desc)
		rep.CaseObs = append(rep.CaseObs, "PANIC "+sp)
		return
	}
	o2 := observe14(rep, i, p)
	obsS := fmt.Sprintf("prints %q; reparse: %s", p, o2.obsString())
	if o2.obs.kind != 'A' || o2.tree == nil {
		rep.violate(i, "unstable-reparse-fails", fmt.Sprintf("%q", src), fmt.Sprintf("accepted, prints as %q, which sexpr.Parse rejects", p))
	} else if p2, _ := realString(o2.obs.tree); p2 != p {
		rep.violate(i, "unstable-reprint-differs", fmt.Sprintf("%q", src), fmt.Sprintf("accepted, prints as %q, which parses and prints as %q", p, p2))
	}
	if strings.ContainsAny(src, "( ") {
		rep.nontrivial(src)
	}
	// the correspondence case is the second parse (the first one is covered by C14's cases)
	cf.add(o2.coqParseCase())
	rep.CaseDesc = append(rep.CaseDesc, desc+" (second parse)")
	rep.CaseObs = append(rep.CaseObs, obsS)
}

var _ = sort.Strings
