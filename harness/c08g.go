package main

// C08, gomini part: gomini.Run returns, for each answer, a value of the query's Go type with every bound variable
// reachable from the query replaced recursively by its value, leaving only unbound variables' placeholders, and
// without modifying the terms supplied by the caller.

import (
	"context"
	"fmt"
	"math/rand"
	"reflect"
	"strings"
	"time"

	"github.com/awalterschulze/gominikanren/gomini"
	"github.com/awalterschulze/gominikanren/micro"
)

type grunCase struct {
	sorts []string // sorts[0] is the query (always "t"); the others are ExistO variables
	eqs   [][2]*gv // equations between values
	named bool
	share bool // equal sub-values are one Go object, list prefixes are re-slices of one backing array
	desc  string
}

func genGRun(r *rand.Rand) *grunCase {
	nv := 1 + r.Intn(5)
	sorts := make([]string, nv)
	sorts[0] = "t"
	for k := 1; k < nv; k++ {
		sorts[k] = pick(r, []string{"t", "t", "s"})
	}
	gen := &gvGen{r: r, sorts: sorts}
	c := &grunCase{sorts: sorts, named: r.Intn(2) == 0}
	// query bound to a structure over the variables (or left unbound), and some variables bound to values
	c.share = r.Intn(2) == 0
	switch k := r.Intn(8); {
	case k == 0:
	case k <= 2:
		// a family of prefixes of one list, in several places of the answer (with `share`: slices over one backing array)
		elems := []*gv{}
		for n := 2 + r.Intn(2); n > 0; n-- {
			elems = append(elems, gen.val("t", r.Intn(2), 0))
		}
		pre := func(k int) *gv { return &gv{K: "slice", F: append([]*gv{}, elems[:k]...)} }
		cell := func(l *gv) *gv { return &gv{K: "tstruct", F: []*gv{{K: "tnil"}, {K: "tnil"}, {K: "snil"}, l}} }
		ks := r.Perm(len(elems) + 1)
		whole := pre(len(elems))
		if r.Intn(2) == 0 {
			ks[0], whole = len(elems), pre(ks[0])
		}
		c.eqs = append(c.eqs, [2]*gv{{K: "tvar", I: 0}, {K: "tstruct", F: []*gv{cell(pre(ks[0])), cell(pre(ks[1%len(ks)])), {K: "snil"}, whole}}})
	default:
		c.eqs = append(c.eqs, [2]*gv{{K: "tvar", I: 0}, gen.val("t", 1+r.Intn(3), 0)})
	}
	for k := 1; k < nv; k++ {
		if r.Intn(2) == 0 {
			kk := "tvar"
			if sorts[k] == "s" {
				kk = "svar"
			}
			c.eqs = append(c.eqs, [2]*gv{{K: kk, I: k}, gen.val(sorts[k], r.Intn(3), k)})
		}
	}
	parts := []string{}
	for _, e := range c.eqs {
		parts = append(parts, showTerm(e[0].toTerm())+" == "+showTerm(e[1].toTerm()))
	}
	c.desc = fmt.Sprintf("gomini.Run query ?0, variables %v, named-placeholders=%v, shared-memory-layout=%v, goal: %s", sorts, c.named, c.share, strings.Join(parts, " & "))
	return c
}

func runGRun(c *grunCase, rep *Report, idx int) (string, string) {
	w := &gworld{byPtr: map[uintptr]int{}, named: c.named, share: c.share}
	var st *gomini.State
	if c.named {
		st = gomini.NewState(namedCreator)
	} else {
		st = gomini.NewState()
	}
	reg := func(p any, sort string) {
		w.byPtr[reflect.ValueOf(p).Pointer()] = len(w.ptrs)
		w.ptrs = append(w.ptrs, p)
		w.sorts = append(w.sorts, sort)
	}
	var callerTerms []any
	var body func(k int) gomini.Goal
	body = func(k int) gomini.Goal {
		if k == len(c.sorts) {
			gs := []gomini.Goal{}
			for _, e := range c.eqs {
				a, b := w.toGo(e[0]), w.toGo(e[1])
				callerTerms = append(callerTerms, b)
				switch e[0].sort() {
				case "t":
					gs = append(gs, gomini.EqualO(a.(*GT), b.(*GT)))
				default:
					gs = append(gs, gomini.EqualO(a.(*string), b.(*string)))
				}
			}
			return gomini.ConjO(gs...)
		}
		if c.sorts[k] == "t" {
			return gomini.ExistO(func(x *GT) gomini.Goal { reg(x, "t"); return body(k + 1) })
		}
		return gomini.ExistO(func(x *string) gomini.Goal { reg(x, "s"); return body(k + 1) })
	}
	ctx, cancel := context.WithTimeout(context.Background(), 10*time.Second)
	defer cancel()
	answers := gomini.RunTake(ctx, -1, st, func(q *GT) gomini.Goal { reg(q, "t"); return body(1) })
	// expected, from the reference unifier on the encodings
	ref := refSubst{}
	ok := true
	for _, e := range c.eqs {
		if !refUnify(e[0].toTerm(), e[1].toTerm(), ref) {
			ok = false
		}
	}
	want := 0
	if ok {
		want = 1
	}
	obs := fmt.Sprintf("%d answer(s)", len(answers))
	// the same run for the transcribed algorithm (coq/GCore.v): the equations in order, then rewrite of the query
	eqs := make([]string, len(c.eqs))
	for k, e := range c.eqs {
		eqs[k] = "(" + e[0].coqG() + ", " + e[1].coqG() + ")"
	}
	ans := []string{}
	for _, a := range answers {
		if v, isT := a.(*GT); isT {
			ans = append(ans, w.fromGo(v).coqG())
		} else {
			ans = append(ans, "GNil")
		}
	}
	coqCase := fmt.Sprintf("CGRun (gvar 0%%N) %s %s", coqList(eqs), coqList(ans))
	if len(answers) != want {
		rep.violate(idx, "gomini-run-answer-count", c.desc, fmt.Sprintf("%d answers, expected %d", len(answers), want))
		return obs, coqCase
	}
	for _, a := range answers {
		obs += fmt.Sprintf(" %T", a)
		v, isT := a.(*GT)
		if !isT {
			rep.violate(idx, "gomini-run-wrong-type", c.desc, fmt.Sprintf("the answer has dynamic type %T (%v), not the query's type *GT", a, a))
			continue
		}
		got := canonVecTerm(w.fromGo(v).toTerm())
		exp := canonVecTerm(refResolve(micro.Var(0), ref))
		obs += " " + got
		if got != exp {
			rep.violate(idx, "gomini-run-not-resolved", c.desc, fmt.Sprintf("answer %s, expected the query with all bindings applied: %s", got, exp))
		}
	}
	// the caller's terms are unchanged
	k := 0
	for _, e := range c.eqs {
		if k < len(callerTerms) {
			if after := showTerm(w.fromGo(callerTerms[k]).toTerm()); after != showTerm(e[1].toTerm()) {
				rep.violate(idx, "gomini-run-modified-caller-term", c.desc, fmt.Sprintf("%s became %s", showTerm(e[1].toTerm()), after))
			}
		}
		k++
	}
	return obs, coqCase
}
