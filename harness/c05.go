package main

// C05: gomini variable identity across GC and allocation.
//  probe 1: a placeholder must stay reachable for as long as a state that lists it is alive (finalizer probe);
//  probe 2: values allocated later are never classified as variables of an earlier state (CastVar on fresh constants after GC);
//  probe 3: the answers of a search do not depend on GC timing (forced GC at goal boundaries, GC percent sweep).

import (
	"context"
	"fmt"
	"math/rand"
	"runtime"
	"runtime/debug"
	"sort"
	"strings"
	"sync"
	"sync/atomic"
	"time"

	"github.com/awalterschulze/gominikanren/gomini"
	"github.com/awalterschulze/gominikanren/gomini/concato"
	"github.com/awalterschulze/gominikanren/sexpr/ast"
)

func init() { register("C05", runC05) }

// c05Held: every *GT reachable from an answer that an earlier, finished search of this process returned; the process keeps them all
// (the caller of Run owns its answers).  A later search must never hand one of them out as a new variable.
var (
	c05HeldMu sync.Mutex
	c05Held   = map[*GT]bool{}
)

func c05Hold(a any) {
	var walk func(t *GT, depth int)
	walk = func(t *GT, depth int) {
		if t == nil || depth > 50 || c05Held[t] {
			return
		}
		c05Held[t] = true
		walk(t.A, depth+1)
		walk(t.B, depth+1)
		for _, e := range t.L {
			walk(e, depth+1)
		}
	}
	if t, ok := a.(*GT); ok {
		c05HeldMu.Lock()
		walk(t, 0)
		c05HeldMu.Unlock()
	}
}

func c05IsHeld(v *GT) bool {
	c05HeldMu.Lock()
	defer c05HeldMu.Unlock()
	return c05Held[v]
}

// setFin puts a finalizer on a placeholder.  A placeholder the library hands out a second time (recycled while a finalizer of
// an earlier probe is still pending) must not bring the process down ("finalizer already set" is fatal): the old one is cleared;
// what the recycling does to variable identity is for the probes to observe.
func setFin(p *GT, f func(*GT)) {
	runtime.SetFinalizer(p, nil)
	runtime.SetFinalizer(p, f)
}

//go:noinline
func makeVarsAndDrop(n int, finalized *int64) *gomini.State {
	st := gomini.NewState()
	for i := 0; i < n; i++ {
		var p *GT
		st, p = gomini.NewVar[*GT](st)
		setFin(p, func(*GT) { atomic.AddInt64(finalized, 1) })
	}
	return st // the placeholders are now referenced by nothing but (possibly) the state
}

// makeLineageTree builds a TREE of states: from a parent with k0 variables, `sib` sibling states are derived (each by its own
// NewVar / Set on the same parent, as the branches of a disjunction do), some of them extended further. Every placeholder gets
// a finalizer and is dropped by the caller; all the states stay alive.
//
//go:noinline
func makeLineageTree(k0, sib, depth int, finalized *int64) []*gomini.State {
	parent := gomini.NewState()
	nv := func(st *gomini.State) *gomini.State {
		var p *GT
		st, p = gomini.NewVar[*GT](st)
		setFin(p, func(*GT) { atomic.AddInt64(finalized, 1) })
		return st
	}
	for i := 0; i < k0; i++ {
		parent = nv(parent)
	}
	out := []*gomini.State{parent}
	for j := 0; j < sib; j++ {
		st := nv(parent)
		for d := 0; d < (j*7+depth)%(depth+1); d++ {
			st = nv(st)
		}
		out = append(out, st)
		if j%3 == 2 { // a cousin: a second child of a sibling
			out = append(out, nv(out[len(out)-1]), nv(out[len(out)-1]))
		}
	}
	return out
}

// unrelatedStates: variables of unrelated states (two NewState calls, two searches) are different variables although they carry the
// same name - under the default policy and under the library's own creator for S-expressions, ast.CreateVar, whose placeholders
// are symbols spelled like the variable's name.  An answer of one search that still contains an unbound variable is a plain term
// for the next search.  Returns a description of what went wrong, or "".
func unrelatedStates() string {
	for _, lib := range []bool{false, true} {
		mk := func() *gomini.State {
			if lib {
				return gomini.NewState(ast.CreateVar)
			}
			return gomini.NewState()
		}
		sa, va := gomini.NewVar[*ast.SExpr](mk())
		sa, wa := gomini.NewVar[*ast.SExpr](sa)
		sb, vb := gomini.NewVar[*ast.SExpr](mk())
		if va == vb || wa == vb {
			return fmt.Sprintf("ast.CreateVar=%v: the first variable of a second, unrelated state is the same pointer as a variable of the first state", lib)
		}
		if _, isvar := sb.CastVar(va); isvar {
			return fmt.Sprintf("ast.CreateVar=%v: a variable of one state is classified as a variable by an unrelated state created afterwards", lib)
		}
		if _, isvar := sa.CastVar(vb); isvar {
			return fmt.Sprintf("ast.CreateVar=%v: a variable of a later, unrelated state is classified as a variable by the earlier state", lib)
		}
		// run 1 leaves a variable unbound in its answer; run 2 gets that answer as a term and binds its own first variables
		ctx, cancel := context.WithTimeout(context.Background(), 20*time.Second)
		k, a := ast.NewSymbol("k"), ast.NewSymbol("a")
		ans1 := gomini.RunTake(ctx, -1, mk(), func(q *ast.SExpr) gomini.Goal {
			return gomini.ExistO(func(x *ast.SExpr) gomini.Goal { return gomini.EqualO(q, ast.NewList(k, x)) })
		})
		if len(ans1) != 1 {
			cancel()
			return fmt.Sprintf("ast.CreateVar=%v: q == (k x) has %d answers", lib, len(ans1))
		}
		t1, _ := ans1[0].(*ast.SExpr)
		before := t1.String()
		ans2 := gomini.RunTake(ctx, -1, mk(), func(q *ast.SExpr) gomini.Goal {
			return gomini.ExistO(func(y *ast.SExpr) gomini.Goal { return gomini.ConjO(gomini.EqualO(y, a), gomini.EqualO(q, ast.NewList(t1, y))) })
		})
		cancel()
		if len(ans2) != 1 {
			return fmt.Sprintf("ast.CreateVar=%v: a second search that is handed the answer %s of the first as a term has %d answers, want 1", lib, before, len(ans2))
		}
		t2, _ := ans2[0].(*ast.SExpr)
		if t2 == nil || t2.Pair == nil || t2.Pair.Car.String() != before || t1.String() != before {
			return fmt.Sprintf("ast.CreateVar=%v: the answer %s of a first search, handed to a second search as a term, came back as %s (answer of the second search: %s)", lib, before, t1.String(), t2.String())
		}
	}
	return ""
}

// lineageIdentity: two variables created on the SAME state are two variables, each known only to its own lineage, and a binding
// of one says nothing about the other - under both placeholder policies (with a VarCreator the two placeholders may well have
// equal contents; identity is what counts).  Returns a description of what went wrong, or "".
func lineageIdentity(named bool, k0 int) string {
	parent := gomini.NewState()
	if named {
		parent = gomini.NewState(namedCreator)
	}
	for i := 0; i < k0; i++ {
		parent, _ = gomini.NewVar[*GT](parent)
	}
	stA, pa := gomini.NewVar[*GT](parent)
	stB, pb := gomini.NewVar[*GT](parent)
	stA2, pa2 := gomini.NewVar[*GT](stA)
	if pa == pb || pa == pa2 || pb == pa2 {
		return "two NewVar calls returned the same pointer"
	}
	if _, ok := stA.CastVar(pa); !ok {
		return "a state does not know the variable it has just created"
	}
	if _, ok := stA2.CastVar(pa); !ok {
		return "a descendant does not know its ancestor's variable"
	}
	if _, ok := stA.CastVar(pb); ok {
		return "a variable created on a sibling lineage is a variable for this lineage too"
	}
	if _, ok := stB.CastVar(pa2); ok {
		return "a variable created on a cousin lineage is a variable for this lineage too"
	}
	if _, ok := parent.CastVar(pa); ok {
		return "a variable created on a child state is a variable for the parent"
	}
	// bind pa on lineage A; pb on lineage B is still free to take another value
	c1, c2 := "one", "two"
	as, how1 := runGoal(gomini.EqualO(pa, &GT{S: &c1}), stA, -1, 20*time.Second)
	bs, how2 := runGoal(gomini.ConjO(gomini.EqualO(pb, &GT{S: &c2})), stB, -1, 20*time.Second)
	if how1 == "closed" && how2 == "closed" && (len(as) != 1 || len(bs) != 1) {
		return fmt.Sprintf("binding sibling variables on their own lineages: %d and %d states, expected 1 and 1", len(as), len(bs))
	}
	// on lineage A, pb is a constant: a zero / named placeholder value, not unifiable with &GT{S:"two"} unless equal by content
	return ""
}

// rewriteAfterRecycling: what reification remembers about the terms of one answer must not be keyed by addresses of objects that
// die with that answer.  One Run, its answers streamed and dropped; every branch builds fresh ground terms and a fresh non-ground
// query value; the collector runs at every branch boundary.  Every answer must be fully resolved.
//
//go:noinline
func rewriteAfterRecycling(n int) (wrong, got int, first string) {
	ctx, cancel := context.WithTimeout(context.Background(), 240*time.Second)
	defer cancel()
	defer func() {
		if ctx.Err() != nil && wrong == 0 { // the time limit, not the engine, ended the run: nothing can be said about the count
			got = n
		}
	}()
	ch := gomini.Run(ctx, gomini.NewState(), func(q *GT) gomini.Goal {
		return func(ctx context.Context, s *gomini.State, ss gomini.Stream) {
			for i := 0; i < n; i++ { // a sequential disjunction: a legal goal program
				name, tag := fmt.Sprintf("v%d", i), "ground"
				gomini.ExistO(func(x *GT) gomini.Goal {
					return gomini.ConjO(
						gomini.EqualO(x, &GT{S: &name, L: []*GT{{S: &tag}}}),
						gomini.EqualO(q, &GT{A: x, B: &GT{S: &tag}}))
				})(ctx, s, ss)
				runtime.GC()
			}
		}
	})
	for a := range ch {
		got++
		t, ok := a.(*GT)
		if !ok || t == nil || t.A == nil || t.A.S == nil || !strings.HasPrefix(*t.A.S, "v") || t.B == nil || t.B.S == nil {
			wrong++
			if first == "" {
				first = fmt.Sprintf("answer %d: %s", got, showGTShallow(t))
			}
		}
		a = nil
	}
	return
}

func showGTShallow(t *GT) string {
	if t == nil {
		return "nil"
	}
	str := func(p *string) string {
		if p == nil {
			return "nil"
		}
		return fmt.Sprintf("%q", *p)
	}
	sub := func(u *GT) string {
		if u == nil {
			return "nil"
		}
		return fmt.Sprintf("&GT{S:%s L:%d}", str(u.S), len(u.L))
	}
	return fmt.Sprintf("&GT{A:%s B:%s}", sub(t.A), sub(t.B))
}

// occursAfterRecycling: facts the engine may remember about values (here: what the occurs check has seen) must not be keyed by
// addresses of objects it does not keep alive.  Phase 1 runs the occurs check over many short-lived ground terms, on states of
// one lineage tree; then the terms die and the collector runs; phase 2 allocates fresh terms that contain the variable v and
// asks for v == term, which has no finite unifier - each must yield no state.  Returns how many yielded a state.
//
//go:noinline
func occursAfterRecycling(nGround, nFresh int) (accepted int, ran int) {
	st := gomini.NewState()
	var v *GT
	st, v = gomini.NewVar[*GT](st)
	func() {
		for i := 0; i < nGround; i++ {
			st1, x := gomini.NewVar[*GT](st)
			s := "g"
			term := &GT{A: &GT{S: &s}, B: &GT{}, L: []*GT{{}}}
			runGoal(gomini.EqualO(x, term), st1, -1, time.Second)
		}
	}()
	runtime.GC()
	runtime.GC()
	keep := make([]*GT, 0, nFresh)
	for i := 0; i < nFresh; i++ {
		c := &GT{A: v}
		keep = append(keep, c)
		states, how := runGoal(gomini.EqualO(v, c), st, -1, time.Second)
		if how == "closed" {
			ran++
			if len(states) > 0 {
				accepted++
			}
		}
	}
	runtime.KeepAlive(keep)
	return accepted, ran
}

// statesOfPrograms: the states a search hands to goals, for programs over every combinator (ExistO chains inside ConjO, DisjO, and
// the condition / then / else positions of IfThenElseO, nested), must keep every variable they list alive for as long as they are
// alive themselves.  Every variable (= its placeholder pointer) gets a finalizer when ExistO creates it and is held by the probe
// while the search runs; a capture goal at the leaves keeps the state it is given and notes which variables that state lists
// (CastVar).  After the search the probe lets go of the variables, the collector runs, and (a) no variable listed by a kept state
// may have been finalized, (b) no freshly allocated constant may be classified as a variable by a kept state.
type c05prog struct {
	mu        sync.Mutex
	alive     []*GT          // variables, held only while the search runs
	ids       map[*GT]int    // (emptied with alive)
	finalized map[int]bool   // ids whose placeholder was collected
	kept      []*gomini.State
	listed    [][]int        // per kept state: ids of the variables it lists
	where     []string       // per kept state: position of the capture goal in the program
	nvars     int
	dups      int // ExistO handed out a variable that is already a variable of this search
	reused    int // ExistO handed out a pointer that an answer of an earlier, finished search still contains
}

func (p *c05prog) exist(body func(v *GT) gomini.Goal) gomini.Goal {
	return gomini.ExistO(func(v *GT) gomini.Goal {
		if c05IsHeld(v) {
			p.mu.Lock()
			p.reused++
			p.mu.Unlock()
		}
		p.mu.Lock()
		if _, dup := p.ids[v]; dup { // every variable is held by p.alive, so this is not a recycled address
			p.dups++
			p.mu.Unlock()
			return body(v)
		}
		id := p.nvars
		p.nvars++
		p.alive = append(p.alive, v)
		p.ids[v] = id
		p.mu.Unlock()
		setFin(v, func(*GT) { p.mu.Lock(); p.finalized[id] = true; p.mu.Unlock() })
		return body(v)
	})
}

// chain introduces k variables, one inside the other, binds every second one to the next and continues with g
func (p *c05prog) chain(k int, g gomini.Goal) gomini.Goal {
	if k == 0 {
		return g
	}
	return p.exist(func(v *GT) gomini.Goal {
		return p.exist(func(w *GT) gomini.Goal {
			return gomini.ConjO(gomini.EqualO(v, &GT{A: w}), p.chain(k-1, g))
		})
	})
}

func (p *c05prog) capture(where string) gomini.Goal {
	return func(ctx context.Context, s *gomini.State, ss gomini.Stream) {
		p.mu.Lock()
		if len(p.kept) < 60 {
			var l []int
			for _, v := range p.alive {
				if _, isvar := s.CastVar(v); isvar {
					l = append(l, p.ids[v])
				}
			}
			p.kept = append(p.kept, s)
			p.listed = append(p.listed, l)
			p.where = append(p.where, where)
		}
		p.mu.Unlock()
		ss.Write(ctx, s)
	}
}

func (p *c05prog) gen(r *rand.Rand, depth int, path string) (gomini.Goal, string) {
	if depth <= 0 {
		return p.capture(path), "capture"
	}
	k := 1 + r.Intn(12)
	switch r.Intn(7) {
	case 6: // one goal VALUE used twice on one lineage: every run of an ExistO introduces a variable of its own
		g, d := p.gen(r, depth-1, path+"/twice")
		twice := p.chain(k, g)
		return gomini.ConjO(twice, twice), fmt.Sprintf("(let g = (exist*%d %s) in (conj g g))", 2*k, d)
	case 0:
		g, d := p.gen(r, depth-1, path+"/exist")
		return p.chain(k, g), fmt.Sprintf("(exist*%d %s)", 2*k, d)
	case 1:
		a, da := p.gen(r, depth-1, path+"/conj1")
		b, db := p.gen(r, depth-1, path+"/conj2")
		return gomini.ConjO(p.chain(k, a), b), fmt.Sprintf("(conj (exist*%d %s) %s)", 2*k, da, db)
	case 2:
		a, da := p.gen(r, depth-1, path+"/disj1")
		b, db := p.gen(r, depth-1, path+"/disj2")
		return gomini.DisjO(p.chain(k, a), b, p.chain(1, p.capture(path+"/disj3"))), fmt.Sprintf("(disj (exist*%d %s) %s (exist*2 capture))", 2*k, da, db)
	case 3: // the condition introduces variables and succeeds (once or twice): then runs on the condition's states
		t, dt := p.gen(r, depth-1, path+"/then")
		e, de := p.gen(r, depth-1, path+"/else")
		cond := p.chain(k, gomini.SuccessO)
		if r.Intn(2) == 0 {
			cond = gomini.DisjO(p.chain(k, gomini.SuccessO), p.chain(1+r.Intn(3), p.capture(path+"/cond")))
		}
		return gomini.IfThenElseO(cond, t, e), fmt.Sprintf("(ifte (exist*%d succeed ..) %s %s)", 2*k, dt, de)
	case 4: // the condition introduces variables and fails: else runs on the outer state
		t, dt := p.gen(r, depth-1, path+"/then")
		e, de := p.gen(r, depth-1, path+"/else")
		return gomini.IfThenElseO(p.chain(k, gomini.FailureO), t, e), fmt.Sprintf("(ifte (exist*%d fail) %s %s)", 2*k, dt, de)
	default: // a conjunction after an if-then-else: the states that leave the then branch are used further
		t, dt := p.gen(r, depth-1, path+"/then")
		a, da := p.gen(r, depth-1, path+"/after")
		return gomini.ConjO(gomini.IfThenElseO(p.chain(k, gomini.SuccessO), p.chain(1, t), gomini.FailureO), p.chain(1, a)),
			fmt.Sprintf("(conj (ifte (exist*%d succeed) (exist*2 %s) fail) (exist*2 %s))", 2*k, dt, da)
	}
}

// statesOfPrograms returns descriptions of what went wrong (at most a few), the number of kept states and of variables.
func statesOfPrograms(r *rand.Rand, m int) (bad []string, nkept, nvars int, prog string) {
	p := &c05prog{ids: map[*GT]int{}, finalized: map[int]bool{}}
	g, d := p.gen(r, 2+r.Intn(2), "")
	prog = d
	ctx, cancel := context.WithTimeout(context.Background(), 30*time.Second)
	// the query is bound to a record of two variables in one branch and left unbound in the other: the answers contain unbound variables
	answers := gomini.RunTake(ctx, -1, gomini.NewState(), func(q *GT) gomini.Goal {
		return gomini.ConjO(g, gomini.DisjO(gomini.EqualO(q, q), p.exist(func(a *GT) gomini.Goal {
			return p.exist(func(b *GT) gomini.Goal { return gomini.EqualO(q, &GT{A: a, B: b}) })
		})))
	})
	cancel()
	if p.reused > 0 {
		bad = append(bad, fmt.Sprintf("ExistO handed its body, as a NEW variable, a pointer that an answer of an earlier (finished) search of this process still contains, %d times: the caller's value has become a variable of an unrelated state", p.reused))
	}
	for _, a := range answers { // the caller keeps its answers
		c05Hold(a)
	}
	p.mu.Lock()
	p.alive, p.ids = nil, nil
	kept, listed, where := p.kept, p.listed, p.where
	nkept, nvars = len(kept), p.nvars
	if p.dups > 0 {
		bad = append(bad, fmt.Sprintf("ExistO handed its body a variable that an earlier ExistO of the same search had already introduced (and that is still in use), %d times: a new variable is not new", p.dups))
	}
	p.mu.Unlock()
	for i := 0; i < 3; i++ {
		runtime.GC()
		time.Sleep(2 * time.Millisecond)
	}
	p.mu.Lock()
	for i, l := range listed {
		n := 0
		for _, id := range l {
			if p.finalized[id] {
				n++
			}
		}
		if n > 0 && len(bad) < 3 {
			bad = append(bad, fmt.Sprintf("the state handed to the goal at %s lists %d variables; %d of their placeholders were garbage collected while that state was still alive", where[i], len(l), n))
		}
	}
	p.mu.Unlock()
	mis := 0
	keep := make([]*GT, 0, m)
	for j := 0; j < m; j++ {
		c := &GT{}
		keep = append(keep, c)
		for _, s := range kept {
			if _, isvar := s.CastVar(c); isvar {
				mis++
				break
			}
		}
	}
	runtime.KeepAlive(keep)
	runtime.KeepAlive(kept)
	if mis > 0 {
		bad = append(bad, fmt.Sprintf("%d of %d constants allocated after the search are classified as variables by a state the search produced", mis, m))
	}
	return bad, nkept, nvars, prog
}

func gcWrap(g gomini.Goal) gomini.Goal {
	return func(ctx context.Context, s *gomini.State, ss gomini.Stream) {
		runtime.GC()
		g(ctx, s, ss)
	}
}

func nodeList(xs []string) *concato.Node {
	var n *concato.Node
	for i := len(xs) - 1; i >= 0; i-- {
		n = concato.NewNode(xs[i], n)
	}
	return n
}

func runC05(cfg *Config) *Report {
	rep := newReport()
	rep.Rule = "per case: k variables created with NewVar and dropped by the caller, GC forced; finalizer count while the state is alive; the same for a TREE of states (2..7 siblings derived from one parent with 1..40 variables, children and cousins), all kept alive; the states handed to capture goals by generated programs over ExistO / ConjO / DisjO / IfThenElseO (variables introduced in every position, finalizers on their placeholders, constants allocated afterwards); the occurs check on fresh terms after 6000 occurs-checked ground terms died and were collected (first two cases with the collector on); CastVar of m freshly allocated constants of the same type; ConcatO split searches on lists of 20..120 elements under GCPercent in {1,10,100,off} with and without a forced GC at every goal boundary; non-trivial = GC actually ran between creation and use (NumGC advanced); distinct by (k, m, list length, GC setting)"
	r := newRand(cfg.Seed)
	defer debug.SetGCPercent(debug.SetGCPercent(100))
	for i := 0; i < cfg.N; i++ {
		k := 50 + r.Intn(400)
		m := 20000 + r.Intn(60000)
		ln := 20 + r.Intn(100)
		gcp := pick(r, []int{1, 10, 100, -1})
		force := r.Intn(2) == 0
		if cfg.Only >= 0 && cfg.Only != i {
			rep.CaseDesc = append(rep.CaseDesc, "")
			rep.CaseObs = append(rep.CaseObs, "")
			continue
		}
		rep.Evaluations++
		debug.SetGCPercent(gcp)
		var ms0, ms1 runtime.MemStats
		runtime.ReadMemStats(&ms0)
		desc := fmt.Sprintf("k=%d variables, m=%d fresh constants, ConcatO split of %d elements, GCPercent=%d forcedGC=%v", k, m, ln, gcp, force)
		// probe 1 + 2
		var finalized int64
		st := makeVarsAndDrop(k, &finalized)
		runtime.GC()
		runtime.GC()
		time.Sleep(2 * time.Millisecond)
		fin := atomic.LoadInt64(&finalized)
		mis := 0
		keep := make([]*GT, 0, m)
		for j := 0; j < m; j++ {
			c := &GT{}
			keep = append(keep, c)
			if _, isvar := st.CastVar(c); isvar {
				mis++
			}
		}
		runtime.KeepAlive(keep)
		obs := fmt.Sprintf("finalized-while-listed=%d misclassified-constants=%d", fin, mis)
		if fin > 0 {
			rep.violate(i, "placeholder-collected-while-state-alive", desc, fmt.Sprintf("%d of %d placeholders were garbage collected although a live state still lists them as variables", fin, k))
		}
		if mis > 0 {
			rep.violate(i, "fresh-constant-classified-as-variable", desc, fmt.Sprintf("%d of %d freshly allocated constants are classified as variables by CastVar of the earlier state", mis, m))
		}
		runtime.KeepAlive(st)
		// probe 1b: the same for a tree of lineages (sibling states derived from one parent, kept alive together)
		var finTree int64
		k0, sib, dep := 1+r.Intn(40), 2+r.Intn(6), r.Intn(4)
		tree := makeLineageTree(k0, sib, dep, &finTree)
		runtime.GC()
		runtime.GC()
		time.Sleep(2 * time.Millisecond)
		if f := atomic.LoadInt64(&finTree); f > 0 {
			rep.violate(i, "placeholder-collected-while-state-alive", desc, fmt.Sprintf("lineage tree (parent with %d variables, %d sibling states each creating variables, depth %d): %d placeholders were garbage collected although every state of the tree is still alive", k0, sib, dep, f))
		}
		obs += fmt.Sprintf(" finalized-in-lineage-tree=%d", atomic.LoadInt64(&finTree))
		runtime.KeepAlive(tree)
		// probe 1c: sibling variables are distinct variables of distinct lineages, under both placeholder policies
		for _, named := range []bool{false, true} {
			if bad := lineageIdentity(named, k0%5); bad != "" {
				rep.violate(i, "variable-identity-across-lineages", desc, fmt.Sprintf("VarCreator=%v, parent with %d variables: %s", named, k0%5, bad))
			}
		}
		// probe 1c': unrelated states and searches
		if bad := unrelatedStates(); bad != "" {
			rep.violate(i, "variable-identity-across-unrelated-states", desc, bad)
		}
		// probe 1d: the states a search hands on, for programs over every combinator
		{
			bad, nk, nv, prog := statesOfPrograms(r, 20000)
			obs += fmt.Sprintf(" program-states=%d vars=%d bad=%d", nk, nv, len(bad))
			for _, b := range bad {
				rep.violate(i, "state-of-a-search-does-not-keep-its-variables", desc, fmt.Sprintf("program %s: %s", prog, b))
			}
		}
		// probe 2c (first cases of a run only): reification after address recycling
		if i < 3 && gcp != -1 {
			wrong, gotN, first := rewriteAfterRecycling(400)
			obs += fmt.Sprintf(" rewrite-after-recycling=%d/%d", wrong, gotN)
			if wrong > 0 || gotN != 400 {
				rep.violate(i, "later-value-inherits-facts-about-a-dead-one", desc, fmt.Sprintf("one Run of 400 branches, each building fresh ground terms and a fresh query value with a bound variable, answers streamed and dropped, GC at every branch boundary: %d answers, %d not fully resolved; %s", gotN, wrong, first))
			}
		}
		// probe 2b (first cases of a run only: it is the expensive one): the occurs check after address recycling
		if i < 2 && gcp != -1 {
			acc, ran := occursAfterRecycling(6000, 20000)
			obs += fmt.Sprintf(" occurs-after-recycling=%d/%d", acc, ran)
			if acc > 0 {
				rep.violate(i, "later-value-inherits-facts-about-a-dead-one", desc, fmt.Sprintf("after 6000 ground terms were occurs-checked, died and were collected, %d of %d fresh terms that CONTAIN the variable v were accepted by v == term (a cyclic binding): the engine remembered something about a dead object by its address", acc, ran))
			}
		}
		// probe 3: answers independent of GC timing
		xs := make([]string, ln)
		for j := range xs {
			xs[j] = fmt.Sprintf("e%d", j%7)
		}
		want := ln + 1
		ctx, cancel := context.WithTimeout(context.Background(), 60*time.Second)
		wrap := func(g gomini.Goal) gomini.Goal { return g }
		if force {
			wrap = gcWrap
		}
		answers := gomini.RunTake(ctx, -1, gomini.NewState(), func(q *concato.Node) gomini.Goal {
			return gomini.ExistO(func(y *concato.Node) gomini.Goal {
				return wrap(gomini.ConjO(wrap(concato.ConcatO(q, y, nodeList(xs))), wrap(gomini.EqualO(y, y))))
			})
		})
		cancel()
		got := []string{}
		for _, a := range answers {
			if n, ok := a.(*concato.Node); ok {
				got = append(got, n.String())
			} else {
				got = append(got, fmt.Sprintf("%T", a))
			}
		}
		sort.Strings(got)
		distinct := map[string]bool{}
		for _, g := range got {
			distinct[g] = true
		}
		obs += fmt.Sprintf(" concato-answers=%d distinct=%d", len(got), len(distinct))
		if len(got) != want || len(distinct) != want {
			rep.violate(i, "answers-depend-on-gc", desc, fmt.Sprintf("splitting a %d-element list returned %d answers (%d distinct), expected exactly %d prefixes; first answers: %s", ln, len(got), len(distinct), want, strings.Join(got[:min(3, len(got))], " ")))
		}
		runtime.ReadMemStats(&ms1)
		if ms1.NumGC > ms0.NumGC {
			rep.nontrivial(desc)
		}
		rep.hist(fmt.Sprintf("gcpercent=%d forced=%v", gcp, force))
		rep.CaseDesc = append(rep.CaseDesc, desc)
		rep.CaseObs = append(rep.CaseObs, obs)
		rep.sample(desc + " => " + obs)
	}
	return rep
}
