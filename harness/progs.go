package main

// Goal programs as data: built with the REAL micro/mini combinators on the Go side and emitted as the
// deep-embedded goal AST of coq/Goal.v on the model side.

import (
	"fmt"
	"math/rand"
	"sort"
	"strings"

	"github.com/awalterschulze/gominikanren/micro"
	"github.com/awalterschulze/gominikanren/mini"
	"github.com/awalterschulze/gominikanren/sexpr/ast"
)

// PT is a program term (coq: pterm).
type PT struct {
	K    string // nil | atom | b | pair
	A    *ast.SExpr
	I    int
	L, R *PT
}

func ptNil() *PT                 { return &PT{K: "nil"} }
func ptAtom(a *ast.SExpr) *PT    { return &PT{K: "atom", A: a} }
func ptB(i int) *PT              { return &PT{K: "b", I: i} }
func ptPair(l, r *PT) *PT        { return &PT{K: "pair", L: l, R: r} }
func ptList(xs ...*PT) *PT {
	if len(xs) == 0 {
		return ptNil()
	}
	return ptPair(xs[0], ptList(xs[1:]...))
}

func (t *PT) close(env []*ast.SExpr) *ast.SExpr {
	switch t.K {
	case "nil":
		return nil
	case "atom":
		return t.A
	case "b":
		if t.I < len(env) {
			return env[t.I]
		}
		return nil
	default:
		return ast.Cons(t.L.close(env), t.R.close(env))
	}
}

func (t *PT) coq() string {
	switch t.K {
	case "nil":
		return "PNil"
	case "atom":
		enc := encTerm(t.A) // (TAtom (...))
		return "(PAtom " + strings.TrimSuffix(strings.TrimPrefix(enc, "(TAtom "), ")") + ")"
	case "b":
		return fmt.Sprintf("(PB %d)", t.I)
	default:
		return "(PPair " + t.L.coq() + " " + t.R.coq() + ")"
	}
}

func (t *PT) show() string {
	switch t.K {
	case "nil":
		return "()"
	case "atom":
		return t.A.String()
	case "b":
		return fmt.Sprintf("#%d", t.I)
	default:
		return "(" + t.L.show() + " . " + t.R.show() + ")"
	}
}

// G is a goal program (coq: goal).
type G struct {
	K    string // fail succ eq conj disj fresh zzz call let conjplus disjplus conde ifte once
	T1   *PT
	T2   *PT
	Gs   []*G
	Gss  [][]*G
	Z    bool
	R    int
	Args []*PT
	Lib  string // library relation name (K == "lib"): the REAL Go function is called
	F    string // which function argument is passed to MapO: eq | succ | tab
	// Share > 0: a CLOSED sub-goal (no reference to an enclosing binder) that the gomini builder constructs ONCE and uses as the
	// same Go goal value at every occurrence of this node - a goal is a value and may be entered any number of times
	Share int
}

func gLib(name, f string, args ...*PT) *G { return &G{K: "lib", Lib: name, F: f, Args: args} }

func gFail() *G                     { return &G{K: "fail"} }
func gSucc() *G                     { return &G{K: "succ"} }
func gEq(a, b *PT) *G               { return &G{K: "eq", T1: a, T2: b} }
func gConj(a, b *G) *G              { return &G{K: "conj", Gs: []*G{a, b}} }
func gDisj(a, b *G) *G              { return &G{K: "disj", Gs: []*G{a, b}} }
func gFresh(a *G) *G                { return &G{K: "fresh", Gs: []*G{a}} }
func gZzz(a *G) *G                  { return &G{K: "zzz", Gs: []*G{a}} }
func gCall(r int, args ...*PT) *G   { return &G{K: "call", R: r, Args: args} }
func gConjPlus(z bool, gs ...*G) *G { return &G{K: "conjplus", Z: z, Gs: gs} }
func gDisjPlus(z bool, gs ...*G) *G { return &G{K: "disjplus", Z: z, Gs: gs} }
func gConde(gss ...[]*G) *G         { return &G{K: "conde", Gss: gss} }
func gIfte(c, t, e *G) *G           { return &G{K: "ifte", Gs: []*G{c, t, e}} }
func gOnce(a *G) *G                 { return &G{K: "once", Gs: []*G{a}} }

func coqGoals(gs []*G) string {
	parts := make([]string, len(gs))
	for i, g := range gs {
		parts[i] = g.coq()
	}
	return coqList(parts)
}

func coqPTs(ts []*PT) string {
	parts := make([]string, len(ts))
	for i, t := range ts {
		parts[i] = t.coq()
	}
	return coqList(parts)
}

func (g *G) coq() string {
	switch g.K {
	case "fail":
		return "GFail"
	case "succ":
		return "GSucc"
	case "eq":
		return "(GEq " + g.T1.coq() + " " + g.T2.coq() + ")"
	case "conj":
		return "(GConj " + g.Gs[0].coq() + " " + g.Gs[1].coq() + ")"
	case "disj":
		return "(GDisj " + g.Gs[0].coq() + " " + g.Gs[1].coq() + ")"
	case "fresh":
		return "(GFresh " + g.Gs[0].coq() + ")"
	case "zzz":
		return "(GZzz " + g.Gs[0].coq() + ")"
	case "call":
		return fmt.Sprintf("(GCall %d %s)", g.R, coqPTs(g.Args))
	case "lib":
		li := libRels[g.Lib]
		if li.Recursive {
			return fmt.Sprintf("(GCall %s_idx %s)", strings.ToLower(g.Lib), coqPTs(g.Args))
		}
		return fmt.Sprintf("(GLet %s %s_body)", coqPTs(g.Args), strings.ToLower(g.Lib))
	case "conjplus":
		return "(GConjPlus " + coqBool(g.Z) + " " + coqGoals(g.Gs) + ")"
	case "disjplus":
		return "(GDisjPlus " + coqBool(g.Z) + " " + coqGoals(g.Gs) + ")"
	case "conde":
		parts := make([]string, len(g.Gss))
		for i, gs := range g.Gss {
			parts[i] = coqGoals(gs)
		}
		return "(GConde " + coqList(parts) + ")"
	case "ifte":
		return "(GIfte " + g.Gs[0].coq() + " " + g.Gs[1].coq() + " " + g.Gs[2].coq() + ")"
	case "once":
		return "(GOnce " + g.Gs[0].coq() + ")"
	}
	panic("coq: " + g.K)
}

func showGoals(gs []*G) string {
	parts := make([]string, len(gs))
	for i, g := range gs {
		parts[i] = g.show()
	}
	return strings.Join(parts, " ")
}

func (g *G) show() string {
	switch g.K {
	case "fail", "succ":
		return g.K
	case "eq":
		return "(== " + g.T1.show() + " " + g.T2.show() + ")"
	case "call":
		parts := make([]string, len(g.Args))
		for i, t := range g.Args {
			parts[i] = t.show()
		}
		return fmt.Sprintf("(%s %s)", relName(g.R), strings.Join(parts, " "))
	case "lib":
		parts := make([]string, len(g.Args))
		for i, t := range g.Args {
			parts[i] = t.show()
		}
		f := ""
		if g.F != "" {
			f = "[f=" + g.F + "]"
		}
		return fmt.Sprintf("(%s%s %s)", g.Lib, f, strings.Join(parts, " "))
	case "conjplus", "disjplus":
		z := "-nozzz"
		if g.Z {
			z = ""
		}
		return "(" + g.K + z + " " + showGoals(g.Gs) + ")"
	case "conde":
		parts := make([]string, len(g.Gss))
		for i, gs := range g.Gss {
			parts[i] = "[" + showGoals(gs) + "]"
		}
		return "(conde " + strings.Join(parts, " ") + ")"
	default:
		return "(" + g.K + " " + showGoals(g.Gs) + ")"
	}
}

func (g *G) size() int {
	n := 1
	for _, h := range g.Gs {
		n += h.size()
	}
	for _, gs := range g.Gss {
		for _, h := range gs {
			n += h.size()
		}
	}
	return n
}

// Rel is a harness-defined relation: a name, an arity and a body (evaluated with the parameters as environment,
// last parameter = index 0). Bodies are guard-shaped (Zzz / conde / conj+ / disj+ head), as in the repository's own relations.
type Rel struct {
	Name  string
	Arity int
	Body  *G
}

var sym5 = ast.NewInt(5)
var sym6 = ast.NewInt(6)

// The argument slice of a variadic combinator belongs to the caller, who may reuse it as soon as the combinator has returned
// its goal: the harness always does, overwriting every entry with a goal that binds the first query variable to a sentinel.
var poisonGoal micro.Goal = micro.EqualO(micro.Var(0), ast.NewSymbol("POISON-argument-slice-read-after-return"))

func scribble(gs []micro.Goal) {
	for i := range gs {
		gs[i] = poisonGoal
	}
}

// libGoals: build nevero / alwayso as the library's exported micro.NeverO / micro.AlwaysO (same cell traces as the relations below)
var libGoals bool

// the relation library used by the generated programs
var relLib = []*Rel{
	/*0*/ {"nevero", 0, gZzz(gCall(0))},
	/*1*/ {"alwayso", 0, gZzz(gDisj(gSucc(), gCall(1)))},
	/*2*/ {"fives", 1, gZzz(gDisj(gEq(ptB(0), ptAtom(sym5)), gCall(2, ptB(0))))},
	/*3*/ {"sixes", 1, gZzz(gDisj(gEq(ptB(0), ptAtom(sym6)), gCall(3, ptB(0))))},
	/*4*/ {"listo", 1, gConde([]*G{gEq(ptB(0), ptNil())}, []*G{gFresh(gFresh(gConjPlus(true, gEq(ptB(2), ptPair(ptB(1), ptB(0))), gCall(4, ptB(0)))))})},
	/*5*/ {"appendo", 3, gZzz(gDisj(
		gConj(gEq(ptB(2), ptNil()), gEq(ptB(1), ptB(0))),
		gFresh(gFresh(gFresh( // a=2 d=1 res=0 ; l=5 t=4 out=3
			gConj(gEq(ptPair(ptB(2), ptB(1)), ptB(5)),
				gConj(gEq(ptPair(ptB(2), ptB(0)), ptB(3)),
					gCall(5, ptB(1), ptB(4), ptB(0)))))))))},
	/*6*/ {"leftrec", 1, gZzz(gDisj(gCall(6, ptB(0)), gEq(ptB(0), ptAtom(ast.NewInt(1)))))},
	/*7*/ {"eveno", 1, gConde([]*G{gEq(ptB(0), ptNil())}, []*G{gFresh(gConjPlus(true, gEq(ptB(1), ptPair(ptAtom(ast.NewSymbol("s")), ptB(0))), gCall(8, ptB(0))))})},
	/*8*/ {"oddo", 1, gZzz(gFresh(gConj(gEq(ptB(1), ptPair(ptAtom(ast.NewSymbol("s")), ptB(0))), gCall(7, ptB(0)))))},
	/*9*/ {"veryrec", 0, gConde([]*G{gCall(0)}, []*G{gCall(9)}, []*G{gCall(1)}, []*G{gCall(9)}, []*G{gCall(0)})},
	/*10*/ {"membero", 2, gZzz(gFresh(gFresh( // a=1 d=0 ; x=3 y=2
		gConj(gEq(ptB(2), ptPair(ptB(1), ptB(0))),
			gDisj(gEq(ptB(3), ptB(1)), gCall(10, ptB(3), ptB(0)))))))},
	/*11*/ {"silentfail", 1, gZzz(gConj(gCall(11, ptB(0)), gFail()))},
}

func relName(r int) string {
	if r < len(relLib) {
		return relLib[r].Name
	}
	return fmt.Sprintf("rel%d", r)
}

func coqRelLib() string {
	parts := make([]string, len(relLib))
	for i, r := range relLib {
		parts[i] = r.Body.coq()
	}
	return "Definition hdefs : defs := fun r => nth_error " + coqList(parts) + " r.\n"
}

// build constructs the real goal with the real combinators. env[0] is the most recently bound variable.
func build(g *G, env []*ast.SExpr) micro.Goal {
	switch g.K {
	case "fail":
		return micro.FailureO
	case "succ":
		return micro.SuccessO
	case "eq":
		return micro.EqualO(g.T1.close(env), g.T2.close(env))
	case "conj":
		return micro.Conj(build(g.Gs[0], env), build(g.Gs[1], env))
	case "disj":
		return micro.Disj(build(g.Gs[0], env), build(g.Gs[1], env))
	case "fresh":
		return micro.CallFresh(func(v *ast.SExpr) micro.Goal {
			return build(g.Gs[0], append([]*ast.SExpr{v}, env...))
		})
	case "zzz":
		return micro.Zzz(build(g.Gs[0], env))
	case "call":
		args := make([]*ast.SExpr, len(g.Args))
		for i, a := range g.Args {
			args[i] = a.close(env)
		}
		rel := relLib[g.R]
		if libGoals && rel.Name == "nevero" {
			return micro.NeverO
		}
		if libGoals && rel.Name == "alwayso" {
			return micro.AlwaysO
		}
		// the recursive call is eta-expanded, as in the repository's own relations (fives, veryRecursiveO):
		// the body is only built when the goal is applied to a state
		return func(s *micro.State) *micro.StreamOfStates {
			benv := make([]*ast.SExpr, len(args))
			for i, a := range args {
				benv[len(args)-1-i] = a
			}
			return build(rel.Body, benv)(s)
		}
	case "lib":
		args := make([]*ast.SExpr, len(g.Args))
		for i, a := range g.Args {
			args[i] = a.close(env)
		}
		return libRels[g.Lib].Build(args, g.F)
	case "conjplus":
		gs := buildAll(g.Gs, env)
		defer scribble(gs)
		if g.Z {
			return mini.ConjPlus(gs...)
		}
		return mini.ConjPlusNoZzz(gs...)
	case "disjplus":
		gs := buildAll(g.Gs, env)
		defer scribble(gs)
		if g.Z {
			return mini.DisjPlus(gs...)
		}
		return mini.DisjPlusNoZzz(gs...)
	case "conde":
		gss := make([][]micro.Goal, len(g.Gss))
		for i, gs := range g.Gss {
			gss[i] = buildAll(gs, env)
			defer scribble(gss[i])
		}
		defer func() {
			for i := range gss {
				gss[i] = []micro.Goal{poisonGoal}
			}
		}()
		return mini.Conde(gss...)
	case "ifte":
		return mini.IfThenElseO(build(g.Gs[0], env), build(g.Gs[1], env), build(g.Gs[2], env))
	case "once":
		return mini.OnceO(build(g.Gs[0], env))
	}
	panic("build: " + g.K)
}

func buildAll(gs []*G, env []*ast.SExpr) []micro.Goal {
	out := make([]micro.Goal, len(gs))
	for i, g := range gs {
		out[i] = build(g, env)
	}
	return out
}

// ---------- observation: the cell trace ----------

// sortedSubst is the binding map of a state, sorted by key (first binding of a key wins, as assv).
func sortedSubst(s micro.Substitutions) micro.Substitutions {
	seen := map[uint64]bool{}
	out := micro.Substitutions{}
	for _, p := range s {
		if !seen[p.Key] {
			seen[p.Key] = true
			out = append(out, p)
		}
	}
	sort.SliceStable(out, func(i, j int) bool { return out[i].Key < out[j].Key })
	return out
}

// Trace is the observed cell trace: events S (a suspension was forced), A (a mature cell), Nil, Budget.
type Trace struct {
	Coq    []string
	Show   []string
	States []*micro.State
	Closed bool // reached Nil
}

func observeTrace(ss *micro.StreamOfStates, budget int) *Trace {
	tr := &Trace{}
	for {
		if ss == nil {
			tr.Coq = append(tr.Coq, "ONil")
			tr.Show = append(tr.Show, "Nil")
			tr.Closed = true
			return tr
		}
		if micro.VerifIsSuspension(ss) {
			if budget == 0 {
				tr.Coq = append(tr.Coq, "OBudget")
				tr.Show = append(tr.Show, "Budget")
				return tr
			}
			budget--
			tr.Coq = append(tr.Coq, "OS")
			tr.Show = append(tr.Show, "S")
		}
		car, cdr := ss.CarCdr()
		if car != nil {
			tr.Coq = append(tr.Coq, "(OA "+encSubst(sortedSubst(car.Substitutions))+" "+coqN(car.Counter)+")")
			tr.Show = append(tr.Show, "A"+showSubst(sortedSubst(car.Substitutions))+fmt.Sprintf("/%d", car.Counter))
			tr.States = append(tr.States, car)
		}
		ss = cdr
	}
}

// ---------- generators ----------

type progGen struct {
	r        *rand.Rand
	allowNon bool // allow the non-relational combinators ifte / once
	rels     []int
}

var progAtoms = []*ast.SExpr{ast.NewSymbol("a"), ast.NewSymbol("b"), sym5, sym6, ast.NewInt(1), ast.NewSymbol("s"), ast.NewSymbol("1"), ast.NewString("a"),
	// numbers on which a careless comparison goes wrong: a float equal in print to an int, a NaN (one shared atom), integers one apart beyond 2^53
	ast.NewFloat(1), nanAtom, ast.NewFloat(0.5), ast.NewInt(1 << 53), ast.NewInt(1<<53 + 1),
	// symbols spelled like the names gomini gives its variables (under ast.CreateVar a variable's placeholder is such a symbol)
	ast.NewSymbol("v0"), ast.NewSymbol("v1"), ast.NewSymbol("v2")}

func (pg *progGen) term(depth, nenv int) *PT {
	r := pg.r
	if depth <= 0 || r.Intn(2) == 0 {
		switch {
		case nenv > 0 && r.Intn(3) != 0:
			return ptB(r.Intn(nenv))
		case r.Intn(4) == 0:
			return ptNil()
		default:
			return ptAtom(pick(r, progAtoms))
		}
	}
	return ptPair(pg.term(depth-1, nenv), pg.term(depth-1, nenv))
}

func (pg *progGen) goals(n, size, nenv int) []*G {
	out := make([]*G, n)
	for i := range out {
		out[i] = pg.goal(size, nenv)
	}
	return out
}

// goal generates a random goal of roughly the given size over an environment of nenv variables.
func (pg *progGen) goal(size, nenv int) *G {
	r := pg.r
	if size <= 1 {
		switch r.Intn(10) {
		case 0:
			return gFail()
		case 1:
			return gSucc()
		case 2, 3:
			rel := pick(r, pg.rels)
			args := make([]*PT, relLib[rel].Arity)
			for i := range args {
				args[i] = pg.term(1, nenv)
			}
			return gCall(rel, args...)
		default:
			return gEq(pg.term(2, nenv), pg.term(2, nenv))
		}
	}
	if size >= 4 && r.Intn(8) == 0 {
		return pg.patternThenBranch(nenv)
	}
	if size >= 4 && pg.allowNon && nenv > 0 && r.Intn(8) == 0 {
		return pg.condAfterChoice(nenv)
	}
	k := r.Intn(13)
	if !pg.allowNon && k >= 11 {
		k = r.Intn(11)
	}
	switch k {
	case 0, 1:
		a := 1 + r.Intn(size-1)
		return gConj(pg.goal(a, nenv), pg.goal(size-a, nenv))
	case 2, 3:
		a := 1 + r.Intn(size-1)
		return gDisj(pg.goal(a, nenv), pg.goal(size-a, nenv))
	case 4, 5:
		return gFresh(pg.goal(size-1, nenv+1))
	case 6:
		return gZzz(pg.goal(size-1, nenv))
	case 7:
		n := r.Intn(4)
		return gConjPlus(r.Intn(2) == 0, pg.goals(n, (size-1)/(n+1)+1, nenv)...)
	case 8:
		n := r.Intn(4)
		return gDisjPlus(r.Intn(2) == 0, pg.goals(n, (size-1)/(n+1)+1, nenv)...)
	case 9, 10:
		n := r.Intn(4)
		gss := make([][]*G, n)
		for i := range gss {
			k := r.Intn(3)
			if r.Intn(5) == 0 {
				k = 5 + r.Intn(3) // a long clause, in any position
			}
			gss[i] = pg.goals(k, (size-1)/(2*n+1)+1, nenv)
		}
		return gConde(gss...)
	case 11:
		a := size / 3
		return gIfte(pg.goal(a+1, nenv), pg.goal(a+1, nenv), pg.goal(a+1, nenv))
	default:
		return gOnce(pg.goal(size-1, nenv))
	}
}

// patternThenBranch is the everyday shape "match a pattern against data, then branch": fresh variables, a NON-LINEAR list
// pattern (a variable may occur several times) equated with a ground list, then a disjunction whose branches each bind
// further variables, then a test on one of those variables.  An engine that shares substitution storage between the
// states of sibling branches (spare capacity left by the first equation) answers this shape wrongly.
func (pg *progGen) patternThenBranch(nenv int) *G {
	r := pg.r
	k := 2 + r.Intn(3) // fresh variables: indices 0..k-1 after the binders (outer environment shifted by k)
	m := 2 + r.Intn(3)
	pat, dat := ptNil(), ptNil()
	vals := make([]*ast.SExpr, k)
	for i := range vals {
		vals[i] = pick(r, progAtoms)
	}
	used := k / 2 // only the first `used`+1 variables occur in the pattern; the others are bound in the branches
	for i := 0; i < m; i++ {
		v := r.Intn(used + 1)
		pat = ptPair(ptB(v), pat)
		a := vals[v]
		if r.Intn(6) == 0 {
			a = pick(r, progAtoms) // sometimes inconsistent data: the match fails
		}
		dat = ptPair(ptAtom(a), dat)
	}
	other := func() *PT { return ptB((used + 1 + r.Intn(k-used)) % k) }
	small := func() *G {
		x := other()
		if r.Intn(3) == 0 {
			return gConj(gEq(x, ptAtom(pick(r, progAtoms))), gEq(other(), ptAtom(pick(r, progAtoms))))
		}
		return gEq(x, ptAtom(pick(r, progAtoms)))
	}
	body := gConj(gEq(pat, dat), gConj(gDisj(small(), small()), small()))
	if nenv > 0 && r.Intn(2) == 0 {
		// make the outcome visible through the query: query == list of the fresh variables
		q := ptNil()
		for i := k - 1; i >= 0; i-- {
			q = ptPair(ptB(i), q)
		}
		body = gConj(body, gEq(ptB(k+r.Intn(nenv)), q))
	}
	for i := 0; i < k; i++ {
		body = gFresh(body)
	}
	return body
}

// condAfterChoice: ONE ifte / once goal value applied to the several states a preceding choice produces, with a condition
// that is delayed (a suspension first) and holds for some of those states only:
//   fresh x: (x == a1 or x == a2 or ...) , ifte(zzz(cond on x), then, else) , query == (x ...)
func (pg *progGen) condAfterChoice(nenv int) *G {
	r := pg.r
	x := ptB(0)
	atoms := []*ast.SExpr{pick(r, progAtoms), pick(r, progAtoms), pick(r, progAtoms)}
	choice := gDisj(gEq(x, ptAtom(atoms[0])), gDisj(gEq(x, ptAtom(atoms[1])), gEq(x, ptAtom(atoms[2]))))
	var cond *G
	switch r.Intn(4) {
	case 0:
		cond = gZzz(gEq(x, ptAtom(pick(r, atoms))))
	case 1:
		cond = gZzz(gDisj(gEq(x, ptAtom(pick(r, atoms))), gEq(x, ptAtom(pick(r, progAtoms)))))
	case 2:
		cond = gCall(10, x, ptList(ptAtom(atoms[r.Intn(3)]), ptAtom(pick(r, progAtoms)))) // membero: delayed by its Zzz
	default:
		cond = gEq(x, ptAtom(pick(r, atoms))) // immediate (control)
	}
	q := ptB(1 + r.Intn(nenv))
	mark := func(a *ast.SExpr) *G { return gEq(q, ptPair(x, ptPair(ptAtom(a), ptNil()))) }
	var tested *G
	if r.Intn(4) == 0 {
		tested = gConj(gOnce(cond), mark(ast.NewSymbol("s")))
	} else {
		tested = gIfte(cond, mark(ast.NewSymbol("a")), mark(ast.NewSymbol("b")))
	}
	return gFresh(gConj(choice, tested))
}

// ---------- reference interpreter (direct oracle): depth-bounded exhaustive search ----------

type refState struct {
	s   refSubst
	ctr uint64
}

func (st refState) bind(k uint64, v *ast.SExpr) refState {
	m := make(refSubst, len(st.s)+1)
	for a, b := range st.s {
		m[a] = b
	}
	m[k] = v
	return refState{m, st.ctr}
}

type refSearch struct {
	truncated bool
	nodes     int
	maxNodes  int
	relational bool
}

// solve returns all answers of g (as states) exploring relation calls up to the given depth.
func (rs *refSearch) solve(g *G, env []*ast.SExpr, st refState, depth int) []refState {
	rs.nodes++
	if rs.nodes > rs.maxNodes {
		rs.truncated = true
		return nil
	}
	switch g.K {
	case "fail":
		return nil
	case "succ":
		return []refState{st}
	case "eq":
		m := make(refSubst, len(st.s))
		for a, b := range st.s {
			m[a] = b
		}
		if refUnify(g.T1.close(env), g.T2.close(env), m) {
			return []refState{{m, st.ctr}}
		}
		return nil
	case "conj", "conjplus":
		cur := []refState{st}
		for _, h := range g.Gs {
			next := []refState{}
			for _, c := range cur {
				next = append(next, rs.solve(h, env, c, depth)...)
			}
			cur = next
		}
		return cur
	case "disj", "disjplus":
		out := []refState{}
		for _, h := range g.Gs {
			out = append(out, rs.solve(h, env, st, depth)...)
		}
		return out
	case "conde":
		out := []refState{}
		for _, gs := range g.Gss {
			out = append(out, rs.solve(&G{K: "conjplus", Gs: gs}, env, st, depth)...)
		}
		return out
	case "fresh":
		v := micro.Var(st.ctr)
		return rs.solve(g.Gs[0], append([]*ast.SExpr{v}, env...), refState{st.s, st.ctr + 1}, depth)
	case "zzz":
		return rs.solve(g.Gs[0], env, st, depth)
	case "call":
		if depth == 0 {
			rs.truncated = true
			return nil
		}
		args := make([]*ast.SExpr, len(g.Args))
		for i, a := range g.Args {
			args[len(g.Args)-1-i] = a.close(env)
		}
		return rs.solve(relLib[g.R].Body, args, st, depth-1)
	case "reflet":
		args := make([]*ast.SExpr, len(g.Args))
		for i, a := range g.Args {
			args[len(g.Args)-1-i] = a.close(env)
		}
		return rs.solve(g.Gs[0], args, st, depth)
	case "lib":
		if depth == 0 {
			rs.truncated = true
			return nil
		}
		args := make([]*ast.SExpr, len(g.Args))
		for i, a := range g.Args {
			args[len(g.Args)-1-i] = a.close(env)
		}
		return rs.solve(libRels[g.Lib].Ref(g.F), args, st, depth-1)
	case "ifte":
		rs.relational = false
		c := rs.solve(g.Gs[0], env, st, depth)
		if len(c) > 0 {
			out := []refState{}
			for _, x := range c {
				out = append(out, rs.solve(g.Gs[1], env, x, depth)...)
			}
			return out
		}
		return rs.solve(g.Gs[2], env, st, depth)
	case "once":
		rs.relational = false
		c := rs.solve(g.Gs[0], env, st, depth)
		if len(c) > 0 {
			return c[:1]
		}
		return nil
	}
	panic("solve: " + g.K)
}

// reifyRef prints the query under an answer with unbound variables named by first occurrence.
func reifyRef(q *ast.SExpr, s refSubst) string { return canonVecTerm(refResolve(q, s)) }

func canonVecTerm(t *ast.SExpr) string {
	names := map[uint64]int{}
	var show func(t *ast.SExpr) string
	show = func(t *ast.SExpr) string {
		if t == nil {
			return "()"
		}
		if t.Pair != nil {
			return "(" + show(t.Pair.Car) + " . " + show(t.Pair.Cdr) + ")"
		}
		if isVar(t) {
			k, ok := names[t.Atom.Var.Index]
			if !ok {
				k = len(names)
				names[t.Atom.Var.Index] = k
			}
			return fmt.Sprintf("_%d", k)
		}
		return fmt.Sprintf("%d:%s", atomKind(t.Atom), t.Atom.String())
	}
	return show(t)
}
