package main

// The library relations of the repository (mini, example/peano), called through their REAL Go functions;
// on the Coq side they are the bodies that cmd/genrels translates from the Go source (coq/gen/Rel*.v).
// Ref is an independent reference body (written from the Scheme definitions) for the reference search oracle.

import (
	"fmt"
	"sort"
	"sync"
	"github.com/awalterschulze/gominikanren/example/peano"
	"github.com/awalterschulze/gominikanren/micro"
	"github.com/awalterschulze/gominikanren/mini"
	"github.com/awalterschulze/gominikanren/sexpr/ast"
)

type libRel struct {
	Arity     int
	Recursive bool // table relation (GCall) or inlined helper (GLet)
	Unit      string
	Build     func(args []*ast.SExpr, f string) micro.Goal
	Ref       func(f string) *G
}

var tabPairs = [][2]*ast.SExpr{{ast.NewSymbol("a"), ast.NewSymbol("b")}, {ast.NewSymbol("b"), ast.NewSymbol("a")}, {ast.NewSymbol("a"), ast.NewInt(1)}}

// mapFun is the Go function handed to MapO for each choice of f.
func mapFun(f string) func(a, b *ast.SExpr) micro.Goal {
	switch f {
	case "succ":
		return peano.Succ
	case "tab":
		return func(a, b *ast.SExpr) micro.Goal {
			return micro.Disj(micro.Conj(micro.EqualO(a, tabPairs[0][0]), micro.EqualO(b, tabPairs[0][1])),
				micro.Disj(micro.Conj(micro.EqualO(a, tabPairs[1][0]), micro.EqualO(b, tabPairs[1][1])),
					micro.Conj(micro.EqualO(a, tabPairs[2][0]), micro.EqualO(b, tabPairs[2][1]))))
		}
	}
	return func(a, b *ast.SExpr) micro.Goal { return micro.EqualO(a, b) }
}

// mapFunG is the same function as a goal over the environment [b; a] (a = index 1, b = index 0).
func mapFunG(f string) *G {
	a, b := ptB(1), ptB(0)
	switch f {
	case "succ":
		return gEq(b, ptPair(a, ptNil()))
	case "tab":
		cl := func(i int) *G { return gConj(gEq(a, ptAtom(tabPairs[i][0])), gEq(b, ptAtom(tabPairs[i][1]))) }
		return gDisj(cl(0), gDisj(cl(1), cl(2)))
	}
	return gEq(a, b)
}

// coqFcall is the Coq term for the fcall parameter of mini_defs.
func coqFcall(f string) string {
	return "(fun args => GLet args " + mapFunG(f).coq() + ")"
}

var zeroPT = ptAtom(ast.NewInt(0))

func succG(prev, next *PT) *G { return gEq(next, ptPair(prev, ptNil())) }

var libRels map[string]*libRel

func init() {
	libRels = map[string]*libRel{
		"NullO": {1, false, "mini", func(a []*ast.SExpr, f string) micro.Goal { return mini.NullO(a[0]) },
			func(string) *G { return gEq(ptB(0), ptNil()) }},
		"ConsO": {3, false, "mini", func(a []*ast.SExpr, f string) micro.Goal { return mini.ConsO(a[0], a[1], a[2]) },
			func(string) *G { return gEq(ptPair(ptB(2), ptB(1)), ptB(0)) }},
		"CarO": {2, false, "mini", func(a []*ast.SExpr, f string) micro.Goal { return mini.CarO(a[0], a[1]) },
			func(string) *G { return gFresh(gEq(ptPair(ptB(1), ptB(0)), ptB(2))) }},
		"AppendO": {3, true, "mini", func(a []*ast.SExpr, f string) micro.Goal { return mini.AppendO(a[0], a[1], a[2]) },
			func(string) *G { return relLib[5].Body }},
		"MemberO": {2, true, "mini", func(a []*ast.SExpr, f string) micro.Goal { return mini.MemberO(a[0], a[1]) },
			func(string) *G { return relLib[10].Body }},
		"MapO": {2, true, "mini", func(a []*ast.SExpr, f string) micro.Goal { return mini.MapO(mapFun(f), a[0], a[1]) },
			func(f string) *G {
				// (conde [(== x ()) (== y ())] [(fresh (xa xd ya yd) (== x (xa . xd)) (== y (ya . yd)) (f xa ya) (mapo f xd yd))])
				fg := mapFunG(f)
				inl := &G{K: "reflet", Args: []*PT{ptB(3), ptB(1)}, Gs: []*G{fg}}
				return gConde([]*G{gEq(ptB(1), ptNil()), gEq(ptB(0), ptNil())},
					[]*G{gFresh(gFresh(gFresh(gFresh(gConjPlus(true,
						gEq(ptB(5), ptPair(ptB(3), ptB(2))), gEq(ptB(4), ptPair(ptB(1), ptB(0))), inl,
						gLib("MapO", f, ptB(2), ptB(0)))))))})
			}},
		"Succ": {2, false, "peano", func(a []*ast.SExpr, f string) micro.Goal { return peano.Succ(a[0], a[1]) },
			func(string) *G { return succG(ptB(1), ptB(0)) }},
		"Natplus": {3, true, "peano", func(a []*ast.SExpr, f string) micro.Goal { return peano.Natplus(a[0], a[1], a[2]) },
			func(string) *G {
				return gConde([]*G{gEq(ptB(2), zeroPT), gEq(ptB(1), ptB(0))},
					[]*G{gFresh(gFresh(gConjPlus(true, succG(ptB(1), ptB(4)), succG(ptB(0), ptB(2)), gLib("Natplus", "", ptB(1), ptB(3), ptB(0)))))})
			}},
		"Leq": {2, true, "peano", func(a []*ast.SExpr, f string) micro.Goal { return peano.Leq(a[0], a[1]) },
			func(string) *G {
				return gConde([]*G{gEq(ptB(1), zeroPT)},
					[]*G{gFresh(gFresh(gConjPlus(true, succG(ptB(1), ptB(3)), succG(ptB(0), ptB(2)), gLib("Leq", "", ptB(1), ptB(0)))))})
			}},
		"Half": {2, true, "peano", func(a []*ast.SExpr, f string) micro.Goal { return peano.Half(a[0], a[1]) },
			func(string) *G {
				one := ptPair(zeroPT, ptNil())
				return gConde([]*G{gEq(ptB(1), zeroPT), gEq(ptB(0), zeroPT)}, []*G{gEq(ptB(1), one), gEq(ptB(0), zeroPT)},
					[]*G{gFresh(gFresh(gFresh(gConjPlus(true, succG(ptB(1), ptB(3)), succG(ptB(0), ptB(4)), succG(ptB(2), ptB(0)), gLib("Half", "", ptB(2), ptB(1))))))})
			}},
	}
}

// directedPeano: the arithmetic relations at naturals and answer counts no generated case reaches, and their answers kept while
// other queries run.
func directedPeano(rep *Report) {
	nat := func(t *ast.SExpr) (int, bool) { return natOf(t, 0) }
	for _, z := range []int{40, 300} {
		for _, n := range []int{-1, z + 1, 1000, z} {
			ans := micro.Run(n, func(q *ast.SExpr) micro.Goal {
				return micro.CallFresh(func(x *ast.SExpr) micro.Goal {
					return micro.CallFresh(func(y *ast.SExpr) micro.Goal {
						return micro.Conj(peano.Natplus(x, y, peano.Makenat(z)), micro.EqualO(q, ast.NewList(x, y)))
					})
				})
			})
			want := z + 1
			if n >= 0 && n < want {
				want = n
			}
			seen := map[int]bool{}
			bad := ""
			for _, a := range ans {
				if a == nil || a.Pair == nil || a.Pair.Cdr == nil || a.Pair.Cdr.Pair == nil {
					bad = "an answer that is not a pair of numerals: " + showTerm(a)
					break
				}
				x, okx := nat(a.Pair.Car)
				y, oky := nat(a.Pair.Cdr.Pair.Car)
				if !okx || !oky || isVar(a.Pair.Car) || isVar(a.Pair.Cdr.Pair.Car) || x+y != z {
					bad = fmt.Sprintf("the answer %s is not a pair of naturals with sum %d", showTerm(a), z)
					break
				}
				seen[x] = true
			}
			if bad == "" && (len(ans) != want || len(seen) != want) {
				bad = fmt.Sprintf("%d answers (%d distinct), want %d", len(ans), len(seen), want)
			}
			if bad != "" {
				rep.violate(-1, "peano-large", fmt.Sprintf("Run(%d, x + y = %d)", n, z), bad)
			}
		}
	}
	// answers kept across queries
	kept := micro.RunGoal(-1, micro.CallFresh(func(x *ast.SExpr) micro.Goal {
		return micro.CallFresh(func(y *ast.SExpr) micro.Goal { return peano.Natplus(x, y, peano.Makenat(3)) })
	}))
	snap := fmt.Sprint(micro.MKReify(kept))
	_ = micro.RunGoal(-1, peano.Leq(micro.Var(0), peano.Makenat(2)))
	_ = micro.Run(5, func(q *ast.SExpr) micro.Goal { return peano.Half(q, peano.Makenat(2)) })
	if now := fmt.Sprint(micro.MKReify(kept)); now != snap || len(kept) != 4 {
		rep.violate(-1, "result-changed-by-later-call", "kept := RunGoal(-1, x + y = 3); then RunGoal(-1, q <= 2) and Run(5, half(q, 2)); MKReify(kept) again",
			fmt.Sprintf("the %d kept answers reified as %s before and as %s after the later queries", len(kept), snap, now))
	}
	// Makenat from several goroutines at once, for numbers nobody asked for before; then every numeral is what it should be
	{
		var wg sync.WaitGroup
		start := make(chan struct{})
		for g := 0; g < 8; g++ {
			wg.Add(1)
			go func() {
				defer wg.Done()
				<-start
				for n := 500; n < 900; n++ {
					peano.Makenat(n)
				}
			}()
		}
		close(start)
		wg.Wait()
		for n := 0; n < 900; n += 7 {
			t, depth := peano.Makenat(n), 0
			for t != nil && t.Pair != nil {
				t, depth = t.Pair.Car, depth+1
			}
			if depth != n || t != peano.Zero || peano.Parsenat(peano.Makenat(n)) != n {
				rep.violate(-1, "makenat-after-concurrent-calls", fmt.Sprintf("Makenat(%d) after 8 goroutines called Makenat(500..899) at once", n),
					fmt.Sprintf("the numeral has depth %d and Parsenat gives %d", depth, peano.Parsenat(peano.Makenat(n))))
				break
			}
		}
	}
	rep.hist("directed: peano sums of 40 and 300, answers kept across queries, Makenat from 8 goroutines")
}

// directedMini: the list relations where no generated case goes.
//   - mapo with a relation argument that only ends when its FIRST argument is known (snoc: f(in, out) = appendo(in, (!), out)),
//     in the mode "x known, the other list of known length with unknown elements": the recursive relation ends at once with one
//     answer, and so must the unrolled variants (stepped with a budget, nothing can hang);
//   - searches that start at a variable counter just below a power of two (2^8 .. 2^32) (State is an exported struct), with the query
//     variables 0 and 1: every variable the search introduces is new, whatever its number.
func directedMini(rep *Report) {
	bang := ast.NewSymbol("!")
	snoc := func(in, out *ast.SExpr) micro.Goal { return mini.AppendO(in, ast.NewList(bang), out) }
	x := ast.NewList(ast.NewList(ast.NewInt(1)), ast.NewList(ast.NewInt(2), ast.NewInt(3)))
	want := "((1 !) (2 3 !))"
	for name, mk := range map[string]func(l *ast.SExpr) micro.Goal{
		"MapO(snoc, x, l)":               func(l *ast.SExpr) micro.Goal { return mini.MapO(snoc, x, l) },
		"MapOUnrolled(l)(snoc, x)":       func(l *ast.SExpr) micro.Goal { return mini.MapOUnrolled(l)(snoc, x) },
		"MapODoubleUnrolled(snoc, l)(x)": func(l *ast.SExpr) micro.Goal { return mini.MapODoubleUnrolled(snoc, l)(x) },
	} {
		a, b := micro.Var(1), micro.Var(2)
		l := ast.NewList(a, b)
		g := micro.Conj(mk(l), micro.EqualO(micro.Var(0), l))
		tr := observeTrace(g(&micro.State{Substitutions: nil, Counter: 3}), 4000)
		got := []string{}
		for _, st := range tr.States {
			got = append(got, micro.VerifWalkStar(micro.Var(0), st.Substitutions).String())
		}
		if !tr.Closed || len(got) != 1 || got[0] != want {
			rep.violate(-1, "mapo-mode-x-known", name+" with x = ((1) (2 3)), l = (?1 ?2), snoc(in, out) = appendo(in, (!), out)",
				fmt.Sprintf("search ended within 4000 steps: %v; answers %v; want the one answer %s and the end of the stream", tr.Closed, got, want))
		}
	}
	rep.hist("directed: mapo with a relation argument that needs its first argument")
	abc := ast.NewList(ast.NewSymbol("a"), ast.NewSymbol("b"), ast.NewSymbol("c"))
	// (searches from small counters come first: whatever the process remembers about variables 0.. is in place by then)
	for _, c0 := range []uint64{0, 1, 2} {
		observeTrace(mini.AppendO(micro.Var(0), micro.Var(1), abc)(&micro.State{Substitutions: nil, Counter: c0}), 3000)
	}
	for _, top := range []uint64{1 << 8, 1 << 10, 1 << 12, 1 << 13, 1 << 14, 1 << 15, 1 << 16, 1 << 20, 1 << 24, 1 << 31, 1 << 32} {
		for _, back := range []uint64{1, 2, 5} {
			st := &micro.State{Substitutions: nil, Counter: top - back}
			q := ast.NewList(micro.Var(0), micro.Var(1))
			for name, g := range map[string]micro.Goal{
				"appendo(?0, ?1, (a b c))": mini.AppendO(micro.Var(0), micro.Var(1), abc),
				"membero(?0, (a b c)), ?1 == ?0": micro.Conj(mini.MemberO(micro.Var(0), abc), micro.EqualO(micro.Var(1), micro.Var(0))),
				"mapo(==, ?0, (a b c)), ?1 == ()": micro.Conj(mini.MapO(func(u, v *ast.SExpr) micro.Goal { return micro.EqualO(u, v) }, micro.Var(0), abc), micro.EqualO(micro.Var(1), nil)),
			} {
				tr := observeTrace(g(st), 3000)
				got := []string{}
				for _, s := range tr.States {
					got = append(got, micro.VerifWalkStar(q, s.Substitutions).String())
				}
				sort.Strings(got)
				wantN := map[byte]int{'a': 4, 'm': 3}[name[0]]
				if name[1] == 'a' {
					wantN = 1 // mapo
				}
				if !tr.Closed || len(got) != wantN {
					rep.violate(-1, "fresh-variables-at-large-counters", fmt.Sprintf("%s started on the state {no bindings, counter %d}", name, top-back),
						fmt.Sprintf("search ended: %v; %d answer(s) %v, want %d", tr.Closed, len(got), got, wantN))
				}
			}
		}
	}
	rep.hist("directed: searches started at counters just below 2^8 .. 2^32")
}
