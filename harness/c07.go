package main

// C07: states and streams are persistent values.
//
//  1. histories (correspondence with coq/MemModel.v): a tree of versions built with the real operations
//     micro exts (hook VerifExts), gomini NewState / State.Set / NewVar; after the history the bindings visible through
//     EVERY published value are compared with the model's views (and, on the Go side, after every single step with the
//     view recorded when the value was published);
//  2. micro goal programs on a start state whose substitution slice has spare capacity: the input state and every
//     answer are snapshotted when they appear and compared at the end; the stream is traversed twice; the goal is run twice;
//  3. gomini goal trees (EqualO / DisjO / ConjO, evaluated concurrently): the same snapshots, and the answer multiset of a re-run;
//  4. the concurrent package's DisjPlus / ConjPlus over micro states: the same snapshots.

import (
	"fmt"
	"math/rand"
	"sort"
	"strings"
	"time"

	"github.com/awalterschulze/gominikanren/concurrent"
	"github.com/awalterschulze/gominikanren/gomini"
	"github.com/awalterschulze/gominikanren/micro"
	"github.com/awalterschulze/gominikanren/sexpr/ast"
)

func init() { register("C07", runC07) }

const c07Skip = "C07Skip"

// ---------- 1. histories ----------

type hist7 struct {
	slices    []micro.Substitutions
	sliceView []string // view when published
	states    []*gomini.State
	stateView []string
	vars      []any // placeholders in creation order
	keys      []gomini.Var
}

func viewSlice(s micro.Substitutions) string { return showSubst(s) }

func (h *hist7) viewState(st *gomini.State) (string, []string, []string) {
	subs := []string{}
	coqSubs := []string{}
	ks := append([]gomini.Var{}, h.keys...)
	sort.Slice(ks, func(a, b int) bool { return ks[a] < ks[b] })
	for _, k := range ks {
		if v, ok := st.Get(k); ok {
			t, _ := v.(*ast.SExpr)
			subs = append(subs, fmt.Sprintf("%d:=%s", uint64(k), showTerm(t)))
			coqSubs = append(coqSubs, fmt.Sprintf("(%s, %s)", coqN(uint64(k)), encTerm(t)))
		}
	}
	vars := []string{}
	coqVars := []string{}
	for i, p := range h.vars {
		if _, ok := st.CastVar(p); ok {
			vars = append(vars, fmt.Sprint(i))
			coqVars = append(coqVars, coqN(uint64(i)))
		}
	}
	return "{" + strings.Join(subs, ", ") + " | vars " + strings.Join(vars, ",") + "}", coqSubs, coqVars
}

func c07History(rep *Report, i int, r *rand.Rand) (string, string, string) {
	h := &hist7{}
	ops := []string{}
	show := []string{}
	n := 6 + r.Intn(20)
	atoms := []*ast.SExpr{ast.NewSymbol("a"), ast.NewSymbol("b"), ast.NewInt(1), ast.NewInt(2), nil, ast.Cons(ast.NewSymbol("a"), nil)}
	check := func(step string) {
		for j, s := range h.slices {
			if v := viewSlice(s); v != h.sliceView[j] {
				rep.violate(i, "published-value-changed", strings.Join(show, "; "),
					fmt.Sprintf("after %s: slice #%d showed %s when it was published and shows %s now", step, j, h.sliceView[j], v))
			}
		}
		for j, st := range h.states {
			if v, _, _ := h.viewState(st); v != h.stateView[j] {
				rep.violate(i, "published-value-changed", strings.Join(show, "; "),
					fmt.Sprintf("after %s: state #%d showed %s when it was published and shows %s now", step, j, h.stateView[j], v))
			}
		}
	}
	for k := 0; k < n; k++ {
		var step string
		switch c := r.Intn(10); {
		case c == 0 || len(h.slices) == 0 && c < 5:
			cp := r.Intn(6)
			h.slices = append(h.slices, make(micro.Substitutions, 0, cp))
			ops = append(ops, fmt.Sprintf("OpMake %s", coqNat(cp)))
			step = fmt.Sprintf("make(cap %d)", cp)
		case c < 5:
			src := r.Intn(len(h.slices))
			if r.Intn(2) == 0 { // prefer recent values: deep chains with siblings
				src = len(h.slices) - 1 - r.Intn(min(3, len(h.slices)))
			}
			key := uint64(r.Intn(8))
			val := pick(r, atoms)
			s2, ok := micro.VerifExts(&ast.Variable{Index: key}, val, h.slices[src])
			if !ok {
				rep.violate(i, "exts-failed", strings.Join(show, "; "), "exts of a ground value failed")
				continue
			}
			h.slices = append(h.slices, s2)
			ops = append(ops, fmt.Sprintf("OpExts %s (%s, %s)", coqNat(src), coqN(key), encTerm(val)))
			step = fmt.Sprintf("exts(#%d, ?%d:=%s)", src, key, showTerm(val))
		case c == 5 || len(h.states) == 0:
			h.states = append(h.states, gomini.NewState())
			ops = append(ops, "OpNewState")
			step = "NewState()"
		case c < 8:
			src := len(h.states) - 1 - r.Intn(min(3, len(h.states)))
			key := gomini.Var(1000 + r.Intn(5))
			found := false
			for _, kk := range h.keys {
				found = found || kk == key
			}
			if !found {
				h.keys = append(h.keys, key)
			}
			val := pick(r, atoms)
			h.states = append(h.states, h.states[src].Set(key, val))
			ops = append(ops, fmt.Sprintf("OpSet %s %s %s", coqNat(src), coqN(uint64(key)), encTerm(val)))
			step = fmt.Sprintf("state#%d.Set(%d, %s)", src, uint64(key), showTerm(val))
		default:
			src := len(h.states) - 1 - r.Intn(min(3, len(h.states)))
			st2, v := gomini.NewVar[*ast.SExpr](h.states[src])
			h.vars = append(h.vars, v)
			h.states = append(h.states, st2)
			ops = append(ops, fmt.Sprintf("OpNewVar %s %s TNil", coqNat(src), coqN(uint64(len(h.vars)-1))))
			step = fmt.Sprintf("NewVar(state#%d)", src)
		}
		show = append(show, step)
		for len(h.sliceView) < len(h.slices) {
			h.sliceView = append(h.sliceView, viewSlice(h.slices[len(h.sliceView)]))
		}
		for len(h.stateView) < len(h.states) {
			v, _, _ := h.viewState(h.states[len(h.stateView)])
			h.stateView = append(h.stateView, v)
		}
		check(step)
	}
	// final views for the model
	sl := []string{}
	for _, s := range h.slices {
		cells := []string{}
		for _, p := range s {
			cells = append(cells, fmt.Sprintf("Some (%s, %s)", coqN(p.Key), encTerm(p.Value)))
		}
		sl = append(sl, coqList(cells))
	}
	gs := []string{}
	for _, st := range h.states {
		_, cs, cv := h.viewState(st)
		gs = append(gs, fmt.Sprintf("(%s, %s)", coqList(cs), coqList(cv)))
	}
	final := []string{}
	for j, s := range h.slices {
		final = append(final, fmt.Sprintf("#%d=%s", j, viewSlice(s)))
	}
	for j, st := range h.states {
		v, _, _ := h.viewState(st)
		final = append(final, fmt.Sprintf("state#%d=%s", j, v))
	}
	rep.hist(fmt.Sprintf("history ops=%s", histLen(len(ops))))
	return fmt.Sprintf("C07Hist %s %s %s", coqList(ops), coqList(sl), coqList(gs)), "history " + strings.Join(show, "; "), strings.Join(final, " ")
}

// ---------- 2. micro goal programs ----------

type snap7 struct {
	st   *micro.State
	show string
}

func snapMicro(st *micro.State) string {
	return fmt.Sprintf("%s/%d", showSubst(st.Substitutions), st.Counter)
}

func traverse7(ss *micro.StreamOfStates, budget int) ([]snap7, bool) {
	out := []snap7{}
	for {
		if ss == nil {
			return out, true
		}
		if micro.VerifIsSuspension(ss) {
			if budget == 0 {
				return out, false
			}
			budget--
		}
		car, cdr := ss.CarCdr()
		if car != nil {
			out = append(out, snap7{car, snapMicro(car)})
			if len(out) > 300 { // a stream that has become cyclic must not hang the harness
				return out, false
			}
		}
		ss = cdr
	}
}

func showSnaps(xs []snap7) string {
	parts := make([]string, len(xs))
	for i, x := range xs {
		parts[i] = x.show
	}
	return strings.Join(parts, " ")
}

// startState7: nb bindings of variables outside the program's range, in a slice with spare capacity.
func startState7(r *rand.Rand, nq int) *micro.State {
	nb := 2 + r.Intn(5)
	s := make(micro.Substitutions, 0, nb+1+r.Intn(6))
	for j := 0; j < nb; j++ {
		s = append(s, micro.SubPair{Key: uint64(nq + j), Value: ast.NewInt(int64(100 + j))})
	}
	return &micro.State{Substitutions: s, Counter: uint64(nq + nb)}
}

func checkMicroGoal(rep *Report, i int, desc string, mk func() micro.Goal, st0 *micro.State, budget int) string {
	snap0 := snapMicro(st0)
	goal := mk()
	ss := goal(st0)
	first, closed := traverse7(ss, budget)
	// everything handed out earlier still shows what it showed
	if now := snapMicro(st0); now != snap0 {
		rep.violate(i, "input-state-changed", desc, fmt.Sprintf("the start state showed %s before the goal ran and shows %s after", snap0, now))
	}
	for k, a := range first {
		if now := snapMicro(a.st); now != a.show {
			rep.violate(i, "earlier-answer-changed", desc, fmt.Sprintf("answer %d showed %s when it was returned and shows %s after the search went on", k, a.show, now))
		}
	}
	// reading the answers (reification walks the caller's terms and the states' substitutions) is an observation too: it changes
	// nothing that was handed out, and reading twice gives the same text
	reifyAll := func(xs []snap7) string {
		sts := make([]*micro.State, len(xs))
		for k, a := range xs {
			sts[k] = a.st
		}
		parts := []string{}
		for _, t := range micro.MKReify(sts) {
			parts = append(parts, t.String())
		}
		return strings.Join(parts, " ")
	}
	read1 := reifyAll(first)
	if read2 := reifyAll(first); read2 != read1 {
		rep.violate(i, "second-reading-differs", desc, fmt.Sprintf("MKReify of the answers gave %s the first time and %s the second time", read1, read2))
	}
	if now := snapMicro(st0); now != snap0 {
		rep.violate(i, "input-state-changed", desc, fmt.Sprintf("the start state showed %s before the answers were reified and shows %s after", snap0, now))
	}
	for k, a := range first {
		if now := snapMicro(a.st); now != a.show {
			rep.violate(i, "earlier-answer-changed", desc, fmt.Sprintf("answer %d showed %s when it was returned and shows %s after the answers were reified", k, a.show, now))
		}
	}
	// re-traversing the forced stream
	second, _ := traverse7(ss, budget)
	if showSnaps(second) != showSnaps(first) {
		rep.violate(i, "retraverse-differs", desc, fmt.Sprintf("first traversal %s; second traversal %s", showSnaps(first), showSnaps(second)))
	}
	for k := range second {
		if k < len(first) && second[k].st != first[k].st {
			rep.violate(i, "retraverse-new-states", desc, fmt.Sprintf("cell %d holds a different state object on re-traversal", k))
		}
	}
	// running the same goal again on the same state, and a freshly built goal
	again, _ := traverse7(goal(st0), budget)
	if showSnaps(again) != showSnaps(first) {
		rep.violate(i, "rerun-differs", desc, fmt.Sprintf("first run %s; second run on the same state %s", showSnaps(first), showSnaps(again)))
	} else if r2 := reifyAll(again); r2 != read1 {
		rep.violate(i, "rerun-differs", desc, fmt.Sprintf("the answers of the first run read %s; those of the second run on the same state read %s", read1, r2))
	}
	fresh, _ := traverse7(mk()(st0), budget)
	if showSnaps(fresh) != showSnaps(first) {
		rep.violate(i, "rerun-differs", desc, fmt.Sprintf("first run %s; a rebuilt goal on the same state %s", showSnaps(first), showSnaps(fresh)))
	}
	if now := snapMicro(st0); now != snap0 {
		rep.violate(i, "input-state-changed", desc, fmt.Sprintf("the start state showed %s before and shows %s after the re-runs", snap0, now))
	}
	return fmt.Sprintf("%d answer(s)%s: %s", len(first), map[bool]string{true: "", false: " (budget)"}[closed], showSnaps(first))
}

// checkStreamValues: streams are values too.  A stream handed to micro.Mplus / micro.Bind (directly, or by a goal that
// returns a stream it kept) still denotes the same sequence afterwards, and merging the same two streams twice gives the
// same result.
func checkStreamValues(rep *Report, i int, desc string, g1, g2, g3 func() micro.Goal, st0 *micro.State, budget int) {
	show := func(ss *micro.StreamOfStates) string {
		xs, closed := traverse7(ss, budget)
		return fmt.Sprintf("%s%s", showSnaps(xs), map[bool]string{true: "", false: " ..."}[closed])
	}
	ref1, ref2 := show(g1()(st0)), show(g2()(st0))
	s1, s2 := g1()(st0), g2()(st0)
	m := micro.Mplus(s1, s2)
	tm := show(m)
	if now := show(s1); now != ref1 {
		rep.violate(i, "stream-argument-changed", desc, fmt.Sprintf("the first argument of Mplus denoted %s before the merge and %s after it", ref1, now))
	}
	if now := show(s2); now != ref2 {
		rep.violate(i, "stream-argument-changed", desc, fmt.Sprintf("the second argument of Mplus denoted %s before the merge and %s after it", ref2, now))
	}
	if again := show(micro.Mplus(s1, s2)); again != tm {
		rep.violate(i, "second-merge-differs", desc, fmt.Sprintf("Mplus of the same two streams gave %s the first time and %s the second time", tm, again))
	}
	b := micro.Bind(s1, g3())
	tb := show(b)
	if now := show(s1); now != ref1 {
		rep.violate(i, "stream-argument-changed", desc, fmt.Sprintf("the stream given to Bind denoted %s before and %s after", ref1, now))
	}
	if again := show(micro.Bind(s1, g3())); again != tb {
		rep.violate(i, "second-bind-differs", desc, fmt.Sprintf("Bind of the same stream gave %s the first time and %s the second time", tb, again))
	}
	// a goal that hands out a stream it kept (tabling): used in both branches of a disjunction
	kept := g1()(st0)
	table := func(*micro.State) *micro.StreamOfStates { return kept }
	d1 := show(micro.Disj(table, g2())(st0))
	d2 := show(micro.Disj(table, g2())(st0))
	if d1 != d2 {
		rep.violate(i, "rerun-differs", desc, fmt.Sprintf("a disjunction over a kept stream gave %s, then %s", d1, d2))
	}
	if now := show(kept); now != ref1 {
		rep.violate(i, "stream-argument-changed", desc, fmt.Sprintf("a stream kept by the caller denoted %s before it was used in a disjunction and %s after", ref1, now))
	}
	// a stream one of whose suspensions faults when it is run: a caller that recovers and traverses again sees the same cells
	// and the same fault at the same place - an interrupted step leaves nothing behind
	faulty := micro.Mplus(g1()(st0), micro.Mplus(micro.Suspension(func() *micro.StreamOfStates { panic("goal faults while its cell is forced") }), g2()(st0)))
	walk := func() (out string) {
		defer func() {
			if r := recover(); r != nil {
				out += " FAULT"
			}
		}()
		ss, n := faulty, 0
		for ss != nil && n < budget+40 {
			car, cdr := ss.CarCdr()
			if car != nil {
				out += " " + snapMicro(car)
			} else {
				out += " S"
			}
			ss = cdr
			n++
		}
		return out
	}
	if w1, w2 := walk(), walk(); w1 != w2 {
		rep.violate(i, "retraverse-differs", desc, fmt.Sprintf("a stream with a faulting suspension: first traversal%s; second traversal%s", w1, w2))
	}
}

// siblingProg: k conjuncts binding query variables, then a disjunction of siblings each adding one more binding.
func siblingProg(r *rand.Rand, nq int) *G {
	var g *G
	nsib := 2 + r.Intn(3)
	sibs := make([]*G, nsib)
	for j := range sibs {
		sibs[j] = gEq(ptB(r.Intn(nq)), ptAtom(ast.NewInt(int64(j))))
		if r.Intn(3) == 0 {
			sibs[j] = gFresh(gConj(gEq(ptB(nq), ptAtom(ast.NewInt(int64(j)))), gEq(ptB(r.Intn(nq)), ptB(nq))))
		}
	}
	switch r.Intn(3) {
	case 0:
		g = gDisjPlus(r.Intn(2) == 0, sibs...)
	case 1:
		g = gDisj(sibs[0], gDisj(sibs[1], sibs[len(sibs)-1]))
	default:
		gss := make([][]*G, len(sibs))
		for j := range sibs {
			gss[j] = []*G{sibs[j]}
		}
		g = gConde(gss...)
	}
	for j := 0; j < r.Intn(4); j++ {
		g = gFresh(gConj(gEq(ptB(nq), ptAtom(ast.NewSymbol("p"))), g))
		nq++
	}
	return g
}

// ---------- 3. gomini goal trees ----------

func gominiTree(r *rand.Rand, w *gworld, gen *gvGen, size int) (gomini.Goal, string) {
	if size <= 1 || r.Intn(4) == 0 {
		u := gen.val("t", r.Intn(3), -1)
		v := gen.val("t", r.Intn(3), -1)
		if r.Intn(2) == 0 {
			v = gen.abstract(u)
		}
		return gomini.EqualO(w.toGo(u).(*GT), w.toGo(v).(*GT)), fmt.Sprintf("(== %s %s)", showTerm(u.toTerm()), showTerm(v.toTerm()))
	}
	n := 2 + r.Intn(2)
	gs := make([]gomini.Goal, n)
	ds := make([]string, n)
	for k := range gs {
		gs[k], ds[k] = gominiTree(r, w, gen, size/n)
	}
	if r.Intn(2) == 0 {
		return gomini.DisjO(gs...), "(disj " + strings.Join(ds, " ") + ")"
	}
	return gomini.ConjO(gs...), "(conj " + strings.Join(ds, " ") + ")"
}

func c07Gomini(rep *Report, i int, r *rand.Rand) (string, string) {
	nv := 2 + r.Intn(4)
	sorts := make([]string, nv)
	for k := range sorts {
		sorts[k] = "t"
	}
	w := newWorld(r.Intn(2) == 0, sorts)
	gen := &gvGen{r: r, sorts: sorts}
	st := w.st
	for k := 0; k < nv; k++ {
		if r.Intn(3) == 0 {
			key, _ := st.CastVar(w.ptrs[k])
			st = st.Set(key, w.toGo(gen.val("t", r.Intn(2), k)))
		}
	}
	goal, gdesc := gominiTree(r, w, gen, 2+r.Intn(8))
	before := showSubst(w.bindings(st))
	desc := fmt.Sprintf("gomini %s on %s", gdesc, before)
	type gsnap struct {
		st   *gomini.State
		show string
	}
	run := func() ([]gsnap, string) {
		states, how := runGoal(goal, st, -1, 5*time.Second)
		out := make([]gsnap, len(states))
		for k, s := range states {
			out[k] = gsnap{s, showSubst(w.bindings(s))}
		}
		return out, how
	}
	multiset := func(xs []gsnap) string {
		ss := make([]string, len(xs))
		for k, x := range xs {
			ss[k] = x.show
		}
		sort.Strings(ss)
		return strings.Join(ss, " ")
	}
	first, how := run()
	if how != "closed" {
		rep.violate(i, "gomini-search-"+how, desc, fmt.Sprintf("%d answers, then %s", len(first), how))
	}
	second, _ := run()
	if after := showSubst(w.bindings(st)); after != before {
		rep.violate(i, "input-state-changed", desc, fmt.Sprintf("the start state showed %s before the goal ran and shows %s after", before, after))
	}
	for k, a := range first {
		if now := showSubst(w.bindings(a.st)); now != a.show {
			rep.violate(i, "earlier-answer-changed", desc, fmt.Sprintf("answer %d showed %s when it was read and shows %s later", k, a.show, now))
		}
	}
	if multiset(first) != multiset(second) {
		rep.violate(i, "rerun-differs", desc, fmt.Sprintf("first run {%s}; second run on the same state {%s}", multiset(first), multiset(second)))
	}
	return desc, fmt.Sprintf("%d answer(s): {%s}", len(first), multiset(first))
}

// ---------- driver ----------

func runC07(cfg *Config) *Report {
	rep := newReport()
	rep.Rule = "histories: trees of versions built with the real exts / NewState / Set / NewVar (6..25 operations, sources biased to recent values so that siblings extend one parent, slices made with spare capacity 0..5), all views compared with the memory model after the history and with the view at publication after every step; micro goal programs (generated programs, sibling-extension programs, library relations) on start states whose slice has spare capacity; gomini EqualO/DisjO/ConjO trees run concurrently twice; concurrent.DisjPlus/ConjPlus; non-trivial = at least one value has two or more extensions (siblings) or the program has a disjunction; distinct by description"
	cf := newCaseFile("From Coq Require Import List NArith ZArith.\nFrom GMK Require Import Term MemModel CorrBase Corr07.", "case07", "check07")
	r := newRand(cfg.Seed)
	pg := &progGen{r: r, allowNon: true, rels: []int{0, 1, 2, 3, 4, 5, 6, 7, 8, 9, 10, 11}}
	for i := 0; i < cfg.N; i++ {
		kind := r.Intn(10)
		sub := newRand(r.Int63())
		if cfg.Only >= 0 && cfg.Only != i {
			cf.add(c07Skip)
			rep.CaseDesc = append(rep.CaseDesc, "")
			rep.CaseObs = append(rep.CaseObs, "")
			// keep the generator in step
			if kind >= 4 && kind < 8 {
				_ = pg
			}
			continue
		}
		rep.Evaluations++
		var desc, obs string
		switch {
		case kind < 4:
			var c string
			c, desc, obs = c07History(rep, i, sub)
			begin(i, desc)
			cf.add(c)
			if strings.Count(desc, "exts(") >= 2 || strings.Count(desc, ".Set(") >= 2 {
				rep.nontrivial(desc)
			}
		case kind < 8:
			nq := 1 + sub.Intn(2)
			var g *G
			switch sub.Intn(3) {
			case 0:
				g = siblingProg(sub, nq)
				rep.hist("micro program=siblings")
			case 1:
				pgs := &progGen{r: sub, allowNon: true, rels: pg.rels}
				g = pgs.goal(2+sub.Intn(8), nq)
				rep.hist("micro program=generated")
			default:
				g = pick(sub, fixedProgs())
				nq = 1
				rep.hist("micro program=fixed")
			}
			st0 := startState7(sub, nq)
			env := queryEnv(nq)
			conc := sub.Intn(4) == 0
			desc = fmt.Sprintf("micro %s on %s", g.show(), snapMicro(st0))
			mk := func() micro.Goal { return build(g, env) }
			if conc {
				// the concurrent package's combinators over the same kind of arguments
				n := 2 + sub.Intn(3)
				args := make([]*G, n)
				for k := range args {
					args[k] = siblingProg(sub, nq)
				}
				dj := sub.Intn(2) == 0
				desc = fmt.Sprintf("concurrent %s %s on %s", map[bool]string{true: "DisjPlus", false: "ConjPlus"}[dj], showGoals(args), snapMicro(st0))
				mk = func() micro.Goal {
					gs := buildAll(args, env)
					if dj {
						return concurrent.DisjPlus(gs...)
					}
					return concurrent.ConjPlus(gs...)
				}
				rep.hist("micro program=concurrent")
			}
			begin(i, desc)
			obs = checkMicroGoal(rep, i, desc, mk, st0, 40)
			if !conc {
				pgs := &progGen{r: sub, allowNon: true, rels: pg.rels}
				gA, gB, gC := g, pgs.goal(1+sub.Intn(5), nq), pgs.goal(1+sub.Intn(3), nq)
				if sub.Intn(3) == 0 {
					gA = gEq(ptB(0), ptAtom(pick(sub, progAtoms))) // a one-answer stream
				}
				sdesc := fmt.Sprintf("streams as values: s1 = %s, s2 = %s on %s; Mplus(s1,s2), Bind(s1, %s), a kept s1 in a disjunction", gA.show(), gB.show(), snapMicro(st0), gC.show())
				checkStreamValues(rep, i, sdesc, func() micro.Goal { return build(gA, env) }, func() micro.Goal { return build(gB, env) },
					func() micro.Goal { return build(gC, env) }, st0, 25)
				rep.hist("micro streams as values")
			}
			cf.add(c07Skip)
			if strings.Contains(desc, "disj") || strings.Contains(desc, "conde") || strings.Contains(desc, "Disj") {
				rep.nontrivial(desc)
			}
		default:
			begin(i, "gomini goal tree (seeded)")
			desc, obs = c07Gomini(rep, i, sub)
			cf.add(c07Skip)
			rep.hist("gomini tree")
			if strings.Contains(desc, "disj") {
				rep.nontrivial(desc)
			}
		}
		rep.CaseDesc = append(rep.CaseDesc, desc)
		rep.CaseObs = append(rep.CaseObs, obs)
		rep.sample(desc + " => " + obs)
	}
	cf.write(cfg.Out)
	return rep
}
