package main

// C06: gomini.Run delivers exactly the answers, then closes, under every schedule.
//
// Goal programs (the harness's goal ASTs) are built with the REAL gomini combinators over *ast.SExpr terms
// (EqualO / ConjO / DisjO / ExistO / IfThenElseO, relation calls eta-expanded as Go relation functions are), and run
// through gomini.Run under a sweep of GOMAXPROCS, injected yields / sleeps at goal boundaries, both placeholder
// policies and with / without a routine limit.  Observed: the sequence of rewritten answers read from Run's channel,
// whether the channel was closed after the last answer, panics / deadlocks (watchdog).
//   finite searches: the multiset must equal the sequential model gseq (Coq, Corr06.v) and the harness's reference search,
//                    and every schedule of the sweep must give the same multiset;
//   infinite searches: the first n answers, then cancel: every answer must be an answer of the formula.

import (
	"context"
	"fmt"
	"math/rand"
	"runtime"
	"sort"
	"strings"
	"sync"
	"time"

	"github.com/awalterschulze/gominikanren/gomini"
	"github.com/awalterschulze/gominikanren/micro"
	"github.com/awalterschulze/gominikanren/sexpr/ast"
)

func init() { register("C06", runC06) }

// sched describes how goal boundaries are perturbed.
type sched struct {
	procs  int
	yield  int // 0 none, 1 Gosched, 2 short sleeps
	seed   int64
	named  bool
	lib    bool // with named: the library's own creator ast.CreateVar (a variable's placeholder is the symbol spelled like its name)
	maxRtn int // 0 = no limit
}

func (s sched) String() string {
	return fmt.Sprintf("GOMAXPROCS=%d yield=%d named=%v(ast.CreateVar=%v) maxroutines=%d", s.procs, s.yield, s.named, s.lib, s.maxRtn)
}

type gctx struct {
	mu   sync.Mutex
	r    *rand.Rand
	sc   sched
	vars map[*ast.SExpr]int // placeholder -> creation index
	n    int
	memo map[int]gomini.Goal // shared closed sub-goals, built once (G.Share)
}

func (c *gctx) reg(v *ast.SExpr) {
	c.mu.Lock()
	if _, ok := c.vars[v]; !ok {
		c.vars[v] = c.n
		c.n++
	}
	c.mu.Unlock()
}

func (c *gctx) perturb(g gomini.Goal) gomini.Goal {
	if c.sc.yield == 0 {
		return g
	}
	return func(ctx context.Context, s *gomini.State, ss gomini.Stream) {
		c.mu.Lock()
		k := c.r.Intn(4)
		c.mu.Unlock()
		switch {
		case c.sc.yield == 1 && k < 2:
			runtime.Gosched()
		case c.sc.yield == 2 && k == 0:
			time.Sleep(time.Duration(50+k*100) * time.Microsecond)
		case c.sc.yield == 2 && k == 1:
			runtime.Gosched()
		}
		g(ctx, s, ss)
	}
}

// buildGo constructs the real gomini goal. env[0] is the most recently bound variable.
func (c *gctx) buildGo(g *G, env []*ast.SExpr) gomini.Goal {
	if g.Share > 0 {
		c.mu.Lock()
		m, ok := c.memo[g.Share]
		c.mu.Unlock()
		if ok {
			return m
		}
		cp := *g
		cp.Share = 0
		built := c.buildGo(&cp, nil)
		c.mu.Lock()
		if c.memo == nil {
			c.memo = map[int]gomini.Goal{}
		}
		if m, ok := c.memo[g.Share]; ok {
			built = m
		} else {
			c.memo[g.Share] = built
		}
		c.mu.Unlock()
		return built
	}
	switch g.K {
	case "fail":
		return gomini.FailureO
	case "succ":
		return gomini.SuccessO
	case "eq":
		return c.perturb(gomini.EqualO(g.T1.close(env), g.T2.close(env)))
	case "conj", "conjplus":
		return c.perturb(gomini.ConjO(c.buildAllGo(g.Gs, env)...))
	case "disj", "disjplus":
		return c.perturb(gomini.DisjO(c.buildAllGo(g.Gs, env)...))
	case "conde":
		alts := make([]gomini.Goal, len(g.Gss))
		for i, gs := range g.Gss {
			alts[i] = gomini.ConjO(c.buildAllGo(gs, env)...)
		}
		return c.perturb(gomini.DisjO(alts...))
	case "fresh":
		return gomini.ExistO(func(v *ast.SExpr) gomini.Goal {
			c.reg(v)
			return c.buildGo(g.Gs[0], append([]*ast.SExpr{v}, env...))
		})
	case "zzz":
		return c.buildGo(g.Gs[0], env)
	case "call":
		args := make([]*ast.SExpr, len(g.Args))
		for i, a := range g.Args {
			args[i] = a.close(env)
		}
		rel := relLib[g.R]
		if rel.Name == "nevero" {
			// a silent search that never ends, as gomini's own tests write it: a direct recursion without a suspension would
			// only overflow the goroutine's stack
			return func(ctx context.Context, s *gomini.State, ss gomini.Stream) { <-ctx.Done() }
		}
		return func(ctx context.Context, s *gomini.State, ss gomini.Stream) {
			benv := make([]*ast.SExpr, len(args))
			for i, a := range args {
				benv[len(args)-1-i] = a
			}
			c.buildGo(rel.Body, benv)(ctx, s, ss)
		}
	case "ifte":
		return c.perturb(gomini.IfThenElseO(c.buildGo(g.Gs[0], env), c.buildGo(g.Gs[1], env), c.buildGo(g.Gs[2], env)))
	}
	panic("buildGo: " + g.K)
}

func (c *gctx) buildAllGo(gs []*G, env []*ast.SExpr) []gomini.Goal {
	out := make([]gomini.Goal, len(gs))
	for i, g := range gs {
		out[i] = c.buildGo(g, env)
	}
	return out
}

// show6 prints a rewritten answer; placeholders are named by first occurrence.
func (c *gctx) show6(t *ast.SExpr) (string, string) {
	names := map[*ast.SExpr]int{}
	var sh func(t *ast.SExpr) (string, string)
	sh = func(t *ast.SExpr) (string, string) {
		if t == nil {
			return "()", "TNil"
		}
		c.mu.Lock()
		_, isVar := c.vars[t]
		c.mu.Unlock()
		if isVar {
			k, ok := names[t]
			if !ok {
				k = len(names)
				names[t] = k
			}
			return fmt.Sprintf("_%d", k), fmt.Sprintf("(TVar %s)", coqN(uint64(k)))
		}
		if t.Pair != nil {
			a, ca := sh(t.Pair.Car)
			d, cd := sh(t.Pair.Cdr)
			return "(" + a + " . " + d + ")", "(TPair " + ca + " " + cd + ")"
		}
		if t.Atom == nil {
			// a zero-valued SExpr that is not a registered variable
			return "<zero SExpr>", "(TAtom (ASym 999999%N))"
		}
		if t.Atom.Var != nil {
			// named placeholder of a variable this run does not know (should not happen)
			return "<foreign var " + t.Atom.Var.Name + ">", "(TAtom (ASym 999998%N))"
		}
		return fmt.Sprintf("%d:%s", atomKind(t.Atom), t.Atom.String()), encTerm(t)
	}
	return sh(t)
}

// skolemize replaces every registered placeholder by a fresh symbol (same placeholder, same symbol).
func (c *gctx) skolemize(t *ast.SExpr) *ast.SExpr {
	names := map[*ast.SExpr]*ast.SExpr{}
	var sk func(t *ast.SExpr) *ast.SExpr
	sk = func(t *ast.SExpr) *ast.SExpr {
		if t == nil {
			return nil
		}
		c.mu.Lock()
		_, isVar := c.vars[t]
		c.mu.Unlock()
		if isVar {
			if _, ok := names[t]; !ok {
				names[t] = ast.NewSymbol(fmt.Sprintf("sk%d", len(names)))
			}
			return names[t]
		}
		if t.Pair != nil {
			return ast.Cons(sk(t.Pair.Car), sk(t.Pair.Cdr))
		}
		return t
	}
	return sk(t)
}

type run6 struct {
	shows  []string
	coqs   []string
	skolem []*ast.SExpr // the answers with their unbound variables replaced by distinct fresh symbols
	closed bool
	how    string
}

func namedSExpr(varTyp any, name string) (any, bool) {
	if _, ok := varTyp.(*ast.SExpr); ok {
		return ast.NewVar(name, 0), true
	}
	return nil, false
}

// runOnce runs g through gomini.Run under sc; limit < 0 reads until the channel closes.
func runOnce(g *G, sc sched, limit int, timeout time.Duration) *run6 {
	old := runtime.GOMAXPROCS(sc.procs)
	defer runtime.GOMAXPROCS(old)
	c := &gctx{r: rand.New(rand.NewSource(sc.seed)), sc: sc, vars: map[*ast.SExpr]int{}}
	var st *gomini.State
	if sc.named && sc.lib {
		st = gomini.NewState(ast.CreateVar)
	} else if sc.named {
		st = gomini.NewState(namedSExpr)
	} else {
		st = gomini.NewState()
	}
	ctx, cancel := context.WithCancel(context.Background())
	defer cancel()
	if sc.maxRtn > 0 {
		ctx = gomini.SetMaxRoutines(ctx, sc.maxRtn)
	}
	ch := gomini.Run(ctx, st, func(q *ast.SExpr) gomini.Goal {
		c.reg(q)
		return c.buildGo(g, []*ast.SExpr{q})
	})
	out := &run6{}
	timer := time.After(timeout)
	for {
		select {
		case a, ok := <-ch:
			if !ok {
				out.closed = true
				out.how = "closed"
				return out
			}
			t, isT := a.(*ast.SExpr)
			if !isT {
				out.shows = append(out.shows, fmt.Sprintf("<%T>", a))
				out.coqs = append(out.coqs, "(TAtom (ASym 999997%N))")
			} else {
				s, cq := c.show6(t)
				out.shows = append(out.shows, s)
				out.coqs = append(out.coqs, cq)
				out.skolem = append(out.skolem, c.skolemize(t))
			}
			if limit >= 0 && len(out.shows) >= limit {
				out.how = "limit"
				return out
			}
		case <-timer:
			out.how = "timeout"
			return out
		}
	}
}

func multiset6(xs []string) string {
	ys := append([]string{}, xs...)
	sort.Strings(ys)
	return strings.Join(ys, " ")
}

// coin6 is a closed two-answer goal, shared under the given id: exists c. (c == 0 or c == 1)
func coin6(id int) *G {
	g := gFresh(gDisj(gEq(ptB(0), ptAtom(ast.NewInt(0))), gEq(ptB(0), ptAtom(ast.NewInt(1)))))
	g.Share = id
	return g
}

func c06Programs(cfg *Config) []*G {
	r := newRand(cfg.Seed)
	// finite relations only in the generated part; the infinite ones are used by the directed shapes
	pg := &progGen{r: r, allowNon: false, rels: []int{4, 5, 7, 8, 10}}
	ab := ptList(ptAtom(ast.NewSymbol("a")), ptAtom(ast.NewSymbol("b")))
	abc := ptList(ptAtom(ast.NewSymbol("a")), ptAtom(ast.NewSymbol("b")), ptAtom(ast.NewSymbol("c")))
	fixed := []*G{
		gDisjPlus(false),
		gConjPlus(false),
		gDisjPlus(false, gEq(ptB(0), ptAtom(ast.NewSymbol("a")))),
		gConjPlus(false, gEq(ptB(0), ptAtom(ast.NewSymbol("a")))),
		gDisjPlus(false, gEq(ptB(0), ptAtom(ast.NewInt(1))), gEq(ptB(0), ptAtom(ast.NewInt(2))), gEq(ptB(0), ptAtom(ast.NewInt(3))), gEq(ptB(0), ptAtom(ast.NewInt(4)))),
		gFresh(gFresh(gConjPlus(false, gEq(ptB(2), ptList(ptB(1), ptB(0))), gCall(5, ptB(1), ptB(0), abc)))),
		gFresh(gFresh(gConj(gCall(5, ptB(1), ptB(0), ab), gEq(ptB(2), ptPair(ptB(1), ptB(0)))))),
		gFresh(gConj(gCall(10, ptB(0), abc), gEq(ptB(1), ptB(0)))),
		gIfte(gDisj(gEq(ptB(0), ptAtom(ast.NewInt(1))), gEq(ptB(0), ptAtom(ast.NewInt(2)))), gSucc(), gEq(ptB(0), ptAtom(ast.NewInt(3)))),
		gIfte(gFail(), gSucc(), gEq(ptB(0), ptAtom(ast.NewInt(3)))),
		gFresh(gFresh(gConj(gEq(ptB(1), ptB(0)), gConj(gEq(ptB(1), ptAtom(ast.NewSymbol("a"))), gConj(gEq(ptB(0), ptAtom(ast.NewSymbol("b"))), gEq(ptB(2), ptList(ptB(1), ptB(0)))))))),
		// one goal VALUE entered several times along one branch (coin = exists c. c = 0 or c = 1): 2*2, 2*2*2 and 2*2 answers
		gConjPlus(false, coin6(1), coin6(1), gEq(ptB(0), ptAtom(ast.NewInt(7)))),
		gConj(coin6(1), gFresh(gConjPlus(false, gEq(ptB(0), ptB(1)), coin6(1), gDisj(gFail(), gConj(coin6(1), gEq(ptB(0), ptAtom(ast.NewInt(7)))))))),
		gConj(gEq(ptB(0), ptAtom(ast.NewInt(7))), gIfte(coin6(1), coin6(1), gFail())),
		gDisj(gConj(coin6(1), gEq(ptB(0), ptAtom(ast.NewInt(1)))), gConj(coin6(1), gEq(ptB(0), ptAtom(ast.NewInt(2))))),
		// generate and test over an infinite middle conjunct: whichever candidate is tried first, the other one is still tried
		gConjPlus(false, gDisj(gEq(ptB(0), ptAtom(ast.NewInt(1))), gEq(ptB(0), ptAtom(ast.NewInt(2)))), gCall(1), gEq(ptB(0), ptAtom(ast.NewInt(2)))),
		gConjPlus(false, gDisj(gEq(ptB(0), ptAtom(ast.NewInt(1))), gEq(ptB(0), ptAtom(ast.NewInt(2)))), gCall(1), gEq(ptB(0), ptAtom(ast.NewInt(1)))),
		gFresh(gConjPlus(false, gDisjPlus(false, gEq(ptB(0), ptAtom(ast.NewInt(1))), gEq(ptB(0), ptAtom(ast.NewInt(2))), gEq(ptB(0), ptAtom(ast.NewInt(3)))), gCall(2, ptB(1)), gEq(ptB(0), ptAtom(ast.NewInt(3))))),
		// a condition with one answer whose own search never ends: the then-branch runs on that answer all the same
		gIfte(gDisj(gEq(ptB(0), ptAtom(ast.NewInt(1))), gCall(0)), gSucc(), gFail()),
		gIfte(gDisj(gCall(0), gEq(ptB(0), ptAtom(ast.NewInt(1)))), gEq(ptB(0), ptAtom(ast.NewInt(1))), gFail()),
		gIfte(gDisj(gEq(ptB(0), ptAtom(ast.NewInt(1))), gCall(0)), gFresh(gCall(2, ptB(0))), gFail()),
		gConj(gEq(ptB(0), ptAtom(ast.NewInt(5))), gIfte(gFresh(gCall(2, ptB(0))), gSucc(), gFail())),
		// infinite / silent
		gCall(2, ptB(0)),
		gDisj(gCall(2, ptB(0)), gCall(3, ptB(0))),
		gDisj(gCall(1), gEq(ptB(0), ptAtom(ast.NewInt(7)))),
		gFresh(gConj(gCall(4, ptB(0)), gEq(ptB(1), ptB(0)))),
	}
	out := append([]*G{}, fixed...)
	for len(out) < cfg.N {
		switch r.Intn(4) {
		case 0:
			n := r.Intn(5)
			out = append(out, gDisjPlus(false, pg.goals(n, 1+r.Intn(3), 1)...))
		case 1:
			n := r.Intn(5)
			out = append(out, gConjPlus(false, pg.goals(n, 1+r.Intn(3), 1)...))
		default:
			g := pg.goal(2+r.Intn(9), 1)
			if r.Intn(4) == 0 {
				// the same closed goal value before and after the program (and inside a disjunct of it)
				id := 100 + len(out)
				sh := func() *G {
					s := gFresh(gCall(10, ptB(0), ptList(ptAtom(ast.NewSymbol("a")), ptAtom(ast.NewSymbol("b")))))
					s.Share = id
					return s
				}
				g = gConjPlus(false, sh(), gDisj(g, gConj(sh(), g)), sh())
			}
			out = append(out, g)
		}
	}
	return out[:cfg.N]
}

func runC06(cfg *Config) *Report {
	rep := newReport()
	rep.Rule = "directed shapes (ConjO/DisjO of arity 0,1,2,n; nested ConjO in DisjO and back; ConcatO-like appendo splits; IfThenElseO with empty / non-empty conditions; contradictory constraints; infinite and silent relations) + random goal programs of size 2..10 over the finite relations listo/appendo/eveno/oddo/membero, one query variable; every program is run through gomini.Run under a sweep of GOMAXPROCS {1,2,4,16} x yield injection {none, Gosched, sleeps} x placeholder policy x routine limit {none, 3}; finite searches: all answers, closed-after-last; infinite: first 3 answers then cancel; non-trivial = a disjunction or relation call occurs and the search has an answer; distinct by printed program"
	cf := newCaseFile("From Coq Require Import List NArith ZArith.\nFrom GMK Require Import Term Unify Goal Stream CorrBase Corr01 Corr02 GominiSeq Corr06.", "case06", "check06")
	cf.b.WriteString(coqRelLib())
	progs := c06Programs(cfg)
	r := newRand(cfg.Seed + 17)
	confirmedTimeouts := 0
	for i, g := range progs {
		desc := "gomini.Run " + g.show()
		if (cfg.Only >= 0 && cfg.Only != i) || len(rep.Violations) >= 10 {
			// (with 10 violations on record the rest of the shard adds nothing; every hanging search costs its full time limit)
			cf.add("C06Skip")
			rep.CaseDesc = append(rep.CaseDesc, "")
			rep.CaseObs = append(rep.CaseObs, "")
			continue
		}
		begin(i, desc)
		rep.Evaluations++
		// reference search
		rs := &refSearch{maxNodes: 60000, relational: true}
		ref := rs.solve(g, queryEnv(1), refState{refSubst{}, 1}, 14)
		refSet := map[string]int{}
		for _, a := range ref {
			refSet[reifyRef(micro.Var(0), a.s)]++
		}
		finite := !rs.truncated
		scheds := []sched{{procs: 1, yield: 0, seed: r.Int63()}}
		nsw := 3
		if cfg.Tier == "thorough" {
			nsw = 7
		}
		for k := 0; k < nsw; k++ {
			scheds = append(scheds, sched{procs: pick(r, []int{1, 2, 4, 16}), yield: r.Intn(3), seed: r.Int63(), named: r.Intn(2) == 0, lib: r.Intn(2) == 0,
				maxRtn: pick(r, []int{0, 0, 3})})
		}
		var first *run6
		obsParts := []string{}
		for k, sc := range scheds {
			limit := -1
			tmo := 6 * time.Second
			if !finite {
				limit = 3
				tmo = 2 * time.Second
				if k >= 2 {
					break
				}
			}
			ro := runOnce(g, sc, limit, tmo)
			// a slow machine is not a lost wake-up: before a missing answer / a missing close is reported, the run is repeated
			// with a generous limit
			retry := func() {
				if confirmedTimeouts >= 3 {
					return // three searches of this shard already hung through the generous limit as well: this is not machine load
				}
				rep.hist("retried after a timeout")
				ro = runOnce(g, sc, limit, 4*tmo)
				if ro.how == "timeout" {
					confirmedTimeouts++
				}
			}
			if finite && ro.how == "timeout" {
				retry()
			}
			rep.hist("end=" + ro.how)
			if k == 0 {
				first = ro
				obsParts = append(obsParts, fmt.Sprintf("%d answer(s) {%s}, %s", len(ro.shows), multiset6(ro.shows), ro.how))
			}
			if finite {
				if !ro.closed {
					rep.violate(i, "not-closed", desc, fmt.Sprintf("%s: %d answer(s) read, then %s (the sequential search is finite with %d answers)", sc, len(ro.shows), ro.how, len(ref)))
					continue
				}
				got := map[string]int{}
				for _, a := range ro.shows {
					got[a]++
				}
				if fmt.Sprint(sortedCounts(got)) != fmt.Sprint(sortedCounts(refSet)) {
					rep.violate(i, "answer-multiset", desc, fmt.Sprintf("%s: delivered %v, the sequential answers are %v", sc, sortedCounts(got), sortedCounts(refSet)))
				}
				if multiset6(ro.shows) != multiset6(first.shows) {
					rep.violate(i, "schedules-disagree", desc, fmt.Sprintf("%s delivered {%s}; %s delivered {%s}", scheds[0], multiset6(first.shows), sc, multiset6(ro.shows)))
				}
			} else {
				// every delivered answer is an answer of the formula: with the query bound to the (skolemised) answer the
				// reference search, now over a ground-ish query, must succeed
				rs2 := &refSearch{maxNodes: 200000, relational: true}
				ref2 := rs2.solve(g, queryEnv(1), refState{refSubst{}, 1}, 10)
				for j, a := range ro.skolem {
					rs3 := &refSearch{maxNodes: 400000, relational: true}
					chk := rs3.solve(gConj(gEq(ptB(0), ptAtom(a)), g), queryEnv(1), refState{refSubst{}, 1}, 600)
					if len(chk) == 0 && !rs3.truncated {
						rep.violate(i, "unsound-answer", desc, fmt.Sprintf("%s: delivered %s, which does not satisfy the formula (reference search with the query bound to it finds nothing)", sc, ro.shows[j]))
					}
				}
				// any requested finite number of answers that exist is delivered in finite time, also when the rest of the search never ends
				need := min(3, len(ref2))
				if ro.how == "timeout" && len(ro.shows) < need {
					retry()
				}
				if ro.how == "timeout" && len(ro.shows) < need {
					rep.violate(i, "answers-not-delivered", desc, fmt.Sprintf("%s: only %d of the first %d answers arrived in 2s, and again in 8s, although the formula has at least %d", sc, len(ro.shows), need, len(ref2)))
				}
			}
		}
		if finite && first != nil && first.closed {
			cf.add(fmt.Sprintf("C06Run hdefs %s 40 %s", g.coq(), coqList(first.coqs)))
			rep.hist("finite")
		} else {
			cf.add("C06Skip")
			rep.hist("infinite-or-truncated")
		}
		obs := strings.Join(obsParts, "; ")
		rep.CaseDesc = append(rep.CaseDesc, desc)
		rep.CaseObs = append(rep.CaseObs, obs)
		rep.sample(desc + " => " + obs)
		if len(ref) > 0 && (strings.Contains(desc, "disj") || strings.Contains(desc, "conde") || strings.Contains(desc, "o ")) {
			rep.nontrivial(desc)
		}
	}
	cf.write(cfg.Out)
	return rep
}
