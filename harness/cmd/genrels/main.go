// Command genrels translates the relation definitions of gominikanren, written in the combinator DSL of
// micro/mini (and gomini), from Go source into deep-embedded goal ASTs for the Coq development (coq/gen/Rel*.v).
// It understands exactly the DSL these files are written in; anything else makes it fail loudly.
package main

import (
	"fmt"
	"go/ast"
	"go/parser"
	"go/token"
	"math/big"
	"os"
	"path/filepath"
	"sort"
	"strconv"
	"strings"
)

type unit struct {
	name  string   // Coq module name
	files []string // Go files, relative to the repo root
	rels  []string // relation functions to translate, in table order for the recursive ones
	uses  []string // units whose relations may be called
}

var units = []unit{
	{"RelMini", []string{"mini/append.go", "mini/unroll.go"}, []string{"NullO", "ConsO", "CarO", "AppendO", "MemberO", "MapO"}, nil},
	{"RelPeano", []string{"example/peano/peano.go"}, []string{"Succ", "Natplus", "Leq", "Half"}, []string{"RelMini"}},
	{"RelConcato", []string{"gomini/concato/concato.go"}, []string{"PrependO", "ConcatO"}, nil},
	{"RelRegex", []string{"gomini/regex/nullo.go", "gomini/regex/derivo.go", "gomini/regex/sderivo.go", "gomini/regex/simplo.go", "gomini/regex/matcho.go"},
		[]string{"IsEmptySet", "IsEmptyStr", "IsChar", "IsOr", "IsConcat", "IsStar", "IsNotEmpty", "IsNotEmptySet", "SimpleOrO", "SimpleConcatO",
			"DeriveCharO", "NullO", "IsNullO", "DerivO", "SDerivO", "SDerivOs", "MatchO", "IsMatchO"}, nil},
}

type rel struct {
	name      string
	decl      *ast.FuncDecl
	termPars  []string // term parameters in order
	funcPars  []string // goal-valued function parameters (MapO's f)
	calls     map[string]bool
	recursive bool
	index     int // index in the unit's defs table when recursive
	body      string
	unit      string
}

type ctx struct {
	fset   *token.FileSet
	rels   map[string]*rel
	consts map[string]ast.Expr // package-level var initialisers (Zero, One)
	cur    *rel
}

func fail(fset *token.FileSet, n ast.Node, format string, a ...interface{}) {
	pos := ""
	if fset != nil && n != nil {
		pos = fset.Position(n.Pos()).String() + ": "
	}
	fmt.Fprintf(os.Stderr, "genrels: %s%s\n", pos, fmt.Sprintf(format, a...))
	os.Exit(1)
}

func calleeName(e ast.Expr) string {
	switch f := e.(type) {
	case *ast.Ident:
		return f.Name
	case *ast.SelectorExpr:
		return f.Sel.Name
	case *ast.IndexExpr: // generic instantiation EqualO[T]
		return calleeName(f.X)
	}
	return ""
}

type scope struct {
	levels map[string]int      // term variable -> de Bruijn level
	lets   map[string]string   // local term bindings, already translated at their definition depth... stored as closures
	letsFn map[string]func(depth int) string
	goalFn map[string]func(depth int) string // local goal bindings (r := EqualO(...))
	runes  map[string]int                    // local rune constants (a := rune('a'))
	depth  int
}

func (s *scope) clone(depth int) *scope {
	n := &scope{levels: map[string]int{}, letsFn: map[string]func(int) string{}, goalFn: map[string]func(int) string{}, runes: map[string]int{}, depth: depth}
	for k, v := range s.levels {
		n.levels[k] = v
	}
	for k, v := range s.letsFn {
		n.letsFn[k] = v
	}
	for k, v := range s.goalFn {
		n.goalFn[k] = v
	}
	for k, v := range s.runes {
		n.runes[k] = v
	}
	return n
}

func (s *scope) push(name string) *scope {
	n := s.clone(s.depth + 1)
	n.levels[name] = s.depth
	delete(n.letsFn, name)
	delete(n.goalFn, name)
	delete(n.runes, name)
	return n
}

func (s *scope) withLet(name string, f func(int) string) *scope {
	n := s.clone(s.depth)
	n.letsFn[name] = f
	delete(n.levels, name)
	return n
}

func newScope(depth int) *scope {
	return &scope{levels: map[string]int{}, letsFn: map[string]func(int) string{}, goalFn: map[string]func(int) string{}, runes: map[string]int{}, depth: depth}
}

func runeLit(e ast.Expr) (int, bool) {
	if lit, ok := e.(*ast.BasicLit); ok && lit.Kind == token.CHAR {
		v, _, _, err := strconv.UnquoteChar(lit.Value[1:len(lit.Value)-1], '\'')
		if err == nil {
			return int(v), true
		}
	}
	if call, ok := e.(*ast.CallExpr); ok && calleeName(call.Fun) == "rune" && len(call.Args) == 1 {
		return runeLit(call.Args[0])
	}
	return 0, false
}

func con(name string, args ...string) string {
	t := "PNil"
	for i := len(args) - 1; i >= 0; i-- {
		t = "(PPair " + args[i] + " " + t + ")"
	}
	return "(PPair (PAtom (ASym " + strNum(name) + ")) " + t + ")"
}

func strNum(s string) string {
	n := new(big.Int).SetInt64(1)
	for i := 0; i < len(s); i++ {
		n.Lsh(n, 8)
		n.Or(n, big.NewInt(int64(s[i])))
	}
	return n.String() + "%N"
}

func (c *ctx) term(e ast.Expr, s *scope) string {
	switch t := e.(type) {
	case *ast.ParenExpr:
		return c.term(t.X, s)
	case *ast.Ident:
		if t.Name == "nil" {
			return "PNil"
		}
		if f, ok := s.letsFn[t.Name]; ok {
			return f(s.depth)
		}
		if lv, ok := s.levels[t.Name]; ok {
			return fmt.Sprintf("(PB %d)", s.depth-1-lv)
		}
		if init, ok := c.consts[t.Name]; ok {
			return c.term(init, newScope(0))
		}
		fail(c.fset, e, "unknown term identifier %s", t.Name)
	case *ast.CallExpr:
		name := calleeName(t.Fun)
		switch name {
		case "Cons":
			return "(PPair " + c.term(t.Args[0], s) + " " + c.term(t.Args[1], s) + ")"
		case "NewInt":
			if lit, ok := t.Args[0].(*ast.BasicLit); ok && lit.Kind == token.INT {
				return "(PAtom (AInt (" + lit.Value + ")%Z))"
			}
		case "NewSymbol":
			if lit, ok := t.Args[0].(*ast.BasicLit); ok && lit.Kind == token.STRING {
				v, _ := strconv.Unquote(lit.Value)
				return "(PAtom (ASym " + strNum(v) + "))"
			}
		case "EmptySet":
			return con("EmptySet")
		case "EmptyStr":
			return con("EmptyStr")
		case "Char":
			if v, ok := runeLit(t.Args[0]); ok {
				return con("Char", fmt.Sprintf("(PAtom (AInt (%d)%%Z))", v))
			}
		case "CharPtr":
			return con("Char", c.term(t.Args[0], s))
		case "Or":
			return con("Or", c.term(t.Args[0], s), c.term(t.Args[1], s))
		case "Concat":
			return con("Concat", c.term(t.Args[0], s), c.term(t.Args[1], s))
		case "Star":
			return con("Star", c.term(t.Args[0], s))
		case "Makenat":
			if lit, ok := t.Args[0].(*ast.BasicLit); ok && lit.Kind == token.INT {
				n, _ := strconv.Atoi(lit.Value)
				zero, ok := c.consts["Zero"]
				if !ok {
					fail(c.fset, e, "Makenat without Zero")
				}
				out := c.term(zero, s)
				for i := 0; i < n; i++ {
					out = "(PPair " + out + " PNil)"
				}
				return out
			}
		}
		fail(c.fset, e, "unsupported term constructor %s", name)
	case *ast.UnaryExpr:
		if t.Op == token.AND {
			if id, ok := t.X.(*ast.Ident); ok {
				if v, ok := s.runes[id.Name]; ok {
					// pointer to a local rune constant: a scalar pointer, compared by content
					return fmt.Sprintf("(PAtom (AInt (%d)%%Z))", v)
				}
			}
			if cl, ok := t.X.(*ast.CompositeLit); ok && len(cl.Elts) == 2 {
				// &Node{head, tail}: a two-field constructor, encoded as a pair
				return "(PPair " + c.term(cl.Elts[0], s) + " " + c.term(cl.Elts[1], s) + ")"
			}
		}
	}
	fail(c.fset, e, "unsupported term expression")
	return ""
}

func (c *ctx) goals(es []ast.Expr, s *scope) string {
	parts := make([]string, len(es))
	for i, e := range es {
		parts[i] = c.goal(e, s)
	}
	if len(parts) == 0 {
		return "[]"
	}
	return "[" + strings.Join(parts, "; ") + "]"
}

func (c *ctx) freshLit(e ast.Expr, s *scope) string {
	fl, ok := e.(*ast.FuncLit)
	if !ok || len(fl.Type.Params.List) != 1 || len(fl.Type.Params.List[0].Names) != 1 {
		fail(c.fset, e, "CallFresh/ExistO expects a one-parameter function literal")
	}
	if len(fl.Body.List) != 1 {
		fail(c.fset, e, "fresh body must be a single return")
	}
	ret, ok := fl.Body.List[0].(*ast.ReturnStmt)
	if !ok || len(ret.Results) != 1 {
		fail(c.fset, e, "fresh body must be a single return")
	}
	return "(GFresh " + c.goal(ret.Results[0], s.push(fl.Type.Params.List[0].Names[0].Name)) + ")"
}

func (c *ctx) goal(e ast.Expr, s *scope) string {
	switch g := e.(type) {
	case *ast.ParenExpr:
		return c.goal(g.X, s)
	case *ast.SelectorExpr, *ast.Ident:
		if id, ok := e.(*ast.Ident); ok {
			if f, ok := s.goalFn[id.Name]; ok {
				return f(s.depth)
			}
		}
		switch calleeName(e) {
		case "SuccessO":
			return "GSucc"
		case "FailureO":
			return "GFail"
		}
	case *ast.FuncLit:
		// func(s *micro.State) *micro.StreamOfStates { x := term ...; return G(s) }
		sc := s
		for i, st := range g.Body.List {
			if i == len(g.Body.List)-1 {
				ret, ok := st.(*ast.ReturnStmt)
				if !ok || len(ret.Results) != 1 {
					fail(c.fset, st, "goal literal must end in return G(s)")
				}
				call, ok := ret.Results[0].(*ast.CallExpr)
				if !ok || len(call.Args) != 1 {
					fail(c.fset, st, "goal literal must end in return G(s)")
				}
				return c.goal(call.Fun, sc)
			}
			as, ok := st.(*ast.AssignStmt)
			if !ok || as.Tok != token.DEFINE || len(as.Lhs) != 1 || len(as.Rhs) != 1 {
				fail(c.fset, st, "only `x := term` is allowed before the return of a goal literal")
			}
			name := as.Lhs[0].(*ast.Ident).Name
			rhs := as.Rhs[0]
			def := sc
			// the let-bound term is re-translated at each use depth (indices shift under binders)
			sc = sc.withLet(name, func(depth int) string {
				return c.term(rhs, def.clone(depth))
			})
		}
	case *ast.CallExpr:
		name := calleeName(g.Fun)
		switch name {
		case "Zzz":
			return "(GZzz " + c.goal(g.Args[0], s) + ")"
		case "Disj":
			return "(GDisj " + c.goal(g.Args[0], s) + " " + c.goal(g.Args[1], s) + ")"
		case "Conj":
			return "(GConj " + c.goal(g.Args[0], s) + " " + c.goal(g.Args[1], s) + ")"
		case "EqualO":
			return "(GEq " + c.term(g.Args[0], s) + " " + c.term(g.Args[1], s) + ")"
		case "CallFresh", "ExistO":
			return c.freshLit(g.Args[0], s)
		case "ConjPlus":
			return "(GConjPlus true " + c.goals(g.Args, s) + ")"
		case "DisjPlus":
			return "(GDisjPlus true " + c.goals(g.Args, s) + ")"
		case "ConjPlusNoZzz", "ConjO":
			return "(GConjPlus false " + c.goals(g.Args, s) + ")"
		case "DisjPlusNoZzz", "DisjO":
			return "(GDisjPlus false " + c.goals(g.Args, s) + ")"
		case "Conde":
			parts := make([]string, len(g.Args))
			for i, a := range g.Args {
				cl, ok := a.(*ast.CompositeLit)
				if !ok {
					fail(c.fset, a, "Conde expects []micro.Goal{...} literals")
				}
				parts[i] = c.goals(cl.Elts, s)
			}
			return "(GConde [" + strings.Join(parts, "; ") + "])"
		}
		// a goal-valued function parameter (MapO's f)
		for _, fp := range c.cur.funcPars {
			if name == fp {
				parts := make([]string, len(g.Args))
				for i, a := range g.Args {
					parts[i] = c.term(a, s)
				}
				return "(" + fp + "call [" + strings.Join(parts, "; ") + "])"
			}
		}
		if r, ok := c.rels[name]; ok {
			args := []string{}
			for _, a := range g.Args {
				if id, ok := a.(*ast.Ident); ok {
					isF := false
					for _, fp := range c.cur.funcPars {
						if id.Name == fp {
							isF = true
						}
					}
					if isF {
						continue // the function parameter is passed on unchanged
					}
				}
				args = append(args, c.term(a, s))
			}
			c.cur.calls[name] = true
			fpass := ""
			for _, fp := range r.funcPars {
				fpass += " " + fp + "call"
			}
			if r.recursive {
				return fmt.Sprintf("(GCall %d [%s])", r.index, strings.Join(args, "; "))
			}
			return fmt.Sprintf("(GLet [%s] (%s_body%s))", strings.Join(args, "; "), strings.ToLower(r.name), fpass)
		}
		fail(c.fset, e, "unknown goal constructor or relation %s", name)
	}
	fail(c.fset, e, "unsupported goal expression")
	return ""
}

// collectCalls finds which known relations a function body mentions (for the call graph).
func collectCalls(fd *ast.FuncDecl, known map[string]*rel) map[string]bool {
	out := map[string]bool{}
	ast.Inspect(fd.Body, func(n ast.Node) bool {
		if ce, ok := n.(*ast.CallExpr); ok {
			if _, ok := known[calleeName(ce.Fun)]; ok {
				out[calleeName(ce.Fun)] = true
			}
		}
		return true
	})
	return out
}

func reaches(from, to string, g map[string]map[string]bool, seen map[string]bool) bool {
	for n := range g[from] {
		if n == to {
			return true
		}
		if !seen[n] {
			seen[n] = true
			if reaches(n, to, g, seen) {
				return true
			}
		}
	}
	return false
}

func main() {
	if len(os.Args) < 3 {
		fmt.Fprintln(os.Stderr, "usage: genrels <repo root> <output dir>")
		os.Exit(2)
	}
	root, outdir := os.Args[1], os.Args[2]
	all := map[string]*rel{}
	for _, u := range units {
		fset := token.NewFileSet()
		c := &ctx{fset: fset, rels: map[string]*rel{}, consts: map[string]ast.Expr{}}
		for _, dep := range u.uses {
			for _, r := range all {
				if r.unit == dep {
					c.rels[r.name] = r
				}
			}
		}
		decls := map[string]*ast.FuncDecl{}
		for _, f := range u.files {
			file, err := parser.ParseFile(fset, filepath.Join(root, f), nil, 0)
			if err != nil {
				fail(nil, nil, "%v", err)
			}
			for _, d := range file.Decls {
				switch dd := d.(type) {
				case *ast.FuncDecl:
					decls[dd.Name.Name] = dd
				case *ast.GenDecl:
					for _, sp := range dd.Specs {
						if vs, ok := sp.(*ast.ValueSpec); ok && len(vs.Names) == 1 && len(vs.Values) == 1 {
							c.consts[vs.Names[0].Name] = vs.Values[0]
						}
					}
				}
			}
		}
		mine := []*rel{}
		for _, name := range u.rels {
			fd, ok := decls[name]
			if !ok {
				fail(nil, nil, "relation %s not found in %v", name, u.files)
			}
			r := &rel{name: name, decl: fd, calls: map[string]bool{}, unit: u.name}
			for _, p := range fd.Type.Params.List {
				for _, n := range p.Names {
					if _, isFunc := p.Type.(*ast.FuncType); isFunc {
						r.funcPars = append(r.funcPars, n.Name)
					} else {
						r.termPars = append(r.termPars, n.Name)
					}
				}
			}
			c.rels[name] = r
			mine = append(mine, r)
		}
		graph := map[string]map[string]bool{}
		for _, r := range mine {
			graph[r.name] = collectCalls(r.decl, c.rels)
		}
		idx := 0
		for _, r := range mine {
			r.recursive = reaches(r.name, r.name, graph, map[string]bool{})
			if r.recursive {
				r.index = idx
				idx++
			}
		}
		// translate: non-recursive helpers first (they are inlined by name), in dependency order
		var out strings.Builder
		fmt.Fprintf(&out, "(* GENERATED by /verif/harness/cmd/genrels from %s - do not edit. *)\n", strings.Join(u.files, ", "))
		out.WriteString("From Coq Require Import List NArith ZArith Bool.\nFrom GMK Require Import Term Unify Goal.\n")
		for _, dep := range u.uses {
			fmt.Fprintf(&out, "From GMK.gen Require Import %s.\n", dep)
		}
		out.WriteString("Import ListNotations.\n\n")
		done := map[string]bool{}
		var emit func(r *rel)
		emit = func(r *rel) {
			if done[r.name] {
				return
			}
			done[r.name] = true
			deps := []string{}
			for d := range graph[r.name] {
				deps = append(deps, d)
			}
			sort.Strings(deps)
			for _, d := range deps {
				if dr := c.rels[d]; dr.unit == u.name && !dr.recursive {
					emit(dr)
				}
			}
			c.cur = r
			s := newScope(len(r.termPars))
			for i, p := range r.termPars {
				s.levels[p] = i
			}
			n := len(r.decl.Body.List)
			for _, st := range r.decl.Body.List[:n-1] {
				as, ok := st.(*ast.AssignStmt)
				if !ok || as.Tok != token.DEFINE || len(as.Lhs) != 1 || len(as.Rhs) != 1 {
					fail(fset, st, "relation %s: only `x := expr` may precede the return", r.name)
				}
				name := as.Lhs[0].(*ast.Ident).Name
				rhs := as.Rhs[0]
				if v, ok := runeLit(rhs); ok {
					s = s.clone(s.depth)
					s.runes[name] = v
					continue
				}
				// a local goal binding, re-translated at each use depth
				def := s
				s = s.clone(s.depth)
				s.goalFn[name] = func(depth int) string { return c.goal(rhs, def.clone(depth)) }
			}
			ret, ok := r.decl.Body.List[n-1].(*ast.ReturnStmt)
			if !ok || len(ret.Results) != 1 {
				fail(fset, r.decl, "relation %s: body must end in a single return", r.name)
			}
			body := c.goal(ret.Results[0], s)
			fpars := ""
			for _, fp := range r.funcPars {
				fpars += fmt.Sprintf(" (%scall : list pterm -> goal)", fp)
			}
			fmt.Fprintf(&out, "(* %s(%s)%s: parameters are the environment, last parameter = index 0 *)\n", r.name, strings.Join(r.termPars, ", "),
				map[bool]string{true: " — recursive, table index " + strconv.Itoa(r.index), false: " — non-recursive helper, inlined with GLet"}[r.recursive])
			fmt.Fprintf(&out, "Definition %s_body%s : goal :=\n  %s.\n", strings.ToLower(r.name), fpars, body)
			fmt.Fprintf(&out, "Definition %s_arity : nat := %d.\n\n", strings.ToLower(r.name), len(r.termPars))
		}
		for _, r := range mine {
			if !r.recursive {
				emit(r)
			}
		}
		for _, r := range mine {
			emit(r)
		}
		// the relation table of the unit (recursive relations, by index); function parameters are abstracted
		fparsAll := map[string]bool{}
		tab := make([]string, idx)
		for _, r := range mine {
			if r.recursive {
				app := strings.ToLower(r.name) + "_body"
				for _, fp := range r.funcPars {
					fparsAll[fp] = true
					app += " " + fp + "call"
				}
				tab[r.index] = "(" + app + ")"
			}
		}
		fp := []string{}
		for k := range fparsAll {
			fp = append(fp, k)
		}
		sort.Strings(fp)
		pars := ""
		for _, k := range fp {
			pars += fmt.Sprintf(" (%scall : list pterm -> goal)", k)
		}
		fmt.Fprintf(&out, "Definition %s_defs%s : defs := fun r => nth_error [%s] r.\n", strings.ToLower(strings.TrimPrefix(u.name, "Rel")), pars, strings.Join(tab, "; "))
		for _, r := range mine {
			if r.recursive {
				fmt.Fprintf(&out, "Definition %s_idx : nat := %d.\n", strings.ToLower(r.name), r.index)
			}
			all[u.name+"."+r.name] = r
		}
		if err := os.MkdirAll(outdir, 0o755); err != nil {
			fail(nil, nil, "%v", err)
		}
		path := filepath.Join(outdir, u.name+".v")
		old, _ := os.ReadFile(path)
		if string(old) != out.String() {
			if err := os.WriteFile(path, []byte(out.String()), 0o644); err != nil {
				fail(nil, nil, "%v", err)
			}
		}
	}
}
