// Command gencompare translates sexpr/ast/compare.go into the Coq definitions of the comparison functions
// (coq/gen/CompareGen.v).  It understands exactly the style the file is written in and fails loudly on anything else:
//
//	func (this *T) Compare(that *T) int {
//	    if this == nil { if that == nil { return 0 }; return -1 }
//	    if that == nil { return 1 }
//	    if c := <component comparison>; c != 0 { return c }     (any number, in the order they are tried)
//	    return 0
//	}
//
// with component comparisons  this.F.Compare(that.F) | compareStringPtr / compareFloatPtr / compareIntPtr (this.F, that.F)
// | strings.Compare(this.F, that.F) | compareUint(this.F, that.F),  the pointer helpers
//
//	func compareXPtr(this, that *X) int { <the same nil preamble>; return compareX(*this, *that) | strings.Compare(*this, *that) }
//
// and the scalar helpers  func compareX(this, that X) int { if this != that { if this < that { return -1 } else { return 1 } }; return 0 }.
//
// usage: gencompare <repo> <outdir>
package main

import (
	"fmt"
	"go/ast"
	"go/parser"
	"go/printer"
	"go/token"
	"os"
	"path/filepath"
	"strings"
)

var fset = token.NewFileSet()

func src(n ast.Node) string {
	var sb strings.Builder
	printer.Fprint(&sb, fset, n)
	return strings.Join(strings.Fields(sb.String()), " ")
}

func fail(format string, a ...any) {
	fmt.Fprintf(os.Stderr, "gencompare: "+format+"\n", a...)
	os.Exit(1)
}

// the nil preamble: two statements
func checkPreamble(name string, body []ast.Stmt) {
	if len(body) < 3 {
		fail("%s: body too short", name)
	}
	want0 := "if this == nil { if that == nil { return 0 } return -1 }"
	want1 := "if that == nil { return 1 }"
	if src(body[0]) != want0 {
		fail("%s: first statement is not the nil preamble: %s", name, src(body[0]))
	}
	if src(body[1]) != want1 {
		fail("%s: second statement is not the nil preamble: %s", name, src(body[1]))
	}
}

type comp struct{ kind, field string } // kind: method | strptr | fltptr | intptr | strcmp | uint

func parseComponent(name string, st ast.Stmt) comp {
	s := src(st)
	// if c := EXPR; c != 0 { return c }
	if !strings.HasPrefix(s, "if c := ") || !strings.HasSuffix(s, "; c != 0 { return c }") {
		fail("%s: not a component comparison: %s", name, s)
	}
	e := strings.TrimSuffix(strings.TrimPrefix(s, "if c := "), "; c != 0 { return c }")
	two := func(prefix string) (string, bool) {
		if strings.HasPrefix(e, prefix+"(this.") && strings.HasSuffix(e, ")") {
			in := strings.TrimSuffix(strings.TrimPrefix(e, prefix+"("), ")")
			parts := strings.Split(in, ", ")
			if len(parts) == 2 && strings.HasPrefix(parts[0], "this.") && strings.HasPrefix(parts[1], "that.") && parts[0][5:] == parts[1][5:] {
				return parts[0][5:], true
			}
		}
		return "", false
	}
	for prefix, kind := range map[string]string{"compareStringPtr": "strptr", "compareFloatPtr": "fltptr", "compareIntPtr": "intptr", "strings.Compare": "strcmp", "compareUint": "uint"} {
		if f, ok := two(prefix); ok {
			return comp{kind, f}
		}
	}
	// this.F.Compare(that.F)
	if strings.HasPrefix(e, "this.") && strings.Contains(e, ".Compare(that.") && strings.HasSuffix(e, ")") {
		f := e[5:strings.Index(e, ".Compare(")]
		g := strings.TrimSuffix(e[strings.Index(e, ".Compare(that.")+len(".Compare(that."):], ")")
		if f == g {
			return comp{"method", f}
		}
	}
	fail("%s: component comparison not understood: %s", name, e)
	return comp{}
}

func main() {
	if len(os.Args) != 3 {
		fail("usage: gencompare <repo> <outdir>")
	}
	path := filepath.Join(os.Args[1], "sexpr/ast/compare.go")
	f, err := parser.ParseFile(fset, path, nil, 0)
	if err != nil {
		fail("%v", err)
	}
	methods := map[string][]comp{}
	seenHelpers := map[string]bool{}
	for _, d := range f.Decls {
		fd, ok := d.(*ast.FuncDecl)
		if !ok {
			continue
		}
		body := fd.Body.List
		switch {
		case fd.Recv != nil && fd.Name.Name == "Compare":
			recv := src(fd.Recv.List[0].Type)
			if len(fd.Recv.List[0].Names) != 1 || fd.Recv.List[0].Names[0].Name != "this" || len(fd.Type.Params.List) != 1 || len(fd.Type.Params.List[0].Names) != 1 || fd.Type.Params.List[0].Names[0].Name != "that" || src(fd.Type.Params.List[0].Type) != recv {
				fail("method on %s: receiver / parameter names are not this / that", recv)
			}
			name := recv + ".Compare"
			checkPreamble(name, body)
			if src(body[len(body)-1]) != "return 0" {
				fail("%s: does not end with return 0", name)
			}
			for _, st := range body[2 : len(body)-1] {
				methods[strings.TrimPrefix(recv, "*")] = append(methods[strings.TrimPrefix(recv, "*")], parseComponent(name, st))
			}
		case fd.Recv == nil && strings.HasSuffix(fd.Name.Name, "Ptr"):
			checkPreamble(fd.Name.Name, body)
			want := map[string]string{"compareStringPtr": "return strings.Compare(*this, *that)", "compareFloatPtr": "return compareFloat(*this, *that)", "compareIntPtr": "return compareInt(*this, *that)"}[fd.Name.Name]
			if want == "" || len(body) != 3 || src(body[2]) != want {
				fail("%s: unexpected body", fd.Name.Name)
			}
			seenHelpers[fd.Name.Name] = true
		case fd.Recv == nil && (fd.Name.Name == "compareFloat" || fd.Name.Name == "compareInt" || fd.Name.Name == "compareUint"):
			if len(body) != 2 || src(body[0]) != "if this != that { if this < that { return -1 } else { return 1 } }" || src(body[1]) != "return 0" {
				fail("%s: unexpected body: %s", fd.Name.Name, src(fd.Body))
			}
			seenHelpers[fd.Name.Name] = true
		default:
			fail("unexpected declaration %s", fd.Name.Name)
		}
	}
	for _, h := range []string{"compareStringPtr", "compareFloatPtr", "compareIntPtr", "compareFloat", "compareInt", "compareUint"} {
		if !seenHelpers[h] {
			fail("helper %s not found", h)
		}
	}
	// the Coq side: accessor and comparator of every (type, field) the structs of ast.go have
	type fld struct{ kind, coq, proj, cmp string }
	table := map[string]map[string]fld{
		"Variable": {"Name": {"strcmp", "cmp_str (vname x) (vname y)", "vname v", "cmp_str"}, "Index": {"uint", "N.compare (vidx x) (vidx y)", "vidx v", "N.compare"}},
		"Atom": {"Str": {"strptr", "cmp_opt cmp_str (a_str x) (a_str y)", "a_str a", "cmp_opt cmp_str"}, "Symbol": {"strptr", "cmp_opt cmp_str (a_sym x) (a_sym y)", "a_sym a", "cmp_opt cmp_str"},
			"Float": {"fltptr", "cmp_opt Z.compare (a_flt x) (a_flt y)", "a_flt a", "cmp_opt Z.compare"}, "Int": {"intptr", "cmp_opt Z.compare (a_int x) (a_int y)", "a_int a", "cmp_opt Z.compare"},
			"Var": {"method", "cmp_opt cmp_var (a_var x) (a_var y)", "a_var a", "cmp_opt cmp_var"}},
		"SExpr": {"Pair": {"method", "cmp_pair p q", "", ""}, "Atom": {"method", "cmp_opt cmp_atom a b", "", ""}},
		"Pair":  {"Car": {"method", "cmp_sexpr a a'", "", ""}, "Cdr": {"method", "cmp_sexpr d d'", "", ""}},
	}
	chain := func(typ string) (string, string, string) {
		cs, ok := methods[typ]
		if !ok {
			fail("no Compare method on %s", typ)
		}
		out := "Eq"
		projs, prod := "tt", "cmp_unit"
		for i := len(cs) - 1; i >= 0; i-- {
			f, ok := table[typ][cs[i].field]
			if !ok {
				fail("%s.Compare compares the unknown field %s", typ, cs[i].field)
			}
			if f.kind != cs[i].kind {
				fail("%s.Compare compares field %s with a %s comparison, the field needs %s", typ, cs[i].field, cs[i].kind, f.kind)
			}
			out = "lex (" + f.coq + ") (" + out + ")"
			projs = "(" + f.proj + ", " + projs + ")"
			prod = "(cmp_prod (" + f.cmp + ") " + prod + ")"
		}
		return out, projs, prod
	}
	var sb strings.Builder
	sb.WriteString("(* GENERATED by /verif/harness/cmd/gencompare from sexpr/ast/compare.go - do not edit.\n   The component comparisons of every Compare method, in the order the Go code tries them. *)\n")
	sb.WriteString("From Coq Require Import List NArith ZArith Bool.\nFrom GMK Require Import SexprTypes.\nImport ListNotations.\n\n")
	vch, vpr, vcm := chain("Variable")
	fmt.Fprintf(&sb, "(* Variable.Compare on non-nil receivers; the compared components as a tuple, and their comparisons, in the same order *)\nDefinition cmp_var (x y : var) : comparison :=\n  %s.\nDefinition var_proj (v : var) := %s.\nDefinition var_cmp := %s.\n\n", vch, vpr, vcm)
	ach, apr, acm := chain("Atom")
	fmt.Fprintf(&sb, "(* Atom.Compare on non-nil receivers *)\nDefinition cmp_atom (x y : atom) : comparison :=\n  %s.\nDefinition atom_proj (a : atom) := %s.\nDefinition atom_cmp := %s.\n\n", ach, apr, acm)
	sch, _, _ := chain("SExpr")
	pch, _, _ := chain("Pair")
	fmt.Fprintf(&sb, "(* SExpr.Compare / Pair.Compare: the nil preamble, then the components *)\nFixpoint cmp_sexpr (x y : sexpr) {struct x} : comparison :=\n  match x, y with\n  | SNull, SNull => Eq\n  | SNull, SNode _ _ => Lt\n  | SNode _ _, SNull => Gt\n  | SNode p a, SNode q b => %s\n  end\nwith cmp_pair (p q : pairo) {struct p} : comparison :=\n  match p, q with\n  | PNull, PNull => Eq\n  | PNull, PCons _ _ => Lt\n  | PCons _ _, PNull => Gt\n  | PCons a d, PCons a' d' => %s\n  end.\n", sch, pch)
	outp := filepath.Join(os.Args[2], "CompareGen.v")
	if old, err := os.ReadFile(outp); err == nil && string(old) == sb.String() {
		return // unchanged: keep the file (and its compiled form) as it is
	}
	if err := os.WriteFile(outp, []byte(sb.String()), 0o644); err != nil {
		fail("%v", err)
	}
}
