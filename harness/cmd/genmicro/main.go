// Command genmicro translates the first-order core of package micro (assv, walk, walkStar, occurs, exts, unify, reifys,
// reifyS) from the Go sources into Gallina (coq/gen/MicroGen.v), statement by statement.
//
// The target is a shallow embedding in the result monad of coq/GoLite.v:
//
//	R A = Ret a | OOF_ | Panic
//
// Every Go operation that can panic is an R-valued primitive (x.Atom.Var on a non-variable, Car/Cdr on a non-pair,
// m[i] = v out of range); a function that is recursive takes a fuel argument, matches on it once at its head (OOF_ at 0)
// and hands the predecessor to every fuelled call in its body; a function that only calls fuelled functions passes its fuel on.
// && and || keep Go's short circuit (their right operand is only evaluated - and can only panic or run out of fuel - when Go
// evaluates it).  Nothing is interpreted or simplified: an `if` is an `if`, a `for range` with early return is a local
// fixpoint over the list, `x = e` under an `if` without return is a join on the assigned variables.
//
// The translator understands exactly the subset these functions are written in and fails loudly (exit 1) on anything else;
// the driver turns that into a failed proof obligation.  coq/MicroGenSpec.v proves that the generated functions are
// the hand-written model of coq/Unify.v and coq/Reify.v (and never Panic), so every theorem of C01 is a theorem about this text.
//
// usage: genmicro <repo> <outdir>
package main

import (
	"fmt"
	"go/ast"
	"go/parser"
	"go/printer"
	"go/token"
	"os"
	"path/filepath"
	"reflect"
	"sort"
	"strings"
)

var fset = token.NewFileSet()

func src(n ast.Node) string {
	var sb strings.Builder
	printer.Fprint(&sb, fset, n)
	return strings.Join(strings.Fields(sb.String()), " ")
}

func fail(format string, a ...any) {
	fmt.Fprintf(os.Stderr, "genmicro: "+format+"\n", a...)
	os.Exit(1)
}

// ---- types of the subset
// sexpr (*ast.SExpr) -> term; var (*ast.Variable) -> N; subst (Substitutions) -> subst; subpair -> N * term; bool; nat (len, int); N (uint64)
// dialect "micro": package micro over Term.v;  dialect "gomini": gomini/unify.go over Reflect.v / GCore.v (see GoLiteG.v)
var dialect = "micro"
var prefix = "g_"
var emitOnly map[string]bool // when set: translate everything, write only these functions

func goType(e ast.Expr) string {
	if dialect == "mini" {
		switch src(e) {
		case "micro.Goal":
			return "goal"
		case "...micro.Goal", "[]micro.Goal":
			return "goals"
		case "...[]micro.Goal", "[][]micro.Goal":
			return "goalss"
		}
		fail("type outside the subset: %s", src(e))
	}
	if dialect == "stream" {
		switch src(e) {
		case "int":
			return "Z"
		case "*StreamOfStates":
			return "stream"
		case "[]*State":
			return "states"
		case "*State":
			return "mstate?"
		case "Goal":
			return "sgoal"
		case "func(*ast.SExpr) Goal":
			return "fgoal"
		}
		fail("type outside the subset: %s", src(e))
	}
	if dialect == "gomini" {
		switch src(e) {
		case "any":
			return "gval"
		case "*State":
			return "state"
		case "Var":
			return "N"
		case "bool":
			return "bool"
		}
		fail("type outside the subset: %s", src(e))
	}
	switch src(e) {
	case "*ast.SExpr":
		return "sexpr"
	case "*ast.Variable":
		return "var"
	case "Substitutions":
		return "subst"
	case "bool":
		return "bool"
	case "uint64":
		return "N"
	case "int":
		return "nat"
	case "SubPair":
		return "subpair"
	}
	fail("type outside the subset: %s", src(e))
	return ""
}

func coqType(t string) string {
	switch t {
	case "sexpr":
		return "term"
	case "var", "N":
		return "N"
	case "subst":
		return "subst"
	case "bool":
		return "bool"
	case "nat":
		return "nat"
	case "subpair":
		return "(N * term)"
	case "gval", "rvalue":
		return "gval"
	case "state":
		return "gsub"
	case "state?":
		return "(option gsub)"
	case "kind":
		return "kind"
	case "goal":
		return "goal"
	case "goals":
		return "(list goal)"
	case "goalss":
		return "(list (list goal))"
	case "Z":
		return "Z"
	case "stream":
		return "stream"
	case "states":
		return "(list state)"
	case "mstate?":
		return "(option state)"
	case "sgoal":
		return "sgoal"
	case "fgoal":
		return "(term -> sgoal)"
	case "mstate":
		return "state"
	}
	if strings.HasPrefix(t, "(") { // tuple "(a,b)"
		parts := strings.Split(t[1:len(t)-1], ",")
		for i := range parts {
			parts[i] = coqType(parts[i])
		}
		return "(" + strings.Join(parts, " * ") + ")"
	}
	fail("no Coq type for %s", t)
	return ""
}

type fn struct {
	name    string
	body    *ast.BlockStmt // the statements translated (the body of the returned function literal for a curried goal constructor)
	sig     string         // the Go signature, for the comment
	decl    *ast.FuncDecl
	params  [][2]string // name, type
	results []string
	calls   map[string]bool
	rec     bool // self-recursive
	fuelled bool // recursive or calls a fuelled function
}

var fns = map[string]*fn{}
var order = []string{"assv", "walk", "walkStar", "occurs", "exts", "unify", "reifys", "reifyS", "EqualO"}

func (f *fn) resType() string {
	if len(f.results) == 1 {
		if f.results[0] == "state" {
			return "state?" // a returned *State may be nil
		}
		return f.results[0]
	}
	return "(" + strings.Join(f.results, ",") + ")"
}

// ---- expressions
type ex struct {
	code string
	pure bool // pure: code : T ; impure: code : R T
	ty   string
}

type ctx struct {
	f     *fn
	vars  map[string]string // Go variable -> type
	ren   map[string]string // Go variable -> Coq name, for variables scoped to an if statement (they must not shadow in the rest)
	fuel  string            // the fuel term handed to fuelled calls
	fresh *int
	cdrOf map[string]string // stream dialect: Go variable bound as the cdr of `_, v := X.CarCdr()` -> Coq name of X
}

func (c *ctx) name(s string) string {
	if r, ok := c.ren[s]; ok {
		return r
	}
	return varName(s)
}

func (c *ctx) tmp() string {
	*c.fresh++
	return fmt.Sprintf("t%d_", *c.fresh)
}

func (c *ctx) clone() *ctx {
	v := map[string]string{}
	for k, t := range c.vars {
		v[k] = t
	}
	rn := map[string]string{}
	for k, t := range c.ren {
		rn[k] = t
	}
	co := map[string]string{}
	for k, t := range c.cdrOf {
		co[k] = t
	}
	return &ctx{f: c.f, vars: v, ren: rn, fuel: c.fuel, fresh: c.fresh, cdrOf: co}
}

func ret(e ex) string {
	if e.pure {
		return "Ret (" + e.code + ")"
	}
	return e.code
}

// evaluate the operands left to right, binding the impure ones, and build a pure result from their names
func (c *ctx) seq(es []ex, k func(names []string) ex) ex {
	names := make([]string, len(es))
	allPure := true
	for i, e := range es {
		if e.pure {
			names[i] = "(" + e.code + ")"
		} else {
			names[i] = c.tmp()
			allPure = false
		}
	}
	r := k(names)
	if allPure {
		return r
	}
	code := ret(r)
	for i := len(es) - 1; i >= 0; i-- {
		if !es[i].pure {
			code = fmt.Sprintf("bind (%s) (fun %s => %s)", es[i].code, names[i], code)
		}
	}
	return ex{code, false, r.ty}
}

// names the generated Coq code cannot use for a Go variable: Coq keywords and the global names of the models the generated code is
// written over (definitions, constructors, record fields of Term.v, Unify.v, Goal.v, Stream.v, Reify.v, Reflect.v, GCore.v, GoLite*.v)
var coqTaken = map[string]bool{}

func init() {
	for _, n := range strings.Fields(`N O S Z andb any_loop any_loopM any_loopR app app_goal arg_env as assv at atom atom_eqb bind bindk bool callbacks carcdr cast_var cast_var2 cell_state children close cofix conj conjplus_z cons cons_opt container_nil content ctr defs disjplus_z distinct ds elem_kind else end env environment eq_refl equalo eval evalh event ex_intro exist existT exists exported exts f false first_occ fix fold_left fold_right for forall force fresh_state from_goals fst fun gassv gbind gequalo gget ghascycle goal gres gres_is_fail grewrite gset gsub gunify gval gval_eqb gvar gwalk hd if in inl inr inst is_leaf is_nil is_pair is_variable kind kind_eqb kind_of l_ left length let list lookup_name make_goals make_subst map map_entries map_entriesM map_entriesR map_loop map_loopM map_loopR match mchildren mkeys mkreify mplus mslots nat negb new_stream nil nil_iface_atom nodupb nth nth_goal occurs once_loop opt_is_none option or_introl or_intror pair prod pterm rany ranyM ranyR reify_name reify_var reifys rename rename_first_occ return rev right rmap rmapM rmapR senc set_goal sg_bind sg_env sg_goal sg_run sg_thunk sgoal size slice_copy slice_ntag slice_set snd st_counter st_subst state state_is_nil store stream stream_is_nil struct struct_ntag sub subst subst_is_nil susp_bind susp_goal susp_mplus susp_self_ifThenElseLoop susp_self_onceLoop suspensions sx_car sx_cdr sx_var take tenc tencs term term_eqb term_is_nil that their then thunk tl tlistn trace true tslot tt uf unify unit unwrap using var_kind vars walk walkstar walkt wf_slot where whose with zero zero_of zip_children zip_loop zipreduce zipreduce_state`) {
		coqTaken[n] = true
	}
}

func varName(s string) string {
	if coqTaken[s] {
		return s + "_"
	}
	return s
}

func (c *ctx) expr(e ast.Expr, want string) ex {
	switch e := e.(type) {
	case *ast.ParenExpr:
		return c.expr(e.X, want)
	case *ast.Ident:
		switch e.Name {
		case "nil":
			switch want {
			case "subst":
				return ex{"[]", true, "subst"}
			case "sexpr":
				return ex{"TNil", true, "sexpr"}
			case "state?":
				return ex{"None", true, "state?"}
			case "states":
				return ex{"[]", true, "states"}
			case "stream":
				return ex{"SNil", true, "stream"}
			}
			fail("%s: nil of unknown type (%q)", c.f.name, want)
		case "true", "false":
			return ex{e.Name, true, "bool"}
		}
		t, ok := c.vars[e.Name]
		if !ok {
			fail("%s: unknown identifier %s", c.f.name, e.Name)
		}
		return ex{c.name(e.Name), true, t}
	case *ast.BasicLit:
		if e.Kind == token.INT {
			if want == "Z" {
				return ex{"(" + e.Value + ")%Z", true, "Z"}
			}
			if want == "N" {
				return ex{"(" + e.Value + ")%N", true, "N"}
			}
			return ex{e.Value + "%nat", true, "nat"}
		}
	case *ast.UnaryExpr:
		if e.Op == token.NOT {
			x := c.expr(e.X, "bool")
			return c.seq([]ex{x}, func(n []string) ex { return ex{"negb " + n[0], true, "bool"} })
		}
		if e.Op == token.AND && dialect == "stream" { // &State{a, b}
			if cl, ok := e.X.(*ast.CompositeLit); ok && src(cl.Type) == "State" && len(cl.Elts) == 2 {
				if _, kv := cl.Elts[0].(*ast.KeyValueExpr); !kv {
					a := c.expr(cl.Elts[0], "subst")
					b := c.expr(cl.Elts[1], "N")
					if a.ty == "subst" && b.ty == "N" {
						return c.seq([]ex{a, b}, func(n []string) ex { return ex{"Some (mkSt " + n[0] + " " + n[1] + ")", true, "mstate?"} })
					}
				}
			}
		}
		if e.Op == token.AND { // &State{Substitutions: a, Counter: b}
			if cl, ok := e.X.(*ast.CompositeLit); ok && src(cl.Type) == "State" && len(cl.Elts) == 2 && dialect == "micro" {
				kv0, ok0 := cl.Elts[0].(*ast.KeyValueExpr)
				kv1, ok1 := cl.Elts[1].(*ast.KeyValueExpr)
				if ok0 && ok1 && src(kv0.Key) == "Substitutions" && src(kv1.Key) == "Counter" {
					a := c.expr(kv0.Value, "subst")
					b := c.expr(kv1.Value, "N")
					if a.ty == "subst" && b.ty == "N" {
						return c.seq([]ex{a, b}, func(n []string) ex { return ex{"mkSt " + n[0] + " " + n[1], true, "mstate"} })
					}
				}
			}
		}
		if e.Op == token.AND { // &ast.SExpr{Atom: &ast.Atom{Var: v}}
			if cl, ok := e.X.(*ast.CompositeLit); ok && src(cl.Type) == "ast.SExpr" && len(cl.Elts) == 1 {
				if kv, ok := cl.Elts[0].(*ast.KeyValueExpr); ok && src(kv.Key) == "Atom" {
					if u, ok := kv.Value.(*ast.UnaryExpr); ok && u.Op == token.AND {
						if cl2, ok := u.X.(*ast.CompositeLit); ok && src(cl2.Type) == "ast.Atom" && len(cl2.Elts) == 1 {
							if kv2, ok := cl2.Elts[0].(*ast.KeyValueExpr); ok && src(kv2.Key) == "Var" {
								v := c.expr(kv2.Value, "var")
								if v.ty != "var" {
									fail("%s: Var: of type %s", c.f.name, v.ty)
								}
								return c.seq([]ex{v}, func(n []string) ex { return ex{"TVar " + n[0], true, "sexpr"} })
							}
						}
					}
				}
			}
		}
	case *ast.CompositeLit:
		if src(e.Type) == "SubPair" && len(e.Elts) == 2 {
			kv0, ok0 := e.Elts[0].(*ast.KeyValueExpr)
			kv1, ok1 := e.Elts[1].(*ast.KeyValueExpr)
			if ok0 && ok1 && src(kv0.Key) == "Key" && src(kv1.Key) == "Value" {
				k := c.expr(kv0.Value, "N")
				v := c.expr(kv1.Value, "sexpr")
				if k.ty != "N" || v.ty != "sexpr" {
					fail("%s: SubPair{%s, %s}", c.f.name, k.ty, v.ty)
				}
				return c.seq([]ex{k, v}, func(n []string) ex { return ex{"(" + n[0] + ", " + n[1] + ")", true, "subpair"} })
			}
		}
	case *ast.BinaryExpr:
		switch e.Op {
		case token.LAND, token.LOR:
			a := c.expr(e.X, "bool")
			b := c.expr(e.Y, "bool")
			if a.ty != "bool" || b.ty != "bool" {
				fail("%s: %s on %s, %s", c.f.name, e.Op, a.ty, b.ty)
			}
			op := "&&"
			if e.Op == token.LOR {
				op = "||"
			}
			if b.pure {
				return c.seq([]ex{a}, func(n []string) ex { return ex{"(" + n[0] + " " + op + " (" + b.code + "))%bool", true, "bool"} })
			}
			// short circuit: the right operand is evaluated only when Go evaluates it
			t := c.tmp()
			var body string
			if e.Op == token.LAND {
				body = fmt.Sprintf("if %s then %s else Ret false", t, b.code)
			} else {
				body = fmt.Sprintf("if %s then Ret true else %s", t, b.code)
			}
			return ex{fmt.Sprintf("bind (%s) (fun %s => %s)", ret(a), t, body), false, "bool"}
		case token.EQL, token.NEQ:
			neg := e.Op == token.NEQ
			wrap := func(s string) string {
				if neg {
					return "negb (" + s + ")"
				}
				return s
			}
			if id, ok := e.Y.(*ast.Ident); ok && id.Name == "nil" {
				a := c.expr(e.X, "")
				switch a.ty {
				case "subst":
					return c.seq([]ex{a}, func(n []string) ex { return ex{wrap("subst_is_nil " + n[0]), true, "bool"} })
				case "sexpr":
					return c.seq([]ex{a}, func(n []string) ex { return ex{wrap("term_is_nil " + n[0]), true, "bool"} })
				case "stream":
					return c.seq([]ex{a}, func(n []string) ex { return ex{wrap("stream_is_nil " + n[0]), true, "bool"} })
				case "mstate?":
					return c.seq([]ex{a}, func(n []string) ex { return ex{wrap("opt_is_none " + n[0]), true, "bool"} })
				}
				fail("%s: == nil on %s", c.f.name, a.ty)
			}
			a := c.expr(e.X, "")
			b := c.expr(e.Y, a.ty)
			if a.ty != b.ty {
				fail("%s: == on %s and %s", c.f.name, a.ty, b.ty)
			}
			var eq string
			switch a.ty {
			case "N":
				eq = "N.eqb"
			case "nat":
				eq = "Nat.eqb"
			case "bool":
				eq = "Bool.eqb"
			case "kind":
				eq = "kind_eqb"
			case "Z":
				eq = "Z.eqb"
			default:
				fail("%s: == on %s", c.f.name, a.ty)
			}
			return c.seq([]ex{a, b}, func(n []string) ex { return ex{wrap(eq + " " + n[0] + " " + n[1]), true, "bool"} })
		case token.ADD, token.SUB:
			if a0 := c.expr(e.X, want); a0.ty == "N" && e.Op == token.ADD {
				b0 := c.expr(e.Y, "N")
				if b0.ty != "N" {
					fail("%s: + on N and %s", c.f.name, b0.ty)
				}
				return c.seq([]ex{a0, b0}, func(n []string) ex { return ex{"(" + n[0] + " + " + n[1] + ")%N", true, "N"} })
			} else if a0.ty == "Z" {
				b0 := c.expr(e.Y, "Z")
				if b0.ty != "Z" {
					fail("%s: %s on Z and %s", c.f.name, e.Op, b0.ty)
				}
				op := map[token.Token]string{token.ADD: "+", token.SUB: "-"}[e.Op]
				return c.seq([]ex{a0, b0}, func(n []string) ex { return ex{"(" + n[0] + " " + op + " " + n[1] + ")%Z", true, "Z"} })
			}
			if e.Op == token.SUB {
				fail("%s: subtraction on a length", c.f.name)
			}
			a := c.expr(e.X, "nat")
			b := c.expr(e.Y, "nat")
			if a.ty != "nat" || b.ty != "nat" {
				fail("%s: + on %s, %s", c.f.name, a.ty, b.ty)
			}
			return c.seq([]ex{a, b}, func(n []string) ex { return ex{"(" + n[0] + " + " + n[1] + ")%nat", true, "nat"} })
		}
	case *ast.IndexExpr:
		if dialect == "mini" {
			x := c.expr(e.X, "goals")
			i := c.expr(e.Index, "nat")
			if x.ty == "goals" && i.ty == "nat" && x.pure && i.pure {
				return ex{"nth_goal (" + x.code + ") (" + i.code + ")", false, "goal"}
			}
		}
	case *ast.SliceExpr:
		if dialect == "mini" && e.Low != nil && e.High == nil && !e.Slice3 {
			x := c.expr(e.X, "goals")
			i := c.expr(e.Low, "nat")
			if x.ty == "goals" && i.ty == "nat" && x.pure && i.pure {
				return ex{"from_goals (" + x.code + ") (" + i.code + ")", false, "goals"}
			}
		}
	case *ast.FuncLit:
		if dialect == "mini" {
			return c.goalClosure(e)
		}
	case *ast.SelectorExpr:
		if id, ok := e.X.(*ast.Ident); ok && id.Name == "micro" && dialect == "mini" {
			if k, ok := map[string]string{"FailureO": "GFail", "SuccessO": "GSucc"}[e.Sel.Name]; ok {
				return ex{k, true, "goal"}
			}
		}
		if id, ok := e.X.(*ast.Ident); ok && id.Name == "reflect" && dialect == "gomini" {
			if k, ok := map[string]string{"Ptr": "KPtr", "Slice": "KSlice", "Struct": "KStruct", "Map": "KMap", "Interface": "KInterface"}[e.Sel.Name]; ok {
				return ex{k, true, "kind"}
			}
		}
		// X.Atom.Var | X.Pair.Car | X.Pair.Cdr | V.Index | P.Key | P.Value
		if inner, ok := e.X.(*ast.SelectorExpr); ok {
			var prim, ty string
			switch inner.Sel.Name + "." + e.Sel.Name {
			case "Atom.Var":
				prim, ty = "sx_var", "var"
			case "Pair.Car":
				prim, ty = "sx_car", "sexpr"
			case "Pair.Cdr":
				prim, ty = "sx_cdr", "sexpr"
			}
			if prim != "" {
				x := c.expr(inner.X, "")
				if x.ty == "sexpr" {
					if x.pure {
						return ex{prim + " (" + x.code + ")", false, ty}
					}
					t := c.tmp()
					return ex{fmt.Sprintf("bind (%s) (fun %s => %s %s)", x.code, t, prim, t), false, ty}
				}
			}
		}
		x := c.expr(e.X, "")
		if dialect == "stream" && x.ty == "stream" && e.Sel.Name == "state" && x.pure {
			return ex{"cell_state (" + x.code + ")", false, "mstate?"}
		}
		if dialect == "stream" && x.ty == "mstate?" && x.pure && e.Sel.Name == "Counter" {
			return ex{"st_counter (" + x.code + ")", false, "N"}
		}
		if dialect == "stream" && x.ty == "mstate?" && x.pure && e.Sel.Name == "Substitutions" {
			return ex{"st_subst (" + x.code + ")", false, "subst"}
		}
		switch x.ty + "." + e.Sel.Name {
		case "mstate.Substitutions":
			return c.seq([]ex{x}, func(n []string) ex { return ex{"sub " + n[0], true, "subst"} })
		case "mstate.Counter":
			return c.seq([]ex{x}, func(n []string) ex { return ex{"ctr " + n[0], true, "N"} })
		case "var.Index":
			return ex{x.code, x.pure, "N"}
		case "subpair.Key":
			return c.seq([]ex{x}, func(n []string) ex { return ex{"fst " + n[0], true, "N"} })
		case "subpair.Value":
			return c.seq([]ex{x}, func(n []string) ex { return ex{"snd " + n[0], true, "sexpr"} })
		}
		fail("%s: selector outside the subset: %s (on %s)", c.f.name, src(e), x.ty)
	case *ast.CallExpr:
		return c.call(e)
	}
	fail("%s: expression outside the subset: %s", c.f.name, src(e))
	return ex{}
}

// a function literal handed to reflecttools.Any / Map: one parameter of type any, translated as a Coq function into R
func (c *ctx) closure(fl *ast.FuncLit, res string) string {
	if len(fl.Type.Params.List) != 1 || len(fl.Type.Params.List[0].Names) != 1 || goType(fl.Type.Params.List[0].Type) != "gval" {
		fail("%s: closure parameters: %s", c.f.name, src(fl.Type))
	}
	if fl.Type.Results == nil || len(fl.Type.Results.List) != 1 || goType(fl.Type.Results.List[0].Type) != res {
		fail("%s: closure result: %s", c.f.name, src(fl.Type))
	}
	p := fl.Type.Params.List[0].Names[0].Name
	cc := c.clone()
	g := *c.f
	g.results = []string{res}
	cc.f = &g
	cc.vars[p] = "gval"
	delete(cc.ren, p)
	return fmt.Sprintf("(fun %s =>\n%s)", varName(p), cc.stmts(fl.Body.List, ""))
}

func (c *ctx) gominiCall(e *ast.CallExpr) (ex, bool) {
	sel, ok := e.Fun.(*ast.SelectorExpr)
	if !ok {
		return ex{}, false
	}
	if id, ok := sel.X.(*ast.Ident); ok && (id.Name == "reflecttools" || id.Name == "reflect") {
		if _, isVar := c.vars[id.Name]; !isVar {
			arg := func(i int, want string) ex {
				a := c.expr(e.Args[i], want)
				if a.ty != want {
					fail("%s: argument %d of %s has type %s, want %s", c.f.name, i, src(e), a.ty, want)
				}
				return a
			}
			switch id.Name + "." + sel.Sel.Name {
			case "reflecttools.IsNil":
				if len(e.Args) == 1 {
					return c.seq([]ex{arg(0, "gval")}, func(n []string) ex { return ex{"is_nil " + n[0], true, "bool"} }), true
				}
			case "reflect.ValueOf":
				if len(e.Args) == 1 {
					a := arg(0, "gval")
					return ex{a.code, a.pure, "rvalue"}, true
				}
			case "reflect.DeepEqual":
				if len(e.Args) == 2 {
					return c.seq([]ex{arg(0, "gval"), arg(1, "gval")}, func(n []string) ex { return ex{"gval_eqb " + n[0] + " " + n[1], true, "bool"} }), true
				}
			case "reflecttools.ZipReduce":
				// ZipReduce(x, y, s, g) with g one of the translated functions of type func(x, y any, s *State) *State
				if len(e.Args) == 4 {
					gid, ok := e.Args[3].(*ast.Ident)
					if !ok || fns[gid.Name] == nil {
						fail("%s: ZipReduce with a function outside the translated set: %s", c.f.name, src(e))
					}
					g := fns[gid.Name]
					if len(g.params) != 3 || g.params[0][1] != "gval" || g.params[1][1] != "gval" || g.params[2][1] != "state" || g.resType() != "state?" {
						fail("%s: ZipReduce with a function of the wrong type: %s", c.f.name, src(e))
					}
					gc := prefix + g.name
					if g.fuelled {
						gc += " " + c.fuel
					}
					as := []ex{arg(0, "gval"), arg(1, "gval"), arg(2, "state")}
					for _, a := range as {
						if !a.pure {
							fail("%s: impure argument of ZipReduce: %s", c.f.name, src(e))
						}
					}
					return ex{fmt.Sprintf("zipreduce_state (%s) (%s) (%s) (%s)", gc, as[0].code, as[1].code, as[2].code), false, "state?"}, true
				}
			case "reflecttools.Any", "reflecttools.Map":
				if len(e.Args) == 2 {
					fl, ok := e.Args[1].(*ast.FuncLit)
					if !ok {
						fail("%s: %s needs a function literal: %s", c.f.name, sel.Sel.Name, src(e))
					}
					a := arg(0, "gval")
					if !a.pure {
						fail("%s: impure argument: %s", c.f.name, src(e))
					}
					if sel.Sel.Name == "Any" {
						return ex{fmt.Sprintf("ranyR %s (%s)", c.closure(fl, "bool"), a.code), false, "bool"}, true
					}
					return ex{fmt.Sprintf("rmapR %s (%s)", c.closure(fl, "gval"), a.code), false, "gval"}, true
				}
			}
			fail("%s: call outside the subset: %s", c.f.name, src(e))
		}
	}
	// v.Elem().Kind()
	if sel.Sel.Name == "Kind" && len(e.Args) == 0 {
		if inner, ok := sel.X.(*ast.CallExpr); ok {
			if isel, ok := inner.Fun.(*ast.SelectorExpr); ok && isel.Sel.Name == "Elem" && len(inner.Args) == 0 {
				v := c.expr(isel.X, "rvalue")
				if v.ty == "rvalue" {
					return c.seq([]ex{v}, func(n []string) ex { return ex{"elem_kind " + n[0], true, "kind"} }), true
				}
			}
		}
	}
	x := c.expr(sel.X, "")
	switch x.ty + "." + sel.Sel.Name {
	case "rvalue.Kind":
		if len(e.Args) == 0 {
			return c.seq([]ex{x}, func(n []string) ex { return ex{"kind_of " + n[0], true, "kind"} }), true
		}
	case "state.CastVar":
		if len(e.Args) == 1 {
			a := c.expr(e.Args[0], "gval")
			if a.ty == "gval" {
				return c.seq([]ex{x, a}, func(n []string) ex { return ex{"cast_var2 " + n[1], true, "(N,bool)"} }), true
			}
		}
	case "state.Get":
		if len(e.Args) == 1 {
			a := c.expr(e.Args[0], "N")
			if a.ty == "N" {
				return c.seq([]ex{x, a}, func(n []string) ex { return ex{"gget " + n[0] + " " + n[1], true, "(gval,bool)"} }), true
			}
		}
	case "state.Set":
		if len(e.Args) == 2 {
			a := c.expr(e.Args[0], "N")
			b := c.expr(e.Args[1], "gval")
			if a.ty == "N" && b.ty == "gval" {
				return c.seq([]ex{x, a, b}, func(n []string) ex { return ex{"gset " + n[0] + " " + n[1] + " " + n[2], true, "state"} }), true
			}
		}
	}
	fail("%s: call outside the subset: %s", c.f.name, src(e))
	return ex{}, false
}

// A goal written as a function literal.  Two shapes are understood, the bodies of micro.Disj and micro.Conj:
//
//	func(s *micro.State) *micro.StreamOfStates { a := G1(s); b := G2(s); return micro.Mplus(a, b) }   = GDisj G1 G2
//	func(s *micro.State) *micro.StreamOfStates { a := G1(s); return micro.Bind(a, G2) }               = GConj G1 G2
//
// with G1, G2 goal-typed variables of the enclosing function.  Anything else is outside the subset.
func (c *ctx) goalClosure(fl *ast.FuncLit) ex {
	bad := func() ex {
		fail("%s: goal closure outside the subset: %s", c.f.name, src(fl))
		return ex{}
	}
	if src(fl.Type) != "func(s *micro.State) *micro.StreamOfStates" {
		return bad()
	}
	// name := G(s)
	app := func(st ast.Stmt) (string, string, bool) {
		as, ok := st.(*ast.AssignStmt)
		if !ok || as.Tok != token.DEFINE || len(as.Lhs) != 1 || len(as.Rhs) != 1 {
			return "", "", false
		}
		call, ok := as.Rhs[0].(*ast.CallExpr)
		if !ok || len(call.Args) != 1 || src(call.Args[0]) != "s" {
			return "", "", false
		}
		g, ok := call.Fun.(*ast.Ident)
		if !ok || c.vars[g.Name] != "goal" {
			return "", "", false
		}
		return src(as.Lhs[0]), g.Name, true
	}
	body := fl.Body.List
	// G(s) as an expression
	appExpr := func(e ast.Expr) (string, bool) {
		call, ok := e.(*ast.CallExpr)
		if !ok || len(call.Args) != 1 || src(call.Args[0]) != "s" {
			return "", false
		}
		g, ok := call.Fun.(*ast.Ident)
		if !ok || c.vars[g.Name] != "goal" {
			return "", false
		}
		return g.Name, true
	}
	switch len(body) {
	case 1:
		// return micro.Mplus(G1(s), G2(s)) : Go evaluates the operands left to right, as the two assignments of micro.Disj do;
		// return micro.Bind(G1(s), G2)
		if ret, ok := body[0].(*ast.ReturnStmt); ok && len(ret.Results) == 1 {
			if call, ok := ret.Results[0].(*ast.CallExpr); ok && len(call.Args) == 2 {
				g1, ok1 := appExpr(call.Args[0])
				if src(call.Fun) == "micro.Mplus" && ok1 {
					if g2, ok2 := appExpr(call.Args[1]); ok2 {
						return ex{"GDisj " + c.name(g1) + " " + c.name(g2), true, "goal"}
					}
				}
				if src(call.Fun) == "micro.Bind" && ok1 {
					if g2, ok := call.Args[1].(*ast.Ident); ok && c.vars[g2.Name] == "goal" {
						return ex{"GConj " + c.name(g1) + " " + c.name(g2.Name), true, "goal"}
					}
				}
			}
		}
	case 3:
		a, g1, ok1 := app(body[0])
		b, g2, ok2 := app(body[1])
		if ok1 && ok2 && a != b && src(body[2]) == "return micro.Mplus("+a+", "+b+")" {
			return ex{"GDisj " + c.name(g1) + " " + c.name(g2), true, "goal"}
		}
	case 2:
		a, g1, ok1 := app(body[0])
		if ret, ok := body[1].(*ast.ReturnStmt); ok1 && ok && len(ret.Results) == 1 {
			if call, ok := ret.Results[0].(*ast.CallExpr); ok && src(call.Fun) == "micro.Bind" && len(call.Args) == 2 && src(call.Args[0]) == a {
				if g2, ok := call.Args[1].(*ast.Ident); ok && c.vars[g2.Name] == "goal" {
					return ex{"GConj " + c.name(g1) + " " + c.name(g2.Name), true, "goal"}
				}
			}
		}
	}
	return bad()
}

func (c *ctx) miniCall(e *ast.CallExpr) (ex, bool) {
	if src(e.Fun) == "micro.Zzz" && len(e.Args) == 1 {
		x := c.expr(e.Args[0], "goal")
		if x.ty == "goal" {
			return c.seq([]ex{x}, func(n []string) ex { return ex{"GZzz " + n[0], true, "goal"} }), true
		}
	}
	if id, ok := e.Fun.(*ast.Ident); ok && id.Name == "append" && len(e.Args) == 2 && !e.Ellipsis.IsValid() {
		x := c.expr(e.Args[0], "goals")
		y := c.expr(e.Args[1], "goal")
		if x.ty == "goals" && y.ty == "goal" {
			return c.seq([]ex{x, y}, func(n []string) ex { return ex{"(" + n[0] + " ++ [" + n[1] + "])", true, "goals"} }), true
		}
	}
	if id, ok := e.Fun.(*ast.Ident); ok && fns[id.Name] != nil && !e.Ellipsis.IsValid() {
		fail("%s: a variadic function called without ...: %s", c.f.name, src(e))
	}
	return ex{}, false
}

// closures of the stream dialect.
//
//	Suspension(func() *StreamOfStates { _, cdr := X.CarCdr(); return Mplus(Y, cdr) })   = susp_mplus Y X
//	Suspension(func() *StreamOfStates { _, cdr := X.CarCdr(); return Bind(cdr, G) })    = susp_bind G X
//	NewStream(A, func() *StreamOfStates { return F(args) })                              = the cell (A . F(args)), tail computed
//
// (the model is defunctionalised: a suspension is a thunk TMplus / TBind over the thunk of the immature cell X; the lazily
// computed tail of a mature cell is modelled as the computed tail)
func (c *ctx) streamClosureCall(e *ast.CallExpr) (ex, bool) {
	// f(v)(ss) with f a function from terms to goals
	if inner, ok := e.Fun.(*ast.CallExpr); ok && len(e.Args) == 1 && len(inner.Args) == 1 {
		if fid, ok := inner.Fun.(*ast.Ident); ok && c.vars[fid.Name] == "fgoal" {
			v := c.expr(inner.Args[0], "sexpr")
			a := c.expr(e.Args[0], "mstate?")
			if v.ty == "sexpr" && a.ty == "mstate?" && v.pure && a.pure {
				return ex{fmt.Sprintf("app_goal (%s (%s)) (%s)", c.name(fid.Name), v.code, a.code), false, "stream"}, true
			}
		}
	}
	id, ok := e.Fun.(*ast.Ident)
	if !ok {
		return ex{}, false
	}
	isThunkType := func(fl *ast.FuncLit) bool { return src(fl.Type) == "func() *StreamOfStates" }
	switch id.Name {
	case "Suspension":
		if len(e.Args) != 1 {
			break
		}
		fl, ok := e.Args[0].(*ast.FuncLit)
		if ok && isThunkType(fl) && len(fl.Body.List) == 1 {
			// Suspension(func() *StreamOfStates { return g(s) }) = the suspended goal g at s (the model's thunk TGoal)
			if rs, ok := fl.Body.List[0].(*ast.ReturnStmt); ok && len(rs.Results) == 1 {
				if call, ok := rs.Results[0].(*ast.CallExpr); ok && len(call.Args) == 1 {
					if gid, ok := call.Fun.(*ast.Ident); ok && c.vars[gid.Name] == "sgoal" {
						a := c.expr(call.Args[0], "mstate?")
						if a.ty == "mstate?" && a.pure {
							return ex{fmt.Sprintf("susp_goal %s (%s)", c.name(gid.Name), a.code), false, "stream"}, true
						}
					}
				}
			}
		}
		// Suspension(func() *StreamOfStates { return SELF(a1, .., ak, cdr) }) with `_, cdr := X.CarCdr()` in the enclosing body:
		// the loop suspended over the immature cell X (the model's thunk over the thunk of X) = susp_self_SELF a1 .. ak X
		if ok && isThunkType(fl) && len(fl.Body.List) == 1 {
			if rs, ok := fl.Body.List[0].(*ast.ReturnStmt); ok && len(rs.Results) == 1 {
				if call, ok := rs.Results[0].(*ast.CallExpr); ok && len(call.Args) >= 1 {
					if fid, ok := call.Fun.(*ast.Ident); ok && fid.Name == c.f.name && len(call.Args) == len(c.f.params) {
						last, ok := call.Args[len(call.Args)-1].(*ast.Ident)
						if !ok || c.cdrOf[last.Name] == "" || c.f.params[len(c.f.params)-1][1] != "stream" {
							fail("%s: suspension outside the subset: %s", c.f.name, src(e))
						}
						code := "susp_self_" + c.f.name
						for i, a := range call.Args[:len(call.Args)-1] {
							x := c.expr(a, c.f.params[i][1])
							if x.ty != c.f.params[i][1] || !x.pure {
								fail("%s: suspension outside the subset: %s", c.f.name, src(e))
							}
							code += " (" + x.code + ")"
						}
						code += " (" + c.cdrOf[last.Name] + ")"
						return ex{code, false, "stream"}, true
					}
				}
			}
		}
		if !ok || !isThunkType(fl) || len(fl.Body.List) != 2 {
			fail("%s: suspension outside the subset: %s", c.f.name, src(e))
		}
		as, ok := fl.Body.List[0].(*ast.AssignStmt)
		if !ok || as.Tok != token.DEFINE || len(as.Lhs) != 2 || src(as.Lhs[0]) != "_" || len(as.Rhs) != 1 {
			fail("%s: suspension outside the subset: %s", c.f.name, src(e))
		}
		cdr := src(as.Lhs[1])
		call, ok := as.Rhs[0].(*ast.CallExpr)
		if !ok || len(call.Args) != 0 {
			fail("%s: suspension outside the subset: %s", c.f.name, src(e))
		}
		sel, ok := call.Fun.(*ast.SelectorExpr)
		if !ok || sel.Sel.Name != "CarCdr" {
			fail("%s: suspension outside the subset: %s", c.f.name, src(e))
		}
		x := c.expr(sel.X, "stream")
		ret, ok := fl.Body.List[1].(*ast.ReturnStmt)
		if !ok || len(ret.Results) != 1 || x.ty != "stream" || !x.pure {
			fail("%s: suspension outside the subset: %s", c.f.name, src(e))
		}
		rc, ok := ret.Results[0].(*ast.CallExpr)
		if !ok || len(rc.Args) != 2 {
			fail("%s: suspension outside the subset: %s", c.f.name, src(e))
		}
		switch src(rc.Fun) {
		case "Mplus":
			if src(rc.Args[1]) == cdr {
				y := c.expr(rc.Args[0], "stream")
				if y.ty == "stream" && y.pure {
					return ex{fmt.Sprintf("susp_mplus (%s) (%s)", y.code, x.code), false, "stream"}, true
				}
			}
		case "Bind":
			if src(rc.Args[0]) == cdr {
				g := c.expr(rc.Args[1], "sgoal")
				if g.ty == "sgoal" && g.pure {
					return ex{fmt.Sprintf("susp_bind (%s) (%s)", g.code, x.code), false, "stream"}, true
				}
			}
		}
		fail("%s: suspension outside the subset: %s", c.f.name, src(e))
	case "NewStream":
		if len(e.Args) != 2 {
			break
		}
		fl, ok := e.Args[1].(*ast.FuncLit)
		if !ok || !isThunkType(fl) || len(fl.Body.List) != 1 {
			fail("%s: NewStream outside the subset: %s", c.f.name, src(e))
		}
		rs, ok := fl.Body.List[0].(*ast.ReturnStmt)
		if !ok || len(rs.Results) != 1 {
			fail("%s: NewStream outside the subset: %s", c.f.name, src(e))
		}
		a := c.expr(e.Args[0], "mstate?")
		t := c.expr(rs.Results[0], "stream")
		if a.ty != "mstate?" || t.ty != "stream" || !a.pure {
			fail("%s: NewStream outside the subset: %s", c.f.name, src(e))
		}
		tn := c.tmp()
		return ex{fmt.Sprintf("bind (%s) (fun %s => new_stream (%s) %s)", ret(t), tn, a.code, tn), false, "stream"}, true
	}
	if id.Name == "Var" && len(e.Args) == 1 {
		x := c.expr(e.Args[0], "N")
		if x.ty == "N" {
			return c.seq([]ex{x}, func(n []string) ex { return ex{"TVar " + n[0], true, "sexpr"} }), true
		}
	}
	// g(car)
	if t, ok := c.vars[id.Name]; ok && t == "sgoal" && len(e.Args) == 1 {
		a := c.expr(e.Args[0], "mstate?")
		if a.ty == "mstate?" && a.pure {
			return ex{fmt.Sprintf("app_goal %s (%s)", c.name(id.Name), a.code), false, "stream"}, true
		}
	}
	return ex{}, false
}

func (c *ctx) streamCall(e *ast.CallExpr) (ex, bool) {
	if r, ok := c.streamClosureCall(e); ok {
		return r, true
	}
	// s.CarCdr()
	if sel, ok := e.Fun.(*ast.SelectorExpr); ok && sel.Sel.Name == "CarCdr" && len(e.Args) == 0 {
		x := c.expr(sel.X, "stream")
		if x.ty == "stream" && x.pure {
			return ex{"carcdr ds uf (" + x.code + ")", false, "(mstate?,stream)"}, true
		}
	}
	// append([]*State{x}, ys...)
	if id, ok := e.Fun.(*ast.Ident); ok && id.Name == "append" && len(e.Args) == 2 && e.Ellipsis.IsValid() {
		if cl, ok := e.Args[0].(*ast.CompositeLit); ok && src(cl.Type) == "[]*State" && len(cl.Elts) == 1 {
			x := c.expr(cl.Elts[0], "mstate?")
			y := c.expr(e.Args[1], "states")
			if x.ty == "mstate?" && y.ty == "states" && x.pure && y.pure {
				return ex{"cons_opt (" + x.code + ") (" + y.code + ")", false, "states"}, true
			}
		}
	}
	return ex{}, false
}

func (c *ctx) call(e *ast.CallExpr) ex {
	if dialect == "mini" {
		if r, ok := c.miniCall(e); ok {
			return r
		}
	}
	if dialect == "stream" {
		if r, ok := c.streamCall(e); ok {
			return r
		}
	}
	if dialect == "gomini" {
		if r, ok := c.gominiCall(e); ok {
			return r
		}
	}
	// methods
	if sel, ok := e.Fun.(*ast.SelectorExpr); ok {
		if id, ok := sel.X.(*ast.Ident); ok && id.Name == "ast" && sel.Sel.Name == "Cons" && len(e.Args) == 2 {
			a := c.expr(e.Args[0], "sexpr")
			b := c.expr(e.Args[1], "sexpr")
			if a.ty != "sexpr" || b.ty != "sexpr" {
				fail("%s: ast.Cons on %s, %s", c.f.name, a.ty, b.ty)
			}
			return c.seq([]ex{a, b}, func(n []string) ex { return ex{"TPair " + n[0] + " " + n[1], true, "sexpr"} })
		}
		x := c.expr(sel.X, "")
		switch x.ty + "." + sel.Sel.Name {
		case "sexpr.IsVariable", "sexpr.IsPair":
			if len(e.Args) != 0 {
				break
			}
			p := map[string]string{"IsVariable": "is_variable", "IsPair": "is_pair"}[sel.Sel.Name]
			return c.seq([]ex{x}, func(n []string) ex { return ex{p + " " + n[0], true, "bool"} })
		case "sexpr.Car", "sexpr.Cdr":
			if len(e.Args) != 0 {
				break
			}
			p := map[string]string{"Car": "sx_car", "Cdr": "sx_cdr"}[sel.Sel.Name]
			if x.pure {
				return ex{p + " (" + x.code + ")", false, "sexpr"}
			}
			t := c.tmp()
			return ex{fmt.Sprintf("bind (%s) (fun %s => %s %s)", x.code, t, p, t), false, "sexpr"}
		case "sexpr.Equal":
			if len(e.Args) != 1 {
				break
			}
			y := c.expr(e.Args[0], "sexpr")
			if y.ty != "sexpr" {
				break
			}
			return c.seq([]ex{x, y}, func(n []string) ex { return ex{"term_eqb " + n[0] + " " + n[1], true, "bool"} })
		case "var.Equal":
			if len(e.Args) != 1 {
				break
			}
			y := c.expr(e.Args[0], "var")
			if y.ty != "var" {
				break
			}
			return c.seq([]ex{x, y}, func(n []string) ex { return ex{"N.eqb " + n[0] + " " + n[1], true, "bool"} })
		}
		fail("%s: call outside the subset: %s", c.f.name, src(e))
	}
	id, ok := e.Fun.(*ast.Ident)
	if !ok {
		fail("%s: call outside the subset: %s", c.f.name, src(e))
	}
	switch id.Name {
	case "len":
		if len(e.Args) == 1 {
			x := c.expr(e.Args[0], "subst")
			if x.ty == "subst" || x.ty == "goals" || x.ty == "goalss" {
				return c.seq([]ex{x}, func(n []string) ex { return ex{"length " + n[0], true, "nat"} })
			}
		}
	case "make":
		if len(e.Args) == 2 && src(e.Args[0]) == "[]micro.Goal" && dialect == "mini" {
			n := c.expr(e.Args[1], "nat")
			if n.ty == "nat" {
				return c.seq([]ex{n}, func(ns []string) ex { return ex{"make_goals " + ns[0], true, "goals"} })
			}
		}
		if len(e.Args) == 2 && src(e.Args[0]) == "Substitutions" {
			n := c.expr(e.Args[1], "nat")
			if n.ty == "nat" {
				return c.seq([]ex{n}, func(ns []string) ex { return ex{"make_subst " + ns[0], true, "subst"} })
			}
		}
	case "NewSingletonStream":
		if len(e.Args) == 1 && dialect == "stream" { // NewStream(car, nil)
			x := c.expr(e.Args[0], "mstate?")
			if x.ty == "mstate?" && x.pure {
				return ex{"new_stream (" + x.code + ") SNil", false, "stream"}
			}
		}
		if len(e.Args) == 1 && dialect == "micro" {
			x := c.expr(e.Args[0], "mstate")
			if x.ty == "mstate" {
				return c.seq([]ex{x}, func(n []string) ex { return ex{"SCons " + n[0] + " SNil", true, "stream"} })
			}
		}
	case "reifyName":
		if len(e.Args) == 1 {
			n := c.expr(e.Args[0], "nat")
			if n.ty == "nat" {
				return c.seq([]ex{n}, func(ns []string) ex { return ex{"reify_name " + ns[0], true, "sexpr"} })
			}
		}
	}
	g, ok := fns[id.Name]
	if !ok {
		fail("%s: call of a function outside the translated set: %s", c.f.name, src(e))
	}
	if len(e.Args) != len(g.params) {
		fail("%s: arity of %s", c.f.name, src(e))
	}
	args := make([]ex, len(e.Args))
	for i, a := range e.Args {
		args[i] = c.expr(a, g.params[i][1])
		if args[i].ty != g.params[i][1] {
			fail("%s: argument %d of %s has type %s, want %s", c.f.name, i, src(e), args[i].ty, g.params[i][1])
		}
	}
	// the call itself is impure (R-valued): bind the impure arguments first
	names := make([]string, len(args))
	for i, a := range args {
		if a.pure {
			names[i] = "(" + a.code + ")"
		} else {
			names[i] = c.tmp()
		}
	}
	code := prefix + g.name
	if g.fuelled {
		code += " " + c.fuel
	}
	if dialect == "stream" {
		code += " ds uf"
	}
	code += " " + strings.Join(names, " ")
	for i := len(args) - 1; i >= 0; i-- {
		if !args[i].pure {
			code = fmt.Sprintf("bind (%s) (fun %s => %s)", args[i].code, names[i], code)
		}
	}
	return ex{code, false, g.resType()}
}

// ---- statements, in continuation style: k is the Coq term for "fall off the end of this block" ("" = must not happen)

// indexLoopAsRange: see the ForStmt case of stmts.
func indexLoopAsRange(s *ast.ForStmt) (*ast.RangeStmt, bool) {
	init, ok := s.Init.(*ast.AssignStmt)
	if !ok || init.Tok != token.DEFINE || len(init.Lhs) != 1 || len(init.Rhs) != 1 || src(init.Rhs[0]) != "0" {
		return nil, false
	}
	iv, ok := init.Lhs[0].(*ast.Ident)
	if !ok {
		return nil, false
	}
	cond, ok := s.Cond.(*ast.BinaryExpr)
	if !ok || cond.Op != token.LSS || src(cond.X) != iv.Name {
		return nil, false
	}
	lc, ok := cond.Y.(*ast.CallExpr)
	if !ok || src(lc.Fun) != "len" || len(lc.Args) != 1 {
		return nil, false
	}
	xs, ok := lc.Args[0].(*ast.Ident)
	if !ok {
		return nil, false
	}
	post, ok := s.Post.(*ast.IncDecStmt)
	if !ok || post.Tok != token.INC || src(post.X) != iv.Name {
		return nil, false
	}
	good := true
	ast.Inspect(s.Body, func(n ast.Node) bool {
		switch n := n.(type) {
		case *ast.BranchStmt, *ast.FuncLit, *ast.GoStmt, *ast.DeferStmt:
			good = false
		case *ast.IncDecStmt:
			if src(n.X) == iv.Name || src(n.X) == xs.Name {
				good = false
			}
		case *ast.AssignStmt:
			for _, l := range n.Lhs {
				if id, ok := l.(*ast.Ident); ok && (id.Name == iv.Name || id.Name == xs.Name) {
					good = false
				}
				if ix, ok := l.(*ast.IndexExpr); ok && src(ix.X) == xs.Name {
					good = false
				}
			}
		case *ast.UnaryExpr:
			if n.Op == token.AND {
				good = false
			}
		}
		return good
	})
	if !good {
		return nil, false
	}
	elem := &ast.Ident{Name: xs.Name + "_at_" + iv.Name}
	target := xs.Name + "[" + iv.Name + "]"
	body := replaceExpr(s.Body, func(e ast.Expr) ast.Expr {
		if ix, ok := e.(*ast.IndexExpr); ok && src(ix) == target {
			return elem
		}
		return nil
	}).(*ast.BlockStmt)
	key := iv
	used := false
	ast.Inspect(body, func(n ast.Node) bool {
		if id, ok := n.(*ast.Ident); ok && id.Name == iv.Name {
			used = true
		}
		return !used
	})
	if !used { // the index only served to read X[i]
		key = &ast.Ident{Name: "_"}
	}
	return &ast.RangeStmt{Key: key, Value: elem, Tok: token.DEFINE, X: xs, Body: body}, true
}

// replaceExpr returns a copy of the node in which every expression for which f returns non-nil is replaced by that result
// (reflection over the go/ast node types; identifiers and literals are shared, not copied).
func replaceExpr(n ast.Node, f func(ast.Expr) ast.Expr) ast.Node {
	var walk func(v reflect.Value) reflect.Value
	exprT := reflect.TypeOf((*ast.Expr)(nil)).Elem()
	walk = func(v reflect.Value) reflect.Value {
		switch v.Kind() {
		case reflect.Interface:
			if v.IsNil() {
				return v
			}
			if v.Type() == exprT {
				if r := f(v.Interface().(ast.Expr)); r != nil {
					return reflect.ValueOf(&r).Elem()
				}
			}
			out := reflect.New(v.Type()).Elem()
			out.Set(walk(v.Elem()))
			return out
		case reflect.Ptr:
			if v.IsNil() || v.Elem().Kind() != reflect.Struct {
				return v
			}
			if _, isIdent := v.Interface().(*ast.Ident); isIdent {
				return v
			}
			if _, isObj := v.Interface().(*ast.Object); isObj {
				return v
			}
			c := reflect.New(v.Elem().Type())
			for i := 0; i < v.Elem().NumField(); i++ {
				if c.Elem().Field(i).CanSet() {
					c.Elem().Field(i).Set(walk(v.Elem().Field(i)))
				}
			}
			return c
		case reflect.Slice:
			if v.IsNil() {
				return v
			}
			c := reflect.MakeSlice(v.Type(), v.Len(), v.Len())
			for i := 0; i < v.Len(); i++ {
				c.Index(i).Set(walk(v.Index(i)))
			}
			return c
		}
		return v
	}
	return walk(reflect.ValueOf(n)).Interface().(ast.Node)
}

func terminates(ss []ast.Stmt) bool {
	if len(ss) == 0 {
		return false
	}
	switch s := ss[len(ss)-1].(type) {
	case *ast.ReturnStmt:
		return true
	case *ast.IfStmt:
		if s.Else == nil {
			return false
		}
		eb, ok := s.Else.(*ast.BlockStmt)
		return ok && terminates(s.Body.List) && terminates(eb.List)
	}
	return false
}

// variables assigned (with =) in a block that does not return
func assigned(c *ctx, ss []ast.Stmt) []string {
	set := map[string]bool{}
	for _, s := range ss {
		as, ok := s.(*ast.AssignStmt)
		if !ok || as.Tok != token.ASSIGN {
			fail("%s: a conditional block without return may only assign: %s", c.f.name, src(s))
		}
		for _, l := range as.Lhs {
			id, ok := l.(*ast.Ident)
			if !ok {
				fail("%s: assignment target: %s", c.f.name, src(l))
			}
			if _, ok := c.vars[id.Name]; !ok {
				fail("%s: assignment to an undeclared variable %s", c.f.name, id.Name)
			}
			set[id.Name] = true
		}
	}
	var out []string
	for v := range set {
		out = append(out, v)
	}
	sort.Strings(out)
	return out
}

func (c *ctx) tuple(vs []string) string {
	if len(vs) == 1 {
		return c.name(vs[0])
	}
	n := make([]string, len(vs))
	for i, v := range vs {
		n[i] = c.name(v)
	}
	return "(" + strings.Join(n, ", ") + ")"
}

func (c *ctx) pat(vs []string) string {
	if len(vs) == 1 {
		return c.name(vs[0])
	}
	return "'" + c.tuple(vs)
}

func (c *ctx) bindTo(e ex, pattern string, rest string) string {
	if e.pure {
		return fmt.Sprintf("let %s := %s in\n%s", pattern, e.code, rest)
	}
	return fmt.Sprintf("bind (%s) (fun %s =>\n%s)", e.code, pattern, rest)
}

func (c *ctx) stmts(ss []ast.Stmt, k string) string {
	if len(ss) == 0 {
		if k == "" {
			fail("%s: control reaches the end of a block without return", c.f.name)
		}
		return k
	}
	s, rest := ss[0], ss[1:]
	switch s := s.(type) {
	case *ast.ReturnStmt:
		if len(rest) != 0 {
			fail("%s: statements after return", c.f.name)
		}
		if len(s.Results) == 1 {
			e := c.expr(s.Results[0], c.f.resType())
			if e.ty == "state" && c.f.resType() == "state?" { // a non-nil *State
				e = c.seq([]ex{e}, func(n []string) ex { return ex{"Some " + n[0], true, "state?"} })
			}
			if e.ty != c.f.resType() {
				fail("%s: return of type %s, want %s", c.f.name, e.ty, c.f.resType())
			}
			return ret(e)
		}
		if len(s.Results) != len(c.f.results) {
			fail("%s: return arity", c.f.name)
		}
		es := make([]ex, len(s.Results))
		for i, r := range s.Results {
			es[i] = c.expr(r, c.f.results[i])
			if es[i].ty != c.f.results[i] {
				fail("%s: return component %d of type %s, want %s", c.f.name, i, es[i].ty, c.f.results[i])
			}
		}
		return ret(c.seq(es, func(n []string) ex { return ex{"(" + strings.Join(n, ", ") + ")", true, c.f.resType()} }))
	case *ast.AssignStmt:
		if len(s.Rhs) != 1 {
			fail("%s: parallel assignment: %s", c.f.name, src(s))
		}
		// m[i] = v
		if ix, ok := s.Lhs[0].(*ast.IndexExpr); ok && len(s.Lhs) == 1 && s.Tok == token.ASSIGN {
			m, ok := ix.X.(*ast.Ident)
			if !ok || (c.vars[m.Name] != "subst" && c.vars[m.Name] != "goals") {
				fail("%s: indexed assignment: %s", c.f.name, src(s))
			}
			elt := map[string]string{"subst": "subpair", "goals": "goal"}[c.vars[m.Name]]
			setter := map[string]string{"subst": "slice_set", "goals": "set_goal"}[c.vars[m.Name]]
			i := c.expr(ix.Index, "nat")
			v := c.expr(s.Rhs[0], elt)
			if i.ty != "nat" || v.ty != elt {
				fail("%s: indexed assignment of %s at %s", c.f.name, v.ty, i.ty)
			}
			// slice_set is a primitive that can panic
			names := []string{}
			code := ""
			binds := []ex{i, v}
			for _, b := range binds {
				if b.pure {
					names = append(names, "("+b.code+")")
				} else {
					names = append(names, c.tmp())
				}
			}
			code = fmt.Sprintf("%s %s %s %s", setter, c.name(m.Name), names[0], names[1])
			for j := len(binds) - 1; j >= 0; j-- {
				if !binds[j].pure {
					code = fmt.Sprintf("bind (%s) (fun %s => %s)", binds[j].code, names[j], code)
				}
			}
			return c.bindTo(ex{code, false, c.vars[m.Name]}, c.name(m.Name), c.stmts(rest, k))
		}
		e := c.expr(s.Rhs[0], func() string {
			if id, ok := s.Lhs[0].(*ast.Ident); ok && len(s.Lhs) == 1 {
				return c.vars[id.Name]
			}
			return ""
		}())
		var names []string
		for _, l := range s.Lhs {
			id, ok := l.(*ast.Ident)
			if !ok {
				fail("%s: assignment target: %s", c.f.name, src(l))
			}
			names = append(names, id.Name)
		}
		var tys []string
		if len(names) == 1 {
			tys = []string{e.ty}
		} else {
			if !strings.HasPrefix(e.ty, "(") {
				fail("%s: %s: a tuple is needed", c.f.name, src(s))
			}
			tys = strings.Split(e.ty[1:len(e.ty)-1], ",")
			if len(tys) != len(names) {
				fail("%s: %s: arity", c.f.name, src(s))
			}
		}
		pnames := make([]string, len(names))
		for i, n := range names {
			if n == "_" {
				pnames[i] = "_"
				continue
			}
			if s.Tok == token.ASSIGN {
				if old, ok := c.vars[n]; !ok || old != tys[i] {
					fail("%s: %s: assignment changes the type of %s", c.f.name, src(s), n)
				}
			}
			c.vars[n] = tys[i]
			pnames[i] = c.name(n)
		}
		p := pnames[0]
		if len(pnames) > 1 {
			p = "'(" + strings.Join(pnames, ", ") + ")"
		}
		for _, n := range names { // an assignment ends what was known about the variable
			delete(c.cdrOf, n)
		}
		for v, x := range c.cdrOf {
			for _, pn := range pnames {
				if x == pn {
					delete(c.cdrOf, v)
				}
			}
		}
		// a, v := X.CarCdr() with X a variable: v is the cdr of X (used by the closure shape `Suspension(func() { return SELF(.., v) })`)
		if dialect == "stream" && len(names) == 2 && names[1] != "_" && s.Tok == token.DEFINE {
			if call, ok := s.Rhs[0].(*ast.CallExpr); ok && len(call.Args) == 0 {
				if sel, ok := call.Fun.(*ast.SelectorExpr); ok && sel.Sel.Name == "CarCdr" {
					if xid, ok := sel.X.(*ast.Ident); ok && c.vars[xid.Name] == "stream" {
						c.cdrOf[names[1]] = c.name(xid.Name)
					}
				}
			}
		}
		return c.bindTo(e, p, c.stmts(rest, k))
	case *ast.ExprStmt:
		// copy(m, s)
		if call, ok := s.X.(*ast.CallExpr); ok {
			if id, ok := call.Fun.(*ast.Ident); ok && id.Name == "copy" && len(call.Args) == 2 {
				m, ok := call.Args[0].(*ast.Ident)
				if ok && c.vars[m.Name] == "subst" {
					x := c.expr(call.Args[1], "subst")
					if x.ty == "subst" {
						e := c.seq([]ex{x}, func(n []string) ex { return ex{"slice_copy " + varName(m.Name) + " " + n[0], true, "subst"} })
						return c.bindTo(e, varName(m.Name), c.stmts(rest, k))
					}
				}
			}
		}
		fail("%s: statement outside the subset: %s", c.f.name, src(s))
	case *ast.IfStmt:
		if s.Init != nil {
			// if a, b := e; cond { A }   - a and b are scoped to the if statement: they get names of their own, so that
			// nothing after the statement can see them
			as, ok := s.Init.(*ast.AssignStmt)
			if !ok || as.Tok != token.DEFINE || len(as.Rhs) != 1 || s.Else != nil {
				fail("%s: if with init: %s", c.f.name, src(s))
			}
			e := c.expr(as.Rhs[0], "")
			var tys []string
			if len(as.Lhs) == 1 {
				tys = []string{e.ty}
			} else {
				if !strings.HasPrefix(e.ty, "(") {
					fail("%s: %s: a tuple is needed", c.f.name, src(as))
				}
				tys = strings.Split(e.ty[1:len(e.ty)-1], ",")
				if len(tys) != len(as.Lhs) {
					fail("%s: %s: arity", c.f.name, src(as))
				}
			}
			ic := c.clone()
			pn := make([]string, len(as.Lhs))
			for i, l := range as.Lhs {
				id, ok := l.(*ast.Ident)
				if !ok {
					fail("%s: assignment target: %s", c.f.name, src(l))
				}
				if id.Name == "_" {
					pn[i] = "_"
					continue
				}
				*c.fresh++
				ic.ren[id.Name] = fmt.Sprintf("%s_i%d", id.Name, *c.fresh)
				ic.vars[id.Name] = tys[i]
				pn[i] = ic.ren[id.Name]
			}
			p := pn[0]
			if len(pn) > 1 {
				p = "'(" + strings.Join(pn, ", ") + ")"
			}
			cond := ic.expr(s.Cond, "bool")
			if cond.ty != "bool" || !cond.pure {
				fail("%s: condition of an if with init: %s", c.f.name, src(s.Cond))
			}
			if !terminates(s.Body.List) {
				fail("%s: an if with init whose body does not return: %s", c.f.name, src(s))
			}
			body := fmt.Sprintf("if (%s) then\n%s\nelse\n%s", cond.code, ic.clone().stmts(s.Body.List, ""), c.stmts(rest, k))
			return c.bindTo(e, p, body)
		}
		cond := c.expr(s.Cond, "bool")
		if cond.ty != "bool" {
			fail("%s: condition of type %s", c.f.name, cond.ty)
		}
		var code string
		mk := func(cv string) string {
			if s.Else != nil {
				eb, ok := s.Else.(*ast.BlockStmt)
				if !ok {
					fail("%s: else-if: %s", c.f.name, src(s))
				}
				if terminates(s.Body.List) && terminates(eb.List) {
					if len(rest) != 0 {
						fail("%s: statements after an if/else that always returns", c.f.name)
					}
					return fmt.Sprintf("if %s then\n%s\nelse\n%s", cv, c.clone().stmts(s.Body.List, ""), c.clone().stmts(eb.List, ""))
				}
				fail("%s: if/else that does not return on both sides: %s", c.f.name, src(s))
			}
			if terminates(s.Body.List) {
				return fmt.Sprintf("if %s then\n%s\nelse\n%s", cv, c.clone().stmts(s.Body.List, ""), c.stmts(rest, k))
			}
			// a join on the assigned variables
			vs := assigned(c, s.Body.List)
			thn := c.clone().stmts(s.Body.List, "Ret "+c.tuple(vs))
			return fmt.Sprintf("bind (if %s then\n%s\nelse Ret %s) (fun %s =>\n%s)", cv, thn, c.tuple(vs), c.pat(vs), c.stmts(rest, k))
		}
		if cond.pure {
			code = mk("(" + cond.code + ")")
		} else {
			t := c.tmp()
			code = fmt.Sprintf("bind (%s) (fun %s =>\n%s)", cond.code, t, mk(t))
		}
		return code
	case *ast.SwitchStmt:
		// switch { case c1: A1 ... default: D }  with every case body returning = if c1 { A1 }; ...; D  (Go evaluates the case
		// expressions top to bottom and takes the first true one): rewritten to that chain, so that it is the same Coq term
		if s.Init == nil && s.Tag == nil {
			var chain []ast.Stmt
			var dflt []ast.Stmt
			ok := true
			for i, b := range s.Body.List {
				cc := b.(*ast.CaseClause)
				if cc.List == nil {
					if i != len(s.Body.List)-1 {
						ok = false
					}
					dflt = cc.Body
					continue
				}
				if len(cc.List) != 1 || !terminates(cc.Body) {
					ok = false
					break
				}
				chain = append(chain, &ast.IfStmt{Cond: cc.List[0], Body: &ast.BlockStmt{List: cc.Body}})
			}
			if ok {
				chain = append(chain, dflt...)
				return c.stmts(append(chain, rest...), k)
			}
		}
		// switch tag { case K: A ... }  every case body returns; no default: control falls to the statements after the switch
		if s.Init != nil || s.Tag == nil {
			fail("%s: switch form: %s", c.f.name, src(s))
		}
		tag := c.expr(s.Tag, "")
		// switch X { case K1: A1 ... default: D } on a number, with every case body returning = if X == K1 { A1 }; ...; D
		if tag.pure && (tag.ty == "nat" || tag.ty == "N" || tag.ty == "Z") && s.Init == nil {
			var chain []ast.Stmt
			var dflt []ast.Stmt
			ok := true
			for i, b := range s.Body.List {
				cc := b.(*ast.CaseClause)
				if cc.List == nil {
					if i != len(s.Body.List)-1 {
						ok = false
					}
					dflt = cc.Body
					continue
				}
				if len(cc.List) != 1 || !terminates(cc.Body) {
					ok = false
					break
				}
				chain = append(chain, &ast.IfStmt{Cond: &ast.BinaryExpr{X: s.Tag, Op: token.EQL, Y: cc.List[0]}, Body: &ast.BlockStmt{List: cc.Body}})
			}
			if ok {
				chain = append(chain, dflt...)
				return c.stmts(append(chain, rest...), k)
			}
		}
		if !tag.pure || tag.ty != "kind" {
			fail("%s: switch on %s", c.f.name, tag.ty)
		}
		after := c.stmts(rest, k)
		code := after
		for i := len(s.Body.List) - 1; i >= 0; i-- {
			cc := s.Body.List[i].(*ast.CaseClause)
			if cc.List == nil || len(cc.List) != 1 {
				fail("%s: case form: %s", c.f.name, src(cc))
			}
			kc := c.expr(cc.List[0], "kind")
			if kc.ty != "kind" || !kc.pure {
				fail("%s: case of type %s", c.f.name, kc.ty)
			}
			if !terminates(cc.Body) {
				fail("%s: a case that does not return: %s", c.f.name, src(cc))
			}
			code = fmt.Sprintf("if kind_eqb (%s) %s then\n%s\nelse\n%s", tag.code, kc.code, c.clone().stmts(cc.Body, ""), code)
		}
		return code
	case *ast.ForStmt:
		// for i := 0; i < len(X); i++ { BODY }  with X a variable and BODY assigning neither i nor X, no break / continue / goto:
		// the same loop as  for i, x := range X { BODY with x for X[i] }  (X[i] is only read; when BODY stores into X[i] the loop
		// stays outside the subset).  Rewritten to that form, so that it is the same Coq term.
		if r, ok := indexLoopAsRange(s); ok {
			return c.stmts(append([]ast.Stmt{r}, rest...), k)
		}
		fail("%s: statement outside the subset: %s", c.f.name, src(s))
	case *ast.RangeStmt:
		if s.Key == nil || s.Value == nil || s.Tok != token.DEFINE {
			fail("%s: range form: %s", c.f.name, src(s))
		}
		l := c.expr(s.X, "")
		elt, ok := map[string]string{"subst": "subpair", "goals": "goal", "goalss": "goals"}[l.ty]
		if !ok || !l.pure {
			fail("%s: range over %s", c.f.name, l.ty)
		}
		x := s.Value.(*ast.Ident).Name
		// which outer variables does the body assign (x = e, m[i] = e)?
		set := map[string]bool{}
		hasReturn := false
		for _, b := range s.Body.List {
			ast.Inspect(b, func(n ast.Node) bool {
				switch n := n.(type) {
				case *ast.ReturnStmt:
					hasReturn = true
				case *ast.AssignStmt:
					if n.Tok == token.ASSIGN {
						for _, lhs := range n.Lhs {
							switch t := lhs.(type) {
							case *ast.Ident:
								set[t.Name] = true
							case *ast.IndexExpr:
								if id, ok := t.X.(*ast.Ident); ok {
									set[id.Name] = true
								} else {
									fail("%s: assignment target: %s", c.f.name, src(lhs))
								}
							default:
								fail("%s: assignment target: %s", c.f.name, src(lhs))
							}
						}
					}
				}
				return true
			})
		}
		loop := c.tmp()
		tl := c.tmp()
		if len(set) == 0 {
			// for _, x := range l { body }   with early returns only: a local fixpoint whose nil case is the rest of the function
			if src(s.Key) != "_" {
				fail("%s: range form: %s", c.f.name, src(s))
			}
			after := c.stmts(rest, k)
			lc := c.clone()
			lc.vars[x] = elt
			body := lc.stmts(s.Body.List, loop+" "+tl)
			return fmt.Sprintf("(fix %s (l_ : %s) : R %s :=\nmatch l_ with\n| [] =>\n%s\n| %s :: %s =>\n%s\nend) (%s)",
				loop, coqType(l.ty), coqType(c.f.resType()), after, varName(x), tl, body, l.code)
		}
		// for i, x := range l { body }   where the body assigns outer variables and does not return: a fold carrying the
		// index and the assigned variables
		if hasReturn {
			fail("%s: a range loop that both assigns and returns: %s", c.f.name, src(s))
		}
		var vs []string
		for v := range set {
			if _, ok := c.vars[v]; !ok {
				fail("%s: assignment to an undeclared variable %s", c.f.name, v)
			}
			vs = append(vs, v)
		}
		sort.Strings(vs)
		idx := c.tmp()
		lc := c.clone()
		lc.vars[x] = elt
		if src(s.Key) != "_" {
			lc.vars[src(s.Key)] = "nat"
			lc.ren[src(s.Key)] = idx
		}
		var params, args []string
		tys := make([]string, len(vs))
		for i, v := range vs {
			params = append(params, fmt.Sprintf("(%s : %s)", c.name(v), coqType(c.vars[v])))
			args = append(args, c.name(v))
			tys[i] = coqType(c.vars[v])
		}
		rty := tys[0]
		if len(tys) > 1 {
			rty = "(" + strings.Join(tys, " * ") + ")"
		}
		body := lc.stmts(s.Body.List, fmt.Sprintf("%s (S %s) %s %s", loop, idx, tl, strings.Join(args, " ")))
		fold := fmt.Sprintf("(fix %s (%s : nat) (l_ : %s) %s : R %s :=\nmatch l_ with\n| [] => Ret %s\n| %s :: %s =>\n%s\nend) 0%%nat (%s) %s",
			loop, idx, coqType(l.ty), strings.Join(params, " "), rty, c.tuple(vs), varName(x), tl, body, l.code, strings.Join(args, " "))
		return fmt.Sprintf("bind (%s) (fun %s =>\n%s)", fold, c.pat(vs), c.stmts(rest, k))
	}
	fail("%s: statement outside the subset: %s", c.f.name, src(s))
	return ""
}

func main() {
	if len(os.Args) == 4 && os.Args[1] == "-gomini" {
		dialect, prefix = "gomini", "gm_"
		order = []string{"walk", "hasCycle", "isLeaf", "unify", "rewrite"}
		os.Args = append(os.Args[:1], os.Args[2:]...)
	}
	if len(os.Args) == 4 && os.Args[1] == "-mini" {
		dialect, prefix = "mini", "gn_"
		order = []string{"DisjPlus", "DisjPlusNoZzz", "ConjPlus", "ConjPlusNoZzz", "Conde"}
		os.Args = append(os.Args[:1], os.Args[2:]...)
	}
	if len(os.Args) == 4 && os.Args[1] == "-stream" {
		dialect, prefix = "stream", "gs_"
		order = []string{"takeStream", "Mplus", "Bind", "Disj", "Conj", "Zzz", "CallFresh"}
		os.Args = append(os.Args[:1], os.Args[2:]...)
	}
	if len(os.Args) == 4 && os.Args[1] == "-loops" {
		// the stream dialect again, over micro's stream operators plus mini/ifthenelse.go and mini/once.go; only the latter are
		// emitted (gen/LoopsGen.v imports gen/StreamGen.v for Bind)
		dialect, prefix = "stream", "gs_"
		order = []string{"takeStream", "Mplus", "Bind", "Disj", "Conj", "Zzz", "CallFresh", "ifThenElseLoop", "IfThenElseO", "onceLoop", "OnceO"}
		emitOnly = map[string]bool{"ifThenElseLoop": true, "IfThenElseO": true, "onceLoop": true, "OnceO": true}
		os.Args = append(os.Args[:1], os.Args[2:]...)
	}
	if len(os.Args) != 3 {
		fail("usage: genmicro [-gomini|-stream|-loops|-mini] <repo> <outdir>")
	}
	repo, outdir := os.Args[1], os.Args[2]
	files := []string{"micro/walk.go", "micro/exts.go", "micro/unify.go", "micro/reify.go", "micro/goal.go"}
	if dialect == "gomini" {
		files = []string{"gomini/unify.go"}
	}
	if dialect == "stream" {
		files = []string{"micro/stream.go", "micro/disj.go", "micro/conj.go", "micro/fresh.go"}
		if emitOnly != nil {
			files = append(files, "mini/ifthenelse.go", "mini/once.go")
		}
	}
	if dialect == "mini" {
		files = []string{"mini/disj.go", "mini/conj.go", "mini/conde.go"}
	}
	for _, p := range files {
		var text any
		if dialect == "stream" && strings.HasPrefix(p, "mini/") {
			// package mini names micro's types and functions with the qualifier `micro.`; the stream dialect reads them unqualified
			b, err := os.ReadFile(filepath.Join(repo, p))
			if err != nil {
				fail("%v", err)
			}
			text = strings.ReplaceAll(string(b), "micro.", "")
		}
		f, err := parser.ParseFile(fset, filepath.Join(repo, p), text, 0)
		if err != nil {
			fail("%v", err)
		}
		for _, d := range f.Decls {
			fd, ok := d.(*ast.FuncDecl)
			if !ok || fd.Recv != nil || fd.Body == nil {
				continue
			}
			want := false
			for _, n := range order {
				want = want || n == fd.Name.Name
			}
			if !want {
				continue
			}
			g := &fn{name: fd.Name.Name, decl: fd, calls: map[string]bool{}}
			for _, fl := range fd.Type.Params.List {
				for _, n := range fl.Names {
					g.params = append(g.params, [2]string{n.Name, goType(fl.Type)})
				}
			}
			if fd.Type.Results == nil {
				fail("%s: no result", g.name)
			}
			g.body, g.sig = fd.Body, src(fd.Type)
			// a goal constructor `func C(args) Goal { return func(s *State) *StreamOfStates { BODY } }` is translated as the function
			// of (args, s) with body BODY
			var lit *ast.FuncLit
			if len(fd.Body.List) == 1 && (dialect == "micro" || dialect == "stream") {
				if rs, ok := fd.Body.List[0].(*ast.ReturnStmt); ok && len(rs.Results) == 1 {
					lit, _ = rs.Results[0].(*ast.FuncLit)
				}
			}
			if lit != nil {
				if src(fd.Type.Results.List[0].Type) != "Goal" || src(lit.Type) != "func(s *State) *StreamOfStates" {
					fail("%s: curried function outside the subset: %s", g.name, src(lit.Type))
				}
				g.params = append(g.params, [2]string{"s", map[string]string{"micro": "mstate", "stream": "mstate?"}[dialect]})
				g.results = []string{"stream"}
				g.body = lit.Body
				g.sig += " { return " + src(lit.Type) + " {...} }"
			} else {
				for _, fl := range fd.Type.Results.List {
					if len(fl.Names) != 0 {
						fail("%s: named results", g.name)
					}
					g.results = append(g.results, goType(fl.Type))
				}
			}
			if _, dup := fns[g.name]; dup {
				fail("%s declared twice", g.name)
			}
			fns[g.name] = g
		}
	}
	for _, n := range order {
		if fns[n] == nil {
			fail("function %s not found", n)
		}
	}
	// call graph among the translated functions
	for _, g := range fns {
		ast.Inspect(g.body, func(n ast.Node) bool {
			switch n.(type) {
			case *ast.FuncLit:
				if dialect != "gomini" && dialect != "mini" && dialect != "stream" {
					fail("%s: closures are outside the subset", g.name)
				}
			case *ast.GoStmt, *ast.DeferStmt:
				fail("%s: go and defer are outside the subset", g.name)
			}
			if c, ok := n.(*ast.CallExpr); ok {
				if id, ok := c.Fun.(*ast.Ident); ok {
					if _, ok := fns[id.Name]; ok {
						g.calls[id.Name] = true
					}
				}
				for _, a := range c.Args { // a translated function handed on as a value (ZipReduce(x, y, s, unify))
					if id, ok := a.(*ast.Ident); ok {
						if _, ok := fns[id.Name]; ok {
							g.calls[id.Name] = true
						}
					}
				}
			}
			return true
		})
		g.rec = g.calls[g.name]
	}
	// emission order: callees first; only self-recursion is understood
	var sorted []string
	state := map[string]int{}
	var visit func(n string)
	visit = func(n string) {
		if state[n] == 2 {
			return
		}
		if state[n] == 1 {
			fail("mutual recursion through %s is outside the subset", n)
		}
		state[n] = 1
		var cs []string
		for c := range fns[n].calls {
			if c != n {
				cs = append(cs, c)
			}
		}
		sort.Strings(cs)
		for _, c := range cs {
			visit(c)
		}
		state[n] = 2
		sorted = append(sorted, n)
	}
	for _, n := range order {
		visit(n)
	}
	for _, n := range sorted {
		g := fns[n]
		g.fuelled = g.rec
		for c := range g.calls {
			if c != n && fns[c].fuelled {
				g.fuelled = true
			}
		}
	}

	var sb strings.Builder
	if dialect == "mini" {
		sb.WriteString("(* GENERATED by harness/cmd/genmicro -mini from mini/disj.go, mini/conj.go, mini/conde.go - do not edit.\n")
		sb.WriteString("   Each combinator as a function from goal lists to the goal it returns (a term of Goal.v), statement by statement, in the\n   result monad of GoLite.v; the function literals it returns are read as GDisj / GConj (the bodies of micro.Disj / micro.Conj). *)\n")
		sb.WriteString("From Coq Require Import List NArith ZArith Bool.\nFrom GMK Require Import Term Goal GoLite GoLiteM.\nImport ListNotations.\n\n")
	} else if dialect == "stream" && emitOnly != nil {
		sb.WriteString("(* GENERATED by harness/cmd/genmicro -loops from mini/ifthenelse.go, mini/once.go - do not edit.\n")
		sb.WriteString("   ifThenElseLoop, IfThenElseO, onceLoop, OnceO, statement by statement, in the result monad of GoLite.v over the stream model of\n   Stream.v (CarCdr = GoLiteS.carcdr; micro.Bind = gen/StreamGen.v's gs_Bind; the qualifier `micro.` is dropped). *)\n")
		sb.WriteString("From Coq Require Import List NArith ZArith Bool.\nFrom GMK Require Import Term Unify Goal Stream GoLite GoLiteS gen.StreamGen.\nImport ListNotations.\n\n")
	} else if dialect == "stream" {
		sb.WriteString("(* GENERATED by harness/cmd/genmicro -stream from micro/stream.go - do not edit.\n")
		sb.WriteString("   takeStream, statement by statement, in the result monad of GoLite.v over the stream model of Stream.v (CarCdr = GoLiteS.carcdr). *)\n")
		sb.WriteString("From Coq Require Import List NArith ZArith Bool.\nFrom GMK Require Import Term Unify Goal Stream GoLite GoLiteS.\nImport ListNotations.\n\n")
	} else if dialect == "gomini" {
		sb.WriteString("(* GENERATED by harness/cmd/genmicro -gomini from gomini/unify.go - do not edit.\n")
		sb.WriteString("   Each function is the Go function of the same name, statement by statement, in the result monad of GoLite.v over the\n   reflecttools value model (Reflect.v) with the primitives of GoLiteG.v. *)\n")
		sb.WriteString("From Coq Require Import List NArith ZArith Bool.\nFrom GMK Require Import Term Reflect GCore GoLite GoLiteG.\nImport ListNotations.\n\n")
	} else {
		sb.WriteString("(* GENERATED by harness/cmd/genmicro from micro/walk.go, micro/exts.go, micro/unify.go, micro/reify.go, micro/goal.go (EqualO) - do not edit.\n")
		sb.WriteString("   Each function is the Go function of the same name, statement by statement, in the result monad of GoLite.v. *)\n")
		sb.WriteString("From Coq Require Import List NArith ZArith Bool.\nFrom GMK Require Import Term Unify Stream Reify GoLite.\nImport ListNotations.\n\n")
	}
	fresh := 0
	for _, n := range sorted {
		g := fns[n]
		var w *strings.Builder = &sb
		if emitOnly != nil && !emitOnly[n] { // translated (so that the calls to it are checked) but not written
			w = &strings.Builder{}
		}
		c := &ctx{f: g, vars: map[string]string{}, ren: map[string]string{}, fresh: &fresh, cdrOf: map[string]string{}}
		var ps []string
		for _, p := range g.params {
			c.vars[p[0]] = p[1]
			ps = append(ps, fmt.Sprintf("(%s : %s)", varName(p[0]), coqType(p[1])))
		}
		sig := strings.Join(ps, " ")
		if dialect == "stream" {
			sig = "(ds : defs) (uf : term -> term -> subst -> nat) " + sig
		}
		rt := "R " + coqType(g.resType())
		fmt.Fprintf(w, "(* %s *)\n", strings.ReplaceAll(strings.ReplaceAll(g.sig, "(*", "( *"), "*)", "* )"))
		switch {
		case g.rec:
			c.fuel = "f'"
			body := c.stmts(g.body.List, "")
			fmt.Fprintf(w, "Fixpoint %s%s (f : nat) %s {struct f} : %s :=\nmatch f with\n| O => OOF_\n| S f' =>\n%s\nend.\n\n", prefix, n, sig, rt, body)
		case g.fuelled:
			c.fuel = "f"
			body := c.stmts(g.body.List, "")
			fmt.Fprintf(w, "Definition %s%s (f : nat) %s : %s :=\n%s.\n\n", prefix, n, sig, rt, body)
		default:
			c.fuel = "NOFUEL"
			body := c.stmts(g.body.List, "")
			fmt.Fprintf(w, "Definition %s%s %s : %s :=\n%s.\n\n", prefix, n, sig, rt, body)
		}
	}
	out := filepath.Join(outdir, "MicroGen.v")
	if dialect == "gomini" {
		out = filepath.Join(outdir, "GominiGen.v")
	}
	if dialect == "stream" {
		out = filepath.Join(outdir, "StreamGen.v")
		if emitOnly != nil {
			out = filepath.Join(outdir, "LoopsGen.v")
		}
	}
	if dialect == "mini" {
		out = filepath.Join(outdir, "MiniGen.v")
	}
	text := sb.String()
	if old, err := os.ReadFile(out); err == nil && string(old) == text {
		return
	}
	if err := os.WriteFile(out, []byte(text), 0o644); err != nil {
		fail("%v", err)
	}
}
