// Command srcpin prints a content hash of source files that is insensitive to comments and formatting: Go files are
// parsed and re-printed without comments before hashing, other files are hashed as they are.
// usage: srcpin <repo> <relative file>...   -> one line "<sha1> <file>" per file ("missing" if the file does not exist)
package main

import (
	"bytes"
	"crypto/sha1"
	"fmt"
	"go/parser"
	"go/printer"
	"go/token"
	"os"
	"path/filepath"
	"strings"
)

func main() {
	if len(os.Args) < 2 {
		fmt.Fprintln(os.Stderr, "usage: srcpin <repo> <file>...")
		os.Exit(2)
	}
	repo := os.Args[1]
	for _, f := range os.Args[2:] {
		p := filepath.Join(repo, f)
		b, err := os.ReadFile(p)
		if err != nil {
			fmt.Printf("missing %s\n", f)
			continue
		}
		if strings.HasSuffix(f, ".go") {
			fset := token.NewFileSet()
			af, err := parser.ParseFile(fset, p, b, 0) // comments dropped
			if err == nil {
				var buf bytes.Buffer
				if printer.Fprint(&buf, fset, af) == nil {
					b = buf.Bytes()
				}
			}
		}
		fmt.Printf("%x %s\n", sha1.Sum(b), f)
	}
}
