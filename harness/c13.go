package main

// C13 / C19: the library relations (mini.AppendO/MemberO/MapO/NullO/ConsO/CarO, peano.Natplus/Leq/Half/Succ), called through
// their real Go functions in every argument mode, against the bodies that genrels translates from the Go source,
// and against direct list / arithmetic oracles.

import (
	"fmt"
	"math/rand"
	"strconv"
	"strings"

	"github.com/awalterschulze/gominikanren/example/peano"
	"github.com/awalterschulze/gominikanren/micro"
	"github.com/awalterschulze/gominikanren/mini"
	"github.com/awalterschulze/gominikanren/sexpr/ast"
)

func init() {
	register("C13", func(cfg *Config) *Report {
		if cfg.Mode == "unrolled" {
			return runUnrolled(cfg)
		}
		if cfg.Mode == "concato" {
			return runConcatoModes(cfg)
		}
		return runProgs(cfg, "C13")
	})
	register("C19", func(cfg *Config) *Report { return runProgs(cfg, "C19") })
}

// list elements; the last three look like earlier ones in print but are atoms of another kind (a string, a symbol, a float)
var listElems = []*ast.SExpr{ast.NewSymbol("a"), ast.NewSymbol("b"), ast.NewInt(1), ast.NewString("a"), ast.NewSymbol("1"), ast.NewFloat(1)}

// modeArg generates an argument that is ground, partial or unbound; unbound positions are query variables.
func listArg(r *rand.Rand, nq int) *PT {
	switch r.Intn(5) {
	case 0:
		return ptB(r.Intn(nq)) // unbound
	case 1: // partial: some elements and/or the tail are variables
		n := r.Intn(4)
		var t *PT = ptNil()
		if r.Intn(2) == 0 {
			t = ptB(r.Intn(nq))
		}
		for i := 0; i < n; i++ {
			var e *PT
			if r.Intn(3) == 0 {
				e = ptB(r.Intn(nq))
			} else {
				e = ptAtom(pick(r, listElems))
			}
			t = ptPair(e, t)
		}
		return t
	default: // ground proper list with repeats
		n := r.Intn(5)
		var t *PT = ptNil()
		for i := 0; i < n; i++ {
			t = ptPair(ptAtom(pick(r, listElems)), t)
		}
		return t
	}
}

func groundElems(r *rand.Rand, n int) []*PT {
	out := make([]*PT, n)
	for i := range out {
		out[i] = ptAtom(pick(r, listElems))
	}
	return out
}

// abstractList turns a ground list into a ground, partial or unbound argument.
func abstractList(r *rand.Rand, xs []*PT, nq int) *PT {
	if r.Intn(10) == 0 {
		// an improper list: the spine ends in an atom other than () - no list relation holds of it
		t := ptAtom(pick(r, listElems))
		for i := len(xs) - 1; i >= 0; i-- {
			t = ptPair(xs[i], t)
		}
		return t
	}
	switch r.Intn(4) {
	case 0:
		return ptB(r.Intn(nq))
	case 1:
		k := r.Intn(len(xs) + 1)
		t := ptB(r.Intn(nq))
		for i := k - 1; i >= 0; i-- {
			t = ptPair(xs[i], t)
		}
		return t
	case 2:
		ys := make([]*PT, len(xs))
		for i, x := range xs {
			ys[i] = x
			if r.Intn(3) == 0 {
				ys[i] = ptB(r.Intn(nq))
			}
		}
		return ptList(ys...)
	}
	return ptList(xs...)
}

func elemArg(r *rand.Rand, nq int) *PT {
	if r.Intn(3) == 0 {
		return ptB(r.Intn(nq))
	}
	return ptAtom(pick(r, listElems))
}

func natPT(n int) *PT {
	t := ptAtom(ast.NewInt(0))
	for i := 0; i < n; i++ {
		t = ptPair(t, ptNil())
	}
	return t
}

func natArg(r *rand.Rand, nq int) *PT {
	switch r.Intn(5) {
	case 0, 1:
		return ptB(r.Intn(nq))
	case 2: // partial numeral: k successors of a variable
		t := ptB(r.Intn(nq))
		for i := r.Intn(3); i > 0; i-- {
			t = ptPair(t, ptNil())
		}
		return t
	default:
		return natPT(r.Intn(7))
	}
}

// goList converts a resolved proper list printed by showTerm back into its elements ("(a . (b . ()))"), ok=false otherwise.
func parseShown(s string) (*ast.SExpr, bool) {
	p := &shownParser{s: s}
	t, ok := p.term()
	return t, ok && p.i == len(p.s)
}

type shownParser struct {
	s string
	i int
}

func (p *shownParser) term() (*ast.SExpr, bool) {
	if strings.HasPrefix(p.s[p.i:], "()") {
		p.i += 2
		return nil, true
	}
	if p.i < len(p.s) && p.s[p.i] == '(' {
		p.i++
		a, ok := p.term()
		if !ok || !strings.HasPrefix(p.s[p.i:], " . ") {
			return nil, false
		}
		p.i += 3
		d, ok := p.term()
		if !ok || p.i >= len(p.s) || p.s[p.i] != ')' {
			return nil, false
		}
		p.i++
		return ast.Cons(a, d), true
	}
	j := p.i
	for j < len(p.s) && p.s[j] != ' ' && p.s[j] != ')' {
		j++
	}
	tok := p.s[p.i:j]
	p.i = j
	if strings.HasPrefix(tok, "?") {
		k, err := strconv.ParseUint(tok[1:], 10, 64)
		if err != nil {
			return nil, false
		}
		return micro.Var(k), true
	}
	if n, err := strconv.ParseInt(tok, 10, 64); err == nil {
		return ast.NewInt(n), true
	}
	return ast.NewSymbol(tok), tok != ""
}

// natOf reads a numeral, instantiating every unbound variable by the natural inst; ok=false if not a numeral.
func natOf(t *ast.SExpr, inst int) (int, bool) {
	n := 0
	for {
		if isVar(t) {
			return n + inst, true
		}
		if t != nil && t.Atom != nil && t.Atom.Int != nil && *t.Atom.Int == 0 {
			return n, true
		}
		if t == nil || t.Pair == nil || t.Pair.Cdr != nil {
			return 0, false
		}
		t = t.Pair.Car
		n++
	}
}

func properList(t *ast.SExpr) ([]string, bool) {
	out := []string{}
	for t != nil {
		if t.Pair == nil {
			return nil, false
		}
		out = append(out, showTerm(t.Pair.Car))
		t = t.Pair.Cdr
	}
	return out, true
}

func genLibCases(cfg *Config, unit string) []progCase {
	r := newRand(cfg.Seed)
	cases := []progCase{}
	add := func(g *G, nq int, kind, ds string, chk func(c progCase, o *ProgObs) []string) {
		cases = append(cases, progCase{G: g, NQ: nq, Budget: 25 + r.Intn(35), Kind: kind, DS: ds, Check: chk})
	}
	if unit == "mini" {
		// the canonical split mode: (appendo l t out) with out ground of length n has exactly the n+1 splits
		for n := 0; n <= 4; n++ {
			elems := make([]*PT, n)
			want := make([]string, n)
			for i := range elems {
				e := listElems[(i*i+n)%3]
				elems[i] = ptAtom(e)
				want[i] = showTerm(e)
			}
			nn := n
			add(gLib("AppendO", "", ptB(1), ptB(0), ptList(elems...)), 2, "append-splits", "(mini_defs "+coqFcall("eq")+")",
				func(c progCase, o *ProgObs) []string {
					if !o.Closed || len(o.Resolved) != nn+1 {
						return []string{fmt.Sprintf("splitting a list of length %d gave %d answers (closed=%v), expected exactly %d", nn, len(o.Resolved), o.Closed, nn+1)}
					}
					seen := map[int]bool{}
					for _, res := range o.Resolved {
						l, ok1 := parseShown(res[0])
						t, ok2 := parseShown(res[1])
						ll, ok3 := properList(l)
						tl, ok4 := properList(t)
						if !(ok1 && ok2 && ok3 && ok4) || strings.Join(append(ll, tl...), ",") != strings.Join(want, ",") {
							return []string{fmt.Sprintf("answer l=%s t=%s is not a split of %v", res[0], res[1], want)}
						}
						seen[len(ll)] = true
					}
					if len(seen) != nn+1 {
						return []string{"a split is missing or duplicated"}
					}
					return nil
				})
		}
	}
	for len(cases) < cfg.N {
		nq := 1 + r.Intn(3)
		var g *G
		kind := ""
		ds := ""
		var chk func(c progCase, o *ProgObs) []string
		if unit == "mini" {
			f := pick(r, []string{"eq", "succ", "tab"})
			ds = "(mini_defs " + coqFcall(f) + ")"
			switch r.Intn(9) {
			case 0, 1, 2:
				if r.Intn(2) == 0 {
					g = gLib("AppendO", "", listArg(r, nq), listArg(r, nq), listArg(r, nq))
				} else {
					// a consistent triple, then some arguments (or elements) abstracted to variables
					xs, ys := groundElems(r, r.Intn(4)), groundElems(r, r.Intn(4))
					g = gLib("AppendO", "", abstractList(r, xs, nq), abstractList(r, ys, nq), abstractList(r, append(append([]*PT{}, xs...), ys...), nq))
				}
			case 3, 4:
				if r.Intn(2) == 0 {
					g = gLib("MemberO", "", elemArg(r, nq), listArg(r, nq))
				} else {
					xs := groundElems(r, 1+r.Intn(4))
					g = gLib("MemberO", "", pick(r, []*PT{xs[r.Intn(len(xs))], ptB(r.Intn(nq))}), abstractList(r, xs, nq))
				}
			case 5, 6:
				g = gLib("MapO", f, listArg(r, nq), listArg(r, nq))
			case 7:
				switch r.Intn(3) {
				case 0:
					g = gLib("NullO", "", listArg(r, nq))
				case 1:
					g = gLib("ConsO", "", elemArg(r, nq), listArg(r, nq), listArg(r, nq))
				default:
					g = gLib("CarO", "", listArg(r, nq), elemArg(r, nq))
				}
			default: // two relations sharing variables
				g = gConj(gLib("AppendO", "", ptB(0), listArg(r, nq), listArg(r, nq)), gLib("MemberO", "", elemArg(r, nq), ptB(0)))
			}
			kind = strings.SplitN(strings.TrimPrefix(g.show(), "("), " ", 2)[0]
		} else {
			ds = "peano_defs"
			a, b, c := natArg(r, nq), natArg(r, nq), natArg(r, nq)
			switch r.Intn(7) {
			case 0, 1, 2:
				g = gLib("Natplus", "", a, b, c)
				chk = peanoCheck(func(v []int) bool { return v[0]+v[1] == v[2] }, []*PT{a, b, c})
			case 3, 4:
				g = gLib("Leq", "", a, b)
				chk = peanoCheck(func(v []int) bool { return v[0] <= v[1] }, []*PT{a, b})
			case 5:
				g = gLib("Half", "", a, b)
				chk = peanoCheck(func(v []int) bool { return v[1] == v[0]/2 }, []*PT{a, b})
			default:
				g = gLib("Succ", "", a, b)
				chk = peanoCheck(func(v []int) bool { return v[1] == v[0]+1 }, []*PT{a, b})
			}
			kind = strings.SplitN(strings.TrimPrefix(g.show(), "("), " ", 2)[0]
		}
		add(g, nq, kind, ds, chk)
	}
	return cases[:cfg.N]
}

// peanoCheck: every instantiation of an answer by naturals satisfies the arithmetic relation (when the arguments
// denote numerals under the answer), for unbound variables instantiated by 0, 1 and 2.
func peanoCheck(holds func(v []int) bool, args []*PT) func(c progCase, o *ProgObs) []string {
	return func(c progCase, o *ProgObs) []string {
		for _, res := range o.Resolved {
			// rebuild the query environment under this answer
			env := make([]*ast.SExpr, c.NQ)
			for i := 0; i < c.NQ; i++ {
				t, ok := parseShown(res[c.NQ-1-i])
				if !ok {
					return []string{"cannot read resolved answer " + res[c.NQ-1-i]}
				}
				env[i] = t
			}
			for inst := 0; inst <= 2; inst++ {
				vals := make([]int, len(args))
				okAll := true
				for k, a := range args {
					// substitute the answer into the argument
					t := substVars(a.close(queryEnv(c.NQ)), env, c.NQ)
					n, ok := natOf(t, inst)
					if !ok {
						okAll = false
						break
					}
					vals[k] = n
				}
				if !okAll {
					return []string{fmt.Sprintf("answer %v does not instantiate the arguments to numerals", res)}
				}
				if !holds(vals) {
					return []string{fmt.Sprintf("answer %v instantiated with %d gives the tuple %v, which does not satisfy the relation", res, inst, vals)}
				}
			}
		}
		return nil
	}
}

// substVars replaces query variable i by its resolved value env[nq-1-i].
func substVars(t *ast.SExpr, env []*ast.SExpr, nq int) *ast.SExpr {
	if t == nil {
		return nil
	}
	if t.Pair != nil {
		return ast.Cons(substVars(t.Pair.Car, env, nq), substVars(t.Pair.Cdr, env, nq))
	}
	if isVar(t) && int(t.Atom.Var.Index) < nq {
		return env[nq-1-int(t.Atom.Var.Index)]
	}
	return t
}

var _ = peano.Zero
var _ = mini.NullO
