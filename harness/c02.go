package main

// C02 / C03 / C09: goal programs run with the real micro/mini combinators; cell traces against coq/Stream.v;
// direct oracles against an independent depth-bounded reference search.

import (
	"encoding/json"
	"fmt"
	"sort"
	"strings"
	"time"

	"github.com/awalterschulze/gominikanren/micro"
	"github.com/awalterschulze/gominikanren/sexpr/ast"
)

func init() {
	register("C02", func(cfg *Config) *Report { return runProgs(cfg, "C02") })
	register("C03", func(cfg *Config) *Report { return runProgs(cfg, "C03") })
	register("C09", func(cfg *Config) *Report { return runProgs(cfg, "C09") })
}

type progCase struct {
	G      *G
	NQ     int
	Budget int
	Kind   string
	Lib    bool   // nevero / alwayso are the library's own micro.NeverO / micro.AlwaysO instead of the harness's relations of the same shape
	DS     string                                   // Coq expression of the relation table ("" = hdefs)
	Check  func(c progCase, o *ProgObs) []string    // extra direct oracle on the observation (runs in the parent)
}

// ProgObs is what a worker observes of one program.
type ProgObs struct {
	Coq     []string `json:"coq"`
	Show    []string `json:"show"`
	Closed  bool     `json:"closed"`
	Answers []string `json:"answers"` // reified query vector per answer, in stream order
	Extends bool     `json:"extends"`
	Resolved [][]string `json:"resolved"` // per answer: each query variable fully resolved, printed with showTerm
	Notes   []string `json:"notes"` // oracle failures detected in the worker (prefix, determinism, expansions)
}

func queryEnv(nq int) []*ast.SExpr {
	env := make([]*ast.SExpr, nq)
	for i := 0; i < nq; i++ {
		env[i] = micro.Var(uint64(nq - 1 - i))
	}
	return env
}

func queryVec(nq int) *ast.SExpr {
	var q *ast.SExpr
	for i := nq - 1; i >= 0; i-- {
		q = ast.Cons(micro.Var(uint64(i)), q)
	}
	return q
}

// hand-written shapes that every run includes: finite / infinite / silent branches in every position
func fixedProgs() []*G {
	q := ptB(0)
	eq := func(a *ast.SExpr) *G { return gEq(q, ptAtom(a)) }
	a, b := ast.NewSymbol("a"), ast.NewSymbol("b")
	never, always := gCall(0), gCall(1)
	fives, sixes := gCall(2, q), gCall(3, q)
	out := []*G{
		gDisj(fives, sixes), gDisj(never, eq(a)), gDisj(eq(a), never), gDisj(never, gDisj(never, eq(a))),
		gDisj(gDisj(never, never), eq(a)), gDisj(always, eq(a)), gDisj(fives, gDisj(never, sixes)),
		gConj(always, eq(a)), gConj(eq(a), always), gConj(gDisj(eq(a), eq(b)), gDisj(eq(a), eq(b))),
		gConj(gDisj(never, eq(a)), gDisj(eq(a), never)), gConj(always, gFail()), gConj(gFail(), always),
		gCall(9), gZzz(gCall(9)), gCall(6, q), gCall(11, q), gDisj(gCall(11, q), eq(a)),
		gFresh(gFresh(gCall(5, ptB(1), ptB(0), ptList(ptAtom(a), ptAtom(b))))),                 // appendo x y (a b)
		gFresh(gConj(gCall(5, ptB(0), ptList(ptAtom(a)), ptB(1)), gEq(ptB(0), ptB(0)))),            // appendo x (a) q : recursion bounded by laziness only
		gFresh(gCall(5, ptB(0), ptList(ptAtom(a)), ptB(1))),
		gCall(10, ptAtom(a), q),                                                                   // membero a q : infinitely many answers
		gCall(10, q, ptList(ptAtom(a), ptAtom(b), ptAtom(a))),
		gCall(4, q), gCall(7, q), gCall(8, q),
		gConj(gCall(4, q), gCall(10, ptAtom(a), q)),
		gFresh(gConj(gEq(ptB(0), ptB(1)), gConj(gEq(ptB(0), ptAtom(a)), gEq(ptB(1), ptAtom(b))))), // x==q, x==a, q==b : contradictory
		gFresh(gFresh(gConj(gEq(ptB(0), ptB(1)), gConj(gEq(ptB(0), ptAtom(a)), gEq(ptB(2), ptPair(ptB(0), ptB(1))))))),
		gConjPlus(true), gConjPlus(false), gDisjPlus(true), gDisjPlus(false),
		gConjPlus(true, eq(a)), gDisjPlus(true, eq(a)), gConjPlus(false, eq(a)), gDisjPlus(false, eq(a)),
		gConjPlus(true, always, eq(a), eq(a)), gDisjPlus(true, never, fives, eq(a), sixes),
		gDisjPlus(false, fives, sixes, eq(a)), gConjPlus(false, gDisj(eq(a), eq(b)), always, eq(a)),
		gConde([]*G{never}, []*G{eq(a), always}, []*G{}, []*G{eq(b)}), gConde(),
		gIfte(eq(a), eq(a), eq(b)), gIfte(gFail(), eq(a), eq(b)), gIfte(gDisj(eq(a), eq(b)), gSucc(), eq(b)),
		gIfte(never, eq(a), eq(b)), gIfte(gDisj(never, eq(a)), fives, eq(b)), gIfte(gCall(11, q), eq(a), eq(b)),
		gIfte(always, eq(a), eq(b)), gIfte(gConj(always, gFail()), eq(a), eq(b)),
		gOnce(fives), gOnce(gDisj(never, eq(a))), gOnce(gFail()), gOnce(never), gOnce(gDisj(eq(a), eq(b))), gOnce(always),
		gOnce(gCall(11, q)), gDisj(gOnce(fives), gOnce(sixes)),
	}
	return out
}

func genProgCases(cfg *Config, flavour string) []progCase {
	r := newRand(cfg.Seed)
	cases := []progCase{}
	for _, g := range fixedProgs() {
		cases = append(cases, progCase{G: g, NQ: 1, Budget: 40, Kind: "fixed"})
	}
	for _, g := range fixedProgs() {
		if strings.Contains(g.show(), "(nevero") || strings.Contains(g.show(), "(alwayso") {
			cases = append(cases, progCase{G: g, NQ: 1, Budget: 40, Kind: "fixed", Lib: true})
		}
	}
	pg := &progGen{r: r, allowNon: flavour != "C03", rels: []int{0, 1, 2, 3, 4, 5, 6, 7, 8, 9, 10, 11}}
	for len(cases) < cfg.N {
		nq := 1 + r.Intn(2)
		var g *G
		kind := "random"
		switch {
		case flavour == "C09" && r.Intn(3) != 0:
			// n-ary combinator at the root with arguments of every kind in every position
			n := r.Intn(5)
			args := make([]*G, n)
			for i := range args {
				switch r.Intn(6) {
				case 0:
					args[i] = gFail()
				case 1:
					args[i] = gCall(0)
				case 2:
					args[i] = gCall(1)
				case 3:
					args[i] = gCall(2+r.Intn(2), ptB(r.Intn(nq)))
				default:
					args[i] = pg.goal(1+r.Intn(3), nq)
				}
			}
			switch r.Intn(5) {
			case 0:
				g = gConjPlus(r.Intn(2) == 0, args...)
			case 1:
				g = gDisjPlus(r.Intn(2) == 0, args...)
			case 2:
				gss := [][]*G{}
				for len(args) > 0 {
					k := r.Intn(len(args) + 1)
					gss = append(gss, args[:k])
					args = args[k:]
					if r.Intn(3) == 0 {
						gss = append(gss, []*G{})
					}
				}
				g = gConde(gss...)
			case 3:
				for len(args) < 3 {
					args = append(args, pg.goal(2, nq))
				}
				g = gIfte(args[0], args[1], args[2])
			default:
				for len(args) < 1 {
					args = append(args, pg.goal(2, nq))
				}
				g = gOnce(args[0])
			}
			kind = "nary"
		default:
			g = pg.goal(2+r.Intn(9), nq)
		}
		cases = append(cases, progCase{G: g, NQ: nq, Budget: 30 + r.Intn(30), Kind: kind, Lib: len(cases)%2 == 1})
	}
	return cases[:cfg.N]
}

// expandMacro rewrites conj+/disj+/conde into the nested binary form their Scheme macro definitions give
// (with Zzz placed as the macro places it).
func expandMacro(g *G) *G {
	cp := *g
	cp.Gs = make([]*G, len(g.Gs))
	for i, h := range g.Gs {
		cp.Gs[i] = expandMacro(h)
	}
	switch g.K {
	case "conjplus", "disjplus":
		wrap := func(h *G) *G {
			if g.Z {
				return gZzz(h)
			}
			return h
		}
		if len(cp.Gs) == 0 {
			if g.K == "conjplus" {
				return gSucc()
			}
			return gFail()
		}
		acc := wrap(cp.Gs[len(cp.Gs)-1])
		for i := len(cp.Gs) - 2; i >= 0; i-- {
			if g.K == "conjplus" {
				acc = gConj(wrap(cp.Gs[i]), acc)
			} else {
				acc = gDisj(wrap(cp.Gs[i]), acc)
			}
		}
		return acc
	case "conde":
		cj := make([]*G, len(g.Gss))
		for i, gs := range g.Gss {
			cj[i] = gConjPlus(true, gs...)
		}
		return expandMacro(gDisjPlus(true, cj...))
	}
	return &cp
}

func observeProg(c progCase) *ProgObs {
	env := queryEnv(c.NQ)
	st0 := &micro.State{Substitutions: nil, Counter: uint64(c.NQ)}
	libGoals = c.Lib
	goal := build(c.G, env)
	tr := observeTrace(goal(st0), c.Budget)
	o := &ProgObs{Coq: tr.Coq, Show: tr.Show, Closed: tr.Closed, Extends: true}
	q := queryVec(c.NQ)
	for _, st := range tr.States {
		o.Answers = append(o.Answers, canonVecTerm(micro.VerifWalkStar(q, st.Substitutions)))
		res := make([]string, c.NQ)
		for i := 0; i < c.NQ; i++ {
			res[i] = showTerm(micro.VerifWalkStar(micro.Var(uint64(i)), st.Substitutions))
		}
		o.Resolved = append(o.Resolved, res)
		// the library's own reifier (what micro.Run hands to the user) on this answer: the resolved query variable with the k-th
		// distinct unbound variable, left to right, named _k - the same variable always the same name
		for i := 0; i < c.NQ; i++ {
			got := micro.ReifyIntVarFromState(uint64(i))(st)
			if want := firstOccNames(micro.VerifWalkStar(micro.Var(uint64(i)), st.Substitutions)); !want.Equal(got) {
				o.Notes = append(o.Notes, fmt.Sprintf("reified answer %d, query variable %d: %s, but the resolved value is %s (expected %s)", len(o.Resolved)-1, i, got.String(), res[i], want.String()))
			}
		}
		// ... and on the whole query vector at once (a fresh variable bound to it): names are shared between the variables
		stv := &micro.State{Substitutions: append(append(micro.Substitutions{}, st.Substitutions...), micro.SubPair{Key: st.Counter, Value: q}), Counter: st.Counter + 1}
		if got, want := micro.ReifyIntVarFromState(st.Counter)(stv), firstOccNames(micro.VerifWalkStar(q, st.Substitutions)); !want.Equal(got) {
			o.Notes = append(o.Notes, fmt.Sprintf("reified answer %d: the query vector reifies as %s, expected %s", len(o.Resolved)-1, got.String(), want.String()))
		}
		if st.Counter < st0.Counter {
			o.Extends = false
		}
	}
	// determinism: a second run yields the same trace
	tr2 := observeTrace(build(c.G, env)(st0), c.Budget)
	if strings.Join(tr2.Show, " ") != strings.Join(tr.Show, " ") {
		o.Notes = append(o.Notes, "nondeterministic: second run gives "+strings.Join(tr2.Show, " "))
	}
	// re-traversal of the already forced stream yields the same sequence (memoised cells)
	// prefix / exact-n / all-for-negative-n on takeStream
	total := len(tr.States)
	maxn := total
	if maxn > 4 {
		maxn = 4
	}
	var prev []string
	for n := 0; n <= maxn; n++ {
		got := micro.VerifTakeStream(n, build(c.G, env)(st0))
		cur := make([]string, len(got))
		for i, st := range got {
			cur[i] = canonVecTerm(micro.VerifWalkStar(q, st.Substitutions))
		}
		want := n
		if len(cur) != want {
			o.Notes = append(o.Notes, fmt.Sprintf("take(%d) returned %d states although %d exist", n, len(cur), total))
		}
		for i := range prev {
			if i < len(cur) && prev[i] != cur[i] {
				o.Notes = append(o.Notes, fmt.Sprintf("take(%d) is not a prefix of take(%d)", n-1, n))
			}
		}
		for i := range cur {
			if i < len(o.Answers) && cur[i] != o.Answers[i] {
				o.Notes = append(o.Notes, fmt.Sprintf("take(%d)[%d] differs from the stream's answer %d", n, i, i))
			}
		}
		prev = cur
	}
	if tr.Closed {
		for _, n := range []int{-1, -2, -7, -1 << 40, total + 3} { // every negative n means "all"
			got := micro.VerifTakeStream(n, build(c.G, env)(st0))
			if len(got) != total {
				o.Notes = append(o.Notes, fmt.Sprintf("take(%d) returned %d of the %d answers of a finite search", n, len(got), total))
			}
		}
	}
	// the n-ary forms are, by definition, their macro expansions: identical cell traces
	ex := expandMacro(c.G)
	if ex.show() != c.G.show() {
		tr3 := observeTrace(build(ex, env)(st0), c.Budget)
		if strings.Join(tr3.Show, " ") != strings.Join(tr.Show, " ") {
			o.Notes = append(o.Notes, "differs from its nested binary expansion "+ex.show()+": "+strings.Join(tr3.Show, " "))
		}
	}
	return o
}

func runProgs(cfg *Config, flavour string) *Report {
	var cases []progCase
	switch flavour {
	case "C13":
		cases = genLibCases(cfg, "mini")
	case "C19":
		cases = genLibCases(cfg, "peano")
	default:
		cases = genProgCases(cfg, flavour)
	}
	obsFn := func(i int) string {
		b, _ := json.Marshal(observeProg(cases[i]))
		return string(b)
	}
	if lo, hi, ok := workerRange(cfg); ok {
		runWorker(lo, hi, obsFn)
	}
	rep := newReport()
	rep.Rule = "fixed shapes (finite/infinite/silent branches in every position, contradictory constraints, recursion bounded only by laziness) + random goal programs of size 2..10 over 12 guarded recursive relations, 1-2 query variables; observed: cell trace under a force budget, take(n) for n=0..4,-1, second run, macro expansion; non-trivial = the trace contains at least one suspension and one answer, or the program calls a recursive relation; distinct by printed program"
	cf := newCaseFile("From Coq Require Import List NArith ZArith.\nFrom GMK Require Import Term Unify Goal Stream CorrBase Corr01 Corr02.\nFrom GMK.gen Require Import RelMini RelPeano.", "caseP", "checkP")
	cf.b.WriteString(coqRelLib())
	if cfg.Only < 0 && (flavour == "C03" || flavour == "C19") {
		directedTake(rep, flavour)
	}
	if cfg.Only < 0 && (flavour == "C13" || flavour == "C19") {
		directedMini(rep)
	}
	iso := isolate(flavour, cfg, len(cases), 40, 300*time.Millisecond)
	for i, c := range cases {
		desc := fmt.Sprintf("run %s with %d query variable(s), force budget %d", c.G.show(), c.NQ, c.Budget)
		if c.Lib {
			desc += " (nevero / alwayso = micro.NeverO / micro.AlwaysO)"
			rep.hist("library NeverO/AlwaysO")
		}
		if cfg.Only >= 0 && cfg.Only != i {
			cf.add("CaseP hdefs GFail 0 0 [ONil]")
			rep.CaseDesc = append(rep.CaseDesc, "")
			rep.CaseObs = append(rep.CaseObs, "")
			continue
		}
		rep.Evaluations++
		rep.hist("kind=" + c.Kind)
		var o ProgObs
		if reason, div := iso.Diverged[i]; div {
			if strings.HasPrefix(reason, "skipped") {
				cf.add("CaseP hdefs GFail 0 0 [ONil]")
				rep.CaseDesc = append(rep.CaseDesc, desc)
				rep.CaseObs = append(rep.CaseObs, reason)
				rep.hist("skipped")
				continue
			}
			cf.add(fmt.Sprintf("CaseP %s %s %d %d [ODiverge]", dsOf(c), c.G.coq(), c.NQ, c.Budget))
			rep.CaseDesc = append(rep.CaseDesc, desc)
			rep.CaseObs = append(rep.CaseObs, "the implementation does not return: "+reason)
			rep.hist("diverged")
			// direct oracle: the reference search finds an answer at small depth, so a fair search must produce a first cell
			rs := &refSearch{maxNodes: 20000, relational: true}
			ans := rs.solve(c.G, queryEnv(c.NQ), refState{refSubst{}, uint64(c.NQ)}, 6)
			rep.violate(i, "diverges", desc, fmt.Sprintf("the implementation does not return (%s) while stepping the stream within the force budget; reference search finds %d answer(s) at call depth <= 6", reason, len(ans)))
			continue
		}
		if err := json.Unmarshal([]byte(iso.Obs[i]), &o); err != nil {
			rep.violate(i, "no-observation", desc, "worker produced no observation")
			cf.add("CaseP hdefs GFail 0 0 [ONil]")
			rep.CaseDesc = append(rep.CaseDesc, desc)
			rep.CaseObs = append(rep.CaseObs, "")
			continue
		}
		cf.add(fmt.Sprintf("CaseP %s %s %d %d %s", dsOf(c), c.G.coq(), c.NQ, c.Budget, coqList(o.Coq)))
		if c.Check != nil {
			for _, n := range c.Check(c, &o) {
				rep.violate(i, "relation-spec", desc, n+"; trace "+strings.Join(o.Show, " "))
			}
		}
		obs := strings.Join(o.Show, " ")
		rep.CaseDesc = append(rep.CaseDesc, desc)
		rep.CaseObs = append(rep.CaseObs, obs)
		rep.sample(desc + " => " + obs)
		hasS, hasA := false, len(o.Answers) > 0
		for _, s := range o.Show {
			if s == "S" {
				hasS = true
			}
		}
		if hasS && hasA || strings.Contains(c.G.show(), "o ") || strings.Contains(c.G.show(), "(fives") || c.DS != "" {
			rep.nontrivial(c.G.show())
		}
		rep.hist(fmt.Sprintf("answers=%d", min(len(o.Answers), 5)))
		if o.Closed {
			rep.hist("finite")
		} else {
			rep.hist("budget")
		}
		for _, n := range o.Notes {
			rep.violate(i, "law", desc, n)
		}
		if !o.Extends {
			rep.violate(i, "counter-decreased", desc, obs)
		}
		// reference search (independent): soundness / completeness on the implementation's own answers
		rs := &refSearch{maxNodes: 60000, relational: true}
		ref := rs.solve(c.G, queryEnv(c.NQ), refState{refSubst{}, uint64(c.NQ)}, 14)
		refSet := map[string]int{}
		for _, a := range ref {
			refSet[reifyRef(queryVec(c.NQ), a.s)]++
		}
		hasOnce := strings.Contains(c.G.show(), "(once")
		if !rs.truncated && !hasOnce {
			for k, a := range o.Answers {
				if refSet[a] == 0 {
					rep.violate(i, "unsound-answer", desc, fmt.Sprintf("answer %d = %s is not an answer of the formula (exhaustive reference search: %v); trace %s", k, a, keysOf(refSet), obs))
					break
				}
			}
			if o.Closed {
				got := map[string]int{}
				for _, a := range o.Answers {
					got[a]++
				}
				if fmt.Sprint(sortedCounts(got)) != fmt.Sprint(sortedCounts(refSet)) {
					rep.violate(i, "answer-multiset", desc, fmt.Sprintf("finite search returned %v, the formula has %v", sortedCounts(got), sortedCounts(refSet)))
				}
			}
			if len(ref) == 0 && len(o.Answers) > 0 {
				rep.violate(i, "answer-to-unsatisfiable", desc, obs)
			}
		}
	}
	cf.write(cfg.Out)
	return rep
}

func dsOf(c progCase) string {
	if c.DS == "" {
		return "hdefs"
	}
	return c.DS
}

func keysOf(m map[string]int) []string {
	ks := []string{}
	for k := range m {
		ks = append(ks, k)
	}
	sort.Strings(ks)
	if len(ks) > 8 {
		ks = ks[:8]
	}
	return ks
}

func sortedCounts(m map[string]int) []string {
	ks := []string{}
	for k, v := range m {
		ks = append(ks, fmt.Sprintf("%s x%d", k, v))
	}
	sort.Strings(ks)
	return ks
}

// directedTake: the count clauses of C03 at counts no generated program reaches, and the results of RunGoal / Run as values.
//   - a request for n answers returns exactly n of them when at least n exist and all of them when fewer exist, for n in the
//     hundreds and thousands as well (no buffer size, capacity hint or recursion limit stands in for n);
//   - what one call returned is not changed by later calls (the slices handed out are the caller's).
func directedTake(rep *Report, flavour string) {
	states := func(ss []*micro.State) string {
		parts := make([]string, len(ss))
		for i, s := range ss {
			if s == nil {
				parts[i] = "<nil>"
				continue
			}
			parts[i] = fmt.Sprintf("%s/%d", showSubst(s.Substitutions), s.Counter)
		}
		return strings.Join(parts, " ; ")
	}
	terms := func(ts []*ast.SExpr) string {
		parts := make([]string, len(ts))
		for i, t := range ts {
			parts[i] = showTerm(t)
		}
		return strings.Join(parts, " ")
	}
	var fives func(x *ast.SExpr) micro.Goal
	fives = func(x *ast.SExpr) micro.Goal {
		return micro.Zzz(micro.Disj(micro.EqualO(x, ast.NewInt(5)), func(s *micro.State) *micro.StreamOfStates { return fives(x)(s) }))
	}
	finite := func(k int) func(q *ast.SExpr) micro.Goal { // exactly k answers: q = 0 | q = 1 | ... | q = k-1, right-nested
		return func(q *ast.SExpr) micro.Goal {
			g := micro.Goal(micro.FailureO)
			for i := k - 1; i >= 0; i-- {
				g = micro.Disj(micro.EqualO(q, ast.NewInt(int64(i))), g)
			}
			return g
		}
	}
	for _, n := range []int{255, 256, 257, 300, 1000, 4097} {
		if got := len(micro.RunGoal(n, micro.AlwaysO)); got != n {
			rep.violate(-1, "take-exact-n", fmt.Sprintf("RunGoal(%d, alwayso)", n), fmt.Sprintf("%d states returned, exactly %d exist and were asked for", got, n))
		}
		if got := len(micro.Run(n, fives)); got != n {
			rep.violate(-1, "take-exact-n", fmt.Sprintf("Run(%d, fives)", n), fmt.Sprintf("%d answers returned, %d were asked for and infinitely many exist", got, n))
		}
		for _, k := range []int{n - 1, n, n + 1, 2 * n} {
			want := k
			if n < k {
				want = n
			}
			if got := len(micro.Run(n, finite(k))); got != want {
				rep.violate(-1, "take-exact-n", fmt.Sprintf("Run(%d, q = 0 | ... | q = %d)", n, k-1), fmt.Sprintf("%d answers returned, want %d (the goal has exactly %d)", got, want, k))
			}
		}
		if got := len(micro.Run(-1, finite(n))); got != n {
			rep.violate(-1, "take-all", fmt.Sprintf("Run(-1, q = 0 | ... | q = %d)", n-1), fmt.Sprintf("%d answers returned, the goal has exactly %d", got, n))
		}
	}
	rep.hist("directed: counts 255..4097")
	// results are values
	g1 := finite(4)(micro.Var(0))
	r1 := micro.RunGoal(3, g1)
	t1 := micro.Run(3, finite(7))
	snap1, snapT1 := states(r1), terms(t1)
	r2 := micro.RunGoal(5, micro.Conj(micro.EqualO(micro.Var(0), ast.NewSymbol("later")), micro.AlwaysO))
	snap2 := states(r2)
	_ = micro.Run(2, fives)
	_ = micro.RunGoal(6, micro.AlwaysO)
	_ = micro.RunGoal(-1, finite(9)(micro.Var(1)))
	if now := states(r1); now != snap1 {
		rep.violate(-1, "result-changed-by-later-call", "r1 := RunGoal(3, q=0|q=1|q=2|q=3); then RunGoal(5, ...), Run(2, fives), RunGoal(6, alwayso), RunGoal(-1, ...)",
			fmt.Sprintf("r1 was %s, is now %s", snap1, now))
	}
	if now := terms(t1); now != snapT1 {
		rep.violate(-1, "result-changed-by-later-call", "t1 := Run(3, q=0|...|q=6); then further RunGoal / Run calls", fmt.Sprintf("t1 was %s, is now %s", snapT1, now))
	}
	if now := states(r2); now != snap2 {
		rep.violate(-1, "result-changed-by-later-call", "r2 := RunGoal(5, q = later, alwayso); then further RunGoal / Run calls", fmt.Sprintf("r2 was %s, is now %s", snap2, now))
	}
	rep.hist("directed: results of RunGoal / Run re-read after later calls")
	if flavour == "C19" {
		directedPeano(rep)
	}
}
