package main

// C10: the concurrent combinators against the sequential ones, for injected arrival orders (random delays inside the
// argument goals), GOMAXPROCS sweep, repeated runs.  Model side: by ConcDisj.v/ConcConj.v the result does not depend on
// the schedule, so the observed cell trace is compared with the model trace of the SEQUENTIAL combinator (coq/Stream.v).

import (
	"fmt"
	"math/rand"
	"runtime"
	"sort"
	"strings"
	"time"

	"github.com/awalterschulze/gominikanren/concurrent"
	"github.com/awalterschulze/gominikanren/micro"
	"github.com/awalterschulze/gominikanren/mini"
	"github.com/awalterschulze/gominikanren/sexpr/ast"
)

func init() { register("C10", runC10) }

func delayed(g micro.Goal, d time.Duration) micro.Goal {
	if d == 0 {
		return g
	}
	return func(s *micro.State) *micro.StreamOfStates {
		time.Sleep(d)
		return g(s)
	}
}

func traceStr(tr *Trace) string { return strings.Join(tr.Show, " ") }

// observeGuarded evaluates a goal and steps its stream under a watchdog: a combinator that does not return is an observation.
func observeGuarded(g micro.Goal, st *micro.State, budget int, d time.Duration) (*Trace, bool) {
	done := make(chan *Trace, 1)
	go func() { done <- observeTrace(g(st), budget) }()
	select {
	case tr := <-done:
		return tr, true
	case <-time.After(d):
		return &Trace{Show: []string{"<did not return>"}}, false
	}
}

func answersOf(tr *Trace, nq int) []string {
	q := queryVec(nq)
	out := make([]string, len(tr.States))
	for i, st := range tr.States {
		out[i] = canonVecTerm(micro.VerifWalkStar(q, st.Substitutions))
	}
	return out
}

func runC10(cfg *Config) *Report {
	rep := newReport()
	rep.Rule = "goal lists of length 0..5, one in eight of length 6..45 (arguments: fail, fail late, == , nevero, alwayso, fives/sixes, random relational goals) x combinator in {DisjPlus, DisjPlusZzz, DisjPlusNoOrder, ConjPlus, ConjPlusZzz} x random delays of 0..800us inside the arguments (permuting arrival order) x GOMAXPROCS in {1,2,4,16} x 3 repeated runs; non-trivial = list length >= 2 with at least one delayed argument; distinct by printed case"
	cf := newCaseFile("From Coq Require Import List NArith ZArith.\nFrom GMK Require Import Term Unify Goal Stream CorrBase Corr01 Corr02.", "caseP", "checkP")
	cf.b.WriteString(coqRelLib())
	r := newRand(cfg.Seed)
	pg := &progGen{r: r, allowNon: false, rels: []int{0, 1, 2, 3, 4, 5, 7, 8, 10}}
	defer runtime.GOMAXPROCS(runtime.GOMAXPROCS(0))
	hangs := 0
	for i := 0; i < cfg.N; i++ {
		nq := 1
		n := r.Intn(6)
		wide := r.Intn(8) == 0
		if wide {
			// wide lists: an implementation may treat long argument lists differently (batching, worker pools)
			n = 6 + r.Intn(40)
		}
		args := make([]*G, n)
		delays := make([]time.Duration, n)
		anyDelay := false
		for k := range args {
			kk := r.Intn(8)
			if wide && kk > 5 {
				kk = 5 // cheap arguments: answers that tell the positions apart, failures, suspensions
			}
			switch kk {
			case 0:
				args[k] = gFail()
			case 1:
				args[k] = gConj(gEq(ptB(0), ptB(0)), gFail()) // fails late
			case 2:
				args[k] = gCall(0)
			case 3:
				args[k] = gCall(1)
			case 4:
				args[k] = gCall(2+r.Intn(2), ptB(0))
			case 5:
				args[k] = gEq(ptB(0), ptAtom(pick(r, progAtoms)))
			default:
				args[k] = pg.goal(1+r.Intn(4), nq)
			}
			if r.Intn(2) == 0 && (!wide || r.Intn(6) == 0) {
				delays[k] = time.Duration(r.Intn(800)) * time.Microsecond
				anyDelay = true
			}
		}
		if wide {
			rep.hist("wide argument list (6..45)")
		}
		comb := pick(r, []string{"DisjPlus", "DisjPlusZzz", "DisjPlusNoOrder", "ConjPlus", "ConjPlusZzz"})
		if n >= 2 && strings.HasPrefix(comb, "Conj") && r.Intn(2) == 0 {
			// a first conjunct with several answers: its stream has lazily computed tails, which every later use must
			// force from one goroutine at a time
			k := r.Intn(n)
			args[k] = gDisj(gEq(ptB(0), ptAtom(pick(r, progAtoms))), gDisj(gEq(ptB(0), ptAtom(pick(r, progAtoms))), gEq(ptB(0), ptAtom(pick(r, progAtoms)))))
			if r.Intn(2) == 0 {
				args[0], args[k] = args[k], args[0]
			}
		}
		// nesting: (1) ONE inner concurrent disjunction value used at two places (the combinators are goals, and a goal value may be
		// applied by several goroutines at once); (2) a deep right-nested tower of concurrent disjunctions
		nestKind, nestDesc := 0, ""
		var innerArgs []*G
		innerDelays := []time.Duration{}
		towerDepth := 0
		innerKind := ""
		var sharedAt []int
		switch r.Intn(6) {
		case 0, 1:
			if n >= 2 {
				nestKind = 1
				for k := 2 + r.Intn(2); k > 0; k-- {
					innerArgs = append(innerArgs, gEq(ptB(0), ptAtom(pick(r, progAtoms))))
					innerDelays = append(innerDelays, time.Duration(200+r.Intn(1800))*time.Microsecond)
				}
				// the shared value is a concurrent combinator or one of mini's (a goal value of either package may be applied by
				// several goroutines at once); in a wide list every argument uses it
				innerKind = pick(r, []string{"concurrent.DisjPlus", "concurrent.DisjPlus", "mini.DisjPlusNoZzz", "mini.DisjPlus"})
				k1 := r.Intn(n)
				sharedAt = []int{k1, (k1 + 1 + r.Intn(n-1)) % n}
				if wide && r.Intn(2) == 0 {
					sharedAt = sharedAt[:0]
					for k := 0; k < n; k++ {
						sharedAt = append(sharedAt, k)
					}
				}
				nestDesc = fmt.Sprintf("with ONE value d = %s(%s) (delays %v) used in %d arguments", innerKind, showGoals(innerArgs), innerDelays, len(sharedAt))
			}
		case 2:
			nestKind = 2
			towerDepth = 70 + r.Intn(60)
			nestDesc = fmt.Sprintf("with a tower of %d right-nested concurrent.DisjPlus as last argument", towerDepth)
		}
		procs := pick(r, []int{1, 2, 4, 16})
		budget := 30 + r.Intn(20)
		if cfg.Only >= 0 && cfg.Only != i {
			cf.add("CaseP hdefs GFail 0 0 [ONil]")
			rep.CaseDesc = append(rep.CaseDesc, "")
			rep.CaseObs = append(rep.CaseObs, "")
			continue
		}
		rep.Evaluations++
		runtime.GOMAXPROCS(procs)
		env := queryEnv(nq)
		st0 := &micro.State{Substitutions: nil, Counter: uint64(nq)}
		// the arguments as the model / the sequential reference see them
		argsM := append([]*G{}, args...)
		var tower *G
		switch nestKind {
		case 1:
			for _, k := range sharedAt {
				argsM[k] = gConj(args[k], gDisjPlus(innerKind == "mini.DisjPlus", innerArgs...))
			}
		case 2:
			tower = gEq(ptB(0), ptAtom(progAtoms[0]))
			for d := 1; d <= towerDepth; d++ {
				tower = gDisjPlus(false, gEq(ptB(0), ptAtom(progAtoms[d%len(progAtoms)])), tower)
			}
			argsM = append(argsM, tower)
		}
		mk := func(shuffle bool) []micro.Goal {
			gs := make([]micro.Goal, n)
			for k, a := range args {
				d := delays[k]
				if shuffle && d > 0 {
					d = time.Duration(r.Intn(800)) * time.Microsecond
				}
				gs[k] = delayed(build(a, env), d)
			}
			switch nestKind {
			case 1:
				in := make([]micro.Goal, len(innerArgs))
				for k, a := range innerArgs {
					in[k] = delayed(build(a, env), innerDelays[k])
				}
				var inner micro.Goal // ONE goal value
				switch innerKind {
				case "mini.DisjPlusNoZzz":
					inner = mini.DisjPlusNoZzz(in...)
				case "mini.DisjPlus":
					inner = mini.DisjPlus(in...)
				default:
					inner = concurrent.DisjPlus(in...)
				}
				for _, k := range sharedAt {
					gs[k] = micro.Conj(gs[k], inner)
				}
			case 2:
				t := build(gEq(ptB(0), ptAtom(progAtoms[0])), env)
				for d := 1; d <= towerDepth; d++ {
					t = concurrent.DisjPlus(build(gEq(ptB(0), ptAtom(progAtoms[d%len(progAtoms)])), env), t)
				}
				gs = append(gs, t)
			}
			return gs
		}
		plain := func() []micro.Goal { return buildAll(argsM, env) }
		var conc, seq func(gs ...micro.Goal) micro.Goal
		var model *G
		switch comb {
		case "DisjPlus":
			conc, seq, model = concurrent.DisjPlus, mini.DisjPlusNoZzz, gDisjPlus(false, argsM...)
		case "DisjPlusZzz":
			conc, seq, model = concurrent.DisjPlusZzz, mini.DisjPlus, gDisjPlus(true, argsM...)
		case "DisjPlusNoOrder":
			conc, seq, model = concurrent.DisjPlusNoOrder, mini.DisjPlusNoZzz, gDisjPlus(false, argsM...)
		case "ConjPlus":
			conc, seq, model = concurrent.ConjPlus, mini.ConjPlusNoZzz, gConjPlus(false, argsM...)
		default:
			conc, seq, model = concurrent.ConjPlusZzz, mini.ConjPlus, gConjPlus(true, argsM...)
		}
		desc := fmt.Sprintf("concurrent.%s(%s) delays=%v GOMAXPROCS=%d budget=%d", comb, showGoals(args), delays, procs, budget)
		if nestKind != 0 {
			desc += " " + nestDesc
		}
		begin(i, desc)
		seqTr := observeTrace(seq(plain()...)(st0), budget)
		runs := []*Trace{}
		for rep3 := 0; rep3 < 3; rep3++ {
			tr, returned := observeGuarded(conc(mk(rep3 > 0)...), st0, budget, 8*time.Second)
			if !returned {
				hangs++
				rep.violate(i, "does-not-return", desc, fmt.Sprintf("run %d: the combinator did not return its stream (or the stream its next cell) within 8s; sequential: %s", rep3, traceStr(seqTr)))
			}
			runs = append(runs, tr)
		}
		if hangs >= 3 {
			// the package is wedged (blocked goroutines keep whatever they hold): later cases would only repeat the observation
			rep.Notes = append(rep.Notes, "stopped after three cases that did not return")
			rep.CaseDesc = append(rep.CaseDesc, desc)
			rep.CaseObs = append(rep.CaseObs, "<did not return>")
			cf.add("CaseP hdefs GFail 0 0 [ONil]")
			break
		}
		// the argument list is the caller's: after it has been handed to the concurrent combinator (and the goal has run), the very
		// same slice handed to the sequential combinator gives what a fresh list gives
		shared := plain()
		_, _ = observeGuarded(conc(shared...), st0, budget, 8*time.Second)
		if after := observeTrace(seq(shared...)(st0), budget); traceStr(after) != traceStr(seqTr) {
			rep.violate(i, "argument-list-changed-by-the-combinator", desc, fmt.Sprintf("gs handed to concurrent.%s(gs...), then to the sequential combinator: %s ; the sequential combinator on a fresh list: %s", comb, traceStr(after), traceStr(seqTr)))
		}
		obs := traceStr(runs[0])
		// ownership: no stream cell of an argument goal is forced by two goroutines at the same time (data race on its memo)
		probe := &forceProbe{slow: 6, pause: 400 * time.Microsecond}
		pgs := plain()
		for k := range pgs {
			pgs[k] = probe.goal(pgs[k])
		}
		ptr := observeTrace(conc(pgs...)(st0), budget)
		if probe.forced.Load() > 0 {
			rep.hist("probed run forced >= 1 lazy tail of an argument's stream")
		}
		if n := probe.overlaps.Load(); n > 0 {
			rep.violate(i, "data-race-stream-cell-forced-by-two-goroutines", desc, fmt.Sprintf("%d time(s) a goroutine entered the tail thunk of a stream cell of an argument goal while another goroutine was inside it: the cell's memo (StreamOfStates.mem) is read and written without synchronisation", n))
		}
		if comb != "DisjPlusNoOrder" && comb != "ConjPlus" && traceStr(ptr) != traceStr(seqTr) {
			rep.violate(i, "differs-from-sequential", desc, fmt.Sprintf("probed run: %s ; sequential: %s", traceStr(ptr), traceStr(seqTr)))
		}
		exact := comb == "DisjPlus" || comb == "DisjPlusZzz" || comb == "ConjPlusZzz"
		if exact {
			// the same stream as the sequential combinator, hence the same cell trace, on every run
			cf.add(fmt.Sprintf("CaseP hdefs %s %d %d %s", model.coq(), nq, budget, coqList(runs[0].Coq)))
			for k, tr := range runs {
				if traceStr(tr) != traceStr(seqTr) {
					rep.violate(i, "differs-from-sequential", desc, fmt.Sprintf("run %d: %s ; sequential: %s", k, traceStr(tr), traceStr(seqTr)))
					break
				}
			}
		} else {
			cf.add("CaseP hdefs GFail 0 0 [ONil]")
			seqAns := answersOf(seqTr, nq)
			for k, tr := range runs {
				ans := answersOf(tr, nq)
				if comb == "ConjPlus" {
					// either the sequential stream itself, or nil when some argument fails immediately - then the sequential conjunction has no answer
					if traceStr(tr) == traceStr(seqTr) {
						continue
					}
					if traceStr(tr) == "Nil" && len(seqAns) == 0 {
						if !seqTr.Closed {
							rep.hist("inconclusive: concurrent conj returned nil, sequential conj silent within budget")
						}
						continue
					}
					rep.violate(i, "conj-answers-differ", desc, fmt.Sprintf("run %d: %s ; sequential: %s", k, traceStr(tr), traceStr(seqTr)))
					break
				}
				// NoOrder: same multiset of answers (finite), same set within the budget otherwise
				if tr.Closed != seqTr.Closed {
					rep.violate(i, "noorder-termination-differs", desc, fmt.Sprintf("run %d closed=%v sequential closed=%v", k, tr.Closed, seqTr.Closed))
					break
				}
				if tr.Closed {
					a, b := append([]string{}, ans...), append([]string{}, seqAns...)
					sort.Strings(a)
					sort.Strings(b)
					if strings.Join(a, "|") != strings.Join(b, "|") {
						rep.violate(i, "noorder-multiset-differs", desc, fmt.Sprintf("run %d: %v ; sequential: %v", k, a, b))
						break
					}
				}
			}
		}
		if n >= 2 && anyDelay {
			rep.nontrivial(desc)
		}
		rep.hist(comb)
		rep.hist(fmt.Sprintf("len=%d", n))
		rep.CaseDesc = append(rep.CaseDesc, desc)
		rep.CaseObs = append(rep.CaseObs, obs)
		rep.sample(desc + " => " + obs)
	}
	cf.write(cfg.Out)
	return rep
}

var _ = rand.Int
var _ = ast.Cons
