module verif/harness

go 1.20

require github.com/awalterschulze/gominikanren v0.0.0

replace github.com/awalterschulze/gominikanren => /repo
