module verif/harness

go 1.21

require github.com/awalterschulze/gominikanren v0.0.0

replace github.com/awalterschulze/gominikanren => /repo
