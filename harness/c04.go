package main

// C04: gomini.EqualO on pointer-shaped Go values, under both placeholder policies, against the unification model on
// encoded terms, with a reference-unifier oracle and the content-independence oracle.

import (
	"fmt"
	"sort"
	"time"

	"github.com/awalterschulze/gominikanren/gomini"
	"github.com/awalterschulze/gominikanren/micro"
)

func init() { register("C04", runC04) }

type c04obs struct {
	n      int
	how    string
	binds  micro.Substitutions
	bindsG []gbind
	canon  string
}

func runC04(cfg *Config) *Report {
	rep := newReport()
	rep.Rule = "pairs of values of the types *GT{A,B *GT; S *string; L []*GT}, *string, []*GT (nil pointers, nil/empty slices, constants equal to a zero-valued placeholder, v an abstraction of u in half the cases) x acyclic start bindings installed with State.Set (var-var chains, partially bound structs) x both placeholder policies (zero-valued default, named via VarCreator) ; records with interface-typed fields (variables bound to the untyped nil, typed nils, nested records) in sequences of 2..4 equations; x memory layout (every node fresh / equal sub-values one object and list prefixes re-slices of one backing array); non-trivial = both sides contain a variable or a bound variable is dereferenced; distinct by printed case"
	cf := newCaseFile("From Coq Require Import List NArith ZArith.\nFrom GMK Require Import Term Unify Reflect GCore CorrBase Corr01 Corr02 Corr04.", "case04", "check04")
	r := newRand(cfg.Seed)
	for i := 0; i < cfg.N; i++ {
		if i%25 == 0 && (cfg.Only < 0 || cfg.Only == i) {
			sharedStateConcurrent(rep, i, newRand(cfg.Seed*7919+int64(i)))
		}
		nv := 1 + r.Intn(6)
		sorts := make([]string, nv)
		for k := range sorts {
			sorts[k] = pick(r, []string{"t", "t", "s"})
		}
		gen := &gvGen{r: r, sorts: sorts, trunc: true}
		share := r.Intn(2) == 0 // identical sub-values are one Go object, list prefixes are re-slices of one backing array
		// start bindings: variable k may be bound to a value mentioning only later variables (acyclic)
		type bind struct {
			k int
			v *gv
		}
		binds := []bind{}
		for k := 0; k < nv; k++ {
			if r.Intn(2) == 0 {
				binds = append(binds, bind{k, gen.val(sorts[k], r.Intn(3), k)})
			}
		}
		r.Shuffle(len(binds), func(a, b int) { binds[a], binds[b] = binds[b], binds[a] })
		so := pick(r, []string{"t", "t", "t", "s", "l"})
		u := gen.val(so, 1+r.Intn(3), -1)
		var v *gv
		if r.Intn(2) == 0 {
			v = gen.abstract(u)
		} else {
			v = gen.val(so, 1+r.Intn(3), -1)
		}
		if r.Intn(8) == 0 {
			// the occurs check through aliased lists: a variable against a record holding a short list and a longer list with the
			// same leading elements (with `share`: one backing array), the variable occurring only beyond the shorter one
			tv := gen.varsOf("t")
			if len(tv) > 0 {
				x := &gv{K: "tvar", I: pick(r, tv)}
				elems := []*gv{gen.val("t", r.Intn(2), -1)}
				for n := 1 + r.Intn(2); n > 0; n-- {
					if r.Intn(2) == 0 {
						elems = append(elems, x)
					} else {
						elems = append(elems, gen.val("t", r.Intn(2), -1))
					}
				}
				cell := func(l *gv) *gv { return &gv{K: "tstruct", F: []*gv{{K: "tnil"}, {K: "tnil"}, {K: "snil"}, l}} }
				k := 1 + r.Intn(len(elems)-1)
				short, long := &gv{K: "slice", F: append([]*gv{}, elems[:k]...)}, &gv{K: "slice", F: elems}
				so = "t"
				u = x
				v = &gv{K: "tstruct", F: []*gv{cell(short), cell(long), {K: "snil"}, {K: "nilslice"}}}
				if r.Intn(3) == 0 {
					v = &gv{K: "tstruct", F: []*gv{cell(long), cell(short), {K: "snil"}, {K: "nilslice"}}}
				}
			}
		}
		if r.Intn(2) == 0 {
			u, v = v, u
		}
		ifaceCase := r.Intn(7) == 0
		isub := newRand(r.Int63())
		if ifaceCase && (cfg.Only < 0 || cfg.Only == i) {
			rep.Evaluations++
			d, o, cq := runGBCase(rep, i, isub)
			cf.add(cq)
			rep.CaseDesc = append(rep.CaseDesc, d)
			rep.CaseObs = append(rep.CaseObs, o)
			rep.hist("interface-typed fields, equation sequence")
			rep.nontrivial(d)
			continue
		}
		if cfg.Only >= 0 && cfg.Only != i {
			cf.add("CGUnify TNil TNil [] 1 []")
			rep.CaseDesc = append(rep.CaseDesc, "")
			rep.CaseObs = append(rep.CaseObs, "")
			continue
		}
		rep.Evaluations++
		start := micro.Substitutions{}
		for _, b := range binds {
			start = append(start, micro.SubPair{Key: uint64(b.k), Value: b.v.toTerm()})
		}
		desc := fmt.Sprintf("EqualO u=%s v=%s start=%s (variables %v)", showTerm(u.toTerm()), showTerm(v.toTerm()), showSubst(start), sorts)
		if share {
			desc += " [equal sub-values shared in memory, list prefixes share a backing array]"
		}
		begin(i, desc) // a crash (e.g. unbounded recursion through a cyclic binding) names this input
		var obs [2]c04obs
		for pol := 0; pol < 2; pol++ {
			w := newWorld(pol == 1, sorts)
			w.share = share
			pre := []*gv{u, v}
			for _, b := range binds {
				pre = append(pre, b.v)
			}
			w.prebuild(pre...)
			st := w.st
			for _, b := range binds {
				key, _ := st.CastVar(w.ptrs[b.k])
				st = st.Set(key, w.toGo(b.v))
			}
			before := showSubst(w.bindings(st))
			var goal gomini.Goal
			var gu, gw any
			if len(showTerm(u.toTerm())) >= len(showTerm(v.toTerm())) { // the larger side first, so that the other can alias it
				gu = w.toGo(u)
				gw = w.toGo(v)
			} else {
				gw = w.toGo(v)
				gu = w.toGo(u)
			}
			switch so {
			case "t":
				goal = gomini.EqualO(gu.(*GT), gw.(*GT))
			case "s":
				goal = gomini.EqualO(gu.(*string), gw.(*string))
			default:
				goal = gomini.EqualO(gu.([]*GT), gw.([]*GT))
			}
			states, how := runGoal(goal, st, -1, 5*time.Second)
			o := c04obs{n: len(states), how: how}
			if len(states) >= 1 {
				o.binds = w.bindings(states[0])
				o.bindsG = w.bindingsG(states[0])
				vs := make([]uint64, nv)
				for k := range vs {
					vs[k] = uint64(k)
				}
				o.canon = canonVec(vs, toRef(o.binds))
			}
			if after := showSubst(w.bindings(st)); after != before {
				rep.violate(i, "input-state-mutated", desc, fmt.Sprintf("policy %d: %s became %s", pol, before, after))
			}
			obs[pol] = o
		}
		o := obs[0]
		obsStr := fmt.Sprintf("zero-valued placeholders: %d state(s) %s %s; named placeholders: %d state(s) %s %s", obs[0].n, obs[0].how, showSubst(obs[0].binds), obs[1].n, obs[1].how, showSubst(obs[1].binds))
		// the case file records the default policy; the named policy must agree (oracle below)
		startG := make([]gbind, len(binds))
		for k, b := range binds {
			startG[k] = gbind{b.k, b.v}
		}
		cf.add(fmt.Sprintf("CGCore %s %s %s %d %s %s %s %s %s", u.coqG(), v.coqG(), coqGSub(startG), o.n, coqGSub(o.bindsG),
			encTerm(u.toTerm()), encTerm(v.toTerm()), encSubst(start), encSubst(o.binds)))
		rep.CaseDesc = append(rep.CaseDesc, desc)
		rep.CaseObs = append(rep.CaseObs, obsStr)
		rep.sample(desc + " => " + obsStr)
		rep.hist(fmt.Sprintf("sort=%s states=%d", so, o.n))
		if share {
			rep.hist("layout=shared")
		}
		// ---- direct oracles
		if obs[0].n != obs[1].n || obs[0].canon != obs[1].canon {
			rep.violate(i, "depends-on-placeholder-contents", desc, obsStr)
		}
		ref := toRef(start)
		refOK := refUnify(u.toTerm(), v.toTerm(), ref)
		for pol := 0; pol < 2; pol++ {
			o := obs[pol]
			if o.how != "closed" {
				rep.violate(i, "stream-not-closed", desc, obsStr)
			}
			if (o.n == 1) != refOK || o.n > 1 {
				rep.violate(i, "verdict", desc, fmt.Sprintf("policy %d: %s; reference unifier says unifiable=%v", pol, obsStr, refOK))
				continue
			}
			if o.n == 1 {
				for _, p := range start {
					found := false
					for _, q := range o.binds {
						if q.Key == p.Key && q.Value.Equal(p.Value) {
							found = true
						}
					}
					if !found {
						rep.violate(i, "earlier-binding-lost", desc, obsStr)
					}
				}
				rb := toRef(o.binds)
				if showTerm(refResolve(u.toTerm(), rb)) != showTerm(refResolve(v.toTerm(), rb)) {
					rep.violate(i, "not-a-unifier", desc, obsStr)
				}
				vs := make([]uint64, nv)
				for k := range vs {
					vs[k] = uint64(k)
				}
				if want := canonVec(vs, ref); want != o.canon {
					rep.violate(i, "not-most-general", desc, fmt.Sprintf("policy %d: resolved images %s; reference mgu %s", pol, o.canon, want))
				}
			}
		}
		uv, vv := map[uint64]bool{}, map[uint64]bool{}
		termVars(u.toTerm(), uv)
		termVars(v.toTerm(), vv)
		deref := false
		for _, p := range start {
			if uv[p.Key] || vv[p.Key] {
				deref = true
			}
		}
		if (len(uv) > 0 && len(vv) > 0) || deref {
			rep.nontrivial(desc)
		}
	}
	cf.write(cfg.Out)
	return rep
}

var _ = sort.Strings
