package main

// C13, gomini engine: concato.ConcatO / PrependO in every argument mode (each argument ground, partial with a closed or an
// open tail, or unbound; string elements constant or variable), under both placeholder policies and several schedules,
// against (a) mini.AppendO / ConsO on the corresponding S-expression arguments ("the two engines agree": same multiset of
// answers up to renaming of the unbound variables, for finite searches) and (b) the list oracle (every answer is a
// concatenation: xs resolves to a proper list l and zs to l followed by ys).

import (
	"context"
	"fmt"
	"math/rand"
	"reflect"
	"runtime"
	"sort"
	"strings"
	"time"

	"github.com/awalterschulze/gominikanren/gomini"
	"github.com/awalterschulze/gominikanren/gomini/concato"
	"github.com/awalterschulze/gominikanren/micro"
	"github.com/awalterschulze/gominikanren/mini"
	"github.com/awalterschulze/gominikanren/sexpr/ast"
)

// an abstract list argument: elements (constant or string variable), closed (tail = -1) or ending in list variable `tail`
type lelem struct {
	c string
	v int // string variable, -1 if constant
}
type larg struct {
	elems []lelem
	tail  int
}

func (a larg) show() string {
	parts := []string{}
	for _, e := range a.elems {
		if e.v >= 0 {
			parts = append(parts, fmt.Sprintf("?s%d", e.v))
		} else {
			parts = append(parts, fmt.Sprintf("%q", e.c))
		}
	}
	s := "[" + strings.Join(parts, " ")
	if a.tail >= 0 {
		s += fmt.Sprintf(" . ?l%d", a.tail)
	}
	return s + "]"
}

// ct is a canonical answer tree, the same for both engines
type ct struct {
	k    string // nil var str cons
	s    string
	a, d *ct
}

func (t *ct) String() string {
	switch t.k {
	case "nil":
		return "()"
	case "var":
		return t.s
	case "str":
		return fmt.Sprintf("%q", t.s)
	}
	return "(" + t.a.String() + " . " + t.d.String() + ")"
}

// concatHolds: xs is a proper list l and zs is l followed by ys (structurally, variables by name)
func concatHolds(xs, ys, zs *ct) bool {
	for xs.k == "cons" {
		if zs.k != "cons" || xs.a.String() != zs.a.String() {
			return false
		}
		xs, zs = xs.d, zs.d
	}
	return xs.k == "nil" && ys.String() == zs.String()
}

var nodeMarker = new(string) // the Value of every *Node placeholder made by the named policy

func concatoCreator(varTyp any, name string) (any, bool) {
	switch varTyp.(type) {
	case *concato.Node:
		return &concato.Node{Value: nodeMarker}, true
	case *string:
		n := "," + name
		return &n, true
	}
	return nil, false
}

// CVec is the query value: all the problem's variables
type CVec struct {
	S []*string
	L []*concato.Node
}

type concatoCase struct {
	kind   int // 0 ConcatO(A,B,C); 1 PrependO(h, T, L)
	ns, nl int
	args   [3]larg
	h      lelem
}

func genConcatoCase(r *rand.Rand) *concatoCase {
	c := &concatoCase{ns: 1 + r.Intn(3), nl: 1 + r.Intn(3)}
	consts := []string{"a", "b", "", "c"}
	elem := func() lelem {
		if r.Intn(3) == 0 {
			return lelem{v: r.Intn(c.ns)}
		}
		return lelem{c: pick(r, consts), v: -1}
	}
	arg := func() larg {
		switch r.Intn(6) {
		case 0:
			return larg{tail: r.Intn(c.nl)} // unbound
		case 1, 2: // partial with an open tail
			a := larg{tail: r.Intn(c.nl)}
			for n := 1 + r.Intn(2); n > 0; n-- {
				a.elems = append(a.elems, elem())
			}
			return a
		default: // closed: ground or with variable elements
			a := larg{tail: -1}
			for n := r.Intn(4); n > 0; n-- {
				a.elems = append(a.elems, elem())
			}
			return a
		}
	}
	if r.Intn(5) == 0 {
		c.kind = 1
		c.h = elem()
		c.args[0], c.args[1] = arg(), arg()
		return c
	}
	// a consistent triple with positions abstracted, or three independent arguments
	if r.Intn(2) == 0 {
		xs, ys := []lelem{}, []lelem{}
		for n := r.Intn(3); n > 0; n-- {
			xs = append(xs, lelem{c: pick(r, consts), v: -1})
		}
		for n := r.Intn(3); n > 0; n-- {
			ys = append(ys, lelem{c: pick(r, consts), v: -1})
		}
		abs := func(l []lelem) larg {
			switch r.Intn(4) {
			case 0:
				return larg{tail: r.Intn(c.nl)}
			case 1:
				k := r.Intn(len(l) + 1)
				return larg{elems: append([]lelem{}, l[:k]...), tail: r.Intn(c.nl)}
			case 2:
				out := larg{tail: -1}
				for _, e := range l {
					if r.Intn(3) == 0 {
						e = lelem{v: r.Intn(c.ns)}
					}
					out.elems = append(out.elems, e)
				}
				return out
			}
			return larg{elems: append([]lelem{}, l...), tail: -1}
		}
		c.args = [3]larg{abs(xs), abs(ys), abs(append(append([]lelem{}, xs...), ys...))}
		return c
	}
	c.args = [3]larg{arg(), arg(), arg()}
	return c
}

func (c *concatoCase) desc() string {
	if c.kind == 1 {
		h := fmt.Sprintf("%q", c.h.c)
		if c.h.v >= 0 {
			h = fmt.Sprintf("?s%d", c.h.v)
		}
		return fmt.Sprintf("PrependO(%s, %s, %s)", h, c.args[0].show(), c.args[1].show())
	}
	return fmt.Sprintf("ConcatO(%s, %s, %s)", c.args[0].show(), c.args[1].show(), c.args[2].show())
}

// ---- micro / mini side ----

func (c *concatoCase) runMicro(budget int) (answers [][]*ct, closed bool) {
	// variables: q = 0, s-vars 1..ns, l-vars ns+1..ns+nl
	sv := func(i int) *ast.SExpr { return micro.Var(uint64(1 + i)) }
	lv := func(j int) *ast.SExpr { return micro.Var(uint64(1 + c.ns + j)) }
	el := func(e lelem) *ast.SExpr {
		if e.v >= 0 {
			return sv(e.v)
		}
		return ast.NewString(e.c)
	}
	build := func(a larg) *ast.SExpr {
		var t *ast.SExpr
		if a.tail >= 0 {
			t = lv(a.tail)
		}
		for i := len(a.elems) - 1; i >= 0; i-- {
			t = ast.Cons(el(a.elems[i]), t)
		}
		return t
	}
	var g micro.Goal
	if c.kind == 1 {
		g = mini.ConsO(el(c.h), build(c.args[0]), build(c.args[1]))
	} else {
		g = mini.AppendO(build(c.args[0]), build(c.args[1]), build(c.args[2]))
	}
	st := &micro.State{Counter: uint64(1 + c.ns + c.nl)}
	tr := observeTrace(g(st), budget)
	for _, s := range tr.States {
		names := map[uint64]string{}
		var conv func(t *ast.SExpr) *ct
		conv = func(t *ast.SExpr) *ct {
			switch {
			case t == nil:
				return &ct{k: "nil"}
			case t.Pair != nil:
				return &ct{k: "cons", a: conv(t.Pair.Car), d: conv(t.Pair.Cdr)}
			case isVar(t):
				n, ok := names[t.Atom.Var.Index]
				if !ok {
					n = fmt.Sprintf("_%d", len(names))
					names[t.Atom.Var.Index] = n
				}
				return &ct{k: "var", s: n}
			case t.Atom != nil && t.Atom.Str != nil:
				return &ct{k: "str", s: *t.Atom.Str}
			}
			return &ct{k: "str", s: "<" + t.String() + ">"}
		}
		row := []*ct{}
		for i := 0; i < c.ns; i++ {
			row = append(row, conv(micro.VerifWalkStar(sv(i), s.Substitutions)))
		}
		for j := 0; j < c.nl; j++ {
			row = append(row, conv(micro.VerifWalkStar(lv(j), s.Substitutions)))
		}
		answers = append(answers, row)
	}
	return answers, tr.Closed
}

// ---- gomini side ----

func (c *concatoCase) runGomini(named bool, n int, yield bool) (answers [][]*ct, how string) {
	var st *gomini.State
	if named {
		st = gomini.NewState(concatoCreator)
	} else {
		st = gomini.NewState()
	}
	consts := map[uintptr]bool{}
	var ss []*string
	var ls []*concato.Node
	el := func(e lelem) *string {
		if e.v >= 0 {
			return ss[e.v]
		}
		s := e.c
		p := &s
		consts[reflect.ValueOf(p).Pointer()] = true
		return p
	}
	build := func(a larg) *concato.Node {
		var t *concato.Node
		if a.tail >= 0 {
			t = ls[a.tail]
		}
		for i := len(a.elems) - 1; i >= 0; i-- {
			t = &concato.Node{Value: el(a.elems[i]), Next: t}
		}
		return t
	}
	wrap := func(g gomini.Goal) gomini.Goal {
		if !yield {
			return g
		}
		return func(ctx context.Context, s *gomini.State, out gomini.Stream) {
			runtime.Gosched()
			g(ctx, s, out)
		}
	}
	var body func(q *CVec) gomini.Goal
	body = func(q *CVec) gomini.Goal {
		if len(ss) < c.ns {
			return gomini.ExistO(func(x *string) gomini.Goal { ss = append(ss, x); return body(q) })
		}
		if len(ls) < c.nl {
			return gomini.ExistO(func(x *concato.Node) gomini.Goal { ls = append(ls, x); return body(q) })
		}
		var rel gomini.Goal
		if c.kind == 1 {
			rel = concato.PrependO(el(c.h), build(c.args[0]), build(c.args[1]))
		} else {
			rel = concato.ConcatO(build(c.args[0]), build(c.args[1]), build(c.args[2]))
		}
		return gomini.ConjO(gomini.EqualO(q, &CVec{S: append([]*string{}, ss...), L: append([]*concato.Node{}, ls...)}), wrap(rel))
	}
	limit := 8 * time.Second
	if n >= 0 {
		limit = 1500 * time.Millisecond // an infinite search: the first n answers, or give up soon
	}
	ctx, cancel := context.WithTimeout(context.Background(), limit)
	defer cancel()
	done := make(chan []any, 1)
	go func() { done <- gomini.RunTake(ctx, n, st, body) }()
	var raw []any
	select {
	case raw = <-done:
		how = "closed"
		if ctx.Err() != nil {
			how = "timeout"
		}
	case <-time.After(limit + 3*time.Second):
		return nil, "hang"
	}
	for _, a := range raw {
		v, ok := a.(*CVec)
		if !ok || len(v.S) != c.ns || len(v.L) != c.nl {
			answers = append(answers, []*ct{{k: "str", s: fmt.Sprintf("<answer of type %T>", a)}})
			continue
		}
		names := map[uintptr]string{}
		name := func(p uintptr) *ct {
			nm, ok := names[p]
			if !ok {
				nm = fmt.Sprintf("_%d", len(names))
				names[p] = nm
			}
			return &ct{k: "var", s: nm}
		}
		strT := func(p *string) *ct {
			if p == nil {
				return &ct{k: "str", s: "<nil string pointer>"}
			}
			if consts[reflect.ValueOf(p).Pointer()] {
				return &ct{k: "str", s: *p}
			}
			return name(reflect.ValueOf(p).Pointer())
		}
		var listT func(nd *concato.Node, depth int) *ct
		listT = func(nd *concato.Node, depth int) *ct {
			switch {
			case nd == nil:
				return &ct{k: "nil"}
			case depth > 100000: // answers of an infinite search can be long lists; only a cyclic value would get here
				return &ct{k: "str", s: "<too deep>"}
			case nd.Value == nil || nd.Value == nodeMarker:
				return name(reflect.ValueOf(nd).Pointer()) // the placeholder of an unbound list variable
			}
			return &ct{k: "cons", a: strT(nd.Value), d: listT(nd.Next, depth+1)}
		}
		row := []*ct{}
		for _, p := range v.S {
			row = append(row, strT(p))
		}
		for _, nd := range v.L {
			row = append(row, listT(nd, 0))
		}
		answers = append(answers, row)
	}
	return answers, how
}

func showRows(rows [][]*ct) []string {
	out := make([]string, len(rows))
	for i, row := range rows {
		parts := make([]string, len(row))
		for k, t := range row {
			parts[k] = t.String()
		}
		out[i] = "<" + strings.Join(parts, " ") + ">"
	}
	sort.Strings(out)
	return out
}

func runConcatoModes(cfg *Config) *Report {
	rep := newReport()
	rep.Rule = "concato.ConcatO / PrependO with every argument ground, partial (closed or open tail, constant or variable elements) or unbound, 1..3 string variables and 1..3 list variables, under both placeholder policies x GOMAXPROCS {1,4,16} x yields at the relation boundary; finite searches (decided by the micro search closing within a budget): all answers, same multiset as mini.AppendO / ConsO up to renaming; infinite ones: first 3 answers; every answer checked by the list oracle; non-trivial = at least two arguments are not ground; distinct by printed case"
	r := newRand(cfg.Seed)
	defer runtime.GOMAXPROCS(runtime.GOMAXPROCS(0))
	for i := 0; i < cfg.N; i++ {
		c := genConcatoCase(r)
		named := r.Intn(2) == 0
		procs := pick(r, []int{1, 4, 16})
		yield := r.Intn(2) == 0
		if cfg.Only >= 0 && cfg.Only != i {
			rep.CaseDesc = append(rep.CaseDesc, "")
			rep.CaseObs = append(rep.CaseObs, "")
			continue
		}
		rep.Evaluations++
		desc := fmt.Sprintf("%s [%d string variables, %d list variables; %s; GOMAXPROCS=%d yield=%v]", c.desc(), c.ns, c.nl,
			map[bool]string{true: "named placeholders", false: "zero-valued placeholders"}[named], procs, yield)
		runtime.GOMAXPROCS(procs)
		begin(i, desc)
		want, closed := c.runMicro(400)
		n := -1
		if !closed {
			n = 3
		}
		got, how := c.runGomini(named, n, yield)
		obs := fmt.Sprintf("%s %v", how, showRows(got))
		rep.CaseDesc = append(rep.CaseDesc, desc)
		rep.CaseObs = append(rep.CaseObs, obs)
		rep.sample(desc + " => " + obs)
		rep.hist(map[int]string{0: "ConcatO", 1: "PrependO"}[c.kind])
		rep.hist(map[bool]string{true: "finite search", false: "infinite search (first 3 answers)"}[closed])
		if how != "closed" {
			if closed {
				rep.violate(i, "gomini-search-does-not-finish", desc, fmt.Sprintf("%s; the micro search of the same relation finishes with %d answers", obs, len(want)))
			} else {
				rep.hist("inconclusive: infinite search did not deliver 3 answers in time")
			}
			continue
		}
		// the list oracle on every answer
		for _, row := range got {
			if len(row) != c.ns+c.nl {
				rep.violate(i, "gomini-answer-wrong-type", desc, obs)
				continue
			}
			val := func(a larg) *ct {
				var t *ct = &ct{k: "nil"}
				if a.tail >= 0 {
					t = row[c.ns+a.tail]
				}
				for k := len(a.elems) - 1; k >= 0; k-- {
					e := a.elems[k]
					et := &ct{k: "str", s: e.c}
					if e.v >= 0 {
						et = row[e.v]
					}
					t = &ct{k: "cons", a: et, d: t}
				}
				return t
			}
			ok := true
			if c.kind == 1 {
				h := &ct{k: "str", s: c.h.c}
				if c.h.v >= 0 {
					h = row[c.h.v]
				}
				ok = (&ct{k: "cons", a: h, d: val(c.args[0])}).String() == val(c.args[1]).String()
			} else {
				ok = concatHolds(val(c.args[0]), val(c.args[1]), val(c.args[2]))
			}
			if !ok {
				rep.violate(i, "answer-is-not-a-concatenation", desc, fmt.Sprintf("under the answer %v the arguments are not related; all answers %s", showRows([][]*ct{row}), obs))
				break
			}
		}
		if closed {
			if a, b := strings.Join(showRows(got), " "), strings.Join(showRows(want), " "); a != b {
				rep.violate(i, "engines-disagree", desc, fmt.Sprintf("gomini: %s ; mini on the corresponding S-expressions: %s", a, b))
			}
		}
		ng := 0
		for _, a := range c.args {
			if a.tail >= 0 {
				ng++
			} else {
				for _, e := range a.elems {
					if e.v >= 0 {
						ng++
						break
					}
				}
			}
		}
		if ng >= 2 {
			rep.nontrivial(desc)
		}
	}
	return rep
}
