package main

// C11: no goroutine outlives a finished or cancelled search; C12: the routine limit changes pacing only.
// Every case runs in its own worker process (a leak or a post-cancel goroutine explosion must not poison later cases).

import (
	"context"
	"encoding/json"
	"fmt"
	"runtime"
	"sort"
	"strings"
	"sync/atomic"
	"time"

	"github.com/awalterschulze/gominikanren/concurrent"
	"github.com/awalterschulze/gominikanren/gomini"
	"github.com/awalterschulze/gominikanren/gomini/concato"
	"github.com/awalterschulze/gominikanren/micro"
)

func init() {
	register("C11", func(cfg *Config) *Report { return runLeak(cfg, "C11") })
	register("C12", func(cfg *Config) *Report { return runLeak(cfg, "C12") })
}

type leakCase struct {
	Kind    string // conc-conj conc-conjzzz conc-disj conc-noorder gomini-finite gomini-infinite limit
	N       int    // arguments / list length
	Take    int    // answers read before cancelling (-1 = all)
	Max     int    // routine limit (0 = none)
	Calls   int    // repetitions
	Variant int
	End     int // how the search's context ends: 0 cancel(), 1 its deadline passes (context.WithTimeout), 2 its parent is cancelled,
	// 3 it is cancelled already when Run is called (the channel Run returns must still be closed)
}

func (c leakCase) String() string {
	if c.Kind == "limit-reuse" && c.Take == -2 {
		return fmt.Sprintf("limit installed twice (100, then %d): %d ConcatO searches of %d elements on it, idle %dms in between", c.Max, c.Calls, c.N, c.Variant)
	}
	if c.Kind == "limit-reuse" && c.Take == -4 {
		return fmt.Sprintf("two limits (%d, then %d) installed on one parent context (variant odd: context.Background()); %d ConcatO searches of %d elements under the FIRST one while the second is in use, idle %dms in between", c.Max, c.Max+1, c.Calls, c.N, c.Variant)
	}
	if c.Kind == "limit-reuse" && c.Take == -3 {
		return fmt.Sprintf("limit %d: %d ConcatO searches of %d elements, each on its own child context that is cancelled afterwards, idle %dms in between", c.Max, c.Calls, c.N, c.Variant)
	}
	return fmt.Sprintf("%s n=%d take=%d max=%d calls=%d variant=%d context-ends-by=%s", c.Kind, c.N, c.Take, c.Max, c.Calls, c.Variant,
		[]string{"cancel()", "deadline", "cancel of the parent", "cancel() before Run is called"}[c.End%4])
}

type leakObs struct {
	Base, After, Later int    // goroutines before, shortly after, and later
	Growing           bool   // still growing after cancel
	Answers           []string
	How               string // closed | timeout | cancelled
	Millis            int64
	Stacks            string
}

// gomini "fives"-style infinite relation
func gfives(x *int) gomini.Goal {
	five := 5
	return gomini.DisjO(gomini.EqualO(x, &five), func(ctx context.Context, s *gomini.State, ss gomini.Stream) { gfives(x)(ctx, s, ss) })
}

// gwide: an infinite relation written with an n-ary DisjO (eta-expanded recursion, a short pause per expansion so that an
// eager left recursion stays within memory until it is cancelled)
func gwide(x *int, variant int) gomini.Goal {
	one, two := 1, 2
	rec := func(ctx context.Context, s *gomini.State, ss gomini.Stream) {
		select {
		case <-ctx.Done():
			return
		case <-time.After(200 * time.Microsecond):
		}
		gwide(x, variant)(ctx, s, ss)
	}
	switch variant {
	case 1:
		return gomini.DisjO(rec, gomini.EqualO(x, &one), gomini.EqualO(x, &two))
	case 2:
		return gomini.DisjO(gomini.EqualO(x, &one), rec, gomini.EqualO(x, &two), gomini.EqualO(x, &one))
	}
	return gomini.DisjO(rec)
}

// burstProgram: a finite disjunction of n branches, branch i answers q = "bi"; after answering, every branch waits until all
// its siblings have answered and then all return at the same reading of the clock - so n finishing goroutines hand back
// their permits at (almost) the same instant. A legal goal program: it only adds waiting.
func burstProgram(n int) func(q *string) gomini.Goal {
	var arrived atomic.Int32
	gate := make(chan struct{})
	var deadline time.Time // written once before close(gate), read only after <-gate
	return func(q *string) gomini.Goal {
		branches := make([]gomini.Goal, n)
		for i := range branches {
			answer := fmt.Sprintf("b%d", i)
			branches[i] = func(ctx context.Context, s *gomini.State, ss gomini.Stream) {
				gomini.EqualO(q, &answer)(ctx, s, ss)
				if int(arrived.Add(1)) == n {
					deadline = time.Now().Add(2 * time.Millisecond)
					close(gate)
				}
				select {
				case <-gate:
				case <-ctx.Done():
					return
				}
				for time.Now().Before(deadline) {
				}
			}
		}
		return gomini.DisjO(branches...)
	}
}

func settle(base int, d time.Duration) int {
	deadline := time.Now().Add(d)
	n := runtime.NumGoroutine()
	for time.Now().Before(deadline) {
		n = runtime.NumGoroutine()
		if n <= base {
			return n
		}
		time.Sleep(5 * time.Millisecond)
	}
	return n
}

func goroutineStacks() string {
	buf := make([]byte, 1<<16)
	n := runtime.Stack(buf, true)
	s := string(buf[:n])
	if len(s) > 3000 {
		s = s[:3000]
	}
	return s
}

func observeLeak(c leakCase) *leakObs {
	o := &leakObs{}
	if c.Kind == "gomini-leftrec" && c.Variant%4 != 3 {
		c.Take = 0 // variants 0..2 never answer: there is nothing to read before the context ends
	}
	runtime.GC()
	time.Sleep(10 * time.Millisecond)
	o.Base = runtime.NumGoroutine()
	t0 := time.Now()
	switch {
	case c.Kind == "conc-mixed":
		// calls of DIFFERENT widths in one process, narrow ones that run to completion next to wide ones that return early while
		// most of their workers are still busy: whatever a call leaves behind (buffers, channels, workers) meets the next call
		st := micro.EmptyState()
		widths := []int{3, 9, 2, 12, 5, 1, 7, 16}
		work := func(d time.Duration) micro.Goal {
			return func(s *micro.State) *micro.StreamOfStates { time.Sleep(d); return micro.SuccessO(s) }
		}
		for k := 0; k < c.Calls; k++ {
			n := widths[(k+c.Variant)%len(widths)]
			gs := make([]micro.Goal, n)
			for j := range gs {
				gs[j] = work(time.Duration(200+137*((j+k)%9)) * time.Microsecond)
			}
			if k%2 == 1 { // an early exit: one argument fails at once
				gs[(k/2)%n] = micro.FailureO
			}
			var g micro.Goal
			switch (c.N + k/8) % 4 {
			case 0:
				g = concurrent.ConjPlus(gs...)
			case 1:
				g = concurrent.ConjPlusZzz(gs...)
			case 2:
				g = concurrent.DisjPlus(gs...)
			default:
				g = concurrent.DisjPlusNoOrder(gs...)
			}
			ss := g(st)
			if c.Take != 0 { // read the first cells (a suspension is forced, an answer is taken)
				for i := 0; i < 3 && ss != nil; i++ {
					_, ss = ss.CarCdr()
				}
			}
		}
		o.How = "returned"
	case strings.HasPrefix(c.Kind, "conc-"):
		st := micro.EmptyState()
		for k := 0; k < c.Calls; k++ {
			gs := make([]micro.Goal, c.N)
			for j := range gs {
				switch (j + c.Variant + k) % 4 {
				case 0:
					gs[j] = micro.FailureO
				case 1:
					gs[j] = micro.SuccessO
				case 2:
					gs[j] = micro.AlwaysO
				default:
					gs[j] = micro.NeverO
				}
			}
			var g micro.Goal
			switch c.Kind {
			case "conc-conj":
				g = concurrent.ConjPlus(gs...)
			case "conc-conjzzz":
				g = concurrent.ConjPlusZzz(gs...)
			case "conc-disj":
				g = concurrent.DisjPlus(gs...)
			default:
				g = concurrent.DisjPlusNoOrder(gs...)
			}
			_ = g(st)
		}
		o.How = "returned"
	case c.Kind == "gomini-open-streams":
		// the exported stream operators on inputs that nobody ever closes: after the cancel they must return
		for k := 0; k < c.Calls; k++ {
			ctx, cancel := context.WithCancel(context.Background())
			rctx := ctx
			if c.Max > 0 {
				rctx = gomini.SetMaxRoutines(ctx, c.Max)
			}
			s1, s2, res := gomini.NewEmptyStream(), gomini.NewEmptyStream(), gomini.NewEmptyStream()
			go gomini.Mplus(rctx, s1, s2, res)
			s3, res2 := gomini.NewEmptyStream(), gomini.NewEmptyStream()
			go gomini.Bind(rctx, s3, gomini.SuccessO, res2)
			if c.Variant%2 == 1 { // one state in flight on each
				st := gomini.NewState()
				go s1.Write(rctx, st)
				go s3.Write(rctx, st)
				if c.Take > 0 {
					select {
					case <-res:
					case <-time.After(2 * time.Second):
					}
				}
			}
			time.Sleep(time.Duration(5+5*k) * time.Millisecond)
			cancel()
		}
		o.How = "cancelled"
	case c.Kind == "limit-reuse" || c.Kind == "limit-burst":
		// ONE limited context serves several searches in a row (with idle refill periods in between), each read to the end
		ctx, cancel := context.WithCancel(context.Background())
		rctx := gomini.SetMaxRoutines(ctx, c.Max)
		if c.Take == -2 {
			// the limit is installed twice (a default, then the one in force)
			rctx = gomini.SetMaxRoutines(gomini.SetMaxRoutines(ctx, 100), c.Max)
		}
		if c.Take == -4 {
			// two limits installed on the SAME parent context (also on context.Background()): they are two limiters; the searches run
			// under the one installed FIRST, while the second is installed and in use by another search
			parent := context.Context(ctx)
			if c.Variant%2 == 1 {
				parent = context.Background()
			}
			rctx = gomini.SetMaxRoutines(parent, c.Max)
			other := gomini.SetMaxRoutines(parent, c.Max+1)
			go func() {
				for range gomini.Run(other, gomini.NewState(), burstProgram(3)) {
				}
			}()
		}
		lim := rctx
		o.How = "closed"
	searches:
		for k := 0; k < c.Calls; k++ {
			cancelChild := func() {}
			if c.Take == -3 {
				// every search runs on its own child of the limited context, cancelled when the search is over
				rctx, cancelChild = context.WithCancel(lim)
			}
			var ch chan any
			if c.Kind == "limit-burst" {
				ch = gomini.Run(rctx, gomini.NewState(), burstProgram(c.N))
			} else {
				xs := make([]string, c.N)
				for j := range xs {
					xs[j] = fmt.Sprintf("e%d", j)
				}
				ch = gomini.Run(rctx, gomini.NewState(), func(q *concato.Node) gomini.Goal {
					return gomini.ExistO(func(y *concato.Node) gomini.Goal { return concato.ConcatO(q, y, nodeList(xs)) })
				})
			}
			timer := time.After(5 * time.Second)
			for {
				select {
				case a, ok := <-ch:
					if !ok {
						cancelChild()
						time.Sleep(time.Duration(c.Variant) * time.Millisecond) // idle: the refill ticker runs with nothing to do
						continue searches
					}
					switch v := a.(type) {
					case *concato.Node:
						o.Answers = append(o.Answers, fmt.Sprintf("search %d: %s", k, v.String()))
					case *string:
						o.Answers = append(o.Answers, fmt.Sprintf("search %d: %s", k, *v))
					}
				case <-timer:
					o.How = fmt.Sprintf("timeout in search number %d on the same limited context (%d answers so far)", k+1, len(o.Answers))
					break searches
				}
			}
		}
		cancel()
	default:
		for k := 0; k < c.Calls; k++ {
			ctx, cancel := context.WithCancel(context.Background())
			switch c.End % 4 {
			case 3:
				cancel()
			case 1: // the context ends because its deadline passes; cancel() below then comes too late to change ctx.Err()
				ctx, cancel = context.WithTimeout(context.Background(), time.Duration(40+15*k)*time.Millisecond)
			case 2: // the search runs on a child; it is the parent that gets cancelled
				parent, cancelParent := context.WithCancel(context.Background())
				child, cancelChild := context.WithCancel(parent)
				_ = cancelChild
				ctx, cancel = child, cancelParent
			}
			rctx := ctx
			if c.Max > 0 {
				rctx = gomini.SetMaxRoutines(ctx, c.Max)
			}
			var ch chan any
			if c.Kind == "gomini-infinite" && c.Variant > 0 {
				// an n-ary disjunction whose recursive clause is the FIRST (variant 1), a MIDDLE (2) or the ONLY one (3): every
				// clause of a disjunction is search work like any other - after cancel none of them is expanded any further
				ch = gomini.Run(rctx, gomini.NewState(), func(q *int) gomini.Goal { return gwide(q, c.Variant) })
			} else if c.Kind == "gomini-infinite" {
				ch = gomini.Run(rctx, gomini.NewState(), func(q *int) gomini.Goal { return gfives(q) })
			} else if c.Kind == "gomini-traced" {
				// a search whose goals also READ the state they are given through its exported methods (String, as a tracing goal
				// does) while sibling branches go on introducing variables; the start state binds one variable to another one
				// (variant even: to the variable's key, State.Set(a, Var); odd: to the variable's pointer)
				st := gomini.NewState()
				var a, b *concato.Node
				st, a = gomini.NewVar[*concato.Node](st)
				st, b = gomini.NewVar[*concato.Node](st)
				av, _ := st.CastVar(a)
				bv, _ := st.CastVar(b)
				if c.Variant%2 == 0 {
					st = st.Set(av, bv)
				} else {
					st = st.Set(av, b)
				}
				var traced atomic.Int64
				trace := func(ctx context.Context, s *gomini.State, ss gomini.Stream) {
					traced.Add(int64(len(s.String())))
					ss.Write(ctx, s)
				}
				ch = gomini.Run(rctx, st, func(q *concato.Node) gomini.Goal {
					return gomini.ExistO(func(y *concato.Node) gomini.Goal {
						return gomini.ExistO(func(z *concato.Node) gomini.Goal {
							return gomini.DisjO(gomini.ConjO(trace, concato.ConcatO(q, y, z)), gomini.ConjO(trace, concato.ConcatO(y, z, q)),
								gomini.ConjO(concato.ConcatO(z, q, y), trace))
						})
					})
				})
				time.Sleep(time.Duration(50+50*k) * time.Millisecond)
			} else if c.Kind == "gomini-leftrec" {
				// relations that recurse (eta-expanded, with a short pause per expansion) through the FIRST conjunct of a ConjO
				// (variant 0), the CONDITION of an IfThenElseO (1), the THEN branch (2), or the first conjunct under a DisjO with a
				// productive sibling (3): silent or productive infinite searches; then the context ends
				var rel func(q *int) gomini.Goal
				rel = func(q *int) gomini.Goal {
					one := 1
					rec := func(ctx context.Context, s *gomini.State, ss gomini.Stream) {
						select {
						case <-ctx.Done():
							return
						case <-time.After(150 * time.Microsecond):
						}
						rel(q)(ctx, s, ss)
					}
					switch c.Variant % 4 {
					case 0:
						return gomini.ConjO(rec, gomini.EqualO(q, &one))
					case 1:
						return gomini.IfThenElseO(rec, gomini.SuccessO, gomini.EqualO(q, &one))
					case 2:
						return gomini.IfThenElseO(gomini.EqualO(q, &one), rec, gomini.FailureO)
					}
					return gomini.DisjO(gomini.EqualO(q, &one), gomini.ConjO(rec, gomini.EqualO(q, q)))
				}
				ch = gomini.Run(rctx, gomini.NewState(), rel)
				time.Sleep(time.Duration(10+10*k) * time.Millisecond)
			} else if c.Kind == "gomini-elserec" {
				// a relation that recurses through the ELSE branch (eta-expanded, as recursive Go relations are):
				//   r(q) = if q = 1 and q = 2 then succeed else r(q)      - a silent infinite search; then cancel
				var rel func(q *int) gomini.Goal
				rel = func(q *int) gomini.Goal {
					one, two := 1, 2
					return gomini.IfThenElseO(gomini.ConjO(gomini.EqualO(q, &one), gomini.EqualO(q, &two)), gomini.SuccessO,
						func(ctx context.Context, s *gomini.State, ss gomini.Stream) { rel(q)(ctx, s, ss) })
				}
				ch = gomini.Run(rctx, gomini.NewState(), rel)
				time.Sleep(time.Duration(10+10*k) * time.Millisecond)
			} else if c.Kind == "gomini-ifte" {
				// if (q = 1 or q = 2 or q = 3 [or fives(q)]) then (fives(y) or q = q) else q = 0 : several condition answers,
				// an infinite then-branch; cancelled after Take answers
				ch = gomini.Run(rctx, gomini.NewState(), func(q *int) gomini.Goal {
					one, two, three, zero := 1, 2, 3, 0
					conds := []gomini.Goal{gomini.EqualO(q, &one), gomini.EqualO(q, &two), gomini.EqualO(q, &three)}
					if c.Variant%2 == 1 {
						conds = append(conds, gfives(q))
					}
					return gomini.IfThenElseO(gomini.DisjO(conds...),
						gomini.ExistO(func(y *int) gomini.Goal { return gomini.DisjO(gfives(y), gomini.EqualO(q, q)) }),
						gomini.EqualO(q, &zero))
				})
			} else {
				xs := make([]string, c.N)
				for j := range xs {
					xs[j] = fmt.Sprintf("e%d", j)
				}
				ch = gomini.Run(rctx, gomini.NewState(), func(q *concato.Node) gomini.Goal {
					return gomini.ExistO(func(y *concato.Node) gomini.Goal { return concato.ConcatO(q, y, nodeList(xs)) })
				})
			}
			got := 0
			timer := time.After(8 * time.Second)
			o.How = "closed"
		loop:
			for c.Take < 0 || got < c.Take {
				select {
				case a, ok := <-ch:
					if !ok {
						break loop
					}
					got++
					if n, isNode := a.(*concato.Node); isNode {
						o.Answers = append(o.Answers, n.String())
					}
				case <-timer:
					o.How = "timeout"
					break loop
				}
			}
			if c.Take >= 0 && got >= c.Take && o.How == "closed" {
				o.How = "cancelled"
			}
			if c.End%4 == 1 {
				select { // let the deadline pass
				case <-ctx.Done():
				case <-time.After(3 * time.Second):
				}
			}
			cancel()
		}
	}
	o.Millis = time.Since(t0).Milliseconds()
	o.After = settle(o.Base, 400*time.Millisecond)
	time.Sleep(150 * time.Millisecond)
	o.Later = runtime.NumGoroutine()
	o.Growing = o.Later > o.After+5
	if o.Later > o.Base {
		o.Stacks = goroutineStacks()
	}
	sort.Strings(o.Answers)
	return o
}

func genLeakCases(cfg *Config, prop string) []leakCase {
	r := newRand(cfg.Seed)
	cases := []leakCase{}
	if prop == "C11" {
		for _, k := range []string{"conc-conj", "conc-conjzzz", "conc-disj", "conc-noorder"} {
			for _, n := range []int{2, 3, 5} {
				cases = append(cases, leakCase{Kind: k, N: n, Calls: 40, Variant: n})
			}
		}
		cases = append(cases, leakCase{Kind: "conc-mixed", N: 0, Calls: 64, Variant: 0}, leakCase{Kind: "conc-mixed", N: 1, Calls: 64, Variant: 3, Take: 1},
			leakCase{Kind: "conc-mixed", N: 2, Calls: 48, Variant: 1, Take: 1}, leakCase{Kind: "conc-mixed", N: 0, Calls: 200, Variant: 5, Take: 1})
		for _, take := range []int{0, 1, 3, -1} {
			for _, max := range []int{0, 3} {
				cases = append(cases, leakCase{Kind: "gomini-finite", N: 6, Take: take, Max: max, Calls: 5})
			}
		}
		for _, take := range []int{0, 1, 4} {
			for _, max := range []int{0, 4} {
				cases = append(cases, leakCase{Kind: "gomini-infinite", Take: take, Max: max, Calls: 1})
			}
		}
		cases = append(cases, leakCase{Kind: "gomini-infinite", Take: 4, Max: 0, Calls: 1, Variant: 1}, leakCase{Kind: "gomini-infinite", Take: 2, Max: 3, Calls: 1, Variant: 1},
			leakCase{Kind: "gomini-infinite", Take: 3, Max: 0, Calls: 1, Variant: 2}, leakCase{Kind: "gomini-infinite", Take: 0, Max: 0, Calls: 1, Variant: 3})
		cases = append(cases, leakCase{Kind: "gomini-ifte", Take: 1, Max: 2, Calls: 6, Variant: 0}, leakCase{Kind: "gomini-ifte", Take: 2, Max: 0, Calls: 4, Variant: 1},
			leakCase{Kind: "gomini-ifte", Take: 0, Max: 3, Calls: 4, Variant: 1},
			leakCase{Kind: "gomini-elserec", Take: 0, Max: 0, Calls: 3}, leakCase{Kind: "gomini-elserec", Take: 0, Max: 3, Calls: 2},
			leakCase{Kind: "gomini-leftrec", Take: 0, Max: 0, Calls: 3, Variant: 0}, leakCase{Kind: "gomini-leftrec", Take: 0, Max: 0, Calls: 3, Variant: 1},
			leakCase{Kind: "gomini-leftrec", Take: 0, Max: 20, Calls: 2, Variant: 2}, leakCase{Kind: "gomini-leftrec", Take: 2, Max: 0, Calls: 2, Variant: 3},
			leakCase{Kind: "gomini-leftrec", Take: 0, Max: 0, Calls: 2, Variant: 0, End: 1},
			leakCase{Kind: "gomini-infinite", Take: 1, Max: 0, Calls: 1, End: 1}, leakCase{Kind: "gomini-infinite", Take: 0, Max: 0, Calls: 1, Variant: 2, End: 1},
			leakCase{Kind: "gomini-infinite", Take: 3, Max: 4, Calls: 1, End: 2}, leakCase{Kind: "gomini-ifte", Take: 1, Max: 0, Calls: 3, Variant: 1, End: 1},
			leakCase{Kind: "gomini-finite", N: 6, Take: 2, Max: 0, Calls: 3, End: 1}, leakCase{Kind: "gomini-finite", N: 4, Take: -1, Max: 0, Calls: 2, End: 3},
			leakCase{Kind: "gomini-finite", N: 4, Take: -1, Max: 1, Calls: 2, End: 3}, leakCase{Kind: "gomini-infinite", Take: -1, Max: 0, Calls: 1, End: 3}, leakCase{Kind: "gomini-elserec", Take: 0, Max: 0, Calls: 2, End: 1},
			leakCase{Kind: "gomini-traced", Take: 3, Max: 0, Calls: 3, Variant: 0}, leakCase{Kind: "gomini-traced", Take: 0, Max: 4, Calls: 2, Variant: 1},
			leakCase{Kind: "gomini-open-streams", Take: 0, Max: 0, Calls: 5, Variant: 0}, leakCase{Kind: "gomini-open-streams", Take: 1, Max: 2, Calls: 5, Variant: 1})
	} else {
		for _, max := range []int{1, 2, 3, 5, 100} {
			for _, n := range []int{2, 3, 5} {
				cases = append(cases, leakCase{Kind: "limit", N: n, Take: -1, Max: max, Calls: 1})
			}
		}
		// the same limited context used for several searches, with idle refill periods in between
		cases = append(cases, leakCase{Kind: "limit-reuse", N: 5, Take: -2, Max: 3, Calls: 2, Variant: 20}, leakCase{Kind: "limit-reuse", N: 5, Take: -3, Max: 1, Calls: 3, Variant: 30},
			leakCase{Kind: "limit-reuse", N: 6, Take: -1, Max: 1, Calls: 3, Variant: 35},
			leakCase{Kind: "limit-reuse", N: 6, Take: -4, Max: 1, Calls: 2, Variant: 20}, leakCase{Kind: "limit-reuse", N: 5, Take: -4, Max: 2, Calls: 2, Variant: 31},
			leakCase{Kind: "limit-reuse", N: 4, Take: -1, Max: 2, Calls: 4, Variant: 25},
			// limits far ABOVE the search's depth: installing the limit must not take longer than a refill period allows for
			leakCase{Kind: "limit", N: 3, Take: -1, Max: 3000000, Calls: 1},
			leakCase{Kind: "limit", N: 2, Take: -1, Max: 40000000, Calls: 1},
			// sibling goroutines that finish at the same instant under a limit far below the depth
			leakCase{Kind: "limit-burst", N: 8, Take: -1, Max: 1, Calls: 25},
			leakCase{Kind: "limit-burst", N: 6, Take: -1, Max: 2, Calls: 25})
	}
	for len(cases) < cfg.N {
		if prop == "C11" {
			switch r.Intn(6) {
			case 5:
				if r.Intn(3) == 0 {
					cases = append(cases, leakCase{Kind: "gomini-traced", Take: r.Intn(5), Max: pick(r, []int{0, 0, 3, 6}), Calls: 1 + r.Intn(3), Variant: r.Intn(2)})
					continue
				}
				cases = append(cases, leakCase{Kind: "conc-mixed", N: r.Intn(4), Calls: 30 + r.Intn(90), Variant: r.Intn(8), Take: r.Intn(2)})
			case 0:
				cases = append(cases, leakCase{Kind: pick(r, []string{"conc-conj", "conc-conjzzz", "conc-disj", "conc-noorder"}), N: 2 + r.Intn(5), Calls: 10 + r.Intn(40), Variant: r.Intn(4)})
			case 1:
				cases = append(cases, leakCase{Kind: "gomini-finite", N: 2 + r.Intn(8), Take: r.Intn(5) - 1, Max: pick(r, []int{0, 0, 2, 5}), Calls: 1 + r.Intn(5), End: pick(r, []int{0, 0, 1, 2, 3})})
			case 2:
				if r.Intn(3) == 0 {
					cases = append(cases, leakCase{Kind: "gomini-leftrec", Take: r.Intn(3), Max: pick(r, []int{0, 0, 10, 30}), Calls: 1 + r.Intn(3), Variant: r.Intn(4), End: r.Intn(3)})
					continue
				}
				cases = append(cases, leakCase{Kind: "gomini-infinite", Take: r.Intn(6), Max: pick(r, []int{0, 0, 3, 8}), Calls: 1, Variant: r.Intn(4), End: r.Intn(3)})
			case 3:
				cases = append(cases, leakCase{Kind: "gomini-ifte", Take: r.Intn(4), Max: pick(r, []int{0, 2, 3}), Calls: 2 + r.Intn(5), Variant: r.Intn(2), End: r.Intn(3)})
			default:
				cases = append(cases, leakCase{Kind: "gomini-open-streams", Take: r.Intn(2), Max: pick(r, []int{0, 2}), Calls: 2 + r.Intn(5), Variant: r.Intn(2)})
			}
		} else {
			switch r.Intn(4) {
			case 0:
				cases = append(cases, leakCase{Kind: "limit-reuse", N: 2 + r.Intn(6), Take: pick(r, []int{-1, -2, -3, -4}), Max: pick(r, []int{1, 1, 2, 3}), Calls: 2 + r.Intn(3), Variant: 15 + r.Intn(40)})
			case 1:
				cases = append(cases, leakCase{Kind: "limit-burst", N: 4 + r.Intn(6), Take: -1, Max: pick(r, []int{1, 1, 2, 3}), Calls: 15 + r.Intn(15)})
			default:
				cases = append(cases, leakCase{Kind: "limit", N: 2 + r.Intn(5), Take: -1, Max: pick(r, []int{1, 1, 2, 2, 3, 4, 6, 50}), Calls: 1})
			}
		}
	}
	return cases[:cfg.N]
}

func runLeak(cfg *Config, prop string) *Report {
	cases := genLeakCases(cfg, prop)
	obsFn := func(i int) string {
		b, _ := json.Marshal(observeLeak(cases[i]))
		return string(b)
	}
	if lo, hi, ok := workerRange(cfg); ok {
		runWorker(lo, hi, obsFn)
	}
	rep := newReport()
	if prop == "C11" {
		rep.Rule = "concurrent combinators called 10..50 times on argument lists mixing fail/succeed/alwayso/nevero (early-return paths); gomini searches (finite ConcatO splits, an infinite fives relation, IfThenElseO with several condition answers and an infinite then-branch, a relation that recurses through its else-branch) cancelled after 0..k answers or read to the end, with and without SetMaxRoutines; the exported Mplus / Bind on streams nobody closes, then cancel; goroutine count before / 400ms after / 150ms later, each case in its own process; non-trivial = the case has an early exit (a failing conjunct, or a cancel before the last answer); distinct by case parameters"
	} else {
		rep.Rule = "finite ConcatO split searches read to the end under SetMaxRoutines(max) for max in 1..100 (far below the search's goroutine depth) and max in the millions (far above it), each case in its own process; the limit installed twice; searches on cancelled children of the limited context; one limited context reused for 2..4 searches with idle refill periods of 15..55ms in between; disjunctions of 4..9 sibling branches that finish at the same instant (rendezvous) under max in 1..3, 15..30 rounds; compared with the unlimited run: terminates (bound 8s) with the same multiset of answers; non-trivial = max is smaller than the list length + 2; distinct by case parameters"
	}
	iso := isolate(prop, cfg, len(cases), 1, 12*time.Second)
	for i, c := range cases {
		desc := c.String()
		if cfg.Only >= 0 && cfg.Only != i {
			rep.CaseDesc = append(rep.CaseDesc, "")
			rep.CaseObs = append(rep.CaseObs, "")
			continue
		}
		rep.Evaluations++
		rep.hist(c.Kind)
		if reason, div := iso.Diverged[i]; div {
			rep.CaseDesc = append(rep.CaseDesc, desc)
			rep.CaseObs = append(rep.CaseObs, "worker died: "+reason)
			rep.violate(i, "does-not-terminate", desc, "the case did not finish in its worker process: "+reason)
			continue
		}
		var o leakObs
		if err := json.Unmarshal([]byte(iso.Obs[i]), &o); err != nil {
			rep.violate(i, "no-observation", desc, "")
			rep.CaseDesc = append(rep.CaseDesc, desc)
			rep.CaseObs = append(rep.CaseObs, "")
			continue
		}
		obs := fmt.Sprintf("goroutines base=%d after=%d later=%d growing=%v how=%s answers=%d in %dms", o.Base, o.After, o.Later, o.Growing, o.How, len(o.Answers), o.Millis)
		rep.CaseDesc = append(rep.CaseDesc, desc)
		rep.CaseObs = append(rep.CaseObs, obs)
		rep.sample(desc + " => " + obs)
		if prop == "C11" {
			if c.End%4 == 3 && o.How == "timeout" {
				rep.violate(i, "channel-never-closed", desc, "the context was cancelled before Run was called; the channel Run returned was not closed within 8s (a `for range` over it never ends): "+obs)
			}
			if o.Later > o.Base {
				kind := "goroutines-leaked"
				if o.Growing {
					kind = "goroutines-still-spawning-after-cancel"
				}
				rep.violate(i, kind, desc, fmt.Sprintf("%s; first stacks:\n%s", obs, o.Stacks))
			}
			if c.Take >= 0 || strings.HasPrefix(c.Kind, "conc-conj") {
				rep.nontrivial(desc)
			}
		} else {
			want := c.N + 1
			switch c.Kind {
			case "limit-reuse":
				want = (c.N + 1) * c.Calls
			case "limit-burst":
				want = c.N * c.Calls
			}
			if o.How != "closed" {
				rep.violate(i, "limit-changes-termination", desc, fmt.Sprintf("with max=%d the search did not finish within its time bound (%s; %s); the unlimited search has %d answers", c.Max, o.How, obs, want))
			} else if len(o.Answers) != want {
				rep.violate(i, "limit-changes-answers", desc, fmt.Sprintf("with max=%d: %d answers, unlimited: %d", c.Max, len(o.Answers), want))
			}
			if c.Max < c.N+2 {
				rep.nontrivial(desc)
			}
		}
	}
	return rep
}
