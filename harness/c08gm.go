package main

// C08, gomini part, container shapes: the query is bound to a value whose leaves (pointers to strings, some of them logic
// variables) sit in EVERY kind of container gomini's rewrite descends into - struct fields, slice elements, Go map values,
// nested structs - and the variables are bound directly, through chains of other variables, or not at all.  Every bound
// variable reachable from the query must be replaced by its value, every unbound one must stay its placeholder, the
// answer has the query's Go type and the caller's containers are not written.

import (
	"context"
	"fmt"
	"math/rand"
	"reflect"
	"sort"
	"strings"
	"time"

	"github.com/awalterschulze/gominikanren/gomini"
)

// GM is a record with leaves in a struct field, a slice, a map and a nested record.
type GM struct {
	P *string
	L []*string
	M map[string]*string
	N *GM
}

// gmLeaf is a leaf description: a variable (index >= 0), a constant, or nil.
type gmLeaf struct {
	v   int // variable number, -1 if none
	c   string
	nil bool
}

type gmShape struct {
	P *gmLeaf
	L []*gmLeaf
	M map[string]*gmLeaf
	N *gmShape
}

type gmapCase struct {
	nv     int
	bind   []int // bind[k]: -1 unbound, -2 bound to the constant consts[k], j>k bound to variable j
	consts []string
	shape  *gmShape
	named  bool
	desc   string
}

func genGMap(r *rand.Rand) *gmapCase {
	c := &gmapCase{nv: 1 + r.Intn(5), named: r.Intn(2) == 0}
	c.bind = make([]int, c.nv)
	c.consts = make([]string, c.nv)
	for k := 0; k < c.nv; k++ {
		switch {
		case r.Intn(3) == 0:
			c.bind[k] = -1
		case k+1 < c.nv && r.Intn(2) == 0:
			c.bind[k] = k + 1 + r.Intn(c.nv-k-1)
		default:
			c.bind[k] = -2
			c.consts[k] = pick(r, []string{"alice", "bob", "", ",x"})
		}
	}
	leaf := func() *gmLeaf {
		switch r.Intn(5) {
		case 0:
			return &gmLeaf{v: -1, nil: true}
		case 1:
			return &gmLeaf{v: -1, c: pick(r, []string{"k", "", "alice"})}
		}
		return &gmLeaf{v: r.Intn(c.nv)}
	}
	var shape func(d int) *gmShape
	shape = func(d int) *gmShape {
		s := &gmShape{P: leaf()}
		for n := r.Intn(3); n > 0; n-- {
			s.L = append(s.L, leaf())
		}
		if r.Intn(4) != 0 {
			s.M = map[string]*gmLeaf{}
			for n := 1 + r.Intn(3); n > 0; n-- {
				s.M[pick(r, []string{"k1", "k2", "k3", "k4"})] = leaf()
			}
		}
		if d > 0 && r.Intn(2) == 0 {
			s.N = shape(d - 1)
		}
		return s
	}
	c.shape = shape(2)
	bs := []string{}
	for k, b := range c.bind {
		switch {
		case b == -2:
			bs = append(bs, fmt.Sprintf("?%d == %q", k+1, c.consts[k]))
		case b >= 0:
			bs = append(bs, fmt.Sprintf("?%d == ?%d", k+1, b+1))
		}
	}
	c.desc = fmt.Sprintf("gomini.Run query ?0 == %s with %d string variables, %s, named-placeholders=%v", c.shape.show(), c.nv, strings.Join(bs, " & "), c.named)
	return c
}

func (l *gmLeaf) show() string {
	switch {
	case l.nil:
		return "nil"
	case l.v >= 0:
		return fmt.Sprintf("?%d", l.v+1)
	}
	return fmt.Sprintf("%q", l.c)
}

func (s *gmShape) show() string {
	if s == nil {
		return "nil"
	}
	ls := []string{}
	for _, l := range s.L {
		ls = append(ls, l.show())
	}
	ms := []string{}
	for k, l := range s.M {
		ms = append(ms, k+":"+l.show())
	}
	sort.Strings(ms)
	m := "nil"
	if s.M != nil {
		m = "map{" + strings.Join(ms, " ") + "}"
	}
	return fmt.Sprintf("&GM{P:%s L:[%s] M:%s N:%s}", s.P.show(), strings.Join(ls, " "), m, s.N.show())
}

func runGMap(c *gmapCase, rep *Report, idx int) (string, string) {
	var st *gomini.State
	if c.named {
		st = gomini.NewState(namedCreator)
	} else {
		st = gomini.NewState()
	}
	vars := make([]*string, 0, c.nv)
	isPlaceholder := map[uintptr]int{}
	var built *GM
	leafPtrs := map[*gmLeaf]*string{} // what the caller put at each leaf position
	mk := func(l *gmLeaf) *string {
		var p *string
		switch {
		case l.nil:
		case l.v >= 0:
			p = vars[l.v]
		default:
			s := l.c
			p = &s
		}
		leafPtrs[l] = p
		return p
	}
	var build func(s *gmShape) *GM
	build = func(s *gmShape) *GM {
		if s == nil {
			return nil
		}
		g := &GM{P: mk(s.P)}
		for _, l := range s.L {
			g.L = append(g.L, mk(l))
		}
		if s.M != nil {
			g.M = map[string]*string{}
			for k, l := range s.M {
				g.M[k] = mk(l)
			}
		}
		g.N = build(s.N)
		return g
	}
	var body func(k int, q *GM) gomini.Goal
	body = func(k int, q *GM) gomini.Goal {
		if k == c.nv {
			built = build(c.shape)
			gs := []gomini.Goal{gomini.EqualO(q, built)}
			for i, b := range c.bind {
				switch {
				case b == -2:
					s := c.consts[i]
					gs = append(gs, gomini.EqualO(vars[i], &s))
				case b >= 0:
					gs = append(gs, gomini.EqualO(vars[i], vars[b]))
				}
			}
			return gomini.ConjO(gs...)
		}
		return gomini.ExistO(func(x *string) gomini.Goal {
			isPlaceholder[reflect.ValueOf(x).Pointer()] = len(vars)
			vars = append(vars, x)
			return body(k+1, q)
		})
	}
	ctx, cancel := context.WithTimeout(context.Background(), 10*time.Second)
	defer cancel()
	answers := gomini.RunTake(ctx, -1, st, func(q *GM) gomini.Goal { return body(0, q) })
	obs := fmt.Sprintf("%d answer(s)", len(answers))
	// the same run for the transcribed algorithm (coq/GCore.v): query = variable 0, string variable i = variable i+1
	strG := func(s string) string { return "(GPtr (GScalar 1%N (" + strings.TrimSuffix(strNum(s), "%N") + ")%Z))" }
	var shapeG func(s *gmShape) string
	leafG := func(l *gmLeaf) string {
		switch {
		case l.nil:
			return "GNilPtr"
		case l.v >= 0:
			return "(gvar " + coqN(uint64(l.v+1)) + ")"
		}
		return strG(l.c)
	}
	shapeG = func(s *gmShape) string {
		if s == nil {
			return "GNilPtr"
		}
		ls := []string{}
		for _, l := range s.L {
			ls = append(ls, leafG(l))
		}
		lG := "(GSlice true [])"
		if len(ls) > 0 {
			lG = "(GSlice false " + coqList(ls) + ")"
		}
		mG := "(GMap true [])"
		if s.M != nil {
			keys := []string{}
			for k := range s.M {
				keys = append(keys, k)
			}
			sort.Strings(keys)
			es := []string{}
			for _, k := range keys {
				es = append(es, "("+strNum(k)+", "+leafG(s.M[k])+")")
			}
			mG = "(GMap false " + coqList(es) + ")"
		}
		return "(GStructPtr [" + leafG(s.P) + "; " + lG + "; " + mG + "; " + shapeG(s.N) + "])"
	}
	eqs := []string{"((gvar 0%N), " + shapeG(c.shape) + ")"}
	for i, b := range c.bind {
		switch {
		case b == -2:
			eqs = append(eqs, "((gvar "+coqN(uint64(i+1))+"), "+strG(c.consts[i])+")")
		case b >= 0:
			eqs = append(eqs, "((gvar "+coqN(uint64(i+1))+"), (gvar "+coqN(uint64(b+1))+"))")
		}
	}
	var ansG func(g *GM) string
	ptrG := func(p *string) string {
		if p == nil {
			return "GNilPtr"
		}
		if j, isPh := isPlaceholder[reflect.ValueOf(p).Pointer()]; isPh {
			return "(gvar " + coqN(uint64(j+1)) + ")"
		}
		return strG(*p)
	}
	ansG = func(g *GM) string {
		if g == nil {
			return "GNilPtr"
		}
		lG := "(GSlice true [])"
		if g.L != nil {
			ls := []string{}
			for _, p := range g.L {
				ls = append(ls, ptrG(p))
			}
			lG = "(GSlice false " + coqList(ls) + ")"
		}
		mG := "(GMap true [])"
		if g.M != nil {
			keys := []string{}
			for k := range g.M {
				keys = append(keys, k)
			}
			sort.Strings(keys)
			es := []string{}
			for _, k := range keys {
				es = append(es, "("+strNum(k)+", "+ptrG(g.M[k])+")")
			}
			mG = "(GMap false " + coqList(es) + ")"
		}
		return "(GStructPtr [" + ptrG(g.P) + "; " + lG + "; " + mG + "; " + ansG(g.N) + "])"
	}
	ansL := []string{}
	for _, a := range answers {
		if g, isG := a.(*GM); isG {
			ansL = append(ansL, ansG(g))
		} else {
			ansL = append(ansL, "GNil")
		}
	}
	coqCase := fmt.Sprintf("CGRun (gvar 0%%N) %s %s", coqList(eqs), coqList(ansL))
	if len(answers) != 1 {
		rep.violate(idx, "gomini-run-answer-count", c.desc, fmt.Sprintf("%d answers, expected 1", len(answers)))
		return obs, coqCase
	}
	ans, ok := answers[0].(*GM)
	if !ok {
		rep.violate(idx, "gomini-run-wrong-type", c.desc, fmt.Sprintf("the answer has dynamic type %T, not the query's type *GM", answers[0]))
		return obs, coqCase
	}
	// what a leaf must resolve to: follow the chain of bindings
	resolve := func(v int) (int, string, bool) { // (unbound variable, "", false) or (-1, constant, true)
		for {
			switch b := c.bind[v]; {
			case b == -1:
				return v, "", false
			case b == -2:
				return -1, c.consts[v], true
			default:
				v = b
			}
		}
	}
	bad := []string{}
	checkLeaf := func(where string, l *gmLeaf, got *string) {
		switch {
		case l.nil:
			if got != nil {
				bad = append(bad, where+": nil became non-nil")
			}
		case l.v < 0:
			if got == nil || *got != l.c {
				bad = append(bad, fmt.Sprintf("%s: constant %q changed", where, l.c))
			}
		default:
			u, cst, bound := resolve(l.v)
			if bound {
				if got == nil {
					bad = append(bad, fmt.Sprintf("%s: bound variable ?%d became nil", where, l.v+1))
				} else if j, isPh := isPlaceholder[reflect.ValueOf(got).Pointer()]; isPh {
					bad = append(bad, fmt.Sprintf("%s: variable ?%d has the value %q but the answer still holds the placeholder of ?%d (contents %q)", where, l.v+1, cst, j+1, *got))
				} else if *got != cst {
					bad = append(bad, fmt.Sprintf("%s: variable ?%d has the value %q, the answer shows %q", where, l.v+1, cst, *got))
				}
			} else if got != vars[u] {
				bad = append(bad, fmt.Sprintf("%s: variable ?%d resolves to the unbound ?%d, whose placeholder must be kept", where, l.v+1, u+1))
			}
		}
	}
	var cmp func(where string, s *gmShape, g *GM)
	cmp = func(where string, s *gmShape, g *GM) {
		if (s == nil) != (g == nil) {
			bad = append(bad, where+": nil-ness of a record changed")
			return
		}
		if s == nil {
			return
		}
		checkLeaf(where+".P", s.P, g.P)
		if len(g.L) != len(s.L) {
			bad = append(bad, fmt.Sprintf("%s.L: length %d, expected %d", where, len(g.L), len(s.L)))
		} else {
			for i, l := range s.L {
				checkLeaf(fmt.Sprintf("%s.L[%d]", where, i), l, g.L[i])
			}
		}
		if (s.M == nil) != (g.M == nil) || len(s.M) != len(g.M) {
			bad = append(bad, fmt.Sprintf("%s.M: %d entries (nil=%v), expected %d (nil=%v)", where, len(g.M), g.M == nil, len(s.M), s.M == nil))
		} else {
			for k, l := range s.M {
				got, present := g.M[k]
				if !present {
					bad = append(bad, fmt.Sprintf("%s.M[%s] missing", where, k))
					continue
				}
				checkLeaf(fmt.Sprintf("%s.M[%s]", where, k), l, got)
			}
		}
		cmp(where+".N", s.N, g.N)
	}
	cmp("answer", c.shape, ans)
	if len(bad) > 0 {
		sort.Strings(bad)
		rep.violate(idx, "gomini-run-not-resolved", c.desc, strings.Join(bad, "; "))
	}
	// the caller's value is untouched: every leaf position still holds the pointer the caller put there
	var same func(where string, s *gmShape, g *GM)
	same = func(where string, s *gmShape, g *GM) {
		if s == nil || g == nil {
			return
		}
		okk := g.P == leafPtrs[s.P] && len(g.L) == len(s.L) && len(g.M) == len(s.M)
		for i, l := range s.L {
			okk = okk && i < len(g.L) && g.L[i] == leafPtrs[l]
		}
		for k, l := range s.M {
			okk = okk && g.M[k] == leafPtrs[l]
		}
		if !okk {
			rep.violate(idx, "gomini-run-modified-caller-term", c.desc, where+" was written")
		}
		same(where+".N", s.N, g.N)
	}
	same("caller's term", c.shape, built)
	return obs + " *GM", coqCase
}
