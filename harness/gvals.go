package main

// A small typed universe of pointer-shaped Go values for the gomini engine, with logic variables created through the
// real gomini API, their encoding as model terms, and reading values back out of gomini states.

import (
	"context"
	"fmt"
	"math/rand"
	"reflect"
	"sort"
	"strings"
	"time"

	"github.com/awalterschulze/gominikanren/gomini"
	"github.com/awalterschulze/gominikanren/micro"
	"github.com/awalterschulze/gominikanren/sexpr/ast"
)

// GT is the struct type of the universe: pointers to structs, a pointer to a scalar, a slice.
type GT struct {
	A *GT
	B *GT
	S *string
	L []*GT
}

// gv is a typed value description. Sorts: "t" (*GT), "s" (*string), "l" ([]*GT).
type gv struct {
	K   string // tvar tnil tstruct | svar snil sstr | slice nilslice
	I   int    // variable number (creation order)
	F   []*gv  // tstruct: A B S L ; slice: elements
	Str string
}

func (g *gv) sort() string {
	switch g.K {
	case "tvar", "tnil", "tstruct":
		return "t"
	case "svar", "snil", "sstr":
		return "s"
	}
	return "l"
}

var tagStruct = ast.NewSymbol("GT")
var tagSlice = ast.NewString("slice")

// toTerm encodes a value description as a micro term (see coq/Corr04.v).
func (g *gv) toTerm() *ast.SExpr {
	switch g.K {
	case "tvar", "svar":
		return micro.Var(uint64(g.I))
	case "tnil", "snil":
		return nil
	case "sstr":
		return ast.NewString(g.Str)
	case "tstruct":
		var l *ast.SExpr
		for i := len(g.F) - 1; i >= 0; i-- {
			l = ast.Cons(g.F[i].toTerm(), l)
		}
		return ast.Cons(tagStruct, l)
	case "slice", "nilslice":
		var l *ast.SExpr
		for i := len(g.F) - 1; i >= 0; i-- {
			l = ast.Cons(g.F[i].toTerm(), l)
		}
		return ast.Cons(tagSlice, l)
	}
	panic("toTerm " + g.K)
}

// coqG writes the value as reflecttools sees it (coq/Reflect.v gval), a registered variable pointer as `gvar i` (coq/GCore.v).
func (g *gv) coqG() string {
	kids := func() string {
		parts := make([]string, len(g.F))
		for i, f := range g.F {
			parts[i] = f.coqG()
		}
		return coqList(parts)
	}
	switch g.K {
	case "tvar", "svar":
		return "(gvar " + coqN(uint64(g.I)) + ")"
	case "tnil", "snil":
		return "GNilPtr"
	case "sstr":
		return "(GPtr (GScalar 1%N (" + strings.TrimSuffix(strNum(g.Str), "%N") + ")%Z))"
	case "tstruct":
		return "(GStructPtr " + kids() + ")"
	case "nilslice":
		return "(GSlice true [])"
	case "slice":
		return "(GSlice false " + kids() + ")"
	}
	panic("coqG " + g.K)
}

type gbind struct {
	k int
	v *gv
}

func coqGSub(bs []gbind) string {
	parts := make([]string, len(bs))
	for i, b := range bs {
		parts[i] = "(" + coqN(uint64(b.k)) + ", " + b.v.coqG() + ")"
	}
	return coqList(parts)
}

// bindingsG reads the substitution of a state as (variable number, value description), for the variables of this world.
func (w *gworld) bindingsG(st *gomini.State) []gbind {
	out := []gbind{}
	for i, p := range w.ptrs {
		key, ok := st.CastVar(p)
		if !ok {
			continue
		}
		if v, ok := st.Get(key); ok {
			out = append(out, gbind{i, w.fromGo(v)})
		}
	}
	return out
}

// gworld holds a gomini state with its variables (in creation order) under one placeholder policy.
type gworld struct {
	st    *gomini.State
	sorts []string // sort of variable i
	ptrs  []any    // placeholder pointer of variable i (*GT or *string)
	byPtr map[uintptr]int
	named bool
	// share: build structurally identical sub-values as ONE Go object, and a slice that is a prefix of an earlier
	// slice as a re-slice of it (same backing array, shorter length). Terms are immutable values, so sharing must not
	// change any outcome; an implementation that short-cuts on pointer identity or on the backing array can get it wrong.
	share  bool
	built  map[string]any
	slices []sharedSlice
}

type sharedSlice struct {
	keys []string
	val  []*GT
}

func namedCreator(varTyp any, name string) (any, bool) {
	switch varTyp.(type) {
	case *GT:
		n := "," + name
		return &GT{S: &n}, true
	case *string:
		n := "," + name
		return &n, true
	}
	return nil, false
}

func newWorld(named bool, sorts []string) *gworld {
	w := &gworld{byPtr: map[uintptr]int{}, named: named}
	if named {
		w.st = gomini.NewState(namedCreator)
	} else {
		w.st = gomini.NewState()
	}
	for _, so := range sorts {
		w.newVar(so)
	}
	return w
}

func (w *gworld) newVar(sort string) int {
	i := len(w.ptrs)
	switch sort {
	case "t":
		var p *GT
		w.st, p = gomini.NewVar[*GT](w.st)
		w.ptrs = append(w.ptrs, p)
		w.byPtr[reflect.ValueOf(p).Pointer()] = i
	case "s":
		var p *string
		w.st, p = gomini.NewVar[*string](w.st)
		w.ptrs = append(w.ptrs, p)
		w.byPtr[reflect.ValueOf(p).Pointer()] = i
	default:
		panic("no variables of sort " + sort)
	}
	w.sorts = append(w.sorts, sort)
	return i
}

// toGo builds the Go value; every non-variable node is freshly allocated.
func (w *gworld) toGo(g *gv) any {
	switch g.K {
	case "tvar":
		return w.ptrs[g.I].(*GT)
	case "svar":
		return w.ptrs[g.I].(*string)
	case "tnil":
		return (*GT)(nil)
	case "snil":
		return (*string)(nil)
	case "sstr":
		s := g.Str
		return &s
	case "tstruct":
		key := ""
		if w.share {
			key = g.coqG() // distinguishes a nil slice from an empty one
			if v, ok := w.built[key]; ok {
				return v
			}
		}
		out := &GT{A: w.toGo(g.F[0]).(*GT), B: w.toGo(g.F[1]).(*GT), S: w.toGo(g.F[2]).(*string), L: w.toGo(g.F[3]).([]*GT)}
		if w.share {
			if w.built == nil {
				w.built = map[string]any{}
			}
			w.built[key] = out
		}
		return out
	case "nilslice":
		return []*GT(nil)
	case "slice":
		keys := make([]string, len(g.F))
		if w.share {
			for i, e := range g.F {
				keys[i] = e.coqG()
			}
		search:
			for _, sl := range w.slices {
				if len(sl.keys) < len(keys) {
					continue
				}
				for i := range keys {
					if sl.keys[i] != keys[i] {
						continue search
					}
				}
				return sl.val[:len(keys)] // a prefix (or the whole) of an earlier slice: same backing array
			}
		}
		out := make([]*GT, len(g.F))
		for i, e := range g.F {
			out[i] = w.toGo(e).(*GT)
		}
		if w.share && len(out) > 0 {
			w.slices = append(w.slices, sharedSlice{keys, out})
		}
		return out
	}
	panic("toGo " + g.K)
}

// prebuild (share mode): builds every slice that occurs in the given descriptions, longest first, so that a shorter list
// aliases the backing array of a longer one with the same leading elements WHEREVER the two occur - also when the shorter
// one comes first in the term.
func (w *gworld) prebuild(ts ...*gv) {
	if !w.share {
		return
	}
	var all []*gv
	var collect func(g *gv)
	collect = func(g *gv) {
		if g == nil {
			return
		}
		for _, f := range g.F {
			collect(f)
		}
		if g.K == "slice" && len(g.F) > 0 {
			all = append(all, g)
		}
	}
	for _, t := range ts {
		collect(t)
	}
	sort.SliceStable(all, func(i, j int) bool { return len(all[i].F) > len(all[j].F) })
	for _, g := range all {
		w.toGo(g)
	}
}

// fromGo reads a Go value back into a description; pointers that are placeholders of this world are variables.
func (w *gworld) fromGo(x any) *gv {
	switch v := x.(type) {
	case gomini.Var:
		if i, ok := w.byPtr[uintptr(v)]; ok {
			k := "tvar"
			if w.sorts[i] == "s" {
				k = "svar"
			}
			return &gv{K: k, I: i}
		}
		return &gv{K: "sstr", Str: fmt.Sprintf("<gomini.Var %d>", uintptr(v))}
	case *GT:
		if v == nil {
			return &gv{K: "tnil"}
		}
		if i, ok := w.byPtr[reflect.ValueOf(v).Pointer()]; ok {
			return &gv{K: "tvar", I: i}
		}
		return &gv{K: "tstruct", F: []*gv{w.fromGo(v.A), w.fromGo(v.B), w.fromGo(v.S), w.fromGo(v.L)}}
	case *string:
		if v == nil {
			return &gv{K: "snil"}
		}
		if i, ok := w.byPtr[reflect.ValueOf(v).Pointer()]; ok {
			return &gv{K: "svar", I: i}
		}
		return &gv{K: "sstr", Str: *v}
	case []*GT:
		if v == nil {
			return &gv{K: "nilslice"}
		}
		out := &gv{K: "slice"}
		for _, e := range v {
			out.F = append(out.F, w.fromGo(e))
		}
		return out
	}
	return &gv{K: "sstr", Str: fmt.Sprintf("<unexpected %T>", x)}
}

// bindings reads the substitution of a state as (variable number -> value), for the variables of this world.
func (w *gworld) bindings(st *gomini.State) micro.Substitutions {
	out := micro.Substitutions{}
	for i, p := range w.ptrs {
		key, ok := st.CastVar(p)
		if !ok {
			continue
		}
		if v, ok := st.Get(key); ok {
			out = append(out, micro.SubPair{Key: uint64(i), Value: w.fromGo(v).toTerm()})
		}
	}
	return out
}

// ---------- generators ----------

type gvGen struct {
	r     *rand.Rand
	sorts []string
	trunc bool // abstract may also cut a slice down to a proper prefix
}

func (g *gvGen) varsOf(sort string) []int {
	out := []int{}
	for i, s := range g.sorts {
		if s == sort {
			out = append(out, i)
		}
	}
	return out
}

var gStrs = []string{"a", "b", "", ",v0", ",v1"}

func (g *gvGen) val(sort string, depth int, above int) *gv {
	r := g.r
	vs := []int{}
	for _, i := range g.varsOf(sort) {
		if i > above {
			vs = append(vs, i)
		}
	}
	switch sort {
	case "s":
		switch {
		case len(vs) > 0 && r.Intn(3) == 0:
			return &gv{K: "svar", I: pick(r, vs)}
		case r.Intn(5) == 0:
			return &gv{K: "snil"}
		default:
			return &gv{K: "sstr", Str: pick(r, gStrs)}
		}
	case "l":
		if depth <= 0 || r.Intn(3) == 0 {
			if r.Intn(2) == 0 {
				return &gv{K: "nilslice"}
			}
			return &gv{K: "slice"}
		}
		out := &gv{K: "slice"}
		for n := 1 + r.Intn(2); n > 0; n-- {
			out.F = append(out.F, g.val("t", depth-1, above))
		}
		return out
	default:
		switch {
		case len(vs) > 0 && r.Intn(3) == 0:
			return &gv{K: "tvar", I: pick(r, vs)}
		case depth <= 0 || r.Intn(4) == 0:
			if r.Intn(3) == 0 {
				// a constant that looks exactly like a zero-valued placeholder
				return &gv{K: "tstruct", F: []*gv{{K: "tnil"}, {K: "tnil"}, {K: "snil"}, {K: "nilslice"}}}
			}
			return &gv{K: "tnil"}
		default:
			return &gv{K: "tstruct", F: []*gv{g.val("t", depth-1, above), g.val("t", depth-1, above), g.val("s", depth-1, above), g.val("l", depth-1, above)}}
		}
	}
}

// abstract replaces random sub-values by variables of the right sort (so that unification is likely to succeed).
func (g *gvGen) abstract(v *gv) *gv {
	r := g.r
	if vs := g.varsOf(v.sort()); len(vs) > 0 && v.sort() != "l" && r.Intn(4) == 0 {
		k := "tvar"
		if v.sort() == "s" {
			k = "svar"
		}
		return &gv{K: k, I: pick(r, vs)}
	}
	cp := *v
	if v.K == "slice" && len(v.F) > 0 && g.trunc && r.Intn(3) == 0 {
		// a proper prefix of the list (same leading elements): a different list, never unifiable with the whole one
		cp.F = append([]*gv{}, v.F[:r.Intn(len(v.F))]...)
		return &cp
	}
	cp.F = make([]*gv, len(v.F))
	for i, f := range v.F {
		cp.F[i] = g.abstract(f)
	}
	return &cp
}

// runGoal runs a gomini goal on a state and collects the states written to the stream (with a watchdog).
func runGoal(g gomini.Goal, st *gomini.State, limit int, timeout time.Duration) ([]*gomini.State, string) {
	ctx, cancel := context.WithCancel(context.Background())
	defer cancel()
	ss := gomini.NewStreamForGoal(ctx, g, st)
	out := []*gomini.State{}
	timer := time.After(timeout)
	for {
		select {
		case s, ok := <-ss:
			if !ok {
				return out, "closed"
			}
			out = append(out, s)
			if limit >= 0 && len(out) >= limit {
				return out, "limit"
			}
		case <-timer:
			return out, "timeout"
		}
	}
}
