package main

// C17: the gomini/regex relations against Brzozowski-derivative semantics computed directly in Go
// (independent oracle), under both placeholder policies.

import (
	"context"
	"fmt"
	"math/rand"
	"sort"
	"strings"
	"time"

	"github.com/awalterschulze/gominikanren/gomini"
	"github.com/awalterschulze/gominikanren/gomini/regex"
)

func init() { register("C17", runC17) }

// ---------- reference semantics ----------

type rgx17 struct {
	K    string // set eps chr or cat star
	C    rune
	A, B *rgx17
}

func (r *rgx17) String() string {
	switch r.K {
	case "set":
		return "∅"
	case "eps":
		return "ε"
	case "chr":
		return string(r.C)
	case "or":
		return "(" + r.A.String() + "|" + r.B.String() + ")"
	case "cat":
		return "(" + r.A.String() + r.B.String() + ")"
	}
	return "(" + r.A.String() + ")*"
}

// c17PrintFirst: in one case out of three every expression handed to a relation has been printed before (String()): an expression is
// what it denotes, whether or not somebody looked at it
var c17PrintFirst bool

func (r *rgx17) toGo() *regex.Regex {
	g := r.toGo0()
	if c17PrintFirst {
		_ = g.String()
	}
	return g
}

func (r *rgx17) toGo0() *regex.Regex {
	switch r.K {
	case "set":
		return regex.EmptySet()
	case "eps":
		return regex.EmptyStr()
	case "chr":
		return regex.Char(r.C)
	case "or":
		return regex.Or(r.A.toGo(), r.B.toGo())
	case "cat":
		return regex.Concat(r.A.toGo(), r.B.toGo())
	}
	return regex.Star(r.A.toGo())
}

// fromGo reads a ground regex; ok=false if it is not a well-formed ground regex (e.g. contains an unbound placeholder shape).
func rxFromGo17(g *regex.Regex) (*rgx17, bool) {
	if g == nil || g.Type == nil {
		return nil, false
	}
	switch *g.Type {
	case regex.EmptySetType:
		return &rgx17{K: "set"}, g.Char == nil && g.R1 == nil && g.R2 == nil
	case regex.EmptyStrType:
		return &rgx17{K: "eps"}, g.Char == nil && g.R1 == nil && g.R2 == nil
	case regex.CharType:
		if g.Char == nil {
			return nil, false
		}
		return &rgx17{K: "chr", C: *g.Char}, g.R1 == nil && g.R2 == nil
	case regex.OrType, regex.ConcatType:
		a, ok1 := rxFromGo17(g.R1)
		b, ok2 := rxFromGo17(g.R2)
		k := "or"
		if *g.Type == regex.ConcatType {
			k = "cat"
		}
		return &rgx17{K: k, A: a, B: b}, ok1 && ok2 && g.Char == nil
	case regex.StarType:
		a, ok := rxFromGo17(g.R1)
		return &rgx17{K: "star", A: a}, ok && g.Char == nil && g.R2 == nil
	}
	return nil, false
}

func nullable17(r *rgx17) bool {
	switch r.K {
	case "eps", "star":
		return true
	case "or":
		return nullable17(r.A) || nullable17(r.B)
	case "cat":
		return nullable17(r.A) && nullable17(r.B)
	}
	return false
}

// smart constructors (ACI-light normalisation, enough to make the set of derivatives finite in practice)
func mkOr17(a, b *rgx17) *rgx17 {
	if a.K == "set" {
		return b
	}
	if b.K == "set" {
		return a
	}
	if a.String() == b.String() {
		return a
	}
	if a.String() > b.String() {
		a, b = b, a
	}
	return &rgx17{K: "or", A: a, B: b}
}
func mkCat17(a, b *rgx17) *rgx17 {
	if a.K == "set" || b.K == "set" {
		return &rgx17{K: "set"}
	}
	if a.K == "eps" {
		return b
	}
	if b.K == "eps" {
		return a
	}
	return &rgx17{K: "cat", A: a, B: b}
}

func deriv17(r *rgx17, c rune) *rgx17 {
	switch r.K {
	case "set", "eps":
		return &rgx17{K: "set"}
	case "chr":
		if r.C == c {
			return &rgx17{K: "eps"}
		}
		return &rgx17{K: "set"}
	case "or":
		return mkOr17(deriv17(r.A, c), deriv17(r.B, c))
	case "cat":
		d := mkCat17(deriv17(r.A, c), r.B)
		if nullable17(r.A) {
			return mkOr17(d, deriv17(r.B, c))
		}
		return d
	}
	return mkCat17(deriv17(r.A, c), r)
}

func matches17(r *rgx17, s string) bool {
	for _, c := range s {
		r = deriv17(r, c)
	}
	return nullable17(r)
}

// sameLang decides language equality over {a,b} by bisimulation on derivatives (bounded; ok=false if the bound is hit).
func sameLang17(x, y *rgx17) (bool, bool) {
	seen := map[string]bool{}
	todo := [][2]*rgx17{{x, y}}
	for len(todo) > 0 {
		p := todo[0]
		todo = todo[1:]
		key := p[0].String() + " ~ " + p[1].String()
		if seen[key] {
			continue
		}
		seen[key] = true
		if len(seen) > 4000 {
			return false, false
		}
		if nullable17(p[0]) != nullable17(p[1]) {
			return false, true
		}
		for _, c := range "ab" {
			todo = append(todo, [2]*rgx17{deriv17(p[0], c), deriv17(p[1], c)})
		}
	}
	return true, true
}

func genRx17(r *rand.Rand, size int) *rgx17 {
	if size <= 1 {
		switch r.Intn(6) {
		case 0:
			return &rgx17{K: "set"}
		case 1:
			return &rgx17{K: "eps"}
		case 2, 3:
			return &rgx17{K: "chr", C: 'a'}
		default:
			return &rgx17{K: "chr", C: 'b'}
		}
	}
	switch r.Intn(5) {
	case 0, 1:
		k := 1 + r.Intn(size-1)
		return &rgx17{K: "cat", A: genRx17(r, k), B: genRx17(r, size-k)}
	case 2, 3:
		k := 1 + r.Intn(size-1)
		return &rgx17{K: "or", A: genRx17(r, k), B: genRx17(r, size-k)}
	}
	return &rgx17{K: "star", A: genRx17(r, size-1)}
}

func createVarRegex(varTyp any, name string) (any, bool) {
	switch varTyp.(type) {
	case *regex.Regex:
		rs := []rune(name)
		res := regex.Char(rs[len(rs)-1])
		for i := len(rs) - 2; i >= 0; i-- {
			res = regex.Concat(regex.Char(rs[i]), res)
		}
		return res, true
	case *rune:
		n := strings.TrimPrefix(strings.TrimPrefix(name, ","), "v")
		c := []rune(n)[0]
		return &c, true
	}
	return nil, false
}

// runRegex runs a goal with a *Regex query variable and returns the answers (ground ones decoded) and how the run ended.
func runRegex(named bool, n int, timeout time.Duration, f func(q *regex.Regex) gomini.Goal) ([]*regex.Regex, string) {
	ctx, cancel := context.WithTimeout(context.Background(), timeout)
	defer cancel()
	var st *gomini.State
	if named {
		st = gomini.NewState(createVarRegex)
	} else {
		st = gomini.NewState()
	}
	done := make(chan []any, 1)
	go func() { done <- gomini.RunTake(ctx, n, st, f) }()
	select {
	case as := <-done:
		out := make([]*regex.Regex, 0, len(as))
		for _, a := range as {
			if r, ok := a.(*regex.Regex); ok {
				out = append(out, r)
			} else {
				out = append(out, nil)
			}
		}
		how := "closed"
		if ctx.Err() != nil {
			how = "timeout"
		}
		return out, how
	case <-time.After(timeout + 2*time.Second):
		return nil, "hang"
	}
}

func showAnswers(as []*regex.Regex) string {
	parts := make([]string, len(as))
	for i, a := range as {
		if r, ok := rxFromGo17(a); ok {
			parts[i] = r.String()
		} else {
			parts[i] = "<non-ground>"
		}
	}
	sort.Strings(parts)
	return "[" + strings.Join(parts, " ") + "]"
}

// c17Case is one regular expression, string, character, relation kind (0..7) and placeholder policy.
type c17Case struct {
	re    *rgx17
	s     string
	c     rune
	kind  int
	named bool
}

// enumRx17 lists all regular expressions with exactly n nodes over {∅, ε, a, b}.
func enumRx17(n int) []*rgx17 {
	if n == 1 {
		return []*rgx17{{K: "set"}, {K: "eps"}, {K: "chr", C: 'a'}, {K: "chr", C: 'b'}}
	}
	out := []*rgx17{}
	for _, a := range enumRx17(n - 1) {
		out = append(out, &rgx17{K: "star", A: a})
	}
	for k := 1; k < n-1; k++ {
		for _, a := range enumRx17(k) {
			for _, b := range enumRx17(n - 1 - k) {
				out = append(out, &rgx17{K: "or", A: a, B: b}, &rgx17{K: "cat", A: a, B: b})
			}
		}
	}
	return out
}

// sweepCases17: the exhaustive small scope used as failing-input search (and in the thorough tier): every expression
// with at most 4 nodes (5 in the thorough tier) x every relation on ground input x strings up to length 2.
func sweepCases17(tier string) []c17Case {
	maxn := 4
	if tier == "thorough" {
		maxn = 5
	}
	out := []c17Case{}
	for n := 1; n <= maxn; n++ {
		for k, re := range enumRx17(n) {
			if n == 5 && k%6 != 0 {
				continue // 5 nodes: every sixth expression (their searches are long: many duplicate answers)
			}
			named := len(out)%2 == 0
			out = append(out, c17Case{re, "", 'a', 0, named}, c17Case{re, "", 'a', 1, !named})
			for _, c := range []rune{'a', 'b'} {
				out = append(out, c17Case{re, "", c, 2, named}, c17Case{re, "", c, 3, !named})
			}
			strs := []string{"", "a", "b", "ab", "ba", "aa", "bb"}
			if tier == "thorough" && n <= 4 {
				strs = append(strs, "aab", "aba", "bba")
			}
			if n == 5 {
				strs = []string{"a", "ab"}
			}
			for j, s := range strs {
				out = append(out, c17Case{re, s, 'a', 4 + j%2, named}, c17Case{re, s, 'a', 5 - j%2, !named})
			}
		}
	}
	return out
}

func runC17(cfg *Config) *Report {
	sweep := []c17Case(nil)
	if cfg.Mode == "sweep" {
		sweep = sweepCases17(cfg.Tier)
		cfg.N = len(sweep)
	}
	rep := newReport()
	rep.Rule = "ground regular expressions of size 1..5 over {a,b} x strings of length 0..3 x relation in {NullO, IsNullO, DerivO, SDerivO, MatchO, IsMatchO} x both placeholder policies, ALL answers; plus generation mode (unknown string / unknown derivative) for the first n answers; non-trivial = the regex contains a concatenation or star with a nullable prefix, or the string has length >= 2; distinct by printed case"
	r := newRand(cfg.Seed)
	fixed := []*rgx17{
		{K: "cat", A: &rgx17{K: "star", A: &rgx17{K: "chr", C: 'a'}}, B: &rgx17{K: "chr", C: 'b'}}, // a*b
		{K: "cat", A: &rgx17{K: "or", A: &rgx17{K: "eps"}, B: &rgx17{K: "chr", C: 'a'}}, B: &rgx17{K: "chr", C: 'b'}},
		{K: "star", A: &rgx17{K: "cat", A: &rgx17{K: "chr", C: 'a'}, B: &rgx17{K: "chr", C: 'b'}}},
	}
	strs := []string{"", "a", "b", "ab", "ba", "aa", "bb", "aab"}
	for i := 0; i < cfg.N; i++ {
		var re *rgx17
		if i < len(fixed)*6 {
			re = fixed[i%len(fixed)]
		} else {
			re = genRx17(r, 1+r.Intn(4))
		}
		s := pick(r, strs)
		if i < len(fixed)*6 {
			s = []string{"b", "ab", "", "a", "bb", "abab"}[(i/len(fixed))%6]
		}
		c := pick(r, []rune{'a', 'b'})
		kind := r.Intn(8)
		c17PrintFirst = r.Intn(3) == 0
		if i < len(fixed)*6 {
			kind = []int{4, 5, 2, 3, 0, 4}[(i/len(fixed))%6]
		}
		named := r.Intn(2) == 0
		if sweep != nil {
			if cfg.NShards > 1 && i*cfg.NShards/cfg.N != cfg.Shard {
				rep.CaseDesc = append(rep.CaseDesc, "")
				rep.CaseObs = append(rep.CaseObs, "")
				continue
			}
			re, s, c, kind, named = sweep[i].re, sweep[i].s, sweep[i].c, sweep[i].kind, sweep[i].named
		}
		if cfg.Only >= 0 && cfg.Only != i {
			rep.CaseDesc = append(rep.CaseDesc, "")
			rep.CaseObs = append(rep.CaseObs, "")
			continue
		}
		rep.Evaluations++
		desc, obs := "", ""
		pol := map[bool]string{true: "named placeholders", false: "zero-valued placeholders"}[named]
		tmo := 6 * time.Second
		if sweep != nil {
			tmo = 3 * time.Second
		}
		switch kind {
		case 0: // NullO
			desc = fmt.Sprintf("NullO(%s, q) [%s]", re, pol)
			as, how := runRegex(named, -1, tmo, func(q *regex.Regex) gomini.Goal { return regex.NullO(re.toGo(), q) })
			obs = showAnswers(as) + " " + how
			want := "∅"
			if nullable17(re) {
				want = "ε"
			}
			if how == "closed" && len(as) == 0 {
				rep.violate(i, "nullo-no-verdict", desc, obs)
			}
			for _, a := range as {
				if g, ok := rxFromGo17(a); !ok || g.String() != want {
					rep.violate(i, "nullo-wrong-verdict", desc, fmt.Sprintf("answers %s, expected only %s", obs, want))
					break
				}
			}
		case 1: // IsNullO
			desc = fmt.Sprintf("IsNullO(%s) [%s]", re, pol)
			as, how := runRegex(named, -1, tmo, func(q *regex.Regex) gomini.Goal { return regex.IsNullO(re.toGo()) })
			obs = fmt.Sprintf("%d answer(s) %s", len(as), how)
			if how == "closed" && (len(as) > 0) != nullable17(re) {
				rep.violate(i, "isnullo", desc, fmt.Sprintf("%s, nullable=%v", obs, nullable17(re)))
			}
		case 2, 3: // DerivO / SDerivO: every answer denotes the derivative
			name := "DerivO"
			rel := regex.DerivO
			if kind == 3 {
				name, rel = "SDerivO", regex.SDerivO
			}
			desc = fmt.Sprintf("%s(%s, %c, q) [%s]", name, re, c, pol)
			cc := c
			as, how := runRegex(named, -1, tmo, func(q *regex.Regex) gomini.Goal { return rel(re.toGo(), &cc, q) })
			obs = showAnswers(as) + " " + how
			if how == "closed" && len(as) == 0 {
				rep.violate(i, "deriv-no-answer", desc, obs)
			}
			want := deriv17(re, c)
			for _, a := range as {
				g, ok := rxFromGo17(a)
				if !ok {
					rep.violate(i, "deriv-non-ground-answer", desc, obs)
					break
				}
				if eq, dec := sameLang17(g, want); dec && !eq {
					rep.violate(i, "deriv-wrong-language", desc, fmt.Sprintf("answer %s does not denote the derivative of %s by %c (which is %s); all answers %s", g, re, c, want, obs))
					break
				}
			}
		case 4: // MatchO: a single verdict, the right one
			desc = fmt.Sprintf("MatchO(%s, %q, q) [%s]", re, s, pol)
			as, how := runRegex(named, -1, tmo, func(q *regex.Regex) gomini.Goal { return regex.MatchO(re.toGo(), regex.NewString(s), q) })
			obs = showAnswers(as) + " " + how
			want := "∅"
			if matches17(re, s) {
				want = "ε"
			}
			if how == "closed" && len(as) == 0 {
				rep.violate(i, "matcho-no-verdict", desc, obs)
			}
			for _, a := range as {
				if g, ok := rxFromGo17(a); !ok || g.String() != want {
					rep.violate(i, "matcho-wrong-or-both-verdicts", desc, fmt.Sprintf("answers %s, expected only %s", obs, want))
					break
				}
			}
		case 5: // IsMatchO
			desc = fmt.Sprintf("IsMatchO(%s, %q) [%s]", re, s, pol)
			as, how := runRegex(named, -1, tmo, func(q *regex.Regex) gomini.Goal { return regex.IsMatchO(re.toGo(), regex.NewString(s)) })
			obs = fmt.Sprintf("%d answer(s) %s", len(as), how)
			if how == "closed" && (len(as) > 0) != matches17(re, s) {
				rep.violate(i, "ismatcho", desc, fmt.Sprintf("%s, in-language=%v", obs, matches17(re, s)))
			}
		case 6: // generation mode: which derivative input gives this output? (unknown char)
			desc = fmt.Sprintf("SDerivO(%s, ?c, q) first 4 answers [%s]", re, pol)
			var chars []*rune
			as, how := runRegex(named, 4, tmo, func(q *regex.Regex) gomini.Goal {
				return gomini.ExistO(func(ch *rune) gomini.Goal { chars = append(chars, ch); return regex.SDerivO(re.toGo(), ch, q) })
			})
			obs = showAnswers(as) + " " + how
			for _, a := range as {
				if g, ok := rxFromGo17(a); ok {
					okA, d1 := sameLang17(g, deriv17(re, 'a'))
					okB, d2 := sameLang17(g, deriv17(re, 'b'))
					if d1 && d2 && !okA && !okB {
						rep.violate(i, "generated-derivative-wrong", desc, fmt.Sprintf("answer %s is the derivative of %s by neither a nor b", g, re))
						break
					}
				}
			}
			// the same question asked for the character: every answer is a character of the alphabet, or the character is left
			// unbound (the answer is the query variable itself) - which says "for every character" and is right exactly when the
			// derivatives by a and by b denote the same language (r = ε, ∅, ...)
			{
				ctx, cancel := context.WithTimeout(context.Background(), tmo)
				var st *gomini.State
				if named {
					st = gomini.NewState(createVarRegex)
				} else {
					st = gomini.NewState()
				}
				var chVar *rune
				cs := gomini.RunTake(ctx, 4, st, func(ch *rune) gomini.Goal {
					chVar = ch
					return gomini.ExistO(func(dr *regex.Regex) gomini.Goal { return regex.SDerivO(re.toGo(), ch, dr) })
				})
				cancel()
				for _, a := range cs {
					c, ok := a.(*rune)
					if !ok {
						continue
					}
					if c != nil && c == chVar { // unbound
						if same, decided := sameLang17(deriv17(re, 'a'), deriv17(re, 'b')); decided && !same {
							rep.violate(i, "generated-character-outside-alphabet", desc, fmt.Sprintf("SDerivO(%s, ?c, ?dr) has an answer that leaves the character unbound, although the derivatives by a and by b differ", re))
							break
						}
						continue
					}
					if c == nil || (*c != 'a' && *c != 'b') {
						show := "nil"
						if c != nil {
							show = fmt.Sprintf("%q", *c)
						}
						rep.violate(i, "generated-character-outside-alphabet", desc, fmt.Sprintf("SDerivO(%s, ?c, ?dr) answers the character %s", re, show))
						break
					}
				}
			}
		default: // generation mode: strings of the language
			desc = fmt.Sprintf("IsMatchO(%s, ?s) via MatchO-style generation, first 3 answers [%s]", re, pol)
			ctx, cancel := context.WithTimeout(context.Background(), tmo)
			var st *gomini.State
			if named {
				st = gomini.NewState(createVarRegex)
			} else {
				st = gomini.NewState()
			}
			as := gomini.RunTake(ctx, 3, st, func(q *regex.String) gomini.Goal { return regex.IsMatchO(re.toGo(), q) })
			cancel()
			strsOut := []string{}
			for _, a := range as {
				if sv, ok := a.(*regex.String); ok {
					str, ground := "", true
					for p := sv; p != nil; p = p.Next {
						if p.Value != nil && *p.Value != 'a' && *p.Value != 'b' {
							// the expressions are over {a,b}: every character of a generated string was matched against one of them
							rep.violate(i, "generated-string-outside-alphabet", desc, fmt.Sprintf("a generated string contains the character %q (after %q): it is not a character of %s, or it was never bound", *p.Value, str, re))
							ground = false
							break
						}
						if p.Value == nil {
							ground = false
							break
						}
						str += string(*p.Value)
						if len(str) > 20 {
							ground = false
							break
						}
					}
					if ground {
						strsOut = append(strsOut, str)
						if !matches17(re, str) {
							rep.violate(i, "generated-string-not-in-language", desc, fmt.Sprintf("generated %q, which %s does not match", str, re))
						}
					}
				}
			}
			obs = fmt.Sprintf("%q", strsOut)
		}
		if strings.Contains(re.String(), "*") || len(s) >= 2 || (re.K == "cat" && nullable17(re.A)) {
			rep.nontrivial(desc)
		}
		rep.hist(strings.SplitN(desc, "(", 2)[0])
		if strings.Contains(obs, "timeout") || strings.Contains(obs, "hang") {
			rep.hist("inconclusive: search did not finish within the time limit")
		}
		rep.CaseDesc = append(rep.CaseDesc, desc)
		rep.CaseObs = append(rep.CaseObs, obs)
		rep.sample(desc + " => " + obs)
	}
	return rep
}
