package main

// Ownership probe for micro streams.  A micro stream memoises its tail in place (StreamOfStates.mem) without any
// synchronisation, which is correct as long as each stream cell is forced by one goroutine at a time.  probeGoal wraps a
// goal so that every cell of every stream it returns reports when two goroutines are inside the thunk of ONE cell at the
// same time - the unsynchronised read/write of that cell's memo, i.e. a data race - without needing the race detector.
// The wrapper keeps the cell structure (suspension / mature cell / end) and laziness exactly.

import (
	"sync/atomic"
	"time"

	"github.com/awalterschulze/gominikanren/micro"
)

type forceProbe struct {
	overlaps atomic.Int64 // times a second goroutine entered the thunk of a cell while another was still inside
	forced   atomic.Int64 // thunks run
	slow     int64        // the first `slow` thunks sleep, to widen the window
	pause    time.Duration
}

func (p *forceProbe) wrap(s *micro.StreamOfStates) *micro.StreamOfStates {
	if s == nil {
		return nil
	}
	var inside atomic.Int32
	force := func() *micro.StreamOfStates {
		if inside.Add(1) > 1 {
			p.overlaps.Add(1)
		}
		if p.forced.Add(1) <= p.slow {
			time.Sleep(p.pause)
		}
		_, cdr := s.CarCdr()
		inside.Add(-1)
		return p.wrap(cdr)
	}
	if micro.VerifIsSuspension(s) {
		return micro.Suspension(force)
	}
	if !micro.VerifHasTail(s) {
		return micro.NewSingletonStream(micro.VerifHead(s))
	}
	return micro.NewStream(micro.VerifHead(s), force)
}

func (p *forceProbe) goal(g micro.Goal) micro.Goal {
	return func(s *micro.State) *micro.StreamOfStates { return p.wrap(g(s)) }
}
