package main

// C04, interface-typed fields: records whose fields have static type `any` and hold pointer-shaped values - a variable,
// a constant, a typed nil pointer, a nested record - or nothing (the untyped nil interface).  A variable unified with the
// untyped nil is BOUND (to nil); later uses of it must see that binding.  Sequences of equations are run through the real
// EqualO and through the transcription GCore.gunify on the reflecttools-level description of the same values.

import (
	"fmt"
	"math/rand"
	"strings"
	"sync"
	"time"

	"github.com/awalterschulze/gominikanren/gomini"
)

type GB struct {
	V any
	W any
	L []any // a slice whose ELEMENT type is an interface: its elements are slots like V and W
	N *GB
}

// gbv describes a value: slot kinds inil ivar iint itnil igb ; record kinds bnil bvar brec
type gbv struct {
	K    string
	I    int
	V, W *gbv   // brec: the two interface slots
	L    []*gbv // brec: the elements of the []any field (nil = the nil slice)
	N    *gbv   // brec: the typed field
}

func (g *gbv) show() string {
	switch g.K {
	case "inil":
		return "nil"
	case "ivar":
		return fmt.Sprintf("?i%d", g.I)
	case "iint":
		return fmt.Sprintf("&%d", g.I)
	case "itnil":
		return "(*int)(nil)"
	case "bnil":
		return "(*GB)(nil)"
	case "bvar":
		return fmt.Sprintf("?b%d", g.I)
	}
	l := "nil"
	if g.L != nil {
		ps := make([]string, len(g.L))
		for i, e := range g.L {
			ps[i] = e.show()
		}
		l = "[" + strings.Join(ps, " ") + "]"
	}
	return fmt.Sprintf("&GB{V:%s W:%s L:%s N:%s}", g.V.show(), g.W.show(), l, g.N.show())
}

// coq: the value as reflecttools sees it; `slot` = it sits in an interface-typed field
func (g *gbv) coq(slot bool, ni int) string {
	wrap := func(s string) string {
		if slot {
			return "(GIface " + s + ")"
		}
		return s
	}
	switch g.K {
	case "inil":
		return "GNil"
	case "ivar":
		return wrap("(gvar " + coqN(uint64(g.I)) + ")")
	case "iint":
		return wrap(fmt.Sprintf("(GPtr (GScalar 0%%N (%d)%%Z))", g.I))
	case "itnil":
		return wrap("GNilPtr")
	case "bnil":
		return wrap("GNilPtr")
	case "bvar":
		return wrap("(gvar " + coqN(uint64(ni+g.I)) + ")")
	}
	l := "(GSlice true [])"
	if g.L != nil {
		ps := make([]string, len(g.L))
		for i, e := range g.L {
			ps[i] = e.coq(true, ni)
		}
		l = "(GSlice false [" + strings.Join(ps, "; ") + "])"
	}
	return wrap("(GStructPtr [" + g.V.coq(true, ni) + "; " + g.W.coq(true, ni) + "; " + l + "; " + g.N.coq(false, ni) + "])")
}

type gbWorld struct {
	st *gomini.State
	iv []*int
	bv []*GB
}

func gbCreator(varTyp any, name string) (any, bool) {
	switch varTyp.(type) {
	case *int:
		n := 1000 + len(name)
		return &n, true
	case *GB:
		return &GB{V: "placeholder " + name}, true
	}
	return nil, false
}

func newGBWorld(named bool, ni, nb int) *gbWorld {
	w := &gbWorld{}
	if named {
		w.st = gomini.NewState(gbCreator)
	} else {
		w.st = gomini.NewState()
	}
	for i := 0; i < ni; i++ {
		var p *int
		w.st, p = gomini.NewVar[*int](w.st)
		w.iv = append(w.iv, p)
	}
	for i := 0; i < nb; i++ {
		var p *GB
		w.st, p = gomini.NewVar[*GB](w.st)
		w.bv = append(w.bv, p)
	}
	return w
}

func (w *gbWorld) slot(g *gbv) any {
	switch g.K {
	case "inil":
		return nil
	case "ivar":
		return w.iv[g.I]
	case "iint":
		n := g.I
		return &n
	case "itnil":
		return (*int)(nil)
	}
	return w.rec(g)
}

func (w *gbWorld) rec(g *gbv) *GB {
	switch g.K {
	case "bnil":
		return nil
	case "bvar":
		return w.bv[g.I]
	}
	var l []any
	if g.L != nil {
		l = make([]any, len(g.L))
		for i, e := range g.L {
			l[i] = w.slot(e)
		}
	}
	return &GB{V: w.slot(g.V), W: w.slot(g.W), L: l, N: w.rec(g.N)}
}

type gbEq struct {
	kind string // rec | int
	a, b *gbv
}

func genGBCase(r *rand.Rand) (ni, nb int, eqs []gbEq) {
	return genGBCaseWith(r, 1+r.Intn(3), r.Intn(2))
}

func genGBCaseWith(r *rand.Rand, ni0, nb0 int) (ni, nb int, eqs []gbEq) {
	ni, nb = ni0, nb0
	slot := func(depth int) *gbv { return nil }
	var rec func(depth int) *gbv
	slot = func(depth int) *gbv {
		switch k := r.Intn(9); {
		case k <= 1:
			return &gbv{K: "inil"}
		case k <= 4:
			return &gbv{K: "ivar", I: r.Intn(ni)}
		case k <= 6:
			return &gbv{K: "iint", I: r.Intn(3)}
		case k == 7:
			return &gbv{K: "itnil"}
		}
		if depth <= 0 {
			return &gbv{K: "inil"}
		}
		return rec(depth - 1)
	}
	rec = func(depth int) *gbv {
		g := &gbv{K: "brec", V: slot(depth), W: slot(depth)}
		if r.Intn(3) == 0 {
			g.L = make([]*gbv, r.Intn(3))
			for i := range g.L {
				g.L[i] = slot(0)
			}
		}
		switch {
		case depth > 0 && r.Intn(3) == 0:
			g.N = rec(depth - 1)
		case nb > 0 && r.Intn(3) == 0:
			g.N = &gbv{K: "bvar", I: r.Intn(nb)}
		default:
			g.N = &gbv{K: "bnil"}
		}
		return g
	}
	// the second record of an equation: the first one with slots re-drawn (so that unification often succeeds)
	var vary func(g *gbv) *gbv
	vary = func(g *gbv) *gbv {
		if g.K != "brec" {
			if r.Intn(2) == 0 {
				if g.K == "bnil" || g.K == "bvar" {
					return g
				}
				return slot(0)
			}
			return g
		}
		h := &gbv{K: "brec", V: vary(g.V), W: vary(g.W), N: vary(g.N)}
		if g.L != nil {
			h.L = make([]*gbv, len(g.L))
			for i, e := range g.L {
				h.L[i] = vary(e)
			}
			if r.Intn(8) == 0 && len(h.L) > 0 {
				h.L = h.L[:len(h.L)-1] // different lengths do not unify
			}
		}
		return h
	}
	for n := 2 + r.Intn(3); n > 0; n-- {
		if r.Intn(3) == 0 {
			eqs = append(eqs, gbEq{"int", &gbv{K: "ivar", I: r.Intn(ni)}, pick(r, []*gbv{{K: "iint", I: r.Intn(3)}, {K: "itnil"}, {K: "ivar", I: r.Intn(ni)}})})
			continue
		}
		a := rec(1)
		eqs = append(eqs, gbEq{"rec", a, vary(a)})
	}
	return
}

// runGBCase returns (description, observation, Coq case)
func runGBCase(rep *Report, idx int, r *rand.Rand) (string, string, string) {
	ni, nb, eqs := genGBCase(r)
	parts := make([]string, len(eqs))
	ceqs := make([]string, len(eqs))
	for k, e := range eqs {
		parts[k] = e.a.show() + " == " + e.b.show()
		ceqs[k] = "(" + e.a.coq(false, ni) + ", " + e.b.coq(false, ni) + ")"
	}
	desc := fmt.Sprintf("EqualO sequence over records with interface-typed fields (%d int variables, %d record variables): %s", ni, nb, strings.Join(parts, " ; "))
	begin(idx, desc)
	var ns [2]int
	for pol := 0; pol < 2; pol++ {
		w := newGBWorld(pol == 1, ni, nb)
		st := w.st
		ns[pol] = 1
		for _, e := range eqs {
			var g gomini.Goal
			if e.kind == "int" {
				a, _ := w.slot(e.a).(*int)
				b, _ := w.slot(e.b).(*int)
				g = gomini.EqualO(a, b)
			} else {
				g = gomini.EqualO(w.rec(e.a), w.rec(e.b))
			}
			states, how := runGoal(g, st, -1, 5*time.Second)
			if how != "closed" || len(states) > 1 {
				rep.violate(idx, "stream-not-closed", desc, fmt.Sprintf("policy %d: %d states, %s", pol, len(states), how))
			}
			if len(states) == 0 {
				ns[pol] = 0
				break
			}
			st = states[0]
		}
	}
	obs := fmt.Sprintf("zero-valued placeholders: %d state(s); other placeholders: %d state(s)", ns[0], ns[1])
	if ns[0] != ns[1] {
		rep.violate(idx, "depends-on-placeholder-contents", desc, obs)
	}
	return desc, obs, fmt.Sprintf("CGSeq %s %d", coqList(ceqs), ns[0])
}

// sharedStateConcurrent: gomini's disjunctions and conjunctions run their branches concurrently on ONE *State, so EqualO on a
// shared state from several goroutines at once must give what it gives alone: a state is an immutable value.  A set of
// independent equations over one world is decided sequentially, then again from 8 goroutines in different orders.
func sharedStateConcurrent(rep *Report, idx int, r *rand.Rand) {
	ni, nb, _ := genGBCase(r)
	var eqs []gbEq
	for len(eqs) < 10 {
		_, _, more := genGBCaseWith(r, ni, nb)
		eqs = append(eqs, more...)
	}
	// plus the two extremes: a variable against itself, two different constants
	eqs = append(eqs, gbEq{"int", &gbv{K: "ivar", I: 0}, &gbv{K: "ivar", I: 0}}, gbEq{"int", &gbv{K: "iint", I: 1}, &gbv{K: "iint", I: 2}})
	w := newGBWorld(r.Intn(2) == 0, ni, nb)
	goals := make([]gomini.Goal, len(eqs))
	for k, e := range eqs {
		if e.kind == "int" {
			a, _ := w.slot(e.a).(*int)
			b, _ := w.slot(e.b).(*int)
			goals[k] = gomini.EqualO(a, b)
		} else {
			goals[k] = gomini.EqualO(w.rec(e.a), w.rec(e.b))
		}
	}
	verdict := func(k int) string {
		states, how := runGoal(goals[k], w.st, -1, 5*time.Second)
		if how != "closed" { // a loaded machine is not a verdict: once more, with a generous limit
			states, how = runGoal(goals[k], w.st, -1, 30*time.Second)
		}
		return fmt.Sprintf("%d state(s), %s", len(states), how)
	}
	want := make([]string, len(goals))
	for k := range goals {
		want[k] = verdict(k)
	}
	desc := fmt.Sprintf("EqualO on one shared state from 8 goroutines: %d equations over %d int variables and %d record variables", len(eqs), ni, nb)
	begin(idx, desc)
	type bad struct {
		k   int
		got string
	}
	var mu sync.Mutex
	var bads []bad
	var wg sync.WaitGroup
	for g := 0; g < 8; g++ {
		wg.Add(1)
		go func(g int) {
			defer wg.Done()
			for round := 0; round < 30; round++ {
				for j := range goals {
					k := (j*(2*g+1) + g + round) % len(goals)
					if got := verdict(k); got != want[k] {
						mu.Lock()
						if len(bads) < 5 {
							bads = append(bads, bad{k, got})
						}
						mu.Unlock()
					}
				}
			}
		}(g)
	}
	wg.Wait()
	rep.hist("shared state, concurrent EqualO")
	for _, b := range bads {
		rep.violate(idx, "shared-state-concurrent-equalo", desc, fmt.Sprintf("%s == %s alone: %s; concurrently with other EqualO on the same state: %s",
			eqs[b.k].a.show(), eqs[b.k].b.show(), want[b.k], b.got))
	}
}
