package main

// C08 (micro part): reification of answer states and micro.Run against coq/Reify.v, with a direct oracle
// (no variable leaks; names by first occurrence; same variable same name).

import (
	"fmt"
	"strings"
	"sync"

	"github.com/awalterschulze/gominikanren/micro"
	"github.com/awalterschulze/gominikanren/sexpr/ast"
)

func init() { register("C08", runC08) }

func hasVar(t *ast.SExpr) bool {
	if t == nil {
		return false
	}
	if t.Pair != nil {
		return hasVar(t.Pair.Car) || hasVar(t.Pair.Cdr)
	}
	return isVar(t)
}

// firstOccNames renames the variables of a resolved term by first occurrence, printing like SExpr.String does for symbols.
func firstOccNames(t *ast.SExpr) *ast.SExpr {
	names := map[uint64]int{}
	var go1 func(t *ast.SExpr) *ast.SExpr
	go1 = func(t *ast.SExpr) *ast.SExpr {
		if t == nil {
			return nil
		}
		if t.Pair != nil {
			a := go1(t.Pair.Car)
			d := go1(t.Pair.Cdr)
			return ast.Cons(a, d)
		}
		if isVar(t) {
			k, ok := names[t.Atom.Var.Index]
			if !ok {
				k = len(names)
				names[t.Atom.Var.Index] = k
			}
			return ast.NewSymbol(fmt.Sprintf("_%d", k))
		}
		return t
	}
	return go1(t)
}

func runC08(cfg *Config) *Report {
	rep := newReport()
	rep.Rule = "answer states with binding chains, shared and repeated unbound variables, unbound query, nesting depth<=4 (generated acyclic substitutions and states reached by running goal programs); Run(n) of generated goal programs; non-trivial = the resolved query contains >=2 occurrences of unbound variables or a chain of >=2 bindings; distinct by printed input"
	cf := newCaseFile("From Coq Require Import List NArith ZArith.\nFrom GMK Require Import Term Unify Goal Stream Reify Reflect GCore CorrBase Corr01 Corr02 Corr08.", "case08", "check08")
	cf.b.WriteString(coqRelLib())
	r := newRand(cfg.Seed)
	pg := &progGen{r: r, allowNon: true, rels: []int{1, 2, 3, 4, 5, 7, 8, 10}}
	if cfg.Only < 0 {
		c08Concurrent(rep)
	}
	for i := 0; i < cfg.N; i++ {
		kind := r.Intn(13)
		nv := 1 + r.Intn(7)
		s := genSubst(r, nv)
		q := uint64(r.Intn(nv))
		v := genTerm(r, 1+r.Intn(4), nv)
		// variable indices are arbitrary 64-bit numbers: small, beyond a machine word's bit count, huge
		off := pick(r, []uint64{0, 0, 60, 200, 1 << 40})
		if off > 0 {
			shift := func(i uint64) uint64 { return i + off }
			for k := range s {
				s[k] = micro.SubPair{Key: s[k].Key + off, Value: mapVars(s[k].Value, shift)}
			}
			v = mapVars(v, shift)
		}
		prog := pg.goal(2+r.Intn(7), 1)
		n := r.Intn(5) - 1
		gcase := genGRun(r)
		gmcase := genGMap(r)
		if cfg.Only >= 0 && cfg.Only != i {
			cf.add("CReifyS TNil []")
			rep.CaseDesc = append(rep.CaseDesc, "")
			rep.CaseObs = append(rep.CaseObs, "")
			continue
		}
		rep.Evaluations++
		desc, obs := "", ""
		gcoq := ""
		switch {
		case kind < 5:
			q += off
			st := &micro.State{Substitutions: s, Counter: uint64(nv) + off}
			before := showSubst(s)
			out := micro.ReifyIntVarFromState(q)(st)
			desc = fmt.Sprintf("reify ?%d in state %s", q, before)
			obs = out.String()
			cf.add(fmt.Sprintf("CReify %s %s %s %s", coqN(q), encSubst(s), coqN(uint64(nv)+off), encTerm(out)))
			rep.hist("reify")
			resolved := micro.VerifWalkStar(micro.Var(q), s)
			if hasVar(out) {
				rep.violate(i, "variable-leaks", desc, obs)
			}
			if want := firstOccNames(resolved); !want.Equal(out) {
				rep.violate(i, "not-first-occurrence-naming", desc, fmt.Sprintf("got %s, resolved query %s, expected %s", obs, showTerm(resolved), want.String()))
			}
			if showSubst(s) != before {
				rep.violate(i, "state-mutated", desc, showSubst(s))
			}
			vs := map[uint64]bool{}
			termVars(resolved, vs)
			if strings.Count(showTerm(resolved), "?") >= 2 || len(s) >= 2 {
				rep.nontrivial(desc)
			}
		case kind < 7:
			out := micro.VerifReifyS(v)
			desc = fmt.Sprintf("reifyS %s", showTerm(v))
			obs = showSubst(out)
			cf.add(fmt.Sprintf("CReifyS %s %s", encTerm(v), encSubst(out)))
			rep.hist("reifyS")
			if strings.Count(showTerm(v), "?") >= 2 {
				rep.nontrivial(desc)
			}
		case kind == 12:
			desc = gmcase.desc
			obs, gcoq = runGMap(gmcase, rep, i)
			rep.hist("gomini-run (leaves in struct fields, slices, maps, nested records)")
			rep.nontrivial(desc)
		case kind >= 10:
			desc = gcase.desc
			obs, gcoq = runGRun(gcase, rep, i)
			rep.hist("gomini-run")
			rep.nontrivial(desc)
		default:
			// Run(n, g) end to end; only programs whose first n answers are reachable within a step budget are used
			env := queryEnv(1)
			tr := observeTrace(build(prog, env)(&micro.State{Substitutions: nil, Counter: 1}), 60)
			if !tr.Closed && (n < 0 || len(tr.States) < n) {
				// not enough answers within the budget: Run could diverge; use n = number of answers seen
				n = len(tr.States)
			}
			outs := micro.Run(n, func(qv *ast.SExpr) micro.Goal { return build(prog, []*ast.SExpr{qv}) })
			desc = fmt.Sprintf("Run(%d, %s)", n, prog.show())
			parts := make([]string, len(outs))
			coqs := make([]string, len(outs))
			for k, o := range outs {
				parts[k] = o.String()
				coqs[k] = encTerm(o)
				if hasVar(o) {
					rep.violate(i, "variable-leaks", desc, o.String())
				}
			}
			obs = "(" + strings.Join(parts, " ") + ")"
			cf.add(fmt.Sprintf("CRun hdefs %s %s 400 %s", prog.coq(), coqZ(int64(n)), coqList(coqs)))
			rep.hist(fmt.Sprintf("run answers=%d", min(len(outs), 4)))
			for k, st := range tr.States {
				if k < len(outs) {
					if want := firstOccNames(micro.VerifWalkStar(micro.Var(0), st.Substitutions)); !want.Equal(outs[k]) {
						rep.violate(i, "run-not-reify-of-take", desc, fmt.Sprintf("answer %d: got %s expected %s", k, outs[k].String(), want.String()))
					}
				}
			}
			if len(outs) > 0 {
				rep.nontrivial(desc)
			}
		}
		if kind >= 10 {
			cf.add(gcoq) // the same run for the transcribed gomini algorithm (coq/GCore.v: gunify over the equations, then grewrite)
		}
		rep.CaseDesc = append(rep.CaseDesc, desc)
		rep.CaseObs = append(rep.CaseObs, obs)
		rep.sample(desc + " => " + obs)
	}
	cf.write(cfg.Out)
	return rep
}

// c08Concurrent: reification is a function of the answer.  Answers with k distinct unbound variables (k = 1..48, growing, so that
// every round needs a name no earlier round used) are reified from 8 goroutines at once, released together; every goroutine must
// see (_0 ... _k-1 _0 ... _k-1), and so must a single goroutine afterwards.
func c08Concurrent(rep *Report) {
	const G = 8
	mk := func(k int) (*micro.State, string) {
		var l *ast.SExpr
		want := make([]string, 2*k)
		for j := 2*k - 1; j >= 0; j-- {
			l = ast.Cons(micro.Var(uint64(1+j%k)), l)
			want[j] = fmt.Sprintf("_%d", j%k)
		}
		return &micro.State{Substitutions: micro.Substitutions{{Key: 0, Value: l}}, Counter: uint64(k + 1)}, "(" + strings.Join(want, " ") + ")"
	}
	for k := 1; k <= 48; k++ {
		st, want := mk(k)
		start := make(chan struct{})
		var wg sync.WaitGroup
		got := make([]string, G)
		for g := 0; g < G; g++ {
			wg.Add(1)
			go func(g int) {
				defer wg.Done()
				defer func() {
					if r := recover(); r != nil {
						got[g] = fmt.Sprint("panic: ", r)
					}
				}()
				<-start
				out := micro.MKReify([]*micro.State{st})
				if len(out) == 1 {
					got[g] = out[0].String()
				}
			}(g)
		}
		close(start)
		wg.Wait()
		for g := 0; g < G; g++ {
			if got[g] != want {
				rep.violate(-1, "reify-depends-on-concurrent-calls", fmt.Sprintf("MKReify of an answer with %d distinct unbound variables (each occurring twice), from %d goroutines at once", k, G),
					fmt.Sprintf("goroutine %d got %s, want %s", g, cutStr(got[g], 300), cutStr(want, 300)))
				return
			}
		}
	}
	st, want := mk(48)
	if out := micro.MKReify([]*micro.State{st}); len(out) != 1 || out[0].String() != want {
		rep.violate(-1, "reify-depends-on-concurrent-calls", "MKReify of an answer with 48 distinct unbound variables on one goroutine, after the concurrent rounds", fmt.Sprintf("got %v, want %s", out, want))
	}
	rep.hist("directed: reification from 8 goroutines at once, 1..48 variables")
}

func cutStr(s string, n int) string {
	if len(s) > n {
		return s[:n] + "..."
	}
	return s
}
