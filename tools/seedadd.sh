#!/bin/bash
# seedadd.sh <name> <mutation-dir> <package-dir> <run-pattern> <tags-or-> <breaks-property> <check IDs...>
# stores a seeded change under /verif/seeded/<name>/ and confirms it in a scratch worktree (tools/seedverify.sh); the checks are then run by
# tools/seedmatrix.sh <name> in an isolated copy (results merged by tools/seedmerge.py)
set -u
name=$1; M=$2; PKG=$3; PAT=$4; TAGS=$5; PROP=$6; shift 6
[ "$TAGS" = "-" ] && TAGS=""
D=/verif/seeded/$name; mkdir -p $D
cp $M/patch.diff $D/patch.diff; cp $M/demo_test.go $D/demo_test.go; cp $M/README.md $D/AGENT_README.md 2>/dev/null
v=$(/verif/tools/seedverify.sh $M $PKG "$PAT" $TAGS | grep RESULT)
echo "$name VERIFY: $v"
python3 - "$name" "$PROP" "$PKG" "$PAT" "$TAGS" "$v" "$@" <<'PY'
import sys,json
name,prop,pkg,pat,tags,v=sys.argv[1:7]; ids=sys.argv[7:]
meta={"name":name,"breaks_property":prop,"demo":{"copy_to":pkg+"/zz_seed_demo_test.go","run":"go test -vet=off -count=1 %s-run '%s' ./%s/"%(("-tags %s "%tags) if tags else "",pat,pkg)},
 "confirmed":v,"checks_run":{i:{} for i in ids},"caught_by":[]}
json.dump(meta,open("/verif/seeded/%s/meta.json"%name,"w"),indent=1)
PY
