#!/bin/bash
# quick_all.sh : every quick check on /repo's working tree, one after the other (evidence/<ID>.json is rewritten by each); then the
# generated parts of DESIGN.md and MANIFEST.json, and a schema validation of both.
set -u
export GOFLAGS=-mod=mod GOPROXY=off GOSUMDB=off GOTOOLCHAIN=local
cd "$(dirname "$0")/.."
bad=0
for id in C01 C02 C03 C04 C05 C06 C07 C08 C09 C10 C11 C12 C13 C14 C15 C16 C17 C18 C19; do
  ./check $id --tier quick > build/quick_$id.log 2>&1; rc=$?
  echo "QUICK $id rc=$rc :: $(tail -1 build/quick_$id.log | cut -c1-160)"
  [ $rc -ne 0 ] && { bad=1; grep '^VIOLATION\|^   ' build/quick_$id.log | head -6 | cut -c1-300; }
done
python3 lib/mkstatus.py | tail -1
python3 lib/mkmanifest.py | tail -1
python3-vt - <<'PY'
import json, jsonschema, glob
jsonschema.validate(json.load(open('MANIFEST.json')), json.load(open('/root/.vp/MANIFEST.schema.json')))
es=json.load(open('/root/.vp/EVIDENCE.schema.json'))
for p in sorted(glob.glob('evidence/C*.json')):
    jsonschema.validate(json.load(open(p)), es)
print("manifest and %d evidence files validate" % len(glob.glob('evidence/C*.json')))
PY
exit $bad
