#!/bin/bash
# seedrun.sh <name> <mutation-dir> <package-dir> <run-pattern> <tags-or-> <breaks-property> <check IDs...>
# (SEED_RECHECK=1 tools/seedrun.sh <name> - <pkg> <pattern> <tags|-> <prop> <ids...> re-runs the checks of a stored seed)
# verify the mutation in a scratch worktree, run the named quick checks against it in /repo, store under /verif/seeded/<name>/
set -u
name=$1; M=$2; PKG=$3; PAT=$4; TAGS=$5; PROP=$6; shift 6
[ "$TAGS" = "-" ] && TAGS=""
D=/verif/seeded/$name; mkdir -p $D
# SEED_RECHECK=1: the seed is already stored and confirmed; only re-run the checks and refresh meta.json
if [ "${SEED_RECHECK:-0}" = "1" ]; then
  v=$(python3 -c "import json;print(json.load(open('$D/meta.json'))['confirmed'])")
else
cp $M/patch.diff $D/patch.diff; cp $M/demo_test.go $D/demo_test.go; cp $M/README.md $D/AGENT_README.md 2>/dev/null
v=$(/verif/tools/seedverify.sh $M $PKG "$PAT" $TAGS | grep RESULT)
fi
echo "$name VERIFY: $v"
c=$(/verif/tools/seedcheck.sh $D/patch.diff "$@")
echo "$c" | sed "s/^/$name /" | cut -c1-300
python3 - "$name" "$PROP" "$PKG" "$PAT" "$TAGS" "$v" "$c" <<'PY'
import sys,json,re
name,prop,pkg,pat,tags,v,c=sys.argv[1:8]
checks={}
for l in c.split("\n"):
    m=re.match(r"CHECK (\S+) rc=(\d+) violations=(\d+) :: (.*?) :: (.*?)(?: :: (.*))?$",l)
    if m: checks[m.group(1)]={"rc":int(m.group(2)),"violation_lines":int(m.group(3)),"first":m.group(4),"summary":m.group(5),"what":(m.group(6) or "").strip()}
meta={"name":name,"breaks_property":prop,"demo":{"copy_to":pkg+"/zz_seed_demo_test.go","run":"go test -vet=off -count=1 %s-run '%s' ./%s/"%(("-tags %s "%tags) if tags else "",pat,pkg)},
 "confirmed":v,"checks_run":checks,"caught_by":[k for k,x in checks.items() if x["rc"]==1 and x["violation_lines"]>0]}
p="/verif/seeded/%s/meta.json"%name
try:
    old=json.load(open(p)); 
    for k in ("needs","what"): 
        if k in old: meta[k]=old[k]
except Exception: pass
json.dump(meta,open(p,"w"),indent=1)
PY
