#!/usr/bin/env python3
"""agent_prompt.py <round> <ID> [benign] : prints the prompt given to a fresh sub-agent that is asked for changes to /repo.
The agent sees only the text of one property and works in its own scratch worktree /tmp/wt<round>_<ID>; nothing from /verif.
'benign' asks for behaviour-preserving rewrites instead (to look for false alarms)."""
import sys, json, glob, os, re
rnd, pid = sys.argv[1], sys.argv[2]
benign = len(sys.argv) > 3 and sys.argv[3] == 'benign'
prop = None
for l in open('/verif/properties.jsonl'):
    d = json.loads(l)
    if d['id'] == pid: prop = d
wt = '/tmp/wt%s_%s' % (rnd, pid)
tried = []
for f in sorted(glob.glob('/verif/seeded/%s-*/AGENT_README.md' % pid)):
    txt = open(f).read()
    head = txt.strip().split('\n')[0].lstrip('# ').strip()
    tried.append(head[:220])
common = f"""Work ONLY inside the scratch git worktree {wt} (a checkout of the Go repository awalterschulze/gominikanren: microKanren/miniKanren in Go). Do not read or write anything under /verif or /repo. Never use `git stash` (the stash is shared between worktrees); use `git diff > file`, `git apply`, `git apply -R` and `git checkout -- .` instead. Go is offline: in every shell call first run
  export GOFLAGS=-mod=mod GOPROXY=off GOSUMDB=off GOTOOLCHAIN=local
The existing test suite is run with: cd {wt} && go test -vet=off -count=1 -timeout 25m ./...

Here is a semantic property the library is supposed to satisfy (JSON record):

{json.dumps(prop, indent=1)}
"""
if not benign:
    print(f"""You are helping to evaluate a verification effort by playing the role of a developer who introduces a subtle regression.

{common}
TASK: produce TWO independent source changes ("mutations") to the library code (non-test .go files), each of which
 (a) still compiles (go build ./...) and still passes the ENTIRE existing test suite (run it at least twice to rule out flakiness), and
 (b) breaks the property above - in a way that needs something specific to manifest: a particular interleaving or schedule, a fault or cancellation at a particular point, a multi-step sequence of operations, an unusual input shape, or two cooperating sites that each look fine alone. NOT something ordinary use would expose at once. Make it look like a plausible refactoring/optimisation a real developer could commit.
 (c) comes with a demonstration: a Go test file (external test package, using only the exported API, or an internal test if really needed) that PASSES on the unchanged checkout and FAILS with the mutation applied, deterministically or at least reliably (state how reliably).

Deliverables, for mutation k in 1,2, in directory {wt}/MUTATION/k/ :
  patch.diff   - `git diff` of the library change only (must apply with `git apply` to a clean checkout of HEAD; do not include the demo file or the MUTATION dir in it)
  demo_test.go - the demonstration test file, with a comment at the top saying into which package directory it must be copied and the exact `go test -run ...` command
  README.md    - first line: a one-sentence title of the change; then what the change is, which clause of the property breaks, what it needs in order to manifest, the commands you ran and their outcomes (suite passes with the change; demo passes without, fails with)
Put a go.mod (module mutationscratch) into {wt}/MUTATION/ so that `go test ./...` at the repo root ignores that directory. When done, leave the worktree CLEAN of the mutation itself (git checkout -- . ; the MUTATION/ directory stays untracked). Verify each patch.diff by applying it to the clean worktree, running the demo (must fail) and the suite (must pass), then reverting.

Final answer: a short summary per mutation (file changed, idea, how the demo fails, the run pattern and package dir of the demo).

ADDITIONAL GUIDANCE: earlier rounds already tried the obvious ideas for this property (dropping or weakening a check, comparing a value with itself, swapping two arguments, removing a delay/suspension, appending to a shared slice, off-by-one in a table, a cache keyed by address, a fast path for one input shape). Look for something different in kind from the list below: e.g. a change in a file the property does NOT anchor but that the property's behaviour flows through (a helper, a constructor, a printer, a sibling package), a change that only matters for a rarely used exported entry point or option of the same feature, an interaction between two features (e.g. this property's feature used inside/after another combinator), a behaviour that depends on how many times or in what order the API is called, numeric/rune/size boundaries, resource reuse (pooling, memoising, sharing between calls), error/early-exit paths. One of the two mutations should touch only code OUTSIDE the functions the anchors name.
Already tried for this property (do not repeat these):
""" + "\n".join(" - " + t for t in tried))
else:
    print(f"""You are helping to evaluate a verification effort by playing the role of a careful developer who refactors code WITHOUT changing behaviour.

{common}
TASK: produce THREE independent source changes ("refactorings") to the library code (non-test .go files) in the files the property's anchors name (or the helpers they call), each of which
 (a) still compiles (go build ./...) and still passes the ENTIRE existing test suite, and
 (b) PRESERVES the property above and, as far as you can tell, all observable behaviour of the exported API for every input, schedule and history (same answers in the same order, same streams, same errors, same panics-or-not, same goroutine and memory discipline) - a maintainer would merge it as a pure clean-up, and
 (c) is nevertheless a real textual/structural change of the kind real developers make: e.g. renaming locals/parameters, reordering independent statements or independent `case`s, `if/else` <-> early `return`, `switch` <-> `if` chain, extracting a helper function or inlining one, replacing an index loop by `range` (or back), hoisting a repeated expression into a local, `var x T` <-> `x := T{{}}`, replacing a manual copy loop by `copy`/`append([]T(nil), ...)` where that is equivalent, adding comments, changing an unexported name, using a named constant. Vary the KIND of refactoring between the three; make one of them a bit more adventurous (restructure a whole function) while still being behaviour-preserving. Do NOT touch generated tables (sexpr/lexer/*table*.go, sexpr/parser/*table*.go, acttab.go) and do not change exported signatures.

Deliverables, for refactoring k in 1,2,3, in directory {wt}/BENIGN/k/ :
  patch.diff   - `git diff` of the library change only (must apply with `git apply` to a clean checkout of HEAD)
  README.md    - first line: a one-sentence title; then what was changed and the argument why behaviour is preserved for ALL inputs/schedules (be rigorous: think about nil, empty, aliasing, evaluation order, panics, laziness, goroutines)
Put a go.mod (module benignscratch) into {wt}/BENIGN/ so that `go test ./...` at the repo root ignores that directory. When done, leave the worktree CLEAN (git checkout -- . ; the BENIGN/ directory stays untracked). Verify each patch.diff by applying it to the clean worktree, running go build ./... and the full suite (must pass), then reverting.

Final answer: a short summary per refactoring (file changed, kind of rewrite, why it is behaviour-preserving).""")
