#!/bin/bash
# thorough_all.sh : (for `vp run --with-repo`) builds the snapshot and runs every thorough check against the repo snapshot $VP_RUN_REPO (or /repo)
set -u
export GOFLAGS=-mod=mod GOPROXY=off GOSUMDB=off GOTOOLCHAIN=local
R=${VP_RUN_REPO:-/repo}
export VERIF_REPO=$R
sed -i "s#=> /repo#=> $R#" harness/go.mod
sed -i "s#cp /repo/go.sum#cp $R/go.sum#" setup.sh
./setup.sh > setup.log 2>&1 || { echo SETUP-FAILED; tail -20 setup.log; exit 1; }
for id in ${@:-C16 C18 C01 C04 C05 C08 C02 C03 C09 C13 C19 C17 C07 C10 C11 C12 C06 C15 C14}; do
  s=$(date +%s)
  ./check $id --tier thorough > thorough_$id.log 2>&1; rc=$?
  echo "THOROUGH $id rc=$rc $(( $(date +%s) - s ))s :: $(grep -c '^VIOLATION' thorough_$id.log) violation lines :: $(tail -1 thorough_$id.log | cut -c1-200)"
  grep '^VIOLATION\|^KNOWN' thorough_$id.log | head -5
  grep '^   ' thorough_$id.log | head -3 | cut -c1-300
done
echo THOROUGH-ALL-DONE
