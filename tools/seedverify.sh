#!/bin/bash
# seedverify.sh <mutation-dir> <package-dir> <run-pattern> [tags]
# Confirms, in a scratch worktree of /repo's HEAD: demo passes without the patch; with the patch the code builds, the demo FAILS and the
# existing suite passes. Prints one summary line. The scratch worktree is removed.
set -u
export GOFLAGS=-mod=mod GOPROXY=off GOSUMDB=off GOTOOLCHAIN=local
M=$1; PKG=$2; PAT=$3; TAGS=${4:-}
W=$(mktemp -d /tmp/vt_XXXXXX); rmdir $W
git -C /repo worktree add -q --detach $W HEAD || exit 2
cd $W
demo=$(ls $M/demo_test.go 2>/dev/null)
cp $demo $PKG/zz_seed_demo_test.go
targs=""; [ -n "$TAGS" ] && targs="-tags $TAGS"
go test -vet=off -count=1 $targs -run "$PAT" ./$PKG/ > /tmp/sv_clean.log 2>&1; clean=$?
if ! git apply $M/patch.diff; then echo "RESULT apply-failed"; cd /; git -C /repo worktree remove --force $W; exit 1; fi
go build ./... > /tmp/sv_build.log 2>&1; build=$?
go test -vet=off -count=1 $targs -run "$PAT" ./$PKG/ > /tmp/sv_mut.log 2>&1; mut=$?
rm -f $PKG/zz_seed_demo_test.go
go test -vet=off -count=1 -timeout 25m ./... > /tmp/sv_suite.log 2>&1; suite=$?
echo "RESULT demo_clean_rc=$clean build_rc=$build demo_mut_rc=$mut suite_rc=$suite  (want 0 0 nonzero 0)"
[ $suite -ne 0 ] && grep -v "^ok\|no test files" /tmp/sv_suite.log | head -20
[ $clean -ne 0 ] && tail -20 /tmp/sv_clean.log
cd /; git -C /repo worktree remove --force $W
