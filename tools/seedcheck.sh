#!/bin/bash
# seedcheck.sh <patch.diff> <ID> [ID...] : apply the patch to /repo, run the quick checks, undo the patch.
set -u
P=$1; shift
cd /verif
git -C /repo diff --quiet || { echo "/repo not clean"; exit 2; }
git -C /repo apply $P || { echo "apply failed"; exit 2; }
for id in "$@"; do
  VERIF_NO_EVIDENCE=1 timeout 3000 ./check $id --tier quick > /tmp/seedcheck_$id.log 2>&1; rc=$?
  nv=$(grep -c "^VIOLATION" /tmp/seedcheck_$id.log)
  echo "CHECK $id rc=$rc violations=$nv :: $(grep -m1 '^VIOLATION' /tmp/seedcheck_$id.log) :: $(tail -1 /tmp/seedcheck_$id.log | cut -c1-160) :: $(grep -m1 '^   ' /tmp/seedcheck_$id.log | cut -c1-300)"
done
git -C /repo checkout -- . ; git -C /repo status --short | head -3
