#!/usr/bin/env python3
"""Merges /tmp/vm/results/<name>.json (written by seedmatrix.sh) into /verif/seeded/<name>/meta.json."""
import glob, json, os, re
for p in sorted(glob.glob("/tmp/vm/results/*.json")):
    name = os.path.basename(p)[:-5]
    mp = "/verif/seeded/%s/meta.json" % name
    if not os.path.exists(mp):
        continue
    try:
        res = json.load(open(p))
    except Exception as e:
        print(name, "unreadable result", e)
        continue
    m = json.load(open(mp))
    for k, v in res.items():
        v["first"] = re.sub(r"replay=\S*/replays/", "replay=/verif/replays/", v.get("first", ""))
    m["checks_run"] = res
    m["caught_by"] = [k for k, x in res.items() if x["rc"] == 1 and x["violation_lines"] > 0]
    json.dump(m, open(mp, "w"), indent=1)
    print(name, m["breaks_property"], "caught_by", m["caught_by"])
