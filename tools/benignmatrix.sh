#!/bin/bash
# benignmatrix.sh [name ...] : runs the quick checks named in benign/<name>/meta.json against every behaviour-preserving rewrite (default: all of /verif/benign) in an ISOLATED copy
# (/tmp/vm/verif + a scratch worktree /tmp/vm/repo), so that /repo and /verif stay usable meanwhile. Results: /tmp/vm/results/<name>.json,
# merged into seeded/<name>/meta.json by tools/seedmerge.py.  Several lanes can run at once: VM=/tmp/vm2 tools/seedmatrix.sh <names> (results still in /tmp/vm/results). The scratch copy is removed at the end.
set -u
export GOFLAGS=-mod=mod GOPROXY=off GOSUMDB=off GOTOOLCHAIN=local
VM=${VM:-/tmp/vm}
RES=${RES:-/tmp/vm/results}
rm -rf $VM/verif; mkdir -p $VM $RES
git -C /repo worktree remove --force $VM/repo 2>/dev/null
git -C /repo worktree add -q --detach $VM/repo HEAD || exit 2
rsync -a --exclude .git --exclude 'replays/*' /verif/ $VM/verif/
sed -i "s#=> /repo#=> $VM/repo#" $VM/verif/harness/go.mod
cd $VM/verif
export VERIF_REPO=$VM/repo VERIF_NO_EVIDENCE=1
names="$@"; [ -z "$names" ] && names=$(ls /verif/benign)
for name in $names; do
  D=/verif/benign/$name
  [ -f $D/patch.diff ] || continue
  ids=$(python3 -c "
import json,sys
m=json.load(open('$D/meta.json'))
ids=m['checks']
print(' '.join(ids))")
  git -C $VM/repo apply $D/patch.diff || { echo "$name apply-failed"; continue; }
  res="{"
  for id in $ids; do
    timeout 3000 ./check $id --tier quick > $RES/$name.$id.log 2>&1; rc=$?
    nv=$(grep -c "^VIOLATION" $RES/$name.$id.log)
    first=$(grep -m1 '^VIOLATION' $RES/$name.$id.log | sed 's/"/\\"/g')
    summ=$(tail -1 $RES/$name.$id.log | cut -c1-200 | sed 's/"/\\"/g')
    what=$(grep -m1 '^   ' $RES/$name.$id.log | cut -c1-300 | sed 's/\\/\\\\/g; s/"/\\"/g')
    res="$res\"$id\":{\"rc\":$rc,\"violation_lines\":$nv,\"first\":\"$first\",\"summary\":\"$summ\",\"what\":\"$what\"},"
    echo "$name $id rc=$rc violations=$nv :: $summ"
  done
  echo "${res%,}}" > $RES/$name.json
  git -C $VM/repo checkout -- . ; git -C $VM/repo clean -fdq
done
cd /; git -C /repo worktree remove --force $VM/repo; rm -rf $VM/verif
echo MATRIX-DONE
