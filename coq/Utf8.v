(* L6 model: unicode/utf8.DecodeRune on a byte list (Go 1.23 utf8.go, transcribed table-free).
   Bytes are N (0..255; any larger number behaves like an invalid lead byte). No proofs in this file.

   Go:   n < 1                          -> (RuneError, 0)
         p0 < 0x80                      -> (p0, 1)
         p0 in 80..C1 or F5..FF         -> (RuneError, 1)                     [first[p0] = xx]
         p0 in C2..DF                   -> 2 bytes, b1 in 80..BF
         p0 = E0 / E1..EC,EE,EF / ED    -> 3 bytes, b1 in A0..BF / 80..BF / 80..9F     (overlong, surrogates excluded)
         p0 = F0 / F1..F3 / F4          -> 4 bytes, b1 in 90..BF / 80..BF / 80..8F     (overlong, > 10FFFF excluded)
         continuation bytes b2 b3 in 80..BF; a short or ill-formed sequence gives (RuneError, 1). *)
From Coq Require Import List NArith Bool.
Import ListNotations.
Open Scope N_scope.

Definition rune_error : N := 65533.

Definition in_rng (lo hi b : N) : bool := (lo <=? b) && (b <=? hi).
Definition cont (b : N) : bool := in_rng 128 191 b.

Definition decode_rune (p : list N) : N * nat :=
  match p with
  | [] => (rune_error, 0%nat)
  | p0 :: t =>
    if p0 <? 128 then (p0, 1%nat)
    else if p0 <? 194 then (rune_error, 1%nat)
    else if p0 <? 224 then
      match t with
      | b1 :: _ => if cont b1 then ((p0 - 192) * 64 + (b1 - 128), 2%nat) else (rune_error, 1%nat)
      | _ => (rune_error, 1%nat)
      end
    else if p0 <? 240 then
      let lo := if p0 =? 224 then 160 else 128 in
      let hi := if p0 =? 237 then 159 else 191 in
      match t with
      | b1 :: b2 :: _ =>
        if in_rng lo hi b1 && cont b2
        then ((p0 - 224) * 4096 + (b1 - 128) * 64 + (b2 - 128), 3%nat)
        else (rune_error, 1%nat)
      | _ => (rune_error, 1%nat)
      end
    else if p0 <? 245 then
      let lo := if p0 =? 240 then 144 else 128 in
      let hi := if p0 =? 244 then 143 else 191 in
      match t with
      | b1 :: b2 :: b3 :: _ =>
        if in_rng lo hi b1 && cont b2 && cont b3
        then ((p0 - 240) * 262144 + (b1 - 128) * 4096 + (b2 - 128) * 64 + (b3 - 128), 4%nat)
        else (rune_error, 1%nat)
      | _ => (rune_error, 1%nat)
      end
    else (rune_error, 1%nat)
  end.

(* all the runes of a byte string, as the lexer sees them *)
Fixpoint decode_all (fuel : nat) (p : list N) : list N :=
  match fuel, p with
  | O, _ => []
  | _, [] => []
  | S f, _ => let '(r, n) := decode_rune p in r :: decode_all f (skipn n p)
  end.
