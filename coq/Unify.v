(* L1 model: micro/walk.go, micro/exts.go, micro/unify.go, EqualO of micro/goal.go, transcribed branch by branch.
   Go recursion that is not structural carries explicit fuel (recursion depth); OOF is a distinguished outcome. *)
From Coq Require Import List NArith ZArith Bool.
From GMK Require Import Term.
Import ListNotations.

(* assv: first association with key x *)
Fixpoint assv (x : N) (s : subst) : option term :=
  match s with [] => None | (k, v) :: r => if N.eqb k x then Some v else assv x r end.

(* walk(v, s): follow variable-to-variable bindings *)
Fixpoint walk (f : nat) (x : N) (s : subst) : option term :=
  match f with
  | O => None
  | S f' =>
      match assv x s with
      | None => Some (TVar x)
      | Some (TVar y) => walk f' y s
      | Some t => Some t
      end
  end.

(* `vv := v; if v.IsVariable() { vv = walk(v.Atom.Var, s) }` *)
Definition walkt (f : nat) (t : term) (s : subst) : option term :=
  match t with TVar x => walk f x s | _ => Some t end.

Inductive res := OOF | Fail | Ok (s : subst).

(* occurs(x, v, s) *)
Fixpoint occurs (f : nat) (x : N) (v : term) (s : subst) : option bool :=
  match f with
  | O => None
  | S f' =>
      match walkt f' v s with
      | None => None
      | Some vv =>
          match vv with
          | TVar y => Some (N.eqb y x)
          | TPair a d =>
              match occurs f' x a s with
              | Some true => Some true
              | Some false => occurs f' x d s
              | None => None
              end
          | _ => Some false
          end
      end
  end.

(* exts(x, v, s): occurs check, then a fresh slice with the new pair appended *)
Definition exts (f : nat) (x : N) (v : term) (s : subst) : res :=
  match occurs f x v s with
  | None => OOF
  | Some true => Fail
  | Some false => Ok (s ++ [(x, v)])
  end.

(* unify(u, v, s) *)
Fixpoint unify (f : nat) (u v : term) (s : subst) : res :=
  match f with
  | O => OOF
  | S f' =>
      match walkt f' u s, walkt f' v s with
      | Some uu, Some vv =>
          match uu, vv with
          | TVar x, TVar y => if N.eqb x y then Ok s else exts f' x vv s
          | TVar x, _ => exts f' x vv s
          | _, TVar y => exts f' y uu s
          | TPair a d, TPair a' d' =>
              match unify f' a a' s with
              | Ok s1 => unify f' d d' s1
              | r => r
              end
          | TNil, TNil => Ok s
          | TAtom a, TAtom b => if atom_eqb a b then Ok s else Fail
          | _, _ => Fail
          end
      | _, _ => OOF
      end
  end.

(* walkStar(v, s) *)
Fixpoint walkstar (f : nat) (t : term) (s : subst) : option term :=
  match f with
  | O => None
  | S f' =>
      match walkt f' t s with
      | None => None
      | Some (TPair a d) =>
          match walkstar f' a s, walkstar f' d s with
          | Some a', Some d' => Some (TPair a' d')
          | _, _ => None
          end
      | Some w => Some w
      end
  end.

(* a state is a substitution and the fresh-variable counter *)
Record state := mkSt { sub : subst; ctr : N }.

(* EqualO(u, v)(st): zero or one state, counter unchanged; None = out of fuel *)
Definition equalo (f : nat) (u v : term) (st : state) : option (list state) :=
  match unify f u v (sub st) with
  | OOF => None
  | Fail => Some []
  | Ok s' => Some [mkSt s' (ctr st)]
  end.
