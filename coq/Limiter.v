(* L4 model for C12 "the gomini routine limit changes pacing only" (gomini/limit.go, operators.go).  No proofs here.

   SetMaxRoutines(ctx, max): limitChan has capacity max and starts full.  Go(ctx, wg, f) is
        waitForRoutine(ctx)           -- the PARENT takes a token on behalf of the child (blocks while there is none)
        wg.Add(1); go func() { defer wg.Done(); defer releaseRoutine(ctx); f() }()
   so when f returns the child first SENDS a token back (releaseRoutine: a send on limitChan, blocking while the
   channel is full) and only then signals wg.Done.  The ticker goroutine adds a token every 10ms whenever there is
   room, whether or not a permit was given back; that is what lets a parent that holds its own permit, with all
   tokens taken, start children at all - and what can fill the channel while permits are still held.

   A search is a finite forest of tasks (goroutines).  Task i was started by task `par i` (None: by the caller, via
   NewStreamForGoal/Run); `waited` says whether the parent waits for it with wg.Wait() (disj2, DisjO, Bind, Mplus) or
   only for its function to return and close its stream (NewStreamForGoal, wg = nil).  Each task writes the answers
   `ans` to the result stream (the consumer is assumed to drain it).  A parent may start its children in any order
   and interleave that with its own writes (a superset of the Go behaviours).
   Parameters of `step`:  lim = None (no limit installed) | Some max;
                          release_blocks = is releaseRoutine a blocking send (the code: true) or
                          `select { case limitChan <- x: default: }` (false). *)
From Coq Require Import List Arith Bool Lia.
From GMK Require Import Leak.
Import ListNotations.

Inductive status := NotStarted | Running | Releasing | Finished.
Record task := mkT { par : option nat; waited : bool; st : status; ans : list nat }.
Record cfg := mkC { tasks : list task; tokens : nat; out : list nat }.

Inductive label :=
| LAcquire (i : nat)   (* the parent of i gets through waitForRoutine and starts goroutine i *)
| LEmit (i : nat)      (* i writes its next answer *)
| LFinish (i : nat)    (* f returns in goroutine i (its children are through): i enters releaseRoutine *)
| LRelease (i : nat)   (* releaseRoutine of i completes, then wg.Done *)
| LTick.               (* the ticker's send completes *)

Definition is_tick (l : label) : bool := match l with LTick => true | _ => false end.
Definition is_running (s : status) : bool := match s with Running => true | _ => false end.
Definition is_finished (s : status) : bool := match s with Finished => true | _ => false end.
Definition f_returned (s : status) : bool := match s with Releasing | Finished => true | _ => false end.

Definition set_st (t : task) (s : status) : task := mkT (par t) (waited t) s (ans t).
Definition set_ans (t : task) (a : list nat) : task := mkT (par t) (waited t) (st t) a.

Definition parent_running (ts : list task) (t : task) : bool :=
  match par t with
  | None => true
  | Some p => match nth_error ts p with Some tp => is_running (st tp) | None => false end
  end.
(* what task i needs from task t before its function can return *)
Definition child_ok (i : nat) (t : task) : bool :=
  match par t with
  | Some p => if p =? i then (if waited t then is_finished (st t) else f_returned (st t)) else true
  | None => true
  end.

Definition take_token (lim : option nat) (tok : nat) : option nat :=
  match lim with
  | None => Some tok
  | Some _ => match tok with O => None | S k => Some k end
  end.
Definition put_token (lim : option nat) (release_blocks : bool) (tok : nat) : option nat :=
  match lim with
  | None => Some tok
  | Some max => if tok <? max then Some (S tok) else if release_blocks then None else Some tok
  end.

Definition step (lim : option nat) (release_blocks : bool) (c : cfg) (l : label) : option cfg :=
  match l with
  | LAcquire i =>
      match nth_error (tasks c) i with
      | Some t =>
          match st t with
          | NotStarted =>
              if parent_running (tasks c) t then
                match take_token lim (tokens c) with
                | Some k => Some (mkC (upd i (set_st t Running) (tasks c)) k (out c))
                | None => None
                end
              else None
          | _ => None
          end
      | None => None
      end
  | LEmit i =>
      match nth_error (tasks c) i with
      | Some t =>
          match st t, ans t with
          | Running, a :: r => Some (mkC (upd i (set_ans t r) (tasks c)) (tokens c) (a :: out c))
          | _, _ => None
          end
      | None => None
      end
  | LFinish i =>
      match nth_error (tasks c) i with
      | Some t =>
          match st t, ans t with
          | Running, [] =>
              if forallb (child_ok i) (tasks c)
              then Some (mkC (upd i (set_st t Releasing) (tasks c)) (tokens c) (out c))
              else None
          | _, _ => None
          end
      | None => None
      end
  | LRelease i =>
      match nth_error (tasks c) i with
      | Some t =>
          match st t with
          | Releasing =>
              match put_token lim release_blocks (tokens c) with
              | Some k => Some (mkC (upd i (set_st t Finished) (tasks c)) k (out c))
              | None => None
              end
          | _ => None
          end
      | None => None
      end
  | LTick =>
      match lim with
      | Some max => if tokens c <? max then Some (mkC (tasks c) (S (tokens c)) (out c)) else None
      | None => None
      end
  end.

Fixpoint run (lim : option nat) (rb : bool) (c : cfg) (ls : list label) : option cfg :=
  match ls with
  | [] => Some c
  | l :: r => match step lim rb c l with Some c' => run lim rb c' r | None => None end
  end.

(* a program: no task started yet, parents listed before their children *)
Definition wfprog (p : list task) : Prop :=
  (forall t, In t p -> st t = NotStarted) /\
  (forall i t q, nth_error p i = Some t -> par t = Some q -> q < i).
Definition init (tok : nat) (p : list task) : cfg := mkC p tok [].
Definition all_answers (p : list task) : list nat := concat (map ans p).
Definition final (c : cfg) : Prop := forall t, In t (tasks c) -> st t = Finished.
Definition terminal (lim : option nat) (rb : bool) (c : cfg) : Prop := forall l, step lim rb c l = None.

(* remaining work of a task / of a configuration; and the termination measure under a limit *)
Definition wt (t : task) : nat :=
  match st t with
  | NotStarted => 3 + length (ans t)
  | Running => 2 + length (ans t)
  | Releasing => 1
  | Finished => 0
  end.
Fixpoint work (ts : list task) : nat := match ts with [] => 0 | t :: r => wt t + work r end.
Definition mu (max : nat) (c : cfg) : nat := work (tasks c) * S max + (max - tokens c).

(* the unlimited system does not look at tokens; forget them, and forget the ticks of a schedule *)
Definition forget (c : cfg) : cfg := mkC (tasks c) 0 (out c).
Definition erase (ls : list label) : list label := filter (fun l => negb (is_tick l)) ls.

(* a disjunction of two goals writing 7 and 8, started by Run: root (not waited for) with two waited children *)
Definition prog_disj : list task :=
  [mkT None false NotStarted []; mkT (Some 0) true NotStarted [7]; mkT (Some 0) true NotStarted [8]].

(* ---------------------------------------------------------------------------------------------- *)
(* Why handing back a permit has to be ONE atomic non-blocking operation (`select { case ch <- x: default: }`).
   The check-then-act variant  `if len(ch) == cap(ch) { return }; ch <- x`  is two steps: between the check and the
   send another finishing goroutine (or the ticker) may take the last free slot; the send then blocks, and since it
   sits in the deferred release that runs before wg.Done, the parent's Wait never returns.
   A small LTS of k finishing goroutines and the ticker, no acquirer left (the search is over). *)
Inductive rstat := RIdle | RChecked | RReturned.
Record ccfg := mkCC { ctok : nat; rel : list rstat }.
Inductive clabel := CCheck (i : nat) | CSend (i : nat) | CTick.

Definition cstep (max : nat) (c : ccfg) (l : clabel) : option ccfg :=
  match l with
  | CCheck i =>
      match nth_error (rel c) i with
      | Some RIdle => Some (mkCC (ctok c) (upd i (if ctok c <? max then RChecked else RReturned) (rel c)))
      | _ => None
      end
  | CSend i =>
      match nth_error (rel c) i with
      | Some RChecked => if ctok c <? max then Some (mkCC (S (ctok c)) (upd i RReturned (rel c))) else None   (* full: blocks *)
      | _ => None
      end
  | CTick => if ctok c <? max then Some (mkCC (S (ctok c)) (rel c)) else None
  end.

Fixpoint crun (max : nat) (c : ccfg) (ls : list clabel) : option ccfg :=
  match ls with
  | [] => Some c
  | l :: r => match cstep max c l with Some c' => crun max c' r | None => None end
  end.

(* ---------------------------------------------------------------------------------------------- *)
(* Installing the limit: SetMaxRoutines puts max permits into the channel with blocking sends.  If the refill ticker is
   already running while it does so, a tick may take a slot: the last send then blocks, and since the limit has not been
   handed to anybody yet nothing will ever take a permit - SetMaxRoutines never returns.  (The fill takes longer than one
   refill period for limits in the millions.)  State: (permits in the channel, sends still to do). *)
Inductive flabel := FFill | FTick.
Definition fstep (max : nat) (ticker_running : bool) (c : nat * nat) (l : flabel) : option (nat * nat) :=
  match l, c with
  | FFill, (tok, S todo) => if tok <? max then Some (S tok, todo) else None      (* channel full: the send blocks *)
  | FFill, (_, O) => None
  | FTick, (tok, todo) => if ticker_running && (tok <? max) then Some (S tok, todo) else None
  end.
Fixpoint frun (max : nat) (tr : bool) (c : nat * nat) (ls : list flabel) : option (nat * nat) :=
  match ls with
  | [] => Some c
  | l :: r => match fstep max tr c l with Some c' => frun max tr c' r | None => None end
  end.
