(* The functions generated from micro/walk.go, micro/exts.go, micro/unify.go, micro/reify.go (gen/MicroGen.v, regenerated
   from /repo on every run) ARE the hand-written model of Unify.v / Reify.v, for every input and every fuel - and therefore
   never panic.  Every theorem of C01 (and the reifier part of C08) is thereby a theorem about the code as it is now. *)
From Coq Require Import List NArith ZArith Bool Lia.
From GMK Require Import Term Unify UnifySpec UnifyWf UnifyTotal Goal Stream Reify GoLite gen.MicroGen.
Import ListNotations.

(* how the model's outcomes appear in the result monad *)
Definition of_opt {A} (o : option A) : R A := match o with Some a => Ret a | None => OOF_ end.
Definition of_res (r : res) : R (subst * bool) :=
  match r with OOF => OOF_ | Fail => Ret ([], false) | Ok s => Ret (s, true) end.
Definition of_assv (o : option term) : term * bool := match o with Some t => (t, true) | None => (TNil, false) end.

Lemma g_assv_spec v ss : g_assv v ss = Ret (of_assv (assv v ss)).
Proof.
  unfold g_assv.
  match goal with |- (if _ then _ else ?L ss) = _ => assert (HL : forall l, L l = Ret (of_assv (assv v l))) end.
  { induction l as [|[k t] l IH]; [reflexivity|]. cbn [assv fst snd]. destruct (N.eqb k v); [reflexivity|exact IH]. }
  rewrite HL. destruct ss; reflexivity.
Qed.

Lemma g_walk_spec : forall f v s, g_walk f v s = of_opt (walk f v s).
Proof.
  induction f as [|f IH]; intros v s; [reflexivity|].
  cbn [g_walk walk]. rewrite g_assv_spec. destruct (assv v s) as [t|]; cbn; [|reflexivity].
  destruct t; cbn; try reflexivity. apply IH.
Qed.

(* `vv := v; if v.IsVariable() { vv = walk(v.Atom.Var, s) }` followed by the rest of the body K *)
Lemma g_walkt_shape {B} f v s (K : term -> R B) :
  bind (if is_variable v then bind (bind (sx_var v) (fun t => g_walk f t s)) (fun vv => Ret vv) else Ret v) K
  = match walkt f v s with Some vv => K vv | None => OOF_ end.
Proof.
  destruct v; cbn; try reflexivity. rewrite g_walk_spec. destruct (walk f i s); reflexivity.
Qed.

Lemma g_occurs_spec : forall f x v s, g_occurs f x v s = of_opt (occurs f x v s).
Proof.
  induction f as [|f IH]; intros x v s; [reflexivity|].
  cbn [g_occurs occurs]. cbv zeta. rewrite g_walkt_shape. destruct (walkt f v s) as [vv|]; [|reflexivity].
  destruct vv; cbn; try reflexivity.
  rewrite IH. destruct (occurs f x vv1 s) as [[|]|]; cbn; try reflexivity. apply IH.
Qed.

Lemma firstn_length_app {A} (l r : list A) : firstn (length l) (l ++ r) = l.
Proof. induction l; cbn; [destruct r; reflexivity|f_equal; assumption]. Qed.

Lemma slice_set_end : forall (s : subst) (z p : N * term), slice_set (s ++ [z]) (length s) p = Ret (s ++ [p]).
Proof. induction s as [|a s IH]; intros z p; cbn; [reflexivity|]. rewrite IH. reflexivity. Qed.

(* m := make(Substitutions, len(s)+1); copy(m, s); m[len(s)] = p   is   append(s, p) into a fresh slice *)
Lemma fresh_append (s : subst) p :
  slice_set (slice_copy (make_subst (length s + 1)) s) (length s) p = Ret (s ++ [p]).
Proof.
  unfold slice_copy, make_subst. rewrite repeat_length.
  rewrite firstn_all2 by lia.
  replace (length s + 1)%nat with (length s + 1)%nat by reflexivity.
  rewrite repeat_app. rewrite skipn_app. rewrite repeat_length, Nat.sub_diag. cbn [repeat skipn].
  rewrite skipn_all2 by (rewrite repeat_length; lia). cbn [app].
  apply slice_set_end.
Qed.

Lemma g_exts_spec f x v s : g_exts f x v s = of_res (exts f x v s).
Proof.
  unfold g_exts, exts. rewrite g_occurs_spec. destruct (occurs f x v s) as [[|]|]; cbn [of_opt bind of_res]; try reflexivity.
  cbv zeta. rewrite fresh_append. reflexivity.
Qed.

Lemma g_unify_spec : forall f u v s, g_unify f u v s = of_res (unify f u v s).
Proof.
  induction f as [|f IH]; intros u v s; [reflexivity|].
  cbn [g_unify unify]. cbv zeta. rewrite g_walkt_shape. destruct (walkt f u s) as [uu|]; [|reflexivity].
  rewrite g_walkt_shape. destruct (walkt f v s) as [vv|]; [|destruct uu; reflexivity].
  destruct uu as [|a|x|a d]; destruct vv as [|b|y|a' d']; cbn; rewrite ?g_exts_spec; try reflexivity.
  - destruct (atom_eqb a b); reflexivity.
  - destruct (N.eqb x y); reflexivity.
  - rewrite IH. destruct (unify f a a' s) as [| |s1]; cbn; try reflexivity. apply IH.
Qed.

Lemma g_walkStar_spec : forall f v s, g_walkStar f v s = of_opt (walkstar f v s).
Proof.
  induction f as [|f IH]; intros v s; [reflexivity|].
  cbn [g_walkStar walkstar]. cbv zeta. rewrite g_walkt_shape. destruct (walkt f v s) as [vv|]; [|reflexivity].
  destruct vv; cbn; try reflexivity.
  rewrite !IH. destruct (walkstar f vv1 s); cbn; [|reflexivity]. destruct (walkstar f vv2 s); reflexivity.
Qed.

(* ---- consequences stated on the generated code alone ---- *)
Theorem code_never_panics : forall f u v s x,
  g_unify f u v s <> Panic /\ g_walk f x s <> Panic /\ g_occurs f x v s <> Panic /\ g_exts f x v s <> Panic /\
  g_walkStar f v s <> Panic /\ g_assv x s <> Panic.
Proof.
  intros f u v s x. rewrite g_unify_spec, g_walk_spec, g_occurs_spec, g_exts_spec, g_walkStar_spec, g_assv_spec.
  repeat split; try discriminate.
  - destruct (unify f u v s); discriminate.
  - destruct (walk f x s); discriminate.
  - destruct (occurs f x v s); discriminate.
  - destruct (exts f x v s); discriminate.
  - destruct (walkstar f v s); discriminate.
Qed.

Lemma g_unify_ok f u v s s' : g_unify f u v s = Ret (s', true) <-> unify f u v s = Ok s'.
Proof. rewrite g_unify_spec. destruct (unify f u v s); cbn; split; intros H; inversion H; reflexivity. Qed.
Lemma g_unify_fail f u v s s' : g_unify f u v s = Ret (s', false) <-> (unify f u v s = Fail /\ s' = []).
Proof. rewrite g_unify_spec. destruct (unify f u v s); cbn; split; intros H; try (inversion H; fail); try (destruct H; discriminate).
  - inversion H. split; reflexivity. - destruct H as [_ ->]. reflexivity. Qed.

(* the property, on the generated code: a returned state extends the old one and its solutions are exactly the unifiers
   compatible with the old state; (nil, false) is returned only when there is none; on a consistent state a definite
   verdict is returned for every sufficiently deep recursion budget; it never panics *)
Theorem code_unify_mgu : forall f u v s s', g_unify f u v s = Ret (s', true) ->
  (exists ext, s' = s ++ ext) /\ forall r, sat r s' <-> (sat r s /\ inst r u = inst r v).
Proof.
  intros f u v s s' H. apply g_unify_ok in H. split; [exact (proj1 (unify_sound f u v s s' H))|].
  intros r. split; [exact (proj2 (unify_sound f u v s s' H) r)|]. intros [Hs He]. exact (proj2 (unify_mgu f u v s s' H r) (conj Hs He)).
Qed.
Theorem code_unify_fail : forall f u v s s', g_unify f u v s = Ret (s', false) ->
  s' = [] /\ ~ exists r, sat r s /\ inst r u = inst r v.
Proof. intros f u v s s' H. apply g_unify_fail in H. destruct H as [H ->]. split; [reflexivity|exact (unify_fail f u v s H)]. Qed.
Theorem code_unify_total : forall u v s, wf s -> exists f0, forall f, (f0 <= f)%nat -> exists s' b, g_unify f u v s = Ret (s', b).
Proof.
  intros u v s W. destruct (unify_total u v s W) as [f0 H]. exists f0. intros f Hf. specialize (H f Hf).
  rewrite g_unify_spec. destruct (unify f u v s) as [| |s1]; [contradiction| |]; cbn; eauto.
Qed.
Theorem code_unify_wf : forall f u v s s', wf s -> g_unify f u v s = Ret (s', true) -> wf s'.
Proof. intros f u v s s' W H. apply g_unify_ok in H. exact (unify_wf f u v s s' W H). Qed.

(* EqualO (micro/goal.go) as a function of its two terms and the state: zero or one state, the counter unchanged *)
Definition of_goal_res (r : res) (c : N) : R Stream.stream :=
  match r with OOF => OOF_ | Fail => Ret Stream.SNil | Ok s' => Ret (Stream.SCons (mkSt s' c) Stream.SNil) end.
Lemma g_EqualO_spec f u v st : g_EqualO f u v st = of_goal_res (unify f u v (sub st)) (ctr st).
Proof. unfold g_EqualO. rewrite g_unify_spec. destruct (unify f u v (sub st)); reflexivity. Qed.

Theorem code_goal : forall f u v st r, g_EqualO f u v st = Ret r ->
  (r = Stream.SNil /\ ~ exists rr, sat rr (sub st) /\ inst rr u = inst rr v) \/
  (exists s', r = Stream.SCons (mkSt s' (ctr st)) Stream.SNil /\ (exists ext, s' = sub st ++ ext) /\
              forall rr, sat rr s' <-> (sat rr (sub st) /\ inst rr u = inst rr v)).
Proof.
  intros f u v st r H. rewrite g_EqualO_spec in H. destruct (unify f u v (sub st)) as [| |s'] eqn:E; cbn in H; try discriminate.
  - inversion H. left. split; [reflexivity|exact (unify_fail f u v (sub st) E)].
  - inversion H. right. exists s'. split; [reflexivity|]. split; [exact (proj1 (unify_sound f u v (sub st) s' E))|].
    intros rr. split; [exact (proj2 (unify_sound f u v (sub st) s' E) rr)|].
    intros [Hs He]. exact (proj2 (unify_mgu f u v (sub st) s' E rr) (conj Hs He)).
Qed.
