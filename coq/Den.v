(* L2: the logical reading of goal programs, membership in a stream, state invariants. Definitions only. *)
From Coq Require Import List NArith ZArith Bool.
From GMK Require Import Term Unify Goal Stream.
Import ListNotations.

(* Den ds g ve: the formula of g is true when the environment entries denote the terms ve.
   Equality is syntactic identity of the denoted (possibly non-ground) finite terms; a fresh variable is
   an existential over terms; a relation call is its body with the parameters bound (least fixed point:
   Den is inductive).  For the two non-relational combinators Den is only an upper bound:
   once g <= g,  ifte c t e <= (c /\ t) \/ e. *)
Inductive Den (ds : defs) : goal -> list term -> Prop :=
| DSucc ve : Den ds GSucc ve
| DEq t1 t2 ve : close ve t1 = close ve t2 -> Den ds (GEq t1 t2) ve
| DConj g1 g2 ve : Den ds g1 ve -> Den ds g2 ve -> Den ds (GConj g1 g2) ve
| DDisjL g1 g2 ve : Den ds g1 ve -> Den ds (GDisj g1 g2) ve
| DDisjR g1 g2 ve : Den ds g2 ve -> Den ds (GDisj g1 g2) ve
| DFresh g ve t : Den ds g (t :: ve) -> Den ds (GFresh g) ve
| DZzz g ve : Den ds g ve -> Den ds (GZzz g) ve
| DCall r args body ve : ds r = Some body -> Den ds body (arg_env ve args) -> Den ds (GCall r args) ve
| DLet args g ve : Den ds g (arg_env ve args) -> Den ds (GLet args g) ve
| DConjPlus z gs ve : DenAll ds gs ve -> Den ds (GConjPlus z gs) ve
| DDisjPlus z gs g ve : In g gs -> Den ds g ve -> Den ds (GDisjPlus z gs) ve
| DIfteThen c t e ve : Den ds c ve -> Den ds t ve -> Den ds (GIfte c t e) ve
| DIfteElse c t e ve : Den ds e ve -> Den ds (GIfte c t e) ve
| DOnce g ve : Den ds g ve -> Den ds (GOnce g) ve
with DenAll (ds : defs) : list goal -> list term -> Prop :=
| DAnil ve : DenAll ds [] ve
| DAcons g gs ve : Den ds g ve -> DenAll ds gs ve -> DenAll ds (g :: gs) ve.

Scheme Den_mut := Induction for Den Sort Prop
  with DenAll_mut := Induction for DenAll Sort Prop.

(* purely relational goals: no ifte / once *)
Fixpoint relational (g : goal) : bool :=
  match g with
  | GIfte _ _ _ | GOnce _ => false
  | GConj g1 g2 | GDisj g1 g2 => relational g1 && relational g2
  | GFresh g1 | GZzz g1 | GLet _ g1 => relational g1
  | GConjPlus _ gs | GDisjPlus _ gs => forallb relational gs
  | _ => true
  end.

(* a relation body whose head is guard-shaped: exactly the bodies on which the head evaluator is defined.
   This is the property's "recursive calls are delayed (Zzz or the conj+/disj+/conde wrappers)". *)
Fixpoint guardedb (g : goal) : bool :=
  match g with
  | GZzz _ => true
  | GFresh g1 => guardedb g1
  | GDisjPlus true _ => true
  | GConjPlus true _ => true
  | _ => false
  end.

(* every relation called is defined *)
Fixpoint calls_okb (ds : defs) (g : goal) : bool :=
  match g with
  | GCall r _ => match ds r with Some _ => true | None => false end
  | GConj g1 g2 | GDisj g1 g2 => calls_okb ds g1 && calls_okb ds g2
  | GFresh g1 | GZzz g1 | GLet _ g1 | GOnce g1 => calls_okb ds g1
  | GConjPlus _ gs | GDisjPlus _ gs => forallb (calls_okb ds) gs
  | GIfte c t e => calls_okb ds c && calls_okb ds t && calls_okb ds e
  | _ => true
  end.

(* the relation table of a program with delayed recursion *)
Definition defs_ok (ds : defs) : Prop :=
  forall r body, ds r = Some body -> guardedb body = true /\ calls_okb ds body = true.
Definition defs_relational (ds : defs) : Prop :=
  forall r body, ds r = Some body -> relational body = true.

(* the fuel function handed to unify is always enough on consistent states *)
Definition uf_ok (uf : term -> term -> subst -> nat) : Prop :=
  forall u v s, wf s -> unify (uf u v s) u v s <> OOF.

Definition subst_vars (s : subst) : list N := flat_map (fun p => fst p :: vars (snd p)) s.

(* consistent state: acyclic substitution, every variable it mentions was allocated by the counter *)
Definition wf_state (st : state) : Prop :=
  wf (sub st) /\ forall x, In x (subst_vars (sub st)) -> (x < ctr st)%N.

Definition env_ok (e : env) (c : N) : Prop := forall t x, In t e -> In x (vars t) -> (x < c)%N.

Section InStream.
  Variable ds : defs.
  Variable uf : term -> term -> subst -> nat.

  (* x is reached after finitely many cells and forces *)
  Inductive InStream (x : state) : stream -> Prop :=
  | IS_here tl : InStream x (SCons x tl)
  | IS_later a tl : InStream x tl -> InStream x (SCons a tl)
  | IS_force th : InStream x (force ds uf th) -> InStream x (SSusp th).

  (* the same, counting the forces (used for induction across relation calls) *)
  Inductive InStreamN (x : state) : nat -> stream -> Prop :=
  | ISN_here n tl : InStreamN x n (SCons x tl)
  | ISN_later n a tl : InStreamN x n tl -> InStreamN x n (SCons a tl)
  | ISN_force n th : InStreamN x n (force ds uf th) -> InStreamN x (S n) (SSusp th).

  (* the stream ends (reaches nil) after finitely many forces: finite search space *)
  Inductive Finite : stream -> Prop :=
  | Fin_nil : Finite SNil
  | Fin_cons a tl : Finite tl -> Finite (SCons a tl)
  | Fin_force th : Finite (force ds uf th) -> Finite (SSusp th).

  (* finite failure: ends without any answer *)
  Inductive Fails : stream -> Prop :=
  | Fails_nil : Fails SNil
  | Fails_force th : Fails (force ds uf th) -> Fails (SSusp th).

  (* x is the first mature cell *)
  Inductive First (x : state) : stream -> Prop :=
  | First_here tl : First x (SCons x tl)
  | First_force th : First x (force ds uf th) -> First x (SSusp th).

  (* no error is reachable within finitely many forces *)
  Inductive ReachErr : stream -> Prop :=
  | RE_here : ReachErr SErr
  | RE_later a tl : ReachErr tl -> ReachErr (SCons a tl)
  | RE_force th : ReachErr (force ds uf th) -> ReachErr (SSusp th).
End InStream.
