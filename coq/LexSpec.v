(* Proofs about the Scan loop (LexDriver.v): a boolean validator over the lexer tables, and the generic theorem that
   a validated automaton never makes Scan panic, that every Scan consumes at least one byte, that the literal is a
   non-empty prefix of the remaining input, and that lexing the whole input terminates within fuel = length. *)
From Coq Require Import List NArith ZArith Bool Lia.
From GMK Require Import TableTypes Utf8 gen.Tables LexDriver.
Import ListNotations.

(* ---- utf8.DecodeRune consumes between 1 and len(p) bytes of a non-empty p ---- *)
Lemma decode_size : forall p, p <> [] -> (1 <= snd (decode_rune p) <= length p)%nat.
Proof.
  intros p Hp. destruct p as [|p0 t]; [congruence|]. unfold decode_rune.
  destruct (p0 <? 128)%N; [simpl; lia|].
  destruct (p0 <? 194)%N; [simpl; lia|].
  destruct (p0 <? 224)%N.
  { destruct t as [|b1 t]; [simpl; lia|]. destruct (cont b1); simpl; lia. }
  destruct (p0 <? 240)%N.
  { destruct t as [|b1 [|b2 t]]; try (simpl; lia).
    match goal with |- context [if ?c then _ else _] => destruct c end; simpl; lia. }
  destruct (p0 <? 245)%N.
  { destruct t as [|b1 [|b2 [|b3 t]]]; try (simpl; lia).
    match goal with |- context [if ?c then _ else _] => destruct c end; simpl; lia. }
  simpl; lia.
Qed.

(* ---- the generic theorem ---- *)
Section Generic.
Context {St : Type} (A : automaton St).
Context (good : St -> Prop) (P : nat -> Prop).
Hypothesis good_init : good (a_init A).
Hypothesis good_step : forall s r, good s ->
  exists o, a_step A s r = Some o /\ forall s', o = Some s' -> good s'.
Hypothesis good_act : forall s, good s ->
  exists acc ign, a_act A s = Some (acc, ign) /\ (0 <= acc)%Z /\ P (Z.to_nat acc).
Hypothesis P_invalid : P tok_INVALID.

Lemma scan_loop_spec : forall fuel st pos rest pre ty end_,
  good st -> (length rest < fuel)%nat -> length pre = pos ->
  (pos = 0%nat -> rest <> []) ->
  ((end_ = None /\ ty = tok_INVALID) \/ (exists e, end_ = Some e /\ 0 < e <= pos)%nat) ->
  P ty ->
  exists e ty', (0 < e <= length (pre ++ rest))%nat /\ P ty' /\
    scan_loop A fuel st pos rest 0 (pre ++ rest) ty end_ =
    LTok (ty', firstn e (pre ++ rest)) (skipn e (pre ++ rest)).
Proof.
  induction fuel as [|f IH]; intros st pos rest pre ty end_ Hg Hf Hpre Hne Hend HP; [lia|].
  simpl. destruct rest as [|b t] eqn:Er.
  - (* end of input *)
    assert (Hpos : (0 < pos)%nat) by (destruct pos; [exfalso; apply Hne; auto|lia]).
    rewrite app_nil_r.
    destruct (Nat.eqb ty tok_INVALID) eqn:Ety.
    + exists pos, ty. unfold finish. replace (0 <? pos)%nat with true by (symmetry; apply Nat.ltb_lt; lia).
      rewrite Nat.sub_0_r. repeat split; auto; lia.
    + destruct Hend as [[_ Hty]|[e [He Hle]]]; [subst; rewrite Nat.eqb_refl in Ety; discriminate|].
      subst end_. exists e, ty. unfold finish.
      replace (0 <? e)%nat with true by (symmetry; apply Nat.ltb_lt; lia).
      rewrite Nat.sub_0_r. repeat split; auto; lia.
  - rewrite <- Er in *.
    assert (Hr : rest <> []) by (subst; discriminate).
    pose proof (decode_size rest Hr) as Hsz.
    destruct (decode_rune rest) as [r size] eqn:Ed. simpl in Hsz.
    destruct (good_step st r Hg) as [o [Ho Hgo]]. rewrite Ho.
    assert (Hsplit : pre ++ rest = (pre ++ firstn size rest) ++ skipn size rest).
    { rewrite <- app_assoc. rewrite firstn_skipn. reflexivity. }
    assert (Hlen' : length (pre ++ firstn size rest) = (pos + size)%nat).
    { rewrite app_length, firstn_length. lia. }
    assert (Hposle : (pos + size <= length (pre ++ rest))%nat) by (rewrite app_length; lia).
    destruct o as [st'|].
    + destruct (good_act st' (Hgo st' eq_refl)) as [acc [ign [Ha [Hacc HPacc]]]]. rewrite Ha.
      replace (Z.eqb acc (-1)) with false by (symmetry; apply Z.eqb_neq; lia). simpl negb. cbv iota.
      rewrite Hsplit.
      apply IH; auto.
      * rewrite skipn_length. lia.
      * intros; lia.
      * right. exists (pos + size)%nat. split; auto. lia.
    + destruct (Nat.eqb ty tok_INVALID) eqn:Ety.
      * exists (pos + size)%nat, ty. unfold finish.
        replace (0 <? pos + size)%nat with true by (symmetry; apply Nat.ltb_lt; lia).
        rewrite Nat.sub_0_r. repeat split; auto; lia.
      * destruct Hend as [[_ Hty]|[e [He Hle]]]; [subst ty; rewrite Nat.eqb_refl in Ety; discriminate|].
        subst end_. exists e, ty. unfold finish.
        replace (0 <? e)%nat with true by (symmetry; apply Nat.ltb_lt; lia).
        rewrite Nat.sub_0_r. repeat split; auto; lia.
Qed.

(* one Scan on a non-empty remaining input: never panics, the literal is a non-empty prefix, the rest is shorter *)
Theorem scan_spec : forall rest, rest <> [] ->
  exists e ty, (0 < e <= length rest)%nat /\ P ty /\
    scan A rest = LTok (ty, firstn e rest) (skipn e rest).
Proof.
  intros rest Hr. unfold scan. destruct rest as [|b t] eqn:E; [congruence|]. rewrite <- E in *.
  destruct (scan_loop_spec (S (length rest)) (a_init A) 0 rest [] tok_INVALID None) as [e [ty [He [HP Hs]]]]; auto.
  exists e, ty. simpl in *. auto.
Qed.

Theorem lex_all_spec : forall fuel rest, (length rest <= fuel)%nat ->
  exists toks, lex_all A fuel rest = (toks, LEnd) /\ concat (map snd toks) = rest /\
    Forall (fun t : token => snd t <> [] /\ P (fst t)) toks /\ (length toks <= length rest)%nat.
Proof.
  induction fuel as [|f IH]; intros rest Hf.
  - destruct rest; [|simpl in Hf; lia]. exists []. simpl. repeat split; auto.
  - destruct rest as [|b t] eqn:E.
    + exists []. simpl. repeat split; auto.
    + rewrite <- E in *. assert (Hr : rest <> []) by (subst; discriminate).
      destruct (scan_spec rest Hr) as [e [ty [He [HP Hs]]]].
      destruct (IH (skipn e rest)) as [toks [Hl [Hc [Hall Hlen]]]].
      { rewrite skipn_length. lia. }
      exists ((ty, firstn e rest) :: toks).
      assert (Hstep : lex_all A (S f) rest =
                      match scan A rest with
                      | LTok t rest' => let '(ts, e0) := lex_all A f rest' in (t :: ts, e0)
                      | LStuck r => ([], LEStuck r)
                      | LOOF => ([], LEOOF)
                      end).
      { rewrite E. reflexivity. }
      rewrite Hstep, Hs, Hl. repeat split.
      * simpl. rewrite Hc. apply firstn_skipn.
      * constructor; auto. simpl. split; auto. intro Hn.
        apply (f_equal (@length N)) in Hn. rewrite firstn_length in Hn. simpl in Hn. lia.
      * simpl. rewrite skipn_length in Hlen. lia.
Qed.
End Generic.

(* ---- the validator for the tables ---- *)
Definition n_terminals : nat := length tok_names.

Definition lex_row_ok (row : lexrow) : bool :=
  forallb (fun c : N * N * nat => Nat.ltb (snd c) lex_num_states) (lr_cases row)
  && match lr_default row with Some n => Nat.ltb n lex_num_states | None => true end.

(* a token type a Scan may produce: a terminal of the grammar or INVALID, never EOF *)
Definition scan_type_ok (ty : nat) : bool := Nat.ltb ty n_terminals && negb (Nat.eqb ty tok_EOF).

Definition lex_ok : bool :=
  Nat.eqb (length lex_trans) lex_num_states
  && Nat.eqb (length lex_act) lex_num_states
  && Nat.ltb 0 lex_num_states
  && forallb lex_row_ok lex_trans
  && forallb (fun a : Z * bool => Z.leb 0 (fst a) && scan_type_ok (Z.to_nat (fst a))) lex_act
  && scan_type_ok tok_INVALID.

Lemma lex_ok_true : lex_ok = true.
Proof. vm_compute. reflexivity. Qed.

Lemma lex_ok_parts : lex_ok = true ->
  length lex_trans = lex_num_states /\ length lex_act = lex_num_states /\ (0 < lex_num_states)%nat /\
  forallb lex_row_ok lex_trans = true /\
  forallb (fun a : Z * bool => Z.leb 0 (fst a) && scan_type_ok (Z.to_nat (fst a))) lex_act = true /\
  scan_type_ok tok_INVALID = true.
Proof.
  unfold lex_ok. intros H. repeat (apply andb_prop in H; destruct H as [H ?]).
  apply Nat.eqb_eq in H.
  repeat match goal with
         | X : Nat.eqb _ _ = true |- _ => apply Nat.eqb_eq in X
         | X : Nat.ltb _ _ = true |- _ => apply Nat.ltb_lt in X
         end.
  repeat split; assumption.
Qed.

Lemma row_cases_in : forall cs r n, row_cases cs r = Some n -> exists lo hi, In (lo, hi, n) cs.
Proof.
  induction cs as [|[[lo hi] m] cs IH]; simpl; intros r n H; [discriminate|].
  destruct (N.leb lo r && N.leb r hi)%bool.
  - inversion H; subst. eauto.
  - destruct (IH _ _ H) as [lo' [hi' Hin]]. eauto.
Qed.

Section Dfa.
Hypothesis Hok : lex_ok = true.

Let good (s : nat) : Prop := (s < lex_num_states)%nat.
Let P (ty : nat) : Prop := scan_type_ok ty = true.

Lemma dfa_good_init : good (a_init dfa).
Proof. destruct (lex_ok_parts Hok) as (_ & _ & H & _). exact H. Qed.

Lemma dfa_good_step : forall s r, good s ->
  exists o, a_step dfa s r = Some o /\ forall s', o = Some s' -> good s'.
Proof.
  unfold good. intros s r Hs. simpl. unfold dfa_step.
  destruct (lex_ok_parts Hok) as (Hlen & _ & _ & Hrows & _).
  destruct (nth_error lex_trans s) as [row|] eqn:En.
  - eexists; split; [reflexivity|]. intros s' Hs'.
    rewrite forallb_forall in Hrows. specialize (Hrows row (nth_error_In _ _ En)).
    unfold lex_row_ok in Hrows. apply andb_prop in Hrows. destruct Hrows as [Hc Hd].
    destruct (row_cases (lr_cases row) r) as [n|] eqn:Erc.
    + inversion Hs'; subst. destruct (row_cases_in _ _ _ Erc) as [lo [hi Hin]].
      rewrite forallb_forall in Hc. specialize (Hc _ Hin). simpl in Hc. apply Nat.ltb_lt. exact Hc.
    + rewrite Hs' in Hd. apply Nat.ltb_lt. exact Hd.
  - apply nth_error_None in En. lia.
Qed.

Lemma dfa_good_act : forall s, good s ->
  exists acc ign, a_act dfa s = Some (acc, ign) /\ (0 <= acc)%Z /\ P (Z.to_nat acc).
Proof.
  unfold good, P. intros s Hs. simpl.
  destruct (lex_ok_parts Hok) as (_ & Hlen & _ & _ & Hacts & _).
  destruct (nth_error lex_act s) as [[acc ign]|] eqn:En.
  - exists acc, ign. split; auto.
    rewrite forallb_forall in Hacts. specialize (Hacts _ (nth_error_In _ _ En)). simpl in Hacts.
    apply andb_prop in Hacts. destruct Hacts as [H0 HP]. split; auto. apply Z.leb_le. exact H0.
  - apply nth_error_None in En. lia.
Qed.

Lemma dfa_P_invalid : P tok_INVALID.
Proof. destruct (lex_ok_parts Hok) as (_ & _ & _ & _ & _ & H). exact H. Qed.

Definition dfa_scan_spec := scan_spec dfa good P dfa_good_init dfa_good_step dfa_good_act dfa_P_invalid.
Definition dfa_lex_all_spec := lex_all_spec dfa good P dfa_good_init dfa_good_step dfa_good_act dfa_P_invalid.
End Dfa.

(* a token as the lexer produces them before the end of the input *)
Definition real_token (t : token) : Prop :=
  snd t <> [] /\ (fst t < n_terminals)%nat /\ fst t <> tok_EOF.

Lemma scan_type_ok_real : forall t : token, snd t <> [] /\ scan_type_ok (fst t) = true -> real_token t.
Proof.
  intros t [H1 H2]. unfold scan_type_ok in H2. apply andb_prop in H2. destruct H2 as [Ha Hb].
  apply Nat.ltb_lt in Ha. apply negb_true_iff in Hb. apply Nat.eqb_neq in Hb. repeat split; auto.
Qed.

(* every Scan consumes at least one byte of a non-empty input, never panics, and returns a non-empty literal
   that is a prefix of the input *)
Theorem scan_progress : forall bs, bs <> [] ->
  exists t rest, scan dfa bs = LTok t rest /\ (length rest < length bs)%nat /\ snd t ++ rest = bs /\ real_token t.
Proof.
  intros bs Hbs. destruct (dfa_scan_spec lex_ok_true bs Hbs) as [e [ty [He [HP Hs]]]].
  exists (ty, firstn e bs), (skipn e bs). split; auto. split.
  - rewrite skipn_length. lia.
  - split; [apply firstn_skipn|]. apply scan_type_ok_real. split; auto. simpl. intro Hn.
    apply (f_equal (@length N)) in Hn. rewrite firstn_length in Hn. simpl in Hn. lia.
Qed.

(* lexing the whole input terminates within fuel = length, never panics, and the literals partition the input *)
Theorem lex_bytes_spec : forall bs,
  exists toks, lex_bytes bs = (toks, LEnd) /\ concat (map snd toks) = bs /\ Forall real_token toks /\
               (length toks <= length bs)%nat.
Proof.
  intros bs. destruct (dfa_lex_all_spec lex_ok_true (length bs) bs (le_n _)) as [toks [Hl [Hc [Hall Hlen]]]].
  exists toks. repeat split; auto. eapply Forall_impl; [|exact Hall]. intros t Ht. apply scan_type_ok_real. exact Ht.
Qed.
