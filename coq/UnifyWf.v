From Coq Require Import List NArith ZArith Lia Bool Arith.
From GMK Require Import Term Unify UnifySpec.
Import ListNotations.

(* Well-formedness (acyclic, distinct keys) of substitutions: walk terminates, and exts / unify preserve wf.
   The work-horse is the fuel-free relation WS s t t' : "t' is the full expansion of t under s". *)

(* ---------- small list facts ---------- *)

Lemma list_bound (g : N -> nat) : forall l : list N, exists n, forall y, In y l -> (g y < n)%nat.
Proof.
  induction l as [|a l IHl].
  - exists O. intros y [].
  - destruct IHl as [n Hn]. exists (S (Nat.max n (g a))). intros y [Hy|Hy].
    + subst. lia.
    + specialize (Hn y Hy). lia.
Qed.

Lemma NoDup_snoc (x : N) : forall l, NoDup l -> ~ In x l -> NoDup (l ++ [x]).
Proof.
  induction l as [|a l IHl]; simpl; intros Hnd Hni.
  - constructor; [intros []|constructor].
  - inversion Hnd as [|a' l' Ha Hl]; subst. constructor.
    + intros Hin. apply in_app_or in Hin. destruct Hin as [Hin|[Hin|[]]]; [auto|].
      apply Hni. left. congruence.
    + apply IHl; auto.
Qed.

Definition memb (x : N) (l : list N) : bool := existsb (N.eqb x) l.

Lemma memb_in x l : memb x l = true <-> In x l.
Proof.
  unfold memb. rewrite existsb_exists. split.
  - intros [y [Hy He]]. apply N.eqb_eq in He. subst. exact Hy.
  - intros Hx. exists x. split; [exact Hx|apply N.eqb_refl].
Qed.

Lemma memb_notin x l : memb x l = false <-> ~ In x l.
Proof.
  rewrite <- memb_in. destruct (memb x l); split; congruence.
Qed.

Lemma fin_choice (P : N -> term -> Prop) : (forall n, exists a, P n a) ->
  forall l : list N, exists e : N -> term, forall n, In n l -> P n (e n).
Proof.
  intros Hex. induction l as [|a l IHl].
  - exists (fun _ => TNil). intros n [].
  - destruct IHl as [e He]. destruct (Hex a) as [ta Hta].
    exists (fun n => if N.eqb n a then ta else e n). intros n Hn.
    destruct (N.eqb_spec n a) as [E|E].
    + subst. exact Hta.
    + destruct Hn as [Hn|Hn]; [congruence|auto].
Qed.

Lemma assv_NoDup x t : forall s : subst, NoDup (map fst s) -> In (x, t) s -> assv x s = Some t.
Proof.
  induction s as [|[k w] s IHs]; simpl; intros Hnd Hin; [contradiction|].
  inversion Hnd as [|k' l' Hk Hl]; subst.
  destruct Hin as [Hin|Hin].
  - inversion Hin; subst. rewrite N.eqb_refl. reflexivity.
  - destruct (N.eqb_spec k x) as [E|E].
    + subst. exfalso. apply Hk. change x with (fst (x, t)). apply in_map. exact Hin.
    + apply IHs; auto.
Qed.

(* ---------- full expansion as a relation ---------- *)

Inductive WS (s : subst) : term -> term -> Prop :=
| WS_nil : WS s TNil TNil
| WS_atom a : WS s (TAtom a) (TAtom a)
| WS_unb x : assv x s = None -> WS s (TVar x) (TVar x)
| WS_bnd x t t' : assv x s = Some t -> WS s t t' -> WS s (TVar x) t'
| WS_pair a d a' d' : WS s a a' -> WS s d d' -> WS s (TPair a d) (TPair a' d').

Lemma WS_var_inv s x t' : WS s (TVar x) t' ->
  (assv x s = None /\ t' = TVar x) \/ (exists t, assv x s = Some t /\ WS s t t').
Proof.
  intros H. inversion H; subst.
  - left. auto.
  - right. eauto.
Qed.

Lemma WS_pair_inv s a d t' : WS s (TPair a d) t' ->
  exists a' d', t' = TPair a' d' /\ WS s a a' /\ WS s d d'.
Proof.
  intros H. inversion H; subst. eauto.
Qed.

Lemma WS_fun s t t1 : WS s t t1 -> forall t2, WS s t t2 -> t1 = t2.
Proof.
  induction 1 as [| a | x Hx | x t t' Hx Hw IH | a d a' d' Ha IHa Hd IHd]; intros t2 H2.
  - inversion H2; reflexivity.
  - inversion H2; reflexivity.
  - apply WS_var_inv in H2. destruct H2 as [[_ E]|[t [E _]]]; [auto|congruence].
  - apply WS_var_inv in H2. destruct H2 as [[E _]|[t0 [E Hw0]]]; [congruence|].
    apply IH. assert (t0 = t) by congruence. subst. exact Hw0.
  - apply WS_pair_inv in H2. destruct H2 as [a2 [d2 [E [Ha2 Hd2]]]]. subst.
    f_equal; auto.
Qed.

Lemma WS_total s : wf s -> forall t, exists t', WS s t t'.
Proof.
  intros [_ [rank Hr]].
  assert (Hn: forall n t, (forall y, In y (vars t) -> (rank y < n)%nat) -> exists t', WS s t t').
  { induction n as [|n IHn]; intros t; induction t as [| a | i | a IHa d IHd]; intros Hb.
    - exists TNil. constructor.
    - exists (TAtom a). constructor.
    - exfalso. specialize (Hb i (or_introl eq_refl)). lia.
    - destruct IHa as [a' Ha]. { intros y Hy. apply Hb. simpl. apply in_or_app. auto. }
      destruct IHd as [d' Hd]. { intros y Hy. apply Hb. simpl. apply in_or_app. auto. }
      exists (TPair a' d'). constructor; auto.
    - exists TNil. constructor.
    - exists (TAtom a). constructor.
    - destruct (assv i s) as [t|] eqn:E.
      + destruct (IHn t) as [t' Ht'].
        { intros y Hy. apply assv_in in E. specialize (Hr i t y E Hy).
          specialize (Hb i (or_introl eq_refl)). lia. }
        exists t'. eapply WS_bnd; eauto.
      + exists (TVar i). constructor. exact E.
    - destruct IHa as [a' Ha]. { intros y Hy. apply Hb. simpl. apply in_or_app. auto. }
      destruct IHd as [d' Hd]. { intros y Hy. apply Hb. simpl. apply in_or_app. auto. }
      exists (TPair a' d'). constructor; auto. }
  intros t. destruct (list_bound rank (vars t)) as [n Hb]. apply (Hn n t Hb).
Qed.

(* walk / walkt and the expansion *)
Lemma WS_walk s : forall f x t, walk f x s = Some t -> forall t', WS s (TVar x) t' -> WS s t t'.
Proof.
  induction f as [|f IH]; simpl; intros x t H t' Hw; [discriminate|].
  destruct (assv x s) as [w|] eqn:E.
  - apply WS_var_inv in Hw. destruct Hw as [[E' _]|[t0 [E' Hw0]]]; [congruence|].
    assert (t0 = w) by congruence. subst t0.
    destruct w; try (inversion H; subst; exact Hw0).
    eapply IH; eauto.
  - inversion H; subst. exact Hw.
Qed.

Lemma WS_walkt s f u uu t' : walkt f u s = Some uu -> WS s u t' -> WS s uu t'.
Proof.
  destruct u; simpl; intros H Hw; try (inversion H; subst; exact Hw).
  eapply WS_walk; eauto.
Qed.

Lemma walkt_unbound f u s uu : walkt f u s = Some uu -> unbound s uu.
Proof.
  destruct u; simpl; intros H; try (inversion H; subst; exact I).
  eapply walk_unbound; eauto.
Qed.

(* ---------- (1) walk terminates on wf substitutions ---------- *)

Theorem walk_total : forall s, wf s -> forall x, exists f0 t, forall f, (f0 <= f)%nat -> walk f x s = Some t.
Proof.
  intros s [_ [rank Hr]] x.
  assert (Hn: forall n y, (rank y < n)%nat -> exists t, walk n y s = Some t).
  { induction n as [|n IHn]; intros y Hy; [lia|]. simpl.
    destruct (assv y s) as [w|] eqn:E; [|eauto].
    destruct w; eauto. apply IHn. apply assv_in in E.
    specialize (Hr y (TVar i) i E (or_introl eq_refl)). lia. }
  destruct (Hn (S (rank x)) x) as [t Ht]; [lia|].
  exists (S (rank x)), t. intros f Hf. eapply walk_mono; eauto.
Qed.
Print Assumptions walk_total.

Lemma walkt_total s : wf s -> forall u, exists f0 t, forall f, (f0 <= f)%nat -> walkt f u s = Some t.
Proof.
  intros Hwf u. destruct u; try (exists O; eexists; intros; simpl; reflexivity).
  simpl. apply walk_total. exact Hwf.
Qed.

(* ---------- occurs and the expansion ---------- *)

Lemma occurs_S f x v s : occurs (S f) x v s =
  match walkt f v s with
  | None => None
  | Some vv =>
      match vv with
      | TVar y => Some (N.eqb y x)
      | TPair a d =>
          match occurs f x a s with
          | Some true => Some true
          | Some false => occurs f x d s
          | None => None
          end
      | _ => Some false
      end
  end.
Proof. reflexivity. Qed.

(* occurs decides membership of x in the variables of the expansion *)
Lemma occurs_WS s : forall f x v b, occurs f x v s = Some b ->
  forall v', WS s v v' -> (b = true <-> In x (vars v')).
Proof.
  induction f as [|f IH]; intros x v b H v' Hw; [discriminate|].
  rewrite occurs_S in H.
  destruct (walkt f v s) as [vv|] eqn:Ew; [|discriminate].
  pose proof (WS_walkt s f v vv v' Ew Hw) as Hw'.
  pose proof (walkt_unbound f v s vv Ew) as Hu.
  destruct vv as [| a | y | a d].
  - inversion H; subst. inversion Hw'; subst. simpl. split; [discriminate|tauto].
  - inversion H; subst. inversion Hw'; subst. simpl. split; [discriminate|tauto].
  - simpl in Hu. apply WS_var_inv in Hw'. destruct Hw' as [[_ E]|[t [E _]]]; [|congruence].
    subst v'. inversion H; subst. simpl. rewrite N.eqb_eq. split; [auto|].
    intros [E|[]]; auto.
  - apply WS_pair_inv in Hw'. destruct Hw' as [a' [d' [E [Ha Hd]]]]. subst v'. simpl.
    destruct (occurs f x a s) as [[|]|] eqn:E1; try discriminate.
    + inversion H; subst. pose proof (IH x a true E1 a' Ha) as [I1 _].
      split; [intros _; apply in_or_app; left; auto|auto].
    + pose proof (IH x a false E1 a' Ha) as [_ I1].
      pose proof (IH x d b H d' Hd) as [I2 I3].
      split.
      * intros Hb. apply in_or_app. right. auto.
      * intros Hin. apply in_app_or in Hin. destruct Hin as [Hin|Hin]; [|auto].
        specialize (I1 Hin). discriminate.
Qed.

(* the variables of the expansion of a variable of t are variables of the expansion of t *)
Lemma WS_vars_sub s t t' : WS s t t' -> forall y ty, In y (vars t) -> WS s (TVar y) ty ->
  incl (vars ty) (vars t').
Proof.
  induction 1 as [| a | x Hx | x t t' Hx Hw IH | a d a' d' Ha IHa Hd IHd]; intros y ty Hy Hwy; simpl in Hy.
  - contradiction.
  - contradiction.
  - destruct Hy as [Hy|[]]. subst y.
    assert (E: ty = TVar x) by (eapply WS_fun; [exact Hwy|constructor; exact Hx]).
    subst. apply incl_refl.
  - destruct Hy as [Hy|[]]. subst y.
    assert (E: ty = t') by (eapply WS_fun; [exact Hwy|eapply WS_bnd; eauto]).
    subst. apply incl_refl.
  - simpl. apply in_app_or in Hy. destruct Hy as [Hy|Hy].
    + apply incl_appl. eapply IHa; eauto.
    + apply incl_appr. eapply IHd; eauto.
Qed.

(* ---------- (2) exts and unify preserve wf ---------- *)

Theorem exts_wf : forall f x v s s', wf s -> assv x s = None -> exts f x v s = Ok s' -> wf s'.
Proof.
  intros f x v s s' Hwf Hx He. unfold exts in He.
  destruct (occurs f x v s) as [[|]|] eqn:Eo; try discriminate.
  inversion He; subst s'. clear He.
  destruct (WS_total s Hwf v) as [v' Hv'].
  pose proof (occurs_WS s f x v false Eo v' Hv') as [_ Hnx].
  assert (Hnx': ~ In x (vars v')) by (intros Hin; specialize (Hnx Hin); discriminate).
  pose proof Hwf as [Hnd [rank Hr]].
  split.
  - rewrite map_app. simpl. apply NoDup_snoc; [exact Hnd|]. apply assv_none. exact Hx.
  - (* every variable that matters gets its expansion *)
    destruct (fin_choice (fun n t => WS s (TVar n) t) (fun n => WS_total s Hwf (TVar n))
                (x :: vars v ++ map fst s ++ flat_map (fun p => vars (snd p)) s)) as [e He].
    assert (Hex: WS s (TVar x) (e x)) by (apply He; left; reflexivity).
    assert (Hev: forall y, In y (vars v) -> WS s (TVar y) (e y)).
    { intros y Hy. apply He. right. apply in_or_app. left. exact Hy. }
    assert (Hek: forall a t, In (a, t) s -> WS s (TVar a) (e a)).
    { intros a t Hin. apply He. right. apply in_or_app. right. apply in_or_app. left.
      change a with (fst (a, t)). apply in_map. exact Hin. }
    assert (Hey: forall a t y, In (a, t) s -> In y (vars t) -> WS s (TVar y) (e y)).
    { intros a t y Hin Hy. apply He. right. apply in_or_app. right. apply in_or_app. right.
      apply in_flat_map. exists (a, t). split; [exact Hin|exact Hy]. }
    destruct (list_bound rank (vars v)) as [B HB].
    exists (fun n => if memb x (vars (e n)) then (rank n + B)%nat else rank n).
    intros a t y Hin Hy. apply in_app_or in Hin. destruct Hin as [Hin|[Hin|[]]].
    + (* an old edge: if y reaches x then so does a *)
      pose proof (Hr a t y Hin Hy) as Hlt.
      pose proof (Hek a t Hin) as Hwa. pose proof (Hey a t y Hin Hy) as Hwy.
      pose proof (assv_NoDup a t s Hnd Hin) as Ea.
      apply WS_var_inv in Hwa. destruct Hwa as [[Ea' _]|[t0 [Ea' Hwt]]]; [congruence|].
      assert (t0 = t) by congruence. subst t0.
      pose proof (WS_vars_sub s t (e a) Hwt y (e y) Hy Hwy) as Hsub.
      destruct (memb x (vars (e y))) eqn:My.
      * apply memb_in in My. apply Hsub in My. apply memb_in in My. rewrite My. lia.
      * destruct (memb x (vars (e a))); lia.
    + (* the new edge x -> y: x reaches itself, y does not reach x *)
      inversion Hin; subst a t. clear Hin.
      assert (Exx: e x = TVar x) by (eapply WS_fun; [exact Hex|constructor; exact Hx]).
      rewrite Exx. simpl. rewrite N.eqb_refl. simpl.
      pose proof (WS_vars_sub s v v' Hv' y (e y) Hy (Hev y Hy)) as Hsub.
      assert (My: memb x (vars (e y)) = false).
      { apply memb_notin. intros Hin. apply Hnx'. apply Hsub. exact Hin. }
      rewrite My. specialize (HB y Hy). lia.
Qed.
Print Assumptions exts_wf.

Theorem unify_wf : forall f u v s s', wf s -> unify f u v s = Ok s' -> wf s'.
Proof.
  induction f as [|f IH]; simpl; intros u v s s' Hwf H; [discriminate|].
  destruct (walkt f u s) as [uu|] eqn:Eu; [|discriminate].
  destruct (walkt f v s) as [vv|] eqn:Ev; [|discriminate].
  pose proof (walkt_unbound f u s uu Eu) as Huu.
  pose proof (walkt_unbound f v s vv Ev) as Hvv.
  destruct uu as [| au | xu | a d], vv as [| av | xv | a' d']; simpl in Huu, Hvv; try discriminate;
  try (inversion H; subst; exact Hwf);
  try (eapply exts_wf; [exact Hwf| |exact H]; assumption).
  - destruct (atom_eqb au av); [|discriminate]. inversion H; subst; exact Hwf.
  - destruct (N.eqb xu xv).
    + inversion H; subst; exact Hwf.
    + eapply exts_wf; [exact Hwf| |exact H]; assumption.
  - destruct (unify f a a' s) as [| |s1] eqn:E1; try discriminate.
    eapply IH; [|exact H]. eapply IH; [exact Hwf|exact E1].
Qed.
Print Assumptions unify_wf.
