(* Correspondence for C14 and C15: the implementation's observations (written by harness/c14.go) against the models
   LexDriver/LRDriver (tables), Grammar.rd + LexRe (the bnf itself) and Print. Executable, evaluated with vm_compute. *)
From Coq Require Import List NArith ZArith Bool.
From GMK Require Import TableTypes Utf8 gen.Tables gen.GrammarGen LexDriver LRDriver Grammar LexRe Print CorrBase.
Import ListNotations.

(* what sexpr.Parse did: a tree (variables by name, floats by literal text), an error, or a panic *)
Inductive obs := OAccept (v : sx) | OError | OPanic.

Inductive case14 :=
(* sexpr.Parse(input) = impl;  strs/floats: for every string_lit / float_lit text the real lexer produced on this
   input, what strconv.Unquote / strconv.ParseFloat(.,64) did (the oracle inputs of the model) *)
| C14Parse (input : list N) (strs : list (list N * option (list N))) (floats : list (list N * bool)) (impl : obs)
(* lexer.NewLexer(input).Scan() repeated up to and including the first EOF *)
| C14Lex (input : list N) (toks : list token)
(* e.String() = text for the expression e built with the exported constructors; atoms: the token (class, text)
   of every atom of e;  sexpr.Parse(text) = impl *)
| C15Print (e : sx) (atoms : list (sx * token)) (text : list N)
           (strs : list (list N * option (list N))) (floats : list (list N * bool)) (impl : obs).

Definition bytes_eqb : list N -> list N -> bool := list_eqb N.eqb.
Definition token_eqb (a b : token) : bool := Nat.eqb (fst a) (fst b) && bytes_eqb (snd a) (snd b).

Fixpoint sx_eqb (a b : sx) : bool :=
  match a, b with
  | XNil, XNil => true
  | XCons a1 d1, XCons a2 d2 => sx_eqb a1 a2 && sx_eqb d1 d2
  | XSym s, XSym s' => bytes_eqb s s'
  | XInt z, XInt z' => Z.eqb z z'
  | XFloat s, XFloat s' => bytes_eqb s s'
  | XStr s, XStr s' => bytes_eqb s s'
  | XVar s, XVar s' => bytes_eqb s s'
  | _, _ => false
  end.

Fixpoint assoc {B} (k : list N) (l : list (list N * B)) : option B :=
  match l with
  | [] => None
  | (k', v) :: l' => if bytes_eqb k k' then Some v else assoc k l'
  end.

Definition oracle_of (strs : list (list N * option (list N))) (floats : list (list N * bool)) : oracles :=
  mkOracles (fun s => match assoc s strs with Some r => r | None => None end)
            (fun s => match assoc s floats with Some b => b | None => false end).

Definition t_float : nat := 8.
Definition t_string : nat := 9.

(* every literal whose conversion the model may ask for has a recorded answer *)
Definition oracles_cover (toks : list token) (strs : list (list N * option (list N)))
           (floats : list (list N * bool)) : bool :=
  forallb (fun t : token =>
             if Nat.eqb (fst t) t_string then match assoc (snd t) strs with Some _ => true | None => false end
             else if Nat.eqb (fst t) t_float then match assoc (snd t) floats with Some _ => true | None => false end
             else true) toks.

Definition obs_matches (m : outcome) (i : obs) : bool :=
  match m, i with
  | Accept v, OAccept v' => sx_eqb v v'
  | ParseError, OError => true
  | Stuck _, OPanic => true
  | _, _ => false
  end.

Definition lexend_eqb (a b : lexend) : bool :=
  match a, b with LEnd, LEnd => true | _, _ => false end.

(* model of Parse on the input, and agreement of the three descriptions of the language:
   tables (DFA + LR automaton), the bnf itself (regular expressions + recursive descent) *)
Definition check_parse (input : list N) (strs : list (list N * option (list N)))
           (floats : list (list N * bool)) (impl : obs) : bool :=
  let o := oracle_of strs floats in
  let '(toks, e) := lex_bytes input in
  let '(stoks, se) := spec_lex_bytes input in
  let m := parse_input o (toks, e) in
  oracles_cover toks strs floats
  && lexend_eqb e LEnd && lexend_eqb se LEnd
  && list_eqb token_eqb toks stoks                         (* DFA = regular expressions of the bnf *)
  && obs_matches m impl                                    (* model = implementation *)
  && match m, rd o toks with                               (* LR automaton = grammar of the bnf *)
     | Accept v, Some v' => sx_eqb v v'
     | ParseError, None => true
     | _, _ => false
     end.

Fixpoint alookup (a : sx) (l : list (sx * token)) : option token :=
  match l with
  | [] => None
  | (k, v) :: l' => if sx_eqb a k then Some v else alookup a l'
  end.

Fixpoint atoms_of (e : sx) : list sx :=
  match e with
  | XNil => []
  | XCons a d => atoms_of a ++ atoms_of d
  | _ => [e]
  end.

Definition check14 (c : case14) : bool :=
  match c with
  | C14Parse input strs floats impl => check_parse input strs floats impl
  | C14Lex input itoks =>
    let '(toks, e) := lex_bytes input in
    lexend_eqb e LEnd && list_eqb token_eqb (toks ++ [(tok_EOF, [])]) itoks
  | C15Print e atoms text strs floats impl =>
    let atom_tok := fun a => match alookup a atoms with Some t => t | None => (tok_INVALID, []) end in
    forallb (fun a => match alookup a atoms with Some _ => true | None => false end) (atoms_of e)
    && bytes_eqb (print_bytes atom_tok e) text             (* printer model = String() *)
    && (let '(toks, le) := lex_bytes text in               (* the printed tokens are what the lexer sees *)
        lexend_eqb le LEnd && list_eqb token_eqb toks (print atom_tok e))
    && check_parse text strs floats impl
  end.
