(* Finite streams: the complete answer lists of conj+/disj+/conde with Zzz are permutations of the answer
   lists of the right-nested binary conjunction / disjunction. *)
From Coq Require Import List NArith ZArith Bool Lia Permutation.
From GMK Require Import Term Unify Goal Stream Den InStream Comb.
Import ListNotations.

Section Perm.
  Variable ds : defs.
  Variable uf : term -> term -> subst -> nat.

  Local Notation eval := (eval ds uf).
  Local Notation force := (force ds uf).
  Local Notation take := (take ds uf).
  Local Notation InStream := (InStream ds uf).
  Local Notation Finite := (Finite ds uf).

  (* the stream ends after finitely many forces and l is the list of all its answers, in order *)
  Inductive Ans : stream -> list state -> Prop :=
  | A_nil : Ans SNil []
  | A_cons a tl l : Ans tl l -> Ans (SCons a tl) (a :: l)
  | A_force th l : Ans (force th) l -> Ans (SSusp th) l.

  (* the same within n forces *)
  Inductive AnsN : nat -> stream -> list state -> Prop :=
  | AN_nil n : AnsN n SNil []
  | AN_cons n a tl l : AnsN n tl l -> AnsN n (SCons a tl) (a :: l)
  | AN_force n th l : AnsN n (force th) l -> AnsN (S n) (SSusp th) l.

  Lemma AnsN_mono : forall n s l, AnsN n s l -> forall m, (n <= m)%nat -> AnsN m s l.
  Proof.
    intros n s l H. induction H; intros m Hm.
    - constructor.
    - constructor; auto.
    - destruct m as [|m]; [lia|]. constructor. apply IHAnsN. lia.
  Qed.

  Lemma AnsN_Ans : forall n s l, AnsN n s l -> Ans s l.
  Proof. intros n s l H. induction H; constructor; assumption. Qed.

  Lemma Ans_AnsN : forall s l, Ans s l -> exists n, AnsN n s l.
  Proof.
    intros s l H. induction H.
    - exists O. constructor.
    - destruct IHAns as [n Hn]. exists n. constructor; assumption.
    - destruct IHAns as [n Hn]. exists (S n). constructor; assumption.
  Qed.

  Lemma Ans_det : forall s l, Ans s l -> forall l', Ans s l' -> l = l'.
  Proof.
    intros s l H. induction H; intros l' H'; inversion H'; subst; auto.
    f_equal. auto.
  Qed.

  Theorem Ans_finite : forall s, Finite s <-> exists l, Ans s l.
  Proof.
    intros s; split.
    - intros H. induction H as [|a tl H [l IH]|th H [l IH]].
      + exists []. constructor.
      + exists (a :: l). constructor; assumption.
      + exists l. constructor; assumption.
    - intros [l H]. induction H; constructor; assumption.
  Qed.

  Theorem Ans_in : forall s l, Ans s l -> forall x, InStream x s <-> In x l.
  Proof.
    intros s l H. induction H as [|a tl l H IH|th l H IH]; intros x.
    - split; intros Hx; inversion Hx.
    - split; intros Hx.
      + inversion Hx; subst; [left; reflexivity|right; apply IH; assumption].
      + destruct Hx as [->|Hx]; [constructor|constructor; apply IH; assumption].
    - split; intros Hx.
      + inversion Hx; subst. apply IH; assumption.
      + constructor. apply IH; assumption.
  Qed.

  (* Ans is what takeStream returns for a negative n *)
  Theorem Ans_take : forall n s l, (n < 0)%Z -> (Ans s l <-> exists f, take f n s = Some l).
  Proof.
    intros n s l Hn; split.
    - intros H. revert n Hn. induction H as [|a tl l H IH|th l H IH]; intros n Hn.
      + exists 1%nat. simpl. destruct (Z.eqb_spec n 0); [lia|reflexivity].
      + destruct (IH (n - 1)%Z) as [f Hf]; [lia|]. exists (S f). simpl.
        destruct (Z.eqb_spec n 0); [lia|]. rewrite Hf. reflexivity.
      + destruct (IH n Hn) as [f Hf]. exists (S f). simpl.
        destruct (Z.eqb_spec n 0); [lia|]. assumption.
    - intros [f H]. revert n s l Hn H. induction f as [|f IH]; intros n s l Hn H; [discriminate|].
      simpl in H. destruct (Z.eqb_spec n 0); [lia|].
      destruct s as [|a tl|th|].
      + inversion H; subst. constructor.
      + destruct (take f (n - 1) tl) as [l0|] eqn:E; simpl in H; [|discriminate].
        inversion H; subst. constructor. apply (IH (n - 1)%Z); [lia|assumption].
      + constructor. apply (IH n); assumption.
      + discriminate.
  Qed.

  (* "s has a complete answer list which is a permutation of l0" *)
  Definition PA (s : stream) (l0 : list state) : Prop := exists l, Ans s l /\ Permutation l l0.

  Lemma PA_ans : forall s l, Ans s l -> PA s l.
  Proof. intros s l H. exists l. split; [assumption|apply Permutation_refl]. Qed.
  Lemma PA_cons : forall a tl l0, PA tl l0 -> PA (SCons a tl) (a :: l0).
  Proof. intros a tl l0 [l [H P]]. exists (a :: l). split; [constructor; assumption|constructor; assumption]. Qed.
  Lemma PA_force : forall th l0, PA (force th) l0 -> PA (SSusp th) l0.
  Proof. intros th l0 [l [H P]]. exists l. split; [constructor; assumption|assumption]. Qed.
  Lemma PA_perm : forall s l0 l1, PA s l0 -> Permutation l0 l1 -> PA s l1.
  Proof. intros s l0 l1 [l [H P]] P'. exists l. split; [assumption|eapply Permutation_trans; eauto]. Qed.

  (* ---------- mplus ---------- *)

  Lemma PA_mplus_r_aux : forall a la,
    Ans a la -> (forall b lb, Ans b lb -> PA (mplus a b) (la ++ lb)) ->
    forall b lb, Ans b lb -> PA (mplus b a) (lb ++ la).
  Proof.
    intros a la Ha Hl b lb Hb. induction Hb as [|y tl l Hb IH|thb l Hb IH].
    - simpl. apply PA_ans; assumption.
    - simpl. apply PA_cons. assumption.
    - simpl. apply PA_force. simpl.
      eapply PA_perm; [apply Hl; eassumption|apply Permutation_app_comm].
  Qed.

  Lemma PA_mplus_both : forall a la, Ans a la -> forall b lb, Ans b lb ->
    PA (mplus a b) (la ++ lb) /\ PA (mplus b a) (lb ++ la).
  Proof.
    intros a la Ha. assert (HH := Ha).
    induction Ha as [|x tl l Ha IH|th l Ha IH].
    - assert (L : forall b lb, Ans b lb -> PA (mplus SNil b) ([] ++ lb)).
      { intros b lb Hb. simpl. apply PA_ans; assumption. }
      intros b lb Hb. split; [auto|]. apply PA_mplus_r_aux; auto.
    - assert (L : forall b lb, Ans b lb -> PA (mplus (SCons x tl) b) ((x :: l) ++ lb)).
      { intros b lb Hb. simpl. apply PA_cons. apply IH; assumption. }
      intros b lb Hb. split; [auto|]. apply PA_mplus_r_aux; auto.
    - assert (L : forall b lb, Ans b lb -> PA (mplus (SSusp th) b) (l ++ lb)).
      { intros b lb Hb. simpl. apply PA_force. simpl.
        eapply PA_perm; [apply IH; eassumption|apply Permutation_app_comm]. }
      intros b lb Hb. split; [auto|]. apply PA_mplus_r_aux; auto.
  Qed.

  Lemma PA_mplus : forall a b la lb, PA a la -> PA b lb -> PA (mplus a b) (la ++ lb).
  Proof.
    intros a b la lb [la' [Ha Pa]] [lb' [Hb Pb]].
    eapply PA_perm; [apply (PA_mplus_both a la' Ha b lb' Hb)|apply Permutation_app; assumption].
  Qed.

  Lemma AnsN_mplus_inv_gen : forall n r l, AnsN n r l -> forall a b, r = mplus a b ->
    exists la lb, AnsN n a la /\ AnsN n b lb.
  Proof.
    intros n r l H. induction H as [n|n x tl l H IH|n th l H IH]; intros a b E.
    - destruct a as [|y tl'|th'|]; simpl in E; try discriminate.
      subst b. exists [], []. split; constructor.
    - destruct a as [|y tl'|th'|]; simpl in E; try discriminate.
      + subst b. exists [], (x :: l). split; constructor; assumption.
      + inversion E; subst. destruct (IH _ _ eq_refl) as [la [lb [H1 H2]]].
        exists (y :: la), lb. split; [constructor; assumption|assumption].
    - destruct a as [|y tl'|th'|]; simpl in E; try discriminate.
      + subst b. exists [], l. split; constructor; assumption.
      + inversion E; subst. simpl in IH. destruct (IH _ _ eq_refl) as [lb [la [H1 H2]]].
        exists la, lb. split; [constructor; assumption|].
        eapply AnsN_mono; eauto.
  Qed.

  Lemma AnsN_mplus_inv : forall n a b l, AnsN n (mplus a b) l ->
    exists la lb, AnsN n a la /\ AnsN n b lb /\ Permutation l (la ++ lb).
  Proof.
    intros n a b l H. destruct (AnsN_mplus_inv_gen _ _ _ H a b eq_refl) as [la [lb [Ha Hb]]].
    exists la, lb. split; [assumption|]. split; [assumption|].
    destruct (proj1 (PA_mplus_both a la (AnsN_Ans _ _ _ Ha) b lb (AnsN_Ans _ _ _ Hb))) as [l' [Hl' P]].
    rewrite (Ans_det _ _ (AnsN_Ans _ _ _ H) _ Hl'). assumption.
  Qed.

  Lemma Ans_mplus_inv : forall a b l, Ans (mplus a b) l ->
    exists la lb, Ans a la /\ Ans b lb /\ Permutation l (la ++ lb).
  Proof.
    intros a b l H. apply Ans_AnsN in H. destruct H as [n H].
    apply AnsN_mplus_inv in H. destruct H as [la [lb [Ha [Hb P]]]].
    exists la, lb. split; [eapply AnsN_Ans; eauto|]. split; [eapply AnsN_Ans; eauto|assumption].
  Qed.

  (* ---------- bindk ---------- *)
  Section Bind.
    Variable k : state -> stream.
    Variable mk : thunk -> thunk.
    Hypothesis Hmk : forall th, force (mk th) = bindk k mk (force th).

    Lemma PA_bindk : forall s ls, Ans s ls -> forall ll,
      Forall2 (fun a la => PA (k a) la) ls ll -> PA (bindk k mk s) (concat ll).
    Proof.
      intros s ls H. induction H as [|a tl l H IH|th l H IH]; intros ll F.
      - inversion F; subst. simpl. apply PA_ans. constructor.
      - inversion F; subst. simpl. apply PA_mplus; [assumption|apply IH; assumption].
      - simpl. apply PA_force. rewrite Hmk. apply IH; assumption.
    Qed.

    Lemma AnsN_bindk_inv : forall n s l, AnsN n (bindk k mk s) l ->
      exists ls ll, AnsN n s ls /\ Forall2 (fun a la => Ans (k a) la) ls ll /\
                    Permutation l (concat ll).
    Proof.
      induction n as [|n IHn]; induction s as [|a tl IH|th|]; simpl; intros l H.
      - inversion H; subst. exists [], []. split; [constructor|]. split; constructor.
      - apply AnsN_mplus_inv in H. destruct H as [la [lb [Ha [Hb P]]]].
        destruct (IH _ Hb) as [ls [ll [Hs [F P']]]].
        exists (a :: ls), (la :: ll). split; [constructor; assumption|]. split.
        + constructor; [eapply AnsN_Ans; eauto|assumption].
        + simpl. eapply Permutation_trans; [exact P|]. apply Permutation_app_head. assumption.
      - inversion H.
      - inversion H.
      - inversion H; subst. exists [], []. split; [constructor|]. split; constructor.
      - apply AnsN_mplus_inv in H. destruct H as [la [lb [Ha [Hb P]]]].
        destruct (IH _ Hb) as [ls [ll [Hs [F P']]]].
        exists (a :: ls), (la :: ll). split; [constructor; assumption|]. split.
        + constructor; [eapply AnsN_Ans; eauto|assumption].
        + simpl. eapply Permutation_trans; [exact P|]. apply Permutation_app_head. assumption.
      - inversion H; subst. rewrite Hmk in *.
        match goal with H' : AnsN n (bindk k mk (force th)) l |- _ =>
          destruct (IHn _ _ H') as [ls [ll [Hs [F P']]]] end.
        exists ls, ll. split; [constructor; assumption|]. split; assumption.
      - inversion H.
    Qed.

    Lemma Ans_bindk_inv : forall s l, Ans (bindk k mk s) l ->
      exists ls ll, Ans s ls /\ Forall2 (fun a la => Ans (k a) la) ls ll /\
                    Permutation l (concat ll).
    Proof.
      intros s l H. apply Ans_AnsN in H. destruct H as [n H].
      apply AnsN_bindk_inv in H. destruct H as [ls [ll [Hs [F P]]]].
      exists ls, ll. split; [eapply AnsN_Ans; eauto|]. split; assumption.
    Qed.
  End Bind.

  (* transport along pointwise PA *)
  Lemma Forall2_PA_trans : forall (k1 k2 : state -> stream) ls ll,
    (forall a la, Ans (k1 a) la -> PA (k2 a) la) ->
    Forall2 (fun a la => Ans (k1 a) la) ls ll -> Forall2 (fun a la => PA (k2 a) la) ls ll.
  Proof.
    intros k1 k2 ls ll Hk F. induction F; constructor; auto.
  Qed.

  (* ---------- disj+ with Zzz ---------- *)

  Lemma disj_z_ans : forall gs e st ll,
    Forall2 (fun g la => Ans (eval g e st) la) gs ll ->
    PA (eval (GDisjPlus true gs) e st) (concat ll).
  Proof.
    induction gs as [|g1 rest IH]; intros e st ll F; inversion F as [|? la ? ll' Hg F']; subst.
    - simpl. apply PA_ans. constructor.
    - destruct rest as [|g2 r].
      + inversion F'; subst. simpl concat. rewrite app_nil_r.
        change (eval (GDisjPlus true [g1]) e st) with (SSusp (TGoal g1 e st)).
        apply PA_force. apply PA_ans. assumption.
      + rewrite eval_disjplus_z_cons. apply PA_force. rewrite force_TMplus_TGoal.
        simpl concat. eapply PA_perm; [|apply Permutation_app_comm].
        apply PA_mplus; [apply IH; assumption|apply PA_ans; assumption].
  Qed.

  Lemma disj_z_ans_inv : forall gs e st l,
    Ans (eval (GDisjPlus true gs) e st) l ->
    exists ll, Forall2 (fun g la => Ans (eval g e st) la) gs ll /\ Permutation l (concat ll).
  Proof.
    induction gs as [|g1 rest IH]; intros e st l H.
    - inversion H; subst. exists []. split; constructor.
    - destruct rest as [|g2 r].
      + change (eval (GDisjPlus true [g1]) e st) with (SSusp (TGoal g1 e st)) in H.
        inversion H; subst. exists [l]. split; [constructor; [assumption|constructor]|].
        simpl. rewrite app_nil_r. apply Permutation_refl.
      + rewrite eval_disjplus_z_cons in H. inversion H; subst.
        rewrite force_TMplus_TGoal in *.
        match goal with H' : Ans (mplus _ _) l |- _ => apply Ans_mplus_inv in H';
          destruct H' as [lr [l1 [Hr [H1 P]]]] end.
        destruct (IH _ _ _ Hr) as [ll [F P']].
        exists (l1 :: ll). split; [constructor; assumption|].
        simpl. eapply Permutation_trans; [exact P|].
        eapply Permutation_trans; [apply Permutation_app_comm|].
        apply Permutation_app_head. assumption.
  Qed.

  Lemma nest_disj_ans : forall gs e st ll,
    Forall2 (fun g la => Ans (eval g e st) la) gs ll ->
    PA (eval (nest_disj gs) e st) (concat ll).
  Proof.
    induction gs as [|g1 rest IH]; intros e st ll F; inversion F as [|? la ? ll' Hg F']; subst.
    - simpl. apply PA_ans. constructor.
    - destruct rest as [|g2 r].
      + inversion F'; subst. simpl concat. rewrite app_nil_r. apply PA_ans. assumption.
      + rewrite eval_nest_disj_cons. simpl concat.
        apply PA_mplus; [apply PA_ans; assumption|apply IH; assumption].
  Qed.

  Lemma nest_disj_ans_inv : forall gs e st l,
    Ans (eval (nest_disj gs) e st) l ->
    exists ll, Forall2 (fun g la => Ans (eval g e st) la) gs ll /\ Permutation l (concat ll).
  Proof.
    induction gs as [|g1 rest IH]; intros e st l H.
    - inversion H; subst. exists []. split; constructor.
    - destruct rest as [|g2 r].
      + exists [l]. split; [constructor; [assumption|constructor]|].
        simpl. rewrite app_nil_r. apply Permutation_refl.
      + rewrite eval_nest_disj_cons in H. apply Ans_mplus_inv in H.
        destruct H as [l1 [lr [H1 [Hr P]]]].
        destruct (IH _ _ _ Hr) as [ll [F P']].
        exists (l1 :: ll). split; [constructor; assumption|].
        simpl. eapply Permutation_trans; [exact P|]. apply Permutation_app_head. assumption.
  Qed.

  Theorem disj_zzz_perm : forall gs e st l,
    Ans (eval (GDisjPlus true gs) e st) l ->
    exists l', Ans (eval (nest_disj gs) e st) l' /\ Permutation l' l.
  Proof.
    intros gs e st l H. apply disj_z_ans_inv in H. destruct H as [ll [F P]].
    eapply PA_perm; [apply nest_disj_ans; eassumption|apply Permutation_sym; assumption].
  Qed.

  Theorem disj_zzz_perm_conv : forall gs e st l,
    Ans (eval (nest_disj gs) e st) l ->
    exists l', Ans (eval (GDisjPlus true gs) e st) l' /\ Permutation l' l.
  Proof.
    intros gs e st l H. apply nest_disj_ans_inv in H. destruct H as [ll [F P]].
    eapply PA_perm; [apply disj_z_ans; eassumption|apply Permutation_sym; assumption].
  Qed.

  (* ---------- conj+ with Zzz ---------- *)

  Theorem conj_zzz_perm_both : forall gs e st l,
    (Ans (eval (GConjPlus true gs) e st) l -> PA (eval (nest_conj gs) e st) l) /\
    (Ans (eval (nest_conj gs) e st) l -> PA (eval (GConjPlus true gs) e st) l).
  Proof.
    induction gs as [|g1 rest IH]; intros e st l.
    - split; intros H; apply PA_ans; exact H.
    - destruct rest as [|g2 r].
      + change (eval (GConjPlus true [g1]) e st) with (SSusp (TGoal g1 e st)).
        split; intros H.
        * inversion H; subst. apply PA_ans. assumption.
        * apply PA_force. apply PA_ans. assumption.
      + rewrite eval_conjplus_z_cons, eval_nest_conj_cons. split; intros H.
        * inversion H; subst. rewrite force_TBind_TGoal in *.
          match goal with H' : Ans (bindk _ _ _) l |- _ =>
            apply Ans_bindk_inv in H'; [|intros th; reflexivity];
            destruct H' as [ls [ll [Hs [F P]]]] end.
          eapply PA_perm; [|apply Permutation_sym; exact P].
          apply PA_bindk with (ls := ls); [intros th; reflexivity|assumption|].
          eapply Forall2_PA_trans; [|exact F]. intros a la Ha. apply IH. assumption.
        * apply Ans_bindk_inv in H; [|intros th; reflexivity].
          destruct H as [ls [ll [Hs [F P]]]].
          apply PA_force. rewrite force_TBind_TGoal.
          eapply PA_perm; [|apply Permutation_sym; exact P].
          apply PA_bindk with (ls := ls); [intros th; reflexivity|assumption|].
          eapply Forall2_PA_trans; [|exact F]. intros a la Ha. apply IH. assumption.
  Qed.

  Theorem conj_zzz_perm : forall gs e st l,
    Ans (eval (GConjPlus true gs) e st) l ->
    exists l', Ans (eval (nest_conj gs) e st) l' /\ Permutation l' l.
  Proof. intros gs e st l. apply conj_zzz_perm_both. Qed.

  Theorem conj_zzz_perm_conv : forall gs e st l,
    Ans (eval (nest_conj gs) e st) l ->
    exists l', Ans (eval (GConjPlus true gs) e st) l' /\ Permutation l' l.
  Proof. intros gs e st l. apply conj_zzz_perm_both. Qed.

  (* ---------- conde ---------- *)

  Lemma conde_args : forall gss e st ll,
    Forall2 (fun g la => Ans (eval g e st) la) (map (GConjPlus true) gss) ll ->
    exists ll', Forall2 (fun g la => Ans (eval g e st) la) (map nest_conj gss) ll' /\
                Permutation (concat ll') (concat ll).
  Proof.
    induction gss as [|gs gss IH]; intros e st ll F; simpl in F;
      inversion F as [|? la ? ll0 Hg F']; subst.
    - exists []. split; constructor.
    - destruct (IH _ _ _ F') as [ll' [F2 P']].
      destruct (conj_zzz_perm _ _ _ _ Hg) as [la' [Ha' Pa]].
      exists (la' :: ll'). split; [constructor; assumption|].
      simpl. apply Permutation_app; assumption.
  Qed.

  Theorem conde_perm : forall gss e st l,
    Ans (eval (GConde gss) e st) l ->
    exists l', Ans (eval (nest_disj (map nest_conj gss)) e st) l' /\ Permutation l' l.
  Proof.
    intros gss e st l H. unfold GConde in H. apply disj_z_ans_inv in H. destruct H as [ll [F P]].
    destruct (conde_args _ _ _ _ F) as [ll' [F' P']].
    eapply PA_perm; [apply nest_disj_ans; eassumption|].
    eapply Permutation_trans; [exact P'|apply Permutation_sym; assumption].
  Qed.

  (* the same in terms of takeStream with n = -1 (run to exhaustion) *)
  Theorem disj_zzz_take_all : forall gs e st f l,
    take f (-1) (eval (GDisjPlus true gs) e st) = Some l ->
    exists f' l', take f' (-1) (eval (nest_disj gs) e st) = Some l' /\ Permutation l' l.
  Proof.
    intros gs e st f l H.
    assert (Ha : Ans (eval (GDisjPlus true gs) e st) l) by (apply (Ans_take (-1)); [lia|eauto]).
    destruct (disj_zzz_perm _ _ _ _ Ha) as [l' [Hl' P]].
    apply (Ans_take (-1)) in Hl'; [|lia]. destruct Hl' as [f' Hf']. eauto.
  Qed.

  Theorem conj_zzz_take_all : forall gs e st f l,
    take f (-1) (eval (GConjPlus true gs) e st) = Some l ->
    exists f' l', take f' (-1) (eval (nest_conj gs) e st) = Some l' /\ Permutation l' l.
  Proof.
    intros gs e st f l H.
    assert (Ha : Ans (eval (GConjPlus true gs) e st) l) by (apply (Ans_take (-1)); [lia|eauto]).
    destruct (conj_zzz_perm _ _ _ _ Ha) as [l' [Hl' P]].
    apply (Ans_take (-1)) in Hl'; [|lia]. destruct Hl' as [f' Hf']. eauto.
  Qed.
End Perm.

Print Assumptions Ans_finite.
Print Assumptions Ans_in.
Print Assumptions Ans_take.
Print Assumptions disj_zzz_perm.
Print Assumptions disj_zzz_perm_conv.
Print Assumptions conj_zzz_perm.
Print Assumptions conj_zzz_perm_conv.
Print Assumptions disj_zzz_take_all.
Print Assumptions conj_zzz_take_all.
Print Assumptions conde_perm.
