(* Soundness of the search (every goal, every fuel function) and absence of reachable errors for programs with
   delayed recursion.  Both are instances of one statement about observations Obs o n (eval g e st), proved by
   strong induction on the number n of forces and, inside, structural induction on the goal. *)
From Coq Require Import List NArith ZArith Bool Lia Arith.
From GMK Require Import Term Unify UnifySpec UnifyWf UnifyTotal Goal Stream Den InStream.
Import ListNotations.

(* ---------- environments, closing, instances ---------- *)

Lemma inst_close r e t : inst r (close e t) = close (map (inst r) e) t.
Proof.
  induction t as [| a | k | a IHa d IHd]; simpl; auto.
  - exact (eq_sym (map_nth (inst r) e TNil k)).
  - f_equal; auto.
Qed.

Lemma inst_arg_env r e args : map (inst r) (arg_env e args) = arg_env (map (inst r) e) args.
Proof.
  unfold arg_env. rewrite map_rev, map_map. f_equal. apply map_ext. intros t. apply inst_close.
Qed.

Lemma close_vars e c t : env_ok e c -> forall x, In x (vars (close e t)) -> (x < c)%N.
Proof.
  intros He. induction t as [| a | k | a IHa d IHd]; simpl; intros x Hx; try contradiction.
  - destruct (nth_in_or_default k e TNil) as [Hin|Hd].
    + eapply He; eauto.
    + rewrite Hd in Hx. contradiction.
  - apply in_app_or in Hx. destruct Hx; auto.
Qed.

Lemma env_ok_arg_env e c args : env_ok e c -> env_ok (arg_env e args) c.
Proof.
  intros He t x Ht Hx. unfold arg_env in Ht. apply in_rev in Ht. apply in_map_iff in Ht.
  destruct Ht as [p [E _]]. subst. eapply close_vars; eauto.
Qed.

Lemma env_ok_mono e c c' : env_ok e c -> (c <= c')%N -> env_ok e c'.
Proof. intros He L t x Ht Hx. specialize (He t x Ht Hx). lia. Qed.

Lemma env_ok_fresh e c : env_ok e c -> env_ok (TVar c :: e) (c + 1).
Proof.
  intros He t x [Ht|Ht] Hx.
  - subst t. simpl in Hx. destruct Hx as [Hx|[]]. subst. lia.
  - specialize (He t x Ht Hx). lia.
Qed.

Lemma wf_state_fresh st : wf_state st -> wf_state (fresh_state st).
Proof.
  intros [Hwf Hv]. split; [exact Hwf|]. simpl. intros x Hx. specialize (Hv x Hx). lia.
Qed.

Lemma unify_wf_state f u v st s' : wf_state st ->
  (forall x, In x (vars u) -> (x < ctr st)%N) -> (forall x, In x (vars v) -> (x < ctr st)%N) ->
  unify f u v (sub st) = Ok s' -> wf_state (mkSt s' (ctr st)).
Proof.
  intros [Hwf Hv] Hu Hvv H. split; simpl.
  - eapply unify_wf; eauto.
  - pose proof (unify_closed (universe u v (sub st)) f u v (sub st) s' H (universe_closed u v (sub st))) as Hcl.
    assert (Hcl': closedU (universe u v (sub st)) s').
    { apply Hcl; unfold universe.
      - apply incl_appl. apply incl_refl.
      - apply incl_appr. apply incl_appl. apply incl_refl. }
    assert (HU: forall x, In x (universe u v (sub st)) -> (x < ctr st)%N).
    { intros x Hx. unfold universe in Hx. apply in_app_or in Hx. destruct Hx as [Hx|Hx]; [auto|].
      apply in_app_or in Hx. destruct Hx as [Hx|Hx]; [auto|]. apply Hv. exact Hx. }
    intros x Hx. unfold subst_vars in Hx. apply in_flat_map in Hx. destruct Hx as [[a t] [Hin Hx]].
    destruct (Hcl' a t Hin) as [Ha Ht]. simpl in Hx. destruct Hx as [Hx|Hx].
    + subst. auto.
    + apply HU. apply Ht. exact Hx.
Qed.

Section Sound.
  Variable ds : defs.
  Variable uf : term -> term -> subst -> nat.

  Notation eval := (eval ds uf).
  Notation force := (force ds uf).
  Notation Obs := (Obs ds uf).

  (* ---------- unfolding equations ---------- *)

  Lemma eval_conjplus_false_2 g1 g2 rest e st :
    eval (GConjPlus false (g1 :: g2 :: rest)) e st =
    bindk (fun a => eval (GConjPlus false (g2 :: rest)) e a)
          (fun th => TBind th (GConjPlus false (g2 :: rest)) e) (eval g1 e st).
  Proof. reflexivity. Qed.

  Lemma eval_conjplus_false_1 g1 e st : eval (GConjPlus false [g1]) e st = eval g1 e st.
  Proof. reflexivity. Qed.

  Lemma eval_conjplus_false_0 e st : eval (GConjPlus false []) e st = SCons st SNil.
  Proof. reflexivity. Qed.

  Lemma eval_disjplus_false_2 g1 g2 rest e st :
    eval (GDisjPlus false (g1 :: g2 :: rest)) e st =
    mplus (eval g1 e st) (eval (GDisjPlus false (g2 :: rest)) e st).
  Proof. reflexivity. Qed.

  Lemma eval_disjplus_false_1 g1 e st : eval (GDisjPlus false [g1]) e st = eval g1 e st.
  Proof. reflexivity. Qed.

  Lemma eval_conjplus_true gs e st : eval (GConjPlus true gs) e st = conjplus_z gs e st.
  Proof. reflexivity. Qed.

  Lemma eval_disjplus_true gs e st : eval (GDisjPlus true gs) e st = disjplus_z gs e st.
  Proof. reflexivity. Qed.

  Lemma evalh_guarded : forall g, guardedb g = true -> forall e st, evalh g e st = eval g e st.
  Proof.
    induction g; simpl; intros Hg e0 st; try discriminate; auto.
    - destruct z; [reflexivity|discriminate].
    - destruct z; [reflexivity|discriminate].
  Qed.

  Lemma evalh_unguarded : forall g, guardedb g = false -> forall e st, evalh g e st = SErr.
  Proof.
    induction g; simpl; intros Hg e0 st; try discriminate; auto.
    - destruct z; [discriminate|reflexivity].
    - destruct z; [discriminate|reflexivity].
  Qed.

  (* ---------- the invariant ---------- *)

  Definition Good (g : goal) (e : env) (st x : state) : Prop :=
    (exists ext, sub x = sub st ++ ext) /\ (ctr st <= ctr x)%N /\ wf_state x /\
    forall r, sat r (sub x) -> sat r (sub st) /\ Den ds g (map (inst r) e).

  Definition GoodO (g : goal) (e : env) (st : state) (o : option state) : Prop :=
    match o with
    | Some x => Good g e st x
    | None => uf_ok uf -> defs_ok ds -> calls_okb ds g = true -> False
    end.

  Definition Stmt (n : nat) (g : goal) : Prop :=
    forall e st o, wf_state st -> env_ok e (ctr st) -> Obs o n (eval g e st) -> GoodO g e st o.

  Lemma Good_refl g e st : wf_state st -> (forall r, sat r (sub st) -> Den ds g (map (inst r) e)) ->
    Good g e st st.
  Proof.
    intros Hwf Hd. split; [exists []; rewrite app_nil_r; reflexivity|].
    split; [lia|]. split; [exact Hwf|]. intros r Hr. split; [exact Hr|auto].
  Qed.

  Lemma Good_wf g e st x : Good g e st x -> wf_state x.
  Proof. intros [_ [_ [H _]]]. exact H. Qed.

  Lemma Good_env_ok g e st x : Good g e st x -> env_ok e (ctr st) -> env_ok e (ctr x).
  Proof. intros [_ [L _]] He. eapply env_ok_mono; eauto. Qed.

  (* same environment and state, weaker formula *)
  Lemma GoodO_map g g' e st o :
    (forall ve, Den ds g ve -> Den ds g' ve) -> (calls_okb ds g' = true -> calls_okb ds g = true) ->
    GoodO g e st o -> GoodO g' e st o.
  Proof.
    intros Hd Hc. destruct o as [x|]; simpl.
    - intros [He [Hl [Hw Hs]]]. split; [exact He|]. split; [exact Hl|]. split; [exact Hw|].
      intros r Hr. destruct (Hs r Hr) as [H1 H2]. split; [exact H1|auto].
    - intros H Hu Hdf Hc'. apply H; auto.
  Qed.

  (* sequencing *)
  Lemma GoodO_seq g1 g2 g e st a o :
    (forall ve, Den ds g1 ve -> Den ds g2 ve -> Den ds g ve) ->
    (calls_okb ds g = true -> calls_okb ds g2 = true) ->
    Good g1 e st a -> GoodO g2 e a o -> GoodO g e st o.
  Proof.
    intros Hd Hc [[e1 He1] [Hl1 [Hw1 Hs1]]]. destruct o as [x|]; simpl.
    - intros [[e2 He2] [Hl2 [Hw2 Hs2]]].
      split. { exists (e1 ++ e2). rewrite He2, He1, app_assoc. reflexivity. }
      split; [lia|]. split; [exact Hw2|].
      intros r Hr. destruct (Hs2 r Hr) as [Ha D2]. destruct (Hs1 r Ha) as [H0 D1].
      split; [exact H0|auto].
    - intros H Hu Hdf Hc'. apply H; auto.
  Qed.

  Lemma GoodO_fresh g e st o :
    GoodO g (TVar (ctr st) :: e) (fresh_state st) o -> GoodO (GFresh g) e st o.
  Proof.
    destruct o as [x|]; cbn [GoodO].
    - intros [He [Hl [Hw Hs]]]. split; [exact He|]. split.
      { assert (E: ctr (fresh_state st) = (ctr st + 1)%N) by reflexivity. lia. }
      split; [exact Hw|].
      intros r Hr. destruct (Hs r Hr) as [H1 H2]. split; [exact H1|].
      change (map (inst r) (TVar (ctr st) :: e)) with (r (ctr st) :: map (inst r) e) in H2.
      eapply DFresh. exact H2.
    - cbn [calls_okb]. auto.
  Qed.

  Lemma GoodO_let args g e st o : GoodO g (arg_env e args) st o -> GoodO (GLet args g) e st o.
  Proof.
    destruct o as [x|]; simpl.
    - intros [He [Hl [Hw Hs]]]. split; [exact He|]. split; [exact Hl|]. split; [exact Hw|].
      intros r Hr. destruct (Hs r Hr) as [H1 H2]. split; [exact H1|].
      apply DLet. rewrite <- inst_arg_env. exact H2.
    - auto.
  Qed.

  Lemma GoodO_call r args body e st o : ds r = Some body ->
    GoodO body (arg_env e args) st o -> GoodO (GCall r args) e st o.
  Proof.
    intros Hb. destruct o as [x|]; simpl.
    - intros [He [Hl [Hw Hs]]]. split; [exact He|]. split; [exact Hl|]. split; [exact Hw|].
      intros r0 Hr. destruct (Hs r0 Hr) as [H1 H2]. split; [exact H1|].
      eapply DCall; [exact Hb|]. rewrite <- inst_arg_env. exact H2.
    - intros H Hu Hdf _. apply H; auto. apply (Hdf r body Hb).
  Qed.

  Lemma Good_eq t1 t2 e st s' : wf_state st -> env_ok e (ctr st) ->
    unify (uf (close e t1) (close e t2) (sub st)) (close e t1) (close e t2) (sub st) = Ok s' ->
    Good (GEq t1 t2) e st (mkSt s' (ctr st)).
  Proof.
    intros Hwf He H. destruct (unify_sound _ _ _ _ _ H) as [Hext Hs].
    split; [exact Hext|]. split; [simpl; lia|]. split.
    - eapply unify_wf_state; [exact Hwf| | |exact H]; apply close_vars; exact He.
    - simpl. intros r Hr. destruct (Hs r Hr) as [H0 Heq]. split; [exact H0|].
      apply DEq. rewrite <- !inst_close. exact Heq.
  Qed.

  (* ---------- the n-ary disjunctions ---------- *)

  Lemma Obs_disjplus_z o n e st : forall gs, Obs o n (disjplus_z gs e st) ->
    exists g n', In g gs /\ n = S n' /\ Obs o n' (eval g e st).
  Proof.
    induction gs as [|g1 rest IH]; intros H.
    - simpl in H. exfalso. eapply Obs_nil_inv; eauto.
    - destruct rest as [|g2 rest].
      + simpl in H. apply Obs_susp_inv in H. destruct H as [n' [E H]].
        exists g1, n'. split; [left; reflexivity|]. split; [exact E|exact H].
      + change (disjplus_z (g1 :: g2 :: rest) e st)
          with (mplus (SSusp (TGoal g1 e st)) (disjplus_z (g2 :: rest) e st)) in H.
        apply Obs_mplus_inv in H. destruct H as [H|H].
        * apply Obs_susp_inv in H. destruct H as [n' [E H]].
          exists g1, n'. split; [left; reflexivity|]. split; [exact E|exact H].
        * destruct (IH H) as [g [n' [Hin [E H']]]]. exists g, n'. split; [right; exact Hin|auto].
  Qed.

  Lemma Obs_disjplus_false o n e st : forall gs, Obs o n (eval (GDisjPlus false gs) e st) ->
    exists g, In g gs /\ Obs o n (eval g e st).
  Proof.
    induction gs as [|g1 rest IH]; intros H.
    - simpl in H. exfalso. eapply Obs_nil_inv; eauto.
    - destruct rest as [|g2 rest].
      + rewrite eval_disjplus_false_1 in H. exists g1. split; [left; reflexivity|exact H].
      + rewrite eval_disjplus_false_2 in H. apply Obs_mplus_inv in H. destruct H as [H|H].
        * exists g1. split; [left; reflexivity|exact H].
        * destruct (IH H) as [g [Hin H']]. exists g. split; [right; exact Hin|exact H'].
  Qed.

  Lemma GoodO_disjplus z gs g e st o : In g gs -> GoodO g e st o -> GoodO (GDisjPlus z gs) e st o.
  Proof.
    intros Hin. apply GoodO_map.
    - intros ve Hd. eapply DDisjPlus; eauto.
    - simpl. intros Hc. rewrite forallb_forall in Hc. apply Hc. exact Hin.
  Qed.

  Lemma Den_conjplus_cons z g gs ve :
    Den ds g ve -> Den ds (GConjPlus z gs) ve -> Den ds (GConjPlus z (g :: gs)) ve.
  Proof.
    intros H1 H2. inversion H2; subst. apply DConjPlus. apply DAcons; assumption.
  Qed.

  Lemma Den_conjplus_one z g ve : Den ds g ve -> Den ds (GConjPlus z [g]) ve.
  Proof. intros H. apply DConjPlus. apply DAcons; [exact H|apply DAnil]. Qed.

  (* ---------- guard-shaped goals only need the statement at smaller n ---------- *)

  Lemma guarded_stmt n : (forall m, m < n -> forall g, Stmt m g) ->
    forall g, guardedb g = true -> Stmt n g.
  Proof.
    intros IHn. induction g; simpl; intros Hg; try discriminate.
    - (* GFresh *)
      intros e0 st o Hwf He Hobs. simpl in Hobs. apply GoodO_fresh.
      apply IHg; [exact Hg|apply wf_state_fresh; exact Hwf|apply env_ok_fresh; exact He|exact Hobs].
    - (* GZzz *)
      intros e0 st o Hwf He Hobs. simpl in Hobs. apply Obs_susp_inv in Hobs.
      destruct Hobs as [n' [E Hobs]]. simpl in Hobs.
      assert (HG: GoodO g e0 st o) by (apply (IHn n' ltac:(lia) g e0 st o Hwf He Hobs)).
      revert HG. apply GoodO_map; [intros ve; apply DZzz|simpl; auto].
    - (* GConjPlus *)
      destruct z; [|discriminate]. intros e0 st o Hwf He Hobs. rewrite eval_conjplus_true in Hobs.
      destruct gs as [|g1 [|g2 rest]].
      + simpl in Hobs. apply Obs_cons_inv in Hobs. destruct Hobs as [E|Hobs].
        * subst o. simpl. apply Good_refl; [exact Hwf|]. intros r _. apply DConjPlus. apply DAnil.
        * exfalso. eapply Obs_nil_inv; eauto.
      + simpl in Hobs. apply Obs_susp_inv in Hobs. destruct Hobs as [n' [E Hobs]]. simpl in Hobs.
        assert (HG: GoodO g1 e0 st o) by (apply (IHn n' ltac:(lia) g1 e0 st o Hwf He Hobs)).
        revert HG. apply GoodO_map; [intros ve; apply Den_conjplus_one|].
        simpl. rewrite andb_true_r. auto.
      + simpl in Hobs. apply Obs_susp_inv in Hobs. destruct Hobs as [n' [E Hobs]].
        rewrite force_TBind in Hobs. apply Obs_bind_inv in Hobs; [|intros th; reflexivity].
        destruct Hobs as [[Eo Hobs]|[a [H1 H2]]].
        * assert (HG: GoodO g1 e0 st o) by (apply (IHn n' ltac:(lia) g1 e0 st o Hwf He Hobs)).
          subst o. simpl in *. intros Hu Hdf Hc. apply HG; auto.
          apply andb_true_iff in Hc. apply Hc.
        * assert (HG1: Good g1 e0 st a) by (apply (IHn n' ltac:(lia) g1 e0 st (Some a) Hwf He H1)).
          assert (HG2: GoodO (GConjPlus true (g2 :: rest)) e0 a o).
          { apply (IHn n' ltac:(lia) _ e0 a o); [eapply Good_wf; eauto|eapply Good_env_ok; eauto|exact H2]. }
          eapply GoodO_seq; [| |exact HG1|exact HG2].
          -- intros ve. apply Den_conjplus_cons.
          -- intros Hc. change (calls_okb ds (GConjPlus true (g1 :: g2 :: rest)))
               with (calls_okb ds g1 && calls_okb ds (GConjPlus true (g2 :: rest))) in Hc.
             apply andb_true_iff in Hc. apply Hc.
    - (* GDisjPlus *)
      destruct z; [|discriminate]. intros e0 st o Hwf He Hobs. rewrite eval_disjplus_true in Hobs.
      apply Obs_disjplus_z in Hobs. destruct Hobs as [g [n' [Hin [E Hobs]]]].
      apply (GoodO_disjplus true gs g e0 st o Hin).
      apply (IHn n' ltac:(lia) g e0 st o Hwf He Hobs).
  Qed.

  (* ---------- the main induction ---------- *)

  Theorem stmt_all : forall n g, Stmt n g.
  Proof.
    induction n as [n IHn] using lt_wf_ind.
    induction g as [ | | t1 t2 | g1 g2 IH1 IH2 | g1 g2 IH1 IH2 | g1 IH1 | g1 IH1 | r args | args g1 IH1
                     | z gs IHgs | z gs IHgs | c t el IHc IHt IHel | g1 IH1 ] using goal_ind';
      intros e st o Hwf He Hobs.
    - (* GFail *) simpl in Hobs. exfalso. eapply Obs_nil_inv; eauto.
    - (* GSucc *) simpl in Hobs. apply Obs_cons_inv in Hobs. destruct Hobs as [E|Hobs].
      + subst o. simpl. apply Good_refl; [exact Hwf|]. intros r _. apply DSucc.
      + exfalso. eapply Obs_nil_inv; eauto.
    - (* GEq *) simpl in Hobs.
      destruct (unify (uf (close e t1) (close e t2) (sub st)) (close e t1) (close e t2) (sub st))
        as [| |s'] eqn:Eu.
      + apply Obs_err_inv in Hobs. subst o. simpl. intros Hu _ _.
        apply (Hu (close e t1) (close e t2) (sub st)); [apply Hwf|exact Eu].
      + exfalso. eapply Obs_nil_inv; eauto.
      + apply Obs_cons_inv in Hobs. destruct Hobs as [E|Hobs].
        * subst o. simpl. apply Good_eq; assumption.
        * exfalso. eapply Obs_nil_inv; eauto.
    - (* GConj *) simpl in Hobs. apply Obs_bind_inv in Hobs; [|intros th; reflexivity].
      destruct Hobs as [[Eo Hobs]|[a [H1 H2]]].
      + pose proof (IH1 e st o Hwf He Hobs) as HG. subst o. simpl in *. intros Hu Hdf Hc. apply HG; auto.
        apply andb_true_iff in Hc. apply Hc.
      + pose proof (IH1 e st (Some a) Hwf He H1) as HG1. simpl in HG1.
        assert (HG2: GoodO g2 e a o).
        { apply IH2; [eapply Good_wf; eauto|eapply Good_env_ok; eauto|exact H2]. }
        eapply GoodO_seq; [| |exact HG1|exact HG2].
        * intros ve. apply DConj.
        * simpl. intros Hc. apply andb_true_iff in Hc. apply Hc.
    - (* GDisj *) simpl in Hobs. apply Obs_mplus_inv in Hobs. destruct Hobs as [Hobs|Hobs].
      + pose proof (IH1 e st o Hwf He Hobs) as HG. revert HG. apply GoodO_map.
        * intros ve. apply DDisjL.
        * simpl. intros Hc. apply andb_true_iff in Hc. apply Hc.
      + pose proof (IH2 e st o Hwf He Hobs) as HG. revert HG. apply GoodO_map.
        * intros ve. apply DDisjR.
        * simpl. intros Hc. apply andb_true_iff in Hc. apply Hc.
    - (* GFresh *) simpl in Hobs. apply GoodO_fresh.
      apply IH1; [apply wf_state_fresh; exact Hwf|apply env_ok_fresh; exact He|exact Hobs].
    - (* GZzz *) apply (guarded_stmt n IHn (GZzz g1) eq_refl e st o Hwf He Hobs).
    - (* GCall *) simpl in Hobs. destruct (ds r) as [body|] eqn:Eb.
      + destruct (guardedb body) eqn:Eg.
        * rewrite (evalh_guarded body Eg) in Hobs. apply (GoodO_call r args body e st o Eb).
          apply (guarded_stmt n IHn body Eg (arg_env e args) st o Hwf); [|exact Hobs].
          apply env_ok_arg_env. exact He.
        * rewrite (evalh_unguarded body Eg) in Hobs. apply Obs_err_inv in Hobs. subst o. simpl.
          intros _ Hdf _. destruct (Hdf r body Eb) as [Hg _]. congruence.
      + apply Obs_err_inv in Hobs. subst o. simpl. rewrite Eb. discriminate.
    - (* GLet *) simpl in Hobs. apply GoodO_let.
      apply IH1; [exact Hwf|apply env_ok_arg_env; exact He|exact Hobs].
    - (* GConjPlus *) destruct z.
      + apply (guarded_stmt n IHn (GConjPlus true gs) eq_refl e st o Hwf He Hobs).
      + revert st o Hwf He Hobs.
        induction IHgs as [|g1 rest Hg1 Hrest IHrest]; intros st o Hwf He Hobs.
        * rewrite eval_conjplus_false_0 in Hobs. apply Obs_cons_inv in Hobs. destruct Hobs as [E|Hobs].
          -- subst o. simpl. apply Good_refl; [exact Hwf|]. intros r _. apply DConjPlus. apply DAnil.
          -- exfalso. eapply Obs_nil_inv; eauto.
        * destruct rest as [|g2 rest].
          -- rewrite eval_conjplus_false_1 in Hobs. pose proof (Hg1 e st o Hwf He Hobs) as HG.
             revert HG. apply GoodO_map; [intros ve; apply Den_conjplus_one|].
             simpl. rewrite andb_true_r. auto.
          -- rewrite eval_conjplus_false_2 in Hobs.
             apply Obs_bind_inv in Hobs; [|intros th; reflexivity].
             destruct Hobs as [[Eo Hobs]|[a [H1 H2]]].
             ++ pose proof (Hg1 e st o Hwf He Hobs) as HG. subst o. simpl in *.
                intros Hu Hdf Hc. apply HG; auto. apply andb_true_iff in Hc. apply Hc.
             ++ pose proof (Hg1 e st (Some a) Hwf He H1) as HG1. simpl in HG1.
                assert (HG2: GoodO (GConjPlus false (g2 :: rest)) e a o).
                { apply IHrest; [eapply Good_wf; eauto|eapply Good_env_ok; eauto|exact H2]. }
                eapply GoodO_seq; [| |exact HG1|exact HG2].
                ** intros ve. apply Den_conjplus_cons.
                ** intros Hc. change (calls_okb ds (GConjPlus false (g1 :: g2 :: rest)))
                     with (calls_okb ds g1 && calls_okb ds (GConjPlus false (g2 :: rest))) in Hc.
                   apply andb_true_iff in Hc. apply Hc.
    - (* GDisjPlus *) destruct z.
      + apply (guarded_stmt n IHn (GDisjPlus true gs) eq_refl e st o Hwf He Hobs).
      + apply Obs_disjplus_false in Hobs. destruct Hobs as [g [Hin Hobs]].
        apply (GoodO_disjplus false gs g e st o Hin).
        rewrite Forall_forall in IHgs. apply (IHgs g Hin e st o Hwf He Hobs).
    - (* GIfte *) rewrite eval_GIfte in Hobs. apply Obs_ifte_inv in Hobs.
      destruct Hobs as [[Eo Hobs]|[[a [H1 H2]]|Hobs]].
      + pose proof (IHc e st o Hwf He Hobs) as HG. subst o. simpl in *. intros Hu Hdf Hc. apply HG; auto.
        apply andb_true_iff in Hc. destruct Hc as [Hc _]. apply andb_true_iff in Hc. apply Hc.
      + pose proof (IHc e st (Some a) Hwf He H1) as HG1. simpl in HG1.
        assert (HG2: GoodO t e a o).
        { apply IHt; [eapply Good_wf; eauto|eapply Good_env_ok; eauto|exact H2]. }
        eapply GoodO_seq; [| |exact HG1|exact HG2].
        * intros ve. apply DIfteThen.
        * simpl. intros Hc. apply andb_true_iff in Hc. destruct Hc as [Hc _].
          apply andb_true_iff in Hc. apply Hc.
      + pose proof (IHel e st o Hwf He Hobs) as HG. revert HG. apply GoodO_map.
        * intros ve. apply DIfteElse.
        * simpl. intros Hc. apply andb_true_iff in Hc. apply Hc.
    - (* GOnce *) simpl in Hobs. apply Obs_once_inv in Hobs.
      pose proof (IH1 e st o Hwf He Hobs) as HG. revert HG. apply GoodO_map.
      + intros ve. apply DOnce.
      + simpl. auto.
  Qed.
End Sound.

(* ---------- (B) soundness ---------- *)

Theorem eval_sound : forall ds uf g e st x,
  wf_state st -> env_ok e (ctr st) -> InStream ds uf x (eval ds uf g e st) ->
  (exists ext, sub x = sub st ++ ext) /\ (ctr st <= ctr x)%N /\ wf_state x /\
  forall r, sat r (sub x) -> sat r (sub st) /\ Den ds g (map (inst r) e).
Proof.
  intros ds uf g e st x Hwf He H. apply InS_Obs in H. destruct H as [n H].
  apply (stmt_all ds uf n g e st (Some x) Hwf He H).
Qed.
Print Assumptions eval_sound.

Corollary eval_sound_take : forall ds uf g e st f n l x,
  wf_state st -> env_ok e (ctr st) -> take ds uf f n (eval ds uf g e st) = Some l -> In x l ->
  (exists ext, sub x = sub st ++ ext) /\ (ctr st <= ctr x)%N /\ wf_state x /\
  forall r, sat r (sub x) -> sat r (sub st) /\ Den ds g (map (inst r) e).
Proof.
  intros ds uf g e st f n l x Hwf He Ht Hx. apply (eval_sound ds uf g e st x Hwf He).
  eapply take_sound; eauto.
Qed.
Print Assumptions eval_sound_take.

Corollary eval_unsat_no_answer : forall ds uf g e st x,
  (forall r, sat r (sub st) -> ~ Den ds g (map (inst r) e)) ->
  wf_state st -> env_ok e (ctr st) -> ~ InStream ds uf x (eval ds uf g e st).
Proof.
  intros ds uf g e st x Hun Hwf He H.
  destruct (eval_sound ds uf g e st x Hwf He H) as [_ [_ [[Hwx _] Hs]]].
  destruct (WS_solution (sub x) TNil TNil Hwx) as [r [Hr _]].
  destruct (Hs r Hr) as [H0 Hd]. apply (Hun r H0 Hd).
Qed.
Print Assumptions eval_unsat_no_answer.

(* ---------- (C) no reachable error for programs with delayed recursion ---------- *)

Theorem eval_no_err : forall ds uf, uf_ok uf -> defs_ok ds ->
  forall g e st, calls_okb ds g = true -> wf_state st -> env_ok e (ctr st) ->
  ~ ReachErr ds uf (eval ds uf g e st).
Proof.
  intros ds uf Hu Hdf g e st Hc Hwf He H. apply Obs_RErr in H. destruct H as [n H].
  apply (stmt_all ds uf n g e st None Hwf He H Hu Hdf Hc).
Qed.
Print Assumptions eval_no_err.
