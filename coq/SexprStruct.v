(* L6 model, part 3: what is built on the GENERATED Compare methods (gen/CompareGen.v, translated from
   sexpr/ast/compare.go on every run): Less, DeepEqual, the reference sort, the exported constructors.
   No proofs in this file. *)
From Coq Require Import List NArith ZArith Bool.
From GMK Require Export SexprTypes.
From GMK.gen Require Export CompareGen.
Import ListNotations.

Definition cmp_int (c : comparison) : Z := match c with Lt => (-1)%Z | Eq => 0%Z | Gt => 1%Z end.

(* Results.Less *)
Definition less (x y : sexpr) : bool := match cmp_sexpr x y with Lt => true | _ => false end.

(* reflect.DeepEqual on SExpr pointers: structural equality of the pointed-to trees *)
Definition eqb_opt {A} (eqb : A -> A -> bool) (x y : option A) : bool :=
  match x, y with None, None => true | Some a, Some b => eqb a b | _, _ => false end.
Fixpoint eqb_str (x y : str) : bool :=
  match x, y with [], [] => true | a :: x', b :: y' => N.eqb a b && eqb_str x' y' | _, _ => false end.
Definition eqb_var (x y : var) := eqb_str (vname x) (vname y) && N.eqb (vidx x) (vidx y).
Definition eqb_atom (x y : atom) :=
  eqb_opt eqb_str (a_str x) (a_str y) && eqb_opt eqb_str (a_sym x) (a_sym y) &&
  eqb_opt Z.eqb (a_flt x) (a_flt y) && eqb_opt Z.eqb (a_int x) (a_int y) && eqb_opt eqb_var (a_var x) (a_var y).
Fixpoint deep_equal (x y : sexpr) : bool :=
  match x, y with
  | SNull, SNull => true
  | SNode p a, SNode q b => deep_equal_pair p q && eqb_opt eqb_atom a b
  | _, _ => false
  end
with deep_equal_pair (p q : pairo) : bool :=
  match p, q with
  | PNull, PNull => true
  | PCons a d, PCons a' d' => deep_equal a a' && deep_equal d d'
  | _, _ => false
  end.

(* reference sort: insertion sort by cmp_sexpr (ast.Sort uses sort.Sort, which is trusted stdlib;
   the theorem C16_sorted_unique says any sorted permutation equals this one) *)
Fixpoint insert (x : sexpr) (l : list sexpr) : list sexpr :=
  match l with
  | [] => [x]
  | y :: l' => match cmp_sexpr x y with Gt => y :: insert x l' | _ => x :: l end
  end.
Definition isort (l : list sexpr) : list sexpr := fold_right insert [] l.

(* exported constructors of the ast package, for the correspondence cases *)
Definition no_atom : atom := mkAtom None None None None None.
Definition mk_cons (a d : sexpr) : sexpr := SNode (PCons a d) None.
Definition mk_sym (s : str) : sexpr := SNode PNull (Some (mkAtom None (Some s) None None None)).
Definition mk_strg (s : str) : sexpr := SNode PNull (Some (mkAtom (Some s) None None None None)).
Definition mk_int (z : Z) : sexpr := SNode PNull (Some (mkAtom None None None (Some z) None)).
Definition mk_flt (k : Z) : sexpr := SNode PNull (Some (mkAtom None None (Some k) None None)).
Definition mk_var (n : str) (i : N) : sexpr := SNode PNull (Some (mkAtom None None None None (Some (mkVar n i)))).
