(* L6 model: the Go structs of sexpr/ast verbatim, and ast.Compare / Equal / Sort.
   No proofs in this file (so that the model still evaluates when a proof breaks).

   Go:  type SExpr struct { Pair ptr Pair; Atom ptr Atom }      [ptr-to-SExpr may be nil]
        type Pair  struct { Car, Cdr ptr SExpr }      [ptr-to-Pair may be nil]
        type Atom  struct { Str, Symbol ptr string; Float ptr float64; Int ptr int64; Var ptr Variable }
        type Variable struct { Name string; Index uint64 }
   Strings are byte lists (strings.Compare is bytewise lexicographic).
   A float64 other than NaN is represented by its order key in Z (sign-magnitude of the IEEE bits,
   +0 and -0 both 0): the key is strictly monotone and injective up to Go's ==, which is all that
   Compare and reflect.DeepEqual observe of a float. int64/uint64 are Z/N (no arithmetic is done on them). *)
From Coq Require Import List NArith ZArith Bool.
Import ListNotations.

Definition str := list N.

Record var := mkVar { vname : str; vidx : N }.

Record atom := mkAtom {
  a_str : option str;
  a_sym : option str;
  a_flt : option Z;
  a_int : option Z;
  a_var : option var }.

Inductive sexpr : Type :=
| SNull                                         (* nil SExpr pointer *)
| SNode (p : pairo) (a : option atom)          (* &SExpr{Pair: p, Atom: a} *)
with pairo : Type :=
| PNull                                         (* nil Pair pointer *)
| PCons (car cdr : sexpr).                      (* &Pair{car, cdr} *)

(* `if c := f(); c != 0 { return c }; rest` *)
Definition lex (c : comparison) (rest : comparison) : comparison :=
  match c with Eq => rest | _ => c end.

(* the nil-pointer preamble shared by every Compare method and compareXPtr helper *)
Definition cmp_opt {A} (cmp : A -> A -> comparison) (x y : option A) : comparison :=
  match x, y with
  | None, None => Eq
  | None, Some _ => Lt
  | Some _, None => Gt
  | Some a, Some b => cmp a b
  end.

(* strings.Compare *)
Fixpoint cmp_str (x y : str) : comparison :=
  match x, y with
  | [], [] => Eq
  | [], _ :: _ => Lt
  | _ :: _, [] => Gt
  | a :: x', b :: y' => lex (N.compare a b) (cmp_str x' y')
  end.

(* Variable.Compare on non-nil receivers *)
Definition cmp_var (x y : var) : comparison :=
  lex (cmp_str (vname x) (vname y)) (lex (N.compare (vidx x) (vidx y)) Eq).

(* Atom.Compare on non-nil receivers *)
Definition cmp_atom (x y : atom) : comparison :=
  lex (cmp_opt cmp_str (a_str x) (a_str y))
  (lex (cmp_opt cmp_str (a_sym x) (a_sym y))
  (lex (cmp_opt Z.compare (a_flt x) (a_flt y))
  (lex (cmp_opt Z.compare (a_int x) (a_int y))
  (lex (cmp_opt cmp_var (a_var x) (a_var y)) Eq)))).

(* SExpr.Compare / Pair.Compare *)
Fixpoint cmp_sexpr (x y : sexpr) {struct x} : comparison :=
  match x, y with
  | SNull, SNull => Eq
  | SNull, SNode _ _ => Lt
  | SNode _ _, SNull => Gt
  | SNode p a, SNode q b => lex (cmp_pair p q) (lex (cmp_opt cmp_atom a b) Eq)
  end
with cmp_pair (p q : pairo) {struct p} : comparison :=
  match p, q with
  | PNull, PNull => Eq
  | PNull, PCons _ _ => Lt
  | PCons _ _, PNull => Gt
  | PCons a d, PCons a' d' => lex (cmp_sexpr a a') (lex (cmp_sexpr d d') Eq)
  end.

Definition cmp_int (c : comparison) : Z := match c with Lt => (-1)%Z | Eq => 0%Z | Gt => 1%Z end.

(* Results.Less *)
Definition less (x y : sexpr) : bool := match cmp_sexpr x y with Lt => true | _ => false end.

(* reflect.DeepEqual on SExpr pointers: structural equality of the pointed-to trees *)
Definition eqb_opt {A} (eqb : A -> A -> bool) (x y : option A) : bool :=
  match x, y with None, None => true | Some a, Some b => eqb a b | _, _ => false end.
Fixpoint eqb_str (x y : str) : bool :=
  match x, y with [], [] => true | a :: x', b :: y' => N.eqb a b && eqb_str x' y' | _, _ => false end.
Definition eqb_var (x y : var) := eqb_str (vname x) (vname y) && N.eqb (vidx x) (vidx y).
Definition eqb_atom (x y : atom) :=
  eqb_opt eqb_str (a_str x) (a_str y) && eqb_opt eqb_str (a_sym x) (a_sym y) &&
  eqb_opt Z.eqb (a_flt x) (a_flt y) && eqb_opt Z.eqb (a_int x) (a_int y) && eqb_opt eqb_var (a_var x) (a_var y).
Fixpoint deep_equal (x y : sexpr) : bool :=
  match x, y with
  | SNull, SNull => true
  | SNode p a, SNode q b => deep_equal_pair p q && eqb_opt eqb_atom a b
  | _, _ => false
  end
with deep_equal_pair (p q : pairo) : bool :=
  match p, q with
  | PNull, PNull => true
  | PCons a d, PCons a' d' => deep_equal a a' && deep_equal d d'
  | _, _ => false
  end.

(* reference sort: insertion sort by cmp_sexpr (ast.Sort uses sort.Sort, which is trusted stdlib;
   the theorem C16_sorted_unique says any sorted permutation equals this one) *)
Fixpoint insert (x : sexpr) (l : list sexpr) : list sexpr :=
  match l with
  | [] => [x]
  | y :: l' => match cmp_sexpr x y with Gt => y :: insert x l' | _ => x :: l end
  end.
Definition isort (l : list sexpr) : list sexpr := fold_right insert [] l.

(* exported constructors of the ast package, for the correspondence cases *)
Definition no_atom : atom := mkAtom None None None None None.
Definition mk_cons (a d : sexpr) : sexpr := SNode (PCons a d) None.
Definition mk_sym (s : str) : sexpr := SNode PNull (Some (mkAtom None (Some s) None None None)).
Definition mk_strg (s : str) : sexpr := SNode PNull (Some (mkAtom (Some s) None None None None)).
Definition mk_int (z : Z) : sexpr := SNode PNull (Some (mkAtom None None None (Some z) None)).
Definition mk_flt (k : Z) : sexpr := SNode PNull (Some (mkAtom None None (Some k) None None)).
Definition mk_var (n : str) (i : N) : sexpr := SNode PNull (Some (mkAtom None None None None (Some (mkVar n i)))).
