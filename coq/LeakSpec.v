(* Proofs about the models of Leak.v (C11). *)
From Coq Require Import List Arith Bool Lia.
From GMK Require Import Leak.
Import ListNotations.

(* ---------- list update ---------- *)
Lemma upd_length {A : Type} i (x : A) l : length (upd i x l) = length l.
Proof. revert i. induction l as [|y l IH]; intros [|i]; simpl; auto. Qed.

Lemma nth_error_upd_eq {A : Type} i (x : A) l : i < length l -> nth_error (upd i x l) i = Some x.
Proof. revert i. induction l as [|y l IH]; intros [|i]; simpl; intros H; try lia; auto. apply IH. lia. Qed.

Lemma nth_error_upd_neq {A : Type} i j (x : A) l : i <> j -> nth_error (upd i x l) j = nth_error l j.
Proof.
  revert i j. induction l as [|y l IH]; intros [|i] [|j] H; simpl; auto; try congruence.
Qed.

Lemma nth_error_upd {A : Type} i j (x : A) l :
  nth_error (upd i x l) j = if i =? j then match nth_error l j with Some _ => Some x | None => None end
                            else nth_error l j.
Proof.
  destruct (Nat.eqb_spec i j) as [->|N].
  - destruct (nth_error l j) eqn:E.
    + apply nth_error_upd_eq. apply nth_error_Some. congruence.
    + apply nth_error_None. rewrite upd_length. apply nth_error_None. exact E.
  - apply nth_error_upd_neq. exact N.
Qed.

Lemma nth_error_mid {A : Type} (pre : list A) x post : nth_error (pre ++ x :: post) (length pre) = Some x.
Proof. induction pre; simpl; auto. Qed.

Lemma upd_mid {A : Type} (pre : list A) x y post : upd (length pre) y (pre ++ x :: post) = pre ++ y :: post.
Proof. induction pre; simpl; auto. f_equal. exact IHpre. Qed.

(* a bounded decidable predicate that holds somewhere has a greatest / a least witness *)
Lemma max_index (P : nat -> bool) n :
  (exists i, i < n /\ P i = true) -> exists i, i < n /\ P i = true /\ forall j, i < j -> j < n -> P j = false.
Proof.
  induction n as [|n IH]; intros [i [Hi Pi]]; [lia|].
  destruct (P n) eqn:E.
  - exists n. repeat split; auto. intros j H1 H2. lia.
  - assert (i <> n) by (intros ->; congruence).
    destruct IH as [m [Hm [Pm Hmax]]]; [exists i; split; auto; lia|].
    exists m. repeat split; auto. intros j H1 H2.
    destruct (Nat.eq_dec j n) as [->|N]; auto. apply Hmax; lia.
Qed.

Lemma min_index (P : nat -> bool) n :
  (exists i, i < n /\ P i = true) -> exists i, i < n /\ P i = true /\ forall j, j < i -> P j = false.
Proof.
  induction n as [|n IH]; intros [i [Hi Pi]]; [lia|].
  destruct (Nat.eq_dec i n) as [->|N].
  - destruct (existsb P (seq 0 n)) eqn:E.
    + apply existsb_exists in E. destruct E as [k [Hk Pk]]. apply in_seq in Hk.
      destruct IH as [m [Hm [Pm Hmin]]]; [exists k; split; auto; lia|].
      exists m. repeat split; auto.
    + exists n. repeat split; auto. intros j Hj.
      destruct (P j) eqn:Pj; auto.
      assert (X : existsb P (seq 0 n) = true) by (apply existsb_exists; exists j; split; auto; apply in_seq; lia).
      congruence.
  - destruct IH as [m [Hm [Pm Hmin]]]; [exists i; split; auto; lia|].
    exists m. repeat split; auto.
Qed.

(* ============================================================================================================= *)
Module ConjSpec.
Import Conj.

Lemma count_upd_same p i a b l :
  nth_error l i = Some a -> p a = p b -> count p (upd i b l) = count p l.
Proof.
  unfold count. revert i. induction l as [|y l IH]; intros [|i]; simpl; intros H E; try discriminate; auto.
  - inversion H; subst. rewrite E. destruct (p b); reflexivity.
  - specialize (IH i H E). destruct (p y); simpl; auto.
Qed.

Lemma filter_len_le {A : Type} (p : A -> bool) l : length (filter p l) <= length l.
Proof. induction l as [|y l IH]; simpl; auto. destruct (p y); simpl; lia. Qed.

Lemma count_lt p i a l : nth_error l i = Some a -> p a = false -> count p l < length l.
Proof.
  unfold count. revert i. induction l as [|y l IH]; intros [|i]; simpl; intros H E; try discriminate.
  - inversion H; subst. rewrite E. pose proof (filter_len_le p l). lia.
  - specialize (IH i H E). destruct (p y); simpl; lia.
Qed.

Lemma count_cons p x l : count p (x :: l) = (if p x then 1 else 0) + count p l.
Proof. unfold count. simpl. destruct (p x); reflexivity. Qed.

Lemma count_split p l : count p l + count (fun s => negb (p s)) l = length l.
Proof. unfold count. induction l as [|y l IH]; simpl; auto. destruct (p y); simpl; lia. Qed.

Lemma count_ext p q l : Forall (fun s => p s = q s) l -> count p l = count q l.
Proof. unfold count. induction 1 as [|y l E _ IH]; simpl; auto. rewrite E. destruct (q y); simpl; auto. Qed.

Lemma Forall_upd {A : Type} (P : A -> Prop) i x l : Forall P l -> P x -> Forall P (upd i x l).
Proof.
  intros H Px. revert i. induction H as [|y l Py Hl IH]; intros [|i]; simpl; constructor; auto.
Qed.

Lemma step_ws_len cap cap2 early c l c' : step cap cap2 early c l = Some c' -> length (ws c') = length (ws c).
Proof.
  destruct l as [s|s|s d]; unfold step.
  - destruct (get c s) as [[]|]; try discriminate. intros H; inversion H; subst.
    destruct s; simpl; auto. apply upd_length.
  - destruct (get c s) as [[]|]; try discriminate. destruct (_ <? _); try discriminate.
    intros H; inversion H; subst. destruct s; simpl; auto. apply upd_length.
  - destruct (rcv c); try discriminate.
    destruct (get c s) as [[]|]; try discriminate; destruct (decisive_ok s d); try discriminate;
      intros H; inversion H; subst; destruct (d && early); destruct s; simpl; auto using upd_length.
Qed.

Lemma run_ws_len cap cap2 early ls : forall c c', run cap cap2 early c ls = Some c' -> length (ws c') = length (ws c).
Proof.
  induction ls as [|l ls IH]; simpl; intros c c' H.
  - inversion H; reflexivity.
  - destruct (step cap cap2 early c l) as [c1|] eqn:E; [|discriminate].
    rewrite (IH _ _ H). eapply step_ws_len; eauto.
Qed.

Lemma init_conj_len n : length (ws (init_conj n)) = n.
Proof. simpl. apply repeat_length. Qed.

(* with enough buffer a sender that has reached its send statement is never blocked *)
Lemma send_enabled cap cap2 early c s :
  length (ws c) <= cap -> 1 <= cap2 -> get c s = Some Sending ->
  exists c', step cap cap2 early c (LSend s) = Some c'.
Proof.
  intros Hc Hc2 H. unfold step. rewrite H.
  assert (L : occ c s <? capof cap cap2 s = true).
  { apply Nat.ltb_lt. destruct s as [i|]; simpl in *.
    - pose proof (count_lt is_buffered i Sending (ws c) H eq_refl). lia.
    - inversion H as [E]. rewrite E. simpl. lia. }
  rewrite L. eauto.
Qed.

Theorem conj_no_block cap cap2 early n ls c :
  n <= cap -> 1 <= cap2 -> run cap cap2 early (init_conj n) ls = Some c ->
  forall s, get c s = Some Sending -> exists c', step cap cap2 early c (LSend s) = Some c'.
Proof.
  intros Hc Hc2 R s H. apply send_enabled; auto.
  rewrite (run_ws_len _ _ _ _ _ _ R), init_conj_len. exact Hc.
Qed.

Theorem conj_terminal_all_gone cap cap2 early n ls c :
  n <= cap -> 1 <= cap2 -> run cap cap2 early (init_conj n) ls = Some c -> terminal cap cap2 early c ->
  forall s st, get c s = Some st -> gone st = true.
Proof.
  intros Hc Hc2 R T s st H. destruct st; auto.
  - specialize (T (LCompute s)). unfold step in T. rewrite H in T. discriminate.
  - destruct (conj_no_block _ _ _ _ _ _ Hc Hc2 R s H) as [c' E]. rewrite T in E. discriminate.
Qed.

(* ---- unbuffered channels (the code) ---- *)
Definition nobuf (c : cfg) : Prop := Forall (fun s => is_buffered s = false) (s2 c :: ws c).

Lemma step_nobuf early c l c' : step 0 0 early c l = Some c' -> nobuf c -> nobuf c'.
Proof.
  unfold nobuf. intros H N. inversion N as [|x y N2 Nw]; subst.
  destruct l as [s|s|s d]; unfold step in H.
  - destruct (get c s) as [[]|]; try discriminate. inversion H; subst.
    destruct s; simpl; constructor; auto. apply Forall_upd; auto.
  - destruct (get c s) as [[]|]; try discriminate. destruct s; simpl in H; discriminate.
  - destruct (rcv c); try discriminate.
    destruct (get c s) as [[]|]; try discriminate; destruct (decisive_ok s d); try discriminate;
      inversion H; subst; destruct (d && early); destruct s; simpl; constructor; auto; apply Forall_upd; auto.
Qed.

Lemma run_nobuf early ls : forall c c', run 0 0 early c ls = Some c' -> nobuf c -> nobuf c'.
Proof.
  induction ls as [|l ls IH]; simpl; intros c c' H N.
  - inversion H; subst; exact N.
  - destruct (step 0 0 early c l) as [c1|] eqn:E; [|discriminate]. eapply IH; eauto. eapply step_nobuf; eauto.
Qed.

Lemma init_conj_nobuf n : nobuf (init_conj n).
Proof.
  unfold nobuf. simpl. constructor; auto. induction n; simpl; constructor; auto.
Qed.

Lemma leaked_received n c : length (ws c) = n -> nobuf c -> leaked c + received c = S n.
Proof.
  intros L N. unfold leaked, received.
  rewrite (count_ext is_taken gone).
  - rewrite Nat.add_comm. rewrite count_split. simpl. rewrite L. reflexivity.
  - unfold nobuf in N. eapply Forall_impl; [|exact N]. intros s E. destruct s; simpl in *; auto; discriminate.
Qed.

(* once the receiver has returned, the only possible steps are goal evaluations finishing: nothing is received,
   no send completes, so who has not terminated never will *)
Lemma step_after_return early c l c' :
  step 0 0 early c l = Some c' -> rcv c = Returned ->
  rcv c' = Returned /\ leaked c' = leaked c /\ received c' = received c /\
  (forall s st, get c s = Some st -> gone st = false -> exists st', get c' s = Some st' /\ gone st' = false).
Proof.
  intros H R. destruct l as [s|s|s d]; unfold step in H.
  - destruct (get c s) as [[]|] eqn:G; try discriminate. inversion H; subst; clear H.
    destruct s as [i|]; simpl in *.
    + repeat split; auto.
      * unfold leaked. simpl ws. simpl s2. rewrite !count_cons.
        rewrite (count_upd_same (fun s => negb (gone s)) i Computing Sending (ws c) G eq_refl). reflexivity.
      * unfold received. simpl ws. simpl s2. rewrite !count_cons.
        rewrite (count_upd_same is_taken i Computing Sending (ws c) G eq_refl). reflexivity.
      * intros [j|] st Hs Hg; simpl in *.
        -- rewrite nth_error_upd. destruct (Nat.eqb_spec i j) as [->|NE].
           ++ rewrite Hs. eauto.
           ++ eauto.
        -- eauto.
    + inversion G as [E]. repeat split; auto.
      * unfold leaked. simpl. rewrite E. reflexivity.
      * unfold received. simpl. rewrite E. reflexivity.
      * intros [j|] st Hs Hg; simpl in *; eauto.
  - destruct (get c s) as [[]|]; try discriminate. destruct s; simpl in H; discriminate.
  - rewrite R in H. discriminate.
Qed.

Lemma run_after_return early ls : forall c c',
  run 0 0 early c ls = Some c' -> rcv c = Returned ->
  rcv c' = Returned /\ leaked c' = leaked c /\ received c' = received c /\
  (forall s st, get c s = Some st -> gone st = false -> exists st', get c' s = Some st' /\ gone st' = false).
Proof.
  induction ls as [|l ls IH]; simpl; intros c c' H R.
  - inversion H; subst. repeat split; eauto.
  - destruct (step 0 0 early c l) as [c1|] eqn:E; [|discriminate].
    destruct (step_after_return _ _ _ _ E R) as [R1 [L1 [T1 G1]]].
    destruct (IH _ _ H R1) as [R2 [L2 [T2 G2]]].
    repeat split; try congruence.
    intros s st Hs Hg. destruct (G1 s st Hs Hg) as [st1 [Hs1 Hg1]]. eauto.
Qed.

(* the exact count: with unbuffered channels, when the receiver has returned after taking r messages, exactly
   n + 1 - r sender goroutines are left, and every one of them stays for ever *)
Theorem conj_unbuffered_leak n ls c :
  run 0 0 true (init_conj n) ls = Some c -> rcv c = Returned ->
  leaked c + received c = S n /\
  forall ls' c', run 0 0 true c ls' = Some c' ->
    leaked c' = leaked c /\
    (forall s st, get c s = Some st -> gone st = false -> exists st', get c' s = Some st' /\ gone st' = false).
Proof.
  intros R Ret. split.
  - apply leaked_received.
    + rewrite (run_ws_len _ _ _ _ _ _ R). apply init_conj_len.
    + eapply run_nobuf; eauto. apply init_conj_nobuf.
  - intros ls' c' R'. destruct (run_after_return _ _ _ _ R' Ret) as [_ [L [_ G]]]. split; auto.
Qed.

Lemma count_repeat_computing n : count (fun s => negb (gone s)) (repeat Computing n) = n.
Proof. unfold count. induction n; simpl; auto. Qed.

(* the worst case for every n: the ch2 message arrives first; all n workers are left *)
Theorem conj_unbuffered_leak_all n :
  exists c, run 0 0 true (init_conj n) [LCompute Ch2; LRecv Ch2 true] = Some c /\ rcv c = Returned /\ leaked c = n.
Proof.
  exists (mkC (repeat Computing n) Taken Returned). repeat split.
  unfold leaked. simpl. apply count_repeat_computing.
Qed.

(* ---- DisjPlus: the receiver takes all n messages ---- *)
Lemma step_disj_receiving cap cap2 c l c' : step cap cap2 false c l = Some c' -> rcv c = Receiving -> rcv c' = Receiving.
Proof.
  intros H R. destruct l as [s|s|s d]; unfold step in H.
  - destruct (get c s) as [[]|]; try discriminate. inversion H; subst. destruct s; simpl; auto.
  - destruct (get c s) as [[]|]; try discriminate. destruct (_ <? _); try discriminate.
    inversion H; subst. destruct s; simpl; auto.
  - rewrite R in H. rewrite andb_false_r in H.
    destruct (get c s) as [[]|]; try discriminate; destruct (decisive_ok s d); try discriminate;
      inversion H; subst; destruct s; simpl; auto.
Qed.

Lemma run_disj_receiving cap cap2 ls : forall c c',
  run cap cap2 false c ls = Some c' -> rcv c = Receiving -> rcv c' = Receiving.
Proof.
  induction ls as [|l ls IH]; simpl; intros c c' H R.
  - inversion H; subst; exact R.
  - destruct (step cap cap2 false c l) as [c1|] eqn:E; [|discriminate].
    eapply IH; eauto. eapply step_disj_receiving; eauto.
Qed.

Theorem disj_no_leak cap cap2 n ls c :
  run cap cap2 false (init_disj n) ls = Some c ->
  (forall i, get c (Wk i) = Some Sending -> exists c', step cap cap2 false c (LRecv (Wk i) false) = Some c') /\
  (terminal cap cap2 false c -> forall i st, get c (Wk i) = Some st -> gone st = true).
Proof.
  intros R. assert (Rc : rcv c = Receiving) by (eapply run_disj_receiving; eauto).
  assert (E : forall i, get c (Wk i) = Some Sending -> exists c', step cap cap2 false c (LRecv (Wk i) false) = Some c').
  { intros i H. unfold step. rewrite Rc, H. simpl. eauto. }
  split; auto.
  intros T i st H. destruct st; auto.
  - specialize (T (LCompute (Wk i))). unfold step in T. rewrite H in T. discriminate.
  - destruct (E i H) as [c' X]. rewrite T in X. discriminate.
Qed.

(* after the return, with unbuffered channels, neither a send nor a receive is ever enabled again *)
Lemma blocked_after_return early c s d :
  rcv c = Returned -> step 0 0 early c (LSend s) = None /\ step 0 0 early c (LRecv s d) = None.
Proof.
  intros R. unfold step. rewrite R. split; auto.
  destruct (get c s) as [[]|]; auto. destruct s; reflexivity.
Qed.

(* the witness for two goals: both evaluate, the ch2 message is taken first, the combinator returns; both workers
   sit in `ch <- answer{...}` for ever: in every continuation they have not terminated and no send or receive is enabled *)
Theorem conj_refuted_unbuffered_2 :
  exists ls c, run 0 0 true (init_conj 2) ls = Some c /\ rcv c = Returned /\
    get c (Wk 0) = Some Sending /\ get c (Wk 1) = Some Sending /\
    forall ls' c', run 0 0 true c ls' = Some c' ->
      forall i, i < 2 ->
        (exists st, get c' (Wk i) = Some st /\ gone st = false) /\
        step 0 0 true c' (LSend (Wk i)) = None /\ forall d, step 0 0 true c' (LRecv (Wk i) d) = None.
Proof.
  exists [LCompute (Wk 0); LCompute (Wk 1); LCompute Ch2; LRecv Ch2 true].
  exists (mkC [Sending; Sending] Taken Returned). repeat split.
  - destruct (run_after_return _ _ _ _ H eq_refl) as [_ [_ [_ G]]].
    destruct i as [|[|i]]; try lia; apply (G _ Sending); reflexivity.
  - destruct (run_after_return _ _ _ _ H eq_refl) as [R _].
    apply (blocked_after_return true c' (Wk i) true R).
  - intros d. destruct (run_after_return _ _ _ _ H eq_refl) as [R _].
    apply (blocked_after_return true c' (Wk i) d R).
Qed.

End ConjSpec.

(* ============================================================================================================= *)
Module CancelSpec.
Import Cancel.

Lemma total_upd rels i t t' ts :
  nth_error ts i = Some t -> total rels (upd i t' ts) + psize rels (pc t) = total rels ts + psize rels (pc t').
Proof.
  revert i. induction ts as [|y ts IH]; intros [|i]; simpl; intros H; try discriminate.
  - inversion H; subst. lia.
  - specialize (IH i H). lia.
Qed.

Lemma psize_seq rels a b : psize rels (seq a b) = psize rels a + psize rels b.
Proof. induction a; simpl; auto; lia. Qed.

Lemma psize_nocall rels c : nocall c = true -> psize rels c = spine c.
Proof. induction c; simpl; intros H; auto; discriminate. Qed.

Lemma nocall_body rels r : guarded rels = true -> nocall (body rels r) = true.
Proof.
  unfold guarded, body. intros G. rewrite forallb_forall in G.
  destruct (nth_in_or_default r rels Done) as [H|H].
  - apply G. exact H.
  - rewrite H. reflexivity.
Qed.

(* under a cancelled context, with Go refusing to start goroutines, every step consumes the measure *)
Lemma step_decreases rels c l c' :
  guarded rels = true -> cancelled c = true -> step true rels c l = Some c' ->
  measure rels c' < measure rels c /\ cancelled c' = true /\ length (tasks c') = length (tasks c).
Proof.
  intros G C H. destruct l as [|i]; simpl in H.
  - rewrite C in H. discriminate.
  - destruct (nth_error (tasks c) i) as [t|] eqn:E; [|discriminate].
    rewrite C in H. simpl in H. unfold measure.
    assert (X : forall k, psize rels k < psize rels (pc t) ->
              total rels (tasks (goto c i t k)) < total rels (tasks c) /\ cancelled (goto c i t k) = true /\
              length (tasks (goto c i t k)) = length (tasks c)).
    { intros k Hk. unfold goto. simpl. pose proof (total_upd rels i t (mkT (par t) k) (tasks c) E) as Y.
      simpl in Y. rewrite upd_length. repeat split; auto. lia. }
    destruct (pc t) eqn:P; try discriminate.
    + inversion H; subst. apply X. simpl. lia.
    + inversion H; subst. apply X. simpl. lia.
    + inversion H; subst. apply X. simpl. lia.
    + inversion H; subst. apply X. simpl. rewrite psize_seq, psize_nocall by (apply nocall_body; exact G). lia.
    + destruct (has_live_child i (tasks c)); [discriminate|]. inversion H; subst. apply X. simpl. lia.
Qed.

Theorem cancel_bounded rels ls : forall c c',
  guarded rels = true -> cancelled c = true -> run true rels c ls = Some c' ->
  length ls + measure rels c' <= measure rels c /\ length (tasks c') = length (tasks c).
Proof.
  induction ls as [|l ls IH]; simpl; intros c c' G C H.
  - inversion H; subst. split; lia.
  - destruct (step true rels c l) as [c1|] eqn:E; [|discriminate].
    destruct (step_decreases _ _ _ _ G C E) as [M [C1 L1]].
    destruct (IH _ _ G C1 H) as [M2 L2]. split; lia.
Qed.

(* parents precede children: preserved by every step *)
Lemma step_wfpar gcc rels c l c' : step gcc rels c l = Some c' -> wfpar c -> wfpar c'.
Proof.
  intros H W. destruct l as [|i]; simpl in H.
  - destruct (cancelled c); [discriminate|]. inversion H; subst. exact W.
  - destruct (nth_error (tasks c) i) as [t|] eqn:E; [|discriminate].
    assert (Li : i < length (tasks c)) by (apply nth_error_Some; congruence).
    assert (X : forall k, wfpar (goto c i t k)).
    { intros k j t' p Hj Hp. unfold goto in Hj. simpl in Hj. rewrite nth_error_upd in Hj.
      destruct (Nat.eqb_spec i j) as [->|NE].
      - rewrite E in Hj. inversion Hj; subst. simpl in Hp. eapply W; eauto.
      - eapply W; eauto. }
    destruct (pc t) eqn:P; try discriminate; try (inversion H; subst; apply X).
    + destruct (gcc && cancelled c); inversion H; subst; [apply X|].
      intros j t' p Hj Hp. simpl in Hj.
      destruct (Nat.lt_ge_cases j (length (upd i (mkT (par t) c0_2) (tasks c)))) as [Lt|Ge].
      * rewrite nth_error_app1 in Hj by exact Lt. eapply (X c0_2); eauto.
      * rewrite nth_error_app2 in Hj by exact Ge. rewrite upd_length in *.
        destruct (j - length (tasks c)) as [|m] eqn:D; simpl in Hj.
        -- inversion Hj; subst. simpl in Hp. inversion Hp; subst. lia.
        -- destruct m; discriminate.
    + destruct (has_live_child i (tasks c)); [discriminate|]. inversion H; subst. apply X.
Qed.

Lemma run_wfpar gcc rels ls : forall c c', run gcc rels c ls = Some c' -> wfpar c -> wfpar c'.
Proof.
  induction ls as [|l ls IH]; simpl; intros c c' H W.
  - inversion H; subst; exact W.
  - destruct (step gcc rels c l) as [c1|] eqn:E; [|discriminate]. eapply IH; eauto. eapply step_wfpar; eauto.
Qed.

(* a goroutine that has not finished can step, unless it is in wg.Wait() with an unfinished child *)
Lemma task_not_blocked gcc rels c i t :
  nth_error (tasks c) i = Some t -> live t = true ->
  (exists c', step gcc rels c (LStep i) = Some c') \/
  (exists k, pc t = Wait k /\ has_live_child i (tasks c) = true).
Proof.
  intros E L. unfold live in L. simpl. rewrite E.
  destruct (pc t) eqn:P; simpl in L; try discriminate; eauto.
  - destruct (gcc && cancelled c); eauto.
  - destruct (has_live_child i (tasks c)) eqn:Hc; eauto.
Qed.

(* ... and the youngest unfinished goroutine has no unfinished child: no deadlock, cancelled or not *)
Theorem no_deadlock gcc rels c :
  wfpar c -> (exists i t, nth_error (tasks c) i = Some t /\ live t = true) ->
  exists i c', step gcc rels c (LStep i) = Some c'.
Proof.
  intros W [i0 [t0 [E0 L0]]].
  set (P := fun i => match nth_error (tasks c) i with Some t => live t | None => false end).
  destruct (max_index P (length (tasks c))) as [i [Hi [Pi Hmax]]].
  { exists i0. split; [apply nth_error_Some; congruence|]. unfold P. rewrite E0. exact L0. }
  unfold P in Pi. destruct (nth_error (tasks c) i) as [t|] eqn:E; [|discriminate].
  destruct (task_not_blocked gcc rels c i t E Pi) as [[c' S]|[k [Pk Hc]]]; [eauto|].
  exfalso. unfold has_live_child in Hc. apply existsb_exists in Hc. destruct Hc as [t' [In' Lc]].
  unfold live_child_of in Lc. destruct (par t') as [p|] eqn:Pp; [|discriminate].
  apply andb_true_iff in Lc. destruct Lc as [Ep Lt']. apply Nat.eqb_eq in Ep. subst p.
  apply In_nth_error in In'. destruct In' as [j Ej].
  assert (i < j) by (eapply W; eauto).
  assert (j < length (tasks c)) by (apply nth_error_Some; congruence).
  specialize (Hmax j H H0). unfold P in Hmax. rewrite Ej in Hmax. congruence.
Qed.

(* ---- go_checks_cancel = false: fives keeps creating goroutines after cancel ---- *)
Lemma run_app gcc rels l1 : forall l2 c,
  run gcc rels c (l1 ++ l2) = match run gcc rels c l1 with Some c' => run gcc rels c' l2 | None => None end.
Proof.
  induction l1 as [|l l1 IH]; simpl; intros l2 c; auto.
  destruct (step gcc rels c l); auto.
Qed.

Lemma step_mid gcc rels pre t post cf :
  step gcc rels (mkC (pre ++ t :: post) cf) (LStep (length pre)) =
  match pc t with
  | Done => None
  | Write k | Read k => Some (mkC (pre ++ mkT (par t) k :: post) cf)
  | Spawn ch k =>
      if gcc && cf then Some (mkC (pre ++ mkT (par t) k :: post) cf)
      else Some (mkC ((pre ++ mkT (par t) k :: post) ++ [mkT (Some (length pre)) ch]) cf)
  | Call r k => Some (mkC (pre ++ mkT (par t) (seq (body rels r) k) :: post) cf)
  | Wait k => if has_live_child (length pre) (pre ++ t :: post) then None
              else Some (mkC (pre ++ mkT (par t) k :: post) cf)
  end.
Proof.
  unfold step. cbn [tasks cancelled]. rewrite nth_error_mid. unfold goto. cbn [tasks cancelled].
  destruct (pc t); rewrite ?upd_mid; reflexivity.
Qed.

Lemma fives_round pre p :
  run false fives_rels (mkC (pre ++ [mkT p (Call 0 Done)]) true)
      [LStep (length pre); LStep (length pre); LStep (length pre)]
  = Some (mkC ((pre ++ [mkT p (Wait Done); mkT (Some (length pre)) (Write Done)])
               ++ [mkT (Some (length pre)) (Call 0 Done)]) true).
Proof.
  cbn [run]. rewrite step_mid. cbn [pc par body fives_rels nth seq].
  rewrite step_mid. cbn [pc par andb]. rewrite <- app_assoc. cbn [app].
  rewrite step_mid. cbn [pc par andb]. rewrite <- !app_assoc. reflexivity.
Qed.

Lemma fives_rounds r : forall pre p,
  exists ts, run false fives_rels (mkC (pre ++ [mkT p (Call 0 Done)]) true) (fives_sched r (length pre))
             = Some (mkC ts true) /\
             length (filter live ts) = length (filter live pre) + 2 * r + 1.
Proof.
  induction r as [|r IH]; intros pre p.
  - exists (pre ++ [mkT p (Call 0 Done)]). split; [reflexivity|].
    rewrite filter_app, app_length. simpl. lia.
  - change (fives_sched (S r) (length pre))
      with ([LStep (length pre); LStep (length pre); LStep (length pre)] ++ fives_sched r (S (S (length pre)))).
    rewrite run_app, fives_round.
    set (pre' := pre ++ [mkT p (Wait Done); mkT (Some (length pre)) (Write Done)]).
    replace (S (S (length pre))) with (length pre') by (unfold pre'; rewrite app_length; simpl; lia).
    destruct (IH pre' (Some (length pre))) as [ts [R L]].
    exists ts. split; [exact R|]. rewrite L. unfold pre'. rewrite filter_app, app_length. simpl. lia.
Qed.

Theorem fives_unbounded k :
  exists ls c, run false fives_rels fives_start (LCancel :: ls) = Some c /\ cancelled c = true /\ k < live_count c.
Proof.
  destruct (fives_rounds k [] None) as [ts [R L]].
  exists (fives_sched k 0), (mkC ts true). split; [|split; auto].
  - simpl in *. exact R.
  - unfold live_count. simpl in *. lia.
Qed.

End CancelSpec.

(* ============================================================================================================= *)
Module TickerSpec.
Import Ticker.

Lemma step_guarded_measure c l c' :
  cancelled c = true -> step true c l = Some c' ->
  cancelled c' = true /\
  (if is_ticker_label l then tmeasure c' < tmeasure c else tmeasure c' = tmeasure c).
Proof.
  intros C H. unfold tmeasure. destruct l; simpl in *; rewrite ?C in H.
  - destruct (ticker c); discriminate.
  - destruct (ticker c) eqn:T; try discriminate. destruct (_ <? _); [|discriminate].
    inversion H; subst; simpl. split; auto.
  - destruct (ticker c) eqn:T; try discriminate; inversion H; subst; simpl; split; auto.
  - destruct (tokens c); [discriminate|]. inversion H; subst; simpl. auto.
  - destruct (_ <? _); [|discriminate]. inversion H; subst; simpl. auto.
  - discriminate.
Qed.

Theorem ticker_guarded_bounded ls : forall c c',
  cancelled c = true -> run true c ls = Some c' -> ticker_steps ls + tmeasure c' <= tmeasure c /\ tmeasure c <= 2.
Proof.
  assert (B : forall c, tmeasure c <= 2) by (intros c; unfold tmeasure; destruct (ticker c); lia).
  induction ls as [|l ls IH]; simpl; intros c c' C H.
  - inversion H; subst. unfold ticker_steps. simpl. split; auto.
  - destruct (step true c l) as [c1|] eqn:E; [|discriminate].
    destruct (step_guarded_measure _ _ _ C E) as [C1 M].
    destruct (IH _ _ C1 H) as [M2 _]. split; auto.
    unfold ticker_steps in *. simpl. destruct (is_ticker_label l); simpl; lia.
Qed.

Theorem ticker_guarded_exit_enabled c :
  cancelled c = true -> ticker c <> Exited -> exists c', step true c LTickExit = Some c' /\ ticker c' = Exited.
Proof.
  intros C T. simpl. rewrite C. destruct (ticker c); try congruence; eauto.
Qed.

Definition stuck (c : cfg) : Prop := ticker c = SendingTick /\ cancelled c = true /\ tokens c = max c.

Lemma step_stuck c l c' : stuck c -> step false c l = Some c' -> is_take l = true.
Proof.
  intros [T [C F]] H. destruct l; simpl in *; auto; rewrite ?T, ?C, ?F, ?Nat.ltb_irrefl in H; discriminate.
Qed.

Theorem ticker_unguarded_stuck c ls c' :
  stuck c -> forallb (fun l => negb (is_take l)) ls = true -> run false c ls = Some c' -> c' = c.
Proof.
  intros S F R. destruct ls as [|l ls]; simpl in *.
  - inversion R; reflexivity.
  - destruct (step false c l) as [c1|] eqn:E; [|discriminate].
    apply step_stuck in E; auto. apply andb_true_iff in F. destruct F as [F _]. rewrite E in F. discriminate.
Qed.

(* the configuration every idle limited search drifts into: all permits are back, the timer fires, the ticker parks in
   its send; then the context is cancelled.  Reachable for every max, and nothing but somebody taking a token moves it *)
Theorem ticker_unguarded_refuted m :
  exists c, run false (init m) [LTimer; LCancel] = Some c /\
    cancelled c = true /\ ticker c = SendingTick /\
    (forall l, is_ticker_label l = true -> step false c l = None) /\
    forall ls c', forallb (fun l => negb (is_take l)) ls = true -> run false c ls = Some c' ->
                  ticker c' = SendingTick.
Proof.
  exists (mkC m m SendingTick true).
  assert (S : stuck (mkC m m SendingTick true)) by (repeat split).
  split; [reflexivity|]. split; [reflexivity|]. split; [reflexivity|]. split.
  - intros l Hl. destruct (step false (mkC m m SendingTick true) l) eqn:E; auto.
    apply (step_stuck _ _ _ S) in E. destruct l; discriminate.
  - intros ls c' F R. rewrite (ticker_unguarded_stuck _ _ _ S F R). reflexivity.
Qed.

(* guarded send: under a cancelled context the ticker is never blocked and takes at most two more steps *)
Theorem ticker_guarded c :
  cancelled c = true ->
  (ticker c <> Exited -> exists c', step true c LTickExit = Some c' /\ ticker c' = Exited) /\
  (forall ls c', run true c ls = Some c' ->
     cancelled c' = true /\ ticker_steps ls <= 2 /\ (ticker_steps ls = 2 -> ticker c' = Exited)).
Proof.
  intros C. split; [apply ticker_guarded_exit_enabled; exact C|].
  intros ls c' R. destruct (ticker_guarded_bounded ls c c' C R) as [B1 B2]. split; [|split].
  - clear B1 B2. revert c C R. induction ls as [|l ls IH]; simpl; intros c C R.
    + inversion R; subst; exact C.
    + destruct (step true c l) as [c1|] eqn:E; [|discriminate].
      destruct (step_guarded_measure _ _ _ C E) as [C1 _]. eapply IH; eauto.
  - lia.
  - intros T. revert B1. unfold tmeasure at 1. destruct (ticker c'); intros B1; auto; lia.
Qed.

End TickerSpec.
