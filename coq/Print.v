(* L6 model: SExpr.String / Pair.String of sexpr/ast/ast.go as a token-list printer. No proofs in this file.

   Go:  func (s SExpr) String():  s == nil -> "()";  s.Atom != nil -> s.Atom.String();  else "(" + s.Pair.String() + ")"
        func (p Pair) String():   p.Cdr == nil      -> p.Car.String()
                                  p.Cdr.Pair != nil -> p.Car.String() + " " + p.Cdr.Pair.String()
                                  else              -> p.Car.String() + " . " + p.Cdr.String()
   so an improper list with two or more elements before the dot prints as `(a b . c)`.
   The text of an atom (strconv.Quote / FormatInt / the symbol / "," + Name) is an ORACLE: `atom_tok a` is the token
   (class, text) that the text of the atom a lexes to; the harness records and validates it per atom. *)
From Coq Require Import List NArith ZArith Bool.
From GMK Require Import TableTypes gen.Tables LexDriver LRDriver Grammar.
Import ListNotations.

Definition tk_lp : token := (t_lp, [40%N]).
Definition tk_rp : token := (t_rp, [41%N]).
Definition tk_sp : token := (t_space, [32%N]).
Definition tk_dot : token := (t_dot, [46%N]).

Section Print.
Context (atom_tok : sx -> token).

Fixpoint print (e : sx) : list token :=
  match e with
  | XNil => [tk_lp; tk_rp]
  | XCons a d => tk_lp :: print a ++ print_tail d ++ [tk_rp]
  | _ => [atom_tok e]
  end
with print_tail (d : sx) : list token :=         (* what Pair.String adds after the Car for the Cdr d *)
  match d with
  | XNil => []
  | XCons a d' => tk_sp :: print a ++ print_tail d'
  | _ => [tk_sp; tk_dot; tk_sp; atom_tok d]
  end.

(* the bytes of String() *)
Definition print_bytes (e : sx) : list N := concat (map snd (print e)).
End Print.

Definition is_atom (e : sx) : bool := match e with XNil | XCons _ _ => false | _ => true end.

(* the domain of the round-trip theorem: every improper tail has exactly one element before the dot *)
Fixpoint rt_ok (e : sx) : bool :=
  match e with
  | XCons a d => rt_ok a && (is_atom d || list_ok d)
  | _ => true
  end
with list_ok (d : sx) : bool :=
  match d with
  | XNil => true
  | XCons a d' => rt_ok a && list_ok d'
  | _ => false
  end.
