(* gomini/regex: regular expressions over the alphabet {a,b}, their languages, Brzozowski derivatives, and the
   encoding of the Go values (regex.go: EmptySet(), EmptyStr(), Char(c), Or(a,b), Concat(a,b), Star(a); string.go:
   *String = nil | &String{head, tail}) as terms, exactly as the translator genrels emits them in gen/RelRegex.v.
   Model only: no proofs here (RegexSpec.v). *)
From Coq Require Import List NArith ZArith Bool Ascii String.
From GMK Require Import Term Unify Goal.
Import ListNotations.

Inductive sym := SA | SB.

Inductive regex :=
| REmptySet
| REmptyStr
| RChar (c : sym)
| ROr (a b : regex)
| RConcat (a b : regex)
| RStar (a : regex).

(* the usual matching relation *)
Inductive lang : regex -> list sym -> Prop :=
| LEmptyStr : lang REmptyStr []
| LChar c : lang (RChar c) [c]
| LOrL a b s : lang a s -> lang (ROr a b) s
| LOrR a b s : lang b s -> lang (ROr a b) s
| LConcat a b s t : lang a s -> lang b t -> lang (RConcat a b) (s ++ t)
| LStarNil a : lang (RStar a) []
| LStarCons a s t : lang a s -> lang (RStar a) t -> lang (RStar a) (s ++ t).

Definition sym_eqb (c d : sym) : bool :=
  match c, d with SA, SA | SB, SB => true | _, _ => false end.

Fixpoint nullable (r : regex) : bool :=
  match r with
  | REmptySet => false
  | REmptyStr => true
  | RChar _ => false
  | ROr a b => nullable a || nullable b
  | RConcat a b => nullable a && nullable b
  | RStar _ => true
  end.

(* Brzozowski derivative *)
Fixpoint deriv (c : sym) (r : regex) : regex :=
  match r with
  | REmptySet => REmptySet
  | REmptyStr => REmptySet
  | RChar d => if sym_eqb c d then REmptyStr else REmptySet
  | ROr a b => ROr (deriv c a) (deriv c b)
  | RConcat a b =>
      if nullable a then ROr (RConcat (deriv c a) b) (deriv c b) else RConcat (deriv c a) b
  | RStar a => RConcat (deriv c a) (RStar a)
  end.

Definition derivs (r : regex) (s : list sym) : regex := fold_left (fun r c => deriv c r) s r.
Definition matches (r : regex) (s : list sym) : bool := nullable (derivs r s).

(* the smart constructors of simplo.go, as functions (one answer of SimpleOrO / SimpleConcatO) *)
Definition simple_or (r1 r2 : regex) : regex :=
  match r1, r2 with
  | REmptySet, _ => r2
  | _, REmptySet => r1
  | _, _ => ROr r1 r2
  end.

Definition simple_concat (r1 r2 : regex) : regex :=
  match r1, r2 with
  | REmptySet, _ => REmptySet
  | _, REmptySet => REmptySet
  | REmptyStr, _ => r2
  | _, REmptyStr => r1
  | _, _ => RConcat r1 r2
  end.

(* the simplifying derivative of sderivo.go, as a function (one answer of SDerivO) *)
Fixpoint sderiv (c : sym) (r : regex) : regex :=
  match r with
  | REmptySet => REmptySet
  | REmptyStr => REmptySet
  | RChar d => if sym_eqb c d then REmptyStr else REmptySet
  | ROr a b => simple_or (sderiv c a) (sderiv c b)
  | RConcat a b =>
      if nullable a then ROr (simple_concat (sderiv c a) b) (sderiv c b) else simple_concat (sderiv c a) b
  | RStar a => simple_concat (sderiv c a) (RStar a)
  end.

Definition sderivs (r : regex) (s : list sym) : regex := fold_left (fun r c => sderiv c r) s r.

(* two expressions with the same language *)
Definition leq (q q' : regex) : Prop := forall s, lang q s <-> lang q' s.
(* q denotes the derivative of r by c *)
Definition isderiv (c : sym) (r q : regex) : Prop := forall s, lang q s <-> lang r (c :: s).

(* ---------- encoding ---------- *)

(* the translator interns the symbol with name s as the base-256 number of "\001" ++ s *)
Fixpoint str_num_from (acc : N) (s : string) : N :=
  match s with
  | EmptyString => acc
  | String c s' => str_num_from (acc * 256 + N_of_ascii c) s'
  end.
Definition str_num (s : string) : N := str_num_from 1 s.

(* the numbers that occur in gen/RelRegex.v; RegexSpec.v checks tag_x = str_num "X" and that the generated
   shape tests IsEmptySet ... IsStar mention exactly these *)
Notation tag_emptyset := 23449522480342066548%N.
Notation tag_emptystr := 23449522480342070386%N.
Notation tag_char := 5425881458%N.
Notation tag_or := 85874%N.
Notation tag_concat := 355620849148276%N.
Notation tag_star := 5695103346%N.

Definition rune_a : Z := 97%Z.
Definition rune_b : Z := 98%Z.

Definition enc_sym (c : sym) : term :=
  match c with SA => TAtom (AInt 97%Z) | SB => TAtom (AInt 98%Z) end.

Fixpoint enc_re (r : regex) : term :=
  match r with
  | REmptySet => TPair (TAtom (ASym tag_emptyset)) TNil
  | REmptyStr => TPair (TAtom (ASym tag_emptystr)) TNil
  | RChar c => TPair (TAtom (ASym tag_char)) (TPair (enc_sym c) TNil)
  | ROr a b => TPair (TAtom (ASym tag_or)) (TPair (enc_re a) (TPair (enc_re b) TNil))
  | RConcat a b => TPair (TAtom (ASym tag_concat)) (TPair (enc_re a) (TPair (enc_re b) TNil))
  | RStar a => TPair (TAtom (ASym tag_star)) (TPair (enc_re a) TNil)
  end.

Fixpoint enc_str (s : list sym) : term :=
  match s with [] => TNil | c :: s' => TPair (enc_sym c) (enc_str s') end.

(* ---------- partial decoders ---------- *)

Definition dec_sym (t : term) : option sym :=
  match t with
  | TAtom (AInt z) => if Z.eqb z 97 then Some SA else if Z.eqb z 98 then Some SB else None
  | _ => None
  end.

Fixpoint dec_re (t : term) : option regex :=
  match t with
  | TPair (TAtom (ASym n)) args =>
      match args with
      | TNil =>
          if N.eqb n tag_emptyset then Some REmptySet
          else if N.eqb n tag_emptystr then Some REmptyStr else None
      | TPair a TNil =>
          if N.eqb n tag_char then option_map RChar (dec_sym a)
          else if N.eqb n tag_star then option_map RStar (dec_re a) else None
      | TPair a (TPair b TNil) =>
          match dec_re a, dec_re b with
          | Some ra, Some rb =>
              if N.eqb n tag_or then Some (ROr ra rb)
              else if N.eqb n tag_concat then Some (RConcat ra rb) else None
          | _, _ => None
          end
      | _ => None
      end
  | _ => None
  end.

Fixpoint dec_str (t : term) : option (list sym) :=
  match t with
  | TNil => Some []
  | TPair h tl =>
      match dec_sym h, dec_str tl with Some c, Some s => Some (c :: s) | _, _ => None end
  | _ => None
  end.
