(* The reifier part of the functions generated from micro/reify.go (gen/MicroGen.v): reifys / reifyS are the model of
   Reify.v, and ReifyIntVarFromState is their composition with walkStar.  Kept apart from MicroGenSpec.v so that a change to
   reify.go does not take the obligations of C01 with it. *)
From Coq Require Import List NArith ZArith Bool Lia.
From GMK Require Import Term Unify Goal Stream Reify GoLite gen.MicroGen MicroGenSpec.
Import ListNotations.

Lemma g_reifys_spec : forall f v s, g_reifys f v s = of_opt (reifys f v s).
Proof.
  induction f as [|f IH]; intros v s; [reflexivity|].
  cbn [g_reifys reifys]. cbv zeta. rewrite g_walkt_shape. destruct (walkt f v s) as [vv|]; [|reflexivity].
  destruct vv; cbn; try reflexivity.
  - rewrite fresh_append. reflexivity.
  - rewrite IH. destruct (reifys f vv1 s); cbn; [|reflexivity]. apply IH.
Qed.

Lemma g_reifyS_spec f v : g_reifyS f v = of_opt (reifys f v []).
Proof. unfold g_reifyS. apply g_reifys_spec. Qed.

Theorem reify_code_never_panics : forall f v s, g_reifys f v s <> Panic /\ g_reifyS f v <> Panic.
Proof.
  intros f v s. rewrite g_reifys_spec, g_reifyS_spec. split; [destruct (reifys f v s)|destruct (reifys f v [])]; discriminate.
Qed.

Theorem code_reify_var : forall f q st,
  bind (g_walkStar f (TVar q) (sub st)) (fun vv => bind (g_reifyS f vv) (fun r => g_walkStar f vv r)) = of_opt (reify_var f q st).
Proof.
  intros f q st. unfold reify_var. rewrite g_walkStar_spec. destruct (walkstar f (TVar q) (sub st)) as [vv|]; [|reflexivity].
  cbn [of_opt bind]. rewrite g_reifyS_spec. destruct (reifys f vv []) as [r|]; [|reflexivity]. cbn [of_opt bind]. apply g_walkStar_spec.
Qed.
