(* gomini/regex (C17): the logical reading Den of the GENERATED goal terms of gen/RelRegex.v (NullO, IsNullO, DerivO,
   SDerivO, SDerivOs, MatchO, IsMatchO and the helpers of simplo.go) agrees with the language semantics of regular
   expressions over {a,b} and with Brzozowski derivatives.  The bodies are never copied: they are unfolded.

   Method (ListRel.v): "=>" directions by least-fixed-point induction (call_lfp) with one specification per table
   index, closed under the bodies; "<=" / totality by induction on the expression (on the string). *)
From Coq Require Import Ascii String.
From Coq Require Import List NArith ZArith Bool Lia Arith Setoid Morphisms.
From GMK Require Import Term Unify UnifyTotal Goal Stream Den InStream Sound Complete ListRel RegexLang.
From GMK.gen Require Import RelRegex.
Import ListNotations.
(* a changed relation body can send the case analyses below into a very long search: fail instead *)
Set Default Timeout 90.

(* ================================================================================================ *)
(* 0. the encoding is the translator's *)

Example tags_are_names :
  tag_emptyset = str_num "EmptySet" /\ tag_emptystr = str_num "EmptyStr" /\ tag_char = str_num "Char" /\
  tag_or = str_num "Or" /\ tag_concat = str_num "Concat" /\ tag_star = str_num "Star".
Proof. repeat split; reflexivity. Qed.

(* the encoders as program terms *)
Definition p_emptyset : pterm := PPair (PAtom (ASym tag_emptyset)) PNil.
Definition p_emptystr : pterm := PPair (PAtom (ASym tag_emptystr)) PNil.

(* the generated shape tests mention exactly the tags of enc_re *)
Example tags_in_generated :
  isemptyset_body = GEq (PB 0) p_emptyset /\
  isemptystr_body = GEq (PB 0) p_emptystr /\
  ischar_body = GFresh (GEq (PB 1) (PPair (PAtom (ASym tag_char)) (PPair (PB 0) PNil))) /\
  isor_body = GFresh (GFresh (GEq (PB 2) (PPair (PAtom (ASym tag_or)) (PPair (PB 1) (PPair (PB 0) PNil))))) /\
  isconcat_body = GFresh (GFresh (GEq (PB 2) (PPair (PAtom (ASym tag_concat)) (PPair (PB 1) (PPair (PB 0) PNil))))) /\
  isstar_body = GFresh (GEq (PB 1) (PPair (PAtom (ASym tag_star)) (PPair (PB 0) PNil))).
Proof. repeat split; reflexivity. Qed.

Lemma dec_enc_sym c : dec_sym (enc_sym c) = Some c.
Proof. destruct c; reflexivity. Qed.

Lemma dec_enc_re r : dec_re (enc_re r) = Some r.
Proof.
  induction r as [| |c|a IHa b IHb|a IHa b IHb|a IHa]; try reflexivity.
  - cbn [enc_re dec_re]. rewrite dec_enc_sym. reflexivity.
  - cbn [enc_re dec_re]. rewrite IHa, IHb. reflexivity.
  - cbn [enc_re dec_re]. rewrite IHa, IHb. reflexivity.
  - cbn [enc_re dec_re]. rewrite IHa. reflexivity.
Qed.

Lemma dec_enc_str s : dec_str (enc_str s) = Some s.
Proof. induction s as [|c s IH]; [reflexivity|]. cbn [enc_str dec_str]. rewrite dec_enc_sym, IH. reflexivity. Qed.

Theorem enc_sym_inj c d : enc_sym c = enc_sym d -> c = d.
Proof. intros H. apply (f_equal dec_sym) in H. rewrite !dec_enc_sym in H. congruence. Qed.

Theorem enc_re_inj r r' : enc_re r = enc_re r' -> r = r'.
Proof. intros H. apply (f_equal dec_re) in H. rewrite !dec_enc_re in H. congruence. Qed.

Theorem enc_str_inj s s' : enc_str s = enc_str s' -> s = s'.
Proof. intros H. apply (f_equal dec_str) in H. rewrite !dec_enc_str in H. congruence. Qed.

(* encoder inversion: a ground expression whose encoding has a given head *)
Lemma enc_re_emptyset_inv r : enc_re r = TPair (TAtom (ASym tag_emptyset)) TNil -> r = REmptySet.
Proof. destruct r; simpl; intros H; try discriminate H; reflexivity. Qed.

Lemma enc_re_emptystr_inv r : enc_re r = TPair (TAtom (ASym tag_emptystr)) TNil -> r = REmptyStr.
Proof. destruct r; simpl; intros H; try discriminate H; reflexivity. Qed.

Lemma enc_re_char_inv r x : enc_re r = TPair (TAtom (ASym tag_char)) (TPair x TNil) ->
  exists c, r = RChar c /\ x = enc_sym c.
Proof. destruct r; simpl; intros H; try discriminate H. inversion H. eauto. Qed.

Lemma enc_re_or_inv r x y : enc_re r = TPair (TAtom (ASym tag_or)) (TPair x (TPair y TNil)) ->
  exists a b, r = ROr a b /\ x = enc_re a /\ y = enc_re b.
Proof. destruct r; simpl; intros H; try discriminate H. inversion H. eauto. Qed.

Lemma enc_re_concat_inv r x y : enc_re r = TPair (TAtom (ASym tag_concat)) (TPair x (TPair y TNil)) ->
  exists a b, r = RConcat a b /\ x = enc_re a /\ y = enc_re b.
Proof. destruct r; simpl; intros H; try discriminate H. inversion H. eauto. Qed.

Lemma enc_re_star_inv r x : enc_re r = TPair (TAtom (ASym tag_star)) (TPair x TNil) ->
  exists a, r = RStar a /\ x = enc_re a.
Proof. destruct r; simpl; intros H; try discriminate H. inversion H. eauto. Qed.

Lemma enc_sym_a_inv c : enc_sym c = TAtom (AInt 97%Z) -> c = SA.
Proof. destruct c; simpl; intros H; [reflexivity|discriminate H]. Qed.

Lemma enc_sym_b_inv c : enc_sym c = TAtom (AInt 98%Z) -> c = SB.
Proof. destruct c; simpl; intros H; [discriminate H|reflexivity]. Qed.

Lemma enc_str_nil_inv s : enc_str s = TNil -> s = [].
Proof. destruct s; simpl; intros H; [reflexivity|discriminate H]. Qed.

Lemma enc_str_cons_inv s h t : enc_str s = TPair h t -> exists c s', s = c :: s' /\ h = enc_sym c /\ t = enc_str s'.
Proof. destruct s; simpl; intros H; [discriminate H|]. inversion H. eauto. Qed.

(* ================================================================================================ *)
(* 1. language basics *)

Lemma lang_emptyset s : lang REmptySet s <-> False.
Proof. split; [intros H; inversion H|contradiction]. Qed.

Lemma lang_emptystr s : lang REmptyStr s <-> s = [].
Proof. split; [intros H; inversion H; reflexivity|intros ->; constructor]. Qed.

Lemma lang_char c s : lang (RChar c) s <-> s = [c].
Proof. split; [intros H; inversion H; reflexivity|intros ->; constructor]. Qed.

Lemma lang_or a b s : lang (ROr a b) s <-> lang a s \/ lang b s.
Proof. split; [intros H; inversion H; auto|intros [H|H]; [apply LOrL|apply LOrR]; assumption]. Qed.

Lemma lang_concat a b s : lang (RConcat a b) s <-> exists s1 s2, s = s1 ++ s2 /\ lang a s1 /\ lang b s2.
Proof.
  split.
  - intros H; inversion H; subst. eauto.
  - intros [s1 [s2 [-> [H1 H2]]]]. constructor; assumption.
Qed.

Lemma lang_star_cons_aux r w : lang r w -> forall a c s, r = RStar a -> w = c :: s ->
  exists s1 s2, s = s1 ++ s2 /\ lang a (c :: s1) /\ lang (RStar a) s2.
Proof.
  induction 1 as [ |c'|a' b' s' H' IH'|a' b' s' H' IH'|a' b' s1 s2 H1 IH1 H2 IH2|a'|a' s1 s2 H1 IH1 H2 IH2];
    intros a c s Er Ew; try discriminate.
  inversion Er; subst a'. destruct s1 as [|c1 s1].
  - simpl in Ew. apply IH2; auto.
  - simpl in Ew. inversion Ew; subst. exists s1, s2. auto.
Qed.

Lemma lang_star_cons a c s :
  lang (RStar a) (c :: s) <-> exists s1 s2, s = s1 ++ s2 /\ lang a (c :: s1) /\ lang (RStar a) s2.
Proof.
  split.
  - intros H. eapply lang_star_cons_aux; eauto.
  - intros [s1 [s2 [-> [H1 H2]]]]. change (c :: s1 ++ s2) with ((c :: s1) ++ s2). constructor; assumption.
Qed.

Theorem nullable_spec r : nullable r = true <-> lang r [].
Proof.
  induction r as [| |c|a IHa b IHb|a IHa b IHb|a IHa]; simpl.
  - rewrite lang_emptyset. split; [discriminate|contradiction].
  - rewrite lang_emptystr. split; reflexivity.
  - rewrite lang_char. split; discriminate.
  - rewrite orb_true_iff, lang_or, IHa, IHb. reflexivity.
  - rewrite andb_true_iff, lang_concat, IHa, IHb. split.
    + intros [H1 H2]. exists [], []. auto.
    + intros [s1 [s2 [E [H1 H2]]]]. symmetry in E. apply app_eq_nil in E. destruct E; subst. auto.
  - split; [intros _; constructor|reflexivity].
Qed.
Print Assumptions nullable_spec.

Lemma nullable_false r : nullable r = false <-> ~ lang r [].
Proof. rewrite <- nullable_spec. destruct (nullable r); split; congruence. Qed.

Lemma leq_refl q : leq q q.
Proof. intros s. reflexivity. Qed.

Lemma leq_nullable q q' : leq q q' -> nullable q = nullable q'.
Proof.
  intros H. destruct (nullable q) eqn:E1, (nullable q') eqn:E2; try reflexivity.
  - apply nullable_spec, H, nullable_spec in E1. congruence.
  - apply nullable_spec, H, nullable_spec in E2. congruence.
Qed.

(* the derivative of each constructor, up to language equality of the result (serves DerivO and SDerivO) *)
Lemma isderiv_emptyset c q : leq q REmptySet -> isderiv c REmptySet q.
Proof.
  unfold leq, isderiv. intros H s. rewrite H, !lang_emptyset. reflexivity. Qed.

Lemma isderiv_emptystr c q : leq q REmptySet -> isderiv c REmptyStr q.
Proof.
  unfold leq, isderiv. intros H s. rewrite H, lang_emptyset, lang_emptystr. split; [contradiction|discriminate]. Qed.

Lemma isderiv_char_same c q : leq q REmptyStr -> isderiv c (RChar c) q.
Proof.
  unfold leq, isderiv.
  intros H s. rewrite H, lang_emptystr, lang_char. split; [intros ->; reflexivity|intros E; inversion E; reflexivity].
Qed.

Lemma isderiv_char_other c d q : c <> d -> leq q REmptySet -> isderiv c (RChar d) q.
Proof.
  unfold leq, isderiv.
  intros Hn H s. rewrite H, lang_emptyset, lang_char. split; [contradiction|intros E; inversion E; congruence].
Qed.

Lemma isderiv_or c a b qa qb q :
  isderiv c a qa -> isderiv c b qb -> leq q (ROr qa qb) -> isderiv c (ROr a b) q.
Proof.
  unfold leq, isderiv. intros Ha Hb H s. rewrite H, !lang_or, Ha, Hb. reflexivity. Qed.

Lemma lang_concat_cons a b c s :
  lang (RConcat a b) (c :: s) <->
  (exists s1 s2, s = s1 ++ s2 /\ lang a (c :: s1) /\ lang b s2) \/ (lang a [] /\ lang b (c :: s)).
Proof.
  rewrite lang_concat. split.
  - intros [s1 [s2 [E [H1 H2]]]]. destruct s1 as [|c1 s1]; simpl in E.
    + subst s2. right. auto.
    + inversion E; subst. left. eauto.
  - intros [[s1 [s2 [-> [H1 H2]]]]|[H1 H2]].
    + exists (c :: s1), s2. auto.
    + exists [], (c :: s). auto.
Qed.

Lemma isderiv_concat_null c a b qa qb ca q :
  nullable a = true -> isderiv c a qa -> isderiv c b qb -> leq ca (RConcat qa b) -> leq q (ROr ca qb) ->
  isderiv c (RConcat a b) q.
Proof.
  unfold leq, isderiv.
  intros Hn Ha Hb Hca H s. apply nullable_spec in Hn.
  rewrite H, lang_or, Hca, lang_concat, lang_concat_cons, Hb. split.
  - intros [[s1 [s2 [E [H1 H2]]]]|H1]; [left; exists s1, s2; rewrite <- Ha; auto|right; auto].
  - intros [[s1 [s2 [E [H1 H2]]]]|[_ H1]]; [left; exists s1, s2; rewrite Ha; auto|right; auto].
Qed.

Lemma isderiv_concat_nonnull c a b qa q :
  nullable a = false -> isderiv c a qa -> leq q (RConcat qa b) -> isderiv c (RConcat a b) q.
Proof.
  unfold leq, isderiv.
  intros Hn Ha H s. apply nullable_false in Hn.
  rewrite H, lang_concat, lang_concat_cons. split.
  - intros [s1 [s2 [E [H1 H2]]]]. left; exists s1, s2; rewrite <- Ha; auto.
  - intros [[s1 [s2 [E [H1 H2]]]]|[H1 _]]; [exists s1, s2; rewrite Ha; auto|contradiction].
Qed.

Lemma isderiv_star c a qa q : isderiv c a qa -> leq q (RConcat qa (RStar a)) -> isderiv c (RStar a) q.
Proof.
  unfold leq, isderiv.
  intros Ha H s. rewrite H, lang_concat, lang_star_cons.
  split; intros [s1 [s2 [E [H1 H2]]]]; exists s1, s2; [rewrite <- Ha|rewrite Ha]; auto.
Qed.

Lemma sym_eqb_spec c d : sym_eqb c d = true <-> c = d.
Proof. destruct c, d; simpl; split; congruence. Qed.

Lemma isderiv_char c d : isderiv c (RChar d) (if sym_eqb c d then REmptyStr else REmptySet).
Proof.
  destruct (sym_eqb c d) eqn:E.
  - apply sym_eqb_spec in E. subst d. apply isderiv_char_same, leq_refl.
  - apply isderiv_char_other; [|apply leq_refl]. intros ->. destruct d; discriminate.
Qed.

Theorem deriv_isderiv c r : isderiv c r (deriv c r).
Proof.
  induction r as [| |d|a IHa b IHb|a IHa b IHb|a IHa]; simpl.
  - apply isderiv_emptyset, leq_refl.
  - apply isderiv_emptystr, leq_refl.
  - apply isderiv_char.
  - eapply isderiv_or; eauto using leq_refl.
  - destruct (nullable a) eqn:En.
    + eapply isderiv_concat_null; eauto using leq_refl.
    + eapply isderiv_concat_nonnull; eauto using leq_refl.
  - eapply isderiv_star; eauto using leq_refl.
Qed.

Theorem deriv_spec c r s : lang (deriv c r) s <-> lang r (c :: s).
Proof. apply deriv_isderiv. Qed.
Print Assumptions deriv_spec.

Lemma derivs_spec s : forall r t, lang (derivs r s) t <-> lang r (s ++ t).
Proof.
  induction s as [|c s IH]; intros r t; simpl; [reflexivity|].
  unfold derivs in *. simpl. rewrite IH, deriv_spec. reflexivity.
Qed.

Theorem matches_spec r s : matches r s = true <-> lang r s.
Proof. unfold matches. rewrite nullable_spec, derivs_spec, app_nil_r. reflexivity. Qed.
Print Assumptions matches_spec.

(* the smart constructors and the simplifying derivative *)
Lemma simple_or_leq r1 r2 : leq (simple_or r1 r2) (ROr r1 r2).
Proof.
  intros s. rewrite lang_or.
  destruct r1, r2; simpl; rewrite ?lang_or, ?lang_emptyset; tauto.
Qed.

Lemma lang_concat_emptyset_l r s : lang (RConcat REmptySet r) s <-> False.
Proof. rewrite lang_concat. split; [|contradiction]. intros [s1 [s2 [_ [H _]]]]. inversion H. Qed.
Lemma lang_concat_emptyset_r r s : lang (RConcat r REmptySet) s <-> False.
Proof. rewrite lang_concat. split; [|contradiction]. intros [s1 [s2 [_ [_ H]]]]. inversion H. Qed.
Lemma lang_concat_emptystr_l r s : lang (RConcat REmptyStr r) s <-> lang r s.
Proof.
  rewrite lang_concat. split.
  - intros [s1 [s2 [-> [H1 H2]]]]. inversion H1. exact H2.
  - intros H. exists [], s. repeat split; [constructor|exact H].
Qed.
Lemma lang_concat_emptystr_r r s : lang (RConcat r REmptyStr) s <-> lang r s.
Proof.
  rewrite lang_concat. split.
  - intros [s1 [s2 [-> [H1 H2]]]]. inversion H2. rewrite app_nil_r. exact H1.
  - intros H. exists s, []. rewrite app_nil_r. repeat split; [exact H|constructor].
Qed.

Lemma leq_concat_emptyset_l r : leq REmptySet (RConcat REmptySet r).
Proof. intros s. rewrite lang_concat_emptyset_l, lang_emptyset. tauto. Qed.
Lemma leq_concat_emptyset_r r : leq REmptySet (RConcat r REmptySet).
Proof. intros s. rewrite lang_concat_emptyset_r, lang_emptyset. tauto. Qed.
Lemma leq_concat_emptystr_l r : leq r (RConcat REmptyStr r).
Proof. intros s. rewrite lang_concat_emptystr_l. tauto. Qed.
Lemma leq_concat_emptystr_r r : leq r (RConcat r REmptyStr).
Proof. intros s. rewrite lang_concat_emptystr_r. tauto. Qed.

Lemma simple_concat_leq r1 r2 : leq (simple_concat r1 r2) (RConcat r1 r2).
Proof.
  intros s. destruct r1, r2; simpl;
    rewrite ?lang_concat_emptyset_l, ?lang_concat_emptyset_r, ?lang_concat_emptystr_l, ?lang_concat_emptystr_r,
      ?lang_emptyset; tauto.
Qed.

Theorem sderiv_isderiv c r : isderiv c r (sderiv c r).
Proof.
  induction r as [| |d|a IHa b IHb|a IHa b IHb|a IHa]; simpl.
  - apply isderiv_emptyset, leq_refl.
  - apply isderiv_emptystr, leq_refl.
  - apply isderiv_char.
  - eapply isderiv_or; eauto using simple_or_leq.
  - destruct (nullable a) eqn:En.
    + eapply isderiv_concat_null; eauto using leq_refl, simple_concat_leq.
    + eapply isderiv_concat_nonnull; eauto using simple_concat_leq.
  - eapply isderiv_star; eauto using simple_concat_leq.
Qed.

Lemma sderivs_spec s : forall r t, lang (sderivs r s) t <-> lang r (s ++ t).
Proof.
  induction s as [|c s IH]; intros r t; simpl; [reflexivity|].
  unfold sderivs in *. simpl. rewrite IH. apply sderiv_isderiv.
Qed.

(* ================================================================================================ *)
(* 2. the specifications of the five recursive relations, by table index; environments: last parameter = index 0 *)
Notation ds := regex_defs.

(* NullO(r, out): environment [out; r] *)
Definition spec_nullo (env : list term) : Prop :=
  forall r, nth 1 env TNil = enc_re r ->
            nth 0 env TNil = enc_re (if nullable r then REmptyStr else REmptySet).
(* IsNullO(r): environment [r] *)
Definition spec_isnullo (env : list term) : Prop :=
  forall r, nth 0 env TNil = enc_re r -> nullable r = true.
(* DerivO / SDerivO(r, char, dr): environment [dr; char; r] *)
Definition spec_deriv (env : list term) : Prop :=
  forall r c, nth 2 env TNil = enc_re r -> nth 1 env TNil = enc_sym c ->
              exists q, nth 0 env TNil = enc_re q /\ isderiv c r q.
(* SDerivOs(r, s, res): environment [res; s; r] *)
Definition spec_derivs (env : list term) : Prop :=
  forall r s, nth 2 env TNil = enc_re r -> nth 1 env TNil = enc_str s ->
              exists q, nth 0 env TNil = enc_re q /\ forall t, lang q t <-> lang r (s ++ t).

Definition regex_spec (r : nat) (env : list term) : Prop :=
  match r with
  | 0 => spec_nullo env
  | 1 => spec_isnullo env
  | 2 => spec_deriv env
  | 3 => spec_deriv env
  | 4 => spec_derivs env
  | _ => True
  end.

Lemma if_emptystr (b : bool) : enc_re (if b then REmptyStr else REmptySet) = enc_re REmptyStr -> b = true.
Proof. destruct b; [reflexivity|discriminate]. Qed.
Lemma if_emptyset (b : bool) : enc_re (if b then REmptyStr else REmptySet) = enc_re REmptySet -> b = false.
Proof. destruct b; [discriminate|reflexivity]. Qed.

(* controlled unfolding of an interpreted body: helpers that are not unfolded stay folded *)
Ltac sem_cbn_in H := cbn [Sem close nth arg_env rev map app] in H.
Ltac sem_cbn := cbn [Sem close nth arg_env rev map app].

(* name the components of an abstract environment *)
Ltac name_env env :=
  let x0 := fresh "x0" in let x1 := fresh "x1" in let x2 := fresh "x2" in
  set (x0 := nth 0 env TNil) in *; set (x1 := nth 1 env TNil) in *; set (x2 := nth 2 env TNil) in *;
  clearbody x0 x1 x2.

(* encoder inversion on the hypotheses *)
Ltac enc_inv1 :=
  match goal with
  | H : TPair _ _ = enc_re _ |- _ => symmetry in H
  | H : TNil = enc_str _ |- _ => symmetry in H
  | H : TPair _ _ = enc_str _ |- _ => symmetry in H
  | H : TAtom _ = enc_sym _ |- _ => symmetry in H
  | H : enc_re (if _ then REmptyStr else REmptySet) = TPair (TAtom (ASym tag_emptystr)) TNil |- _ =>
      apply if_emptystr in H
  | H : enc_re (if _ then REmptyStr else REmptySet) = TPair (TAtom (ASym tag_emptyset)) TNil |- _ =>
      apply if_emptyset in H
  | H : enc_re _ = TPair (TAtom (ASym tag_emptyset)) TNil |- _ => apply enc_re_emptyset_inv in H
  | H : enc_re _ = TPair (TAtom (ASym tag_emptystr)) TNil |- _ => apply enc_re_emptystr_inv in H
  | H : enc_re _ = TPair (TAtom (ASym tag_char)) (TPair _ TNil) |- _ =>
      apply enc_re_char_inv in H; destruct H as (? & ? & ?)
  | H : enc_re _ = TPair (TAtom (ASym tag_or)) (TPair _ (TPair _ TNil)) |- _ =>
      apply enc_re_or_inv in H; destruct H as (? & ? & ? & ? & ?)
  | H : enc_re _ = TPair (TAtom (ASym tag_concat)) (TPair _ (TPair _ TNil)) |- _ =>
      apply enc_re_concat_inv in H; destruct H as (? & ? & ? & ? & ?)
  | H : enc_re _ = TPair (TAtom (ASym tag_star)) (TPair _ TNil) |- _ =>
      apply enc_re_star_inv in H; destruct H as (? & ? & ?)
  | H : enc_sym _ = TAtom (AInt 97%Z) |- _ => apply enc_sym_a_inv in H
  | H : enc_sym _ = TAtom (AInt 98%Z) |- _ => apply enc_sym_b_inv in H
  | H : enc_str _ = TNil |- _ => apply enc_str_nil_inv in H
  | H : enc_str _ = TPair _ _ |- _ => apply enc_str_cons_inv in H; destruct H as (? & ? & ? & ? & ?)
  | H : enc_re _ = enc_re _ |- _ => apply enc_re_inj in H
  | H : _ = (if ?b then REmptyStr else REmptySet) |- _ => destruct b eqn:?; try discriminate H; clear H
  | H : (if ?b then REmptyStr else REmptySet) = _ |- _ => destruct b eqn:?; try discriminate H; clear H
  | H : enc_sym _ = enc_sym _ |- _ => apply enc_sym_inj in H
  | H : enc_str _ = enc_str _ |- _ => apply enc_str_inj in H
  end.
Ltac enc_inv := repeat (subst; try discriminate; enc_inv1); subst; try discriminate.

(* use a specification on ground inputs *)
Ltac spec_inst1 :=
  match goal with
  | H : forall r, enc_re ?a = enc_re r -> _ |- _ => specialize (H a eq_refl)
  | H : forall r c, enc_re ?a = enc_re r -> enc_sym ?b = enc_sym c -> _ |- _ => specialize (H a b eq_refl eq_refl)
  | H : forall r s, enc_re ?a = enc_re r -> enc_str ?b = enc_str s -> _ |- _ => specialize (H a b eq_refl eq_refl)
  | H : forall r1 r2, enc_re ?a = enc_re r1 -> enc_re ?b = enc_re r2 -> _ |- _ => specialize (H a b eq_refl eq_refl)
  end.

(* ================================================================================================ *)
(* 3. the non-recursive helpers of simplo.go / derivo.go (they contain no calls: any interpretation S) *)

(* SimpleOrO(r1, r2, res): environment [res; r2; r1] *)
Definition spec_simpleor (env : list term) : Prop :=
  forall r1 r2, nth 2 env TNil = enc_re r1 -> nth 1 env TNil = enc_re r2 ->
                exists q, nth 0 env TNil = enc_re q /\ leq q (ROr r1 r2).
(* SimpleConcatO(r1, r2, res): environment [res; r2; r1] *)
Definition spec_simpleconcat (env : list term) : Prop :=
  forall r1 r2, nth 2 env TNil = enc_re r1 -> nth 1 env TNil = enc_re r2 ->
                exists q, nth 0 env TNil = enc_re q /\ leq q (RConcat r1 r2).

(* present a term built from encodings as an encoding *)
Ltac fold_enc :=
  repeat match goal with
         | |- context [TPair (TAtom (ASym tag_emptyset)) TNil] =>
             change (TPair (TAtom (ASym tag_emptyset)) TNil) with (enc_re REmptySet)
         | |- context [TPair (TAtom (ASym tag_emptystr)) TNil] =>
             change (TPair (TAtom (ASym tag_emptystr)) TNil) with (enc_re REmptyStr)
         | |- context [TPair (TAtom (ASym tag_char)) (TPair (enc_sym ?c) TNil)] =>
             change (TPair (TAtom (ASym tag_char)) (TPair (enc_sym c) TNil)) with (enc_re (RChar c))
         | |- context [TPair (TAtom (ASym tag_or)) (TPair (enc_re ?a) (TPair (enc_re ?b) TNil))] =>
             change (TPair (TAtom (ASym tag_or)) (TPair (enc_re a) (TPair (enc_re b) TNil))) with (enc_re (ROr a b))
         | |- context [TPair (TAtom (ASym tag_concat)) (TPair (enc_re ?a) (TPair (enc_re ?b) TNil))] =>
             change (TPair (TAtom (ASym tag_concat)) (TPair (enc_re a) (TPair (enc_re b) TNil)))
               with (enc_re (RConcat a b))
         | |- context [TPair (TAtom (ASym tag_star)) (TPair (enc_re ?a) TNil)] =>
             change (TPair (TAtom (ASym tag_star)) (TPair (enc_re a) TNil)) with (enc_re (RStar a))
         end.
Ltac fold_enc_hyps :=
  repeat match goal with
         | H : context [TPair (TAtom (ASym tag_emptyset)) TNil] |- _ =>
             change (TPair (TAtom (ASym tag_emptyset)) TNil) with (enc_re REmptySet) in H
         | H : context [TPair (TAtom (ASym tag_emptystr)) TNil] |- _ =>
             change (TPair (TAtom (ASym tag_emptystr)) TNil) with (enc_re REmptyStr) in H
         | H : context [TPair (TAtom (ASym tag_char)) (TPair (enc_sym ?c) TNil)] |- _ =>
             change (TPair (TAtom (ASym tag_char)) (TPair (enc_sym c) TNil)) with (enc_re (RChar c)) in H
         | H : context [TPair (TAtom (ASym tag_or)) (TPair (enc_re ?a) (TPair (enc_re ?b) TNil))] |- _ =>
             change (TPair (TAtom (ASym tag_or)) (TPair (enc_re a) (TPair (enc_re b) TNil)))
               with (enc_re (ROr a b)) in H
         | H : context [TPair (TAtom (ASym tag_concat)) (TPair (enc_re ?a) (TPair (enc_re ?b) TNil))] |- _ =>
             change (TPair (TAtom (ASym tag_concat)) (TPair (enc_re a) (TPair (enc_re b) TNil)))
               with (enc_re (RConcat a b)) in H
         | H : context [TPair (TAtom (ASym tag_star)) (TPair (enc_re ?a) TNil)] |- _ =>
             change (TPair (TAtom (ASym tag_star)) (TPair (enc_re a) TNil)) with (enc_re (RStar a)) in H
         end.
Ltac enc_exists := fold_enc; eexists; split; [reflexivity|].

Lemma leq_or_emptyset_l r : leq r (ROr REmptySet r).
Proof. intros s. rewrite lang_or, lang_emptyset. tauto. Qed.
Lemma leq_or_emptyset_r r : leq r (ROr r REmptySet).
Proof. intros s. rewrite lang_or, lang_emptyset. tauto. Qed.

Section HelperSem.
  Variable S : nat -> list term -> Prop.

  Lemma simpleoro_sem env : Sem S simpleoro_body env -> spec_simpleor env.
  Proof.
    intros H r1 r2 H1 H2.
    unfold simpleoro_body, isnotemptyset_body, isemptyset_body, isemptystr_body, ischar_body, isor_body,
      isconcat_body, isstar_body in H.
    sem_cbn_in H. name_env env.
    sem_destruct; enc_inv; enc_exists;
      first [apply leq_refl | apply leq_or_emptyset_l | apply leq_or_emptyset_r].
  Qed.

  Lemma simpleoro_total r1 r2 : Sem S simpleoro_body [enc_re (simple_or r1 r2); enc_re r2; enc_re r1].
  Proof.
    unfold simpleoro_body, isnotemptyset_body, isemptyset_body, isemptystr_body, ischar_body, isor_body,
      isconcat_body, isstar_body.
    sem_cbn. destruct r1, r2; simpl; sem_auto fail.
  Qed.

  Lemma simpleconcato_sem env : Sem S simpleconcato_body env -> spec_simpleconcat env.
  Proof.
    intros H r1 r2 H1 H2.
    unfold simpleconcato_body, isnotempty_body, isemptyset_body, isemptystr_body, ischar_body, isor_body,
      isconcat_body, isstar_body in H.
    sem_cbn_in H. name_env env.
    sem_destruct; enc_inv; enc_exists;
      first [apply leq_refl | apply leq_concat_emptyset_l | apply leq_concat_emptyset_r
            | apply leq_concat_emptystr_l | apply leq_concat_emptystr_r].
  Qed.

  Lemma simpleconcato_total r1 r2 :
    Sem S simpleconcato_body [enc_re (simple_concat r1 r2); enc_re r2; enc_re r1].
  Proof.
    unfold simpleconcato_body, isnotempty_body, isemptyset_body, isemptystr_body, ischar_body, isor_body,
      isconcat_body, isstar_body.
    sem_cbn. destruct r1, r2; simpl; sem_auto fail.
  Qed.

  Lemma derivecharo_sem env : Sem S derivecharo_body env -> spec_deriv env.
  Proof.
    intros H r c H1 H2. unfold derivecharo_body in H. sem_cbn_in H. name_env env.
    sem_destruct; enc_inv; enc_exists;
      first [apply isderiv_char_same, leq_refl | apply isderiv_char_other; [discriminate|apply leq_refl]].
  Qed.

  Lemma derivecharo_total c d :
    Sem S derivecharo_body [enc_re (if sym_eqb c d then REmptyStr else REmptySet); enc_sym c; enc_re (RChar d)].
  Proof. unfold derivecharo_body. sem_cbn. destruct c, d; simpl; sem_auto fail. Qed.
End HelperSem.

(* ================================================================================================ *)
(* 4. the specifications are closed under the bodies *)
Create HintDb rx.
#[export] Hint Resolve isderiv_emptyset isderiv_emptystr isderiv_or isderiv_concat_null isderiv_concat_nonnull
  isderiv_star leq_refl : rx.

Section Closed.
  (* the interpretation of the calls: anything that satisfies the specifications *)
  Variable S : nat -> list term -> Prop.
  Hypothesis S0 : forall e, S nullo_idx e -> spec_nullo e.
  Hypothesis S1 : forall e, S isnullo_idx e -> spec_isnullo e.
  Hypothesis S2 : forall e, S derivo_idx e -> spec_deriv e.
  Hypothesis S3 : forall e, S sderivo_idx e -> spec_deriv e.
  Hypothesis S4 : forall e, S sderivos_idx e -> spec_derivs e.

  Ltac use_calls :=
    repeat match goal with
           | H : S 0 _ |- _ => apply S0 in H; unfold spec_nullo in H; cbn [nth] in H
           | H : S 1 _ |- _ => apply S1 in H; unfold spec_isnullo in H; cbn [nth] in H
           | H : S 2 _ |- _ => apply S2 in H; unfold spec_deriv in H; cbn [nth] in H
           | H : S 3 _ |- _ => apply S3 in H; unfold spec_deriv in H; cbn [nth] in H
           | H : S 4 _ |- _ => apply S4 in H; unfold spec_derivs in H; cbn [nth] in H
           | H : Sem S simpleoro_body _ |- _ => apply simpleoro_sem in H; unfold spec_simpleor in H; cbn [nth] in H
           | H : Sem S simpleconcato_body _ |- _ =>
               apply simpleconcato_sem in H; unfold spec_simpleconcat in H; cbn [nth] in H
           end.
  Ltac ground := repeat (enc_inv; fold_enc_hyps; try spec_inst1; sem_destruct).

  Lemma nullo_closed env : Sem S nullo_body env -> spec_nullo env.
  Proof.
    intros H r Hr. unfold nullo_body in H. sem_cbn_in H. name_env env.
    sem_destruct; use_calls; ground; simpl; try reflexivity.
    all: repeat match goal with H : nullable _ = _ |- _ => rewrite H end; simpl; try reflexivity.
    all: rewrite ?orb_true_r, ?andb_false_r; reflexivity.
  Qed.

  Lemma isnullo_closed env : Sem S isnullo_body env -> spec_isnullo env.
  Proof.
    intros H r Hr. unfold isnullo_body in H. sem_cbn_in H. name_env env.
    sem_destruct; use_calls; ground; simpl; try reflexivity.
    all: repeat match goal with H : nullable _ = _ |- _ => rewrite H end; simpl; try reflexivity.
    all: rewrite ?orb_true_r, ?andb_false_r; reflexivity.
  Qed.

  Lemma derivo_closed env : Sem S derivo_body env -> spec_deriv env.
  Proof.
    intros H r c Hr Hc. unfold derivo_body in H. sem_cbn_in H.
    sem_destruct;
      try (match goal with H : Sem S derivecharo_body _ |- _ => apply derivecharo_sem in H; exact (H r c Hr Hc) end).
    all: name_env env; use_calls; ground; enc_exists; eauto 6 with rx.
  Qed.

  Lemma sderivo_closed env : Sem S sderivo_body env -> spec_deriv env.
  Proof.
    intros H r c Hr Hc. unfold sderivo_body in H. sem_cbn_in H.
    sem_destruct;
      try (match goal with H : Sem S derivecharo_body _ |- _ => apply derivecharo_sem in H; exact (H r c Hr Hc) end).
    all: name_env env; use_calls; ground; enc_exists; eauto 6 with rx.
  Qed.

  Lemma sderivos_closed env : Sem S sderivos_body env -> spec_derivs env.
  Proof.
    intros H r s Hr Hs. unfold sderivos_body in H. sem_cbn_in H. name_env env.
    sem_destruct; use_calls; ground.
    - exists r. split; [reflexivity|]. intros t. reflexivity.
    - match goal with
      | Hd : isderiv _ _ ?q, Hq : forall t, lang ?q' t <-> lang ?q (_ ++ t) |- _ =>
          exists q'; split; [reflexivity|]; intros t; rewrite Hq; simpl; apply Hd
      end.
  Qed.
End Closed.

(* ================================================================================================ *)
(* 5. soundness: every derivable call satisfies its specification (least-fixed-point induction over the table) *)
Theorem regex_sound r env : DenCall ds r env -> regex_spec r env.
Proof.
  apply (call_lfp ds regex_spec). clear r env. intros r body env Hb HS.
  set (S := fun r e => regex_spec r e /\ DenCall ds r e) in *.
  assert (S0 : forall e, S nullo_idx e -> spec_nullo e) by (intros e [H _]; exact H).
  assert (S1 : forall e, S isnullo_idx e -> spec_isnullo e) by (intros e [H _]; exact H).
  assert (S2 : forall e, S derivo_idx e -> spec_deriv e) by (intros e [H _]; exact H).
  assert (S3 : forall e, S sderivo_idx e -> spec_deriv e) by (intros e [H _]; exact H).
  assert (S4 : forall e, S sderivos_idx e -> spec_derivs e) by (intros e [H _]; exact H).
  destruct r as [|[|[|[|[|r]]]]]; cbn in Hb; try (destruct r; discriminate Hb);
    injection Hb as <-; cbn [regex_spec].
  - eapply nullo_closed; eassumption.
  - eapply isnullo_closed; eassumption.
  - eapply derivo_closed; eassumption.
  - eapply sderivo_closed; eassumption.
  - eapply sderivos_closed; eassumption.
Qed.
Print Assumptions regex_sound.
