(* rewrite as generated from gomini/unify.go (gen/GominiGen.v) is the transcription GCore.grewrite.  Kept apart from
   GominiGenSpec.v so that a change to rewrite does not take the obligations of C04 (unify) with it. *)
From Coq Require Import List NArith ZArith Bool Lia.
From GMK Require Import Term Unify UnifySpec UnifyWf UnifyTotal Reflect ReflectSpec GCore GCoreSpec GoLite GoLiteG gen.GominiGen GominiGenSpec.
Import ListNotations.

Lemma map_loopR_spec (g : gval -> R gval) (h : gval -> option gval) :
  (forall e, g e = of_optg (h e)) -> forall l, map_loopR g l = of_optg (map_loopM h l).
Proof.
  intros H. induction l as [|sl l IH]; [reflexivity|]. cbn [map_loopR map_loopM]. rewrite H, IH.
  destruct (h (unwrap sl)); cbn; [|reflexivity]. destruct (map_loopM h l); reflexivity.
Qed.
Lemma map_entriesR_spec (g : gval -> R gval) (h : gval -> option gval) :
  (forall e, g e = of_optg (h e)) -> forall l, map_entriesR g l = of_optg (map_entriesM h l).
Proof.
  intros H. induction l as [|[k sl] l IH]; [reflexivity|]. cbn [map_entriesR map_entriesM]. rewrite H, IH.
  destruct (h (unwrap sl)); cbn; [|reflexivity]. destruct (map_entriesM h l); reflexivity.
Qed.
Lemma rmapR_spec (g : gval -> R gval) (h : gval -> option gval) :
  (forall e, g e = of_optg (h e)) -> forall x, rmapR g x = of_optg (rmapM h x).
Proof.
  intros H x. unfold rmapR, rmapM. destruct (is_nil x); [reflexivity|].
  destruct x; try reflexivity.
  - rewrite (map_loopR_spec g h H). destruct (map_loopM h fields); reflexivity.
  - destruct isnil; [reflexivity|]. rewrite (map_loopR_spec g h H). destruct (map_loopM h elems); reflexivity.
  - destruct isnil; [reflexivity|]. rewrite (map_entriesR_spec g h H). destruct (map_entriesM h entries); reflexivity.
Qed.

Lemma gm_rewrite_spec : forall f x s, gm_rewrite f x s = of_optg (grewrite f x s).
Proof.
  induction f as [|f IH]; intros x s; [reflexivity|].
  cbn [gm_rewrite grewrite]. rewrite gm_walk_spec. destruct (gwalk f x s) as [x'|]; [|reflexivity]. cbn [of_optg bind].
  unfold cast_var2. destruct (cast_var x') as [j|]; [reflexivity|].
  apply rmapR_spec. intros e. apply IH.
Qed.

Theorem gm_rewrite_never_panics : forall f x s, gm_rewrite f x s <> Panic.
Proof. intros f x s. rewrite gm_rewrite_spec. destruct (grewrite f x s); discriminate. Qed.

Theorem gm_rewrite_resolved : forall f x s r,
  wfb x = true -> gwf_sub s -> gm_rewrite f x s = Ret r ->
  forall y, subval r y -> forall i, cast_var y = Some i -> gassv i s = None.
Proof.
  intros f x s r Hx Hs H. rewrite gm_rewrite_spec in H. destruct (grewrite f x s) as [r'|] eqn:E; [|discriminate].
  inversion H; subst r'. exact (grewrite_resolved f x s r Hx Hs E).
Qed.
