(* Correspondence for goal programs (C02 C03 C08 C09 C13 C19): the implementation's cell trace against the model's. *)
From Coq Require Import List NArith ZArith Bool.
From GMK Require Import Term Unify Goal Stream CorrBase Corr01.
Import ListNotations.

(* constant unify fuel for evaluation inside Coq (the theorems use the proved-sufficient ufuel; a case in which
   400 is not enough shows up as EvErr and is reported as a mismatch, never silently accepted) *)
Definition uf400 : term -> term -> subst -> nat := fun _ _ _ => 400%nat.

Inductive obs := OS | OA (s : subst) (c : N) | ONil | OBudget | ODiverge.

Fixpoint insert_binding (p : N * term) (l : subst) : subst :=
  match l with
  | [] => [p]
  | q :: l' => if N.leb (fst p) (fst q) then p :: l else q :: insert_binding p l'
  end.
(* bindings as a map: first binding of a key wins (assv), sorted by key *)
Fixpoint dedup_keys (seen : list N) (l : subst) : subst :=
  match l with
  | [] => []
  | p :: l' => if existsb (N.eqb (fst p)) seen then dedup_keys seen l' else p :: dedup_keys (fst p :: seen) l'
  end.
Definition sort_subst (l : subst) : subst := fold_right insert_binding [] (dedup_keys [] l).

Definition obs_eqb (a b : obs) : bool :=
  match a, b with
  | OS, OS | ONil, ONil | OBudget, OBudget | ODiverge, ODiverge => true
  | OA s c, OA s' c' => subst_eqb s s' && N.eqb c c'
  | _, _ => false
  end.

Definition ev2obs (ev : event) : obs :=
  match ev with
  | EvS => OS
  | EvA st => OA (sort_subst (sub st)) (ctr st)
  | EvNil => ONil
  | EvErr => ODiverge
  | EvBudget => OBudget
  end.

(* a program case: relation table, goal, number of query variables (environment = the query variables,
   state = empty substitution with the counter after them), force budget, observed trace *)
Inductive caseP := CaseP (ds : defs) (g : goal) (nq : nat) (budget : nat) (o : list obs).

Fixpoint query_env (k : nat) : env := match k with O => [] | S k' => TVar (N.of_nat k') :: query_env k' end.

Definition model_trace (ds : defs) (g : goal) (nq budget : nat) : list obs :=
  map ev2obs (trace ds uf400 budget (eval ds uf400 g (query_env nq) (mkSt [] (N.of_nat nq)))).

Definition checkP (c : caseP) : bool :=
  match c with CaseP ds g nq b o => list_eqb obs_eqb (model_trace ds g nq b) o end.
