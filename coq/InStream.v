(* Membership in lazy streams: inversion and fairness lemmas for mplus / bindk / once_loop / ifte_loop.
   Obs o n s is the common generalisation of InStreamN (o = Some x) and "an error is reached" (o = None),
   counting forces. *)
From Coq Require Import List NArith ZArith Bool Lia Arith.
From GMK Require Import Term Unify UnifySpec UnifyWf UnifyTotal Goal Stream Den.
Import ListNotations.

Section Mem.
  Variable ds : defs.
  Variable uf : term -> term -> subst -> nat.

  Notation force := (force ds uf).
  Notation eval := (eval ds uf).
  Notation InS := (InStream ds uf).
  Notation InSN := (InStreamN ds uf).
  Notation RErr := (ReachErr ds uf).

  (* ---------- observations: a member (Some x) or an error (None), within n forces ---------- *)

  Inductive Obs (o : option state) : nat -> stream -> Prop :=
  | Obs_here n x tl : o = Some x -> Obs o n (SCons x tl)
  | Obs_err n : o = None -> Obs o n SErr
  | Obs_later n a tl : Obs o n tl -> Obs o n (SCons a tl)
  | Obs_force n th : Obs o n (force th) -> Obs o (S n) (SSusp th).

  Lemma Obs_nil_inv o n : Obs o n SNil -> False.
  Proof. inversion 1. Qed.

  Lemma Obs_cons_inv o n a tl : Obs o n (SCons a tl) -> o = Some a \/ Obs o n tl.
  Proof. inversion 1; subst; auto. Qed.

  Lemma Obs_susp_inv o n th : Obs o n (SSusp th) -> exists n', n = S n' /\ Obs o n' (force th).
  Proof. inversion 1; subst; eauto. Qed.

  Lemma Obs_err_inv o n : Obs o n SErr -> o = None.
  Proof. inversion 1; auto. Qed.

  Lemma Obs_mono o n s : Obs o n s -> forall m, n <= m -> Obs o m s.
  Proof.
    induction 1 as [n x tl E | n E | n c tl H IH | n th H IH]; intros m L.
    - apply Obs_here. exact E.
    - apply Obs_err. exact E.
    - apply Obs_later. apply IH. exact L.
    - destruct m as [|m]; [lia|]. apply Obs_force. apply IH. lia.
  Qed.

  Lemma Obs_InSN x n s : Obs (Some x) n s <-> InSN x n s.
  Proof.
    split.
    - induction 1 as [n y tl E | n E | n c tl H IH | n th H IH].
      + inversion E; subst. constructor.
      + discriminate.
      + constructor. exact IH.
      + constructor. exact IH.
    - induction 1 as [n tl | n a tl H IH | n th H IH].
      + apply Obs_here. reflexivity.
      + apply Obs_later. exact IH.
      + apply Obs_force. exact IH.
  Qed.

  Lemma Obs_RErr s : (exists n, Obs None n s) <-> RErr s.
  Proof.
    split.
    - intros [n H]. remember (@None state) as o eqn:Eo.
      induction H as [n y tl E | n E | n c tl H IH | n th H IH].
      + congruence.
      + constructor.
      + constructor. auto.
      + constructor. auto.
    - induction 1 as [| a tl H IH | th H IH].
      + exists O. apply Obs_err. reflexivity.
      + destruct IH as [n Hn]. exists n. apply Obs_later. exact Hn.
      + destruct IH as [n Hn]. exists (S n). apply Obs_force. exact Hn.
  Qed.

  (* A.4 *)
  Lemma InSN_mono x n s : InSN x n s -> forall m, n <= m -> InSN x m s.
  Proof. intros H m L. apply Obs_InSN. eapply Obs_mono; [apply Obs_InSN; exact H|exact L]. Qed.

  Lemma InS_InSN x s : InS x s <-> exists n, InSN x n s.
  Proof.
    split.
    - induction 1 as [tl | a tl H IH | th H IH].
      + exists O. constructor.
      + destruct IH as [n Hn]. exists n. constructor. exact Hn.
      + destruct IH as [n Hn]. exists (S n). constructor. exact Hn.
    - intros [n H]. induction H as [n tl | n a tl H IH | n th H IH].
      + constructor.
      + constructor. exact IH.
      + constructor. exact IH.
  Qed.

  Lemma InS_Obs x s : InS x s <-> exists n, Obs (Some x) n s.
  Proof.
    rewrite InS_InSN. split; intros [n H]; exists n; apply Obs_InSN; exact H.
  Qed.

  (* ---------- A.1 inversion for mplus ---------- *)

  Lemma Obs_mplus_inv' o n s : Obs o n s -> forall a b, s = mplus a b -> Obs o n a \/ Obs o n b.
  Proof.
    induction 1 as [n x tl E | n E | n c tl H IH | n th H IH]; intros a b Es.
    - destruct a as [|a0 a'|ta|]; simpl in Es; try discriminate.
      + subst b. right. apply Obs_here. exact E.
      + inversion Es; subst. left. apply Obs_here. reflexivity.
    - destruct a as [|a0 a'|ta|]; simpl in Es; try discriminate.
      + subst b. right. apply Obs_err. exact E.
      + left. apply Obs_err. exact E.
    - destruct a as [|a0 a'|ta|]; simpl in Es; try discriminate.
      + subst b. right. apply Obs_later. exact H.
      + inversion Es; subst. destruct (IH a' b eq_refl) as [I|I].
        * left. apply Obs_later. exact I.
        * right. exact I.
    - destruct a as [|a0 a'|ta|]; simpl in Es; try discriminate.
      + subst b. right. apply Obs_force. exact H.
      + inversion Es; subst. simpl in IH. destruct (IH b (force ta) eq_refl) as [I|I].
        * right. apply (Obs_mono o n b I). lia.
        * left. apply Obs_force. exact I.
  Qed.

  Lemma Obs_mplus_inv o n a b : Obs o n (mplus a b) -> Obs o n a \/ Obs o n b.
  Proof. intros H. eapply Obs_mplus_inv'; eauto. Qed.

  Lemma InSN_mplus_inv x n a b : InSN x n (mplus a b) -> InSN x n a \/ InSN x n b.
  Proof.
    intros H. apply Obs_InSN in H. apply Obs_mplus_inv in H.
    destruct H as [H|H]; [left|right]; apply Obs_InSN; exact H.
  Qed.

  (* the form asked for; the bound m <= n is in fact attained with m = n by monotonicity *)
  Lemma InSN_mplus_inv_le x n a b : InSN x n (mplus a b) ->
    exists m, m <= n /\ (InSN x m a \/ InSN x m b).
  Proof. intros H. exists n. split; [lia|]. apply InSN_mplus_inv. exact H. Qed.

  Lemma InS_mplus_inv x a b : InS x (mplus a b) -> InS x a \/ InS x b.
  Proof.
    intros H. apply InS_InSN in H. destruct H as [n H]. apply InSN_mplus_inv in H.
    destruct H as [H|H]; [left|right]; apply InS_InSN; eauto.
  Qed.

  Lemma RErr_mplus_inv a b : RErr (mplus a b) -> RErr a \/ RErr b.
  Proof.
    intros H. apply Obs_RErr in H. destruct H as [n H]. apply Obs_mplus_inv in H.
    destruct H as [H|H]; [left|right]; apply Obs_RErr; eauto.
  Qed.

  (* ---------- errors always propagate through mplus (both sides) ---------- *)

  Lemma RErr_nil : ~ RErr SNil.
  Proof. inversion 1. Qed.
  Lemma RErr_cons_inv a tl : RErr (SCons a tl) -> RErr tl.
  Proof. inversion 1; auto. Qed.
  Lemma RErr_susp_inv th : RErr (SSusp th) -> RErr (force th).
  Proof. inversion 1; auto. Qed.

  Lemma RErr_mplus_both s : RErr s -> forall p, RErr (mplus s p) /\ RErr (mplus p s).
  Proof.
    induction 1 as [| a tl H IH | th H IH]; intros p.
    - split; [simpl; constructor|].
      induction p as [|b p IHp|t|]; simpl.
      + constructor.
      + constructor. exact IHp.
      + constructor. simpl. constructor.
      + constructor.
    - split; [simpl; constructor; apply (proj1 (IH p))|].
      induction p as [|b p IHp|t|]; simpl.
      + constructor. exact H.
      + constructor. exact IHp.
      + constructor. simpl. constructor. apply (proj1 (IH (force t))).
      + constructor.
    - split.
      + simpl. constructor. simpl. apply (proj2 (IH p)).
      + induction p as [|b p IHp|t|]; simpl.
        * constructor. exact H.
        * constructor. exact IHp.
        * constructor. simpl. constructor. simpl. apply (proj2 (IH (force t))).
        * constructor.
  Qed.

  Lemma RErr_mplus a b : RErr (mplus a b) <-> RErr a \/ RErr b.
  Proof.
    split; [apply RErr_mplus_inv|].
    intros [H|H]; [apply (proj1 (RErr_mplus_both a H b))|apply (proj2 (RErr_mplus_both b H a))].
  Qed.

  Lemma not_RErr_mplus a b : ~ RErr (mplus a b) <-> ~ RErr a /\ ~ RErr b.
  Proof. rewrite RErr_mplus. tauto. Qed.

  (* ---------- A.2 fairness of mplus ---------- *)

  Lemma InS_mplus_both x s : InS x s -> forall p, ~ RErr p -> InS x (mplus s p) /\ InS x (mplus p s).
  Proof.
    induction 1 as [tl | a tl H IH | th H IH]; intros p Hp.
    - split; [simpl; constructor|].
      induction p as [|b p IHp|t|]; simpl.
      + constructor.
      + constructor. apply IHp. intros E. apply Hp. constructor. exact E.
      + constructor. simpl. constructor.
      + exfalso. apply Hp. constructor.
    - split; [simpl; constructor; apply (proj1 (IH p Hp))|].
      induction p as [|b p IHp|t|]; simpl.
      + constructor. exact H.
      + constructor. apply IHp. intros E. apply Hp. constructor. exact E.
      + constructor. simpl. constructor. apply IH.
        intros E. apply Hp. constructor. exact E.
      + exfalso. apply Hp. constructor.
    - split.
      + simpl. constructor. simpl. apply (proj2 (IH p Hp)).
      + induction p as [|b p IHp|t|]; simpl.
        * constructor. exact H.
        * constructor. apply IHp. intros E. apply Hp. constructor. exact E.
        * constructor. simpl. constructor. simpl. apply IH.
          intros E. apply Hp. constructor. exact E.
        * exfalso. apply Hp. constructor.
  Qed.

  Lemma InS_mplus_l x a b : InS x a -> ~ RErr b -> InS x (mplus a b).
  Proof. intros H Hb. apply (proj1 (InS_mplus_both x a H b Hb)). Qed.
  Lemma InS_mplus_r x a b : InS x b -> ~ RErr a -> InS x (mplus a b).
  Proof. intros H Ha. apply (proj2 (InS_mplus_both x b H a Ha)). Qed.

  Theorem InS_mplus x a b : ~ RErr a -> ~ RErr b -> (InS x (mplus a b) <-> InS x a \/ InS x b).
  Proof.
    intros Ha Hb. split; [apply InS_mplus_inv|].
    intros [H|H]; [apply InS_mplus_l|apply InS_mplus_r]; assumption.
  Qed.

  (* ---------- A.3 bind ---------- *)

  Section Bind.
    Variable k : state -> stream.
    Variable mk : thunk -> thunk.
    Hypothesis Hmk : forall th, force (mk th) = bindk k mk (force th).

    Lemma Obs_bind_inv o : forall n s, Obs o n (bindk k mk s) ->
      (o = None /\ Obs o n s) \/ exists a, Obs (Some a) n s /\ Obs o n (k a).
    Proof.
      induction n as [|n IHn]; induction s as [|a tl IHs|th|]; simpl; intros H.
      - exfalso. eapply Obs_nil_inv; eauto.
      - apply Obs_mplus_inv in H. destruct H as [H|H].
        + right. exists a. split; [apply Obs_here; reflexivity|exact H].
        + destruct (IHs H) as [[E I]|[a' [I1 I2]]].
          * left. split; [exact E|apply Obs_later; exact I].
          * right. exists a'. split; [apply Obs_later; exact I1|exact I2].
      - apply Obs_susp_inv in H. destruct H as [n' [E _]]. discriminate.
      - left. split; [eapply Obs_err_inv; eauto|exact H].
      - exfalso. eapply Obs_nil_inv; eauto.
      - apply Obs_mplus_inv in H. destruct H as [H|H].
        + right. exists a. split; [apply Obs_here; reflexivity|exact H].
        + destruct (IHs H) as [[E I]|[a' [I1 I2]]].
          * left. split; [exact E|apply Obs_later; exact I].
          * right. exists a'. split; [apply Obs_later; exact I1|exact I2].
      - apply Obs_susp_inv in H. destruct H as [n' [E H]]. inversion E; subst n'. clear E.
        rewrite Hmk in H. destruct (IHn _ H) as [[E I]|[a' [I1 I2]]].
        + left. split; [exact E|apply Obs_force; exact I].
        + right. exists a'. split; [apply Obs_force; exact I1|].
          apply (Obs_mono o n _ I2). lia.
      - left. split; [eapply Obs_err_inv; eauto|exact H].
    Qed.

    Lemma InSN_bind_inv x n s : InSN x n (bindk k mk s) ->
      exists a, InSN a n s /\ InSN x n (k a).
    Proof.
      intros H. apply Obs_InSN in H. apply Obs_bind_inv in H.
      destruct H as [[E _]|[a [I1 I2]]]; [discriminate|].
      exists a. split; apply Obs_InSN; assumption.
    Qed.

    Lemma InS_bind_inv x s : InS x (bindk k mk s) -> exists a, InS a s /\ InS x (k a).
    Proof.
      intros H. apply InS_InSN in H. destruct H as [n H]. apply InSN_bind_inv in H.
      destruct H as [a [I1 I2]]. exists a. split; apply InS_InSN; eauto.
    Qed.

    Lemma RErr_bind_inv s : RErr (bindk k mk s) -> RErr s \/ exists a, InS a s /\ RErr (k a).
    Proof.
      intros H. apply Obs_RErr in H. destruct H as [n H]. apply Obs_bind_inv in H.
      destruct H as [[_ I]|[a [I1 I2]]].
      - left. apply Obs_RErr. eauto.
      - right. exists a. split; [apply InS_Obs; eauto|apply Obs_RErr; eauto].
    Qed.

    (* errors of the source stream propagate *)
    Lemma RErr_bind_src s : RErr s -> RErr (bindk k mk s).
    Proof.
      induction 1 as [| a tl H IH | th H IH]; simpl.
      - constructor.
      - apply RErr_mplus. right. exact IH.
      - constructor. rewrite Hmk. exact IH.
    Qed.

    (* errors of the continuation at a member propagate *)
    Lemma RErr_bind_k a s : InS a s -> RErr (k a) -> RErr (bindk k mk s).
    Proof.
      induction 1 as [tl | b tl H IH | th H IH]; intros Hk; simpl.
      - apply RErr_mplus. left. exact Hk.
      - apply RErr_mplus. right. apply IH. exact Hk.
      - constructor. rewrite Hmk. apply IH. exact Hk.
    Qed.

    (* fairness of bind: the only side condition is that the bind itself reaches no error *)
    Lemma InS_bind x a s : InS a s -> InS x (k a) -> ~ RErr (bindk k mk s) -> InS x (bindk k mk s).
    Proof.
      induction 1 as [tl | b tl H IH | th H IH]; intros Hx Hne; simpl in *.
      - apply not_RErr_mplus in Hne. destruct Hne as [_ Hne]. apply InS_mplus_l; assumption.
      - apply not_RErr_mplus in Hne. destruct Hne as [Hb Hne]. apply InS_mplus_r; [|exact Hb].
        apply IH; assumption.
      - constructor. rewrite Hmk. apply IH; [exact Hx|].
        intros E. apply Hne. constructor. rewrite Hmk. exact E.
    Qed.

    Lemma InS_bind' x a s : InS a s -> InS x (k a) -> ~ RErr s ->
      (forall b, InS b s -> ~ RErr (k b)) -> InS x (bindk k mk s).
    Proof.
      intros Ha Hx Hs Hk. apply (InS_bind x a s Ha Hx). intros E.
      apply RErr_bind_inv in E. destruct E as [E|[b [Hb E]]]; [auto|]. apply (Hk b Hb E).
    Qed.
  End Bind.

  (* the instance used by eval / force *)
  Lemma force_TBind g e th :
    force (TBind th g e) = bindk (fun a => eval g e a) (fun th' => TBind th' g e) (force th).
  Proof. reflexivity. Qed.

  (* ---------- once ---------- *)

  Lemma Obs_once_inv o : forall n s, Obs o n (once_loop s) -> Obs o n s.
  Proof.
    induction n as [|n IHn]; destruct s as [|a tl|th|]; simpl; intros H; auto.
    - apply Obs_cons_inv in H. destruct H as [E|H]; [apply Obs_here; exact E|].
      exfalso. eapply Obs_nil_inv; eauto.
    - apply Obs_susp_inv in H. destruct H as [n' [E _]]. discriminate.
    - apply Obs_cons_inv in H. destruct H as [E|H]; [apply Obs_here; exact E|].
      exfalso. eapply Obs_nil_inv; eauto.
    - apply Obs_susp_inv in H. destruct H as [n' [E H]]. inversion E; subst n'.
      apply Obs_force. apply IHn. exact H.
  Qed.

  (* ---------- if-then-else ---------- *)

  Definition ifte_loop (s : stream) (t el : goal) (e : env) (st : state) : stream :=
    match s with
    | SNil => eval el e st
    | SCons a tl => bindk (fun a => eval t e a) (fun th => TBind th t e) (SCons a tl)
    | SSusp th => SSusp (TIfte th t el e st)
    | SErr => SErr
    end.

  Lemma eval_GIfte c t el e st : eval (GIfte c t el) e st = ifte_loop (eval c e st) t el e st.
  Proof. reflexivity. Qed.

  Lemma force_TIfte th t el e st : force (TIfte th t el e st) = ifte_loop (force th) t el e st.
  Proof. reflexivity. Qed.

  Lemma Obs_ifte_inv o t el e st : forall n s, Obs o n (ifte_loop s t el e st) ->
    (o = None /\ Obs o n s) \/
    (exists a, Obs (Some a) n s /\ Obs o n (eval t e a)) \/
    Obs o n (eval el e st).
  Proof.
    assert (Hb: forall n s, Obs o n (bindk (fun a => eval t e a) (fun th => TBind th t e) s) ->
              (o = None /\ Obs o n s) \/ (exists a, Obs (Some a) n s /\ Obs o n (eval t e a))).
    { intros n s H. apply Obs_bind_inv in H; [exact H|]. intros th. reflexivity. }
    induction n as [|n IHn]; destruct s as [|a tl|th|]; unfold ifte_loop; intros H.
    - right. right. exact H.
    - apply Hb in H. destruct H as [H|H]; auto.
    - apply Obs_susp_inv in H. destruct H as [n' [E _]]. discriminate.
    - left. split; [eapply Obs_err_inv; eauto|exact H].
    - right. right. exact H.
    - apply Hb in H. destruct H as [H|H]; auto.
    - apply Obs_susp_inv in H. destruct H as [n' [E H]]. inversion E; subst n'. clear E.
      rewrite force_TIfte in H. destruct (IHn _ H) as [[E I]|[[a [I1 I2]]|I]].
      + left. split; [exact E|apply Obs_force; exact I].
      + right. left. exists a. split; [apply Obs_force; exact I1|]. apply (Obs_mono o n _ I2). lia.
      + right. right. apply (Obs_mono o n _ I). lia.
    - left. split; [eapply Obs_err_inv; eauto|exact H].
  Qed.

  (* ---------- take ---------- *)

  Lemma take_sound : forall f n s l, take ds uf f n s = Some l -> forall x, In x l -> InS x s.
  Proof.
    induction f as [|f IH]; simpl; intros n s l H x Hx; [discriminate|].
    destruct (Z.eqb n 0).
    - inversion H; subst. contradiction.
    - destruct s as [|a tl|th|].
      + inversion H; subst. contradiction.
      + destruct (take ds uf f (n - 1) tl) as [l'|] eqn:E; simpl in H; [|discriminate].
        inversion H; subst. destruct Hx as [Hx|Hx].
        * subst. constructor.
        * constructor. eapply IH; eauto.
      + constructor. eapply IH; eauto.
      + discriminate.
  Qed.

  Lemma take_complete x s : InS x s ->
    exists f n l, (0 < n)%Z /\ take ds uf f n s = Some l /\ In x l.
  Proof.
    induction 1 as [tl | a tl H IH | th H IH].
    - exists 2, 1%Z, [x]. split; [lia|]. split; [reflexivity|left; reflexivity].
    - destruct IH as [f [n [l [Hn [Ht Hl]]]]].
      exists (S f), (n + 1)%Z, (a :: l). split; [lia|]. split; [|right; exact Hl].
      simpl. destruct (Z.eqb_spec (n + 1) 0) as [E|E]; [lia|].
      replace (n + 1 - 1)%Z with n by lia. rewrite Ht. reflexivity.
    - destruct IH as [f [n [l [Hn [Ht Hl]]]]].
      exists (S f), n, l. split; [exact Hn|]. split; [|exact Hl].
      simpl. destruct (Z.eqb_spec n 0) as [E|E]; [lia|]. exact Ht.
  Qed.
End Mem.

Print Assumptions InS_mplus.
Print Assumptions InS_bind.
Print Assumptions Obs_bind_inv.
Print Assumptions take_complete.
