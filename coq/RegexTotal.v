(* gomini/regex (C17), second half: the relations HAVE the answers the functions compute (totality / completeness on
   ground input), and the end-to-end statements about NullO, IsNullO, DerivO, SDerivO, SDerivOs, MatchO, IsMatchO.
   The bodies are the GENERATED terms of gen/RelRegex.v; they are unfolded, never copied. *)
From Coq Require Import Ascii String.
From Coq Require Import List NArith ZArith Bool Lia Arith Setoid Morphisms.
From GMK Require Import Term Unify UnifyTotal Goal Stream Den InStream Sound Complete ListRel RegexLang RegexSpec.
From GMK.gen Require Import RelRegex.
Import ListNotations.

Notation ds := regex_defs.
Notation DC := (DenCall regex_defs).

Lemma dc_intro r body env : ds r = Some body -> Sem DC body env -> DC r env.
Proof. intros Hb H. exists body. split; [exact Hb|]. apply sem_den. exact H. Qed.

Ltac sem_cbn := cbn [Sem close nth arg_env rev map app].

(* ---------- NullO ---------- *)
Lemma nullo_total r : DC nullo_idx [enc_re (if nullable r then REmptyStr else REmptySet); enc_re r].
Proof.
  induction r as [| |c|a IHa b IHb|a IHa b IHb|a IHa]; (eapply dc_intro; [reflexivity|]);
    unfold nullo_body; sem_cbn; cbn [nullable enc_re].
  - sem_auto fail.
  - sem_auto fail.
  - sem_auto fail.
  - destruct (nullable a), (nullable b); cbn [orb]; sem_auto ltac:(first [exact IHa|exact IHb]).
  - destruct (nullable a), (nullable b); cbn [andb]; sem_auto ltac:(first [exact IHa|exact IHb]).
  - sem_auto fail.
Qed.

Lemma isnullo_total r : nullable r = true -> DC isnullo_idx [enc_re r].
Proof.
  induction r as [| |c|a IHa b IHb|a IHa b IHb|a IHa]; cbn [nullable]; intros Hn; try discriminate Hn;
    (eapply dc_intro; [reflexivity|]); unfold isnullo_body; sem_cbn; cbn [enc_re].
  - sem_auto fail.
  - apply orb_true_iff in Hn. destruct Hn as [Hn|Hn];
      [specialize (IHa Hn)|specialize (IHb Hn)]; sem_auto ltac:(first [exact IHa|exact IHb]).
  - apply andb_true_iff in Hn. destruct Hn as [Ha Hb]. specialize (IHa Ha). specialize (IHb Hb).
    sem_auto ltac:(first [exact IHa|exact IHb]).
  - sem_auto fail.
Qed.

Lemma nullo_false r : nullable r = false -> DC nullo_idx [enc_re REmptySet; enc_re r].
Proof. intros H. pose proof (nullo_total r) as T. rewrite H in T. exact T. Qed.

(* ---------- DerivO ---------- *)
Lemma derivo_total c r : DC derivo_idx [enc_re (deriv c r); enc_sym c; enc_re r].
Proof.
  induction r as [| |d|a IHa b IHb|a IHa b IHb|a IHa]; (eapply dc_intro; [reflexivity|]);
    unfold derivo_body; sem_cbn; cbn [deriv enc_re].
  - sem_auto fail.
  - sem_auto fail.
  - right. right. left. apply (derivecharo_total DC c d).
  - sem_auto ltac:(first [exact IHa|exact IHb]).
  - destruct (nullable a) eqn:Hn; cbn [enc_re].
    + pose proof (isnullo_total a Hn) as Hi. sem_auto ltac:(first [exact IHa|exact IHb|exact Hi]).
    + pose proof (nullo_false a Hn) as Hi. sem_auto ltac:(first [exact IHa|exact IHb|exact Hi]).
  - sem_auto ltac:(exact IHa).
Qed.

(* ---------- SDerivO ---------- *)
Lemma sderivo_total c r : DC sderivo_idx [enc_re (sderiv c r); enc_sym c; enc_re r].
Proof.
  induction r as [| |d|a IHa b IHb|a IHa b IHb|a IHa]; (eapply dc_intro; [reflexivity|]);
    unfold sderivo_body; sem_cbn; cbn [sderiv].
  - cbn [enc_re]. sem_auto fail.
  - cbn [enc_re]. sem_auto fail.
  - right. right. left. apply (derivecharo_total DC c d).
  - pose proof (simpleoro_total DC (sderiv c a) (sderiv c b)) as Ho.
    do 3 right. left. exists (enc_re a), (enc_re (sderiv c a)), (enc_re b), (enc_re (sderiv c b)).
    sem_cbn. repeat split; try reflexivity; first [exact IHa|exact IHb|exact Ho].
  - pose proof (simpleconcato_total DC (sderiv c a) b) as Hc.
    do 4 right. left. exists (enc_re a), (enc_re (sderiv c a)), (enc_re b), (enc_re (simple_concat (sderiv c a) b)).
    sem_cbn. split; [reflexivity|]. split; [exact IHa|]. split; [exact Hc|]. split; [|exact I].
    destruct (nullable a) eqn:Hn.
    + left. exists (enc_re (sderiv c b)). sem_cbn.
      split; [exact (isnullo_total a Hn)|]. split; [exact IHb|]. split; [reflexivity|exact I].
    + right. left. split; [exact (nullo_false a Hn)|]. split; [reflexivity|exact I].
  - pose proof (simpleconcato_total DC (sderiv c a) (RStar a)) as Hc.
    do 5 right. left. exists (enc_re a), (enc_re (sderiv c a)). sem_cbn.
    split; [reflexivity|]. split; [exact IHa|]. split; [exact Hc|exact I].
Qed.

(* ---------- SDerivOs ---------- *)
Lemma sderivos_total s : forall r, DC sderivos_idx [enc_re (sderivs r s); enc_str s; enc_re r].
Proof.
  induction s as [|c s IH]; intros r; (eapply dc_intro; [reflexivity|]); unfold sderivos_body; sem_cbn;
    cbn [enc_str].
  - left. repeat split; reflexivity.
  - right. left. exists (enc_sym c), (enc_str s), (enc_re (sderiv c r)). sem_cbn.
    split; [reflexivity|]. split; [exact (sderivo_total c r)|]. split; [|exact I].
    exact (IH (sderiv c r)).
Qed.

Lemma sderivs_matches r s : nullable (sderivs r s) = matches r s.
Proof.
  unfold matches. apply eq_true_iff_eq. rewrite !nullable_spec.
  rewrite (sderivs_spec s r []), (derivs_spec s r []). reflexivity.
Qed.

(* ================================================================================================ *)
(* end-to-end statements; `ve` is the reading of the environment, the regular expression and the string are ground *)

Theorem nullo_den x o ve r : close ve x = enc_re r ->
  (Den ds (GCall nullo_idx [x; o]) ve <-> close ve o = enc_re (if nullable r then REmptyStr else REmptySet)).
Proof.
  intros Hx. rewrite den_call_iff. unfold arg_env. cbn [map rev app]. split.
  - intros H. apply regex_sound in H. exact (H r Hx).
  - intros Ho. rewrite Hx, Ho. apply nullo_total.
Qed.

Theorem isnullo_den x ve r : close ve x = enc_re r ->
  (Den ds (GCall isnullo_idx [x]) ve <-> lang r []).
Proof.
  intros Hx. rewrite den_call_iff, <- nullable_spec. unfold arg_env. cbn [map rev app]. split.
  - intros H. apply regex_sound in H. exact (H r Hx).
  - intros Hn. rewrite Hx. apply isnullo_total. exact Hn.
Qed.

(* every answer of DerivO denotes the derivative; the textbook derivative is an answer *)
Theorem derivo_den x ch d ve r c : close ve x = enc_re r -> close ve ch = enc_sym c ->
  (Den ds (GCall derivo_idx [x; ch; d]) ve ->
     exists q, close ve d = enc_re q /\ forall s, lang q s <-> lang r (c :: s)) /\
  (close ve d = enc_re (deriv c r) -> Den ds (GCall derivo_idx [x; ch; d]) ve).
Proof.
  intros Hx Hc. rewrite den_call_iff. unfold arg_env. cbn [map rev app]. split.
  - intros H. apply regex_sound in H. exact (H r c Hx Hc).
  - intros Hd. rewrite Hx, Hc, Hd. apply derivo_total.
Qed.

Theorem sderivo_den x ch d ve r c : close ve x = enc_re r -> close ve ch = enc_sym c ->
  (Den ds (GCall sderivo_idx [x; ch; d]) ve ->
     exists q, close ve d = enc_re q /\ forall s, lang q s <-> lang r (c :: s)) /\
  (close ve d = enc_re (sderiv c r) -> Den ds (GCall sderivo_idx [x; ch; d]) ve).
Proof.
  intros Hx Hc. rewrite den_call_iff. unfold arg_env. cbn [map rev app]. split.
  - intros H. apply regex_sound in H. exact (H r c Hx Hc).
  - intros Hd. rewrite Hx, Hc, Hd. apply sderivo_total.
Qed.

Theorem sderivos_den x st d ve r s : close ve x = enc_re r -> close ve st = enc_str s ->
  (Den ds (GCall sderivos_idx [x; st; d]) ve ->
     exists q, close ve d = enc_re q /\ forall t, lang q t <-> lang r (s ++ t)) /\
  (close ve d = enc_re (sderivs r s) -> Den ds (GCall sderivos_idx [x; st; d]) ve).
Proof.
  intros Hx Hc. rewrite den_call_iff. unfold arg_env. cbn [map rev app]. split.
  - intros H. apply regex_sound in H. exact (H r s Hx Hc).
  - intros Hd. rewrite Hx, Hc, Hd. apply sderivos_total.
Qed.

(* IsMatchO(r, s) has an answer exactly when s is in the language of r *)
Theorem ismatcho_den x st ve r s : close ve x = enc_re r -> close ve st = enc_str s ->
  (Den ds (GLet [x; st] ismatcho_body) ve <-> lang r s).
Proof.
  intros Hx Hs. rewrite <- sem_den. unfold ismatcho_body. sem_cbn. rewrite Hx, Hs. split.
  - intros [t [H4 [H1 _]]]. apply regex_sound in H4, H1.
    destruct (H4 r s eq_refl eq_refl) as [q [Hq Hl]]. cbn [nth] in Hq.
    specialize (H1 q Hq). apply nullable_spec in H1. apply Hl in H1. rewrite app_nil_r in H1. exact H1.
  - intros Hl. exists (enc_re (sderivs r s)). split; [apply sderivos_total|]. split; [|exact I].
    apply isnullo_total. rewrite sderivs_matches. apply matches_spec. exact Hl.
Qed.

(* MatchO(r, s, res): exactly one verdict - EmptyStr iff s is in the language of r, EmptySet otherwise *)
Theorem matcho_den x st res ve r s : close ve x = enc_re r -> close ve st = enc_str s ->
  (Den ds (GLet [x; st; res] matcho_body) ve <->
   close ve res = enc_re (if matches r s then REmptyStr else REmptySet)).
Proof.
  intros Hx Hs. rewrite <- sem_den. unfold matcho_body. sem_cbn. rewrite Hx, Hs. split.
  - intros [t [H4 [H0 _]]]. apply regex_sound in H4, H0.
    destruct (H4 r s eq_refl eq_refl) as [q [Hq Hl]]. cbn [nth] in Hq.
    specialize (H0 q Hq). cbn [nth] in H0. rewrite H0.
    replace (nullable q) with (matches r s); [reflexivity|].
    apply eq_true_iff_eq. rewrite matches_spec, nullable_spec, Hl, app_nil_r. reflexivity.
  - intros Hr. exists (enc_re (sderivs r s)). split; [apply sderivos_total|]. split; [|exact I].
    rewrite Hr, <- sderivs_matches. apply nullo_total.
Qed.

Theorem matcho_single_verdict x st res ve r s : close ve x = enc_re r -> close ve st = enc_str s ->
  Den ds (GLet [x; st; res] matcho_body) ve ->
  (close ve res = enc_re REmptyStr /\ lang r s) \/ (close ve res = enc_re REmptySet /\ ~ lang r s).
Proof.
  intros Hx Hs H. apply (matcho_den x st res ve r s Hx Hs) in H.
  destruct (matches r s) eqn:E; [left|right]; (split; [exact H|]).
  - apply matches_spec. exact E.
  - intros Hl. apply matches_spec in Hl. congruence.
Qed.

(* the table: delayed recursion? (gomini has no Zzz: the goroutine engine delays by construction), calls defined, relational *)
Theorem regex_defs_calls_ok : forall r body, ds r = Some body -> calls_okb ds body = true /\ relational body = true.
Proof.
  intros r body Hb. destruct r as [|[|[|[|[|r]]]]]; cbn in Hb; try (destruct r; discriminate Hb);
    injection Hb as <-; split; reflexivity.
Qed.

Print Assumptions nullo_den.
Print Assumptions isnullo_den.
Print Assumptions derivo_den.
Print Assumptions sderivo_den.
Print Assumptions sderivos_den.
Print Assumptions ismatcho_den.
Print Assumptions matcho_den.
Print Assumptions matcho_single_verdict.
