From Coq Require Import List NArith Bool Lia.
From GMK Require Import AddrHeap.
Import ListNotations.

Lemma mem_In a l : mem a l = true <-> In a l.
Proof.
  unfold mem. rewrite existsb_exists. split.
  - intros [x [H E]]. apply N.eqb_eq in E. subst. exact H.
  - intros H. exists a. split; auto. apply N.eqb_refl.
Qed.

Lemma In_remove_all a xs l : In a (remove_all xs l) <-> In a l /\ ~ In a xs.
Proof.
  unfold remove_all. rewrite filter_In, negb_true_iff. split; intros [H1 H2]; split; auto.
  - intros H. apply mem_In in H. congruence.
  - destruct (mem a xs) eqn:E; auto. apply mem_In in E. contradiction.
Qed.

(* the invariant of the retaining state: every listed placeholder is live, and no later constant shares its address *)
Definition Inv (w : world) : Prop :=
  (forall a, In a (listed w) -> In a (live w)) /\
  (forall a, In a (fresh_consts w) -> In a (live w) /\ ~ In a (listed w)).

Lemma step_inv w l w' : Inv w -> step true w l = Some w' -> Inv w'.
Proof.
  intros [I1 I2] H. destruct l as [a|a|freed|a]; simpl in H.
  - destruct (mem a (live w)) eqn:E; [discriminate|]. inversion H; subst; clear H.
    assert (N : ~ In a (live w)) by (intros C; apply mem_In in C; congruence).
    split; simpl.
    + intros b [<-|Hb]; auto.
    + intros b Hb. destruct (I2 b Hb) as [L NL]. split; auto. intros [<-|C]; auto.
  - inversion H; subst; clear H. split; simpl; auto.
  - destruct (forallb _ freed) eqn:E; [|discriminate]. inversion H; subst; clear H.
    rewrite forallb_forall in E. split; simpl.
    + intros b Hb. apply In_remove_all. split; auto. intros C. specialize (E b C).
      apply andb_true_iff in E. destruct E as [_ E]. apply negb_true_iff in E.
      unfold reachable in E. apply orb_false_iff in E. destruct E as [_ E]. simpl in E.
      apply mem_In in Hb. congruence.
    + intros b Hb. apply In_remove_all in Hb. destruct Hb as [Hb NF]. destruct (I2 b Hb) as [L NL].
      split; auto. apply In_remove_all. auto.
  - destruct (mem a (live w)) eqn:E; [discriminate|]. inversion H; subst; clear H.
    assert (N : ~ In a (live w)) by (intros C; apply mem_In in C; congruence).
    split; simpl.
    + intros b Hb. right. auto.
    + intros b [<-|Hb].
      * split; [left; reflexivity | intros C; apply N; auto].
      * destruct (I2 b Hb) as [L NL]. split; [right; exact L | exact NL].
Qed.

Theorem run_inv ls : forall w w', Inv w -> run true w ls = Some w' -> Inv w'.
Proof.
  induction ls as [|l ls IH]; simpl; intros w w' I H.
  - inversion H; subst; exact I.
  - destruct (step true w l) as [w1|] eqn:E; [|discriminate]. eapply IH; [|exact H]. eapply step_inv; eauto.
Qed.

Lemma inv_empty : Inv empty_world.
Proof. split; simpl; intros a []. Qed.

(* the set of listed addresses only grows, and only through NewVar *)
Lemma step_listed retains w l w' : step retains w l = Some w' ->
  listed w' = listed w \/ exists a, l = LNewVar a /\ listed w' = a :: listed w.
Proof.
  destruct l as [a|a|freed|a]; simpl; intros H.
  - destruct (mem a (live w)); [discriminate|]. inversion H; subst. right. eauto.
  - inversion H; subst. auto.
  - destruct (forallb _ freed); [|discriminate]. inversion H; subst. auto.
  - destruct (mem a (live w)); [discriminate|]. inversion H; subst. auto.
Qed.
