(* C10, part 2: concurrent.ConjPlus / ConjPlusZzz (concurrent/conj.go).

   PART I  (model, no proofs): len(gs) worker goroutines send `g_i(s)` (resp. `Zzz(g_i)(s)`) on `ch`; one more
   goroutine sends `Bind(gs[0](s), mini.ConjPlusNoZzz(gs[1:]...))` (resp. `Bind(Zzz(gs[0])(s), mini.ConjPlus(gs[1:]...))`)
   on `ch2`; the receiver loops on `select`: a nil stream from `ch` makes it return nil, any other stream from `ch`
   is dropped, the stream from `ch2` is returned.  The scheduler's choices are an explicit input: the order
   `picks` in which the receiver gets the messages.
   PART II (proofs): whatever the schedule, the result is either the stream of the sequential conjunction itself or
   nil because some g_i failed immediately on the start state; for purely relational goals the latter implies that
   the sequential conjunction has no answer either.  With Zzz only the bind message is decisive and the result IS
   the stream of mini.ConjPlus. *)
From Coq Require Import List NArith ZArith Bool Lia Arith Permutation.
From GMK Require Import Term Unify UnifySpec UnifyWf UnifyTotal Goal Stream Den InStream Sound Complete Comb CombPerm.
Import ListNotations.

(* ====================================================================================================== *)
(* PART I: MODEL                                                                                          *)
(* ====================================================================================================== *)

(* one iteration of the receiver's `select`: the message of worker i on `ch`, or the message on `ch2` *)
Inductive pick := PWorker (i : nat) | PBind.

(* a schedule receives each message at most once, and only messages of existing goroutines.  (The theorems below
   hold for every pick list, in particular for every schedule.) *)
Definition conj_schedule (n : nat) (picks : list pick) : Prop :=
  NoDup picks /\ forall i, In (PWorker i) picks -> i < n.

Section ConcConjModel.
  Variable ds : defs.
  Variable uf : term -> term -> subst -> nat.

  (* `goal(s)` (z = false) / `micro.Zzz(goal)(s)` (z = true) *)
  Definition conj_worker_msg (z : bool) (e : env) (st : state) (g : goal) : stream :=
    if z then SSusp (TGoal g e st) else eval ds uf g e st.

  (* `micro.Bind(gs[0](s), mini.ConjPlusNoZzz(gs[1:]...))` / `micro.Bind(micro.Zzz(gs[0])(s), mini.ConjPlus(gs[1:]...))` *)
  Definition conj_bind_msg (z : bool) (gs : list goal) (e : env) (st : state) : stream :=
    match gs with
    | [] => SNil                        (* not reached: the goroutine only exists for len(gs) >= 2 *)
    | g0 :: rest =>
        bindk (fun a => eval ds uf (GConjPlus z rest) e a) (fun th => TBind th (GConjPlus z rest) e)
              (conj_worker_msg z e st g0)
    end.

  (* the receiver:
       for { select { case ans := <-ch: if ans.s == nil { return nil }
                      case stream := <-ch2: return stream } }
     None = the pick list ended before a decisive message: the receiver is still waiting *)
  Fixpoint recv (msgs : list stream) (bmsg : stream) (picks : list pick) : option stream :=
    match picks with
    | [] => None
    | PBind :: _ => Some bmsg
    | PWorker i :: rest =>
        match nth_error msgs i with
        | Some SNil => Some SNil
        | _ => recv msgs bmsg rest
        end
    end.

  (* concurrent.ConjPlus(gs...)(st) (z = false) and concurrent.ConjPlusZzz(gs...)(st) (z = true) under `picks` *)
  Definition conc_conj (z : bool) (gs : list goal) (e : env) (st : state) (picks : list pick) : option stream :=
    match gs with
    | [] => Some (SCons st SNil)                       (* micro.SuccessO *)
    | [g] => Some (conj_worker_msg z e st g)           (* gs[0]  /  micro.Zzz(gs[0]) *)
    | _ => recv (map (conj_worker_msg z e st) gs) (conj_bind_msg z gs e st) picks
    end.
End ConcConjModel.

(* ====================================================================================================== *)
(* PART II: PROOFS                                                                                        *)
(* ====================================================================================================== *)

Section ConcConjProofs.
  Variable ds : defs.
  Variable uf : term -> term -> subst -> nat.

  Local Notation eval := (eval ds uf).
  Local Notation force := (force ds uf).
  Local Notation InStream := (InStream ds uf).
  Local Notation ReachErr := (ReachErr ds uf).

  (* ---------- the receiver ---------- *)

  Lemma recv_result : forall msgs b picks s, recv msgs b picks = Some s ->
    (s = SNil /\ exists i, nth_error msgs i = Some SNil) \/ s = b.
  Proof.
    intros msgs b. induction picks as [|p picks IH]; intros s H; simpl in H; [discriminate|].
    destruct p as [i|].
    - destruct (nth_error msgs i) as [[| | |]|] eqn:E; auto.
      inversion H; subst. left. split; [reflexivity|]. exists i. exact E.
    - inversion H; subst. right. reflexivity.
  Qed.

  Lemma recv_no_nil : forall msgs b picks s, (forall i, nth_error msgs i <> Some SNil) ->
    recv msgs b picks = Some s -> s = b.
  Proof.
    intros msgs b picks s Hn H. apply recv_result in H. destruct H as [[_ [i E]]|H]; [|exact H].
    exfalso. apply (Hn i E).
  Qed.

  (* the receiver returns as soon as the bind message is scheduled *)
  Lemma recv_decides : forall msgs b picks, In PBind picks -> exists s, recv msgs b picks = Some s.
  Proof.
    intros msgs b. induction picks as [|p picks IH]; intros Hin; [contradiction|].
    simpl. destruct p as [i|].
    - destruct Hin as [E|Hin]; [discriminate|].
      destruct (nth_error msgs i) as [[| | |]|]; eauto.
    - eauto.
  Qed.

  (* the message on ch2 is the stream of the sequential conj+ *)
  Lemma conj_bind_msg_eq : forall z g1 g2 r e st,
    conj_bind_msg ds uf z (g1 :: g2 :: r) e st = eval (GConjPlus z (g1 :: g2 :: r)) e st.
  Proof. intros [|] g1 g2 r e st; reflexivity. Qed.

  (* ---------- (3a) the possible results of concurrent.ConjPlus, for every schedule ---------- *)

  Theorem conc_conj_result : forall gs e st picks s,
    conc_conj ds uf false gs e st picks = Some s ->
    (s = SNil /\ exists i g, nth_error gs i = Some g /\ eval g e st = SNil) \/
    s = eval (GConjPlus false gs) e st.
  Proof.
    intros gs e st picks s H. unfold conc_conj in H.
    destruct gs as [|g1 [|g2 r]].
    - inversion H; subst. right. reflexivity.
    - inversion H; subst. right. reflexivity.
    - apply recv_result in H. destruct H as [[E [i Hi]]|H].
      + left. split; [exact E|]. rewrite nth_error_map in Hi.
        destruct (nth_error (g1 :: g2 :: r) i) as [g|] eqn:Eg; [|discriminate].
        exists i, g. split; [exact Eg|]. simpl in Hi. inversion Hi. reflexivity.
      + right. rewrite H. apply conj_bind_msg_eq.
  Qed.

  (* ---------- (3b) concurrent.ConjPlusZzz returns the stream of mini.ConjPlus, for every schedule ---------- *)

  Theorem conc_conj_zzz_result : forall gs e st picks s,
    conc_conj ds uf true gs e st picks = Some s -> s = eval (GConjPlus true gs) e st.
  Proof.
    intros gs e st picks s H. unfold conc_conj in H.
    destruct gs as [|g1 [|g2 r]].
    - inversion H; subst. reflexivity.
    - inversion H; subst. reflexivity.
    - apply recv_no_nil in H; [rewrite H; apply conj_bind_msg_eq|].
      intros i E. rewrite nth_error_map in E.
      destruct (nth_error (g1 :: g2 :: r) i); simpl in E; discriminate.
  Qed.

  (* every schedule in which the message on ch2 is eventually received produces a result *)
  Theorem conc_conj_decides : forall z gs e st picks, In PBind picks ->
    exists s, conc_conj ds uf z gs e st picks = Some s.
  Proof.
    intros z gs e st picks Hin. unfold conc_conj.
    destruct gs as [|g1 [|g2 r]]; eauto. apply recv_decides. exact Hin.
  Qed.

  (* ---------- immediate failure is monotone in the state ---------- *)

  Section Relational.
    Hypothesis Hu : uf_ok uf.
    Hypothesis Hdf : defs_ok ds.
    Hypothesis Hrl : defs_relational ds.

    Definition extends_state (st st' : state) : Prop :=
      (exists ext, sub st' = sub st ++ ext) /\ (ctr st <= ctr st')%N /\ wf_state st'.

    Lemma extends_refl st : wf_state st -> extends_state st st.
    Proof. intros H. split; [exists []; rewrite app_nil_r; reflexivity|]. split; [lia|exact H]. Qed.

    Lemma extends_trans st st' st'' : extends_state st st' -> extends_state st' st'' -> extends_state st st''.
    Proof.
      intros [[e1 E1] [L1 _]] [[e2 E2] [L2 W]]. split; [|split; [lia|exact W]].
      exists (e1 ++ e2). rewrite E2, E1, app_assoc. reflexivity.
    Qed.

    (* a purely relational goal whose stream on st is nil (not even a suspension) has no answer on any
       extension of st *)
    Lemma immediate_failure_monotone : forall g e st,
      relational g = true -> calls_okb ds g = true -> wf_state st -> env_ok e (ctr st) ->
      eval g e st = SNil ->
      forall st' x, (exists ext, sub st' = sub st ++ ext) -> (ctr st <= ctr st')%N -> wf_state st' ->
      ~ InStream x (eval g e st').
    Proof.
      intros g e st Hr Hc Hwf He Hnil st' x [ext Eext] Hle Hwf' Hin.
      assert (He' : env_ok e (ctr st')) by (eapply env_ok_mono; eauto).
      destruct (eval_sound ds uf g e st' x Hwf' He' Hin) as [_ [_ [[Hwx _] Hs]]].
      destruct (WS_solution (sub x) TNil TNil Hwx) as [r [Hsat _]].
      destruct (Hs r Hsat) as [Hs' Hd].
      rewrite Eext in Hs'. apply sat_app in Hs'. destruct Hs' as [Hs0 _].
      destruct (eval_complete ds uf Hu Hdf Hrl g _ Hd e st r eq_refl Hr Hc Hwf He Hs0) as [x0 [r' [Hx0 _]]].
      rewrite Hnil in Hx0. inversion Hx0.
    Qed.

    (* hence a sequential conjunction containing such a goal has no answer: every intermediate state of the
       chain g_1 .. g_{i-1} extends st *)
    Lemma conj_no_answer : forall gs i g e st0,
      nth_error gs i = Some g ->
      relational g = true -> calls_okb ds g = true -> wf_state st0 -> env_ok e (ctr st0) ->
      eval g e st0 = SNil ->
      forall st x, extends_state st0 st -> ~ InStream x (eval (GConjPlus false gs) e st).
    Proof.
      induction gs as [|g1 rest IH]; intros i g e st0 Hi Hr Hc Hwf0 He0 Hnil st x Hext Hin.
      - destruct i; discriminate.
      - destruct rest as [|g2 r].
        + destruct i as [|i]; [|destruct i; discriminate]. simpl in Hi. inversion Hi; subst g1.
          rewrite eval_conjplus_one in Hin. destruct Hext as [Hx [Hl Hw]].
          exact (immediate_failure_monotone g e st0 Hr Hc Hwf0 He0 Hnil st x Hx Hl Hw Hin).
        + rewrite eval_conjplus_cons in Hin.
          apply (in_bindk_inv ds uf (fun a => eval (GConjPlus false (g2 :: r)) e a)
                   (fun th => TBind th (GConjPlus false (g2 :: r)) e) (fun th => eq_refl)) in Hin.
          destruct Hin as [a [Ha Hx]]. destruct i as [|i].
          * simpl in Hi. inversion Hi; subst g1. destruct Hext as [Hx' [Hl Hw]].
            exact (immediate_failure_monotone g e st0 Hr Hc Hwf0 He0 Hnil st a Hx' Hl Hw Ha).
          * simpl in Hi.
            assert (Hea : extends_state st0 a).
            { apply (extends_trans st0 st a Hext).
              destruct Hext as [_ [Hl Hw]].
              assert (He : env_ok e (ctr st)) by (eapply env_ok_mono; eauto).
              destruct (eval_sound ds uf g1 e st a Hw He Ha) as [Hxa [Hla [Hwa _]]].
              split; [exact Hxa|]. split; [exact Hla|exact Hwa]. }
            exact (IH i g e st0 Hi Hr Hc Hwf0 He0 Hnil a x Hea Hx).
    Qed.

    (* ---------- (3c) THE KEY THEOREM: same answers as the sequential conjunction, for every schedule ---------- *)

    Theorem conc_conj_same_answers : forall gs e st picks s,
      relational (GConjPlus false gs) = true -> calls_okb ds (GConjPlus false gs) = true ->
      wf_state st -> env_ok e (ctr st) ->
      conc_conj ds uf false gs e st picks = Some s ->
      forall x, InStream x s <-> InStream x (eval (GConjPlus false gs) e st).
    Proof.
      intros gs e st picks s Hr Hc Hwf He H x.
      apply conc_conj_result in H. destruct H as [[E [i [g [Hi Hnil]]]]|E]; [|rewrite E; reflexivity].
      subst s. simpl in Hr, Hc. rewrite forallb_forall in Hr, Hc.
      assert (Hg : In g gs) by (eapply nth_error_In; eauto).
      split; [inversion 1|]. intros Hin. exfalso.
      exact (conj_no_answer gs i g e st Hi (Hr g Hg) (Hc g Hg) Hwf He Hnil st x (extends_refl st Hwf) Hin).
    Qed.

    (* the early `return nil` never loses an answer, and never produces one *)
    Corollary conc_conj_nil_sound : forall gs e st picks,
      relational (GConjPlus false gs) = true -> calls_okb ds (GConjPlus false gs) = true ->
      wf_state st -> env_ok e (ctr st) ->
      conc_conj ds uf false gs e st picks = Some SNil ->
      forall x, ~ InStream x (eval (GConjPlus false gs) e st).
    Proof.
      intros gs e st picks Hr Hc Hwf He H x Hin.
      apply (conc_conj_same_answers gs e st picks SNil Hr Hc Hwf He H x) in Hin. inversion Hin.
    Qed.

    (* ---------- "none exactly when the conjunction is unsatisfiable" ---------- *)

    Lemma seq_conj_unsat_iff : forall z gs e st,
      relational (GConjPlus z gs) = true -> calls_okb ds (GConjPlus z gs) = true ->
      wf_state st -> env_ok e (ctr st) ->
      ((forall r, sat r (sub st) -> ~ DenAll ds gs (map (inst r) e)) <->
       (forall x, ~ InStream x (eval (GConjPlus z gs) e st))).
    Proof.
      intros z gs e st Hr Hc Hwf He. split.
      - intros Hun x. apply eval_unsat_no_answer; [|exact Hwf|exact He].
        intros r Hs Hd. inversion Hd; subst. eapply Hun; eauto.
      - intros Hno r Hs Hd.
        destruct (eval_complete ds uf Hu Hdf Hrl (GConjPlus z gs) _ (DConjPlus ds z gs _ Hd)
                    e st r eq_refl Hr Hc Hwf He Hs) as [x [_ [Hx _]]].
        exact (Hno x Hx).
    Qed.

    Theorem conc_conj_none_iff_unsat : forall gs e st picks s,
      relational (GConjPlus false gs) = true -> calls_okb ds (GConjPlus false gs) = true ->
      wf_state st -> env_ok e (ctr st) ->
      conc_conj ds uf false gs e st picks = Some s ->
      ((forall r, sat r (sub st) -> ~ DenAll ds gs (map (inst r) e)) <-> (forall x, ~ InStream x s)).
    Proof.
      intros gs e st picks s Hr Hc Hwf He H.
      rewrite (seq_conj_unsat_iff false gs e st Hr Hc Hwf He).
      split; intros Hno x Hx; apply (Hno x);
        apply (conc_conj_same_answers gs e st picks s Hr Hc Hwf He H x); exact Hx.
    Qed.

    Theorem conc_conj_zzz_none_iff_unsat : forall gs e st picks s,
      relational (GConjPlus true gs) = true -> calls_okb ds (GConjPlus true gs) = true ->
      wf_state st -> env_ok e (ctr st) ->
      conc_conj ds uf true gs e st picks = Some s ->
      ((forall r, sat r (sub st) -> ~ DenAll ds gs (map (inst r) e)) <-> (forall x, ~ InStream x s)).
    Proof.
      intros gs e st picks s Hr Hc Hwf He H. apply conc_conj_zzz_result in H. subst s.
      apply seq_conj_unsat_iff; assumption.
    Qed.

    (* ---------- all four (ConjPlus, ConjPlusZzz, mini.ConjPlusNoZzz, mini.ConjPlus) have the same answers ---------- *)

    Lemma calls_okb_nest_conj : forall gs, forallb (calls_okb ds) gs = true -> calls_okb ds (nest_conj gs) = true.
    Proof.
      induction gs as [|g1 rest IH]; intros H; [reflexivity|].
      simpl in H. apply andb_true_iff in H. destruct H as [H1 H2].
      destruct rest as [|g2 r]; [exact H1|].
      change (nest_conj (g1 :: g2 :: r)) with (GConj g1 (nest_conj (g2 :: r))). simpl calls_okb.
      rewrite H1. simpl. apply IH. exact H2.
    Qed.

    Theorem conc_conj_four_same_answers : forall gs e st picks picksz s sz,
      relational (GConjPlus false gs) = true -> calls_okb ds (GConjPlus false gs) = true ->
      wf_state st -> env_ok e (ctr st) ->
      conc_conj ds uf false gs e st picks = Some s ->
      conc_conj ds uf true gs e st picksz = Some sz ->
      forall x, (InStream x s <-> InStream x (eval (GConjPlus false gs) e st)) /\
                (InStream x sz <-> InStream x (eval (GConjPlus true gs) e st)) /\
                (InStream x s <-> InStream x sz).
    Proof.
      intros gs e st picks picksz s sz Hr Hc Hwf He H Hz x.
      pose proof (conc_conj_same_answers gs e st picks s Hr Hc Hwf He H x) as H1.
      apply conc_conj_zzz_result in Hz. subst sz.
      split; [exact H1|]. split; [reflexivity|].
      rewrite H1, conj_nozzz_answers. symmetry. apply conj_zzz_answers.
      apply (eval_no_err ds uf Hu Hdf); [|exact Hwf|exact He].
      apply calls_okb_nest_conj. exact Hc.
    Qed.
  End Relational.
End ConcConjProofs.

(* the same with the proved-sufficient unify fuel *)
Theorem conc_conj_same_answers_ufuel : forall ds gs e st picks s,
  defs_ok ds -> defs_relational ds ->
  relational (GConjPlus false gs) = true -> calls_okb ds (GConjPlus false gs) = true ->
  wf_state st -> env_ok e (ctr st) ->
  conc_conj ds ufuel false gs e st picks = Some s ->
  forall x, InStream ds ufuel x s <-> InStream ds ufuel x (eval ds ufuel (GConjPlus false gs) e st).
Proof.
  intros ds gs e st picks s Hdf Hrl. apply conc_conj_same_answers; [exact ufuel_enough|exact Hdf|exact Hrl].
Qed.
