(* Mplus (micro/disj.go) and Bind (micro/conj.go) as translated on every run (gen/StreamGen.v) ARE the model's mplus and
   bindk (Stream.v): whatever they return is the model's stream, they return it whenever the recursion budget covers the
   run of mature cells at the front of the argument (and no cell there is the model's error cell), and they never panic -
   in particular an immature cell is never run when it is merely inspected (`s.state == nil` is tested before CarCdr),
   which is what fairness (C03) rests on. *)
From Coq Require Import List NArith ZArith Bool Lia.
From GMK Require Import Term Unify Goal Stream GoLite GoLiteS gen.StreamGen.
Import ListNotations.

(* the run of mature cells at the front of a stream, and whether it ends in the model's error cell *)
Fixpoint spine (s : stream) : nat := match s with SCons _ tl => S (spine tl) | _ => O end.
Fixpoint ends_err (s : stream) : bool := match s with SCons _ tl => ends_err tl | SErr => true | _ => false end.
Fixpoint heads (s : stream) : list state := match s with SCons a tl => a :: heads tl | _ => [] end.

Section Ops.
  Variable ds : defs.
  Variable uf : term -> term -> subst -> nat.

  Lemma gs_Mplus_sound : forall f s1 s2 r, gs_Mplus f ds uf s1 s2 = Ret r -> r = mplus s1 s2.
  Proof.
    induction f as [|f IH]; intros s1 s2 r H; [discriminate|].
    destruct s1 as [|a tl|th|]; cbn in H.
    - inversion H. reflexivity.
    - destruct (gs_Mplus f ds uf tl s2) as [t| |] eqn:E; cbn in H; try discriminate.
      inversion H. rewrite (IH tl s2 t E). reflexivity.
    - inversion H. reflexivity.
    - discriminate.
  Qed.

  Lemma gs_Mplus_complete : forall f s1 s2, ends_err s1 = false -> (spine s1 < f)%nat ->
    gs_Mplus f ds uf s1 s2 = Ret (mplus s1 s2).
  Proof.
    induction f as [|f IH]; intros s1 s2 He Hf; [lia|].
    destruct s1 as [|a tl|th|]; cbn in *; try reflexivity; try discriminate.
    rewrite IH by (assumption || lia). reflexivity.
  Qed.

  Lemma gs_Mplus_never_panics : forall f s1 s2, gs_Mplus f ds uf s1 s2 <> Panic.
  Proof.
    induction f as [|f IH]; intros s1 s2; [discriminate|].
    destruct s1 as [|a tl|th|]; cbn; try discriminate.
    specialize (IH tl s2). destruct (gs_Mplus f ds uf tl s2); cbn; [discriminate|discriminate|contradiction].
  Qed.

  Lemma gs_Bind_sound : forall f s g r, gs_Bind f ds uf s g = Ret r -> r = bindk (sg_run g) (sg_bind g) s.
  Proof.
    induction f as [|f IH]; intros s g r H; [discriminate|].
    destruct s as [|a tl|th|]; cbn in H.
    - inversion H. reflexivity.
    - destruct (gs_Bind f ds uf tl g) as [t| |] eqn:E; cbn in H; try discriminate.
      apply gs_Mplus_sound in H. rewrite (IH tl g t E) in H. exact H.
    - inversion H. reflexivity.
    - discriminate.
  Qed.

  Lemma gs_Bind_complete : forall B f s g, ends_err s = false ->
    (forall a, In a (heads s) -> ends_err (sg_run g a) = false /\ (spine (sg_run g a) < B)%nat) ->
    (spine s + B < f)%nat ->
    gs_Bind f ds uf s g = Ret (bindk (sg_run g) (sg_bind g) s).
  Proof.
    intros B. induction f as [|f IH]; intros s g He Hk Hf; [lia|].
    destruct s as [|a tl|th|]; cbn in *; try reflexivity; try discriminate.
    rewrite IH; [|assumption|intros a' Ha'; apply Hk; right; exact Ha'|lia]. cbn.
    destruct (Hk a (or_introl eq_refl)) as [E1 E2]. apply gs_Mplus_complete; [exact E1|lia].
  Qed.

  Lemma gs_Bind_never_panics : forall f s g, gs_Bind f ds uf s g <> Panic.
  Proof.
    induction f as [|f IH]; intros s g; [discriminate|].
    destruct s as [|a tl|th|]; cbn; try discriminate.
    specialize (IH tl g). destruct (gs_Bind f ds uf tl g); cbn; [apply gs_Mplus_never_panics|discriminate|contradiction].
  Qed.

  (* an immature first argument is not run: the result is a suspension over its thunk, whatever that thunk would do *)
  Lemma gs_Mplus_lazy : forall f th s2, gs_Mplus (S f) ds uf (SSusp th) s2 = Ret (SSusp (TMplus s2 th)).
  Proof. reflexivity. Qed.
  Lemma gs_Bind_lazy : forall f th g, gs_Bind (S f) ds uf (SSusp th) g = Ret (SSusp (sg_bind g th)).
  Proof. reflexivity. Qed.
End Ops.

(* a goal of the model (a term of Goal.v under an environment), as the stream operators see it *)
Definition model_goal (ds : defs) (uf : term -> term -> subst -> nat) (g : goal) (e : env) : sgoal :=
  mkSGoal (fun a => eval ds uf g e a) (fun th => TBind th g e) (fun st => TGoal g e st) g e.

(* Disj (micro/disj.go) and Conj (micro/conj.go): the goal constructors, as functions of their two goals and the state *)
Section Ctors.
  Variable ds : defs.
  Variable uf : term -> term -> subst -> nat.

  Lemma gs_Disj_sound : forall f g1 g2 st r,
    gs_Disj f ds uf g1 g2 (Some st) = Ret r -> r = mplus (sg_run g1 st) (sg_run g2 st).
  Proof. intros f g1 g2 st r H. unfold gs_Disj in H. cbn in H. apply (gs_Mplus_sound ds uf) in H. exact H. Qed.
  Lemma gs_Disj_complete : forall f g1 g2 st, ends_err (sg_run g1 st) = false -> (spine (sg_run g1 st) < f)%nat ->
    gs_Disj f ds uf g1 g2 (Some st) = Ret (mplus (sg_run g1 st) (sg_run g2 st)).
  Proof. intros f g1 g2 st He Hf. unfold gs_Disj. cbn. apply gs_Mplus_complete; assumption. Qed.

  Lemma gs_Conj_sound : forall f g1 g2 st r,
    gs_Conj f ds uf g1 g2 (Some st) = Ret r -> r = bindk (sg_run g2) (sg_bind g2) (sg_run g1 st).
  Proof. intros f g1 g2 st r H. unfold gs_Conj in H. cbn in H. apply (gs_Bind_sound ds uf) in H. exact H. Qed.
  Lemma gs_Conj_complete : forall B f g1 g2 st, ends_err (sg_run g1 st) = false ->
    (forall a, In a (heads (sg_run g1 st)) -> ends_err (sg_run g2 a) = false /\ (spine (sg_run g2 a) < B)%nat) ->
    (spine (sg_run g1 st) + B < f)%nat ->
    gs_Conj f ds uf g1 g2 (Some st) = Ret (bindk (sg_run g2) (sg_bind g2) (sg_run g1 st)).
  Proof. intros B f g1 g2 st He Hk Hf. unfold gs_Conj. cbn. apply (gs_Bind_complete ds uf B); assumption. Qed.

  Lemma gs_ctors_never_panic : forall f g1 g2 st,
    gs_Disj f ds uf g1 g2 (Some st) <> Panic /\ gs_Conj f ds uf g1 g2 (Some st) <> Panic.
  Proof. intros f g1 g2 st. unfold gs_Disj, gs_Conj. cbn. split; [apply gs_Mplus_never_panics|apply gs_Bind_never_panics]. Qed.

  (* in the model's own terms: the streams of GDisj / GConj *)
  Lemma gs_Disj_is_eval : forall f g1 g2 e st r,
    gs_Disj f ds uf (model_goal ds uf g1 e) (model_goal ds uf g2 e) (Some st) = Ret r ->
    r = eval ds uf (GDisj g1 g2) e st.
  Proof. intros f g1 g2 e st r H. apply gs_Disj_sound in H. exact H. Qed.
  Lemma gs_Conj_is_eval : forall f g1 g2 e st r,
    gs_Conj f ds uf (model_goal ds uf g1 e) (model_goal ds uf g2 e) (Some st) = Ret r ->
    r = eval ds uf (GConj g1 g2) e st.
  Proof. intros f g1 g2 e st r H. apply gs_Conj_sound in H. exact H. Qed.

  (* Zzz (micro/stream.go) and CallFresh (micro/fresh.go) *)
  Lemma gs_Zzz_is_eval : forall g e st, gs_Zzz ds uf (model_goal ds uf g e) (Some st) = Ret (eval ds uf (GZzz g) e st).
  Proof. reflexivity. Qed.
  Lemma gs_CallFresh_is_eval : forall g e st,
    gs_CallFresh ds uf (fun v => model_goal ds uf g (v :: e)) (Some st) = Ret (eval ds uf (GFresh g) e st).
  Proof. intros g e st. unfold gs_CallFresh. cbn. destruct st; reflexivity. Qed.
  Lemma gs_CallFresh_spec : forall (fg : term -> sgoal) st,
    gs_CallFresh ds uf fg (Some st) = Ret (sg_run (fg (TVar (ctr st))) (mkSt (sub st) (ctr st + 1))).
  Proof. reflexivity. Qed.
End Ctors.
