(* C07 proofs: operations that copy before they write never write to a published object, so every published view
   is unchanged by every later operation; the append / in-place variants are refuted by concrete histories;
   CarCdr memoisation; re-traversal; assv is invariant under permutations of a substitution with distinct keys. *)
From Coq Require Import List NArith ZArith Bool Arith Lia Permutation.
From GMK Require Import Term Unify MemModel.
Import ListNotations.

(* ---------- upd ---------- *)

Lemma upd_length {A} (l : list A) i x : length (upd l i x) = length l.
Proof. revert i. induction l as [|a l IH]; intros [|i]; simpl; auto. Qed.

Lemma nth_error_upd_neq {A} (l : list A) i j x : i <> j -> nth_error (upd l i x) j = nth_error l j.
Proof.
  revert i j. induction l as [|a l IH]; intros i j H.
  - destruct i; reflexivity.
  - destruct i as [|i], j as [|j]; simpl; try reflexivity; [congruence|]. apply IH. congruence.
Qed.

Lemma nth_error_upd_eq {A} (l : list A) i x : i < length l -> nth_error (upd l i x) i = Some x.
Proof.
  revert i. induction l as [|a l IH]; intros i H; simpl in H; [lia|].
  destruct i as [|i]; simpl; [reflexivity|]. apply IH. lia.
Qed.

Lemma upd_same {A} (l : list A) i x : nth_error l i = Some x -> upd l i x = l.
Proof.
  revert i. induction l as [|a l IH]; intros i H; destruct i as [|i]; simpl in *; try discriminate.
  - inversion H; reflexivity.
  - f_equal. apply IH. exact H.
Qed.

(* ---------- what a write log means ---------- *)

(* existing objects are untouched *)
Definition preserved (h h' : heap) : Prop := forall id, id < length h -> nth_error h' id = nth_error h id.
(* every write goes to an object with id >= n *)
Definition fresh_log (n : nat) (lg : wlog) : Prop := forall id i, In (id, i) lg -> n <= id.
(* the log is complete: an existing object that is not named in the log is untouched *)
Definition faithful (h h' : heap) (lg : wlog) : Prop :=
  forall id, id < length h -> ~ In id (map fst lg) -> nth_error h' id = nth_error h id.

Lemma fresh_faithful_preserved h h' lg : fresh_log (length h) lg -> faithful h h' lg -> preserved h h'.
Proof.
  intros Hf Hl id Hid. apply Hl; [exact Hid|]. intros Hin. apply in_map_iff in Hin.
  destruct Hin as [[id' i] [E Hin]]. simpl in E. subst id'. specialize (Hf _ _ Hin). lia.
Qed.

Lemma preserved_faithful h h' lg : preserved h h' -> faithful h h' lg.
Proof. intros H id Hid _. apply H. exact Hid. Qed.

Lemma preserved_refl h : preserved h h.
Proof. intros id _. reflexivity. Qed.

Lemma preserved_app h l : preserved h (h ++ l).
Proof. intros id Hid. apply nth_error_app1. exact Hid. Qed.

Lemma preserved_trans h1 h2 h3 : preserved h1 h2 -> length h1 <= length h2 -> preserved h2 h3 -> preserved h1 h3.
Proof. intros H12 L H23 id Hid. rewrite H23 by lia. apply H12. exact Hid. Qed.

Lemma preserved_upd_fresh h l i o : length h <= i -> preserved h (upd (h ++ l) i o).
Proof.
  intros L id Hid. rewrite nth_error_upd_neq by lia. apply nth_error_app1. exact Hid.
Qed.

(* views only look at the object the reference points to *)
Lemma view_slice_eq h h' s : nth_error h' (arr s) = nth_error h (arr s) -> view_slice h' s = view_slice h s.
Proof. unfold view_slice. intros ->. reflexivity. Qed.

Lemma view_map_eq h h' m : nth_error h' m = nth_error h m -> view_map h' m = view_map h m.
Proof. unfold view_map. intros ->. reflexivity. Qed.

Lemma view_slice_preserved h h' s : preserved h h' -> arr s < length h -> view_slice h' s = view_slice h s.
Proof. intros H L. apply view_slice_eq. apply H. exact L. Qed.

Lemma view_gstate_preserved h h' g : preserved h h' -> subs g < length h -> gvars g < length h ->
  view_gstate h' g = view_gstate h g.
Proof. intros H L1 L2. unfold view_gstate. rewrite !(view_map_eq h h') by (apply H; assumption). reflexivity. Qed.

(* ---------- every operation's log is faithful (copying or not) ---------- *)

Lemma make_slice_spec h c h' s' lg : make_slice h c = (h', s', lg) ->
  preserved h h' /\ length h' = S (length h) /\ arr s' = length h /\ lg = [].
Proof.
  unfold make_slice. intros E. inversion E; subst. simpl.
  split; [apply preserved_app|]. rewrite app_length. simpl. split; [lia|auto].
Qed.

Lemma exts_copy_spec h s p h' s' lg : exts_copy h s p = (h', s', lg) ->
  preserved h h' /\ length h' = S (length h) /\ arr s' = length h /\ fresh_log (length h) lg /\
  (forall id i, In (id, i) lg -> id = length h) /\
  view_slice h' s' = view_slice h s ++ [Some p].
Proof.
  unfold exts_copy. intros E. inversion E; subst; clear E. cbn [arr len cap].
  split; [apply preserved_app|]. rewrite app_length. cbn [length]. split; [lia|]. split; [reflexivity|].
  assert (HL: forall id i, In (id, i) (map (fun i0 => (length h, i0)) (seq 0 (S (len s)))) -> id = length h).
  { intros id i Hin. apply in_map_iff in Hin. destruct Hin as [j [Ej _]]. inversion Ej; reflexivity. }
  split; [intros id i Hin; rewrite (HL id i Hin); lia|]. split; [exact HL|].
  unfold view_slice at 1. cbn [arr len]. rewrite nth_error_app2 by lia. rewrite Nat.sub_diag. cbn [nth_error].
  apply firstn_all2. rewrite app_length. cbn [length].
  assert (length (view_slice h s) <= len s).
  { unfold view_slice. destruct (nth_error h (arr s)) as [[cs| |]|]; simpl; try lia. apply firstn_le_length. }
  lia.
Qed.

Lemma exts_append_faithful h s p h' s' lg : exts_append h s p = (h', s', lg) -> faithful h h' lg.
Proof.
  unfold exts_append. destruct (len s <? cap s).
  - destruct (nth_error h (arr s)) as [[cs| |]|] eqn:En; intros E; inversion E; subst;
      try (apply preserved_faithful; apply preserved_refl).
    intros id Hid Hn. simpl in Hn. apply nth_error_upd_neq. intros Ea. apply Hn. left. exact Ea.
  - intros E. inversion E; subst. apply preserved_faithful. apply preserved_app.
Qed.

Lemma new_gstate_spec h h' g' lg : new_gstate h = (h', g', lg) ->
  preserved h h' /\ length h' = S (S (length h)) /\ subs g' = length h /\ gvars g' = S (length h) /\ lg = [].
Proof.
  unfold new_gstate. intros E. inversion E; subst. simpl.
  split; [apply preserved_app|]. rewrite app_length. simpl. split; [lia|auto].
Qed.

Lemma write_map_length h m k v : length (write_map h m k v) = length h.
Proof. unfold write_map. apply upd_length. Qed.

Lemma set_copy_spec h g k v h' g' lg : set_copy h g k v = (h', g', lg) ->
  preserved h h' /\ length h' = S (S (length h)) /\ subs g' = length h /\ gvars g' = S (length h) /\
  lg = [(length h, N.to_nat k)] /\
  (gvars g < length h -> view_gstate h' g' = (mset k v (view_map h (subs g)), view_map h (gvars g))).
Proof.
  unfold set_copy, copy_map. cbv beta iota zeta.
  set (o1 := OMap (view_map h (subs g))). set (h1 := h ++ [o1]).
  set (o2 := OMap (view_map h1 (gvars g))). set (h2 := h1 ++ [o2]).
  intros E. inversion E; subst h' g' lg; clear E.
  assert (L1 : length h1 = S (length h)) by (unfold h1; rewrite app_length; simpl; lia).
  assert (L2 : length h2 = S (S (length h))) by (unfold h2; rewrite app_length; simpl; lia).
  assert (P2 : preserved h h2).
  { intros id Hid. unfold h2, h1. rewrite <- app_assoc. apply nth_error_app1. exact Hid. }
  cbn [subs gvars].
  split. { intros id Hid. unfold write_map. rewrite nth_error_upd_neq by lia. apply P2. exact Hid. }
  split. { rewrite write_map_length. exact L2. }
  split; [reflexivity|]. split; [exact L1|]. split; [reflexivity|].
  intros Lg. unfold view_gstate. cbn [subs gvars]. f_equal.
  - unfold view_map at 1. unfold write_map. rewrite nth_error_upd_eq by lia. f_equal.
    unfold view_map at 1. unfold h2. rewrite nth_error_app1 by lia. unfold h1.
    rewrite nth_error_app2 by lia. rewrite Nat.sub_diag. reflexivity.
  - unfold view_map at 1. unfold write_map. rewrite nth_error_upd_neq by lia.
    unfold h2. rewrite nth_error_app2 by lia. rewrite Nat.sub_diag. cbn [nth_error]. unfold o2.
    apply view_map_eq. unfold h1. apply nth_error_app1. exact Lg.
Qed.

Lemma newvar_copy_spec h g k v h' g' lg : newvar_copy h g k v = (h', g', lg) ->
  preserved h h' /\ length h' = S (length h) /\ subs g' = subs g /\ gvars g' = length h /\
  lg = [(length h, N.to_nat k)] /\
  (subs g < length h -> view_gstate h' g' = (view_map h (subs g), mset k v (view_map h (gvars g)))).
Proof.
  unfold newvar_copy, copy_map. cbv beta iota zeta.
  set (o1 := OMap (view_map h (gvars g))). set (h1 := h ++ [o1]).
  intros E. inversion E; subst h' g' lg; clear E.
  assert (L1 : length h1 = S (length h)) by (unfold h1; rewrite app_length; simpl; lia).
  cbn [subs gvars].
  split. { intros id Hid. unfold write_map. rewrite nth_error_upd_neq by lia. unfold h1. apply nth_error_app1. exact Hid. }
  split. { rewrite write_map_length. exact L1. }
  do 3 (split; [reflexivity|]).
  intros Ls. unfold view_gstate. cbn [subs gvars]. f_equal.
  - apply view_map_eq. unfold write_map. rewrite nth_error_upd_neq by lia. unfold h1. apply nth_error_app1. exact Ls.
  - unfold view_map at 1. unfold write_map. rewrite nth_error_upd_eq by lia. f_equal.
    unfold view_map at 1. unfold h1. rewrite nth_error_app2 by lia. rewrite Nat.sub_diag. reflexivity.
Qed.

Lemma set_inplace_faithful h g k v h' g' lg : set_inplace h g k v = (h', g', lg) -> faithful h h' lg.
Proof.
  unfold set_inplace, write_map. intros E. inversion E; subst. intros id Hid Hn. simpl in Hn.
  apply nth_error_upd_neq. intros Ea. apply Hn. left. exact Ea.
Qed.

Lemma newvar_inplace_faithful h g k v h' g' lg : newvar_inplace h g k v = (h', g', lg) -> faithful h h' lg.
Proof.
  unfold newvar_inplace, write_map. intros E. inversion E; subst. intros id Hid Hn. simpl in Hn.
  apply nth_error_upd_neq. intros Ea. apply Hn. left. exact Ea.
Qed.

(* the log of every step of every implementation is complete *)
Definition impl_faithful (im : impl) : Prop :=
  (forall h s p h' s' lg, i_exts im h s p = (h', s', lg) -> faithful h h' lg) /\
  (forall h g k v h' g' lg, i_set im h g k v = (h', g', lg) -> faithful h h' lg) /\
  (forall h g k v h' g' lg, i_newvar im h g k v = (h', g', lg) -> faithful h h' lg).

Lemma exts_copy_faithful h s p h' s' lg : exts_copy h s p = (h', s', lg) -> faithful h h' lg.
Proof. intros E. apply preserved_faithful. apply (exts_copy_spec _ _ _ _ _ _ E). Qed.
Lemma set_copy_faithful h g k v h' g' lg : set_copy h g k v = (h', g', lg) -> faithful h h' lg.
Proof. intros E. apply preserved_faithful. apply (set_copy_spec _ _ _ _ _ _ _ E). Qed.
Lemma newvar_copy_faithful h g k v h' g' lg : newvar_copy h g k v = (h', g', lg) -> faithful h h' lg.
Proof. intros E. apply preserved_faithful. apply (newvar_copy_spec _ _ _ _ _ _ _ E). Qed.

Lemma impl_code_faithful : impl_faithful impl_code.
Proof. split; [exact exts_copy_faithful|]. split; [exact set_copy_faithful|exact newvar_copy_faithful]. Qed.
Lemma impl_append_faithful : impl_faithful impl_append.
Proof. split; [exact exts_append_faithful|]. split; [exact set_copy_faithful|exact newvar_copy_faithful]. Qed.
Lemma impl_inplace_faithful : impl_faithful impl_inplace.
Proof. split; [exact exts_copy_faithful|]. split; [exact set_inplace_faithful|exact newvar_inplace_faithful]. Qed.

Theorem step_faithful im : impl_faithful im -> forall w o w' lg,
  step im w o = Some (w', lg) -> faithful (hp w) (hp w') lg.
Proof.
  intros [Fe [Fs Fn]] w o w' lg H. destruct o as [c|src p| |src k v|src k v]; simpl in H.
  - inversion H; subst. simpl. apply preserved_faithful. apply preserved_app.
  - destruct (nth_error (slices w) src) as [s|]; [|discriminate].
    destruct (i_exts im (hp w) s p) as [[h' s'] lg'] eqn:E. inversion H; subst. simpl. eapply Fe; eauto.
  - inversion H; subst. simpl. apply preserved_faithful. apply preserved_app.
  - destruct (nth_error (gstates w) src) as [g|]; [|discriminate].
    destruct (i_set im (hp w) g k v) as [[h' g'] lg'] eqn:E. inversion H; subst. simpl. eapply Fs; eauto.
  - destruct (nth_error (gstates w) src) as [g|]; [|discriminate].
    destruct (i_newvar im (hp w) g k v) as [[h' g'] lg'] eqn:E. inversion H; subst. simpl. eapply Fn; eauto.
Qed.

(* ---------- the code: every write of a step targets an object allocated by that step ---------- *)

Lemma step_code : forall w o w' lg, step impl_code w o = Some (w', lg) ->
  (forall id i, In (id, i) lg -> length (hp w) <= id < length (hp w')) /\
  length (hp w) <= length (hp w') /\
  (world_ok w -> world_ok w') /\
  (exists ns, slices w' = slices w ++ ns) /\ (exists ng, gstates w' = gstates w ++ ng).
Proof.
  intros w o w' lg H. destruct o as [c|src p| |src k v|src k v]; unfold step in H;
    cbn [impl_code i_exts i_set i_newvar] in H.
  - destruct (make_slice (hp w) c) as [[h' s'] lg'] eqn:E.
    destruct (make_slice_spec _ _ _ _ _ E) as [P [L [A Hl]]].
    inversion H; subst; clear H. cbn [hp slices gstates] in *.
    split; [intros id i []|]. split; [lia|]. split.
    + intros [Hs Hg]. split; cbn [hp slices gstates].
      * intros s Hin. apply in_app_or in Hin. destruct Hin as [Hin|[Hin|[]]].
        -- specialize (Hs s Hin). lia.
        -- subst s. lia.
      * intros g Hin. specialize (Hg g Hin). lia.
    + split; eexists; [reflexivity|symmetry; apply app_nil_r].
  - destruct (nth_error (slices w) src) as [s|] eqn:En; [|discriminate].
    destruct (exts_copy (hp w) s p) as [[h' s'] lg'] eqn:E.
    destruct (exts_copy_spec _ _ _ _ _ _ E) as [P [L [A [Fr [Hid _]]]]].
    inversion H; subst; clear H. cbn [hp slices gstates] in *.
    split. { intros id i Hin. rewrite (Hid id i Hin). lia. }
    split; [lia|]. split.
    + intros [Hs Hg]. split; cbn [hp slices gstates].
      * intros s0 Hin. apply in_app_or in Hin. destruct Hin as [Hin|[Hin|[]]].
        -- specialize (Hs s0 Hin). lia.
        -- subst s0. lia.
      * intros g Hin. specialize (Hg g Hin). lia.
    + split; eexists; [reflexivity|symmetry; apply app_nil_r].
  - destruct (new_gstate (hp w)) as [[h' g'] lg'] eqn:E.
    destruct (new_gstate_spec _ _ _ _ E) as [P [L [A1 [A2 Hl]]]].
    inversion H; subst; clear H. cbn [hp slices gstates] in *.
    split; [intros id i []|]. split; [lia|]. split.
    + intros [Hs Hg]. split; cbn [hp slices gstates].
      * intros s Hin. specialize (Hs s Hin). lia.
      * intros g Hin. apply in_app_or in Hin. destruct Hin as [Hin|[Hin|[]]].
        -- specialize (Hg g Hin). lia.
        -- subst g. lia.
    + split; eexists; [symmetry; apply app_nil_r|reflexivity].
  - destruct (nth_error (gstates w) src) as [g|] eqn:En; [|discriminate].
    destruct (set_copy (hp w) g k v) as [[h' g'] lg'] eqn:E.
    destruct (set_copy_spec _ _ _ _ _ _ _ E) as [P [L [A1 [A2 [Hl _]]]]].
    inversion H; subst; clear H. cbn [hp slices gstates] in *.
    split. { intros id i [Hin|[]]. inversion Hin; subst. lia. }
    split; [lia|]. split.
    + intros [Hs Hg]. split; cbn [hp slices gstates].
      * intros s Hin. specialize (Hs s Hin). lia.
      * intros g0 Hin. apply in_app_or in Hin. destruct Hin as [Hin|[Hin|[]]].
        -- specialize (Hg g0 Hin). lia.
        -- subst g0. lia.
    + split; eexists; [symmetry; apply app_nil_r|reflexivity].
  - destruct (nth_error (gstates w) src) as [g|] eqn:En; [|discriminate].
    destruct (newvar_copy (hp w) g k v) as [[h' g'] lg'] eqn:E.
    destruct (newvar_copy_spec _ _ _ _ _ _ _ E) as [P [L [A1 [A2 [Hl _]]]]].
    inversion H; subst; clear H. cbn [hp slices gstates] in *.
    split. { intros id i [Hin|[]]. inversion Hin; subst. lia. }
    split; [lia|]. split.
    + intros [Hs Hg]. split; cbn [hp slices gstates].
      * intros s Hin. specialize (Hs s Hin). lia.
      * intros g0 Hin. apply in_app_or in Hin. destruct Hin as [Hin|[Hin|[]]].
        -- specialize (Hg g0 Hin). lia.
        -- subst g0. apply nth_error_In in En. specialize (Hg g En). lia.
    + split; eexists; [symmetry; apply app_nil_r|reflexivity].
Qed.

(* hence (with completeness of the log) no existing object changes *)
Lemma step_code_preserved w o w' lg : step impl_code w o = Some (w', lg) -> preserved (hp w) (hp w').
Proof.
  intros H. apply (fresh_faithful_preserved _ _ lg).
  - intros id i Hin. apply (proj1 (step_code _ _ _ _ H) id i Hin).
  - apply (step_faithful impl_code impl_code_faithful _ _ _ _ H).
Qed.

Definition entry_fresh (e : entry) : Prop :=
  let '(n0, n1, lg) := e in forall id i, In (id, i) lg -> n0 <= id < n1.

Lemma run_code : forall ops w w' es, run impl_code w ops = Some (w', es) ->
  Forall entry_fresh es /\ preserved (hp w) (hp w') /\ length (hp w) <= length (hp w') /\
  (world_ok w -> world_ok w') /\
  (forall s, In s (slices w) -> In s (slices w')) /\ (forall g, In g (gstates w) -> In g (gstates w')).
Proof.
  induction ops as [|o r IH]; intros w w' es H; simpl in H.
  - inversion H; subst. split; [constructor|]. split; [apply preserved_refl|]. split; [lia|]. auto.
  - destruct (step impl_code w o) as [[w1 lg]|] eqn:Es; [|discriminate].
    destruct (run impl_code w1 r) as [[w2 es']|] eqn:Er; [|discriminate]. inversion H; subst; clear H.
    destruct (step_code _ _ _ _ Es) as [Hf [L [Hok [[ns Hns] [ng Hng]]]]].
    destruct (IH _ _ _ Er) as [F [P [L' [Hok' [Hs Hg]]]]].
    split. { constructor; [exact Hf|exact F]. }
    split. { eapply preserved_trans; [eapply step_code_preserved; eauto|exact L|exact P]. }
    split; [lia|]. split; [auto|]. split.
    + intros s Hin. apply Hs. rewrite Hns. apply in_or_app. left. exact Hin.
    + intros g Hin. apply Hg. rewrite Hng. apply in_or_app. left. exact Hin.
Qed.

Lemma world_ok_empty : world_ok empty_world.
Proof. split; intros x []. Qed.

(* C07: for every history of the code's operations, in whatever order siblings are extended, every write of an
   operation targets an object allocated by that operation, and therefore the bindings visible through every value
   published before the operation are unchanged afterwards *)
Theorem no_write_to_published : forall ops1 ops2 w1 w2 es1 es2,
  run impl_code empty_world ops1 = Some (w1, es1) -> run impl_code w1 ops2 = Some (w2, es2) ->
  Forall entry_fresh es2 /\
  (forall s, In s (slices w1) -> In s (slices w2) /\ view_slice (hp w2) s = view_slice (hp w1) s) /\
  (forall g, In g (gstates w1) -> In g (gstates w2) /\ view_gstate (hp w2) g = view_gstate (hp w1) g).
Proof.
  intros ops1 ops2 w1 w2 es1 es2 H1 H2.
  destruct (run_code _ _ _ _ H1) as [_ [_ [_ [Hok1 _]]]]. specialize (Hok1 world_ok_empty).
  destruct (run_code _ _ _ _ H2) as [F [P [_ [_ [Hs Hg]]]]]. destruct Hok1 as [Os Og].
  split; [exact F|]. split.
  - intros s Hin. split; [auto|]. apply view_slice_preserved; auto.
  - intros g Hin. split; [auto|]. destruct (Og g Hin). apply view_gstate_preserved; auto.
Qed.

(* the result of extending a published value depends only on that value's view: siblings cannot influence each
   other, and it does not matter how many other operations ran in between *)
Theorem siblings_independent : forall ops0 ops w0 w w' es0 es,
  run impl_code empty_world ops0 = Some (w0, es0) -> w = w0 -> run impl_code w ops = Some (w', es) ->
  (forall s p, In s (slices w) ->
     let '(h1, s1, _) := exts_copy (hp w) s p in let '(h2, s2, _) := exts_copy (hp w') s p in
     view_slice h2 s2 = view_slice h1 s1) /\
  (forall g k v, In g (gstates w) ->
     let '(h1, g1, _) := set_copy (hp w) g k v in let '(h2, g2, _) := set_copy (hp w') g k v in
     view_gstate h2 g2 = view_gstate h1 g1) /\
  (forall g k v, In g (gstates w) ->
     let '(h1, g1, _) := newvar_copy (hp w) g k v in let '(h2, g2, _) := newvar_copy (hp w') g k v in
     view_gstate h2 g2 = view_gstate h1 g1).
Proof.
  intros ops0 ops w0 w w' es0 es H0 -> H.
  destruct (no_write_to_published _ _ _ _ _ _ H0 H) as [_ [Vs Vg]].
  destruct (run_code _ _ _ _ H0) as [_ [_ [_ [Hok _]]]]. specialize (Hok world_ok_empty).
  destruct (run_code _ _ _ _ H) as [_ [P [L _]]]. destruct Hok as [Os Og].
  split; [|split].
  - intros s p Hin.
    destruct (exts_copy (hp w0) s p) as [[h1 s1] l1] eqn:E1. destruct (exts_copy (hp w') s p) as [[h2 s2] l2] eqn:E2.
    destruct (exts_copy_spec _ _ _ _ _ _ E1) as [_ [_ [_ [_ [_ V1]]]]].
    destruct (exts_copy_spec _ _ _ _ _ _ E2) as [_ [_ [_ [_ [_ V2]]]]].
    rewrite V1, V2. f_equal. apply Vs. exact Hin.
  - intros g k v Hin. destruct (Og g Hin) as [O1 O2].
    destruct (set_copy (hp w0) g k v) as [[h1 g1] l1] eqn:E1. destruct (set_copy (hp w') g k v) as [[h2 g2] l2] eqn:E2.
    destruct (set_copy_spec _ _ _ _ _ _ _ E1) as [_ [_ [_ [_ [_ V1]]]]].
    destruct (set_copy_spec _ _ _ _ _ _ _ E2) as [_ [_ [_ [_ [_ V2]]]]].
    rewrite V1 by exact O2. rewrite V2 by lia.
    rewrite !(view_map_eq (hp w0) (hp w')) by (apply P; assumption). reflexivity.
  - intros g k v Hin. destruct (Og g Hin) as [O1 O2].
    destruct (newvar_copy (hp w0) g k v) as [[h1 g1] l1] eqn:E1.
    destruct (newvar_copy (hp w') g k v) as [[h2 g2] l2] eqn:E2.
    destruct (newvar_copy_spec _ _ _ _ _ _ _ E1) as [_ [_ [_ [_ [_ V1]]]]].
    destruct (newvar_copy_spec _ _ _ _ _ _ _ E2) as [_ [_ [_ [_ [_ V2]]]]].
    rewrite V1 by exact O1. rewrite V2 by lia.
    rewrite !(view_map_eq (hp w0) (hp w')) by (apply P; assumption). reflexivity.
Qed.

(* running the same operation again on the same published input gives an equal view and leaves the first result and
   the input as they were *)
Theorem rerun_exts : forall h s p h1 s1 l1 h2 s2 l2, arr s < length h ->
  exts_copy h s p = (h1, s1, l1) -> exts_copy h1 s p = (h2, s2, l2) ->
  view_slice h2 s2 = view_slice h1 s1 /\ view_slice h2 s1 = view_slice h1 s1 /\ view_slice h2 s = view_slice h s.
Proof.
  intros h s p h1 s1 l1 h2 s2 l2 L E1 E2.
  destruct (exts_copy_spec _ _ _ _ _ _ E1) as [P1 [L1 [A1 [_ [_ V1]]]]].
  destruct (exts_copy_spec _ _ _ _ _ _ E2) as [P2 [L2 [A2 [_ [_ V2]]]]].
  assert (Vs : view_slice h1 s = view_slice h s) by (apply view_slice_preserved; assumption).
  split; [rewrite V2, V1, Vs; reflexivity|]. split.
  - apply view_slice_preserved; [exact P2|lia].
  - rewrite <- Vs. apply view_slice_preserved; [exact P2|lia].
Qed.

Theorem rerun_set : forall h g k v h1 g1 l1 h2 g2 l2, subs g < length h -> gvars g < length h ->
  set_copy h g k v = (h1, g1, l1) -> set_copy h1 g k v = (h2, g2, l2) ->
  view_gstate h2 g2 = view_gstate h1 g1 /\ view_gstate h2 g1 = view_gstate h1 g1 /\
  view_gstate h2 g = view_gstate h g.
Proof.
  intros h g k v h1 g1 l1 h2 g2 l2 Ls Lv E1 E2.
  destruct (set_copy_spec _ _ _ _ _ _ _ E1) as [P1 [L1 [A1 [B1 [_ V1]]]]].
  destruct (set_copy_spec _ _ _ _ _ _ _ E2) as [P2 [L2 [A2 [B2 [_ V2]]]]].
  assert (Vg : view_gstate h1 g = view_gstate h g) by (apply view_gstate_preserved; assumption).
  split.
  - rewrite V2 by lia. rewrite V1 by exact Lv.
    rewrite !(view_map_eq h h1) by (apply P1; assumption). reflexivity.
  - split.
    + apply view_gstate_preserved; [exact P2|lia|lia].
    + rewrite <- Vg. apply view_gstate_preserved; [exact P2|lia|lia].
Qed.

(* ---------- the breaking variants are refuted by concrete histories ---------- *)

Definition pA : cell := (0%N, TAtom (ASym 353%N)).
Definition pB : cell := (0%N, TAtom (ASym 354%N)).

(* a slice with spare capacity, then two extensions of the SAME parent (the two branches of a disjunction) *)
Definition hist_parent : list op := [OpMake 2; OpExts 0 pA].
Definition hist_sibling2 : list op := [OpExts 0 pB].

Theorem refuted_append : exists w1 es1 w2 es2 s,
  run impl_append empty_world hist_parent = Some (w1, es1) /\ run impl_append w1 hist_sibling2 = Some (w2, es2) /\
  In s (slices w1) /\ view_slice (hp w1) s = [Some pA] /\ view_slice (hp w2) s = [Some pB].
Proof.
  do 4 eexists. exists (mkSlice 0 1 2). split; [vm_compute; reflexivity|]. split; [vm_compute; reflexivity|].
  split; [right; left; reflexivity|]. split; reflexivity.
Qed.

(* the same history with the code's exts: the first sibling still sees its own pair *)
Lemma code_not_refuted : exists w1 es1 w2 es2 s,
  run impl_code empty_world hist_parent = Some (w1, es1) /\ run impl_code w1 hist_sibling2 = Some (w2, es2) /\
  In s (slices w1) /\ view_slice (hp w1) s = [Some pA] /\ view_slice (hp w2) s = [Some pA] /\
  view_slice (hp w2) (mkSlice 2 1 1) = [Some pB] /\ In (mkSlice 2 1 1) (slices w2).
Proof.
  do 4 eexists. exists (mkSlice 1 1 1). split; [vm_compute; reflexivity|]. split; [vm_compute; reflexivity|].
  split; [right; left; reflexivity|]. repeat split; try reflexivity. right; right; left; reflexivity.
Qed.

Definition gA : term := TAtom (ASym 353%N).
Definition gB : term := TAtom (ASym 354%N).
Definition ghist_parent : list op := [OpNewState; OpSet 0 7%N gA].
Definition ghist_sibling2 : list op := [OpSet 0 7%N gB].

(* Set without copying: after the second sibling, both the parent state and the first sibling see the second
   sibling's binding *)
Theorem refuted_set_inplace : exists w1 es1 w2 es2 g0 g1,
  run impl_inplace empty_world ghist_parent = Some (w1, es1) /\ run impl_inplace w1 ghist_sibling2 = Some (w2, es2) /\
  nth_error (gstates w1) 0 = Some g0 /\ nth_error (gstates w1) 1 = Some g1 /\
  fst (view_gstate (hp w1) g1) = [(7%N, gA)] /\ fst (view_gstate (hp w2) g1) = [(7%N, gB)] /\
  fst (view_gstate (hp w2) g0) = [(7%N, gB)].
Proof.
  do 4 eexists. exists (mkG 0 1), (mkG 0 1). split; [vm_compute; reflexivity|]. split; [vm_compute; reflexivity|].
  repeat split; reflexivity.
Qed.

Lemma code_set_not_refuted : exists w1 es1 w2 es2 g0 g1 g2,
  run impl_code empty_world ghist_parent = Some (w1, es1) /\ run impl_code w1 ghist_sibling2 = Some (w2, es2) /\
  nth_error (gstates w2) 0 = Some g0 /\ nth_error (gstates w2) 1 = Some g1 /\ nth_error (gstates w2) 2 = Some g2 /\
  fst (view_gstate (hp w2) g0) = [] /\ fst (view_gstate (hp w2) g1) = [(7%N, gA)] /\
  fst (view_gstate (hp w2) g2) = [(7%N, gB)].
Proof.
  do 4 eexists. exists (mkG 0 1), (mkG 2 3), (mkG 4 5). split; [vm_compute; reflexivity|].
  split; [vm_compute; reflexivity|]. repeat split; reflexivity.
Qed.

(* ---------- stream cells: CarCdr memoises ---------- *)

Section CellSpec.
  Variable procs : nat -> option object.
  Local Notation carcdr := (carcdr procs).
  Local Notation traverse := (traverse procs).

  Lemma carcdr_length h c h1 r lg : carcdr h c = (h1, r, lg) -> length h <= length h1.
  Proof.
    unfold MemModel.carcdr. destruct (nth_error h c) as [[cs|es|st [p|] [m|]]|]; intros E;
      try (inversion E; subst; lia).
    destruct (procs p) as [o|]; inversion E; subst; rewrite upd_length; [rewrite app_length; simpl|]; lia.
  Qed.

  (* after the first call, every later call returns the same pair, leaves the heap as it is, and writes nothing -
     except that a proc that returned nil is run again and `mem = nil` is stored again (no change) *)
  Theorem carcdr_memo h c h1 r lg : carcdr h c = (h1, r, lg) ->
    exists lg2, carcdr h1 c = (h1, r, lg2) /\ (lg2 = [] \/ snd r = None).
  Proof.
    unfold MemModel.carcdr. destruct (nth_error h c) as [[cs|es|st [p|] [m|]]|] eqn:En; intros E;
      try (inversion E; subst; rewrite En; eexists; split; [reflexivity|left; reflexivity]).
    destruct (procs p) as [o|] eqn:Ep; inversion E; subst; clear E.
    - assert (Lc : c < length h) by (apply nth_error_Some; congruence).
      rewrite nth_error_upd_eq by (rewrite app_length; simpl; lia).
      eexists; split; [reflexivity|left; reflexivity].
    - rewrite (upd_same h c _ En). rewrite En, Ep. rewrite (upd_same h c _ En).
      eexists; split; [reflexivity|right; reflexivity].
  Qed.

  Definition stable (h : heap) (c : objid) (r : option nat * option objid) : Prop :=
    c < length h /\ exists lg, carcdr h c = (h, r, lg).

  Lemma carcdr_stable_after h c h1 r lg : c < length h -> carcdr h c = (h1, r, lg) -> stable h1 c r.
  Proof.
    intros L E. split; [pose proof (carcdr_length _ _ _ _ _ E); lia|].
    destruct (carcdr_memo _ _ _ _ _ E) as [lg2 [H _]]. eauto.
  Qed.

  (* forcing one cell never changes what a settled cell returns *)
  Lemma carcdr_preserves_stable h c r d h' r' lg' : stable h c r -> carcdr h d = (h', r', lg') -> stable h' c r.
  Proof.
    intros [Lc [lg Hc]] Hd. pose proof (carcdr_length _ _ _ _ _ Hd) as Ll.
    split; [lia|].
    unfold MemModel.carcdr in Hd.
    destruct (nth_error h d) as [[cs|es|st [p|] [m|]]|] eqn:End;
      try (inversion Hd; subst; eauto; fail).
    destruct (procs p) as [o|] eqn:Ep; inversion Hd; subst; clear Hd.
    - (* d is forced: a new cell is allocated and d.mem written *)
      destruct (Nat.eq_dec c d) as [->|Ncd].
      + exfalso. unfold MemModel.carcdr in Hc. rewrite End, Ep in Hc. inversion Hc as [[Hh Hr Hl]].
        apply (f_equal (@length object)) in Hh. rewrite upd_length, app_length in Hh. simpl in Hh. lia.
      + assert (Enc : nth_error (upd (h ++ [o]) d (OCell st (Some p) (Some (length h)))) c = nth_error h c).
        { rewrite nth_error_upd_neq by congruence. apply nth_error_app1. exact Lc. }
        unfold MemModel.carcdr in *. rewrite Enc.
        destruct (nth_error h c) as [[cs|es|st' [p'|] [m'|]]|] eqn:Enc';
          try (inversion Hc; subst; eauto; fail).
        destruct (procs p') as [o'|] eqn:Ep'.
        * exfalso. inversion Hc as [[Hh Hr Hl]].
          apply (f_equal (@length object)) in Hh. rewrite upd_length, app_length in Hh. simpl in Hh. lia.
        * injection Hc as Hh Hr Hl. subst r. rewrite upd_same by exact Enc. eauto.
    - rewrite (upd_same h d _ End). eauto.
  Qed.

  Lemma traverse_length : forall f h c h' l, traverse f h c = (h', l) -> length h <= length h'.
  Proof.
    induction f as [|f IH]; intros h c h' l H; simpl in H.
    - inversion H; subst; lia.
    - destruct c as [c0|]; [|inversion H; subst; lia].
      destruct (carcdr h c0) as [[h1 [st cdr]] lg] eqn:E1.
      destruct (traverse f h1 cdr) as [h2 l'] eqn:E2. inversion H; subst.
      apply carcdr_length in E1. apply IH in E2. lia.
  Qed.

  Lemma traverse_preserves_stable : forall f h d h' l c r, stable h c r -> traverse f h d = (h', l) -> stable h' c r.
  Proof.
    induction f as [|f IH]; intros h d h' l c r Hs H; simpl in H.
    - inversion H; subst; exact Hs.
    - destruct d as [d0|]; [|inversion H; subst; exact Hs].
      destruct (carcdr h d0) as [[h1 [st cdr]] lg] eqn:E1.
      destruct (traverse f h1 cdr) as [h2 l'] eqn:E2. inversion H; subst.
      eapply IH; [|exact E2]. eapply carcdr_preserves_stable; eauto.
  Qed.

  (* re-traversing an already forced stream yields the same sequence of states and changes nothing *)
  Theorem retraverse : forall f h c h1 l, traverse f h c = (h1, l) -> traverse f h1 c = (h1, l).
  Proof.
    induction f as [|f IH]; intros h c h1 l H.
    - simpl in *. inversion H; subst. reflexivity.
    - destruct c as [c0|]; [|simpl in *; inversion H; subst; reflexivity].
      simpl in H. destruct (carcdr h c0) as [[h' [st cdr]] lg] eqn:E1.
      destruct (traverse f h' cdr) as [h2 l'] eqn:E2. inversion H; subst h2 l; clear H.
      destruct (Nat.lt_ge_cases c0 (length h)) as [Lc|Lc].
      + pose proof (carcdr_stable_after _ _ _ _ _ Lc E1) as S1.
        destruct (traverse_preserves_stable _ _ _ _ _ _ _ S1 E2) as [_ [lg2 E3]].
        simpl. rewrite E3. rewrite (IH _ _ _ _ E2). reflexivity.
      + (* a dangling reference: nothing happens, twice *)
        assert (En : nth_error h c0 = None) by (apply nth_error_None; exact Lc).
        unfold MemModel.carcdr in E1. rewrite En in E1.
        injection E1 as Eh Est Ecdr Elg. subst h' st cdr lg.
        assert (Hh : h1 = h /\ l' = []) by (destruct f; simpl in E2; inversion E2; auto).
        destruct Hh as [-> ->].
        simpl. unfold MemModel.carcdr. rewrite En. rewrite E2. reflexivity.
  Qed.
End CellSpec.

(* ---------- the in-place sort of Substitutions.String(): bindings-as-a-map are unchanged ---------- *)

Lemma assv_in_iff s : NoDup (map fst s) -> forall x t, assv x s = Some t <-> In (x, t) s.
Proof.
  induction s as [|[k v] s IH]; simpl; intros Hnd x t.
  - split; [discriminate|intros []].
  - inversion Hnd as [|? ? Hk Hnd']; subst. destruct (N.eqb_spec k x) as [->|Ne].
    + split.
      * intros E. inversion E; subst. left; reflexivity.
      * intros [E|Hin]; [inversion E; reflexivity|].
        exfalso. apply Hk. apply in_map_iff. exists (x, t). split; [reflexivity|exact Hin].
    + rewrite (IH Hnd'). split; [intros Hin; right; exact Hin|].
      intros [E|Hin]; [inversion E; congruence|exact Hin].
Qed.

Theorem assv_perm : forall s s', NoDup (map fst s) -> Permutation s s' -> forall x, assv x s = assv x s'.
Proof.
  intros s s' Hnd P x.
  assert (Hnd' : NoDup (map fst s')) by (eapply Permutation_NoDup; [apply Permutation_map; exact P|exact Hnd]).
  destruct (assv x s) as [t|] eqn:E.
  - symmetry. apply (assv_in_iff s' Hnd'). eapply Permutation_in; [exact P|]. apply (assv_in_iff s Hnd). exact E.
  - destruct (assv x s') as [t'|] eqn:E'; [|reflexivity].
    apply (assv_in_iff s' Hnd') in E'. apply (Permutation_in _ (Permutation_sym P)) in E'.
    apply (assv_in_iff s Hnd) in E'. congruence.
Qed.

Print Assumptions step_faithful.
Print Assumptions no_write_to_published.
Print Assumptions siblings_independent.
Print Assumptions rerun_exts.
Print Assumptions rerun_set.
Print Assumptions refuted_append.
Print Assumptions refuted_set_inplace.
Print Assumptions carcdr_memo.
Print Assumptions retraverse.
Print Assumptions assv_perm.
