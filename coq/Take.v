(* Laws of `take` (the model of takeStream): soundness/completeness w.r.t. InStream, fuel monotonicity,
   length bounds, exactness, negative n, prefix property, totality. *)
From Coq Require Import List NArith ZArith Bool Lia.
From GMK Require Import Term Unify Goal Stream Den.
Import ListNotations.

Section Take.
  Variable ds : defs.
  Variable uf : term -> term -> subst -> nat.

  Local Notation take := (take ds uf).
  Local Notation force := (force ds uf).
  Local Notation InStream := (InStream ds uf).
  Local Notation Finite := (Finite ds uf).
  Local Notation ReachErr := (ReachErr ds uf).

  (* one-step unfolding *)
  Lemma take_S : forall f n s,
    take (S f) n s =
    if Z.eqb n 0 then Some []
    else match s with
         | SNil => Some []
         | SCons a tl => option_map (cons a) (take f (n - 1) tl)
         | SSusp th => take f n (force th)
         | SErr => None
         end.
  Proof. reflexivity. Qed.

  Lemma option_map_cons_some : forall (a : state) o l,
    option_map (cons a) o = Some l -> exists l0, o = Some l0 /\ l = a :: l0.
  Proof.
    intros a [l0|] l H; simpl in H; [|discriminate].
    inversion H; subst. eauto.
  Qed.

  (* 1 *)
  Theorem take_sound : forall f n s l x,
    take f n s = Some l -> In x l -> InStream x s.
  Proof.
    induction f as [|f IH]; intros n s l x H Hin; [discriminate|].
    rewrite take_S in H.
    destruct (Z.eqb n 0).
    - inversion H; subst. destruct Hin.
    - destruct s as [|a tl|th|].
      + inversion H; subst. destruct Hin.
      + apply option_map_cons_some in H. destruct H as [l0 [H ->]].
        destruct Hin as [->|Hin].
        * apply IS_here.
        * apply IS_later. eapply IH; eauto.
      + apply IS_force. eapply IH; eauto.
      + discriminate.
  Qed.

  (* 2 *)
  Lemma take_complete_pos : forall x s,
    InStream x s -> exists f n l, (0 < n)%Z /\ take f n s = Some l /\ In x l.
  Proof.
    intros x s H. induction H as [tl | a tl H IH | th H IH].
    - exists 2%nat, 1%Z, [x]. split; [lia|]. split; [reflexivity|]. left; reflexivity.
    - destruct IH as [f [n [l [Hn [Ht Hin]]]]].
      exists (S f), (n + 1)%Z, (a :: l). split; [lia|]. split.
      + rewrite take_S. destruct (Z.eqb_spec (n + 1) 0); [lia|].
        replace (n + 1 - 1)%Z with n by lia. rewrite Ht. reflexivity.
      + right; assumption.
    - destruct IH as [f [n [l [Hn [Ht Hin]]]]].
      exists (S f), n, l. split; [assumption|]. split; [|assumption].
      rewrite take_S. destruct (Z.eqb_spec n 0); [lia|]. assumption.
  Qed.

  Theorem take_complete : forall x s,
    InStream x s -> exists f n l, take f n s = Some l /\ In x l.
  Proof.
    intros x s H. destruct (take_complete_pos x s H) as [f [n [l [_ H']]]]. eauto.
  Qed.

  (* 3 *)
  Theorem take_fuel_mono : forall f f' n s l,
    take f n s = Some l -> (f <= f')%nat -> take f' n s = Some l.
  Proof.
    induction f as [|f IH]; intros f' n s l H Hle; [discriminate|].
    destruct f' as [|f']; [lia|].
    rewrite take_S in *.
    destruct (Z.eqb n 0); [assumption|].
    destruct s as [|a tl|th|]; try assumption.
    - apply option_map_cons_some in H. destruct H as [l0 [H ->]].
      rewrite (IH f' _ _ _ H); [reflexivity|lia].
    - apply IH; [assumption|lia].
  Qed.

  (* 9 *)
  Theorem take_deterministic_prefix : forall f f' n s l l',
    take f n s = Some l -> take f' n s = Some l' -> l = l'.
  Proof.
    intros f f' n s l l' H H'.
    apply (take_fuel_mono f (Nat.max f f')) in H; [|lia].
    apply (take_fuel_mono f' (Nat.max f f')) in H'; [|lia].
    congruence.
  Qed.

  (* 4 *)
  Theorem take_length : forall f n s l,
    take f n s = Some l -> (0 <= n)%Z -> (length l <= Z.to_nat n)%nat.
  Proof.
    induction f as [|f IH]; intros n s l H Hn; [discriminate|].
    rewrite take_S in H.
    destruct (Z.eqb_spec n 0).
    - inversion H; subst. simpl. lia.
    - destruct s as [|a tl|th|].
      + inversion H; subst. simpl. lia.
      + apply option_map_cons_some in H. destruct H as [l0 [H ->]].
        apply IH in H; [|lia]. simpl. lia.
      + eapply IH; eauto.
      + discriminate.
  Qed.

  (* 5 *)
  Theorem take_exact : forall f n s l,
    take f n s = Some l -> (0 <= n)%Z -> (length l < Z.to_nat n)%nat ->
    Finite s /\ forall x, InStream x s -> In x l.
  Proof.
    induction f as [|f IH]; intros n s l H Hn Hlen; [discriminate|].
    rewrite take_S in H.
    destruct (Z.eqb_spec n 0).
    - inversion H; subst. simpl in Hlen. lia.
    - destruct s as [|a tl|th|].
      + split; [constructor|]. intros x Hx. inversion Hx.
      + apply option_map_cons_some in H. destruct H as [l0 [H ->]].
        destruct (IH _ _ _ H) as [Hf Hall]; [lia|simpl in Hlen; lia|].
        split; [constructor; assumption|].
        intros x Hx. inversion Hx; subst; [left; reflexivity|right; auto].
      + destruct (IH _ _ _ H Hn Hlen) as [Hf Hall].
        split; [constructor; assumption|].
        intros x Hx. inversion Hx; subst. auto.
      + discriminate.
  Qed.

  (* 6 *)
  Theorem take_negative : forall f n s l,
    (n < 0)%Z -> take f n s = Some l ->
    Finite s /\ forall x, InStream x s <-> In x l.
  Proof.
    induction f as [|f IH]; intros n s l Hn H; [discriminate|].
    assert (Hsound := fun x => take_sound _ _ _ _ x H).
    rewrite take_S in H.
    destruct (Z.eqb_spec n 0); [lia|].
    destruct s as [|a tl|th|].
    - split; [constructor|]. intros x; split; [intros Hx; inversion Hx|apply Hsound].
    - apply option_map_cons_some in H. destruct H as [l0 [H ->]].
      destruct (IH _ _ _ (ltac:(lia) : (n - 1 < 0)%Z) H) as [Hf Hall].
      split; [constructor; assumption|].
      intros x; split; [|apply Hsound].
      intros Hx. inversion Hx; subst; [left; reflexivity|right; apply Hall; assumption].
    - destruct (IH _ _ _ Hn H) as [Hf Hall].
      split; [constructor; assumption|].
      intros x; split; [|apply Hsound].
      intros Hx. inversion Hx; subst. apply Hall; assumption.
    - discriminate.
  Qed.

  (* 7 *)
  Theorem take_prefix : forall f f' n s l l',
    take f n s = Some l -> take f' (n + 1) s = Some l' -> (0 <= n)%Z ->
    exists tl, l' = l ++ tl /\ (length tl <= 1)%nat.
  Proof.
    induction f as [|f IH]; intros f' n s l l' H H' Hn; [discriminate|].
    destruct f' as [|f']; [discriminate|].
    rewrite take_S in H.
    destruct (Z.eqb_spec n 0) as [->|Hn0].
    - inversion H; subst. exists l'. split; [reflexivity|].
      apply take_length in H'; [|lia]. simpl in H'. exact H'.
    - rewrite take_S in H'.
      destruct (Z.eqb_spec (n + 1) 0); [lia|].
      destruct s as [|a tl|th|].
      + inversion H; inversion H'; subst. exists []. split; [reflexivity|simpl; lia].
      + apply option_map_cons_some in H. destruct H as [l0 [H ->]].
        apply option_map_cons_some in H'. destruct H' as [l0' [H' ->]].
        replace (n + 1 - 1)%Z with (n - 1 + 1)%Z in H' by lia.
        destruct (IH _ _ _ _ _ H H') as [t [-> Ht]]; [lia|].
        exists t. split; [reflexivity|assumption].
      + eapply IH; eauto.
      + discriminate.
  Qed.

  (* 8a *)
  Theorem take_finite_total : forall s,
    Finite s -> ~ ReachErr s -> forall n, exists f l, take f n s = Some l.
  Proof.
    intros s H. induction H as [|a tl H IH|th H IH]; intros Hne n.
    - exists 1%nat, []. simpl. destruct (Z.eqb n 0); reflexivity.
    - destruct (IH (fun He => Hne (RE_later _ _ _ _ He)) (n - 1)%Z) as [f [l Hl]].
      exists (S f). rewrite take_S. destruct (Z.eqb n 0); [eauto|].
      rewrite Hl. simpl. eauto.
    - destruct (IH (fun He => Hne (RE_force _ _ _ He)) n) as [f [l Hl]].
      exists (S f). rewrite take_S. destruct (Z.eqb n 0); eauto.
  Qed.

  (* 8b: k mature cells are reachable within finitely many forces *)
  Inductive AtLeast : nat -> stream -> Prop :=
  | AL_zero s : AtLeast O s
  | AL_cons k a tl : AtLeast k tl -> AtLeast (S k) (SCons a tl)
  | AL_force k th : AtLeast k (force th) -> AtLeast k (SSusp th).

  Lemma take_total_gen : forall k s,
    AtLeast k s -> forall n, (0 <= n)%Z -> Z.to_nat n = k ->
    exists f l, take f n s = Some l /\ length l = k.
  Proof.
    intros k s H. induction H as [s|k a tl H IH|k th H IH]; intros n Hn Hk.
    - exists 1%nat, []. split; [|reflexivity].
      simpl. destruct (Z.eqb_spec n 0); [reflexivity|lia].
    - destruct (IH (n - 1)%Z) as [f [l [Hl Hlen]]]; [lia|lia|].
      exists (S f), (a :: l). split; [|simpl; lia].
      rewrite take_S. destruct (Z.eqb_spec n 0); [lia|]. rewrite Hl. reflexivity.
    - destruct (IH n Hn Hk) as [f [l [Hl Hlen]]].
      destruct (Z.eqb_spec n 0) as [->|Hn0].
      + exists 1%nat, []. split; [reflexivity|]. simpl in Hk. assumption.
      + exists (S f), l. split; [|assumption].
        rewrite take_S. destruct (Z.eqb_spec n 0); [lia|]. assumption.
  Qed.

  Theorem take_total_n : forall n s,
    AtLeast (Z.to_nat n) s -> (0 < n)%Z ->
    exists f l, take f n s = Some l /\ length l = Z.to_nat n.
  Proof.
    intros n s H Hn. apply (take_total_gen _ _ H); [lia|reflexivity].
  Qed.

  (* converse: what take returns is a lower bound on the number of reachable mature cells *)
  Theorem take_atleast : forall f n s l,
    take f n s = Some l -> AtLeast (length l) s.
  Proof.
    induction f as [|f IH]; intros n s l H; [discriminate|].
    rewrite take_S in H.
    destruct (Z.eqb n 0).
    - inversion H; subst. constructor.
    - destruct s as [|a tl|th|].
      + inversion H; subst. constructor.
      + apply option_map_cons_some in H. destruct H as [l0 [H ->]].
        simpl. constructor. eapply IH; eauto.
      + constructor. eapply IH; eauto.
      + discriminate.
  Qed.
End Take.

Print Assumptions take_sound.
Print Assumptions take_complete.
Print Assumptions take_fuel_mono.
Print Assumptions take_deterministic_prefix.
Print Assumptions take_length.
Print Assumptions take_exact.
Print Assumptions take_negative.
Print Assumptions take_prefix.
Print Assumptions take_finite_total.
Print Assumptions take_total_n.
Print Assumptions take_atleast.
