(* L6: the grammar of sexpr.bnf as an inductive derivation relation with semantic values, defined by recursion over the
   production list of gen/GrammarGen.v (so an edit of sexpr.bnf changes the relation), and an executable
   recursive-descent oracle `rd` for it. No proofs in this file (GrammarSpec.v proves rd sound and complete).

   derives n w v : nonterminal n generates the token list w, and the semantic actions of the productions used
                   build the tree v (a failing converter -- ParseInt/ParseFloat/Unquote error -- generates nothing). *)
From Coq Require Import List NArith ZArith Bool.
From GMK Require Import TableTypes gen.Tables gen.GrammarGen LexDriver LRDriver.
Import ListNotations.

Section Grammar.
Context (o : oracles).

Inductive derives : nat -> list token -> sx -> Prop :=
| D_prod : forall lhs rhs t w X v,
    In (lhs, rhs, t) g_prods ->
    derives_seq rhs w X ->
    apply_tmpl o t X = ROk (ASx v) ->
    derives lhs w v
with derives_seq : list symbol -> list token -> list attr -> Prop :=
| DS_nil : derives_seq [] [] []
| DS_T : forall ty tok rest w X,
    fst tok = ty -> derives_seq rest w X -> derives_seq (T ty :: rest) (tok :: w) (ATok tok :: X)
| DS_NT : forall n w1 v rest w X,
    derives n w1 v -> derives_seq rest w X -> derives_seq (NT n :: rest) (w1 ++ w) (ASx v :: X).

(* the sentences of the grammar with their trees *)
Definition sentence (w : list token) (v : sx) : Prop := derives g_start w v.

(* ---- recursive descent for this grammar (token ids as in g_terminals; GrammarSpec.v checks the numbering) ---- *)
Definition t_lp : nat := 2.
Definition t_rp : nat := 3.
Definition t_space : nat := 4.
Definition t_dot : nat := 5.
Definition nt_SExpr : nat := 1.
Definition nt_Pair : nat := 2.
Definition nt_ContinueList : nat := 3.
Definition nt_Atom : nat := 4.

(* the converter of the Atom production whose right-hand side is the single terminal ty *)
Definition atom_tmpl (ty : nat) : option tmpl :=
  match find (fun '(lhs, rhs, _) => Nat.eqb lhs nt_Atom &&
                                    match rhs with [T t] => Nat.eqb t ty | _ => false end) g_prods with
  | Some (_, _, t) => Some t
  | None => None
  end.

Definition is_ty (ty : nat) (t : token) : bool := Nat.eqb (fst t) ty.

Fixpoint rd_sexpr (f : nat) (toks : list token) : option (sx * list token) :=
  match f with
  | O => None
  | S f' =>
    match toks with
    | [] => None
    | tok :: r =>
      match atom_tmpl (fst tok) with
      | Some t => match conv o t (snd tok) with ROk (ASx v) => Some (v, r) | _ => None end
      | None =>
        if is_ty t_lp tok then
          match r with
          | [] => None
          | tok2 :: r2 =>
            if is_ty t_rp tok2 then Some (XNil, r2)
            else
              match rd_sexpr f' r with
              | None => None
              | Some (a, r3) =>
                match r3 with
                | [] => None
                | t3 :: r4 =>
                  if is_ty t_rp t3 then Some (XCons a XNil, r4)
                  else if is_ty t_space t3 then
                    match r4 with
                    | [] => None
                    | t5 :: r5 =>
                      if is_ty t_dot t5 then
                        match r5 with
                        | [] => None
                        | t6 :: r6 =>
                          if is_ty t_space t6 then
                            match rd_sexpr f' r6 with
                            | Some (d, t7 :: r7) => if is_ty t_rp t7 then Some (XCons a d, r7) else None
                            | _ => None
                            end
                          else None
                        end
                      else
                        match rd_list f' r4 with
                        | Some (d, t7 :: r7) => if is_ty t_rp t7 then Some (XCons a d, r7) else None
                        | _ => None
                        end
                    end
                  else None
                end
              end
          end
        else None
      end
    end
  end
with rd_list (f : nat) (toks : list token) : option (sx * list token) :=
  match f with
  | O => None
  | S f' =>
    match rd_sexpr f' toks with
    | None => None
    | Some (a, r) =>
      match r with
      | t :: r2 =>
        if is_ty t_space t then
          match r2 with
          | t2 :: r3 =>
            if is_ty t_dot t2 then                         (* ContinueList : SExpr space "." space SExpr *)
              match r3 with
              | t3 :: r4 =>
                if is_ty t_space t3 then
                  match rd_sexpr f' r4 with
                  | Some (d, r5) => Some (XCons a d, r5)
                  | None => None
                  end
                else None
              | [] => None
              end
            else
              match rd_list f' r2 with
              | Some (d, r3') => Some (XCons a d, r3')
              | None => None
              end
          | [] => None
          end
        else Some (XCons a XNil, r)
      | [] => Some (XCons a XNil, [])
      end
    end
  end.

(* the whole token list is one SExpr *)
Definition rd (toks : list token) : option sx :=
  match rd_sexpr (S (length toks)) toks with
  | Some (v, []) => Some v
  | _ => None
  end.
End Grammar.
