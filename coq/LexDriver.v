(* L6 model: the Scan loop of sexpr/lexer/lexer.go AS WRITTEN, over `list N` bytes, interpreting gen/Tables.v.
   No proofs in this file.

   Go (lexer.go, func (l *Lexer) Scan):
       if l.pos >= len(l.src) { return EOF token with empty Lit }
       start, end := l.pos, 0;  tok.Type = INVALID;  state, rune1, size := 0, -1, 0
       for state != -1 {
           if l.pos >= len(l.src) { rune1 = -1 } else { rune1, size = utf8.DecodeRune(l.src[l.pos:]); l.pos += size }
           nextState := -1;  if rune1 != -1 { nextState = TransTab[state](rune1) };  state = nextState
           if state != -1 {
               switch { case ActTab[state].Accept != -1: tok.Type = ActTab[state].Accept; end = l.pos
                        case ActTab[state].Ignore != "": start = l.pos; state = 0; if start >= len(l.src) { tok.Type = EOF } }
           } else { if tok.Type == INVALID { end = l.pos } }
       }
       if end > start { l.pos = end; tok.Lit = l.src[start:end] } else { tok.Lit = []byte{} }

   This is NOT a backtracking longest match: the token type is that of the last state ENTERED whose Accept != -1
   (gocc writes Accept: 0 = INVALID for non-final states, so here that is simply the last state), and when the DFA
   dies in a state of type INVALID the offending rune is consumed as part of the INVALID token.
   Line/column bookkeeping is not observable through sexpr.Parse and is omitted.
   Offsets are relative to l.pos at the call (`end` = None until first assigned: Go's initial 0 is never > start). *)
From Coq Require Import List NArith ZArith Bool.
From GMK Require Import TableTypes Utf8 gen.Tables.
Import ListNotations.

(* every way the Go code could panic; the safety theorem says none is reachable *)
Inductive stuck :=
| SIndex            (* index out of range (table row / column / X[i] / empty stack) *)
| SGoto             (* gotoTab entry -1 used as a state *)
| SPopN             (* stack too short for popN *)
| SAttrType         (* attribute of the wrong dynamic type in getStr / getSExpr / r.(sexpr pointer) / action.(shift) *)
| SUnknownAction    (* "unknown action" / "Error recovery led to invalid action" *)
| SEmptyLit.        (* s[0] on an empty literal in ParseVariable *)

(* a token: (Type, Lit) *)
Definition token := (nat * list N)%type.

(* The loop is written over an abstract automaton so that the same loop can be run on the DFA of the tables and on
   the regular expressions of sexpr.bnf (LexSpec.v).
   a_step s r : None = Go would panic (index out of range); Some None = NoState; Some (Some s') = next state.
   a_act s    : None = panic; Some (Accept, Ignore != "") *)
Record automaton (St : Type) := mkAut {
  a_init : St;
  a_step : St -> N -> option (option St);
  a_act : St -> option (Z * bool) }.
Arguments mkAut {St}. Arguments a_init {St}. Arguments a_step {St}. Arguments a_act {St}.

Inductive lexres := LTok (t : token) (rest : list N) | LStuck (r : stuck) | LOOF.

Section Scan.
Context {St : Type} (A : automaton St).

(* the code after the loop: (start, bytes from start) (end) (bytes from l.pos) *)
Definition finish (ty : nat) (start : nat) (sfrom : list N) (end_ : option nat) (rest : list N) : lexres :=
  match end_ with
  | Some e => if (start <? e)%nat
              then LTok (ty, firstn (e - start) sfrom) (skipn (e - start) sfrom)
              else LTok (ty, []) rest
  | None => LTok (ty, []) rest
  end.

Fixpoint scan_loop (fuel : nat) (st : St) (pos : nat) (rest : list N)
         (start : nat) (sfrom : list N) (ty : nat) (end_ : option nat) : lexres :=
  match fuel with
  | O => LOOF
  | S f =>
    match rest with
    | [] => (* rune1 = -1, state = -1 *)
      finish ty start sfrom (if Nat.eqb ty tok_INVALID then Some pos else end_) rest
    | _ =>
      let '(r, size) := decode_rune rest in
      let pos' := (pos + size)%nat in
      let rest' := skipn size rest in
      match a_step A st r with
      | None => LStuck SIndex
      | Some None => finish ty start sfrom (if Nat.eqb ty tok_INVALID then Some pos' else end_) rest'
      | Some (Some st') =>
        match a_act A st' with
        | None => LStuck SIndex
        | Some (acc, ign) =>
          if negb (Z.eqb acc (-1)) then scan_loop f st' pos' rest' start sfrom (Z.to_nat acc) (Some pos')
          else if ign then
            scan_loop f (a_init A) pos' rest' pos' rest'
                      (match rest' with [] => tok_EOF | _ => ty end) end_
          else scan_loop f st' pos' rest' start sfrom ty end_
        end
      end
    end
  end.

(* one call of Scan on the bytes from l.pos; returns the token and the bytes from the new l.pos *)
Definition scan (rest : list N) : lexres :=
  match rest with
  | [] => LTok (tok_EOF, []) []
  | _ => scan_loop (S (length rest)) (a_init A) 0 rest 0 rest tok_INVALID None
  end.

(* how a token stream ends: at the end of the input every further Scan returns EOF *)
Inductive lexend := LEnd | LEStuck (r : stuck) | LEOOF.

(* the tokens returned by successive Scans until l.pos reaches len(l.src) *)
Fixpoint lex_all (fuel : nat) (rest : list N) : list token * lexend :=
  match rest with
  | [] => ([], LEnd)
  | _ =>
    match fuel with
    | O => ([], LEOOF)
    | S f =>
      match scan rest with
      | LTok t rest' => let '(ts, e) := lex_all f rest' in (t :: ts, e)
      | LStuck r => ([], LEStuck r)
      | LOOF => ([], LEOOF)
      end
    end
  end.

Definition lex (bs : list N) : list token * lexend := lex_all (length bs) bs.
End Scan.

(* ---- the DFA of the tables ---- *)
Fixpoint row_cases (cs : list (N * N * nat)) (r : N) : option nat :=
  match cs with
  | [] => None
  | (lo, hi, n) :: cs' => if (N.leb lo r && N.leb r hi)%bool then Some n else row_cases cs' r
  end.

(* TransTab[s](r) *)
Definition dfa_step (tab : list lexrow) (s : nat) (r : N) : option (option nat) :=
  match nth_error tab s with
  | None => None
  | Some row => Some (match row_cases (lr_cases row) r with Some n => Some n | None => lr_default row end)
  end.

Definition dfa_of (tab : list lexrow) (act : list (Z * bool)) : automaton nat :=
  mkAut 0%nat (dfa_step tab) (nth_error act).

Definition dfa : automaton nat := dfa_of lex_trans lex_act.

(* lexer.NewLexer(bs) scanned to the end *)
Definition lex_bytes (bs : list N) : list token * lexend := lex dfa bs.
