(* L2 model: deep-embedded goal programs of micro/mini. No proofs here. *)
From Coq Require Import List NArith ZArith Bool.
From GMK Require Import Term Unify.
Import ListNotations.

(* Program terms: closed apart from de Bruijn indices into the environment (relation parameters and
   variables introduced by CallFresh; index 0 = most recently bound). *)
Inductive pterm := PNil | PAtom (a : atom) | PB (k : nat) | PPair (a d : pterm).

Definition env := list term.

Fixpoint close (e : env) (t : pterm) : term :=
  match t with
  | PNil => TNil
  | PAtom a => TAtom a
  | PB k => nth k e TNil
  | PPair a d => TPair (close e a) (close e d)
  end.

(* environment of a relation body / inlined helper: parameters in order, last parameter = index 0 *)
Definition arg_env (e : env) (args : list pterm) : env := rev (map (close e) args).

Inductive goal :=
| GFail                                   (* micro.FailureO *)
| GSucc                                   (* micro.SuccessO *)
| GEq (t1 t2 : pterm)                     (* micro.EqualO *)
| GConj (g1 g2 : goal)                    (* micro.Conj *)
| GDisj (g1 g2 : goal)                    (* micro.Disj *)
| GFresh (g : goal)                       (* micro.CallFresh: binds index 0 in g *)
| GZzz (g : goal)                         (* micro.Zzz *)
| GCall (r : nat) (args : list pterm)     (* call of a (possibly recursive) relation: body evaluated in the environment of the arguments *)
| GLet (args : list pterm) (g : goal)     (* an inlined non-recursive helper relation: g in the environment of the closed args (args in reverse order: last parameter = index 0) *)
| GConjPlus (z : bool) (gs : list goal)   (* mini.ConjPlus (z = true) / mini.ConjPlusNoZzz *)
| GDisjPlus (z : bool) (gs : list goal)   (* mini.DisjPlus (z = true) / mini.DisjPlusNoZzz *)
| GIfte (c t e : goal)                    (* mini.IfThenElseO *)
| GOnce (g : goal).                       (* mini.OnceO *)

(* mini.Conde: disj+ of conj+ *)
Definition GConde (gss : list (list goal)) : goal := GDisjPlus true (map (GConjPlus true) gss).

(* relation table: body of relation r, evaluated with environment = reversed argument list *)
Definition defs := nat -> option goal.

(* a strong induction principle for the nested type *)
Section GoalInd.
  Variable P : goal -> Prop.
  Hypothesis HFail : P GFail.
  Hypothesis HSucc : P GSucc.
  Hypothesis HEq : forall t1 t2, P (GEq t1 t2).
  Hypothesis HConj : forall g1 g2, P g1 -> P g2 -> P (GConj g1 g2).
  Hypothesis HDisj : forall g1 g2, P g1 -> P g2 -> P (GDisj g1 g2).
  Hypothesis HFresh : forall g, P g -> P (GFresh g).
  Hypothesis HZzz : forall g, P g -> P (GZzz g).
  Hypothesis HCall : forall r args, P (GCall r args).
  Hypothesis HLet : forall args g, P g -> P (GLet args g).
  Hypothesis HConjPlus : forall z gs, Forall P gs -> P (GConjPlus z gs).
  Hypothesis HDisjPlus : forall z gs, Forall P gs -> P (GDisjPlus z gs).
  Hypothesis HIfte : forall c t e, P c -> P t -> P e -> P (GIfte c t e).
  Hypothesis HOnce : forall g, P g -> P (GOnce g).

  Fixpoint goal_ind' (g : goal) : P g :=
    match g with
    | GFail => HFail
    | GSucc => HSucc
    | GEq t1 t2 => HEq t1 t2
    | GConj g1 g2 => HConj g1 g2 (goal_ind' g1) (goal_ind' g2)
    | GDisj g1 g2 => HDisj g1 g2 (goal_ind' g1) (goal_ind' g2)
    | GFresh g1 => HFresh g1 (goal_ind' g1)
    | GZzz g1 => HZzz g1 (goal_ind' g1)
    | GCall r args => HCall r args
    | GLet args g1 => HLet args g1 (goal_ind' g1)
    | GConjPlus z gs => HConjPlus z gs
        ((fix all (l : list goal) : Forall P l :=
            match l with [] => Forall_nil P | g1 :: l' => Forall_cons g1 (goal_ind' g1) (all l') end) gs)
    | GDisjPlus z gs => HDisjPlus z gs
        ((fix all (l : list goal) : Forall P l :=
            match l with [] => Forall_nil P | g1 :: l' => Forall_cons g1 (goal_ind' g1) (all l') end) gs)
    | GIfte c t e => HIfte c t e (goal_ind' c) (goal_ind' t) (goal_ind' e)
    | GOnce g1 => HOnce g1 (goal_ind' g1)
    end.
End GoalInd.
