(* Proofs about the transcription of gomini/unify.go (GCore.v).

   1. REFINEMENT: on pointer-shaped values (nil pointers, pointers to scalars, pointers to structs, slices, registered
      variable pointers) gomini's unify - walk / CastVar / hasCycle through reflecttools.Any / isLeaf + DeepEqual /
      descent through reflecttools.ZipReduce with the state as accumulator - computes what micro's unify computes on the
      term encoding of the values: same verdict, and the resulting bindings are the encodings of each other.
      Every theorem about `unify` (C01: most general unifier, extends, fails only if no unifier ...) therefore holds of
      the transcribed gomini algorithm (C04).
   2. rewrite: no bound variable is left anywhere Map descends (struct fields, slice elements, map values), unbound
      variables stay, the shape is kept (C08). *)
From Coq Require Import List NArith ZArith Bool Lia Arith.
From GMK Require Import Term Unify UnifySpec UnifyWf UnifyTotal Reflect ReflectSpec GCore.
Import ListNotations.

(* ================================================================================================ *)
(* 0. the term encoding of pointer-shaped values *)

Lemma tenc_struct fs : tenc (GStructPtr fs) = option_map (fun l => TPair (struct_ntag (length fs)) (tlistn l)) (tencs fs).
Proof. simpl. f_equal. all: induction fs as [|a r IH]; simpl; [reflexivity|]; rewrite IH; unfold tslot; reflexivity. Qed.

Lemma tenc_slice n es : tenc (GSlice n es) = option_map (fun l => TPair (slice_ntag (length es)) (tlistn l)) (tencs es).
Proof. simpl. f_equal. all: induction es as [|a r IH]; simpl; [reflexivity|]; rewrite IH; unfold tslot; reflexivity. Qed.

Lemma tenc_ptr k z : tenc (GPtr (GScalar k z)) =
  if (z <? 0)%Z then None
  else if N.eqb k var_kind then Some (TVar (Z.to_N z))
  else if N.eqb k 0 then Some (TAtom (AInt z))
  else if N.eqb k 1 then Some (TAtom (AStr (Z.to_N z)))
  else None.
Proof. reflexivity. Qed.

Arguments tenc : simpl never.

Lemma tencs_length l ts : tencs l = Some ts -> length ts = length l.
Proof.
  revert ts. induction l as [|a r IH]; simpl; intros ts H; [inversion H; reflexivity|].
  destruct (tslot a); [|discriminate]. destruct (tencs r) as [ts'|]; [|discriminate].
  inversion H; subst. simpl. f_equal. apply IH. reflexivity.
Qed.

(* the atom of a pointer to a scalar: ints (kind 0) and strings (kind 1) *)
Definition scalar_atom (k : N) (z : Z) : option atom :=
  if (z <? 0)%Z then None
  else if N.eqb k 0 then Some (AInt z)
  else if N.eqb k 1 then Some (AStr (Z.to_N z))
  else None.

Lemma scalar_atom_eqb k z a k' z' b : scalar_atom k z = Some a -> scalar_atom k' z' = Some b ->
  atom_eqb a b = N.eqb k k' && Z.eqb z z'.
Proof.
  unfold scalar_atom. intros Ha Hb.
  destruct (z <? 0)%Z eqn:Ez; [discriminate|]. destruct (z' <? 0)%Z eqn:Ez'; [discriminate|].
  apply Z.ltb_ge in Ez, Ez'.
  destruct (N.eqb_spec k 0); [subst k|destruct (N.eqb_spec k 1); [subst k|discriminate]];
    (destruct (N.eqb_spec k' 0); [subst k'|destruct (N.eqb_spec k' 1); [subst k'|discriminate]]);
    inversion Ha; inversion Hb; subst; simpl; try reflexivity.
  destruct (Z.eqb_spec z z') as [Ezz|Nzz].
  - subst. apply N.eqb_refl.
  - apply N.eqb_neq. intros E. apply Nzz. apply Z2N.inj; assumption.
Qed.

Lemma scalar_atom_not_sym k z b n : scalar_atom k z = Some b -> atom_eqb (ASym n) b = false /\ atom_eqb b (ASym n) = false.
Proof.
  unfold scalar_atom. destruct (z <? 0)%Z; [discriminate|]. destruct (N.eqb k 0); [intros H; inversion H; split; reflexivity|].
  destruct (N.eqb k 1); [intros H; inversion H; split; reflexivity|discriminate].
Qed.

(* the shapes of the universe *)
Inductive shape : gval -> term -> Prop :=
| ShINil : shape GNil (TAtom nil_iface_atom)
| ShNil : shape GNilPtr TNil
| ShVar i : shape (gvar i) (TVar i)
| ShScalar k z a : scalar_atom k z = Some a -> cast_var (GPtr (GScalar k z)) = None ->
    is_leaf (GPtr (GScalar k z)) = true -> shape (GPtr (GScalar k z)) (TAtom a)
| ShStruct fs tl : tencs fs = Some tl -> shape (GStructPtr fs) (TPair (struct_ntag (length fs)) (tlistn tl))
| ShSlice n es tl : tencs es = Some tl -> shape (GSlice n es) (TPair (slice_ntag (length es)) (tlistn tl)).

Lemma tenc_shape x t : tenc x = Some t -> shape x t.
Proof.
  intros H. destruct x as [|v| |fields|v|fields|n elems|n entries|k z]; try (cbv in H; discriminate).
  - cbv in H. inversion H. constructor.
  - cbv in H. inversion H. constructor.
  - rewrite tenc_struct in H. destruct (tencs fields) as [tl|] eqn:E; simpl in H; [|discriminate].
    inversion H. constructor. exact E.
  - destruct v as [|v| |fields|v|fields|n elems|n entries|k z]; try (cbv in H; discriminate). rewrite tenc_ptr in H.
    destruct (z <? 0)%Z eqn:Ez; [discriminate|]. apply Z.ltb_ge in Ez.
    destruct (N.eqb k var_kind) eqn:Ek.
    + inversion H. apply N.eqb_eq in Ek. subst k.
      replace (GPtr (GScalar var_kind z)) with (gvar (Z.to_N z)); [constructor|].
      unfold gvar. rewrite Z2N.id; [reflexivity|exact Ez].
    + assert (Hz : (z <? 0)%Z = false) by (apply Z.ltb_ge; exact Ez).
      destruct (N.eqb k 0) eqn:E0; [|destruct (N.eqb k 1) eqn:E1; [|discriminate]]; inversion H; constructor;
        try (unfold scalar_atom; rewrite Hz, ?E0, ?E1; reflexivity); simpl; rewrite ?Ek; reflexivity.
  - rewrite tenc_slice in H. destruct (tencs elems) as [tl|] eqn:E; simpl in H; [|discriminate].
    inversion H. constructor. exact E.
Qed.

Lemma cast_var_gvar i : cast_var (gvar i) = Some i.
Proof. unfold gvar, cast_var. rewrite N.eqb_refl, N2Z.id. reflexivity. Qed.

(* values in the universe are not interface wrappers *)
Lemma tenc_unwrap x t : tenc x = Some t -> unwrap x = x.
Proof. intros H. apply tenc_shape in H. destruct H; reflexivity. Qed.

(* a slot is encoded as what reflecttools hands on from it (Value.Interface()) *)
Lemma tslot_unwrap a t : tslot a = Some t -> tenc (unwrap a) = Some t.
Proof.
  unfold tslot. destruct a as [|v| |fields|v|fields|n elems|n entries|k z]; try (intros H; exact H).
  destruct v; try discriminate; intros H; exact H.
Qed.

(* CastVar on an encodable value: exactly the variables *)
Lemma cast_var_enc x t : tenc x = Some t -> forall i, cast_var x = Some i <-> t = TVar i.
Proof.
  intros H i. apply tenc_shape in H. destruct H as [| |j|k z a Hk Hc Hl|fs tl E|n es tl E].
  - split; discriminate.
  - split; discriminate.
  - rewrite cast_var_gvar. split; intros E; inversion E; reflexivity.
  - rewrite Hc. split; discriminate.
  - split; discriminate.
  - split; discriminate.
Qed.

Lemma cast_var_none_enc x t : tenc x = Some t -> cast_var x = None -> forall i, t <> TVar i.
Proof.
  intros H Hc i E. apply (proj2 (cast_var_enc x t H i)) in E. congruence.
Qed.

Lemma gassv_enc i s ts : senc s = Some ts ->
  match gassv i s with
  | None => assv i ts = None
  | Some v => exists t, tenc v = Some t /\ assv i ts = Some t
  end.
Proof.
  revert ts. induction s as [|[k v] r IH]; simpl; intros ts H.
  - inversion H; reflexivity.
  - destruct (tenc v) as [t|] eqn:Ev; [|discriminate]. destruct (senc r) as [tr|] eqn:Er; [|discriminate].
    inversion H; subst. simpl. destruct (N.eqb k i).
    + exists t. split; [exact Ev|reflexivity].
    + apply IH. reflexivity.
Qed.

Lemma senc_app s ts i v t : senc s = Some ts -> tenc v = Some t -> senc (gset s i v) = Some (ts ++ [(i, t)]).
Proof.
  unfold gset. revert ts. induction s as [|[k w] r IH]; simpl; intros ts Hs Hv.
  - inversion Hs; subst. rewrite Hv. reflexivity.
  - destruct (tenc w) as [tw|]; [|discriminate]. destruct (senc r) as [tr|]; [|discriminate].
    inversion Hs; subst. rewrite (IH tr eq_refl Hv). reflexivity.
Qed.

(* ================================================================================================ *)
(* 1. walk *)

Lemma gwalk_enc f : forall x s t ts x', tenc x = Some t -> senc s = Some ts -> gwalk f x s = Some x' ->
  exists t', tenc x' = Some t' /\ walkt f t ts = Some t' /\ (forall j, cast_var x' = Some j -> gassv j s = None).
Proof.
  induction f as [|f IH]; intros x s t ts x' Hx Hs Hw; [discriminate|].
  simpl in Hw. destruct (cast_var x) as [i|] eqn:Ec.
  - apply (cast_var_enc x t Hx) in Ec. subst t.
    pose proof (gassv_enc i s ts Hs) as Ha.
    destruct (gassv i s) as [v|] eqn:Eg.
    + destruct Ha as [tv [Hv Hav]].
      destruct (IH v s tv ts x' Hv Hs Hw) as [t' [Ht' [Hwt Hub]]].
      exists t'. split; [exact Ht'|]. split; [|exact Hub].
      simpl. rewrite Hav. destruct tv; simpl in Hwt.
      * destruct f; [discriminate|]. exact Hwt.
      * destruct f; [discriminate|]. exact Hwt.
      * exact Hwt.
      * destruct f; [discriminate|]. exact Hwt.
    + inversion Hw; subst x'. exists (TVar i). split; [exact Hx|]. split.
      * simpl. rewrite Ha. reflexivity.
      * intros j Hj. apply (cast_var_enc x (TVar i) Hx) in Hj. inversion Hj; subst. exact Eg.
  - inversion Hw; subst x'. exists t. split; [exact Hx|]. split.
    + destruct t; try reflexivity. exfalso. eapply cast_var_none_enc; eauto.
    + intros j Hj. congruence.
Qed.

(* ================================================================================================ *)
(* 2. hasCycle = occurs *)

Lemma ghascycle_enc f : forall i y s ty ts b, tenc y = Some ty -> senc s = Some ts ->
  ghascycle f i y s = Some b -> exists f2, occurs f2 i ty ts = Some b.
Proof.
  induction f as [|f IH]; intros i y s ty ts b Hy Hs Hc; [discriminate|].
  simpl in Hc. destruct (gwalk f y s) as [y'|] eqn:Ew; [|discriminate].
  destruct (gwalk_enc f y s ty ts y' Hy Hs Ew) as [ty' [Hy' [Hwt _]]].
  (* the fields / elements: a list lemma *)
  assert (Hlist : forall l tl, tencs l = Some tl ->
            forall b, any_loopM (fun e => ghascycle f i e s) l = Some b ->
            exists f2, occurs f2 i (tlistn tl) ts = Some b).
  { induction l as [|a r IHl]; intros tl Hl b0 Ha.
    - simpl in Hl. inversion Hl; subst. simpl in Ha. inversion Ha; subst. exists 1%nat. reflexivity.
    - simpl in Hl. destruct (tslot a) as [ta|] eqn:Ea0; [|discriminate].
      destruct (tencs r) as [tr|] eqn:Er; [|discriminate]. inversion Hl; subst tl. clear Hl.
      simpl in Ha. pose proof (tslot_unwrap a ta Ea0) as Ea. clear Ea0. set (ua := unwrap a) in *. clearbody ua. clear a. rename ua into a.
      destruct (ghascycle f i a s) as [[|]|] eqn:Eh; try discriminate.
      + inversion Ha; subst b0. destruct (IH i a s ta ts true Ea Hs Eh) as [f2 H2].
        exists (S f2). rewrite occurs_S. simpl. rewrite H2. reflexivity.
      + destruct (IH i a s ta ts false Ea Hs Eh) as [f2 H2].
        destruct (IHl tr eq_refl b0 Ha) as [f3 H3].
        exists (S (Nat.max f2 f3)). rewrite occurs_S. simpl.
        rewrite (occurs_mono f2 i ta ts false H2 (Nat.max f2 f3) ltac:(lia)).
        exact (occurs_mono f3 i (tlistn tr) ts b0 H3 (Nat.max f2 f3) ltac:(lia)). }
  pose proof (tenc_shape y' ty' Hy') as Hsh.
  destruct Hsh as [| |j|k z a Hk Hcv Hl|fs tl El|n es tl El].
  - (* nil interface *) simpl in Hc. inversion Hc; subst. exists (S f). rewrite occurs_S, Hwt. reflexivity.
  - (* nil pointer *) simpl in Hc. inversion Hc; subst. exists (S f). rewrite occurs_S, Hwt. reflexivity.
  - rewrite cast_var_gvar in Hc. inversion Hc; subst b.
    exists (S f). rewrite occurs_S, Hwt. rewrite N.eqb_sym. reflexivity.
  - rewrite Hcv in Hc. unfold ranyM in Hc. simpl in Hc. inversion Hc; subst b.
    exists (S f). rewrite occurs_S, Hwt. reflexivity.
  - simpl in Hc. destruct (Hlist fs tl El b Hc) as [f2 H2].
    exists (S (Nat.max f (S f2))). rewrite occurs_S.
    rewrite (walkt_mono f ty ts _ Hwt (Nat.max f (S f2)) ltac:(lia)).
    unfold struct_ntag.
    rewrite (occurs_mono 1 i (TAtom (AInt (Z.of_nat (length fs)))) ts false eq_refl (Nat.max f (S f2)) ltac:(lia)).
    exact (occurs_mono f2 i (tlistn tl) ts b H2 (Nat.max f (S f2)) ltac:(lia)).
  - simpl in Hc. destruct (Hlist es tl El b Hc) as [f2 H2].
    exists (S (Nat.max f (S f2))). rewrite occurs_S.
    rewrite (walkt_mono f ty ts _ Hwt (Nat.max f (S f2)) ltac:(lia)).
    unfold slice_ntag.
    rewrite (occurs_mono 1 i (TAtom (AInt (- Z.of_nat (length es) - 1))) ts false eq_refl (Nat.max f (S f2)) ltac:(lia)).
    exact (occurs_mono f2 i (tlistn tl) ts b H2 (Nat.max f (S f2)) ltac:(lia)).
Qed.

(* ================================================================================================ *)
(* 3. unify: the ZipReduce descent with the state as accumulator is micro's unify on the encodings *)

Definition gstep (f : nat) : gval -> gval -> gres -> gres :=
  fun a b acc => match acc with GROk s1 => gunify f a b s1 | other => other end.

Definition refines (r : gres) (tx ty : term) (ts : subst) : Prop :=
  match r with
  | GROOF => True
  | GRFail => exists f2, unify f2 tx ty ts = Fail
  | GROk s' => exists ts' f2, senc s' = Some ts' /\ unify f2 tx ty ts = Ok ts'
  end.

Lemma zip_oof f : forall xs ys, fst (zip_loop GRFail gres_is_fail (gstep f) xs ys GROOF) = GROOF.
Proof.
  induction xs as [|a xs IH]; intros [|b ys]; simpl; try reflexivity.
  specialize (IH ys). destruct (zip_loop GRFail gres_is_fail (gstep f) xs ys GROOF). exact IH.
Qed.

Lemma unify_pair_S f a d a' d' s : unify (S f) (TPair a d) (TPair a' d') s =
  match unify f a a' s with Ok s1 => unify f d d' s1 | r => r end.
Proof. reflexivity. Qed.

Lemma zip_enc f :
  (forall x y s tx ty ts, tenc x = Some tx -> tenc y = Some ty -> senc s = Some ts ->
     refines (gunify f x y s) tx ty ts) ->
  forall xs ys txs tys, tencs xs = Some txs -> tencs ys = Some tys -> length xs = length ys ->
  forall s ts, senc s = Some ts ->
  refines (fst (zip_loop GRFail gres_is_fail (gstep f) xs ys (GROk s))) (tlistn txs) (tlistn tys) ts.
Proof.
  intros IH. induction xs as [|a xs IHl]; intros ys txs tys Hx Hy Hlen s ts Hs.
  - destruct ys as [|b ys]; [|discriminate Hlen].
    simpl in Hx, Hy. inversion Hx; inversion Hy; subst. simpl. exists ts, 1%nat. split; [exact Hs|reflexivity].
  - destruct ys as [|b ys]; [discriminate Hlen|]. simpl in Hlen. injection Hlen as Hlen.
    simpl in Hx, Hy.
    destruct (tslot a) as [ta|] eqn:Ea0; [|discriminate]. destruct (tencs xs) as [txr|] eqn:Exr; [|discriminate].
    destruct (tslot b) as [tb|] eqn:Eb0; [|discriminate]. destruct (tencs ys) as [tyr|] eqn:Eyr; [|discriminate].
    inversion Hx; inversion Hy; subst txs tys. clear Hx Hy.
    pose proof (tslot_unwrap a ta Ea0) as Ea. pose proof (tslot_unwrap b tb Eb0) as Eb. clear Ea0 Eb0.
    simpl zip_loop. set (ua := unwrap a) in *. set (ub := unwrap b) in *. clearbody ua ub. clear a b. rename ua into a. rename ub into b.
    change (gstep f a b (GROk s)) with (gunify f a b s).
    pose proof (IH a b s ta tb ts Ea Eb Hs) as H1.
    destruct (gunify f a b s) as [| |s1] eqn:Eg.
    + (* out of fuel: carried through *)
      simpl gres_is_fail. cbv iota.
      pose proof (zip_oof f xs ys) as Ho.
      destruct (zip_loop GRFail gres_is_fail (gstep f) xs ys GROOF) as [r log]. simpl in Ho. subst r. exact I.
    + simpl. destruct H1 as [f2 H2]. exists (S f2). simpl tlistn. rewrite unify_pair_S, H2. reflexivity.
    + simpl gres_is_fail. cbv iota. destruct H1 as [ts1 [f2 [Hs1 H2]]].
      pose proof (IHl ys txr tyr eq_refl Eyr Hlen s1 ts1 Hs1) as H3.
      destruct (zip_loop GRFail gres_is_fail (gstep f) xs ys (GROk s1)) as [r log]. simpl fst in *.
      assert (Hne : unify f2 ta tb ts <> OOF) by (rewrite H2; discriminate).
      destruct r as [| |s2]; simpl in *.
      * exact I.
      * destruct H3 as [f3 H3]. exists (S (Nat.max f2 f3)). rewrite unify_pair_S.
        rewrite (unify_mono f2 ta tb ts Hne (Nat.max f2 f3) ltac:(lia)), H2.
        rewrite (unify_mono f3 _ _ ts1 ltac:(rewrite H3; discriminate) (Nat.max f2 f3) ltac:(lia)). exact H3.
      * destruct H3 as [ts2 [f3 [Hs2 H3]]]. exists ts2, (S (Nat.max f2 f3)). split; [exact Hs2|].
        rewrite unify_pair_S.
        rewrite (unify_mono f2 ta tb ts Hne (Nat.max f2 f3) ltac:(lia)), H2.
        rewrite (unify_mono f3 _ _ ts1 ltac:(rewrite H3; discriminate) (Nat.max f2 f3) ltac:(lia)). exact H3.
Qed.

Lemma gbind_refines f i y' s ty' ts : tenc y' = Some ty' -> senc s = Some ts ->
  match gbind f i y' s with
  | GROOF => True
  | GRFail => exists f2, exts f2 i ty' ts = Fail
  | GROk s' => exists ts' f2, senc s' = Some ts' /\ exts f2 i ty' ts = Ok ts'
  end.
Proof.
  intros Hy Hs. unfold gbind. destruct (ghascycle f i y' s) as [[|]|] eqn:Eh; [| |exact I].
  - destruct (ghascycle_enc f i y' s ty' ts true Hy Hs Eh) as [f2 H2]. exists f2. unfold exts. rewrite H2. reflexivity.
  - destruct (ghascycle_enc f i y' s ty' ts false Hy Hs Eh) as [f2 H2].
    exists (ts ++ [(i, ty')]), f2. split; [apply senc_app; assumption|]. unfold exts. rewrite H2. reflexivity.
Qed.

Lemma exts_mono' f x v s r : exts f x v s = r -> r <> OOF -> forall f', (f <= f')%nat -> exts f' x v s = r.
Proof. intros H Hr f' Hle. rewrite <- H. apply exts_mono; [rewrite H; exact Hr|exact Hle]. Qed.

Lemma unify_tag_neq F a b s : a <> b -> (1 <= F)%nat -> forall d d', unify (S F) (TPair (TAtom (AInt a)) d) (TPair (TAtom (AInt b)) d') s = Fail.
Proof.
  intros Hn HF d d'. rewrite unify_pair_S. destruct F as [|F]; [lia|]. rewrite unify_S. simpl.
  destruct (Z.eqb_spec a b); [contradiction|reflexivity].
Qed.

Lemma unify_tag_eq F a s d d' : (1 <= F)%nat -> unify (S F) (TPair (TAtom (AInt a)) d) (TPair (TAtom (AInt a)) d') s = unify F d d' s.
Proof.
  intros HF. rewrite unify_pair_S. destruct F as [|F]; [lia|]. rewrite (unify_S F (TAtom _)). simpl.
  rewrite Z.eqb_refl. reflexivity.
Qed.

Lemma walkt_fix f u s w : walkt f u s = Some w -> forall F, (1 <= F)%nat -> walkt F w s = Some w.
Proof.
  intros Hw F HF. destruct w; try reflexivity.
  pose proof (walkt_unbound f u s _ Hw) as Hub. simpl in Hub.
  destruct F; [lia|]. simpl. rewrite Hub. reflexivity.
Qed.

Theorem gunify_enc f : forall x y s tx ty ts, tenc x = Some tx -> tenc y = Some ty -> senc s = Some ts ->
  refines (gunify f x y s) tx ty ts.
Proof.
  induction f as [|f IH]; intros x y s tx ty ts Hx Hy Hs; [exact I|].
  simpl gunify.
  destruct (gwalk f x s) as [x'|] eqn:Ex; [|exact I].
  destruct (gwalk f y s) as [y'|] eqn:Ey; [|exact I].
  destruct (gwalk_enc f x s tx ts x' Hx Hs Ex) as [tx' [Hx' [Wx _]]].
  destruct (gwalk_enc f y s ty ts y' Hy Hs Ey) as [ty' [Hy' [Wy _]]].
  (* micro's first step, at any fuel F >= f *)
  assert (Hstep : forall F, (f <= F)%nat -> unify (S F) tx ty ts = unify (S F) tx' ty' ts).
  { intros F HF. rewrite !unify_S.
    rewrite (walkt_mono f tx ts tx' Wx F HF), (walkt_mono f ty ts ty' Wy F HF).
    assert (Hu : forall u w, walkt f u ts = Some w -> walkt F w ts = Some w).
    { intros u w Hw. destruct w; try reflexivity.
      pose proof (walkt_unbound f u ts _ Hw) as Hub. simpl in Hub. simpl.
      destruct f; [destruct u; discriminate Hw|].
      destruct F; [lia|]. simpl. rewrite Hub. reflexivity. }
    rewrite (Hu tx tx' Wx), (Hu ty ty' Wy). reflexivity. }
  (* binding a variable *)
  assert (Hbind : forall i z tz, tenc z = Some tz ->
            (forall F, (1 <= F)%nat -> unify (S F) tx' ty' ts = exts F i tz ts) ->
            refines (gbind f i z s) tx ty ts).
  { intros i z tz Hz Hm. pose proof (gbind_refines f i z s tz ts Hz Hs) as Hb.
    destruct (gbind f i z s) as [| |s'].
    - exact I.
    - destruct Hb as [f2 H2]. exists (S (Nat.max (S f) f2)). rewrite Hstep by lia. rewrite Hm by lia.
      apply (exts_mono' f2); [exact H2|discriminate|lia].
    - destruct Hb as [ts' [f2 [Hs' H2]]]. exists ts', (S (Nat.max (S f) f2)). split; [exact Hs'|].
      rewrite Hstep by lia. rewrite Hm by lia. apply (exts_mono' f2); [exact H2|discriminate|lia]. }
  pose proof (tenc_shape x' tx' Hx') as Sx. pose proof (tenc_shape y' ty' Hy') as Sy.
  destruct Sx as [| |i|k z a Ha Hcv Hl|fs tl El|n es tl El].
  - (* x' nil interface *)
    destruct Sy as [| |j|k' z' b Hb Hcv' Hl'|fs' tl' El'|n' es' tl' El'].
    + simpl. exists ts, (S f). split; [exact Hs|]. rewrite Hstep by lia. reflexivity.
    + simpl. exists (S f). rewrite Hstep by lia. reflexivity.
    + rewrite cast_var_gvar. simpl cast_var.
      apply (Hbind j GNil (TAtom nil_iface_atom) Hx'). intros F HF. rewrite unify_S, (walkt_fix _ _ _ _ Wx F HF), (walkt_fix _ _ _ _ Wy F HF). reflexivity.
    + rewrite Hcv'. simpl. exists (S f). rewrite Hstep by lia. rewrite unify_S. cbn [walkt]. unfold nil_iface_atom.
      rewrite (proj1 (scalar_atom_not_sym k' z' b 0 Hb)). reflexivity.
    + simpl. exists (S f). rewrite Hstep by lia. reflexivity.
    + simpl. exists (S f). rewrite Hstep by lia. reflexivity.
  - (* x' nil pointer *)
    destruct Sy as [| |j|k' z' b Hb Hcv' Hl'|fs' tl' El'|n' es' tl' El'].
    + simpl. exists (S f). rewrite Hstep by lia. reflexivity.
    + simpl. exists ts, (S f). split; [exact Hs|]. rewrite Hstep by lia. reflexivity.
    + rewrite cast_var_gvar. simpl cast_var.
      apply (Hbind j GNilPtr TNil Hx'). intros F HF. rewrite unify_S, (walkt_fix _ _ _ _ Wx F HF), (walkt_fix _ _ _ _ Wy F HF). reflexivity.
    + rewrite Hcv'. simpl. exists (S f). rewrite Hstep by lia. reflexivity.
    + simpl. exists (S f). rewrite Hstep by lia. reflexivity.
    + simpl. exists (S f). rewrite Hstep by lia. reflexivity.
  - (* x' a variable *)
    rewrite cast_var_gvar.
    destruct Sy as [| |j|k' z' b Hb Hcv' Hl'|fs' tl' El'|n' es' tl' El'].
    + simpl cast_var. apply (Hbind i GNil (TAtom nil_iface_atom) Hy'). intros F HF. rewrite unify_S, (walkt_fix _ _ _ _ Wx F HF), (walkt_fix _ _ _ _ Wy F HF). reflexivity.
    + simpl cast_var. apply (Hbind i GNilPtr TNil Hy'). intros F HF. rewrite unify_S, (walkt_fix _ _ _ _ Wx F HF), (walkt_fix _ _ _ _ Wy F HF). reflexivity.
    + rewrite cast_var_gvar. destruct (N.eqb_spec i j) as [Eij|Nij].
      * subst j. exists ts, (S (S f)). split; [exact Hs|]. rewrite Hstep by lia.
        rewrite unify_S, (walkt_fix _ _ _ _ Wx (S f) ltac:(lia)). rewrite N.eqb_refl. reflexivity.
      * apply (Hbind i (gvar j) (TVar j) Hy'). intros F HF. rewrite unify_S, (walkt_fix _ _ _ _ Wx F HF), (walkt_fix _ _ _ _ Wy F HF).
        destruct (N.eqb_spec i j); [contradiction|reflexivity].
    + rewrite Hcv'. apply (Hbind i _ (TAtom b) Hy'). intros F HF. rewrite unify_S, (walkt_fix _ _ _ _ Wx F HF), (walkt_fix _ _ _ _ Wy F HF). reflexivity.
    + simpl cast_var. apply (Hbind i _ _ Hy'). intros F HF. rewrite unify_S, (walkt_fix _ _ _ _ Wx F HF), (walkt_fix _ _ _ _ Wy F HF). reflexivity.
    + simpl cast_var. apply (Hbind i _ _ Hy'). intros F HF. rewrite unify_S, (walkt_fix _ _ _ _ Wx F HF), (walkt_fix _ _ _ _ Wy F HF). reflexivity.
  - (* x' pointer to a scalar *)
    rewrite Hcv.
    destruct Sy as [| |j|k' z' b Hb Hcv' Hl'|fs' tl' El'|n' es' tl' El'].
    + simpl cast_var. rewrite Hl. cbn [orb gval_eqb]. exists (S f). rewrite Hstep by lia. rewrite unify_S. cbn [walkt]. unfold nil_iface_atom.
      rewrite (proj2 (scalar_atom_not_sym k z a 0 Ha)). reflexivity.
    + simpl. exists (S f). rewrite Hstep by lia. reflexivity.
    + rewrite cast_var_gvar. apply (Hbind j _ (TAtom a) Hx'). intros F HF. rewrite unify_S, (walkt_fix _ _ _ _ Wx F HF), (walkt_fix _ _ _ _ Wy F HF). reflexivity.
    + rewrite Hcv', Hl. cbn [orb]. cbn [gval_eqb]. rewrite <- (scalar_atom_eqb k z a k' z' b Ha Hb).
      destruct (atom_eqb a b) eqn:Eab.
      * exists ts, (S f). split; [exact Hs|]. rewrite Hstep by lia. rewrite unify_S. simpl. rewrite Eab. reflexivity.
      * exists (S f). rewrite Hstep by lia. rewrite unify_S. simpl. rewrite Eab. reflexivity.
    + simpl cast_var. rewrite Hl. cbn [orb gval_eqb]. exists (S f). rewrite Hstep by lia. reflexivity.
    + simpl cast_var. rewrite Hl. cbn [orb gval_eqb]. exists (S f). rewrite Hstep by lia. reflexivity.
  - (* x' pointer to a struct *)
    simpl cast_var.
    destruct Sy as [| |j|k' z' b Hb Hcv' Hl'|fs' tl' El'|n' es' tl' El'].
    + simpl. exists (S f). rewrite Hstep by lia. reflexivity.
    + simpl. exists (S f). rewrite Hstep by lia. reflexivity.
    + rewrite cast_var_gvar. apply (Hbind j _ _ Hx'). intros F HF. rewrite unify_S, (walkt_fix _ _ _ _ Wx F HF), (walkt_fix _ _ _ _ Wy F HF). reflexivity.
    + rewrite Hcv', Hl'. simpl is_leaf. cbn [orb gval_eqb]. exists (S f). rewrite Hstep by lia. reflexivity.
    + (* struct / struct *)
      simpl cast_var. simpl is_leaf. cbn [orb]. unfold zipreduce. simpl is_nil. cbn iota. simpl kind_of. simpl kind_eqb.
      cbn [negb]. simpl elem_kind. simpl kind_eqb. cbn [negb].
      destruct (Nat.eqb_spec (length fs) (length fs')) as [Elen|Nlen]; cbn [negb].
      * pose proof (zip_enc f IH fs fs' tl tl' El El' Elen s ts Hs) as Hz.
        change (fun (a b : gval) (acc : gres) => match acc with GROk s1 => gunify f a b s1 | _ => acc end) with (gstep f).
        destruct (fst (zip_loop GRFail gres_is_fail (gstep f) fs fs' (GROk s))) as [| |s'].
        -- exact I.
        -- destruct Hz as [f2 H2]. exists (S (Nat.max (S f) f2)). rewrite Hstep by lia.
           unfold struct_ntag. rewrite Elen. rewrite unify_tag_eq by lia.
           rewrite (unify_mono f2 _ _ ts ltac:(rewrite H2; discriminate) (Nat.max (S f) f2) ltac:(lia)). exact H2.
        -- destruct Hz as [ts' [f2 [Hs' H2]]]. exists ts', (S (Nat.max (S f) f2)). split; [exact Hs'|].
           rewrite Hstep by lia. unfold struct_ntag. rewrite Elen. rewrite unify_tag_eq by lia.
           rewrite (unify_mono f2 _ _ ts ltac:(rewrite H2; discriminate) (Nat.max (S f) f2) ltac:(lia)). exact H2.
      * simpl. exists (S (S f)). rewrite Hstep by lia. unfold struct_ntag. apply unify_tag_neq; [lia|lia].
    + (* struct / slice *)
      simpl cast_var. simpl is_leaf. cbn [orb]. unfold zipreduce. simpl. exists (S (S f)). rewrite Hstep by lia.
      unfold struct_ntag, slice_ntag. apply unify_tag_neq; [lia|lia].
  - (* x' slice *)
    simpl cast_var.
    destruct Sy as [| |j|k' z' b Hb Hcv' Hl'|fs' tl' El'|n' es' tl' El'].
    + simpl. exists (S f). rewrite Hstep by lia. reflexivity.
    + simpl. exists (S f). rewrite Hstep by lia. reflexivity.
    + rewrite cast_var_gvar. apply (Hbind j _ _ Hx'). intros F HF. rewrite unify_S, (walkt_fix _ _ _ _ Wx F HF), (walkt_fix _ _ _ _ Wy F HF). reflexivity.
    + rewrite Hcv', Hl'. simpl is_leaf. cbn [orb gval_eqb]. exists (S f). rewrite Hstep by lia. reflexivity.
    + simpl cast_var. simpl is_leaf. cbn [orb]. unfold zipreduce. simpl. exists (S (S f)). rewrite Hstep by lia.
      unfold struct_ntag, slice_ntag. apply unify_tag_neq; [lia|lia].
    + (* slice / slice *)
      simpl cast_var. simpl is_leaf. cbn [orb]. unfold zipreduce. simpl is_nil. cbn iota. simpl kind_of. simpl kind_eqb.
      cbn [negb].
      destruct (Nat.eqb_spec (length es) (length es')) as [Elen|Nlen]; cbn [negb].
      * pose proof (zip_enc f IH es es' tl tl' El El' Elen s ts Hs) as Hz.
        change (fun (a b : gval) (acc : gres) => match acc with GROk s1 => gunify f a b s1 | _ => acc end) with (gstep f).
        destruct (fst (zip_loop GRFail gres_is_fail (gstep f) es es' (GROk s))) as [| |s'].
        -- exact I.
        -- destruct Hz as [f2 H2]. exists (S (Nat.max (S f) f2)). rewrite Hstep by lia.
           unfold slice_ntag. rewrite Elen. rewrite unify_tag_eq by lia.
           rewrite (unify_mono f2 _ _ ts ltac:(rewrite H2; discriminate) (Nat.max (S f) f2) ltac:(lia)). exact H2.
        -- destruct Hz as [ts' [f2 [Hs' H2]]]. exists ts', (S (Nat.max (S f) f2)). split; [exact Hs'|].
           rewrite Hstep by lia. unfold slice_ntag. rewrite Elen. rewrite unify_tag_eq by lia.
           rewrite (unify_mono f2 _ _ ts ltac:(rewrite H2; discriminate) (Nat.max (S f) f2) ltac:(lia)). exact H2.
      * simpl. exists (S (S f)). rewrite Hstep by lia. unfold slice_ntag. apply unify_tag_neq; [lia|lia].
Qed.
Print Assumptions gunify_enc.

(* ================================================================================================ *)
(* 4. consequences for the transcribed gomini unify: everything C01 proves of micro's unify *)

Theorem gunify_ok f x y s s' tx ty ts : tenc x = Some tx -> tenc y = Some ty -> senc s = Some ts ->
  gunify f x y s = GROk s' ->
  exists ts', senc s' = Some ts' /\ (exists ext, ts' = ts ++ ext) /\
              (forall r, sat r ts' <-> sat r ts /\ inst r tx = inst r ty).
Proof.
  intros Hx Hy Hs Hg. pose proof (gunify_enc f x y s tx ty ts Hx Hy Hs) as H. rewrite Hg in H.
  destruct H as [ts' [f2 [Hs' Hu]]]. exists ts'. split; [exact Hs'|].
  destruct (unify_sound f2 tx ty ts ts' Hu) as [Hext Hsound]. split; [exact Hext|].
  intros r. split; [apply Hsound|].
  intros [Hr He]. pose proof (unify_complete f2 tx ty ts r Hr He) as Hc. rewrite Hu in Hc. exact Hc.
Qed.

Theorem gunify_fail f x y s tx ty ts : tenc x = Some tx -> tenc y = Some ty -> senc s = Some ts ->
  gunify f x y s = GRFail -> ~ exists r, sat r ts /\ inst r tx = inst r ty.
Proof.
  intros Hx Hy Hs Hg [r [Hr He]]. pose proof (gunify_enc f x y s tx ty ts Hx Hy Hs) as H. rewrite Hg in H.
  destruct H as [f2 Hu]. pose proof (unify_complete f2 tx ty ts r Hr He) as Hc. rewrite Hu in Hc. exact Hc.
Qed.

Theorem gunify_wf f x y s s' tx ty ts : tenc x = Some tx -> tenc y = Some ty -> senc s = Some ts -> wf ts ->
  gunify f x y s = GROk s' -> exists ts', senc s' = Some ts' /\ wf ts'.
Proof.
  intros Hx Hy Hs Hwf Hg. pose proof (gunify_enc f x y s tx ty ts Hx Hy Hs) as H. rewrite Hg in H.
  destruct H as [ts' [f2 [Hs' Hu]]]. exists ts'. split; [exact Hs'|]. exact (unify_wf f2 tx ty ts ts' Hwf Hu).
Qed.

Theorem gequalo_spec f x y s l tx ty ts : tenc x = Some tx -> tenc y = Some ty -> senc s = Some ts ->
  gequalo f x y s = Some l ->
  (l = [] /\ ~ exists r, sat r ts /\ inst r tx = inst r ty) \/
  (exists s' ts', l = [s'] /\ senc s' = Some ts' /\ (exists ext, ts' = ts ++ ext) /\
                  forall r, sat r ts' <-> sat r ts /\ inst r tx = inst r ty).
Proof.
  intros Hx Hy Hs H. unfold gequalo in H. destruct (gunify f x y s) as [| |s'] eqn:Eg; [discriminate| |].
  - inversion H; subst. left. split; [reflexivity|]. eapply gunify_fail; eauto.
  - inversion H; subst. right. destruct (gunify_ok f x y s s' tx ty ts Hx Hy Hs Eg) as [ts' [A [B C]]].
    exists s', ts'. split; [reflexivity|]. split; [exact A|]. split; [exact B|exact C].
Qed.

Print Assumptions gunify_ok.
Print Assumptions gunify_fail.
Print Assumptions gequalo_spec.

(* placeholder contents: they are not an input of the model.  What IS an input is the registration number, and two
   registered pointers are the same variable exactly when the numbers agree *)
Lemma gvar_inj i j : gvar i = gvar j -> i = j.
Proof. unfold gvar. intros H. inversion H. apply N2Z.inj. assumption. Qed.

(* ================================================================================================ *)
(* 5. rewrite (the answers of gomini.Run): over ALL reflecttools values - struct fields, slice elements, map values,
      interface-typed slots *)

(* y is reachable from x through the containers reflecttools.Map descends into; a variable is not looked into *)
Inductive subval : gval -> gval -> Prop :=
| sv_refl x : subval x x
| sv_step x c y : cast_var x = None -> In c (mslots x) -> subval (unwrap c) y -> subval x y.

Definition gwf_sub (s : gsub) : Prop := forall i v, gassv i s = Some v -> wfb v = true.

Lemma wf_slot_unwrap c : wf_slot c = true -> wfb (unwrap c) = true.
Proof.
  destruct c; simpl; intros H; try exact H; try reflexivity.
  destruct c; try discriminate; simpl in *; exact H.
Qed.

Lemma wfb_slots x : wfb x = true -> forall c, In c (mslots x) -> wf_slot c = true.
Proof.
  intros H c Hc. destruct x; simpl in Hc; try contradiction.
  - simpl in H. eapply forallb_In; eauto.
  - destruct isnil; [contradiction|]. simpl in H. eapply forallb_In; eauto.
  - destruct isnil; [contradiction|]. simpl in H. apply andb_true_iff in H. destruct H as [_ H].
    apply in_map_iff in Hc. destruct Hc as [e [He Hin]]. subst c.
    exact (forallb_In (fun e => wf_slot (snd e)) _ e H Hin).
Qed.

Lemma gwalk_wfb f : forall x s x', wfb x = true -> gwf_sub s -> gwalk f x s = Some x' -> wfb x' = true.
Proof.
  induction f as [|f IH]; intros x s x' Hx Hs Hw; [discriminate|].
  simpl in Hw. destruct (cast_var x) as [i|]; [|inversion Hw; subst; exact Hx].
  destruct (gassv i s) as [v|] eqn:Eg; [|inversion Hw; subst; exact Hx].
  eapply IH; [eapply Hs; exact Eg|exact Hs|exact Hw].
Qed.

Lemma gwalk_unbound f : forall x s x' j, gwalk f x s = Some x' -> cast_var x' = Some j -> gassv j s = None.
Proof.
  induction f as [|f IH]; intros x s x' j Hw Hc; [discriminate|].
  simpl in Hw. destruct (cast_var x) as [i|] eqn:Ec.
  - destruct (gassv i s) as [v|] eqn:Eg.
    + eapply IH; eauto.
    + inversion Hw; subst x'. rewrite Ec in Hc. inversion Hc; subst. exact Eg.
  - inversion Hw; subst x'. congruence.
Qed.

(* what Map stores in a slot, seen through the slot *)
Lemma unwrap_store_cases sl b : wf_slot sl = true ->
  (forall v, b <> GIface v) ->
  unwrap (store sl b) = b \/ (b = GNil /\ unwrap (store sl b) = unwrap (zero_of sl)).
Proof.
  intros Hw Hb. destruct b; try (left; destruct sl; reflexivity).
  - right. split; reflexivity.
  - exfalso. eapply Hb. reflexivity.
Qed.

Lemma zero_no_var sl y : subval (unwrap (zero_of sl)) y -> cast_var y = None.
Proof.
  intros H. assert (Hz : forall z, (z = unwrap (zero_of sl)) -> mslots z = [] /\ cast_var z = None).
  { intros z Ez. subst z. destruct sl; simpl; split; reflexivity. }
  inversion H; subst.
  - apply (Hz _ eq_refl).
  - destruct (Hz _ eq_refl) as [Hm _]. rewrite Hm in H1. contradiction.
Qed.

Definition not_iface (b : gval) : Prop := forall v, b <> GIface v.

Lemma rmapM_not_iface g x r : not_iface x -> rmapM g x = Some r -> not_iface r.
Proof.
  intros Hx H v E. subst r. unfold rmapM in H. destruct (is_nil x); [inversion H; subst; eapply Hx; reflexivity|].
  destruct x; try (inversion H; subst; eapply Hx; reflexivity).
  - destruct (map_loopM g fields); simpl in H; inversion H.
  - destruct isnil; [inversion H|destruct (map_loopM g elems); simpl in H; inversion H].
  - destruct isnil; [inversion H|destruct (map_entriesM g entries); simpl in H; inversion H].
Qed.

Lemma wfb_not_iface x : wfb x = true -> not_iface x.
Proof. intros H v E. subst x. discriminate H. Qed.

Lemma grewrite_not_iface f x s r : wfb x = true -> gwf_sub s -> grewrite f x s = Some r -> not_iface r.
Proof.
  destruct f as [|f]; [discriminate|]. intros Hx Hs H. simpl in H.
  destruct (gwalk f x s) as [x'|] eqn:Ew; [|discriminate].
  pose proof (wfb_not_iface _ (gwalk_wfb f x s x' Hx Hs Ew)) as Hn.
  destruct (cast_var x'); [inversion H; subst; exact Hn|]. eapply rmapM_not_iface; eauto.
Qed.

(* the answer: no bound variable is left anywhere Map descends *)
Theorem grewrite_resolved f : forall x s r, wfb x = true -> gwf_sub s -> grewrite f x s = Some r ->
  forall y, subval r y -> forall i, cast_var y = Some i -> gassv i s = None.
Proof.
  induction f as [|f IH]; intros x s r Hx Hs H y Hy i Hi; [discriminate|].
  simpl in H. destruct (gwalk f x s) as [x'|] eqn:Ew; [|discriminate].
  pose proof (gwalk_wfb f x s x' Hx Hs Ew) as Hx'.
  destruct (cast_var x') as [j|] eqn:Ec.
  - (* an unbound variable: kept *)
    inversion H; subst r. inversion Hy; subst.
    + eapply gwalk_unbound; eauto.
    + congruence.
  - (* the children are rewritten *)
    assert (Hchild : forall sl b, wf_slot sl = true -> grewrite f (unwrap sl) s = Some b ->
              forall y, subval (unwrap (store sl b)) y -> forall i, cast_var y = Some i -> gassv i s = None).
    { intros sl b Hsl Hb y0 Hy0 i0 Hi0.
      pose proof (grewrite_not_iface f (unwrap sl) s b (wf_slot_unwrap sl Hsl) Hs Hb) as Hnb.
      destruct (unwrap_store_cases sl b Hsl Hnb) as [E|[E1 E2]].
      - rewrite E in Hy0. exact (IH (unwrap sl) s b (wf_slot_unwrap sl Hsl) Hs Hb y0 Hy0 i0 Hi0).
      - rewrite E2 in Hy0. apply zero_no_var in Hy0. congruence. }
    assert (Hloop : forall l rl, forallb wf_slot l = true -> map_loopM (fun e => grewrite f e s) l = Some rl ->
              forall c, In c rl -> forall y, subval (unwrap c) y -> forall i, cast_var y = Some i -> gassv i s = None).
    { induction l as [|sl l IHl]; intros rl Hwl Hm c Hc.
      - simpl in Hm. inversion Hm; subst. contradiction.
      - simpl in Hm. simpl in Hwl. apply andb_true_iff in Hwl. destruct Hwl as [Hsl Hwl].
        destruct (grewrite f (unwrap sl) s) as [b|] eqn:Eb; [|discriminate].
        destruct (map_loopM (fun e => grewrite f e s) l) as [r0|] eqn:Er; [|discriminate].
        inversion Hm; subst rl. destruct Hc as [Hc|Hc].
        + subst c. exact (Hchild sl b Hsl Eb).
        + exact (IHl r0 Hwl eq_refl c Hc). }
    assert (Hent : forall l rl, forallb (fun e => wf_slot (snd e)) l = true ->
              map_entriesM (fun e => grewrite f e s) l = Some rl ->
              forall c, In c (map snd rl) -> forall y, subval (unwrap c) y -> forall i, cast_var y = Some i -> gassv i s = None).
    { induction l as [|[k sl] l IHl]; intros rl Hwl Hm c Hc.
      - simpl in Hm. inversion Hm; subst. contradiction.
      - simpl in Hm. simpl in Hwl. apply andb_true_iff in Hwl. destruct Hwl as [Hsl Hwl].
        destruct (grewrite f (unwrap sl) s) as [b|] eqn:Eb; [|discriminate].
        destruct (map_entriesM (fun e => grewrite f e s) l) as [r0|] eqn:Er; [|discriminate].
        inversion Hm; subst rl. destruct Hc as [Hc|Hc].
        + subst c. exact (Hchild sl b Hsl Eb).
        + exact (IHl r0 Hwl eq_refl c Hc). }
    (* r itself is not a variable, and its slots are the rewritten children *)
    assert (Hleaf : r = x' -> mslots x' = [] -> gassv i s = None).
    { intros E Hm. subst r. inversion Hy; subst; [congruence|]. rewrite Hm in H1. contradiction. }
    unfold rmapM in H. destruct (is_nil x') eqn:En.
    { inversion H; subst r. apply Hleaf; [reflexivity|]. destruct x'; try discriminate; reflexivity. }
    destruct x' as [|v| |fields|v|fields|n elems|n entries|k z];
      try (inversion H; subst r; apply Hleaf; reflexivity).
    + destruct (map_loopM (fun e => grewrite f e s) fields) as [rl|] eqn:Em; simpl in H; [|discriminate].
      inversion H; subst r. inversion Hy; subst; [discriminate Hi|].
      simpl in H1. simpl in Hx'. exact (Hloop fields rl Hx' Em c H1 y H2 i Hi).
    + destruct n.
      * inversion H; subst r. apply Hleaf; reflexivity.
      * destruct (map_loopM (fun e => grewrite f e s) elems) as [rl|] eqn:Em; simpl in H; [|discriminate].
        inversion H; subst r. inversion Hy; subst; [discriminate Hi|].
        simpl in H1. simpl in Hx'. exact (Hloop elems rl Hx' Em c H1 y H2 i Hi).
    + destruct n.
      * inversion H; subst r. apply Hleaf; reflexivity.
      * destruct (map_entriesM (fun e => grewrite f e s) entries) as [rl|] eqn:Em; simpl in H; [|discriminate].
        inversion H; subst r. inversion Hy; subst; [discriminate Hi|].
        simpl in H1. simpl in Hx'. apply andb_true_iff in Hx'. destruct Hx' as [_ Hx'].
        exact (Hent entries rl Hx' Em c H1 y H2 i Hi).
Qed.
Print Assumptions grewrite_resolved.

(* the answer has the kind of the (walked) query: never a bare key, never another container *)
Theorem grewrite_kind f x s r : grewrite (S f) x s = Some r ->
  exists x', gwalk f x s = Some x' /\ kind_of r = kind_of x' /\ (cast_var x' <> None -> r = x').
Proof.
  simpl. destruct (gwalk f x s) as [x'|]; [|discriminate]. intros H. exists x'. split; [reflexivity|].
  destruct (cast_var x') eqn:Ec; [inversion H; subst; split; [reflexivity|reflexivity]|].
  split; [|intros Hn; congruence].
  unfold rmapM in H. destruct (is_nil x'); [inversion H; reflexivity|].
  destruct x'; try (inversion H; reflexivity).
  - destruct (map_loopM _ fields); simpl in H; inversion H; reflexivity.
  - destruct isnil; [inversion H; reflexivity|destruct (map_loopM _ elems); simpl in H; inversion H; reflexivity].
  - destruct isnil; [inversion H; reflexivity|destruct (map_entriesM _ entries); simpl in H; inversion H; reflexivity].
Qed.
Print Assumptions grewrite_kind.
