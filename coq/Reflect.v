(* L4 model: gomini/reflecttools/reflect.go (IsNil, Map, Any, ZipReduce) over Go values as reflect sees them.
   No proofs in this file (so that the model still evaluates when a proof breaks).

   A [gval] is the dynamic value held by an [any]: what [reflect.ValueOf(x)] shows, one level at a time.
   Interfaces are always unwrapped ([Value.Interface()] of an interface-typed field/element yields the
   dynamic value, or the nil interface), so there is no "interface" constructor, only [GNil].

     GNil            the nil interface ([x == nil]; also what [Field(i).Interface()] returns for a nil
                     interface-typed field)
     GNilPtr         a typed nil pointer, of any pointee type            (Kind Ptr, IsNil)
     GStructPtr fs   a non-nil pointer to a struct with exported fields fs   (Kind Ptr, Elem Kind Struct)
     GPtr v          a non-nil pointer to a NON-struct value v (pointer-to-int, pointer-to-pointer,
                     pointer-to-slice, ...)                               (Kind Ptr, Elem Kind = kind of v)
     GStruct fs      a struct passed by value                            (Kind Struct)
     GSlice n es     a slice; n = true for the nil slice (then es = [])  (Kind Slice; NOT IsNil for reflecttools)
     GMap n en       a map; n = true for the nil map (then en = []); entries have distinct keys; Go's
                     iteration order is random, the list order stands for one such order  (Kind Map)
     GScalar k n     any other kind k (0 = int, 1 = string, ...) with content n (Kind k)

   Types are not modelled: [reflect.Value.Set] panics when the function returns a value that is not
   assignable to the slot; the model (and the property: "we can only Map back to the same types") is
   about type-preserving functions.  What IS modelled of [Set]: [reflect.ValueOf(nil)] is the zero Value,
   on which [Set] panics and which makes [SetMapIndex] DELETE the key.
   Pointers to interfaces are excluded (their Elem Kind is Interface, which gval cannot express).
   Fields are assumed exported ([Interface()] panics otherwise); that is the property's domain. *)
From Coq Require Import List NArith ZArith Bool.
Import ListNotations.

Inductive gval : Type :=
| GNil
| GNilPtr
| GStructPtr (fields : list gval)
| GPtr (v : gval)
| GStruct (fields : list gval)
| GSlice (isnil : bool) (elems : list gval)
| GMap (isnil : bool) (entries : list (N * gval))
| GScalar (k : N) (n : Z).

(* reflect.Kind, as far as reflect.go distinguishes kinds *)
Inductive kind := KInvalid | KPtr | KStruct | KSlice | KMap | KOther (k : N).

Definition kind_of (x : gval) : kind :=
  match x with
  | GNil => KInvalid
  | GNilPtr | GStructPtr _ | GPtr _ => KPtr
  | GStruct _ => KStruct
  | GSlice _ _ => KSlice
  | GMap _ _ => KMap
  | GScalar k _ => KOther k
  end.

(* v.Elem().Kind() of a non-nil pointer *)
Definition elem_kind (x : gval) : kind :=
  match x with
  | GStructPtr _ => KStruct
  | GPtr v => kind_of v
  | _ => KInvalid
  end.

Definition kind_eqb (a b : kind) : bool :=
  match a, b with
  | KInvalid, KInvalid | KPtr, KPtr | KStruct, KStruct | KSlice, KSlice | KMap, KMap => true
  | KOther j, KOther k => N.eqb j k
  | _, _ => false
  end.

(* reflect.go:134-143   func IsNil(x any) bool
     if x == nil { return true }
     v := reflect.ValueOf(x); if !v.IsValid() { return true }         (unreachable: x != nil)
     return v.Kind() == reflect.Ptr && v.IsNil()
   true for the nil interface and for nil POINTERS only; a nil slice / nil map is not "nil" here. *)
Definition is_nil (x : gval) : bool :=
  match x with
  | GNil | GNilPtr => true
  | _ => false
  end.

(* ---------------------------------------------------------------------------------------------- *)
(* Map                                                                                             *)

(* outcome of Map: a value, or the run-time panic "reflect: call of reflect.Value.Set on zero Value" *)
Inductive mres := MRet (v : gval) | MPanic.

(* reflect.go:23-27 / 32-36   the loop shared by the struct and the slice case
     for i := 0; i < n; i++ { a := v.(Field|Index)(i).Interface(); b := f(a); r.(Field|Index)(i).Set(reflect.ValueOf(b)) }
   [reflect.ValueOf(b)] is the zero Value exactly when b is the nil interface, and then [Set] panics
   (after f has been called on a).  Result: the new slots (None = panicked) and the call log. *)
Fixpoint map_loop (f : gval -> gval) (l : list gval) : option (list gval) * list gval :=
  match l with
  | [] => (Some [], [])
  | a :: l' =>
      let b := f a in
      match b with
      | GNil => (None, [a])
      | _ => let (r, log) := map_loop f l' in (option_map (cons b) r, a :: log)
      end
  end.

(* reflect.go:39-44   r := reflect.MakeMap(t); for _, k := range v.MapKeys() { a := v.MapIndex(k).Interface(); b := f(a); r.SetMapIndex(k, reflect.ValueOf(b)) }
   [SetMapIndex(k, zero Value)] deletes k from r; keys are distinct and r starts empty, so the entry is
   simply not there.  No panic is possible. *)
Fixpoint map_entries (f : gval -> gval) (l : list (N * gval)) : list (N * gval) * list gval :=
  match l with
  | [] => ([], [])
  | (k, a) :: l' =>
      let b := f a in
      let (r, log) := map_entries f l' in
      (match b with GNil => r | _ => (k, b) :: r end, a :: log)
  end.

(* reflect.go:14-48   func Map(x any, f func(a any) any) any *)
Definition rmap (f : gval -> gval) (x : gval) : mres * list gval :=
  if is_nil x then (MRet x, [])                           (* :15-17  if IsNil(x) { return x } *)
  else match x with                                       (* :19     switch v.Kind() *)
  | GStructPtr fs =>                                      (* :20-29  case Ptr, Elem Kind Struct: r := reflect.New(T) *)
      let (r, log) := map_loop f fs in
      (match r with Some fs' => MRet (GStructPtr fs') | None => MPanic end, log)
  | GSlice _ es =>                                        (* :30-37  case Slice: r := reflect.MakeSlice(t, Len, Len) -- never nil *)
      let (r, log) := map_loop f es in
      (match r with Some es' => MRet (GSlice false es') | None => MPanic end, log)
  | GMap _ en =>                                          (* :38-45  case Map: r := reflect.MakeMap(t) -- never nil *)
      let (r, log) := map_entries f en in (MRet (GMap false r), log)
  | _ => (MRet x, [])                                     (* :47     return x  (Ptr to non-struct falls out of the switch; other kinds) *)
  end.

(* ---------------------------------------------------------------------------------------------- *)
(* Any                                                                                             *)

(* reflect.go:62-67 / 71-76   for i ... { a := ...Interface(); if pred(a) { return true } }; return false *)
Fixpoint any_loop (p : gval -> bool) (l : list gval) : bool * list gval :=
  match l with
  | [] => (false, [])
  | a :: l' => if p a then (true, [a]) else let (r, log) := any_loop p l' in (r, a :: log)
  end.

(* reflect.go:54-80   func Any(x any, pred func(a any) bool) bool *)
Definition rany (p : gval -> bool) (x : gval) : bool * list gval :=
  if is_nil x then (false, [])                            (* :55-57 *)
  else match x with
  | GStructPtr fs => any_loop p fs                        (* :60-69  Ptr to struct *)
  | GSlice _ es => any_loop p es                          (* :70-77  Slice *)
  | _ => (false, [])                                      (* :79     Ptr to non-struct, Map (!), other kinds *)
  end.

(* ---------------------------------------------------------------------------------------------- *)
(* ZipReduce                                                                                       *)

Section Zip.
Context {B : Type}.
Variables (zero : B) (eqb_zero : B -> bool) (f : gval -> gval -> B -> B).

(* reflect.go:111-118 / 123-130   b := innit; for i ... { b = f(x_i, y_i, b); if b == zero { return zero } }; return b
   (the caller has already checked that the two lists have the same length) *)
Fixpoint zip_loop (xs ys : list gval) (b : B) : B * list (gval * gval) :=
  match xs, ys with
  | x :: xs', y :: ys' =>
      let b' := f x y b in
      if eqb_zero b' then (zero, [(x, y)])
      else let (r, log) := zip_loop xs' ys' b' in (r, (x, y) :: log)
  | _, _ => (b, [])
  end.

(* reflect.go:84-133   func ZipReduce[B comparable](x, y any, innit B, f func(x, y any, acc B) B) B *)
Definition zipreduce (init : B) (x y : gval) : B * list (gval * gval) :=
  if is_nil x then                                         (* :86-91 *)
    (if is_nil y then (init, []) else (zero, []))
  else if is_nil y then (zero, [])                         (* :92-94 *)
  else if negb (kind_eqb (kind_of x) (kind_of y)) then (zero, [])   (* :97-99 *)
  else match kind_of x with                                (* :100 switch rx.Kind() *)
  | KPtr =>
      if negb (kind_eqb (elem_kind x) (elem_kind y)) then (zero, [])   (* :102-104 *)
      else match x, y with
      | GStructPtr fx, GStructPtr fy =>                    (* :105 Elem Kind Struct *)
          if negb (Nat.eqb (length fx) (length fy)) then (zero, [])    (* :106-108 NumField *)
          else zip_loop fx fy init
      | _, _ => (zero, [])                                 (* falls out of the switch: :132 return zero *)
      end
  | KSlice =>
      match x, y with
      | GSlice _ ex, GSlice _ ey =>
          if negb (Nat.eqb (length ex) (length ey)) then (zero, [])    (* :120-122 *)
          else zip_loop ex ey init
      | _, _ => (zero, [])
      end
  | _ => (zero, [])                                        (* :132  Map (!), Struct by value, other kinds *)
  end.
End Zip.

(* ---------------------------------------------------------------------------------------------- *)
(* Specification vocabulary (plain list functions, used by the theorem statements)                 *)

(* the fields / elements that Any and ZipReduce look at *)
Definition children (x : gval) : list gval :=
  match x with
  | GStructPtr fs => fs
  | GSlice _ es => es
  | _ => []
  end.

(* the fields / elements / map values that Map looks at *)
Definition mchildren (x : gval) : list gval :=
  match x with
  | GStructPtr fs => fs
  | GSlice _ es => es
  | GMap _ en => map snd en
  | _ => []
  end.

Definition mkeys (x : gval) : list N :=
  match x with GMap _ en => map fst en | _ => [] end.

(* the two argument lists ZipReduce folds over, when the shapes match *)
Definition zip_children (x y : gval) : option (list gval * list gval) :=
  match x, y with
  | GStructPtr fx, GStructPtr fy => if Nat.eqb (length fx) (length fy) then Some (fx, fy) else None
  | GSlice _ ex, GSlice _ ey => if Nat.eqb (length ex) (length ey) then Some (ex, ey) else None
  | _, _ => None
  end.

(* well-formed values: nil containers are empty, map keys are distinct, GPtr does not point to a struct
   (that is GStructPtr) nor to an interface *)
Fixpoint nodupb (l : list N) : bool :=
  match l with
  | [] => true
  | k :: l' => negb (existsb (N.eqb k) l') && nodupb l'
  end.

Fixpoint wfb (x : gval) : bool :=
  match x with
  | GNil | GNilPtr | GScalar _ _ => true
  | GStructPtr fs | GStruct fs => forallb wfb fs
  | GPtr v => match v with GStruct _ | GNil => false | _ => wfb v end
  | GSlice n es => (if n then match es with [] => true | _ => false end else true) && forallb wfb es
  | GMap n en => (if n then match en with [] => true | _ => false end else true)
                 && nodupb (map fst en) && forallb (fun e => wfb (snd e)) en
  end.

(* reflect.DeepEqual on values of one static type = structural equality of gvals whose map entries are
   listed in a canonical (sorted by key) order; executable version for the correspondence *)
Fixpoint gval_eqb (x y : gval) {struct x} : bool :=
  let fix list_eq (l1 l2 : list gval) {struct l1} : bool :=
    match l1, l2 with
    | [], [] => true
    | a :: l1', b :: l2' => gval_eqb a b && list_eq l1' l2'
    | _, _ => false
    end in
  let fix ent_eq (l1 l2 : list (N * gval)) {struct l1} : bool :=
    match l1, l2 with
    | [], [] => true
    | (j, a) :: l1', (k, b) :: l2' => N.eqb j k && gval_eqb a b && ent_eq l1' l2'
    | _, _ => false
    end in
  match x, y with
  | GNil, GNil | GNilPtr, GNilPtr => true
  | GStructPtr f1, GStructPtr f2 => list_eq f1 f2
  | GPtr a, GPtr b => gval_eqb a b
  | GStruct f1, GStruct f2 => list_eq f1 f2
  | GSlice n1 e1, GSlice n2 e2 => Bool.eqb n1 n2 && list_eq e1 e2
  | GMap n1 e1, GMap n2 e2 => Bool.eqb n1 n2 && ent_eq e1 e2
  | GScalar j m, GScalar k n => N.eqb j k && Z.eqb m n
  | _, _ => false
  end.
