(* L4 model: gomini/reflecttools/reflect.go (IsNil, Map, valueOf, Any, ZipReduce) over Go values as reflect sees them.
   No proofs in this file (so that the model still evaluates when a proof breaks).

   A [gval] is a Go value together with as much of its static type as reflecttools can observe.

     GNil            the nil interface: [x == nil] at top level; a nil interface-typed field / element / map value
     GIface v        an interface-typed field / element / map value holding the dynamic value v (v is not GNil and not
                     itself a GIface).  Never at top level: [reflect.ValueOf(x)] and [Value.Interface()] unwrap it
                     ([unwrap]); [Set] into such a slot wraps again ([store]).
     GNilPtr         a typed nil pointer, of any pointee type            (Kind Ptr, IsNil)
     GStructPtr fs   a non-nil pointer to a struct with exported fields fs   (Kind Ptr, Elem Kind Struct)
     GPtr v          a non-nil pointer to a NON-struct value v (pointer-to-int, pointer-to-pointer,
                     pointer-to-slice, pointer-to-interface ...)          (Kind Ptr, Elem Kind = kind of v)
     GStruct fs      a struct passed by value                            (Kind Struct)
     GSlice n es     a slice; n = true for the nil slice (then es = [])  (Kind Slice; NOT IsNil for reflecttools)
     GMap n en       a map; n = true for the nil map (then en = []); entries have distinct keys; Go's
                     iteration order is random, the list order stands for one such order  (Kind Map)
     GScalar k n     any other kind k (0 = int, 1 = string, ...) with content n (Kind k); content 0 is the zero value

   Static types are modelled only as far as [valueOf(b, typ)] needs them: whether a slot is interface-typed
   (GNil / GIface) and what [reflect.Zero] of the slot's type looks like ([zero_of], read off the old content).
   [reflect.Value.Set] still panics when the function returns a value that is not assignable to the slot; that is
   outside the model (and outside the property: "we can only Map back to the same types").  The model has no panics.
   Fields are assumed exported ([Interface()] panics otherwise); that is the property's domain. *)
From Coq Require Import List NArith ZArith Bool.
Import ListNotations.

Inductive gval : Type :=
| GNil
| GIface (v : gval)
| GNilPtr
| GStructPtr (fields : list gval)
| GPtr (v : gval)
| GStruct (fields : list gval)
| GSlice (isnil : bool) (elems : list gval)
| GMap (isnil : bool) (entries : list (N * gval))
| GScalar (k : N) (n : Z).

(* Value.Interface() of a field / element / map value: the dynamic value, or the nil interface *)
Definition unwrap (s : gval) : gval := match s with GIface v => v | _ => s end.

(* reflect.Kind, as far as reflect.go distinguishes kinds *)
Inductive kind := KInvalid | KInterface | KPtr | KStruct | KSlice | KMap | KOther (k : N).

Definition kind_of (x : gval) : kind :=
  match x with
  | GNil => KInvalid                          (* reflect.ValueOf(nil) *)
  | GIface _ => KInterface                    (* only as a pointee *)
  | GNilPtr | GStructPtr _ | GPtr _ => KPtr
  | GStruct _ => KStruct
  | GSlice _ _ => KSlice
  | GMap _ _ => KMap
  | GScalar k _ => KOther k
  end.

(* v.Elem().Kind() of a non-nil pointer *)
Definition elem_kind (x : gval) : kind :=
  match x with
  | GStructPtr _ => KStruct
  | GPtr GNil => KInterface                   (* pointer to a nil interface *)
  | GPtr v => kind_of v
  | _ => KInvalid
  end.

Definition kind_eqb (a b : kind) : bool :=
  match a, b with
  | KInvalid, KInvalid | KInterface, KInterface | KPtr, KPtr | KStruct, KStruct | KSlice, KSlice | KMap, KMap => true
  | KOther j, KOther k => N.eqb j k
  | _, _ => false
  end.

(* reflect.go:149-158   func IsNil(x any) bool
     if x == nil { return true }
     v := reflect.ValueOf(x); if !v.IsValid() { return true }         (unreachable: x != nil)
     return v.Kind() == reflect.Ptr && v.IsNil()
   true for the nil interface and for nil POINTERS only; a nil slice / nil map is not "nil" here. *)
Definition is_nil (x : gval) : bool :=
  match x with
  | GNil | GNilPtr => true
  | _ => false
  end.

(* ---------------------------------------------------------------------------------------------- *)
(* Map                                                                                             *)

(* reflect.Zero(typ) of the static type of a slot, read off the slot's current content *)
Fixpoint zero_of (s : gval) : gval :=
  match s with
  | GNil | GIface _ => GNil
  | GNilPtr | GStructPtr _ | GPtr _ => GNilPtr
  | GStruct fs => GStruct (map zero_of fs)
  | GSlice _ _ => GSlice true []
  | GMap _ _ => GMap true []
  | GScalar k _ => GScalar k 0
  end.

(* reflect.go:58-63 and the Set / SetMapIndex that follows:
     func valueOf(b any, typ reflect.Type) reflect.Value { if b == nil { return reflect.Zero(typ) }; return reflect.ValueOf(b) }
   an untyped nil result becomes the zero value of the slot's type; any other result is stored, converted to the
   slot's interface type when the slot is interface-typed.  [slot] is the old content (it carries the static type). *)
Definition store (slot b : gval) : gval :=
  match b with
  | GNil => zero_of slot
  | _ => match slot with GNil | GIface _ => GIface b | _ => b end
  end.

(* reflect.go:23-27 / 35-39   the loop shared by the struct and the slice case
     for i := 0; i < n; i++ { a := v.(Field|Index)(i).Interface(); b := f(a); r.(Field|Index)(i).Set(valueOf(b, typ)) }
   Result: the new slots and the call log. *)
Fixpoint map_loop (f : gval -> gval) (l : list gval) : list gval * list gval :=
  match l with
  | [] => ([], [])
  | s :: l' =>
      let a := unwrap s in
      let b := f a in
      let (r, log) := map_loop f l' in (store s b :: r, a :: log)
  end.

(* reflect.go:45-50   r := reflect.MakeMap(t); for _, k := range v.MapKeys() { a := v.MapIndex(k).Interface(); b := f(a); r.SetMapIndex(k, valueOf(b, t.Elem())) }
   valueOf never yields the zero Value, so no key is deleted. *)
Fixpoint map_entries (f : gval -> gval) (l : list (N * gval)) : list (N * gval) * list gval :=
  match l with
  | [] => ([], [])
  | (k, s) :: l' =>
      let a := unwrap s in
      let b := f a in
      let (r, log) := map_entries f l' in ((k, store s b) :: r, a :: log)
  end.

(* reflect.go:14-54   func Map(x any, f func(a any) any) any *)
Definition rmap (f : gval -> gval) (x : gval) : gval * list gval :=
  if is_nil x then (x, [])                                (* :15-17  if IsNil(x) { return x } *)
  else match x with                                       (* :19     switch v.Kind() *)
  | GStructPtr fs =>                                      (* :20-29  case Ptr, Elem Kind Struct: r := reflect.New(T) *)
      let (r, log) := map_loop f fs in (GStructPtr r, log)
  | GSlice true _ => (x, [])                              (* :31-33  if v.IsNil() { return x } *)
  | GSlice false es =>                                    (* :34-40  r := reflect.MakeSlice(t, Len, Len) *)
      let (r, log) := map_loop f es in (GSlice false r, log)
  | GMap true _ => (x, [])                                (* :42-44  if v.IsNil() { return x } *)
  | GMap false en =>                                      (* :45-51  r := reflect.MakeMap(t) *)
      let (r, log) := map_entries f en in (GMap false r, log)
  | _ => (x, [])                                          (* :53     return x  (Ptr to non-struct falls out of the switch; other kinds) *)
  end.

(* ---------------------------------------------------------------------------------------------- *)
(* Any                                                                                             *)

(* reflect.go:77-82 / 86-91   for i ... { a := ...Interface(); if pred(a) { return true } }; return false *)
Fixpoint any_loop (p : gval -> bool) (l : list gval) : bool * list gval :=
  match l with
  | [] => (false, [])
  | s :: l' => let a := unwrap s in
               if p a then (true, [a]) else let (r, log) := any_loop p l' in (r, a :: log)
  end.

(* reflect.go:69-95   func Any(x any, pred func(a any) bool) bool *)
Definition rany (p : gval -> bool) (x : gval) : bool * list gval :=
  if is_nil x then (false, [])                            (* :55-57 *)
  else match x with
  | GStructPtr fs => any_loop p fs                        (* :60-69  Ptr to struct *)
  | GSlice _ es => any_loop p es                          (* :70-77  Slice *)
  | _ => (false, [])                                      (* :79     Ptr to non-struct, Map (!), other kinds *)
  end.

(* ---------------------------------------------------------------------------------------------- *)
(* ZipReduce                                                                                       *)

Section Zip.
Context {B : Type}.
Variables (zero : B) (eqb_zero : B -> bool) (f : gval -> gval -> B -> B).

(* reflect.go:124-131 / 137-144   b := innit; for i ... { b = f(x_i, y_i, b); if b == zero { return zero } }; return b
   (the caller has already checked that the two lists have the same length) *)
Fixpoint zip_loop (xs ys : list gval) (b : B) : B * list (gval * gval) :=
  match xs, ys with
  | sx :: xs', sy :: ys' =>
      let x := unwrap sx in
      let y := unwrap sy in
      let b' := f x y b in
      if eqb_zero b' then (zero, [(x, y)])
      else let (r, log) := zip_loop xs' ys' b' in (r, (x, y) :: log)
  | _, _ => (b, [])
  end.

(* reflect.go:99-147   func ZipReduce[B comparable](x, y any, innit B, f func(x, y any, acc B) B) B *)
Definition zipreduce (init : B) (x y : gval) : B * list (gval * gval) :=
  if is_nil x then                                         (* :101-106 *)
    (if is_nil y then (init, []) else (zero, []))
  else if is_nil y then (zero, [])                         (* :107-109 *)
  else if negb (kind_eqb (kind_of x) (kind_of y)) then (zero, [])   (* :112-114 *)
  else match kind_of x with                                (* :115 switch rx.Kind() *)
  | KPtr =>
      if negb (kind_eqb (elem_kind x) (elem_kind y)) then (zero, [])   (* :117-119 *)
      else match x, y with
      | GStructPtr fx, GStructPtr fy =>                    (* :120 Elem Kind Struct *)
          if negb (Nat.eqb (length fx) (length fy)) then (zero, [])    (* :121-123 NumField *)
          else zip_loop fx fy init
      | _, _ => (zero, [])                                 (* falls out of the switch: :146 return zero *)
      end
  | KSlice =>
      match x, y with
      | GSlice _ ex, GSlice _ ey =>
          if negb (Nat.eqb (length ex) (length ey)) then (zero, [])    (* :135-137 *)
          else zip_loop ex ey init
      | _, _ => (zero, [])
      end
  | _ => (zero, [])                                        (* :146  Map (!), Struct by value, other kinds *)
  end.
End Zip.

(* ---------------------------------------------------------------------------------------------- *)
(* Specification vocabulary (plain list functions, used by the theorem statements)                 *)

(* the fields / elements that Any and ZipReduce look at, as handed to the predicate / function *)
Definition children (x : gval) : list gval :=
  match x with
  | GStructPtr fs => map unwrap fs
  | GSlice _ es => map unwrap es
  | _ => []
  end.

(* the slots (fields / elements / map values, with their static interface wrapping) that Map rebuilds;
   a nil slice and a nil map have none and are returned as they are *)
Definition mslots (x : gval) : list gval :=
  match x with
  | GStructPtr fs => fs
  | GSlice false es => es
  | GMap false en => map snd en
  | _ => []
  end.

(* what Map hands to the function *)
Definition mchildren (x : gval) : list gval := map unwrap (mslots x).

Definition mkeys (x : gval) : list N :=
  match x with GMap false en => map fst en | _ => [] end.

(* nil-ness of a slice / map (false for everything else) *)
Definition container_nil (x : gval) : bool :=
  match x with GSlice n _ | GMap n _ => n | _ => false end.

(* the two slot lists ZipReduce folds over, when the shapes match *)
Definition zip_children (x y : gval) : option (list gval * list gval) :=
  match x, y with
  | GStructPtr fx, GStructPtr fy => if Nat.eqb (length fx) (length fy) then Some (map unwrap fx, map unwrap fy) else None
  | GSlice _ ex, GSlice _ ey => if Nat.eqb (length ex) (length ey) then Some (map unwrap ex, map unwrap ey) else None
  | _, _ => None
  end.

(* well-formed values: an interface slot holds a non-nil, non-interface dynamic value; nil containers are empty;
   map keys are distinct; GPtr does not point to a struct (that is GStructPtr).  [wf_slot] is for fields / elements /
   map values / pointees, [wfb] for the top-level value handed to reflecttools (never a GIface). *)
Fixpoint nodupb (l : list N) : bool :=
  match l with
  | [] => true
  | k :: l' => negb (existsb (N.eqb k) l') && nodupb l'
  end.

Fixpoint wf_slot (x : gval) : bool :=
  match x with
  | GNil | GNilPtr | GScalar _ _ => true
  | GIface v => match v with GNil | GIface _ => false | _ => wf_slot v end
  | GStructPtr fs | GStruct fs => forallb wf_slot fs
  | GPtr v => match v with GStruct _ => false | _ => wf_slot v end
  | GSlice n es => (if n then match es with [] => true | _ => false end else true) && forallb wf_slot es
  | GMap n en => (if n then match en with [] => true | _ => false end else true)
                 && nodupb (map fst en) && forallb (fun e => wf_slot (snd e)) en
  end.

Definition wfb (x : gval) : bool := match x with GIface _ => false | _ => wf_slot x end.

(* reflect.DeepEqual on values of one static type = structural equality of gvals whose map entries are
   listed in a canonical (sorted by key) order; executable version for the correspondence *)
Fixpoint gval_eqb (x y : gval) {struct x} : bool :=
  let fix list_eq (l1 l2 : list gval) {struct l1} : bool :=
    match l1, l2 with
    | [], [] => true
    | a :: l1', b :: l2' => gval_eqb a b && list_eq l1' l2'
    | _, _ => false
    end in
  let fix ent_eq (l1 l2 : list (N * gval)) {struct l1} : bool :=
    match l1, l2 with
    | [], [] => true
    | (j, a) :: l1', (k, b) :: l2' => N.eqb j k && gval_eqb a b && ent_eq l1' l2'
    | _, _ => false
    end in
  match x, y with
  | GNil, GNil | GNilPtr, GNilPtr => true
  | GIface a, GIface b => gval_eqb a b
  | GStructPtr f1, GStructPtr f2 => list_eq f1 f2
  | GPtr a, GPtr b => gval_eqb a b
  | GStruct f1, GStruct f2 => list_eq f1 f2
  | GSlice n1 e1, GSlice n2 e2 => Bool.eqb n1 n2 && list_eq e1 e2
  | GMap n1 e1, GMap n2 e2 => Bool.eqb n1 n2 && ent_eq e1 e2
  | GScalar j m, GScalar k n => N.eqb j k && Z.eqb m n
  | _, _ => false
  end.
