(* Correspondence for C16: the implementation's observations (written by the harness) against the model. *)
From Coq Require Import List NArith ZArith Bool.
From GMK Require Import SexprStruct CorrBase.
Import ListNotations.

Inductive case16 :=
| CCmp (x y : sexpr) (c : Z) (eq : bool)     (* x.Compare(y) = c, x.Equal(y) = eq *)
| CSort (inp out : list sexpr).               (* ast.Sort(inp) = out *)

Definition check16 (c : case16) : bool :=
  match c with
  | CCmp x y c e => Z.eqb (cmp_int (cmp_sexpr x y)) c && Bool.eqb (deep_equal x y) e
  | CSort i o => list_eqb deep_equal (isort i) o
  end.
