(* CarCdr of micro/stream.go, as translated on every run (gen/CellGen.v), IS the carcdr of the memory-level model (MemModel.v):
   on every heap and every stream cell it returns the same pair, leaves the same heap and performs the same writes (at most one,
   to the field mem of the receiver), it never panics and always returns.  Hence the memo theorems of C07 (MemSpec.v) are
   theorems about the text.  The proof computes both sides in each of the finitely many shapes of the receiver, so it does not
   depend on how the method is written, only on what it does. *)
From Coq Require Import List NArith Bool Lia.
From GMK Require Import Term MemModel MemSpec GoLite CellLang gen.CellGen.
Import ListNotations.

Section Spec.
  Variable procs : nat -> option object.

  Definition of_model (x : heap * (option nat * option objid) * wlog) : R outcome :=
    let '(h1, r, lg) := x in Ret (h1, lg, Some r).

  Theorem gen_CarCdr_is_model : forall h c st p m, nth_error h c = Some (OCell st p m) ->
    exec procs c gen_CarCdr h [] = of_model (carcdr procs h c).
  Proof.
    intros h c st p m E.
    assert (Lc : c < length h) by (apply nth_error_Some; rewrite E; discriminate).
    assert (Eapp : forall o, nth_error (h ++ [o]) c = Some (OCell st p m)) by (intros o; rewrite nth_error_app1 by exact Lc; exact E).
    unfold gen_CarCdr, carcdr, of_model. rewrite E.
    assert (Hupd : forall (l : heap) x, c < length l -> nth_error (upd l c x) c = Some x) by (intros; apply nth_error_upd_eq; assumption).
    destruct p as [p0|]; [destruct m as [m0|]|]; cbn [exec exec_stmt]; unfold ev, rd, wr; repeat (rewrite E; cbn); try reflexivity.
    destruct (procs p0) as [o|]; cbn; repeat (first [rewrite Eapp | rewrite E | rewrite Hupd by (rewrite ?app_length; cbn; lia)]; cbn); reflexivity.
  Qed.

  Corollary gen_CarCdr_never_panics : forall h c st p m, nth_error h c = Some (OCell st p m) ->
    exec procs c gen_CarCdr h [] <> Panic /\ exec procs c gen_CarCdr h [] <> OOF_.
  Proof.
    intros h c st p m E. rewrite (gen_CarCdr_is_model h c st p m E).
    unfold of_model. destruct (carcdr procs h c) as [[h1 r] lg]. split; discriminate.
  Qed.

  (* the second CarCdr on a cell returns what the first returned and writes nothing (or the tail is nil) - about the generated term *)
  Corollary gen_CarCdr_memo : forall h c st p m h1 lg r, nth_error h c = Some (OCell st p m) ->
    exec procs c gen_CarCdr h [] = Ret (h1, lg, Some r) ->
    exists lg2, exec procs c gen_CarCdr h1 [] = Ret (h1, lg2, Some r) /\ (lg2 = [] \/ snd r = None).
  Proof.
    intros h c st p m h1 lg r E H. rewrite (gen_CarCdr_is_model h c st p m E) in H.
    unfold of_model in H. destruct (carcdr procs h c) as [[h1' r'] lg'] eqn:Ec. inversion H; subst h1' lg' r'.
    destruct (carcdr_memo procs h c h1 r lg Ec) as [lg2 [H2 Hor]].
    assert (exists st1 p1 m1, nth_error h1 c = Some (OCell st1 p1 m1)) as [st1 [p1 [m1 E1]]].
    { unfold carcdr in Ec. rewrite E in Ec. destruct p as [p0|]; [destruct m as [m0|]|].
      - inversion Ec; subst. eauto.
      - assert (Lc : c < length h) by (apply nth_error_Some; rewrite E; discriminate).
        destruct (procs p0); inversion Ec; subst; eexists _, _, _; apply nth_error_upd_eq; rewrite ?app_length; cbn; lia.
      - inversion Ec; subst. eauto. }
    exists lg2. split; [|exact Hor]. rewrite (gen_CarCdr_is_model h1 c st1 p1 m1 E1), H2. reflexivity.
  Qed.
End Spec.
