(* L2 model: micro/reify.go (reifyS/reifys, ReifyIntVarFromState, MKReify) and micro.Run. No proofs here. *)
From Coq Require Import List NArith ZArith Bool.
From GMK Require Import Term Unify Goal Stream.
Import ListNotations.

(* reifyName(n): the symbol "_n" *)
Definition reify_name (n : nat) : term := TAtom (ARei (N.of_nat n)).

(* reifys(v, s): thread a naming substitution left to right; an unnamed variable gets the name _(length s) *)
Fixpoint reifys (f : nat) (v : term) (s : subst) : option subst :=
  match f with
  | O => None
  | S f' =>
      match walkt f' v s with
      | None => None
      | Some (TVar x) => Some (s ++ [(x, reify_name (length s))])
      | Some (TPair a d) =>
          match reifys f' a s with
          | Some s1 => reifys f' d s1
          | None => None
          end
      | Some _ => Some s
      end
  end.

(* ReifyIntVarFromState(q)(st): walkStar the variable, name what is left, walkStar again with the names *)
Definition reify_var (f : nat) (q : N) (st : state) : option term :=
  match walkstar f (TVar q) (sub st) with
  | None => None
  | Some vv =>
      match reifys f vv [] with
      | None => None
      | Some r => walkstar f vv r
      end
  end.

(* MKReify *)
Fixpoint mkreify (f : nat) (l : list state) : option (list term) :=
  match l with
  | [] => Some []
  | st :: r => match reify_var f 0%N st, mkreify f r with
               | Some t, Some ts => Some (t :: ts)
               | _, _ => None
               end
  end.

(* micro.Run(n, g): query variable 0, start state (nil, 1), take n, reify *)
Definition run (ds : defs) (uf : term -> term -> subst -> nat) (f : nat) (n : Z) (g : goal) : option (list term) :=
  match take ds uf f n (eval ds uf g [TVar 0%N] (mkSt [] 1%N)) with
  | None => None
  | Some l => mkreify f l
  end.

(* specification side: rename variables by first occurrence, left to right *)
Fixpoint lookup_name (x : N) (m : list (N * nat)) : option nat :=
  match m with [] => None | (k, v) :: r => if N.eqb k x then Some v else lookup_name x r end.
Fixpoint first_occ (t : term) (m : list (N * nat)) : term * list (N * nat) :=
  match t with
  | TVar x => match lookup_name x m with
              | Some k => (reify_name k, m)
              | None => (reify_name (length m), m ++ [(x, length m)])
              end
  | TPair a d => let '(a', m1) := first_occ a m in let '(d', m2) := first_occ d m1 in (TPair a' d', m2)
  | _ => (t, m)
  end.
Definition rename_first_occ (t : term) : term := fst (first_occ t []).

(* apply a renaming of variables *)
Fixpoint rename (rho : N -> N) (t : term) : term :=
  match t with TVar x => TVar (rho x) | TPair a d => TPair (rename rho a) (rename rho d) | _ => t end.
