(* Proofs for AddrTree.v: with the Copy policy every state of a lineage tree keeps what it lists alive, for every
   interleaving of derivations / drops / collections / allocations; with the Share policy a sibling overwrites a slot
   and a listed placeholder is collected while its state is alive. *)
From Coq Require Import List NArith Arith Bool Lia.
From GMK Require Import AddrHeap AddrHeapSpec AddrTree.
Import ListNotations.

Definition TInv (w : tworld) : Prop :=
  (forall g, In g (tstates w) -> garr g < length (tarrays w) /\ length (slots_of w g) = glen g /\
                                 (forall a, In a (glisted g) -> In a (retained w g))) /\
  (forall g a, In g (tstates w) -> In a (glisted g) -> In a (tlive w)) /\
  (forall a, In a (tconsts w) -> In a (tlive w) /\ forall g, In g (tstates w) -> ~ In a (glisted g)).

Lemma retained_app l1 l2 :
  flat_map (fun o : option addr => match o with Some a => [a] | None => [] end) (l1 ++ l2) =
  flat_map (fun o : option addr => match o with Some a => [a] | None => [] end) l1 ++
  flat_map (fun o : option addr => match o with Some a => [a] | None => [] end) l2.
Proof. apply flat_map_app. Qed.

Lemma firstn_exact {A} (l1 l2 : list A) n : length l1 = n -> firstn n (l1 ++ l2) = l1.
Proof. intros <-. rewrite firstn_app, firstn_all, Nat.sub_diag. simpl. apply app_nil_r. Qed.

Lemma existsb_mem_retained w a g : In g (tstates w) -> In a (retained w g) -> treachable w a = true.
Proof.
  intros Hg Ha. unfold treachable. apply orb_true_iff. right. apply existsb_exists. exists g.
  split; [exact Hg|]. apply mem_In. exact Ha.
Qed.

Lemma tstep_inv extra w l w' : TInv w -> tstep false extra w l = Some w' -> TInv w'.
Proof.
  intros (I1 & I2 & I3) H. destruct l as [s a|a|freed|a]; simpl in H.
  - destruct (mem a (tlive w)) eqn:Em; [discriminate|].
    assert (Na : ~ In a (tlive w)) by (intros C; apply mem_In in C; congruence).
    destruct (nth_error (tstates w) s) as [g|] eqn:Eg; [|discriminate].
    assert (Hg : In g (tstates w)) by (eapply nth_error_In; eauto).
    destruct (I1 g Hg) as (Ga & Gl & Gr).
    inversion H; subst w'; clear H.
    set (newarr := slots_of w g ++ Some a :: repeat None extra).
    set (g' := mkG (a :: glisted g) (length (tarrays w)) (S (glen g))).
    assert (Hold : forall h, In h (tstates w) ->
              slots_of (mkTW (a :: tlive w) (a :: troots w) (tarrays w ++ [newarr]) (tstates w ++ [g']) (tconsts w)) h
              = slots_of w h).
    { intros h Hh. unfold slots_of. simpl. destruct (I1 h Hh) as (Ha & _). rewrite app_nth1 by exact Ha. reflexivity. }
    assert (Hnew : slots_of (mkTW (a :: tlive w) (a :: troots w) (tarrays w ++ [newarr]) (tstates w ++ [g']) (tconsts w)) g'
                   = slots_of w g ++ [Some a]).
    { unfold slots_of at 1. unfold g'. cbn [garr glen tarrays]. rewrite app_nth2 by lia. rewrite Nat.sub_diag. cbn [nth].
      unfold newarr. change (slots_of w g ++ Some a :: repeat None extra) with (slots_of w g ++ [Some a] ++ repeat None extra).
      rewrite app_assoc. apply firstn_exact. rewrite app_length. simpl. lia. }
    split; [|split].
    + intros h Hh. simpl in Hh. apply in_app_or in Hh. destruct Hh as [Hh|[Hh|[]]].
      * destruct (I1 h Hh) as (Ha & Hl & Hr). split; [cbn [tarrays]; rewrite app_length; simpl; lia|].
        unfold retained. rewrite (Hold h Hh). split; [exact Hl|exact Hr].
      * subst h. split; [unfold g'; cbn [tarrays garr]; rewrite app_length; simpl; lia|].
        unfold retained. rewrite Hnew. split; [unfold g'; cbn [glen]; rewrite app_length; simpl; lia|].
        unfold g'. cbn [glisted].
        intros b Hb. rewrite retained_app. apply in_or_app. simpl in Hb. destruct Hb as [<-|Hb].
        -- right. simpl. left. reflexivity.
        -- left. exact (Gr b Hb).
    + intros h b Hh Hb. simpl in Hh. simpl. apply in_app_or in Hh. destruct Hh as [Hh|[Hh|[]]].
      * right. eapply I2; eauto.
      * subst h. simpl in Hb. destruct Hb as [<-|Hb]; [left; reflexivity|right; eapply I2; eauto].
    + intros b Hb. simpl in Hb. destruct (I3 b Hb) as [Lb Nb]. split; [right; exact Lb|].
      intros h Hh. simpl in Hh. apply in_app_or in Hh. destruct Hh as [Hh|[Hh|[]]]; [exact (Nb h Hh)|].
      subst h. simpl. intros [<-|C]; [apply Na; exact Lb|exact (Nb g Hg C)].
  - inversion H; subst w'; clear H. split; [|split]; simpl.
    + intros g Hg. destruct (I1 g Hg) as (A & B & C). split; [exact A|]. split; [exact B|exact C].
    + exact I2.
    + exact I3.
  - destruct (forallb _ freed) eqn:E; [|discriminate]. inversion H; subst w'; clear H.
    rewrite forallb_forall in E. split; [|split]; simpl.
    + intros g Hg. destruct (I1 g Hg) as (A & B & C). split; [exact A|]. split; [exact B|exact C].
    + intros g b Hg Hb. apply In_remove_all. split; [eapply I2; eauto|]. intros Cf. specialize (E b Cf).
      apply andb_true_iff in E. destruct E as [_ E]. apply negb_true_iff in E.
      destruct (I1 g Hg) as (_ & _ & Gr). rewrite (existsb_mem_retained w b g Hg (Gr b Hb)) in E. discriminate.
    + intros b Hb. apply In_remove_all in Hb. destruct Hb as [Hb Nf]. destruct (I3 b Hb) as [Lb Nb].
      split; [apply In_remove_all; auto|exact Nb].
  - destruct (mem a (tlive w)) eqn:Em; [discriminate|].
    assert (Na : ~ In a (tlive w)) by (intros C; apply mem_In in C; congruence).
    inversion H; subst w'; clear H. split; [|split]; simpl.
    + intros g Hg. destruct (I1 g Hg) as (A & B & C). split; [exact A|]. split; [exact B|exact C].
    + intros g b Hg Hb. right. eapply I2; eauto.
    + intros b [<-|Hb].
      * split; [left; reflexivity|]. intros g Hg C. apply Na. eapply I2; eauto.
      * destruct (I3 b Hb) as [Lb Nb]. split; [right; exact Lb|exact Nb].
Qed.

Lemma tinit_inv cap : TInv (tinit cap).
Proof.
  split; [|split]; simpl.
  - intros g [<-|[]]. simpl. split; [lia|]. split; [reflexivity|]. intros a [].
  - intros g a [<-|[]] [].
  - intros a [].
Qed.

Theorem trun_inv extra ls : forall w w', TInv w -> trun false extra w ls = Some w' -> TInv w'.
Proof.
  induction ls as [|l ls IH]; simpl; intros w w' I H.
  - inversion H; subst; exact I.
  - destruct (tstep false extra w l) as [w1|] eqn:E; [|discriminate]. eapply IH; [|exact H]. eapply tstep_inv; eauto.
Qed.

(* every state of the tree, at every time: what it lists is allocated, and no later value is one of its variables *)
Theorem tree_stable cap extra ls w : trun false extra (tinit cap) ls = Some w ->
  (forall s g a, nth_error (tstates w) s = Some g -> In a (glisted g) -> In a (tlive w)) /\
  (forall s a, In a (tconsts w) -> tcastvar w s a = false).
Proof.
  intros H. destruct (trun_inv extra ls _ _ (tinit_inv cap) H) as (I1 & I2 & I3). split.
  - intros s g a Hs Ha. eapply I2; [eapply nth_error_In; eauto|exact Ha].
  - intros s a Ha. unfold tcastvar. destruct (nth_error (tstates w) s) as [g|] eqn:Eg; [|reflexivity].
    destruct (mem a (glisted g)) eqn:Em; [|reflexivity]. apply mem_In in Em.
    destruct (I3 a Ha) as [_ N]. exfalso. eapply N; [eapply nth_error_In; eauto|exact Em].
Qed.
Print Assumptions tree_stable.

(* handing the parent's storage down and appending in place: the second sibling overwrites the first one's slot; the
   first sibling still LISTS its variable 7 but no longer retains it; the caller drops 7, the collector frees it, a
   later constant lands at 7 and is classified as sibling 1's variable *)
Definition share_sched : list tlabel := [TNewVar 0 7%N; TNewVar 0 8%N; TDropRoot 7%N; TGC [7%N]; TAlloc 7%N].

Theorem refuted_shared_storage : exists w,
  trun true 1 (tinit 2) share_sched = Some w /\ In 7%N (tconsts w) /\ tcastvar w 1 7%N = true /\
  (exists g, nth_error (tstates w) 1 = Some g /\ In 7%N (glisted g) /\ ~ In 7%N (retained w g)).
Proof.
  eexists. split; [vm_compute; reflexivity|]. split; [simpl; auto|]. split; [reflexivity|].
  eexists. split; [reflexivity|]. split; [simpl; auto|]. vm_compute. intros [C|[]]. discriminate C.
Qed.
Print Assumptions refuted_shared_storage.

(* the same schedule under the Copy policy: the collector may not free 7 *)
Example copy_blocks_gc : trun false 1 (tinit 2) share_sched = None.
Proof. reflexivity. Qed.
