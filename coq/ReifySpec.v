(* C08 (micro part): proofs about the reification model Reify.v.
   Run/MKReify return, for each answer, the query variable with all bindings applied and every remaining
   unbound variable replaced by _0, _1, ... numbered by first occurrence, left to right. *)
From Coq Require Import List NArith ZArith Lia Bool Arith.
From GMK Require Import Term Unify UnifySpec UnifyWf UnifyTotal Goal Stream Reify.
Import ListNotations.

(* ---------- (1) walkstar applies all bindings ---------- *)

Theorem walkstar_resolved : forall f t s t', walkstar f t s = Some t' ->
  forall x, In x (vars t') -> assv x s = None.
Proof.
  induction f as [|f IH]; intros t s t' H x Hx; [discriminate|].
  rewrite walkstar_S in H.
  destruct (walkt f t s) as [w|] eqn:Ew; [|discriminate].
  pose proof (walkt_unbound f t s w Ew) as Hu.
  destruct w as [| a | y | a d].
  - inversion H; subst. contradiction.
  - inversion H; subst. contradiction.
  - inversion H; subst. simpl in Hx. destruct Hx as [Hx|[]]. subst. exact Hu.
  - destruct (walkstar f a s) as [a'|] eqn:Ea; [|discriminate].
    destruct (walkstar f d s) as [d'|] eqn:Ed; [|discriminate].
    inversion H; subst. simpl in Hx. apply in_app_or in Hx. destruct Hx as [Hx|Hx].
    + exact (IH a s a' Ea x Hx).
    + exact (IH d s d' Ed x Hx).
Qed.
Print Assumptions walkstar_resolved.

(* ---------- namings ---------- *)

(* the naming substitution denoted by an association list variable -> index *)
Definition nm (m : list (N * nat)) : subst := map (fun p => (fst p, reify_name (snd p))) m.

(* the form used in the statement of the task *)
Lemma nm_alt m : nm m = map (fun '(x, k) => (x, reify_name k)) m.
Proof. unfold nm. apply map_ext. intros [x k]. reflexivity. Qed.

(* "m is a naming": distinct keys, and the i-th entry carries the name i *)
Definition naming (m : list (N * nat)) : Prop :=
  NoDup (map fst m) /\ map snd m = seq 0 (length m).

Lemma nm_length m : length (nm m) = length m.
Proof. unfold nm. apply map_length. Qed.

Lemma nm_app m1 m2 : nm (m1 ++ m2) = nm m1 ++ nm m2.
Proof. unfold nm. apply map_app. Qed.

Lemma assv_nm x m : assv x (nm m) = option_map reify_name (lookup_name x m).
Proof.
  induction m as [|[k v] m IH]; simpl; [reflexivity|].
  destruct (N.eqb k x); [reflexivity|exact IH].
Qed.

Lemma lookup_name_app x m1 m2 :
  lookup_name x (m1 ++ m2) = match lookup_name x m1 with Some k => Some k | None => lookup_name x m2 end.
Proof.
  induction m1 as [|[k v] m1 IH]; simpl; auto. destruct (N.eqb k x); auto.
Qed.

Lemma lookup_name_none x m : lookup_name x m = None <-> ~ In x (map fst m).
Proof.
  induction m as [|[k v] m IH]; simpl; [tauto|].
  destruct (N.eqb_spec k x) as [E|E].
  - split; [discriminate | intros H; exfalso; apply H; auto].
  - rewrite IH. split; [intros H [A|A]; [congruence|auto] | intros H A; apply H; auto].
Qed.

Lemma lookup_name_in x k m : lookup_name x m = Some k -> In (x, k) m.
Proof.
  induction m as [|[a v] m IH]; simpl; [discriminate|].
  destruct (N.eqb_spec a x); intros H; [inversion H; subst; auto | auto].
Qed.

(* walking a variable through a naming: one step, to its name or to itself *)
Lemma walk_nm f x m : walk (S f) x (nm m) =
  Some match lookup_name x m with Some k => reify_name k | None => TVar x end.
Proof.
  rewrite walk_S, assv_nm. destruct (lookup_name x m); reflexivity.
Qed.

Lemma reifys_S f v s : reifys (S f) v s =
  match walkt f v s with
  | None => None
  | Some (TVar x) => Some (s ++ [(x, reify_name (length s))])
  | Some (TPair a d) => match reifys f a s with Some s1 => reifys f d s1 | None => None end
  | Some _ => Some s
  end.
Proof. reflexivity. Qed.

(* ---------- (2) reifys computes the first-occurrence naming ---------- *)

(* the general form: no hypothesis on m is needed *)
Lemma reifys_first_occ : forall f v m s', reifys f v (nm m) = Some s' -> s' = nm (snd (first_occ v m)).
Proof.
  induction f as [|f IH]; intros v m s' H; [discriminate|].
  rewrite reifys_S in H.
  destruct v as [| a | x | a d]; simpl in H.
  - inversion H; reflexivity.
  - inversion H; reflexivity.
  - destruct f as [|f]; [discriminate|]. rewrite walk_nm in H. simpl.
    destruct (lookup_name x m) as [k|]; simpl in *.
    + inversion H; reflexivity.
    + inversion H. rewrite nm_app, nm_length. reflexivity.
  - destruct (reifys f a (nm m)) as [s1|] eqn:Ea; [|discriminate].
    apply IH in Ea. subst s1. apply IH in H. subst s'.
    simpl. destruct (first_occ a m) as [a' m1]. simpl.
    destruct (first_occ d m1) as [d' m2]. reflexivity.
Qed.

(* fuel: names are atoms, so a walk is one step; size v < f is enough, for every m *)
Lemma reifys_fuel : forall f v m, (size v < f)%nat -> reifys f v (nm m) = Some (nm (snd (first_occ v m))).
Proof.
  induction f as [|f IH]; intros v m L; [lia|].
  rewrite reifys_S.
  destruct v as [| a | x | a d]; simpl in *.
  - reflexivity.
  - reflexivity.
  - destruct f as [|f]; [lia|]. rewrite walk_nm.
    destruct (lookup_name x m) as [k|]; simpl.
    + reflexivity.
    + rewrite nm_app, nm_length. reflexivity.
  - rewrite (IH a m) by lia. destruct (first_occ a m) as [a' m1]. simpl.
    rewrite (IH d m1) by lia. destruct (first_occ d m1) as [d' m2]. reflexivity.
Qed.

Lemma reifys_mono f v m s' : reifys f v (nm m) = Some s' ->
  forall f', (f <= f')%nat -> reifys f' v (nm m) = Some s'.
Proof.
  revert v m s'. induction f as [|f IH]; intros v m s' H f' L; [discriminate|].
  destruct f' as [|f']; [lia|]. rewrite reifys_S in *.
  destruct (walkt f v (nm m)) as [w|] eqn:Ew; [|discriminate].
  rewrite (walkt_mono f v (nm m) w Ew f') by lia.
  destruct w as [| a | x | a d]; auto.
  destruct (reifys f a (nm m)) as [s1|] eqn:Ea; [|discriminate].
  pose proof (reifys_first_occ _ _ _ _ Ea) as E1.
  rewrite (IH a m s1 Ea f') by lia. subst s1. apply IH; [exact H|lia].
Qed.

(* first_occ only appends, with fresh keys and consecutive names *)
Lemma first_occ_ext : forall t m, exists e, snd (first_occ t m) = m ++ e.
Proof.
  induction t as [| a | x | a IHa d IHd]; intros m; simpl.
  - exists []. rewrite app_nil_r. reflexivity.
  - exists []. rewrite app_nil_r. reflexivity.
  - destruct (lookup_name x m); simpl; [exists []; rewrite app_nil_r; reflexivity|eauto].
  - destruct (IHa m) as [e1 E1]. destruct (first_occ a m) as [a' m1]. simpl in E1.
    destruct (IHd m1) as [e2 E2]. destruct (first_occ d m1) as [d' m2]. simpl in *.
    subst. exists (e1 ++ e2). rewrite app_assoc. reflexivity.
Qed.

Lemma first_occ_naming : forall t m, naming m -> naming (snd (first_occ t m)).
Proof.
  induction t as [| a | x | a IHa d IHd]; intros m Hm; simpl; auto.
  - destruct (lookup_name x m) eqn:E; simpl; [exact Hm|].
    destruct Hm as [Hnd Hs]. split.
    + rewrite map_app. simpl. apply NoDup_snoc; [exact Hnd|]. apply lookup_name_none. exact E.
    + rewrite map_app, app_length, Hs. simpl. rewrite Nat.add_1_r, seq_S. reflexivity.
  - specialize (IHa m Hm). destruct (first_occ a m) as [a' m1]. simpl in IHa.
    specialize (IHd m1 IHa). destruct (first_occ d m1) as [d' m2]. exact IHd.
Qed.

(* the statement of the task: s is a naming, the result is the naming extended by first occurrence *)
Theorem reifys_spec : forall f v s m,
  s = map (fun '(x, k) => (x, reify_name k)) m -> naming m ->
  (forall s', reifys f v s = Some s' ->
     s' = map (fun '(x, k) => (x, reify_name k)) (snd (first_occ v m)) /\ naming (snd (first_occ v m)) /\
     exists e, snd (first_occ v m) = m ++ e) /\
  ((size v < f)%nat -> reifys f v s <> None).
Proof.
  intros f v s m Hs Hm. rewrite <- nm_alt in Hs. subst s. split.
  - intros s' H. rewrite <- nm_alt. split; [eapply reifys_first_occ; eauto|].
    split; [apply first_occ_naming; exact Hm|apply first_occ_ext].
  - intros L. rewrite reifys_fuel by exact L. discriminate.
Qed.
Print Assumptions reifys_spec.

(* ---------- (3) reify_var is renaming by first occurrence ---------- *)

(* replace every named variable by its name *)
Fixpoint apply_names (m : list (N * nat)) (t : term) : term :=
  match t with
  | TVar x => match lookup_name x m with Some k => reify_name k | None => TVar x end
  | TPair a d => TPair (apply_names m a) (apply_names m d)
  | _ => t
  end.

Lemma walkstar_nm : forall f t m t', walkstar f t (nm m) = Some t' -> t' = apply_names m t.
Proof.
  induction f as [|f IH]; intros t m t' H; [discriminate|].
  rewrite walkstar_S in H.
  destruct t as [| a | x | a d]; simpl in H.
  - inversion H; reflexivity.
  - inversion H; reflexivity.
  - destruct f as [|f]; [discriminate|]. rewrite walk_nm in H. simpl.
    destruct (lookup_name x m); inversion H; reflexivity.
  - destruct (walkstar f a (nm m)) as [a'|] eqn:Ea; [|discriminate].
    destruct (walkstar f d (nm m)) as [d'|] eqn:Ed; [|discriminate].
    inversion H; subst. simpl. f_equal; eapply IH; eauto.
Qed.

Lemma walkstar_nm_fuel : forall f t m, (size t < f)%nat -> walkstar f t (nm m) = Some (apply_names m t).
Proof.
  induction f as [|f IH]; intros t m L; [lia|].
  rewrite walkstar_S.
  destruct t as [| a | x | a d]; simpl in *.
  - reflexivity.
  - reflexivity.
  - destruct f as [|f]; [lia|]. rewrite walk_nm. destruct (lookup_name x m); reflexivity.
  - rewrite (IH a m), (IH d m) by lia. reflexivity.
Qed.

Lemma apply_names_ext m e : forall t, (forall x, In x (vars t) -> lookup_name x m <> None) ->
  apply_names (m ++ e) t = apply_names m t.
Proof.
  induction t as [| a | x | a IHa d IHd]; intros H; simpl; auto.
  - rewrite lookup_name_app. destruct (lookup_name x m) eqn:E; [reflexivity|].
    exfalso. apply (H x); simpl; auto.
  - rewrite IHa, IHd; auto; intros x Hx; apply H; simpl; apply in_or_app; auto.
Qed.

(* the term component of first_occ is the final naming applied to the term, and every variable is named *)
Lemma first_occ_apply : forall t m,
  fst (first_occ t m) = apply_names (snd (first_occ t m)) t /\
  forall x, In x (vars t) -> lookup_name x (snd (first_occ t m)) <> None.
Proof.
  induction t as [| a | x | a IHa d IHd]; intros m; simpl.
  - split; [reflexivity|intros x []].
  - split; [reflexivity|intros x []].
  - destruct (lookup_name x m) as [k|] eqn:E; simpl.
    + rewrite E. split; [reflexivity|]. intros y [Hy|[]]. subst. congruence.
    + rewrite lookup_name_app, E. simpl. rewrite N.eqb_refl. split; [reflexivity|].
      intros y [Hy|[]]. subst. rewrite lookup_name_app, E. simpl. rewrite N.eqb_refl. discriminate.
  - destruct (IHa m) as [Ea Na]. destruct (first_occ a m) as [a' m1]. simpl in Ea, Na.
    destruct (IHd m1) as [Ed Nd]. destruct (first_occ_ext d m1) as [e Ee].
    destruct (first_occ d m1) as [d' m2]. simpl in *. subst m2. split.
    + rewrite (apply_names_ext m1 e a Na). congruence.
    + intros x Hx. apply in_app_or in Hx. destruct Hx as [Hx|Hx]; [|auto].
      rewrite lookup_name_app. specialize (Na x Hx). destruct (lookup_name x m1); congruence.
Qed.

Theorem reify_first_occ : forall f q st t, reify_var f q st = Some t ->
  exists vv, walkstar f (TVar q) (sub st) = Some vv /\ t = rename_first_occ vv.
Proof.
  intros f q st t H. unfold reify_var in H.
  destruct (walkstar f (TVar q) (sub st)) as [vv|]; [|discriminate].
  exists vv. split; [reflexivity|].
  destruct (reifys f vv []) as [r|] eqn:Er; [|discriminate].
  apply (reifys_first_occ f vv []) in Er. subst r.
  apply walkstar_nm in H. subst t. unfold rename_first_occ.
  symmetry. apply first_occ_apply.
Qed.
Print Assumptions reify_first_occ.

(* together with (1): the variables that are renamed are exactly the unbound ones *)
Corollary reify_first_occ_resolved : forall f q st t, reify_var f q st = Some t ->
  exists vv, walkstar f (TVar q) (sub st) = Some vv /\
             (forall x, In x (vars vv) -> assv x (sub st) = None) /\ t = rename_first_occ vv.
Proof.
  intros f q st t H. destruct (reify_first_occ f q st t H) as [vv [Hw Ht]].
  exists vv. split; [exact Hw|]. split; [|exact Ht]. eapply walkstar_resolved; eauto.
Qed.

(* ---------- (4) no logic variable leaks ---------- *)

Lemma first_occ_vars : forall t m, vars (fst (first_occ t m)) = [].
Proof.
  induction t as [| a | x | a IHa d IHd]; intros m; simpl; auto.
  - destruct (lookup_name x m); reflexivity.
  - specialize (IHa m). destruct (first_occ a m) as [a' m1]. simpl in IHa.
    specialize (IHd m1). destruct (first_occ d m1) as [d' m2]. simpl in *.
    rewrite IHa, IHd. reflexivity.
Qed.

Lemma rename_first_occ_vars t : vars (rename_first_occ t) = [].
Proof. apply first_occ_vars. Qed.

Theorem reify_no_leak : forall f q st t, reify_var f q st = Some t -> vars t = [].
Proof.
  intros f q st t H. destruct (reify_first_occ f q st t H) as [vv [_ E]]. subst.
  apply rename_first_occ_vars.
Qed.
Print Assumptions reify_no_leak.

(* ---------- (5) alpha-equivalent answers reify identically ---------- *)

Definition rmap (rho : N -> N) (m : list (N * nat)) : list (N * nat) := map (fun p => (rho (fst p), snd p)) m.

Lemma rmap_app rho m1 m2 : rmap rho (m1 ++ m2) = rmap rho m1 ++ rmap rho m2.
Proof. apply map_app. Qed.

Lemma rmap_length rho m : length (rmap rho m) = length m.
Proof. apply map_length. Qed.

Lemma lookup_rmap rho x : forall m, (forall y, In y (map fst m) -> rho y = rho x -> y = x) ->
  lookup_name (rho x) (rmap rho m) = lookup_name x m.
Proof.
  induction m as [|[k v] m IH]; intros Hinj; simpl; [reflexivity|].
  destruct (N.eqb_spec k x) as [E|E].
  - subst. rewrite N.eqb_refl. reflexivity.
  - destruct (N.eqb_spec (rho k) (rho x)) as [E'|E'].
    + exfalso. apply E. apply Hinj; simpl; auto.
    + apply IH. intros y Hy. apply Hinj. simpl. auto.
Qed.

Lemma first_occ_keys : forall t m, incl (map fst (snd (first_occ t m))) (map fst m ++ vars t).
Proof.
  induction t as [| a | x | a IHa d IHd]; intros m; simpl.
  - rewrite app_nil_r. apply incl_refl.
  - rewrite app_nil_r. apply incl_refl.
  - destruct (lookup_name x m); simpl.
    + apply incl_appl. apply incl_refl.
    + rewrite map_app. simpl. apply incl_refl.
  - specialize (IHa m). destruct (first_occ a m) as [a' m1]. simpl in IHa.
    specialize (IHd m1). destruct (first_occ d m1) as [d' m2]. simpl in *.
    intros z Hz. apply IHd in Hz. apply in_app_or in Hz. destruct Hz as [Hz|Hz].
    + apply IHa in Hz. apply in_app_or in Hz. apply in_or_app.
      destruct Hz as [Hz|Hz]; [auto|right; apply in_or_app; auto].
    + apply in_or_app. right. apply in_or_app. auto.
Qed.

Lemma first_occ_rename rho : forall t m,
  (forall x y, In x (map fst m ++ vars t) -> In y (map fst m ++ vars t) -> rho x = rho y -> x = y) ->
  first_occ (rename rho t) (rmap rho m) = (fst (first_occ t m), rmap rho (snd (first_occ t m))).
Proof.
  induction t as [| a | x | a IHa d IHd]; intros m Hinj; simpl; auto.
  - rewrite lookup_rmap.
    + destruct (lookup_name x m); simpl; [reflexivity|].
      rewrite rmap_app, rmap_length. reflexivity.
    + intros y Hy E. apply Hinj; auto; apply in_or_app; simpl; auto.
  - rewrite IHa.
    + pose proof (first_occ_keys a m) as Hk.
      destruct (first_occ a m) as [a' m1]. simpl in *. rewrite IHd.
      * destruct (first_occ d m1) as [d' m2]. reflexivity.
      * assert (Hsub: forall z, In z (map fst m1 ++ vars d) -> In z (map fst m ++ vars a ++ vars d)).
        { intros z Hz. apply in_app_or in Hz. destruct Hz as [Hz|Hz].
          - apply Hk in Hz. apply in_app_or in Hz. apply in_or_app.
            destruct Hz as [Hz|Hz]; [auto|right; apply in_or_app; auto].
          - apply in_or_app. right. apply in_or_app. auto. }
        intros x y Hx Hy. apply Hinj; apply Hsub; assumption.
    + intros x y Hx Hy. apply Hinj.
      * apply in_app_or in Hx. apply in_or_app. destruct Hx as [Hx|Hx]; [auto|right; apply in_or_app; auto].
      * apply in_app_or in Hy. apply in_or_app. destruct Hy as [Hy|Hy]; [auto|right; apply in_or_app; auto].
Qed.

Theorem first_occ_alpha : forall rho t,
  (forall x y, In x (vars t) -> In y (vars t) -> rho x = rho y -> x = y) ->
  rename_first_occ (rename rho t) = rename_first_occ t.
Proof.
  intros rho t Hinj. unfold rename_first_occ.
  change (@nil (N * nat)) with (rmap rho []) at 1.
  rewrite first_occ_rename; [reflexivity|]. simpl. exact Hinj.
Qed.
Print Assumptions first_occ_alpha.

(* converse: answers that reify identically are alpha-equivalent, provided they do not themselves contain
   reified names (a symbol _k already present in an answer is indistinguishable from a name: see
   rename_first_occ_collision below) *)
Fixpoint norei (t : term) : Prop :=
  match t with TAtom (ARei _) => False | TPair a d => norei a /\ norei d | _ => True end.

Fixpoint key_of (k : nat) (m : list (N * nat)) : option N :=
  match m with [] => None | (y, j) :: r => if Nat.eqb j k then Some y else key_of k r end.

Lemma key_of_in k y : forall m, NoDup (map snd m) -> In (y, k) m -> key_of k m = Some y.
Proof.
  induction m as [|[a j] m IH]; simpl; intros Hnd Hin; [contradiction|].
  inversion Hnd as [|j' l' Hj Hl]; subst.
  destruct Hin as [Hin|Hin].
  - inversion Hin; subst. rewrite Nat.eqb_refl. reflexivity.
  - destruct (Nat.eqb_spec j k) as [E|E].
    + subst. exfalso. apply Hj. change k with (snd (y, k)). apply in_map. exact Hin.
    + apply IH; auto.
Qed.

Lemma naming_names_nodup m : naming m -> NoDup (map snd m).
Proof. intros [_ Hs]. rewrite Hs. apply seq_NoDup. Qed.

Lemma reify_name_inj k1 k2 : reify_name k1 = reify_name k2 -> k1 = k2.
Proof. unfold reify_name. intros H. inversion H. apply Nat2N.inj. assumption. Qed.

Lemma alpha_match M1 M2 (rho : N -> N) :
  (forall x k y, lookup_name x M1 = Some k -> lookup_name y M2 = Some k -> rho x = y) ->
  forall t1 t2, norei t1 -> norei t2 ->
  (forall x, In x (vars t1) -> lookup_name x M1 <> None) ->
  (forall y, In y (vars t2) -> lookup_name y M2 <> None) ->
  apply_names M1 t1 = apply_names M2 t2 ->
  rename rho t1 = t2 /\
  forall x, In x (vars t1) -> exists k y, lookup_name x M1 = Some k /\ lookup_name y M2 = Some k.
Proof.
  intros Hrho. induction t1 as [| a | x | a IHa d IHd]; intros t2 N1 N2 V1 V2 H.
  - destruct t2 as [| b | y | a2 d2]; simpl in *; try discriminate.
    + split; [reflexivity|intros x []].
    + specialize (V2 y (or_introl eq_refl)). destruct (lookup_name y M2); [discriminate|congruence].
  - destruct t2 as [| b | y | a2 d2]; simpl in *; try discriminate.
    + split; [congruence|intros x []].
    + specialize (V2 y (or_introl eq_refl)). destruct (lookup_name y M2) as [k|]; [|congruence].
      unfold reify_name in H. inversion H; subst. contradiction.
  - simpl in *. pose proof (V1 x (or_introl eq_refl)) as Vx.
    destruct (lookup_name x M1) as [k|] eqn:Ex; [|congruence].
    destruct t2 as [| b | y | a2 d2]; simpl in *; try discriminate.
    + unfold reify_name in H. inversion H; subst. contradiction.
    + pose proof (V2 y (or_introl eq_refl)) as Vy.
      destruct (lookup_name y M2) as [k2|] eqn:Ey; [|congruence].
      apply reify_name_inj in H. subst k2. split.
      * f_equal. eapply Hrho; eauto.
      * intros z [Hz|[]]. subst z. eauto.
  - destruct t2 as [| b | y | a2 d2]; simpl in *; try discriminate.
    + specialize (V2 y (or_introl eq_refl)). destruct (lookup_name y M2); [discriminate|congruence].
    + inversion H as [[Ha Hd]]. destruct N1 as [N1a N1d]. destruct N2 as [N2a N2d].
      destruct (IHa a2 N1a N2a) as [Ra Wa]; auto.
      { intros z Hz. apply V1. apply in_or_app. auto. }
      { intros z Hz. apply V2. apply in_or_app. auto. }
      destruct (IHd d2 N1d N2d) as [Rd Wd]; auto.
      { intros z Hz. apply V1. apply in_or_app. auto. }
      { intros z Hz. apply V2. apply in_or_app. auto. }
      split; [congruence|]. intros z Hz. apply in_app_or in Hz. destruct Hz; auto.
Qed.

Lemma naming_nil : naming [].
Proof. split; [constructor|reflexivity]. Qed.

Theorem first_occ_alpha_conv : forall t1 t2, norei t1 -> norei t2 ->
  rename_first_occ t1 = rename_first_occ t2 ->
  exists rho, rename rho t1 = t2 /\
              (forall x y, In x (vars t1) -> In y (vars t1) -> rho x = rho y -> x = y).
Proof.
  intros t1 t2 N1 N2 H. unfold rename_first_occ in H.
  destruct (first_occ_apply t1 []) as [E1 V1]. destruct (first_occ_apply t2 []) as [E2 V2].
  pose proof (first_occ_naming t1 [] naming_nil) as Nm1.
  pose proof (first_occ_naming t2 [] naming_nil) as Nm2.
  set (M1 := snd (first_occ t1 [])) in *. set (M2 := snd (first_occ t2 [])) in *.
  rewrite E1, E2 in H.
  set (rho := fun x => match lookup_name x M1 with
                       | Some k => match key_of k M2 with Some y => y | None => x end
                       | None => x end).
  assert (Hrho: forall x k y, lookup_name x M1 = Some k -> lookup_name y M2 = Some k -> rho x = y).
  { intros x k y Hx Hy. unfold rho. rewrite Hx.
    rewrite (key_of_in k y M2); [reflexivity|apply naming_names_nodup; exact Nm2|].
    apply lookup_name_in. exact Hy. }
  destruct (alpha_match M1 M2 rho Hrho t1 t2 N1 N2 V1 V2 H) as [R W].
  exists rho. split; [exact R|].
  intros x x' Hx Hx' Heq.
  destruct (W x Hx) as [k [y [Lx Ly]]]. destruct (W x' Hx') as [k' [y' [Lx' Ly']]].
  rewrite (Hrho x k y Lx Ly), (Hrho x' k' y' Lx' Ly') in Heq. subst y'.
  assert (k = k') by congruence. subst k'.
  pose proof (naming_names_nodup M1 Nm1) as Hnd.
  pose proof (key_of_in k x M1 Hnd (lookup_name_in _ _ _ Lx)) as K1.
  pose proof (key_of_in k x' M1 Hnd (lookup_name_in _ _ _ Lx')) as K2.
  congruence.
Qed.
Print Assumptions first_occ_alpha_conv.

(* the side condition is necessary: an answer that already contains the symbol _0 collides with a variable *)
Example rename_first_occ_collision :
  rename_first_occ (TAtom (ARei 0%N)) = rename_first_occ (TVar 5%N) /\
  forall rho, rename rho (TAtom (ARei 0%N)) <> TVar 5%N.
Proof. split; [reflexivity|intros rho; discriminate]. Qed.

(* at the level of reify_var: two states whose resolved query terms are equal up to an injective renaming
   of their unbound variables reify to the same term *)
Corollary reify_alpha : forall f q1 st1 q2 st2 t1 t2 vv rho,
  reify_var f q1 st1 = Some t1 -> reify_var f q2 st2 = Some t2 ->
  walkstar f (TVar q1) (sub st1) = Some vv -> walkstar f (TVar q2) (sub st2) = Some (rename rho vv) ->
  (forall x y, In x (vars vv) -> In y (vars vv) -> rho x = rho y -> x = y) ->
  t1 = t2.
Proof.
  intros f q1 st1 q2 st2 t1 t2 vv rho H1 H2 W1 W2 Hinj.
  destruct (reify_first_occ _ _ _ _ H1) as [v1 [E1 T1]].
  destruct (reify_first_occ _ _ _ _ H2) as [v2 [E2 T2]].
  rewrite W1 in E1. rewrite W2 in E2. inversion E1; inversion E2; subst.
  symmetry. apply first_occ_alpha. exact Hinj.
Qed.

(* ---------- (6) reification terminates on well-formed states ---------- *)

Theorem reify_total : forall q st, wf (sub st) ->
  exists f0, forall f, (f0 <= f)%nat -> reify_var f q st <> None.
Proof.
  intros q st Hwf.
  destruct (WS_total (sub st) Hwf (TVar q)) as [vv Hvv].
  destruct (walkstar_WS_total (sub st) (TVar q) vv Hvv) as [f1 Hf1].
  exists (Nat.max f1 (S (size vv))). intros f L. unfold reify_var.
  rewrite (walkstar_mono f1 _ _ _ Hf1 f) by lia.
  change (@nil (N * term)) with (nm []).
  rewrite reifys_fuel by lia.
  rewrite walkstar_nm_fuel by lia. discriminate.
Qed.
Print Assumptions reify_total.

(* fuel monotonicity of the whole pipeline *)
Lemma reify_var_mono f q st t : reify_var f q st = Some t ->
  forall f', (f <= f')%nat -> reify_var f' q st = Some t.
Proof.
  unfold reify_var. intros H f' L.
  destruct (walkstar f (TVar q) (sub st)) as [vv|] eqn:Ew; [|discriminate].
  rewrite (walkstar_mono f _ _ _ Ew f' L).
  destruct (reifys f vv []) as [r|] eqn:Er; [|discriminate].
  change (@nil (N * term)) with (nm []) in *.
  rewrite (reifys_mono f vv [] r Er f' L).
  apply (walkstar_mono f); assumption.
Qed.

(* ---------- (7) MKReify and Run ---------- *)

Theorem mkreify_spec : forall f l ts, mkreify f l = Some ts ->
  Forall2 (fun st t => reify_var f 0%N st = Some t) l ts.
Proof.
  intros f. induction l as [|st l IH]; intros ts H; simpl in H.
  - inversion H. constructor.
  - destruct (reify_var f 0%N st) as [t|] eqn:E; [|discriminate].
    destruct (mkreify f l) as [ts'|]; [|discriminate].
    inversion H; subst. constructor; auto.
Qed.
Print Assumptions mkreify_spec.

Lemma mkreify_complete : forall f l ts,
  Forall2 (fun st t => reify_var f 0%N st = Some t) l ts -> mkreify f l = Some ts.
Proof.
  intros f l ts H. induction H as [|st t l ts Hst _ IH]; simpl; [reflexivity|].
  rewrite Hst, IH. reflexivity.
Qed.

Theorem run_spec : forall ds uf f n g outs, run ds uf f n g = Some outs ->
  exists l, take ds uf f n (eval ds uf g [TVar 0%N] (mkSt [] 1%N)) = Some l /\
            Forall2 (fun st t => reify_var f 0%N st = Some t) l outs.
Proof.
  intros ds uf f n g outs H. unfold run in H.
  destruct (take ds uf f n (eval ds uf g [TVar 0%N] (mkSt [] 1%N))) as [l|]; [|discriminate].
  exists l. split; [reflexivity|]. apply mkreify_spec. exact H.
Qed.
Print Assumptions run_spec.

(* every element of a Run result is variable-free and is the first-occurrence renaming of a resolved answer *)
Corollary run_no_leak : forall ds uf f n g outs, run ds uf f n g = Some outs ->
  Forall (fun t => vars t = []) outs.
Proof.
  intros ds uf f n g outs H. destruct (run_spec _ _ _ _ _ _ H) as [l [_ HF]].
  clear H. induction HF as [|st t l' ts Hst HF IH]; constructor.
  - eapply reify_no_leak; exact Hst.
  - exact IH.
Qed.

(* ---------- (8) non-vacuity ---------- *)

Example reify_example :
  reify_var 10 0%N (mkSt [(0%N, TPair (TVar 1%N) (TPair (TVar 2%N) (TVar 1%N))); (1%N, TVar 3%N)] 4%N)
  = Some (TPair (reify_name 0) (TPair (reify_name 1) (reify_name 0))).
Proof. vm_compute. reflexivity. Qed.

Example reifys_example :
  reifys 10 (TPair (TVar 3%N) (TPair (TVar 2%N) (TVar 3%N))) []
  = Some [(3%N, reify_name 0); (2%N, reify_name 1)].
Proof. vm_compute. reflexivity. Qed.

(* two alpha-equivalent answers (different variables, different binding chains) print identically *)
Example reify_alpha_example :
  reify_var 10 0%N (mkSt [(0%N, TPair (TVar 7%N) (TPair (TVar 5%N) (TVar 7%N)))] 8%N)
  = reify_var 10 0%N (mkSt [(0%N, TPair (TVar 1%N) (TPair (TVar 2%N) (TVar 1%N))); (1%N, TVar 3%N)] 4%N).
Proof. vm_compute. reflexivity. Qed.
