(* L5 model (C06): the SCHEDULE semantics of a gomini goal.  No proofs here.

   `Runs ds uf g e st outs`: outs is a sequence of states that the invocation `g(ctx, st, ss)` can write to its output
   stream ss before it returns (ctx never cancelled), in the order in which the reader of the unbuffered channel ss
   receives them.  One rule per combinator, mirroring gomini/operators.go and ifthenelse.go:

     EqualO        writes the unified state, or nothing                                  (operators.go:9-18)
     SuccessO      writes st;  FailureO writes nothing                                   (operators.go:20-28)
     disj2/DisjO   one goroutine per child, all writing to the SAME ss; the parent returns after wg.Wait():
                   ANY interleaving of the children's output sequences                    (operators.go:30-38, 75-88)
     conj2/ConjO   g1 runs in its own goroutine writing to a private stream g1s (NewStreamForGoal); Bind reads
                   a_1..a_k from g1s (one of g1's output sequences) and starts, for every a_i, a goroutine running the
                   rest of the conjunction on a_i, all writing to the shared ss: any interleaving of their sequences.
                   ConjO() = SuccessO, ConjO(g) = g, ConjO(g1, g2, ...) = Bind(g1, ConjO(g2...))   (operators.go:49-73, 90-107)
     ExistO        NewVar, then the body                                                 (operators.go:66-73)
     IfThenElseO   cond runs on a private stream; if it closes without an answer: els on st; otherwise with h the FIRST
                   state read and rest the remaining ones: Mplus(thn(h), Bind(rest, thn)) = any interleaving of thn's
                   sequence on h and of thn's sequences on the rest                       (ifthenelse.go)
     relation call the Go function call builds the body and runs it: Runs is inductive, so only finite unfoldings.

   Every scheduler decision (which goroutine runs, GOMAXPROCS, which of several blocked senders a receive picks) is
   visible in this semantics only as the choice of interleaving, so "for every schedule" is "for every derivation".
   The interleaving of ALL sequences is an over-approximation of what the Go scheduler can do; that is the safe side
   for the statements `every run delivers ...`; the existence statement exhibits the sequential order, which is the
   schedule where each goroutine runs to completion as soon as it is started.

   What the model does not contain: the channel/WaitGroup protocol itself (see ChanKernel.v for one node), the
   goroutine limiter of limit.go (it only delays `go` statements), cancellation (RunsP below: a goal may stop early). *)
From Coq Require Import List NArith ZArith Bool.
From GMK Require Import Term Unify Goal Stream.
Import ListNotations.

(* l is an interleaving of l1 and l2: both keep their own order *)
Inductive Interleave2 {A : Type} : list A -> list A -> list A -> Prop :=
| I2_nil : Interleave2 [] [] []
| I2_l a l1 l2 l : Interleave2 l1 l2 l -> Interleave2 (a :: l1) l2 (a :: l)
| I2_r a l1 l2 l : Interleave2 l1 l2 l -> Interleave2 l1 (a :: l2) (a :: l).

(* n-ary: fold of the binary one *)
Inductive Interleave {A : Type} : list (list A) -> list A -> Prop :=
| I_nil : Interleave [] []
| I_cons l1 ls lr l : Interleave ls lr -> Interleave2 l1 lr l -> Interleave (l1 :: ls) l.

Section Runs.
  Variable ds : defs.
  Variable uf : term -> term -> subst -> nat.

  Definition unify_eq (t1 t2 : pterm) (e : env) (st : state) : res :=
    unify (uf (close e t1) (close e t2) (sub st)) (close e t1) (close e t2) (sub st).

  (* ---------- complete runs: the goal returns ---------- *)
  Inductive Runs : goal -> env -> state -> list state -> Prop :=
  | R_fail e st : Runs GFail e st []
  | R_succ e st : Runs GSucc e st [st]
  | R_eq_ok t1 t2 e st s' : unify_eq t1 t2 e st = Ok s' -> Runs (GEq t1 t2) e st [mkSt s' (ctr st)]
  | R_eq_fail t1 t2 e st : unify_eq t1 t2 e st = Fail -> Runs (GEq t1 t2) e st []
  | R_disj g1 g2 e st l1 l2 l :
      Runs g1 e st l1 -> Runs g2 e st l2 -> Interleave2 l1 l2 l -> Runs (GDisj g1 g2) e st l
  | R_disjplus z gs e st ls l :
      RunsAll gs e st ls -> Interleave ls l -> Runs (GDisjPlus z gs) e st l
  | R_conj g1 g2 e st l1 ls l :
      Runs g1 e st l1 -> RunsEach g2 e l1 ls -> Interleave ls l -> Runs (GConj g1 g2) e st l
  | R_conjplus_nil z e st : Runs (GConjPlus z []) e st [st]
  | R_conjplus_one z g e st l : Runs g e st l -> Runs (GConjPlus z [g]) e st l
  | R_conjplus_cons z g1 g2 rest e st l1 ls l :
      Runs g1 e st l1 -> RunsEach (GConjPlus z (g2 :: rest)) e l1 ls -> Interleave ls l ->
      Runs (GConjPlus z (g1 :: g2 :: rest)) e st l
  | R_fresh g e st l : Runs g (TVar (ctr st) :: e) (fresh_state st) l -> Runs (GFresh g) e st l
  | R_zzz g e st l : Runs g e st l -> Runs (GZzz g) e st l
  | R_let args g e st l : Runs g (arg_env e args) st l -> Runs (GLet args g) e st l
  | R_call r args body e st l :
      ds r = Some body -> Runs body (arg_env e args) st l -> Runs (GCall r args) e st l
  | R_ifte_else c t el e st l :
      Runs c e st [] -> Runs el e st l -> Runs (GIfte c t el) e st l
  | R_ifte_then c t el e st h rest lh ls l :
      Runs c e st (h :: rest) -> Runs t e h lh -> RunsEach t e rest ls -> Interleave (lh :: ls) l ->
      Runs (GIfte c t el) e st l
  (* every child of a DisjO on the same state *)
  with RunsAll : list goal -> env -> state -> list (list state) -> Prop :=
  | RA_nil e st : RunsAll [] e st []
  | RA_cons g gs e st l ls : Runs g e st l -> RunsAll gs e st ls -> RunsAll (g :: gs) e st (l :: ls)
  (* the goroutines Bind starts: the same goal on every state read *)
  with RunsEach : goal -> env -> list state -> list (list state) -> Prop :=
  | RE_nil g e : RunsEach g e [] []
  | RE_cons g e a tl la ll : Runs g e a la -> RunsEach g e tl ll -> RunsEach g e (a :: tl) (la :: ll).

  (* ---------- partial runs: the goal may be interrupted anywhere (cancellation, or a reader that stops reading, or
     a search that never ends): every goal may stop before it has done anything, children may be unfinished, Bind may
     have read only a prefix of its input.  The outputs of partial runs are exactly what a consumer can have received
     after finitely many steps of a possibly infinite search. ---------- *)
  Inductive RunsP : goal -> env -> state -> list state -> Prop :=
  | RP_stop g e st : RunsP g e st []
  | RP_succ e st : RunsP GSucc e st [st]
  | RP_eq_ok t1 t2 e st s' : unify_eq t1 t2 e st = Ok s' -> RunsP (GEq t1 t2) e st [mkSt s' (ctr st)]
  | RP_disj g1 g2 e st l1 l2 l :
      RunsP g1 e st l1 -> RunsP g2 e st l2 -> Interleave2 l1 l2 l -> RunsP (GDisj g1 g2) e st l
  | RP_disjplus z gs e st ls l :
      RunsPAll gs e st ls -> Interleave ls l -> RunsP (GDisjPlus z gs) e st l
  | RP_conj g1 g2 e st l1 ls l :
      RunsP g1 e st l1 -> RunsPEach g2 e l1 ls -> Interleave ls l -> RunsP (GConj g1 g2) e st l
  | RP_conjplus_nil z e st : RunsP (GConjPlus z []) e st [st]
  | RP_conjplus_one z g e st l : RunsP g e st l -> RunsP (GConjPlus z [g]) e st l
  | RP_conjplus_cons z g1 g2 rest e st l1 ls l :
      RunsP g1 e st l1 -> RunsPEach (GConjPlus z (g2 :: rest)) e l1 ls -> Interleave ls l ->
      RunsP (GConjPlus z (g1 :: g2 :: rest)) e st l
  | RP_fresh g e st l : RunsP g (TVar (ctr st) :: e) (fresh_state st) l -> RunsP (GFresh g) e st l
  | RP_zzz g e st l : RunsP g e st l -> RunsP (GZzz g) e st l
  | RP_let args g e st l : RunsP g (arg_env e args) st l -> RunsP (GLet args g) e st l
  | RP_call r args body e st l :
      ds r = Some body -> RunsP body (arg_env e args) st l -> RunsP (GCall r args) e st l
  (* els starts only after cond's stream was CLOSED without an answer: a complete run of cond *)
  | RP_ifte_else c t el e st l :
      Runs c e st [] -> RunsP el e st l -> RunsP (GIfte c t el) e st l
  | RP_ifte_then c t el e st h rest lh ls l :
      RunsP c e st (h :: rest) -> RunsP t e h lh -> RunsPEach t e rest ls -> Interleave (lh :: ls) l ->
      RunsP (GIfte c t el) e st l
  with RunsPAll : list goal -> env -> state -> list (list state) -> Prop :=
  | RPA_nil e st : RunsPAll [] e st []
  | RPA_cons g gs e st l ls : RunsP g e st l -> RunsPAll gs e st ls -> RunsPAll (g :: gs) e st (l :: ls)
  with RunsPEach : goal -> env -> list state -> list (list state) -> Prop :=
  | RPE_nil g e : RunsPEach g e [] []
  | RPE_cons g e a tl la ll : RunsP g e a la -> RunsPEach g e tl ll -> RunsPEach g e (a :: tl) (la :: ll).
End Runs.
