(* L5 model (C06): the SEQUENTIAL reference semantics of a gomini goal (gomini/operators.go, ifthenelse.go) as a list
   monad with fuel.  No proofs here.

   A gomini goal `g(ctx, st, ss)` runs its whole (finite) search tree and writes every answer to ss; there are no
   suspensions, so a relation call simply runs the body: relations need NOT be guard-shaped.  Recursion through the
   relation table is the only non-structural recursion; `fuel` bounds the depth of relation-call unfolding.
   None = out of fuel (the call depth exceeds `fuel`), an undefined relation, unify out of fuel, or a combinator that
   does not exist in gomini (GOnce).

   Reading of the goal AST for gomini programs (the translator genrels emits exactly these):
     GEq = EqualO,  GSucc/GFail = SuccessO/FailureO,  GDisjPlus _ gs = DisjO(gs...),  GConjPlus _ gs = ConjO(gs...),
     GDisj/GConj = disj2/conj2,  GFresh = ExistO,  GIfte = IfThenElseO,  GCall = call of a Go relation function,
     GLet = inlined non-recursive helper,  GZzz g = g (a gomini program has no delays; the constructor is accepted so
     that the tables of micro/mini programs can be run by both engines).  The flag z of conj+/disj+ is ignored. *)
From Coq Require Import List NArith ZArith Bool.
From GMK Require Import Term Unify Goal Stream.
Import ListNotations.

(* list-monad bind with failure: run k on every element, left to right, and concatenate *)
Fixpoint obind (k : state -> option (list state)) (l : list state) : option (list state) :=
  match l with
  | [] => Some []
  | a :: tl =>
      match k a, obind k tl with
      | Some la, Some lr => Some (la ++ lr)
      | _, _ => None
      end
  end.

(* the total function underlying a partial k (None read as no answers) *)
Definition ktot (k : state -> option (list state)) (a : state) : list state :=
  match k a with Some l => l | None => [] end.

Section Seq.
  Variable ds : defs.
  Variable uf : term -> term -> subst -> nat.

  Fixpoint gseq (fuel : nat) : goal -> env -> state -> option (list state) :=
    fix go (g : goal) (e : env) (st : state) {struct g} : option (list state) :=
      match g with
      | GFail => Some []
      | GSucc => Some [st]
      | GEq t1 t2 =>
          let u := close e t1 in let v := close e t2 in
          match unify (uf u v (sub st)) u v (sub st) with
          | Ok s' => Some [mkSt s' (ctr st)]
          | Fail => Some []
          | OOF => None
          end
      | GDisj g1 g2 =>
          match go g1 e st, go g2 e st with
          | Some l1, Some l2 => Some (l1 ++ l2)
          | _, _ => None
          end
      | GConj g1 g2 =>
          match go g1 e st with
          | Some l1 => obind (fun a => go g2 e a) l1
          | None => None
          end
      | GFresh g1 => go g1 (TVar (ctr st) :: e) (fresh_state st)
      | GZzz g1 => go g1 e st
      | GLet args b => go b (arg_env e args) st
      | GCall r args =>
          match fuel with
          | O => None
          | S fuel' =>
              match ds r with
              | Some body => gseq fuel' body (arg_env e args) st
              | None => None
              end
          end
      | GConjPlus _ gs =>
          (fix cp (gs : list goal) (st : state) : option (list state) :=
             match gs with
             | [] => Some [st]                         (* ConjO() = SuccessO *)
             | [g1] => go g1 e st                      (* ConjO(g) = g *)
             | g1 :: rest =>                           (* ConjO(g1, g2...) = Bind(g1, ConjO(g2...)) *)
                 match go g1 e st with
                 | Some l1 => obind (fun a => cp rest a) l1
                 | None => None
                 end
             end) gs st
      | GDisjPlus _ gs =>
          (fix dp (gs : list goal) : option (list state) :=
             match gs with
             | [] => Some []
             | g1 :: rest =>
                 match go g1 e st, dp rest with
                 | Some l1, Some lr => Some (l1 ++ lr)
                 | _, _ => None
                 end
             end) gs
      | GIfte c t el =>
          match go c e st with
          | None => None
          | Some [] => go el e st
          | Some (h :: rest) => obind (fun a => go t e a) (h :: rest)
          end
      | GOnce _ => None
      end.
End Seq.
