(* Proofs about the model of Limiter.v (C12). *)
From Coq Require Import List Arith Bool Lia Permutation.
From GMK Require Import Leak LeakSpec Limiter.
Import ListNotations.

(* ---------- what a step does ---------- *)
Inductive kind (lim : option nat) (rb : bool) (c c' : cfg) (i : nat) (t t' : task) : label -> Prop :=
| KAcquire : st t = NotStarted -> st t' = Running -> ans t' = ans t -> parent_running (tasks c) t = true ->
             take_token lim (tokens c) = Some (tokens c') -> out c' = out c -> kind lim rb c c' i t t' (LAcquire i)
| KEmit a : st t = Running -> st t' = Running -> ans t = a :: ans t' -> out c' = a :: out c ->
            tokens c' = tokens c -> kind lim rb c c' i t t' (LEmit i)
| KFinish : st t = Running -> st t' = Releasing -> ans t = [] -> ans t' = [] ->
            forallb (child_ok i) (tasks c) = true -> tokens c' = tokens c -> out c' = out c ->
            kind lim rb c c' i t t' (LFinish i)
| KRelease : st t = Releasing -> st t' = Finished -> ans t' = ans t ->
             put_token lim rb (tokens c) = Some (tokens c') -> out c' = out c -> kind lim rb c c' i t t' (LRelease i).

Lemma step_shape lim rb c l c' : step lim rb c l = Some c' ->
  (l = LTick /\ tasks c' = tasks c /\ out c' = out c /\
   exists max, lim = Some max /\ tokens c < max /\ tokens c' = S (tokens c)) \/
  (exists i t t', nth_error (tasks c) i = Some t /\ tasks c' = upd i t' (tasks c) /\
                  par t' = par t /\ waited t' = waited t /\ kind lim rb c c' i t t' l).
Proof.
  intros H. destruct l as [i|i|i|i|]; simpl in H.
  - destruct (nth_error (tasks c) i) as [t|] eqn:E; [|discriminate].
    destruct (st t) eqn:S; try discriminate.
    destruct (parent_running (tasks c) t) eqn:P; [|discriminate].
    destruct (take_token lim (tokens c)) as [k|] eqn:K; [|discriminate].
    inversion H; subst; clear H. right. exists i, t, (set_st t Running). repeat split; auto.
    apply KAcquire; auto.
  - destruct (nth_error (tasks c) i) as [t|] eqn:E; [|discriminate].
    destruct (st t) eqn:S; try discriminate. destruct (ans t) as [|a r] eqn:A; [discriminate|].
    inversion H; subst; clear H. right. exists i, t, (set_ans t r). repeat split; auto.
    apply (KEmit _ _ _ _ _ _ _ a); auto.
  - destruct (nth_error (tasks c) i) as [t|] eqn:E; [|discriminate].
    destruct (st t) eqn:S; try discriminate. destruct (ans t) as [|a r] eqn:A; [|discriminate].
    destruct (forallb (child_ok i) (tasks c)) eqn:F; [|discriminate].
    inversion H; subst; clear H. right. exists i, t, (set_st t Releasing). repeat split; auto.
    apply KFinish; auto.
  - destruct (nth_error (tasks c) i) as [t|] eqn:E; [|discriminate].
    destruct (st t) eqn:S; try discriminate.
    destruct (put_token lim rb (tokens c)) as [k|] eqn:K; [|discriminate].
    inversion H; subst; clear H. right. exists i, t, (set_st t Finished). repeat split; auto.
    apply KRelease; auto.
  - destruct lim as [max|]; [|discriminate]. destruct (tokens c <? max) eqn:L; [|discriminate].
    inversion H; subst; clear H. left. repeat split; auto. exists max. apply Nat.ltb_lt in L. auto.
Qed.

Lemma run_invariant lim rb (P : cfg -> Prop) :
  (forall c l c', P c -> step lim rb c l = Some c' -> P c') ->
  forall ls c c', run lim rb c ls = Some c' -> P c -> P c'.
Proof.
  intros HP. induction ls as [|l ls IH]; simpl; intros c c' H Pc.
  - inversion H; subst; exact Pc.
  - destruct (step lim rb c l) as [c1|] eqn:E; [|discriminate]. eapply IH; eauto.
Qed.

(* ---------- C12_release_never_blocks ---------- *)
Theorem release_never_blocks lim c i t :
  nth_error (tasks c) i = Some t -> st t = Releasing -> exists c', step lim false c (LRelease i) = Some c'.
Proof.
  intros E S. simpl. rewrite E, S. destruct lim as [max|]; simpl; [|eauto].
  destruct (tokens c <? max); eauto.
Qed.

(* ---------- invariants ---------- *)
Definition inv_par (c : cfg) : Prop := forall i t q, nth_error (tasks c) i = Some t -> par t = Some q -> q < i.
Definition inv_started (c : cfg) : Prop :=
  forall i t q tq, nth_error (tasks c) i = Some t -> par t = Some q -> nth_error (tasks c) q = Some tq ->
                   st t = NotStarted -> f_returned (st tq) = false.
Definition inv_ans (c : cfg) : Prop := forall i t, nth_error (tasks c) i = Some t -> f_returned (st t) = true -> ans t = [].
Definition inv_tok (lim : option nat) (c : cfg) : Prop :=
  match lim with Some max => tokens c <= max | None => True end.
Definition Inv (lim : option nat) (c : cfg) : Prop := inv_par c /\ inv_started c /\ inv_ans c /\ inv_tok lim c.

Lemma kind_not_notstarted lim rb c c' i t t' l : kind lim rb c c' i t t' l -> st t' <> NotStarted.
Proof. intros K. inversion K; congruence. Qed.

Lemma forallb_false_exists {A : Type} (f : A -> bool) l : forallb f l = false -> exists x, In x l /\ f x = false.
Proof.
  induction l as [|y l IH]; simpl; [discriminate|]. destruct (f y) eqn:E; simpl.
  - intros H. destruct (IH H) as [x [I F]]. eauto.
  - intros _. eauto.
Qed.

Lemma step_inv lim rb c l c' : Inv lim c -> step lim rb c l = Some c' -> Inv lim c'.
Proof.
  intros [I1 [I2 [I3 I4]]] H. apply step_shape in H.
  destruct H as [[-> [Ht [Ho [max [-> [Lt Tk]]]]]]|[i [t [t' [E [Ht [Pp [Pw K]]]]]]]].
  - unfold Inv, inv_par, inv_started, inv_ans, inv_tok in *. rewrite Ht. repeat split; auto. lia.
  - assert (Li : i < length (tasks c)) by (apply nth_error_Some; congruence).
    (* reading the new task list *)
    assert (R : forall j x, nth_error (tasks c') j = Some x ->
                (j = i /\ x = t') \/ (j <> i /\ nth_error (tasks c) j = Some x)).
    { intros j x Hj. rewrite Ht, nth_error_upd in Hj. destruct (Nat.eqb_spec i j) as [->|NE].
      - rewrite E in Hj. inversion Hj. auto.
      - right. split; auto. }
    repeat split.
    + intros j x q Hj Hq. destruct (R j x Hj) as [[-> ->]|[NE Hj']].
      * rewrite Pp in Hq. eapply I1; eauto.
      * eapply I1; eauto.
    + intros j x q xq Hj Hq Hxq Sx.
      destruct (R j x Hj) as [[-> ->]|[NE Hj']].
      { exfalso. eapply kind_not_notstarted; eauto. }
      destruct (R q xq Hxq) as [[-> ->]|[NEq Hq']].
      * (* the parent is the task that moved *)
        destruct K as [S S' A P Tk O | a S S' A O Tk | S S' A A' F Tk O | S S' A Tk O].
        -- rewrite S'. reflexivity.
        -- rewrite S'. reflexivity.
        -- exfalso. rewrite forallb_forall in F. specialize (F x (nth_error_In _ _ Hj')).
           unfold child_ok in F. rewrite Hq, Nat.eqb_refl, Sx in F. destruct (waited x); discriminate.
        -- exfalso. specialize (I2 j x i t Hj' Hq E Sx). rewrite S in I2. discriminate.
      * exact (I2 j x q xq Hj' Hq Hq' Sx).
    + intros j x Hj Hx. destruct (R j x Hj) as [[-> ->]|[NE Hj']].
      * destruct K as [S S' A P Tk O | a S S' A O Tk | S S' A A' F Tk O | S S' A Tk O].
        -- rewrite S' in Hx. discriminate.
        -- rewrite S' in Hx. discriminate.
        -- exact A'.
        -- rewrite A. apply (I3 i t E). rewrite S. reflexivity.
      * exact (I3 j x Hj' Hx).
    + unfold inv_tok in *. destruct lim as [max|]; auto.
      destruct K as [S S' A P Tk O | a S S' A O Tk | S S' A A' F Tk O | S S' A Tk O].
      * simpl in Tk. destruct (tokens c) eqn:Z; [discriminate|]. inversion Tk. lia.
      * lia.
      * lia.
      * simpl in Tk. destruct (tokens c <? max) eqn:L.
        -- apply Nat.ltb_lt in L. inversion Tk. lia.
        -- destruct rb; [discriminate|]. inversion Tk. lia.
Qed.

Lemma init_inv max p : wfprog p -> Inv (Some max) (init max p).
Proof.
  intros [W1 W2]. repeat split; simpl; auto.
  - intros i t q tq Hi Hq Hqq _. rewrite (W1 tq (nth_error_In _ _ Hqq)). reflexivity.
  - intros i t Hi Hr. rewrite (W1 t (nth_error_In _ _ Hi)) in Hr. discriminate.
Qed.

Lemma init_inv_none k p : wfprog p -> Inv None (init k p).
Proof.
  intros [W1 W2]. repeat split; simpl; auto.
  - intros i t q tq Hi Hq Hqq _. rewrite (W1 tq (nth_error_In _ _ Hqq)). reflexivity.
  - intros i t Hi Hr. rewrite (W1 t (nth_error_In _ _ Hi)) in Hr. discriminate.
Qed.

Lemma run_inv lim rb ls c c' : run lim rb c ls = Some c' -> Inv lim c -> Inv lim c'.
Proof. apply (run_invariant lim rb (Inv lim)). intros; eapply step_inv; eauto. Qed.

(* ---------- termination measure ---------- *)
Lemma work_upd i t t' ts : nth_error ts i = Some t -> work (upd i t' ts) + wt t = work ts + wt t'.
Proof.
  revert i. induction ts as [|y ts IH]; intros [|i]; simpl; intros H; try discriminate.
  - inversion H; subst. lia.
  - specialize (IH i H). lia.
Qed.

Lemma kind_wt lim rb c c' i t t' l : kind lim rb c c' i t t' l -> wt t = S (wt t').
Proof.
  intros K. unfold wt.
  destruct K as [S S' A P Tk O | a S S' A O Tk | S S' A A' F Tk O | S S' A Tk O].
  - rewrite S, S', A. reflexivity.
  - rewrite S, S', A. simpl. reflexivity.
  - rewrite S, S', A. reflexivity.
  - rewrite S, S'. reflexivity.
Qed.

(* every step other than a tick does one unit of work; a tick does none *)
Lemma step_work lim rb c l c' : step lim rb c l = Some c' ->
  if is_tick l then work (tasks c') = work (tasks c) else S (work (tasks c')) = work (tasks c).
Proof.
  intros H. apply step_shape in H.
  destruct H as [[-> [Ht _]]|[i [t [t' [E [Ht [_ [_ K]]]]]]]].
  - simpl. rewrite Ht. reflexivity.
  - pose proof (kind_wt _ _ _ _ _ _ _ _ K) as W. pose proof (work_upd i t t' (tasks c) E) as U.
    rewrite Ht. destruct K; simpl; lia.
Qed.

Lemma step_mu max rb c l c' :
  Inv (Some max) c -> step (Some max) rb c l = Some c' -> mu max c' < mu max c.
Proof.
  intros I H. pose proof (step_inv _ _ _ _ _ I H) as I'.
  destruct I as [_ [_ [_ T]]]. destruct I' as [_ [_ [_ T']]]. simpl in T, T'.
  pose proof (step_work _ _ _ _ _ H) as W. unfold mu.
  destruct (is_tick l) eqn:Tk.
  - destruct l; try discriminate. simpl in H. destruct (tokens c <? max) eqn:L; [|discriminate].
    apply Nat.ltb_lt in L. inversion H; subst; simpl in *. lia.
  - rewrite <- W. rewrite Nat.mul_succ_l. lia.
Qed.

Theorem run_bounded max rb ls : forall c c',
  Inv (Some max) c -> run (Some max) rb c ls = Some c' -> length ls + mu max c' <= mu max c.
Proof.
  induction ls as [|l ls IH]; simpl; intros c c' I H.
  - inversion H; subst. lia.
  - destruct (step (Some max) rb c l) as [c1|] eqn:E; [|discriminate].
    pose proof (step_mu _ _ _ _ _ I E). pose proof (IH _ _ (step_inv _ _ _ _ _ I E) H). lia.
Qed.

(* ---------- progress: with the non-blocking release, only a finished search has no step ---------- *)
Theorem terminal_final max c :
  1 <= max -> Inv (Some max) c -> terminal (Some max) false c -> final c.
Proof.
  intros M [I1 [I2 _]] T.
  (* A: the channel is full, so there is a token *)
  assert (A : exists k, tokens c = S k).
  { specialize (T LTick). simpl in T. destruct (tokens c <? max) eqn:L; [discriminate|].
    apply Nat.ltb_ge in L. destruct (tokens c); [lia|eauto]. }
  destruct A as [k Hk].
  (* B: nobody is in releaseRoutine *)
  assert (B : forall i t, nth_error (tasks c) i = Some t -> st t <> Releasing).
  { intros i t E S. destruct (release_never_blocks (Some max) c i t E S) as [c' X]. rewrite T in X. discriminate. }
  (* C: nobody is running *)
  assert (C : forall i t, nth_error (tasks c) i = Some t -> st t <> Running).
  { intros i0 t0 E0 S0.
    set (P := fun i => match nth_error (tasks c) i with Some t => is_running (st t) | None => false end).
    destruct (max_index P (length (tasks c))) as [i [Hi [Pi Hmax]]].
    { exists i0. split; [apply nth_error_Some; congruence|]. unfold P. rewrite E0, S0. reflexivity. }
    unfold P in Pi. destruct (nth_error (tasks c) i) as [t|] eqn:E; [|discriminate].
    destruct (st t) eqn:S; try discriminate.
    destruct (ans t) as [|a r] eqn:An.
    - pose proof (T (LFinish i)) as F. simpl in F. rewrite E, S, An in F.
      destruct (forallb (child_ok i) (tasks c)) eqn:Fb; [discriminate|].
      apply forallb_false_exists in Fb. destruct Fb as [t' [In' Ck]].
      apply In_nth_error in In'. destruct In' as [j Ej].
      unfold child_ok in Ck. destruct (par t') as [q|] eqn:Pq; [|discriminate].
      destruct (Nat.eqb_spec q i) as [->|NE]; [|discriminate].
      assert (Lij : i < j) by (eapply I1; eauto).
      assert (Lj : j < length (tasks c)) by (apply nth_error_Some; congruence).
      destruct (st t') eqn:S'.
      + pose proof (T (LAcquire j)) as Aq. simpl in Aq. rewrite Ej, S' in Aq.
        unfold parent_running in Aq. rewrite Pq, E, S, Hk in Aq. simpl in Aq. discriminate.
      + specialize (Hmax j Lij Lj). unfold P in Hmax. rewrite Ej, S' in Hmax. discriminate.
      + eapply B; eauto.
      + destruct (waited t'); discriminate.
    - pose proof (T (LEmit i)) as F. simpl in F. rewrite E, S, An in F. discriminate. }
  (* D: nobody is waiting to be started *)
  assert (D : forall i t, nth_error (tasks c) i = Some t -> st t <> NotStarted).
  { intros i0 t0 E0 S0.
    set (P := fun i => match nth_error (tasks c) i with
                       | Some t => match st t with NotStarted => true | _ => false end | None => false end).
    destruct (min_index P (length (tasks c))) as [i [Hi [Pi Hmin]]].
    { exists i0. split; [apply nth_error_Some; congruence|]. unfold P. rewrite E0, S0. reflexivity. }
    unfold P in Pi. destruct (nth_error (tasks c) i) as [t|] eqn:E; [|discriminate].
    destruct (st t) eqn:S; try discriminate.
    pose proof (T (LAcquire i)) as Aq. simpl in Aq. rewrite E, S in Aq. unfold parent_running in Aq.
    destruct (par t) as [q|] eqn:Pq.
    - assert (Lq : q < i) by (eapply I1; eauto).
      destruct (nth_error (tasks c) q) as [tq|] eqn:Eq.
      + destruct (st tq) eqn:Sq.
        * specialize (Hmin q Lq). unfold P in Hmin. rewrite Eq, Sq in Hmin. discriminate.
        * eapply C; eauto.
        * eapply B; eauto.
        * specialize (I2 i t q tq E Pq Eq S). rewrite Sq in I2. discriminate.
      + apply nth_error_None in Eq. lia.
    - rewrite Hk in Aq. simpl in Aq. discriminate. }
  intros t In'. apply In_nth_error in In'. destruct In' as [j Ej].
  destruct (st t) eqn:S; auto; exfalso; [eapply D|eapply C|eapply B]; eauto.
Qed.

(* ---------- the limiter only removes schedules ---------- *)
Lemma step_forget max rb rb' c l c' :
  step (Some max) rb c l = Some c' ->
  if is_tick l then forget c' = forget c else step None rb' (forget c) l = Some (forget c').
Proof.
  intros H. destruct l as [i|i|i|i|]; simpl in *.
  - destruct (nth_error (tasks c) i) as [t|]; [|discriminate]. destruct (st t); try discriminate.
    destruct (parent_running (tasks c) t); [|discriminate]. destruct (tokens c); [discriminate|].
    inversion H; subst. reflexivity.
  - destruct (nth_error (tasks c) i) as [t|]; [|discriminate]. destruct (st t); try discriminate.
    destruct (ans t); [discriminate|]. inversion H; subst. reflexivity.
  - destruct (nth_error (tasks c) i) as [t|]; [|discriminate]. destruct (st t); try discriminate.
    destruct (ans t); [|discriminate]. destruct (forallb (child_ok i) (tasks c)); [|discriminate].
    inversion H; subst. reflexivity.
  - destruct (nth_error (tasks c) i) as [t|]; [|discriminate]. destruct (st t); try discriminate.
    destruct (tokens c <? max); [|destruct rb; [discriminate|]]; inversion H; subst; reflexivity.
  - destruct (tokens c <? max); [|discriminate]. inversion H; subst. reflexivity.
Qed.

Theorem simulation max rb rb' ls : forall c c',
  run (Some max) rb c ls = Some c' -> run None rb' (forget c) (erase ls) = Some (forget c').
Proof.
  induction ls as [|l ls IH]; simpl; intros c c' H.
  - inversion H; subst. reflexivity.
  - destruct (step (Some max) rb c l) as [c1|] eqn:E; [|discriminate].
    pose proof (step_forget max rb rb' _ _ _ E) as F. destruct (is_tick l); simpl.
    + rewrite <- F. apply IH. exact H.
    + rewrite F. apply IH. exact H.
Qed.

(* ---------- the answers: in every run, limited or not, delivered + pending = the program's answers ---------- *)
Lemma concat_ans_same i t t' ts :
  nth_error ts i = Some t -> ans t' = ans t -> concat (map ans (upd i t' ts)) = concat (map ans ts).
Proof.
  revert i. induction ts as [|y ts IH]; intros [|i]; simpl; intros H A; try discriminate; auto.
  - inversion H; subst. rewrite A. reflexivity.
  - rewrite (IH i H A). reflexivity.
Qed.

Lemma concat_ans_emit i t t' a ts :
  nth_error ts i = Some t -> ans t = a :: ans t' ->
  Permutation (concat (map ans ts)) (a :: concat (map ans (upd i t' ts))).
Proof.
  revert i. induction ts as [|y ts IH]; intros [|i]; simpl; intros H A; try discriminate.
  - inversion H; subst. rewrite A. simpl. apply Permutation_refl.
  - specialize (IH i H A). eapply Permutation_trans; [apply Permutation_app_head; exact IH|].
    apply Permutation_sym. apply Permutation_middle.
Qed.

Definition inv_out (p : list task) (c : cfg) : Prop :=
  Permutation (out c ++ concat (map ans (tasks c))) (all_answers p).

Lemma step_out lim rb p c l c' : inv_out p c -> step lim rb c l = Some c' -> inv_out p c'.
Proof.
  unfold inv_out. intros I H. apply step_shape in H.
  destruct H as [[-> [Ht [Ho _]]]|[i [t [t' [E [Ht [_ [_ K]]]]]]]].
  - rewrite Ht, Ho. exact I.
  - rewrite Ht. destruct K as [S S' A P Tk O | a S S' A O Tk | S S' A A' F Tk O | S S' A Tk O].
    + rewrite O, (concat_ans_same i t t' _ E A). exact I.
    + rewrite O. eapply Permutation_trans; [|exact I]. simpl.
      eapply Permutation_trans; [apply Permutation_middle|].
      apply Permutation_app_head. apply Permutation_sym. eapply concat_ans_emit; eauto.
    + rewrite O, (concat_ans_same i t t' _ E) by congruence. exact I.
    + rewrite O, (concat_ans_same i t t' _ E A). exact I.
Qed.

Lemma final_no_pending c : inv_ans c -> final c -> concat (map ans (tasks c)) = [].
Proof.
  unfold inv_ans, final. intros I F.
  assert (X : forall ts, (forall t, In t ts -> ans t = []) -> concat (map ans ts) = []).
  { induction ts as [|y ts IH]; simpl; intros Hs; auto. rewrite (Hs y) by auto. simpl. apply IH. auto. }
  apply X. intros t In'. destruct (In_nth_error _ _ In') as [j Ej]. apply (I j t Ej). rewrite (F t In'). reflexivity.
Qed.

Theorem answers_complete lim rb k p ls c :
  wfprog p -> run lim rb (init k p) ls = Some c -> (lim = None \/ lim = Some k) -> final c ->
  Permutation (out c) (all_answers p).
Proof.
  intros W R L F.
  assert (O : inv_out p c).
  { eapply (run_invariant lim rb (inv_out p)); [intros; eapply step_out; eauto|exact R|].
    unfold inv_out, init. simpl. apply Permutation_refl. }
  assert (I : Inv lim c).
  { eapply run_inv; eauto. destruct L as [->| ->]; [apply init_inv_none|apply init_inv]; auto. }
  destruct I as [_ [_ [I3 _]]]. unfold inv_out in O. rewrite (final_no_pending c I3 F), app_nil_r in O. exact O.
Qed.

(* ---------- the statements of Props/C12.v ---------- *)
Theorem terminates max p ls c :
  1 <= max -> wfprog p -> run (Some max) false (init max p) ls = Some c ->
  length ls + mu max c <= work p * S max /\
  (forall l c', step (Some max) false c l = Some c' -> mu max c' < mu max c) /\
  (terminal (Some max) false c -> final c).
Proof.
  intros M W R. pose proof (init_inv max p W) as I0. pose proof (run_inv _ _ _ _ _ R I0) as I.
  split; [|split].
  - pose proof (run_bounded max false ls _ _ I0 R) as B. unfold mu in B at 2. simpl in B.
    rewrite Nat.sub_diag in B. lia.
  - intros l c' S. eapply step_mu; eauto.
  - apply terminal_final; auto.
Qed.

Theorem same_answers max rb rb' p ls c :
  run (Some max) rb (init max p) ls = Some c ->
  exists c0, run None rb' (init 0 p) (erase ls) = Some c0 /\ out c0 = out c /\ tasks c0 = tasks c /\
             (final c -> final c0).
Proof.
  intros R. exists (forget c). split; [|repeat split; auto].
  apply (simulation max rb rb' ls (init max p) c R).
Qed.

(* disj of two goals under SetMaxRoutines(ctx, 1) with the blocking release of the code: every acquisition needs a
   tick (the parent holds the only permit), a last tick fills the channel, both children write their answers and
   then sit in releaseRoutine for ever; the root sits in wg.Wait() for ever and never closes the stream *)
Definition deadlock_sched : list label :=
  [LAcquire 0; LTick; LAcquire 1; LTick; LAcquire 2; LTick; LEmit 1; LFinish 1; LEmit 2; LFinish 2].

Theorem refuted_blocking_release :
  exists c, run (Some 1) true (init 1 prog_disj) deadlock_sched = Some c /\
    terminal (Some 1) true c /\ ~ final c /\ out c = [8; 7] /\
    (exists t, nth_error (tasks c) 1 = Some t /\ st t = Releasing) /\
    (exists t, nth_error (tasks c) 0 = Some t /\ st t = Running).
Proof.
  eexists. split; [vm_compute; reflexivity|]. split; [|split; [|split; [reflexivity|split]]].
  - intros l. destruct l as [i|i|i|i|]; try reflexivity; destruct i as [|[|[|[|i]]]]; reflexivity.
  - intros F. specialize (F _ (or_introl eq_refl)). discriminate.
  - eexists. split; reflexivity.
  - eexists. split; reflexivity.
Qed.

(* for C11: a single goal writing one answer under SetMaxRoutines(ctx, 1): the answer is delivered and the stream is
   closed (the function has returned), but the goroutine never gets out of releaseRoutine *)
Definition prog_leaf : list task := [mkT None false NotStarted [7]].
Theorem refuted_release_leak :
  exists c, run (Some 1) true (init 1 prog_leaf) [LAcquire 0; LTick; LEmit 0; LFinish 0] = Some c /\
    out c = [7] /\ (exists t, tasks c = [t] /\ st t = Releasing) /\
    forall ls c', run (Some 1) true c ls = Some c' -> c' = c.
Proof.
  eexists. split; [vm_compute; reflexivity|]. split; [reflexivity|]. split; [eexists; split; reflexivity|].
  intros ls c' R. destruct ls as [|l ls]; simpl in R; [inversion R; reflexivity|].
  exfalso. destruct l as [i|i|i|i|]; try discriminate; destruct i as [|[|i]]; discriminate.
Qed.

(* pacing: a Go that is held up (no token) is held up for one tick only - the tick is enabled and enables it *)
Theorem tick_enables_acquire max rb c i t :
  1 <= max -> nth_error (tasks c) i = Some t -> st t = NotStarted -> parent_running (tasks c) t = true ->
  tokens c = 0 ->
  step (Some max) rb c (LAcquire i) = None /\
  exists c1 c2, step (Some max) rb c LTick = Some c1 /\ step (Some max) rb c1 (LAcquire i) = Some c2.
Proof.
  intros M E S P Z. split.
  - simpl. rewrite E, S, P, Z. reflexivity.
  - assert (L : tokens c <? max = true) by (apply Nat.ltb_lt; lia).
    eexists. eexists. split.
    + simpl. rewrite L. reflexivity.
    + simpl. rewrite E, S, P. reflexivity.
Qed.

(* ================================================================================================ *)
(* check-then-act release (Limiter.cstep): two goroutines that finish together both see a free slot; the second send blocks
   forever.  No schedule gets it out: nothing takes a token any more. *)
Definition cta_sched : list clabel := [CCheck 0; CCheck 1; CSend 0].

Lemma cta_stuck : forall (ls : list clabel) (c c' : ccfg), nth_error (rel c) 1 = Some RChecked -> ctok c = 1 ->
  crun 1 c ls = Some c' -> nth_error (rel c') 1 = Some RChecked /\ ctok c' = 1.
Proof.
  induction ls as [|l ls IH]; intros c c' Hr Ht Hrun.
  - inversion Hrun; subst. split; assumption.
  - simpl in Hrun. destruct (cstep 1 c l) as [c1|] eqn:Es; [|discriminate].
    apply (IH c1 c'); try exact Hrun.
    + destruct l as [i|i|]; simpl in Es.
      * destruct (nth_error (rel c) i) as [[| |]|] eqn:En; try discriminate. inversion Es; subst c1. simpl.
        destruct i as [|[|i]]; simpl.
        -- destruct (rel c) as [|a [|b r]]; simpl in *; try discriminate; exact Hr.
        -- rewrite Hr in En. discriminate.
        -- destruct (rel c) as [|a [|b r]]; simpl in *; try discriminate; exact Hr.
      * destruct (nth_error (rel c) i) as [[| |]|] eqn:En; try discriminate. rewrite Ht in Es. discriminate.
      * rewrite Ht in Es. discriminate.
    + destruct l as [i|i|]; simpl in Es.
      * destruct (nth_error (rel c) i) as [[| |]|]; try discriminate. inversion Es; subst c1. exact Ht.
      * destruct (nth_error (rel c) i) as [[| |]|]; try discriminate. rewrite Ht in Es. discriminate.
      * rewrite Ht in Es. discriminate.
Qed.

Theorem refuted_check_then_act :
  exists c, crun 1 (mkCC 0 [RIdle; RIdle]) cta_sched = Some c /\
            nth_error (rel c) 1 = Some RChecked /\ ctok c = 1 /\
            forall ls c', crun 1 c ls = Some c' -> nth_error (rel c') 1 = Some RChecked /\ ctok c' = 1.
Proof.
  exists (mkCC 1 [RReturned; RChecked]). split; [reflexivity|]. split; [reflexivity|]. split; [reflexivity|].
  intros ls c' Hrun. apply (cta_stuck ls (mkCC 1 [RReturned; RChecked]) c'); [reflexivity|reflexivity|exact Hrun].
Qed.
Print Assumptions refuted_check_then_act.

(* with the atomic non-blocking hand-back there is no such state: release_never_blocks above *)

(* ================================================================================================ *)
(* installing the limit (Limiter.fstep) *)
Lemma frun_fills max tr : forall j tok todo, tok + j <= max -> j <= todo ->
  frun max tr (tok, todo) (repeat FFill j) = Some (tok + j, todo - j).
Proof.
  induction j as [|j IH]; intros tok todo H1 H2; simpl.
  - rewrite Nat.add_0_r, Nat.sub_0_r. reflexivity.
  - destruct todo as [|todo]; [lia|]. destruct (Nat.ltb_spec tok max) as [L|L]; [|lia].
    rewrite (IH (S tok) todo) by lia. f_equal. f_equal; lia.
Qed.

(* with the ticker already running: one tick during the fill, and the last send blocks for ever (no label is enabled, and
   nothing can take a permit: the limit has not been returned to the caller yet) - for EVERY max >= 1 *)
Theorem refuted_fill_after_ticker max : 1 <= max ->
  frun max true (0, max) (FTick :: repeat FFill (max - 1)) = Some (max, 1) /\
  forall l, fstep max true (max, 1) l = None.
Proof.
  intros H. split.
  - simpl. destruct (Nat.ltb_spec 0 max) as [L|L]; [|lia]. rewrite (frun_fills max true (max - 1) 1 max) by lia.
    f_equal. f_equal; lia.
  - intros [|]; simpl; rewrite Nat.ltb_irrefl; reflexivity.
Qed.

(* the repaired order - all permits first, the ticker afterwards: the fill completes with exactly max permits *)
Theorem fill_before_ticker max : frun max false (0, max) (repeat FFill max) = Some (max, 0) /\
  forall ls c, frun max false (0, max) ls = Some c -> fst c + snd c = max.
Proof.
  split.
  - rewrite (frun_fills max false max 0 max) by lia. f_equal. f_equal; lia.
  - assert (G : forall ls c0 c, fst c0 + snd c0 = max -> frun max false c0 ls = Some c -> fst c + snd c = max).
    { induction ls as [|l ls IH]; intros [tok todo] c Hc Hr; simpl in Hr.
      - injection Hr as E. rewrite <- E. exact Hc.
      - destruct l; simpl in Hr.
        + destruct todo as [|todo]; [discriminate|]. destruct (tok <? max); [|discriminate].
          apply (IH (S tok, todo) c); [simpl in *; lia|exact Hr].
        + discriminate. }
    intros ls c Hr. apply (G ls (0, max) c); [simpl; lia|exact Hr].
Qed.
Print Assumptions refuted_fill_after_ticker.
Print Assumptions fill_before_ticker.
