(* Proofs about the Compare model (C16). *)
From Coq Require Import List NArith ZArith Bool Lia Permutation Sorted.
From GMK Require Import SexprStruct.
Import ListNotations.

(* ---------- lawful three-way comparisons ---------- *)

Definition lawful_at {A} (cmp : A -> A -> comparison) (x : A) : Prop :=
  cmp x x = Eq /\
  (forall y, cmp x y = Eq -> x = y) /\
  (forall y, cmp y x = CompOpp (cmp x y)) /\
  (forall y z, cmp x y = Lt -> cmp y z <> Gt -> cmp x z = Lt).

Definition lawful {A} (cmp : A -> A -> comparison) : Prop := forall x, lawful_at cmp x.

Lemma lex_Eq_r c : lex c Eq = c.
Proof. destruct c; reflexivity. Qed.

Lemma lex_props {A B} (c1 : A -> A -> comparison) (c2 : B -> B -> comparison) a b :
  lawful_at c1 a -> lawful_at c2 b ->
  lex (c1 a a) (c2 b b) = Eq /\
  (forall a' b', lex (c1 a a') (c2 b b') = Eq -> a = a' /\ b = b') /\
  (forall a' b', lex (c1 a' a) (c2 b' b) = CompOpp (lex (c1 a a') (c2 b b'))) /\
  (forall a' b' a'' b'', lex (c1 a a') (c2 b b') = Lt -> lex (c1 a' a'') (c2 b' b'') <> Gt ->
                         lex (c1 a a'') (c2 b b'') = Lt).
Proof.
  intros (R1 & E1 & A1 & T1) (R2 & E2 & A2 & T2). repeat split.
  - rewrite R1. simpl. exact R2.
  - destruct (c1 a a') eqn:H1; simpl in H; try discriminate. apply E1; exact H1.
  - destruct (c1 a a') eqn:H1; simpl in H; try discriminate. apply E2; exact H.
  - intros a' b'. rewrite (A1 a'). destruct (c1 a a') eqn:H1; simpl; auto.
  - intros a' b' a'' b'' H H'.
    destruct (c1 a a') eqn:H1; simpl in H; try discriminate.
    + apply E1 in H1. subst a'.
      destruct (c1 a a'') eqn:H2; simpl in *; auto; try congruence.
      eapply T2; eauto.
    + assert (Hn : c1 a' a'' <> Gt) by (destruct (c1 a' a''); simpl in H'; congruence).
      rewrite (T1 a' a'' H1 Hn). reflexivity.
Qed.

Lemma lawful_opt {A} (cmp : A -> A -> comparison) : lawful cmp -> lawful (cmp_opt cmp).
Proof.
  intros L [x|]; unfold lawful_at.
  - destruct (L x) as (R & E & An & T). repeat split.
    + exact R.
    + intros [y|] H; simpl in H; try discriminate. f_equal. apply E; exact H.
    + intros [y|]; simpl; auto.
    + intros [y|] [z|]; simpl; intros H H'; try discriminate; try congruence. eapply T; eauto.
  - repeat split.
    + intros [y|] H; simpl in H; try discriminate. reflexivity.
    + intros [y|]; reflexivity.
    + intros [y|] [z|]; simpl; intros H H'; try discriminate; try congruence.
Qed.

Lemma lawful_inj {A B} (cmp : B -> B -> comparison) (f : A -> B) :
  lawful cmp -> (forall x y, f x = f y -> x = y) -> lawful (fun x y => cmp (f x) (f y)).
Proof.
  intros L I x. destruct (L (f x)) as (R & E & An & T). repeat split; auto.
  - intros y z. apply T.
Qed.

Lemma lawful_N : lawful N.compare.
Proof.
  intros x. repeat split.
  - apply N.compare_refl.
  - intros y. apply N.compare_eq.
  - intros y. apply N.compare_antisym.
  - intros y z H H'. exact (N.lt_le_trans _ _ _ H H').
Qed.

Lemma lawful_Z : lawful Z.compare.
Proof.
  intros x. repeat split.
  - apply Z.compare_refl.
  - intros y. apply Z.compare_eq.
  - intros y. apply Z.compare_antisym.
  - intros y z H H'. exact (Z.lt_le_trans _ _ _ H H').
Qed.

Lemma lawful_prod {A B} (c1 : A -> A -> comparison) (c2 : B -> B -> comparison) :
  lawful c1 -> lawful c2 -> lawful (cmp_prod c1 c2).
Proof.
  intros L1 L2 [a b]. destruct (lex_props c1 c2 a b (L1 a) (L2 b)) as (R & E & An & T).
  unfold cmp_prod. repeat split; simpl.
  - exact R.
  - intros [a' b'] H. simpl in H. destruct (E _ _ H). congruence.
  - intros [a' b']. simpl. apply An.
  - intros [a' b'] [a'' b'']. simpl. apply T.
Qed.

Lemma lawful_str : lawful cmp_str.
Proof.
  intros x. induction x as [|a x IH]; repeat split.
  - intros [|b y] H; simpl in H; try discriminate. reflexivity.
  - intros [|b y]; reflexivity.
  - intros [|b y] [|c z]; simpl; intros H H'; try discriminate; try congruence.
  - simpl. apply (lex_props N.compare cmp_str a x (lawful_N a) IH).
  - intros [|b y] H; simpl in H; try discriminate.
    destruct (lex_props N.compare cmp_str a x (lawful_N a) IH) as (_ & E & _ & _).
    destruct (E _ _ H). congruence.
  - intros [|b y]; simpl; auto.
    apply (lex_props N.compare cmp_str a x (lawful_N a) IH).
  - intros [|b y] [|c z]; simpl; intros H H'; try discriminate; try congruence.
    destruct (lex_props N.compare cmp_str a x (lawful_N a) IH) as (_ & _ & _ & T).
    eapply T; eauto.
Qed.

Lemma lawful_unit : lawful cmp_unit.
Proof. intros []. repeat split; try reflexivity; try (intros []; reflexivity); intros [] [] H; discriminate H. Qed.

Lemma lawful_ext {A} (c c' : A -> A -> comparison) : (forall x y, c x y = c' x y) -> lawful c' -> lawful c.
Proof.
  intros E L x. destruct (L x) as (R & Eq' & An & T). repeat split.
  - rewrite E. exact R.
  - intros y H. rewrite E in H. auto.
  - intros y. rewrite !E. apply An.
  - intros y z H H'. rewrite E in *. eapply T; eauto.
Qed.

(* the generated chains are the lexicographic products of their components, whatever the order the code tries them in *)
Ltac lawful_components :=
  repeat first [ apply lawful_prod | apply lawful_opt | apply lawful_str | apply lawful_Z | apply lawful_N
               | apply lawful_unit | assumption ].

Lemma cmp_var_unfold x y : cmp_var x y = var_cmp (var_proj x) (var_proj y).
Proof. reflexivity. Qed.

(* every field of Variable is compared: the compared components determine the value *)
Lemma var_proj_inj x y : var_proj x = var_proj y -> x = y.
Proof. destruct x, y. unfold var_proj. simpl. intros H. inversion H. reflexivity. Qed.

Lemma lawful_var : lawful cmp_var.
Proof.
  apply (lawful_ext _ (fun x y => var_cmp (var_proj x) (var_proj y)) cmp_var_unfold).
  apply lawful_inj; [|exact var_proj_inj]. unfold var_cmp. lawful_components.
Qed.

Lemma cmp_atom_unfold x y : cmp_atom x y = atom_cmp (atom_proj x) (atom_proj y).
Proof. reflexivity. Qed.

(* every field of Atom is compared *)
Lemma atom_proj_inj x y : atom_proj x = atom_proj y -> x = y.
Proof. destruct x, y. unfold atom_proj. simpl. intros H. inversion H. reflexivity. Qed.

Lemma lawful_atom : lawful cmp_atom.
Proof.
  apply (lawful_ext _ (fun x y => atom_cmp (atom_proj x) (atom_proj y)) cmp_atom_unfold).
  apply lawful_inj; [|exact atom_proj_inj]. unfold atom_cmp.
  pose proof lawful_var as Lv. lawful_components.
Qed.

Scheme sexpr_mut := Induction for sexpr Sort Prop
  with pairo_mut := Induction for pairo Sort Prop.
Combined Scheme sexpr_pairo_ind from sexpr_mut, pairo_mut.

Lemma lawful_sexpr_pair : (forall x, lawful_at cmp_sexpr x) /\ (forall p, lawful_at cmp_pair p).
Proof.
  apply sexpr_pairo_ind.
  - (* SNull *) repeat split.
    + intros [|q b] H; simpl in H; try discriminate; reflexivity.
    + intros [|q b]; reflexivity.
    + intros [|q b] [|r c]; simpl; intros H H'; try discriminate; try congruence.
  - (* SNode *) intros p IHp a.
    pose proof (lawful_opt _ lawful_atom a) as La.
    first [ pose proof (lex_props cmp_pair (cmp_opt cmp_atom) p a IHp La) as (R & E & An & T)
          | pose proof (lex_props (cmp_opt cmp_atom) cmp_pair a p La IHp) as (R & E & An & T) ].
    repeat split.
    + simpl. rewrite lex_Eq_r. exact R.
    + intros [|q b] H; simpl in H; try discriminate. rewrite lex_Eq_r in H.
      destruct (E _ _ H). congruence.
    + intros [|q b]; simpl; auto. rewrite !lex_Eq_r. apply An.
    + intros [|q b] [|r c]; simpl; rewrite ?lex_Eq_r; intros H H'; try discriminate; try congruence.
      eapply T; eauto.
  - (* PNull *) repeat split.
    + intros [|a d] H; simpl in H; try discriminate; reflexivity.
    + intros [|a d]; reflexivity.
    + intros [|a d] [|a' d']; simpl; intros H H'; try discriminate; try congruence.
  - (* PCons *) intros a IHa d IHd.
    pose proof (lex_props cmp_sexpr cmp_sexpr a d IHa IHd) as (R & E & An & T).
    repeat split.
    + simpl. rewrite lex_Eq_r. exact R.
    + intros [|a' d'] H; simpl in H; try discriminate. rewrite lex_Eq_r in H.
      destruct (E _ _ H). congruence.
    + intros [|a' d']; simpl; auto. rewrite !lex_Eq_r. apply An.
    + intros [|a' d'] [|a'' d'']; simpl; rewrite ?lex_Eq_r; intros H H'; try discriminate; try congruence.
      eapply T; eauto.
Qed.

Lemma lawful_sexpr : lawful cmp_sexpr.
Proof. exact (proj1 lawful_sexpr_pair). Qed.

(* ---------- the statements of C16 ---------- *)

Lemma cmp_refl x : cmp_sexpr x x = Eq.
Proof. apply lawful_sexpr. Qed.

Lemma cmp_eq x y : cmp_sexpr x y = Eq -> x = y.
Proof. apply lawful_sexpr. Qed.

Lemma cmp_antisym x y : cmp_sexpr y x = CompOpp (cmp_sexpr x y).
Proof. apply lawful_sexpr. Qed.

Lemma cmp_trans_lt x y z : cmp_sexpr x y = Lt -> cmp_sexpr y z = Lt -> cmp_sexpr x z = Lt.
Proof. intros H H'. destruct (lawful_sexpr x) as (_ & _ & _ & T). eapply T; eauto. congruence. Qed.

Lemma cmp_trans_le x y z : cmp_sexpr x y <> Gt -> cmp_sexpr y z <> Gt -> cmp_sexpr x z <> Gt.
Proof.
  intros H H'. destruct (cmp_sexpr x y) eqn:E; try congruence.
  - apply cmp_eq in E. subst. exact H'.
  - destruct (lawful_sexpr x) as (_ & _ & _ & T). rewrite (T y z E H'). discriminate.
Qed.

Lemma cmp_trans_gt x y z : cmp_sexpr x y = Gt -> cmp_sexpr y z = Gt -> cmp_sexpr x z = Gt.
Proof.
  intros H H'. rewrite (cmp_antisym z x).
  rewrite (cmp_trans_lt z y x); auto.
  - rewrite (cmp_antisym y z), H'. reflexivity.
  - rewrite (cmp_antisym x y), H. reflexivity.
Qed.

(* structural equality of the model trees is what reflect.DeepEqual computes *)
Lemma eqb_str_eq x y : eqb_str x y = true <-> x = y.
Proof.
  revert y; induction x as [|a x IH]; intros [|b y]; simpl; split; intros H; try congruence; try discriminate.
  - apply andb_true_iff in H. destruct H as [H1 H2]. apply N.eqb_eq in H1. apply IH in H2. congruence.
  - inversion H; subst. rewrite N.eqb_refl. simpl. apply IH. reflexivity.
Qed.

Lemma eqb_opt_eq {A} (eqb : A -> A -> bool) :
  (forall x y, eqb x y = true <-> x = y) -> forall x y, eqb_opt eqb x y = true <-> x = y.
Proof.
  intros H [x|] [y|]; simpl; split; intros E; try congruence; try discriminate.
  - f_equal. apply H. exact E.
  - inversion E; subst. apply H. reflexivity.
Qed.

Lemma eqb_var_eq x y : eqb_var x y = true <-> x = y.
Proof.
  destruct x as [n i], y as [n' i']. unfold eqb_var; simpl. rewrite andb_true_iff, eqb_str_eq, N.eqb_eq.
  split; [intros [? ?]; congruence | intros H; inversion H; auto].
Qed.

Lemma eqb_atom_eq x y : eqb_atom x y = true <-> x = y.
Proof.
  destruct x as [a b c d e], y as [a' b' c' d' e']. unfold eqb_atom; simpl.
  rewrite !andb_true_iff, !(eqb_opt_eq eqb_str eqb_str_eq), !(eqb_opt_eq Z.eqb Z.eqb_eq),
    (eqb_opt_eq eqb_var eqb_var_eq).
  split; [intros [[[[? ?] ?] ?] ?]; congruence | intros H; inversion H; auto].
Qed.

Lemma deep_equal_eq_mut :
  (forall x y, deep_equal x y = true <-> x = y) /\ (forall p q, deep_equal_pair p q = true <-> p = q).
Proof.
  apply sexpr_pairo_ind.
  - intros [|q b]; simpl; split; intros H; congruence.
  - intros p IHp a [|q b]; simpl; split; intros H; try congruence; try discriminate.
    + apply andb_true_iff in H. destruct H as [H1 H2]. apply IHp in H1.
      apply (eqb_opt_eq eqb_atom eqb_atom_eq) in H2. congruence.
    + inversion H; subst. apply andb_true_iff; split; [apply IHp; reflexivity|].
      apply (eqb_opt_eq eqb_atom eqb_atom_eq). reflexivity.
  - intros [|a d]; simpl; split; intros H; congruence.
  - intros a IHa d IHd [|a' d']; simpl; split; intros H; try congruence; try discriminate.
    + apply andb_true_iff in H. destruct H as [H1 H2]. apply IHa in H1. apply IHd in H2. congruence.
    + inversion H; subst. apply andb_true_iff; split; [apply IHa | apply IHd]; reflexivity.
Qed.

Lemma deep_equal_eq x y : deep_equal x y = true <-> x = y.
Proof. apply deep_equal_eq_mut. Qed.

Lemma cmp_zero_iff_equal x y : cmp_int (cmp_sexpr x y) = 0%Z <-> deep_equal x y = true.
Proof.
  rewrite deep_equal_eq. split.
  - intros H. apply cmp_eq. destruct (cmp_sexpr x y); simpl in H; congruence.
  - intros ->. rewrite cmp_refl. reflexivity.
Qed.

(* ---------- sorting ---------- *)

Definition le (x y : sexpr) : Prop := cmp_sexpr x y <> Gt.

Definition sorted (l : list sexpr) : Prop := StronglySorted le l.

Lemma le_total x y : le x y \/ le y x.
Proof. unfold le. rewrite (cmp_antisym x y). destruct (cmp_sexpr x y); simpl; intuition congruence. Qed.

Lemma le_antisym x y : le x y -> le y x -> x = y.
Proof.
  unfold le. rewrite (cmp_antisym x y). intros H H'. apply cmp_eq.
  destruct (cmp_sexpr x y); simpl in *; congruence.
Qed.

(* adjacent-pair sortedness (what the harness checks on ast.Sort's output) is the same thing *)
Lemma sorted_of_Sorted l : Sorted le l -> sorted l.
Proof. apply Sorted_StronglySorted. intros x y z. apply cmp_trans_le. Qed.

Theorem sorted_perm_unique l1 : forall l2, sorted l1 -> sorted l2 -> Permutation l1 l2 -> l1 = l2.
Proof.
  induction l1 as [|x l1 IH]; intros l2 S1 S2 P.
  - apply Permutation_nil in P. auto.
  - destruct l2 as [|y l2]; [apply Permutation_sym, Permutation_nil in P; discriminate|].
    inversion S1 as [|? ? S1' F1]; inversion S2 as [|? ? S2' F2]; subst.
    assert (x = y).
    { assert (Ix : In x (y :: l2)) by (eapply Permutation_in; [exact P | left; reflexivity]).
      assert (Iy : In y (x :: l1)) by (eapply Permutation_in; [apply Permutation_sym; exact P | left; reflexivity]).
      destruct Ix as [->|Ix]; auto. destruct Iy as [->|Iy]; auto.
      rewrite Forall_forall in F1, F2. apply le_antisym; auto. }
    subst y. f_equal. apply IH; auto. eapply Permutation_cons_inv; eauto.
Qed.

Lemma insert_perm x l : Permutation (x :: l) (insert x l).
Proof.
  induction l as [|y l IH]; simpl; auto.
  destruct (cmp_sexpr x y); auto.
  eapply perm_trans; [apply perm_swap|]. constructor. exact IH.
Qed.

Lemma isort_perm l : Permutation l (isort l).
Proof.
  induction l as [|x l IH]; simpl; auto.
  eapply perm_trans; [|apply insert_perm]. constructor. exact IH.
Qed.

Lemma insert_sorted x l : sorted l -> sorted (insert x l).
Proof.
  induction l as [|y l IH]; intros S; simpl.
  - repeat constructor.
  - inversion S as [|? ? S' F]; subst.
    destruct (cmp_sexpr x y) eqn:E.
    + constructor; auto. constructor.
      * unfold le; congruence.
      * eapply Forall_impl; [|exact F]. intros z Hz. eapply cmp_trans_le; [|exact Hz]. unfold le; congruence.
    + constructor; auto. constructor.
      * unfold le; congruence.
      * eapply Forall_impl; [|exact F]. intros z Hz. eapply cmp_trans_le; [|exact Hz]. congruence.
    + constructor; [apply IH; exact S'|].
      assert (P := insert_perm x l).
      rewrite Forall_forall in *. intros z Hz.
      apply (Permutation_in _ (Permutation_sym P)) in Hz. destruct Hz as [<-|Hz]; auto.
      unfold le. rewrite (cmp_antisym x y), E. simpl. discriminate.
Qed.

Lemma isort_sorted l : sorted (isort l).
Proof. induction l as [|x l IH]; simpl; [constructor | apply insert_sorted; exact IH]. Qed.

Theorem sort_canonical l l' : Permutation l l' -> sorted l' -> l' = isort l.
Proof.
  intros P S. apply sorted_perm_unique; auto using isort_sorted.
  eapply perm_trans; [apply Permutation_sym; exact P | apply isort_perm].
Qed.

Theorem sort_order_independent l1 l2 s1 s2 :
  Permutation l1 l2 -> Permutation l1 s1 -> sorted s1 -> Permutation l2 s2 -> sorted s2 -> s1 = s2.
Proof.
  intros P P1 S1 P2 S2. apply sorted_perm_unique; auto.
  eapply perm_trans; [apply Permutation_sym; exact P1|]. eapply perm_trans; [exact P|exact P2].
Qed.

(* Less is a strict weak order: the contract sort.Sort needs *)
Lemma less_irrefl x : less x x = false.
Proof. unfold less. rewrite cmp_refl. reflexivity. Qed.

Lemma less_trans x y z : less x y = true -> less y z = true -> less x z = true.
Proof.
  unfold less. intros H H'.
  destruct (cmp_sexpr x y) eqn:E1; try discriminate. destruct (cmp_sexpr y z) eqn:E2; try discriminate.
  rewrite (cmp_trans_lt x y z E1 E2). reflexivity.
Qed.

Lemma less_incomparable_trans x y z :
  less x y = false -> less y x = false -> less y z = false -> less z y = false ->
  less x z = false /\ less z x = false.
Proof.
  unfold less. intros H1 H2 H3 H4.
  assert (x = y).
  { apply cmp_eq. rewrite (cmp_antisym x y) in H2. destruct (cmp_sexpr x y); simpl in *; congruence. }
  assert (y = z).
  { apply cmp_eq. rewrite (cmp_antisym y z) in H4. destruct (cmp_sexpr y z); simpl in *; congruence. }
  subst. rewrite cmp_refl. auto.
Qed.

(* sortedness as the boolean the correspondence uses *)
Fixpoint sortedb (l : list sexpr) : bool :=
  match l with
  | [] => true
  | x :: l' => match l' with [] => true | y :: _ => negb (less y x) && sortedb l' end
  end.

Lemma sortedb_sorted l : sortedb l = true -> sorted l.
Proof.
  intros H. apply sorted_of_Sorted. induction l as [|x l IH]; [constructor|].
  destruct l as [|y l].
  - repeat constructor.
  - cbn [sortedb] in H. apply andb_true_iff in H. destruct H as [H1 H2].
    constructor; [apply IH; exact H2|]. constructor.
    unfold le, less in *. rewrite (cmp_antisym x y) in H1. destruct (cmp_sexpr x y); simpl in *; congruence.
Qed.
