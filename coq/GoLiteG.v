(* Primitives of the gomini dialect of the Go -> Gallina translator (harness/cmd/genmicro -gomini): what gomini/unify.go
   calls - State.CastVar / Get / Set and reflecttools.Any / Map / ZipReduce with callbacks that run in the result monad of
   GoLite.v - over the value model of Reflect.v and the state model of GCore.v.  Model only: no proofs here. *)
From Coq Require Import List NArith ZArith Bool.
From GMK Require Import Term Reflect GCore GoLite.
Import ListNotations.

(* xvar, ok := s.CastVar(x) *)
Definition cast_var2 (x : gval) : N * bool :=
  match cast_var x with Some i => (i, true) | None => (0%N, false) end.

(* xvalue, ok := s.Get(xvar) *)
Definition gget (s : gsub) (i : N) : gval * bool :=
  match gassv i s with Some v => (v, true) | None => (GNil, false) end.

(* reflecttools.Any(x, p): the loop of Reflect.any_loop with a predicate in R, early exit on true *)
Fixpoint any_loopR (p : gval -> R bool) (l : list gval) : R bool :=
  match l with
  | [] => Ret false
  | sl :: l' => bind (p (unwrap sl)) (fun b => if b then Ret true else any_loopR p l')
  end.
Definition ranyR (p : gval -> R bool) (x : gval) : R bool :=
  if is_nil x then Ret false
  else match x with
  | GStructPtr fs => any_loopR p fs
  | GSlice _ es => any_loopR p es
  | _ => Ret false
  end.

(* reflecttools.Map(x, g): the loops of Reflect.map_loop / map_entries with a function in R *)
Fixpoint map_loopR (g : gval -> R gval) (l : list gval) : R (list gval) :=
  match l with
  | [] => Ret []
  | sl :: l' => bind (g (unwrap sl)) (fun b => bind (map_loopR g l') (fun r => Ret (store sl b :: r)))
  end.
Fixpoint map_entriesR (g : gval -> R gval) (l : list (N * gval)) : R (list (N * gval)) :=
  match l with
  | [] => Ret []
  | (k, sl) :: l' => bind (g (unwrap sl)) (fun b => bind (map_entriesR g l') (fun r => Ret ((k, store sl b) :: r)))
  end.
Definition rmapR (g : gval -> R gval) (x : gval) : R gval :=
  if is_nil x then Ret x
  else match x with
  | GStructPtr fs => bind (map_loopR g fs) (fun r => Ret (GStructPtr r))
  | GSlice true _ => Ret x
  | GSlice false es => bind (map_loopR g es) (fun r => Ret (GSlice false r))
  | GMap true _ => Ret x
  | GMap false en => bind (map_entriesR g en) (fun r => Ret (GMap false r))
  | _ => Ret x
  end.

(* reflecttools.ZipReduce(x, y, s, g) at accumulator type *State: Reflect.zipreduce with zero value nil; a nil accumulator
   never reaches g (ZipReduce returns as soon as it sees one); a callback that does not return (out of fuel, panic) ends
   the fold with that outcome *)
Definition state_is_nil (r : R (option gsub)) : bool := match r with Ret None => true | _ => false end.
Definition zipreduce_state (g : gval -> gval -> gsub -> R (option gsub)) (x y : gval) (s : gsub) : R (option gsub) :=
  fst (zipreduce (Ret None) state_is_nil
         (fun a b acc => match acc with Ret (Some s1) => g a b s1 | other => other end)
         (Ret (Some s)) x y).
